(* C09 - calls on existing elements (rename, set_properties, remove_link, unpeer, add_child_interface,
   connect_interface called directly, add_port_mirror_service) and add_component with the id pre-check of
   proposed_fixes/C09-6.patch. *)
From Coq Require Import List NArith Bool Lia.
From FIM Require Import Base.Str Gen.T9Names Model.T9Graph Model.T9Ops Proofs.T9Monad Proofs.T9Simple Proofs.T9Ext
     Proofs.T9Rollback Proofs.T9Connect Proofs.T9Atomic Proofs.T9Facility Proofs.T9Peer Proofs.T9Component
     Proofs.T9CompFresh.
Import ListNotations.
Open Scope N_scope.

(* ---------------------------------------------------------------- checks, then one write *)
Lemma op_rename_atomic x kind new_name : atomic (op_rename x kind new_name).
Proof.
  unfold atomic, op_rename.
  apply atomic_bind_nm; [nm|intro]. apply atomic_bind_nm; [nm|intro]. apply atomic_bind_nm; [nm|intro].
  apply atomic_mutate.
Qed.

Lemma op_set_props_atomic x pure new_rest : atomic (op_set_props x pure new_rest).
Proof. unfold atomic, op_set_props. apply atomic_bind_nm; [nm|intro]. apply atomic_mutate. Qed.

Lemma op_remove_link_atomic name : atomic (op_remove_link name).
Proof.
  unfold atomic, op_remove_link.
  apply atomic_bind_nm; [nm|intro]. apply atomic_bind_nm; [nm|intro]. apply atomic_bind_nm; [nm|intro].
  apply atomic_bind_nm; [nm|intro]. apply atomic_mutate.
Qed.

Lemma node_type_found g x t : node_type g x = Ok t -> exists n, find_node g x = Ok n.
Proof. unfold node_type. destruct (find_node g x); [eauto|discriminate]. Qed.

Lemma op_add_child_atomic fl x name node_id lv pure : atomic (op_add_child fl x name node_id lv pure).
Proof.
  unfold atomic, op_add_child.
  apply atomic_bind_nm; [nm|intro t]. apply atomic_bind_nm; [nm|intro]. apply atomic_bind_nm; [nm|intro names].
  apply atomic_bind_nm; [nm|intro]. apply atomic_bind_nm; [nm|intro].
  eapply atomic_if_weaken; [|apply new_interface_atomic].
  intros s (s4 & (s3 & (s2 & (s1 & (s0 & _ & E0) & E1) & E2) & E3) & E4).
  eapply nm_keeps_parent; [| |exact E4]; [nm|].
  eapply nm_keeps_parent; [| |exact E3]; [nm|].
  eapply nm_keeps_parent; [| |exact E2]; [nm|].
  eapply nm_keeps_parent; [| |exact E1]; [nm|].
  apply ask_ok in E0 as [-> E0]. eapply node_type_found; eauto.
Qed.

(* ---------------------------------------------------------------- unpeer of services that do not peer *)
Lemma op_unpeer_not_peering a b s s' e :
  op_unpeer a b s = (s', Err e) ->
  (forall m t, peerings (sg s) a b = Ok (m, t) -> m = []) ->
  sg s' = sg s.
Proof.
  intros H Hno. unfold op_unpeer in H.
  apply bind_err_cases in H as [H|(s1 & pr & H1 & H)]; [exact (no_mut_ask _ _ _ _ H)|].
  apply ask_ok in H1 as [-> Hp]. destruct pr as [m t]. rewrite (Hno m t Hp) in H. simpl in H.
  unfold bind, guard, raise in H. inversion H. reflexivity.
Qed.

(* ... and whatever the graph: a TopologyException from unpeer means nothing was touched *)
Lemma first_neighbor_err g x r c e : first_neighbor g x r c = Err e -> e = EQuery.
Proof. unfold first_neighbor. destruct (find_node g x) eqn:E; intro H; inversion H; subst. eapply find_node_err; eauto. Qed.

(* ---------------------------------------------------------------- add_port_mirror_service *)
Lemma port_mirror_atomic fl name node_id to_if from_given pure g fresh s' e :
  wf_graph g = true ->
  (forall i, to_if = Some i -> ifaces_typed g [i] = true /\ supply_apart node_id fresh [i] = true) ->
  op_port_mirror fl name node_id to_if from_given pure (mkSt g fresh) = (s', Err e) -> sg s' = g.
Proof.
  intros Hwf Hi H. unfold op_port_mirror in H. destruct to_if as [i|].
  - destruct (Hi i eq_refl) as [H1 H2].
    apply bind_err_cases in H as [H|(s1 & u & Hg & H)]; [exact (no_mut_guard _ _ _ _ _ H)|].
    apply guard_ok in Hg as [-> _]. eapply service_rollback; eauto.
  - unfold raise in H. inversion H. reflexivity.
Qed.

(* ---------------------------------------------------------------- connect_interface called directly *)
Lemma connect_rb_atomic fl ns i g fresh s' e :
  wf_graph g = true -> node_cls g ns = Ok cNS ->
  connect_interface_rb fl ns i (mkSt g fresh) = (s', Err e) -> sg s' = g.
Proof.
  intros Hwf Hns H. assert (Hcl := wf_closed g Hwf). assert (Hnd := wf_nodup g Hwf).
  destruct (node_cls_facts g ns Hns) as (Hin & Hc1 & Hc2).
  unfold connect_interface_rb in H.
  apply bind_err_cases in H as [H|(s1 & nsty & H1 & H)]; [exact (no_mut_ask _ _ _ _ H)|]. apply ask_ok in H1 as [-> _].
  apply bind_err_cases in H as [H|(s1 & u0 & H1 & H)]; [exact (no_mut_guardrails _ _ _ _ _ H)|].
  apply guardrails_ok in H1 as ->.
  apply bind_err_cases in H as [H|(s1 & owner & H1 & H)]; [exact (no_mut_ask _ _ _ _ H)|]. apply ask_ok in H1 as [-> _].
  destruct owner as [on|]; [|exact (no_mut_raise _ _ _ _ H)].
  apply bind_err_cases in H as [H|(s1 & oname & H1 & H)]; [exact (no_mut_ask _ _ _ _ H)|]. apply ask_ok in H1 as [-> _].
  apply bind_err_cases in H as [H|(s1 & peers & H1 & H)]; [exact (no_mut_ask _ _ _ _ H)|]. apply ask_ok in H1 as [-> _].
  apply bind_err_cases in H as [H|(s1 & u1 & H1 & H)]; [exact (no_mut_guard _ _ _ _ _ H)|]. apply guard_ok in H1 as [-> _].
  apply bind_err_cases in H as [H|(s1 & cps & H1 & H)]; [exact (no_mut_ask _ _ _ _ H)|]. apply ask_ok in H1 as [-> _].
  apply bind_err_cases in H as [H|(s1 & u2 & H1 & H)]; [exact (no_mut_guard _ _ _ _ _ H)|]. apply guard_ok in H1 as [-> _].
  apply bind_err_cases in H as [H|(s1 & ltk & H1 & H)]; [exact (no_mut_ask _ _ _ _ H)|]. apply ask_ok in H1 as [-> _].
  apply bind_err_cases in H as [H|(s1 & u3 & H1 & H)]; [exact (no_mut_guard _ _ _ _ _ H)|]. apply guard_ok in H1 as [-> _].
  set (pname := oname ++ dash ++ ih_name i) in *.
  apply bind_err_cases in H as [H|(s2 & p & H1 & H)].
  { refine (new_interface_atomic fl pname None ns (Some tServicePort) None _ s' e _ H).
    unfold parent_found. simpl. apply parent_found_In; auto. }
  destruct (new_interface_shape _ _ _ _ _ _ (mkSt g fresh) s2 p Hcl H1) as (Hnew & Hs2 & _ & _). simpl sg in Hnew, Hs2.
  set (o := mkNode p cCP pname tServicePort 0) in *.
  apply catch_any_err in H as (s3 & e3 & Hm & Hh).
  assert (Hs3 : sg s3 = plus_port g ns o).
  { transitivity (sg s2); [|exact Hs2].
    apply bind_err_cases in Hm as [Hm|(s4 & ity & H4 & Hm)]; [exact (no_mut_ask _ _ _ _ Hm)|].
    apply ask_ok in H4 as [-> _].
    apply bind_err_cases in Hm as [Hm|(s4 & l0 & _ & Hm)]; [|unfold ret in Hm; discriminate].
    exact (new_link_atomic fl _ None _ _ None s2 s3 e3 I Hm). }
  destruct s3 as [g3 fr3]. simpl in Hs3. subst g3.
  unfold bind in Hh.
  replace (remove_cp_and_links p) with (remove_cp_and_links (nid o)) in Hh by reflexivity.
  rewrite (remove_fresh_port g ns o fr3 Hcl Hnd) in Hh; auto.
  - unfold raise in Hh. inversion Hh. reflexivity.
  - apply has_node_false_In. exact Hnew.
Qed.

(* ---------------------------------------------------------------- only PropertyGraphQueryException after the checks *)
Lemma never_topo_ask {A} (q : graph -> res A) : (forall g e, q g = Err e -> e = EQuery) -> never_topo (ask q).
Proof.
  intros Hq s s' H. unfold ask in H. destruct (q (sg s)) eqn:E; inversion H; subst.
  apply Hq in E. discriminate.
Qed.

Lemma never_topo_remove_cp x : never_topo (remove_cp_and_links x).
Proof.
  unfold remove_cp_and_links.
  apply never_topo_bind; [apply never_topo_ask; intros; eapply first_neighbor_err; eauto|intro parents].
  apply never_topo_bind.
  { apply never_topo_ask. intros g. induction parents as [|p r IH]; intros e H; [discriminate|].
    destruct (first_neighbor g p rConnects cCP) eqn:E1; [|inversion H; subst; eapply first_neighbor_err; eauto].
    match type of H with context [match ?X with _ => _ end] => destruct X eqn:E2 end;
      [discriminate|inversion H; subst; eapply IH; eauto]. }
  intro extra.
  apply never_topo_bind.
  { apply never_topo_ask. intros g. generalize (dedupN (x :: extra)).
    induction l as [|i r IH]; intros e H; [discriminate|].
    destruct (first_neighbor g i rConnects cLink) as [ls|e1] eqn:E1; [|inversion H; subst; eapply first_neighbor_err; eauto].
    set (go2 := fix go2 (ls0 : list N) : res (list N) :=
                  match ls0 with
                  | [] => Ok []
                  | l :: r2 =>
                      match first_neighbor g l rConnects cCP with
                      | Ok cps => match go2 r2 with
                                  | Ok acc => Ok (if Nat.eqb (length cps) 2 then l :: acc else acc)
                                  | Err e0 => Err e0
                                  end
                      | Err e0 => Err e0
                      end
                  end) in *.
    assert (Hgo2 : forall ls0 e0, go2 ls0 = Err e0 -> e0 = EQuery).
    { induction ls0 as [|l r2 IH2]; intros e0 H0; [discriminate|]. simpl in H0.
      destruct (first_neighbor g l rConnects cCP) eqn:E4; [|inversion H0; subst; eapply first_neighbor_err; eauto].
      destruct (go2 r2) eqn:E5; [discriminate|inversion H0; subst; eapply IH2; eauto]. }
    destruct (go2 ls) as [a|e2] eqn:E2.
    - match type of H with context [match ?X with _ => _ end] => destruct X eqn:E3 end;
        [discriminate|inversion H; subst; eapply IH; eauto].
    - inversion H; subst. eapply Hgo2; eauto. }
  intro links. apply never_topo_for_each. intro y. apply never_topo_mutate. intros; eapply g_delete_node_err; eauto.
Qed.

Lemma never_topo_remove_if_cp x : never_topo (remove_if_cp x).
Proof.
  unfold remove_if_cp. apply never_topo_bind.
  - apply never_topo_ask. intros g e H.
    destruct (filter (fun n => (nid n =? x) && (ncls n =? cCP)) (gnodes g)) as [|? [|? ?]]; inversion H; reflexivity.
  - intros [|]; [apply never_topo_remove_cp|apply never_topo_ret].
Qed.

(* a TopologyException from unpeer ("do not peer") means nothing was touched, whatever the graph *)
Lemma op_unpeer_topo_atomic a b : topo_atomic (op_unpeer a b).
Proof.
  unfold op_unpeer. apply topo_atomic_bind_nm; [nm|intro pr]. apply topo_atomic_bind_nm; [nm|intro].
  apply topo_atomic_of_never. apply never_topo_for_each. intro; apply never_topo_remove_if_cp.
Qed.

(* connect_interface without the rollback of C09-7: a TopologyException is always raised before the port is made *)
Lemma node_type_err' g x e : node_type g x = Err e -> e = EQuery.
Proof. unfold node_type. destruct (find_node g x) eqn:E; intro H; inversion H; subst. eapply find_node_err; eauto. Qed.

Lemma connect_topo_atomic fl ns i : topo_atomic (connect_interface fl ns i).
Proof.
  unfold connect_interface.
  apply topo_atomic_bind_nm; [nm|intro]. apply topo_atomic_bind_nm; [apply no_mut_guardrails|intro].
  apply topo_atomic_bind_nm; [nm|intro owner].
  destruct owner as [on|]; [|apply topo_atomic_of_no_mut; nm].
  apply topo_atomic_bind_nm; [nm|intro oname]. apply topo_atomic_bind_nm; [nm|intro peers].
  apply topo_atomic_bind_nm; [nm|intro].
  apply topo_atomic_bind_nm; [nm|intro]. apply topo_atomic_bind_nm; [nm|intro].
  apply topo_atomic_bind_nm; [nm|intro]. apply topo_atomic_bind_nm; [nm|intro].
  destruct fl.
  - apply topo_atomic_of_never. unfold new_interface, new_link. simpl.
    repeat first [ apply never_topo_bind; [|intro] | apply never_topo_ret | apply never_topo_draw
                 | apply never_topo_add_node | apply never_topo_add_edge
                 | (apply never_topo_guard; discriminate)
                 | (apply never_topo_ask; intros; first [solve [eapply node_type_err'; eauto] | solve [eapply find_node_err; eauto]]) ].
  - intros s s' H. unfold bind, new_interface, guard, raise in H. simpl in H. inversion H. reflexivity.
Qed.

(* ---------------------------------------------------------------- add_component with the id pre-check *)
Lemma component_tail_ok pn id name ty (drawn : option (child_ns * N * list (child_if * N))) s :
  found (sg s) pn -> ids_new (sg s) (sliver_ids id drawn) = true ->
  exists s',
    (m_add_node (mkNode id cComp name ty 0) ;;;
     m_add_edge pn rHas id ;;;
     match drawn with
     | None => ret tt
     | Some (ch, nsid, ifs) =>
         m_add_node (mkNode nsid cNS (cn_name ch) (cn_type ch) 0) ;;;
         m_add_edge id rHas nsid ;;;
         for_each ifs (fun ci =>
            m_add_node (mkNode (snd ci) cCP (ci_name (fst ci)) (ci_type (fst ci)) 0) ;;;
            m_add_edge nsid rConnects (snd ci))
     end) s = (s', Ok tt).
Proof.
  intros Hpn Hids. unfold ids_new, sliver_ids in Hids.
  apply andb_true_iff in Hids as [Hnd Hnew].
  apply nodupN_cons in Hnd as [Hid_notin Hnd].
  simpl forallb in Hnew. apply andb_true_iff in Hnew as [Hid_new Hnew]. apply negb_true_iff in Hid_new.
  set (comp := mkNode id cComp name ty 0).
  unfold bind at 1. unfold m_add_node at 1, mutate at 1. rewrite (add_node_ok (sg s) comp Hid_new).
  set (g1 := mkGraph (gnodes (sg s) ++ [comp]) (gedges (sg s))).
  assert (Fpn : found g1 pn) by (apply found_snoc; auto).
  assert (Fid : found g1 id) by (apply (found_new (sg s) comp); auto).
  destruct Fpn as [a Ha]. destruct Fid as [b Hb].
  destruct (add_edge_ok pn rHas id g1 a b Ha Hb) as [g2 Hg2].
  unfold bind at 1. unfold m_add_edge at 1, mutate at 1. simpl sg. rewrite Hg2.
  assert (N2 : gnodes g2 = gnodes g1) by (eapply add_edge_nodes; eauto).
  destruct drawn as [[[ch nsid] ifs]|]; [|eexists; reflexivity].
  apply nodupN_cons in Hnd as [Hns_notin Hnd].
  simpl forallb in Hnew. apply andb_true_iff in Hnew as [Hns_new Hifs_new]. apply negb_true_iff in Hns_new.
  assert (Hns_ne : nsid <> id) by (intro E; apply Hid_notin; left; auto).
  assert (Hns2 : has_node g2 nsid = false).
  { rewrite (has_node_same_nodes g1 g2 nsid N2). unfold g1. rewrite has_node_snoc. rewrite Hns_new. simpl.
    apply N.eqb_neq. auto. }
  set (nsn := mkNode nsid cNS (cn_name ch) (cn_type ch) 0).
  unfold bind at 1. unfold m_add_node at 1, mutate at 1. simpl sg. rewrite (add_node_ok g2 nsn Hns2).
  set (g3 := mkGraph (gnodes g2 ++ [nsn]) (gedges g2)).
  assert (Fid3 : found g3 id).
  { apply found_snoc; auto. apply (found_same_nodes g1 g2 id N2). exists b; exact Hb. }
  assert (Fns3 : found g3 nsid) by (apply (found_new g2 nsn); auto).
  destruct Fid3 as [c Hc]. destruct Fns3 as [d Hd].
  destruct (add_edge_ok id rHas nsid g3 c d Hc Hd) as [g4 Hg4].
  unfold bind at 1. unfold m_add_edge at 1, mutate at 1. simpl sg. rewrite Hg4.
  assert (N4 : gnodes g4 = gnodes g3) by (eapply add_edge_nodes; eauto).
  apply nodupN_NoDup in Hnd. simpl sfresh.
  apply (child_ifs_ok nsid ifs (mkSt g4 (sfresh s))).
  - simpl. apply (found_same_nodes g3 g4 nsid N4). exists d; exact Hd.
  - exact Hnd.
  - intros x Hx. simpl. rewrite (has_node_same_nodes g3 g4 x N4). unfold g3. rewrite has_node_snoc.
    rewrite (has_node_same_nodes g1 g2 x N2). unfold g1. rewrite has_node_snoc.
    rewrite forallb_forall in Hifs_new. specialize (Hifs_new x Hx). apply negb_true_iff in Hifs_new.
    rewrite Hifs_new. simpl.
    assert (x <> id) by (intro E; apply Hid_notin; right; rewrite <- E; exact Hx).
    assert (x <> nsid) by (intro E; apply Hns_notin; rewrite <- E; exact Hx).
    rewrite (neqb_of_neq id x) by auto. rewrite (neqb_of_neq nsid x) by auto. reflexivity.
Qed.

Lemma add_component_atomic_precheck fl pn name node_id spec_given nic sub_ids cat pure s s' e :
  op_add_component true fl pn name node_id spec_given nic sub_ids cat pure s = (s', Err e) -> sg s' = sg s.
Proof.
  intro H. unfold op_add_component in H.
  apply bind_err_cases in H as [H|(s1 & names & H1 & H)]; [exact (no_mut_ask _ _ _ _ H)|]. apply ask_ok in H1 as [-> _].
  apply bind_err_cases in H as [H|(s1 & u1 & H1 & H)]; [exact (no_mut_guard _ _ _ _ _ H)|]. apply guard_ok in H1 as [-> _].
  apply bind_err_cases in H as [H|(s1 & u2 & H1 & H)]; [exact (no_mut_guard _ _ _ _ _ H)|]. apply guard_ok in H1 as [-> _].
  apply bind_err_cases in H as [H|(s1 & id & H1 & H)]; [exact (no_mut_id_or_draw _ _ _ _ H)|].
  assert (G1 : sg s1 = sg s) by exact (no_mut_id_or_draw _ _ _ _ H1). clear H1.
  apply bind_err_cases in H as [H|(s2 & u3 & H1 & H)]; [rewrite <- G1; exact (no_mut_guard _ _ _ _ _ H)|].
  apply guard_ok in H1 as [-> _].
  apply bind_err_cases in H as [H|(s2 & u4 & H1 & H)]; [rewrite <- G1; exact (no_mut_guard _ _ _ _ _ H)|].
  apply guard_ok in H1 as [-> _].
  apply bind_err_cases in H as [H|(s2 & pname & H1 & H)]; [rewrite <- G1; exact (no_mut_ask _ _ _ _ H)|].
  apply ask_ok in H1 as [-> _].
  destruct cat as [spec|e0]; [|rewrite <- G1; exact (no_mut_raise _ _ _ _ H)].
  apply bind_err_cases in H as [H|(s2 & drawn & H1 & H)].
  { rewrite <- G1. destruct (cs_child spec).
    - refine ((_ : no_mut (ifs <- draw_if_ids (cn_ifs c);; nsid <- id_or_draw (cn_id c);; ret (Some (c, nsid, ifs)))) _ _ _ H).
      nm. apply no_mut_draw_if_ids_l.
    - exact (no_mut_ret _ _ _ _ H). }
  assert (G2 : sg s2 = sg s1).
  { destruct (cs_child spec).
    - refine ((_ : no_mut (ifs <- draw_if_ids (cn_ifs c);; nsid <- id_or_draw (cn_id c);; ret (Some (c, nsid, ifs)))) _ _ _ H1).
      nm. apply no_mut_draw_if_ids_l.
    - exact (no_mut_ret _ _ _ _ H1). }
  clear H1.
  apply bind_err_cases in H as [H|(s3 & u5 & H1 & H)]; [rewrite <- G1, <- G2; exact (no_mut_opt_raise _ _ _ _ H)|].
  apply opt_raise_ok in H1 as ->.
  (* the pre-check *)
  apply bind_err_cases in H as [H|(s3 & u6 & H1 & H)].
  { rewrite <- G1, <- G2.
    refine ((_ : no_mut (_ <- ask (fun g => find_node g pn);;
                         ok <- ask (fun g => Ok (ids_new g (sliver_ids id drawn)));; guard ok EQuery)) _ _ _ H). nm. }
  apply bind_ok in H1 as (sx & pnode & Ha & H1). apply ask_ok in Ha as [-> Hpn].
  apply bind_ok in H1 as (sx & ok & Ha & H1). apply ask_ok in Ha as [-> Hok]. apply guard_ok in H1 as [-> Hok'].
  assert (Hok2 : ids_new (sg s2) (sliver_ids id drawn) = true) by (injection Hok as X; rewrite X; auto).
  (* nothing can fail any more *)
  exfalso.
  destruct (component_tail_ok pn id name (cs_type spec) drawn s2) as [s4 H4]; [unfold found; destruct (find_node (sg s2) pn) eqn:Ef; [eauto|discriminate]|exact Hok2|].
  unfold bind in H, H4.
  destruct (m_add_node (mkNode id cComp name (cs_type spec) 0) s2) as [sa [ua|ea]]; [|discriminate H4].
  destruct (m_add_edge pn rHas id sa) as [sb [ub|eb]]; [|discriminate H4].
  destruct drawn as [[[ch nsid] ifs]|].
  - destruct (m_add_node (mkNode nsid cNS (cn_name ch) (cn_type ch) 0) sb) as [sc [uc|ec]]; [|discriminate H4].
    destruct (m_add_edge id rHas nsid sc) as [sd [ud|ed]]; [|discriminate H4].
    rewrite H4 in H. unfold ret in H. discriminate.
  - unfold ret in H. discriminate.
Qed.

(* ---------------------------------------------------------------- witnesses and instances *)
From Coq Require Import String.
From FIM Require Import Proofs.T9Refuted Proofs.T9Final.

Definition g_long_svc : graph :=
  mkGraph (gnodes g_long ++ [mkNode 9 cNS (S "s1") tL2Bridge 7]) (gedges g_long).

(* connect_interface called directly, without the rollback of C09-7: the link name has 256 characters, the
   ServicePort stays *)
Definition w_connect_long : st * res unit :=
  connect_interface Experiment 9 (mkIface 4 (long_name 50)) (mkSt g_long_svc supply).

Lemma connect_atomic_refuted :
  exists fl ns i g fresh s',
    wf_graph g = true /\ node_cls g ns = Ok cNS /\
    op_connect false fl ns i (mkSt g fresh) = (s', Err EValue) /\ sg s' <> g.
Proof.
  exists Experiment, 9, (mkIface 4 (long_name 50)), g_long_svc, supply, (fst w_connect_long).
  split; [vm_compute; reflexivity|]. split; [vm_compute; reflexivity|]. split; [vm_compute; reflexivity|differs].
Qed.

Lemma ex_connect_rb_long :
  let r := op_connect true Experiment 9 (mkIface 4 (long_name 50)) (mkSt g_long_svc supply) in
  snd r = Err EValue /\ sg (fst r) = g_long_svc /\ List.length (sfresh (fst r)) = 6%nat.
Proof. vm_compute. auto. Qed.

Lemma ex_rename :
  snd (op_rename 5 cNN (S "n1") (mkSt g_two_nodes supply)) = Err ETopology /\
  sg (fst (op_rename 5 cNN (S "n1") (mkSt g_two_nodes supply))) = g_two_nodes /\
  snd (op_rename 6 cComp (S "nic1") (mkSt g_two_nodes supply)) = Ok tt /\
  snd (op_rename 8 cCP (S "nic1-p2") (mkSt g_two_nodes supply)) = Err ETopology /\
  snd (op_rename 8 cCP (S "x") (mkSt g_two_nodes supply)) = Ok tt /\
  snd (op_rename 5 cNN (S "x") (mkSt g_two_nodes supply)) = Err EValue.
Proof. vm_compute. repeat split. Qed.

(* the witness of C09_add_component_atomic_refuted is refused before anything is added when the pre-check is there *)
Lemma ex_component_precheck :
  let r := op_add_component true Substrate 1 (S "nic2") (Some 20) true true true (Ok (spec_smartnic 21 22 22)) None
                            (mkSt g_two_nodes supply) in
  snd r = Err EQuery /\ sg (fst r) = g_two_nodes.
Proof. vm_compute. auto. Qed.

(* peering: services 30 and 31 peered; remove_link on the peering link and unpeer with a third service are refused *)
Definition g_peered : graph :=
  mkGraph [mkNode 30 cNS (S "a") tL2Bridge 1; mkNode 31 cNS (S "b") tL2Bridge 1; mkNode 33 cNS (S "c") tL2Bridge 1;
           mkNode 40 cCP (S "a-b") tServicePort 2; mkNode 41 cCP (S "b-a") tServicePort 2;
           mkNode 42 cLink (S "a-b-link") tL2Path 3]
          [mkEdge 30 40 rConnects; mkEdge 31 41 rConnects; mkEdge 42 40 rConnects; mkEdge 42 41 rConnects].
Lemma ex_peered :
  wf_graph g_peered = true /\
  snd (op_remove_link (S "a-b-link") (mkSt g_peered supply)) = Err ETopology /\
  snd (op_unpeer 30 33 (mkSt g_peered supply)) = Err ETopology /\
  sg (fst (op_unpeer 30 33 (mkSt g_peered supply))) = g_peered /\
  snd (op_unpeer 30 31 (mkSt g_peered supply)) = Ok tt /\
  List.length (gnodes (sg (fst (op_unpeer 30 31 (mkSt g_peered supply))))) = 3%nat.
Proof. vm_compute. repeat split. Qed.

(* statements in the shape of Properties/C09.v *)
Lemma rename_atomic_all x kind new_name s s' e : op_rename x kind new_name s = (s', Err e) -> sg s' = sg s.
Proof. apply op_rename_atomic. exact I. Qed.
Lemma set_props_atomic_all x pure r s s' e : op_set_props x pure r s = (s', Err e) -> sg s' = sg s.
Proof. apply op_set_props_atomic. exact I. Qed.
Lemma remove_link_atomic_all name s s' e : op_remove_link name s = (s', Err e) -> sg s' = sg s.
Proof. apply op_remove_link_atomic. exact I. Qed.
Lemma add_child_atomic_all fl x name node_id lv pure s s' e :
  op_add_child fl x name node_id lv pure s = (s', Err e) -> sg s' = sg s.
Proof. apply op_add_child_atomic. exact I. Qed.
Lemma unpeer_topo_all a b s s' : op_unpeer a b s = (s', Err ETopology) -> sg s' = sg s.
Proof. apply op_unpeer_topo_atomic. Qed.
Lemma connect_topo_all rb fl ns i s s' : op_connect rb fl ns i s = (s', Err ETopology) -> sg s' = sg s.
Proof.
  destruct rb; simpl; [|apply connect_topo_atomic].
  (* with the rollback: also fine, but stated separately (any exception) *)
  intro H. unfold connect_interface_rb in H.
  revert H. generalize s s'. change (topo_atomic (connect_interface_rb fl ns i)). unfold connect_interface_rb.
  apply topo_atomic_bind_nm; [nm|intro]. apply topo_atomic_bind_nm; [apply no_mut_guardrails|intro].
  apply topo_atomic_bind_nm; [nm|intro owner].
  destruct owner as [on|]; [|apply topo_atomic_of_no_mut; nm].
  apply topo_atomic_bind_nm; [nm|intro oname]. apply topo_atomic_bind_nm; [nm|intro peers].
  apply topo_atomic_bind_nm; [nm|intro].
  apply topo_atomic_bind_nm; [nm|intro]. apply topo_atomic_bind_nm; [nm|intro].
  apply topo_atomic_bind_nm; [nm|intro]. apply topo_atomic_bind_nm; [nm|intro].
  destruct fl.
  - apply topo_atomic_of_never. apply never_topo_bind.
    + unfold new_interface. simpl.
      repeat first [ apply never_topo_bind; [|intro] | apply never_topo_ret | apply never_topo_draw
                   | apply never_topo_add_node | apply never_topo_add_edge | (apply never_topo_guard; discriminate) ].
    + intro p. intros s0 s1 H. unfold catch_any in H.
      match type of H with context [match ?X with _ => _ end] => destruct X as [s2 [u|e2]] eqn:E end; [discriminate|].
      unfold bind in H. destruct (remove_cp_and_links p s2) as [s3 [u|e3]] eqn:E3.
      * unfold raise in H. inversion H; subst.
        revert E. unfold new_link. simpl.
        match goal with |- ?m s0 = _ -> _ => assert (NT : never_topo m) end; [|intro E; eapply NT; eauto].
        repeat first [ apply never_topo_bind; [|intro] | apply never_topo_ret | apply never_topo_draw
                     | apply never_topo_add_node | apply never_topo_add_edge | (apply never_topo_guard; discriminate)
                     | (apply never_topo_ask; intros; first [solve [eapply node_type_err'; eauto] | solve [eapply find_node_err; eauto]]) ].
      * inversion H; subst. eapply never_topo_remove_cp; eauto.
  - intros s0 s1 H. unfold bind, new_interface, guard, raise in H. simpl in H. inversion H. reflexivity.
Qed.

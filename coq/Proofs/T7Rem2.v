(* C07 - the removal programs: run lemmas for the reading steps (they cannot fail in a sane graph all of whose
   elements carry a name), static facts of a well-formed graph, the disconnection loop. *)
From Coq Require Import String List NArith ZArith Bool Arith Lia.
From FIM Require Import Base.Str Gen.Rules Model.T7Graph Model.T7Ops Model.T7WF Model.T7Steps Model.T7Rel
     Proofs.T7Tables Proofs.T7WFRefl Proofs.T7Frame Proofs.T7Units Proofs.T7Api Proofs.T7Api2 Proofs.T7Api3
     Proofs.T7RelUnits Proofs.T7RelRun Proofs.T7RelCp Proofs.T7Api4 Proofs.T7RelAdd Proofs.T7Api5 Proofs.T7Api6 Proofs.T7Rem.
Import ListNotations.

(* ---- reading steps as runs ------------------------------------------------------------------------------------ *)
Definition named (g : graph) : Prop := forall n, In n (gnodes g) -> exists nm, nname n = Some nm.
Lemma WFr_named eo ep g : WFr eo ep g -> named g.
Proof. intros W n Hn. destruct (r_fields _ _ _ W n Hn) as [t [nm [_ H]]]. eauto. Qed.

Lemma find1_run x s : sane (sg s) -> has_id (sg s) x = true ->
  exists n, find1 x s = (s, Ok n) /\ find_nodes (sg s) x = [n] /\ In n (gnodes (sg s)) /\ nid n = x.
Proof.
  intros [ND _] H. destruct (find_nodes_single _ _ ND H) as [n E]. exists n.
  split; [unfold find1, bind, getg; rewrite E; reflexivity|]. split; [exact E|].
  assert (Hin : In n (find_nodes (sg s) x)) by (rewrite E; left; reflexivity).
  unfold find_nodes in Hin. apply filter_In in Hin as [A B]. apply str_eqb_eq in B. auto.
Qed.

Lemma type_is_run x t s : sane (sg s) -> has_id (sg s) x = true -> type_is x t s = (s, Ok (typ_is (sg s) x t)).
Proof.
  intros Hs H. destruct (find1_run x s Hs H) as [n [E [F _]]].
  unfold type_is, type_of_handle, props, bind. rewrite E. unfold ret, typ_is, typ_of. rewrite F. reflexivity.
Qed.

Lemma check_class_run x ks s k : sane (sg s) -> cls_is (sg s) x k = true -> existsb (cls_eqb k) ks = true ->
  check_class x ks s = (s, Ok tt).
Proof.
  intros Hs C Hk. destruct (find1_run x s Hs (cls_is_has_id _ _ _ C)) as [n [E [F _]]].
  unfold check_class, props, bind. rewrite E.
  assert (ncls n = k) by (unfold cls_is, cls_of in C; rewrite F in C; apply cls_eqb_eq; exact C). subst k.
  rewrite Hk. reflexivity.
Qed.

Lemma find_peers_run i s : sane (sg s) -> has_id (sg s) i = true ->
  find_peers i s = (s, Ok (match raw_peers (sg s) i with [] => None | l => Some l end)).
Proof.
  intros Hs Hi. destruct (find1_run i s Hs Hi) as [n [E _]].
  unfold find_peers, q_second_nb, bind. rewrite E. unfold getg, ret, raw_peers.
  destruct (second_nb (sg s) i Connects KLink KCP); reflexivity.
Qed.
Lemma get_peers_run i t s : sane (sg s) -> named (sg s) -> has_id (sg s) i = true ->
  get_peers i t s = (s, Ok (match raw_peers (sg s) i with [] => None | l => Some (filter (peer_filter (sg s) t) l) end)).
Proof.
  intros Hs Hn Hi. unfold get_peers. unfold bind at 1. rewrite (find_peers_run i s Hs Hi).
  destruct (raw_peers (sg s) i) as [|y l'] eqn:Er; [reflexivity|].
  unfold bind at 1.
  rewrite (filterM_pure _ (peer_filter (sg s) t) (y :: l') s); [reflexivity|].
  intros p Hp. rewrite <- Er in Hp. pose proof (raw_peers_cls _ _ _ Hp) as Cp.
  destruct (find1_run p s Hs (cls_is_has_id _ _ _ Cp)) as [m [Em [Fm [Hm Im]]]].
  unfold props, bind. rewrite Em. destruct (Hn m Hm) as [nm Enm]. rewrite Enm. simpl.
  assert (Km : cls_eqb (ncls m) KCP = true) by (unfold cls_is, cls_of in Cp; rewrite Fm in Cp; exact Cp).
  rewrite Km. simpl. unfold ret. f_equal. f_equal. unfold peer_filter, typ_is, typ_of. rewrite Fm. destruct t; reflexivity.
Qed.

Lemma name_prop_run n s nm : nname n = Some nm -> name_prop n s = (s, Ok nm).
Proof. intro H. unfold name_prop. rewrite H. reflexivity. Qed.

(* get_parent when there is exactly one such neighbour *)
Lemma get_parent_run x r k s o : sane (sg s) -> named (sg s) -> has_id (sg s) x = true ->
  first_nb (sg s) x r k = [o] -> exists nm, get_parent x r k s = (s, Ok (Some (nm, o))).
Proof.
  intros Hs Hn Hx Ho. unfold get_parent. unfold bind at 1. rewrite (q_first_nb_ok x r k s Hs Hx), Ho.
  assert (Hoi : has_id (sg s) o = true).
  { eapply (first_nb_has_id (sg s) x r k o); [apply Hs | rewrite Ho; left; reflexivity]. }
  destruct (find1_run o s Hs Hoi) as [m [Em [_ [Hm _]]]]. destruct (Hn m Hm) as [nm Enm].
  exists nm. unfold props, bind. rewrite Em, (name_prop_run m s nm Enm). reflexivity.
Qed.

(* ---- static facts of a well-formed graph ---------------------------------------------------------------------- *)
Section Static.
Variable g : graph.
Hypothesis W : WF g.

Lemma node_of x : has_id g x = true -> exists n, In n (gnodes g) /\ nid n = x.
Proof. intro H. apply has_id_In in H. exact H. Qed.
Lemma cls_node n k : In n (gnodes g) -> cls_is g (nid n) k = cls_eqb (ncls n) k.
Proof. intro H. apply cls_is_node; [apply (wf_ids _ W) | exact H]. Qed.

Lemma cp_struct x : cls_is g x KCP = true ->
  length (cp_owners g x) = 1 /\
  (forall j, In j (first_nb g x Connects KCP) -> typ_is g x sSubInterface <> typ_is g j sSubInterface) /\
  (typ_is g x sServicePort = true -> length (peers g x) = 1).
Proof.
  intro C. destruct (node_of x (cls_is_has_id _ _ _ C)) as [n [Hn En]].
  assert (Kn : ncls n = KCP) by (rewrite <- En, (cls_node n _ Hn) in C; apply cls_eqb_eq; exact C).
  destruct (wf_struct _ W n Hn) as [_ [S2 _]]. rewrite En in S2. destruct (S2 Kn) as [A [B C3]].
  split; [exact A|]. split; [exact B|]. intro T. apply C3.
  rewrite <- En, (typ_is_node g n _ (wf_ids _ W) Hn) in T. apply ostr_eqb_eq. exact T.
Qed.

Lemma port_owner s x : cls_is g s KNS = true -> In x (first_nb g s Connects KCP) -> In s (cp_owners g x).
Proof.
  intros Cs Hx. assert (Hs : In s (first_nb g x Connects KNS)) by (eapply first_nb_sym; eauto).
  apply In_first_nb in Hs as [Hs _]. unfold cp_owners. apply In_nb_where. exists Connects. split; [exact Hs|].
  rewrite Cs. reflexivity.
Qed.

Lemma kcp_parent_owner x c :
  In c (first_nb g x Connects KCP) -> cls_is g x KCP = true -> typ_is g c sSubInterface = true -> typ_is g x sSubInterface = false ->
  In x (cp_owners g c).
Proof.
  intros Hc Cx Tc Tx. assert (Hx : In x (first_nb g c Connects KCP)) by (eapply first_nb_sym; eauto).
  apply In_first_nb in Hx as [Hx _]. unfold cp_owners. apply In_nb_where. exists Connects. split; [exact Hx|].
  rewrite Tc, Cx, Tx. simpl. apply orb_true_r.
Qed.

(* two interfaces each owned by a service are never joined directly *)
Lemma ns_ports_nonadjacent s1 s2 x1 x2 :
  cls_is g s1 KNS = true -> cls_is g s2 KNS = true ->
  In x1 (first_nb g s1 Connects KCP) -> In x2 (first_nb g s2 Connects KCP) -> ~ In x2 (first_nb g x1 Connects KCP).
Proof.
  intros C1 C2 H1 H2 Hadj.
  assert (K1 : cls_is g x1 KCP = true) by (apply In_first_nb in H1; tauto).
  assert (K2 : cls_is g x2 KCP = true) by (apply In_first_nb in H2; tauto).
  destruct (cp_struct x1 K1) as [L1 [Sh1 _]]. destruct (cp_struct x2 K2) as [L2 _].
  specialize (Sh1 x2 Hadj).
  pose proof (port_owner s1 x1 C1 H1) as O1. pose proof (port_owner s2 x2 C2 H2) as O2.
  assert (Hadj' : In x1 (first_nb g x2 Connects KCP)) by (eapply first_nb_sym; eauto).
  destruct (typ_is g x2 sSubInterface) eqn:T2; destruct (typ_is g x1 sSubInterface) eqn:T1; try congruence.
  - pose proof (kcp_parent_owner x1 x2 Hadj K1 T2 T1) as O3.
    assert (s2 = x1) by (eapply len1_same; [| exact O2 | exact O3]; lia). subst s2.
    rewrite (cls_is_unique _ _ _ KCP C2) in K1; [discriminate | discriminate].
  - pose proof (kcp_parent_owner x2 x1 Hadj' K2 T1 T2) as O3.
    assert (s1 = x2) by (eapply len1_same; [| exact O1 | exact O3]; lia). subst s1.
    rewrite (cls_is_unique _ _ _ KCP C1) in K2; [discriminate | discriminate].
Qed.

(* the interfaces joined to an interface owned by a service are its sub-interfaces, and hang off it alone *)
Lemma own_port_children s x c :
  cls_is g s KNS = true -> In x (first_nb g s Connects KCP) -> In c (first_nb g x Connects KCP) ->
  typ_is g x sSubInterface = false /\ typ_is g c sSubInterface = true /\ first_nb g c Connects KCP = [x].
Proof.
  intros Cs Hx Hc.
  assert (Kx : cls_is g x KCP = true) by (apply In_first_nb in Hx; tauto).
  assert (Kc : cls_is g c KCP = true) by (apply In_first_nb in Hc; tauto).
  destruct (cp_struct x Kx) as [Lx [Shx _]]. specialize (Shx c Hc).
  assert (Hxc : In x (first_nb g c Connects KCP)) by (eapply first_nb_sym; eauto).
  destruct (typ_is g x sSubInterface) eqn:Tx.
  - exfalso. assert (Tc : typ_is g c sSubInterface = false) by (destruct (typ_is g c sSubInterface); congruence).
    pose proof (kcp_parent_owner c x Hxc Kc Tx Tc) as O3. pose proof (port_owner s x Cs Hx) as O1.
    assert (s = c) by (eapply len1_same; [| exact O1 | exact O3]; lia). subst s.
    rewrite (cls_is_unique _ _ _ KCP Cs) in Kc; [discriminate | discriminate].
  - assert (Tc : typ_is g c sSubInterface = true) by (destruct (typ_is g c sSubInterface); congruence).
    split; [reflexivity|]. split; [exact Tc|].
    destruct (node_of c (cls_is_has_id _ _ _ Kc)) as [nc [Hnc Enc]].
    assert (Knc : ncls nc = KCP) by (rewrite <- Enc, (cls_node nc _ Hnc) in Kc; apply cls_eqb_eq; exact Kc).
    pose proof (sub_cp_nbrs_le no_exempt g nc) as Le. rewrite Enc in Le.
    assert (St : struct_Pr no_exempt g nc) by (apply WF_WFr in W; apply (r_struct _ _ _ W nc Hnc eq_refl)).
    specialize (Le St Knc Tc).
    destruct (first_nb g c Connects KCP) as [|a [|b l]]; simpl in *; [contradiction | | lia].
    destruct Hxc as [<-|[]]. reflexivity.
Qed.

(* the elements that have the service s as an owner are its interfaces *)
Lemma in_scope_ns s n : cls_is g s KNS = true -> In n (gnodes g) -> In s (scope_of g n) -> In (nid n) (first_nb g s Connects KCP).
Proof.
  intros Cs Hn H. unfold scope_of in H. destruct (ncls n) eqn:Kn; try destruct H.
  - exfalso. unfold comp_owners in H. apply In_nb_where in H as [r [_ P]]. apply andb_true_iff in P as [_ P].
    rewrite !(cls_is_unique _ _ _ _ Cs) in P; [discriminate P | discriminate | discriminate].
  - exfalso. unfold ns_owners in H. apply In_nb_where in H as [r [_ P]]. apply andb_true_iff in P as [_ P].
    rewrite !(cls_is_unique _ _ _ _ Cs) in P; [discriminate P | discriminate | discriminate | discriminate].
  - unfold cp_owners in H. apply In_nb_where in H as [r [Hadj P]]. apply andb_true_iff in P as [Pr _]. apply rel_eqb_eq in Pr. subst r.
    assert (Kc : cls_is g (nid n) KCP = true) by (rewrite (cls_node n _ Hn), Kn; reflexivity).
    apply In_first_nb. split; [apply nbrs_sym; exact Hadj | exact Kc].
Qed.
End Static.

(* ---- service-port peers after a removal ------------------------------------------------------------------------- *)
Lemma raw_peers_flat g i :
  raw_peers g i = flat_map (fun l => filter (fun k => negb (str_eqb k i)) (any_nb g l KCP)) (first_nb g i Connects KLink).
Proof.
  unfold raw_peers, second_nb. induction (first_nb g i Connects KLink) as [|l L IH]; simpl; [reflexivity|].
  rewrite map_app, IH, map_map. simpl. rewrite map_id. reflexivity.
Qed.

Lemma filter3_len {A} (f a b : A -> bool) X : length (filter f (filter a (filter b X))) <= length (filter f (filter a X)).
Proof.
  induction X as [|x X IH]; simpl; [lia|]. destruct (b x); simpl; destruct (a x); simpl; try destruct (f x); simpl; lia.
Qed.

Lemma sp_peers_mono g d i : d i = false -> length (sp_peers (remove_set g d) i) <= length (sp_peers g i).
Proof.
  intro Hi. unfold sp_peers. rewrite !raw_peers_flat, (first_nb_remove g d i _ _ Hi).
  induction (first_nb g i Connects KLink) as [|l L IH]; simpl; [lia|].
  rewrite filter_app, app_length. destruct (d l) eqn:Dl; simpl; [lia|].
  rewrite filter_app, app_length. apply Nat.add_le_mono; [|exact IH].
  rewrite (any_nb_remove g d l _ Dl).
  rewrite (filter_ext_in (peer_filter (remove_set g d) (Some sServicePort)) (peer_filter g (Some sServicePort))).
  - apply filter3_len.
  - intros p Hp. apply filter_In in Hp as [Hp _]. apply filter_In in Hp as [_ Hp]. apply negb_true_iff in Hp.
    unfold peer_filter. apply (rs_typ g d _ _ Hp).
Qed.

Lemma nonsub_owners g p : typ_is g p sSubInterface = false -> cp_owners g p = first_nb g p Connects KNS.
Proof.
  intro T. unfold cp_owners, nb_where, first_nb. f_equal. apply filter_ext. intros [j r]. simpl. rewrite T. simpl.
  rewrite orb_false_r. reflexivity.
Qed.

Lemma sp_no_children g p : WF g -> subs_under_dedicated g = true -> cls_is g p KCP = true -> typ_is g p sServicePort = true ->
  first_nb g p Connects KCP = [].
Proof.
  intros W X C T. pose proof (cls_is_has_id _ _ _ C) as Hh. apply has_id_In in Hh as [n [Hn En]].
  assert (Kn : ncls n = KCP) by (rewrite <- En, (cls_is_node g n _ (wf_ids _ W) Hn) in C; apply cls_eqb_eq; exact C).
  apply WF_WFr in W. eapply x1_serviceport_no_children; eauto.
Qed.

Lemma one_sp_peer_spec g x : one_sp_peer g = true -> NoDup (map nid (gnodes g)) -> cls_is g x KCP = true -> length (sp_peers g x) <= 1.
Proof.
  intros P ND C. pose proof (cls_is_has_id _ _ _ C) as Hh. apply has_id_In in Hh as [n [Hn En]].
  unfold one_sp_peer in P. rewrite forallb_forall in P. specialize (P n Hn).
  rewrite <- En, (cls_is_node g n _ ND Hn) in C. rewrite C in P. simpl in P. apply Nat.leb_le in P. rewrite En in P. exact P.
Qed.

Lemma remove_set_more g d1 d2 : (forall y, d1 y = true -> d2 y = true) -> remove_set g d2 = remove_set (remove_set g d1) d2.
Proof.
  intro H. rewrite remove_set_twice. apply remove_set_ext. intro y. destruct (d1 y) eqn:E; [rewrite (H y E); reflexivity | reflexivity].
Qed.

(* ---- the disconnection loop of the removal calls ------------------------------------------------------------------ *)
Section Loop.
Variable g0 : graph.
Hypothesis W0 : WF g0.
Hypothesis X0 : subs_under_dedicated g0 = true.
Hypothesis P0 : one_sp_peer g0 = true.
Variable E : str -> bool.
Hypothesis E_nolink : forall y, E y = true -> cls_is g0 y KLink = false.

(* what the loop deletes: service ports and links *)
Definition Kl (y : str) : Prop := (cls_is g0 y KCP = true /\ typ_is g0 y sServicePort = true) \/ cls_is g0 y KLink = true.

Lemma Kl_keeps d k y : (forall y, d y = true -> Kl y) -> cls_is g0 y k = true -> k <> KCP -> k <> KLink -> d y = false.
Proof.
  intros HK C H1 H2. destruct (d y) eqn:D; [|reflexivity]. exfalso.
  destruct (HK y D) as [[C' _]|C']; rewrite (cls_is_unique _ _ _ _ C) in C'; congruence.
Qed.

Lemma step_disconnect_one d s i :
  InvD g0 E d s -> (forall y, d y = true -> Kl y) ->
  has_id g0 i = true -> d i = false -> cls_is g0 i KCP = true ->
  (typ_is g0 i sServicePort = true -> E i = true) ->
  exists d', disconnect_one i s = (mkSt (remove_set g0 d') (sdr s), Ok tt) /\ InvD g0 E d' (mkSt (remove_set g0 d') (sdr s)) /\
     (forall y, d y = true -> d' y = true) /\ (forall y, d' y = true -> Kl y) /\ d' i = false /\
     (forall z, In z (peers (remove_set g0 d') i) -> typ_is g0 z sServicePort = false).
Proof.
  intros I HK Hi Di Ci Ei. pose proof I as [G W].
  pose proof (InvD_sane _ _ _ _ I) as Hs. pose proof (WFr_named _ _ _ W) as Hn.
  assert (His : has_id (sg s) i = true) by (eapply alive_has_id; eauto).
  assert (Same : mkSt (remove_set g0 d) (sdr s) = s) by (clear -G; destruct s as [gs ds]; simpl in G |- *; subst gs; reflexivity).
  assert (NOOP : (forall z, In z (peers (sg s) i) -> typ_is g0 z sServicePort = false) ->
          exists d', (s, Ok tt) = (mkSt (remove_set g0 d') (sdr s), @Ok unit tt) /\ InvD g0 E d' (mkSt (remove_set g0 d') (sdr s)) /\
             (forall y, d y = true -> d' y = true) /\ (forall y, d' y = true -> Kl y) /\ d' i = false /\
             (forall z, In z (peers (remove_set g0 d') i) -> typ_is g0 z sServicePort = false)).
  { intro Q. exists d. rewrite Same. split; [reflexivity|]. split; [exact I|]. split; [auto|]. split; [exact HK|]. split; [exact Di|]. rewrite <- G. exact Q. }
  assert (SPin : forall z, In z (peers (sg s) i) -> typ_is g0 z sServicePort = true -> In z (sp_peers (sg s) i)).
  { intros z Hz Tz. unfold sp_peers. apply filter_In. split; [apply peers_in_raw; exact Hz|]. simpl.
    assert (Dz : d z = false).
    { pose proof (peers_cls _ _ _ Hz) as Cz. apply cls_is_has_id in Cz. rewrite G in Cz. apply has_id_remove_inv in Cz. tauto. }
    rewrite G, (rs_typ g0 d _ _ Dz). exact Tz. }
  unfold disconnect_one. unfold bind at 1. rewrite (get_peers_run i (Some sServicePort) s Hs Hn His).
  destruct (raw_peers (sg s) i) as [|r0 rl] eqn:Er.
  { apply NOOP. intros z Hz. apply peers_in_raw in Hz. rewrite Er in Hz. destruct Hz. }
  rewrite <- Er. fold (sp_peers (sg s) i).
  assert (Len : length (sp_peers (sg s) i) <= 1).
  { rewrite G. etransitivity; [apply (sp_peers_mono g0 d i Di)|]. apply one_sp_peer_spec; [exact P0 | apply (wf_ids _ W0) | exact Ci]. }
  destruct (sp_peers (sg s) i) as [|p [|q l]] eqn:Esp; [| | simpl in Len; lia].
  { apply NOOP. intros z Hz. destruct (typ_is g0 z sServicePort) eqn:Tz; [|reflexivity]. destruct (SPin z Hz Tz). }
  (* exactly one service-port peer p *)
  assert (Hp : In p (sp_peers (sg s) i)) by (rewrite Esp; left; reflexivity).
  unfold sp_peers in Hp. apply filter_In in Hp as [Hraw Tp]. simpl in Tp.
  pose proof (raw_peers_cls _ _ _ Hraw) as Cp. pose proof (cls_is_has_id _ _ _ Cp) as Hps.
  destruct (has_id_alive _ _ _ _ _ I Hps) as [Hp0 Dp].
  assert (Cp0 : cls_is g0 p KCP = true) by (rewrite G, (rs_cls g0 d _ _ Dp) in Cp; exact Cp).
  assert (Tp0 : typ_is g0 p sServicePort = true) by (rewrite G, (rs_typ g0 d _ _ Dp) in Tp; exact Tp).
  assert (Hpi : In p (peers (sg s) i)).
  { eapply raw_in_peers; [exact W | | exact Cp | exact Hraw].
    intros l Hl. destruct (E l) eqn:El; [|reflexivity]. exfalso.
    apply In_first_nb in Hl as [_ Cl]. pose proof (cls_is_has_id _ _ _ Cl) as Hl'. destruct (has_id_alive _ _ _ _ _ I Hl') as [_ Dl].
    rewrite G, (rs_cls g0 d _ _ Dl), (E_nolink l El) in Cl. discriminate. }
  assert (Cis : cls_is (sg s) i KCP = true) by (rewrite G, (rs_cls g0 d _ _ Di); exact Ci).
  assert (NCp : first_nb (sg s) p Connects KCP = []).
  { rewrite G, (first_nb_remove g0 d p _ _ Dp), (sp_no_children g0 p W0 X0 Cp0 Tp0). reflexivity. }
  (* parent_of_iface p *)
  assert (Tsub : typ_is (sg s) p sSubInterface = false) by (apply (typ_is_excl _ _ _ _ Tp); reflexivity).
  assert (Own : exists own, first_nb (sg s) p Connects KNS = [own]).
  { rewrite G, (first_nb_remove g0 d p _ _ Dp).
    assert (Tsub0 : typ_is g0 p sSubInterface = false) by (apply (typ_is_excl _ _ _ _ Tp0); reflexivity).
    destruct (cp_struct g0 W0 p Cp0) as [L1 _]. rewrite (nonsub_owners g0 p Tsub0) in L1.
    destruct (first_nb g0 p Connects KNS) as [|own [|b l]] eqn:Eo; simpl in L1; try lia. exists own. simpl.
    assert (Co : cls_is g0 own KNS = true) by (assert (X : In own (first_nb g0 p Connects KNS)) by (rewrite Eo; left; reflexivity); apply In_first_nb in X; tauto).
    rewrite (Kl_keeps d KNS own HK Co); [reflexivity | discriminate | discriminate]. }
  destruct Own as [own Eown].
  destruct (get_parent_run p Connects KNS s own Hs Hn Hps Eown) as [nm Egp].
  unfold bind at 1. unfold parent_of_iface. unfold bind at 1. rewrite (type_is_run p sSubInterface s Hs Hps), Tsub.
  unfold bind at 1. rewrite Egp. unfold ret at 1.
  (* disconnect_interface i *)
  unfold disconnect_interface. unfold bind at 1. rewrite (get_peers_run i (Some sServicePort) s Hs Hn His).
  rewrite Er. rewrite <- Er. fold (sp_peers (sg s) i). rewrite Esp.
  assert (Pp : forall z, In z (peers (sg s) p) -> z = i).
  { intros z Hz. assert (Hz0 : In z (peers g0 p)) by (rewrite G in Hz; apply (peers_remove_sub g0 d p z Dp) in Hz; tauto).
    assert (Hi0 : In i (peers g0 p)).
    { rewrite G in Hpi. apply (peers_remove_sub g0 d i p Di) in Hpi as [Hpi _]. apply peers_sym; assumption. }
    destruct (cp_struct g0 W0 p Cp0) as [_ [_ L3]]. specialize (L3 Tp0).
    eapply len1_same; [| exact Hz0 | exact Hi0]. lia. }
  destruct (step_remove_cp g0 W0 E d s p I Hp0 Dp Cp0) as [Run I'].
  { intros c z Hc Hz Tz. rewrite NCp in Hc. destruct Hc as [->|[]]. rewrite (Pp z Hz) in *. apply Ei. exact Tz. }
  set (d' := fun y => d y || mem_str y (D_cp (sg s) p true)) in *.
  exists d'. split; [exact Run|]. split; [exact I'|].
  assert (Dinv : forall y, mem_str y (D_cp (sg s) p true) = true -> y = p \/ cls_is (sg s) y KLink = true).
  { intros y Hy. destruct (rc_del_inv (sg s) no_exempt p true Cp (or_introl eq_refl) y Hy) as [[Hy' _]|[_ C]]; [|right; exact C].
    left. unfold cp_ifs, cp_extra in Hy'. rewrite NCp in Hy'. simpl in Hy'. destruct Hy' as [Hy'|[]]. congruence. }
  assert (Dpi : mem_str i (D_cp (sg s) p true) = false).
  { destruct (mem_str i (D_cp (sg s) p true)) eqn:X; [|reflexivity]. exfalso. destruct (Dinv i X) as [->|C].
    - apply In_peers_inv in Hpi as [_ [_ [_ Hne]]]. congruence.
    - rewrite (cls_is_unique _ _ _ KLink Cis) in C; [discriminate | discriminate]. }
  split; [intros y Hy; unfold d'; rewrite Hy; reflexivity|].
  split.
  { intros y Hy. unfold d' in Hy. apply orb_true_iff in Hy as [Hy|Hy]; [apply HK; exact Hy|].
    destruct (Dinv y Hy) as [->|C]; [left; auto|]. right.
    pose proof (cls_is_has_id _ _ _ C) as Hy'. destruct (has_id_alive _ _ _ _ _ I Hy') as [_ Dy].
    rewrite G, (rs_cls g0 d _ _ Dy) in C. exact C. }
  split; [unfold d'; rewrite Di, Dpi; reflexivity|].
  intros z Hz. destruct (typ_is g0 z sServicePort) eqn:Tz; [|reflexivity]. exfalso.
  assert (Eq : remove_set g0 d' = remove_set (sg s) (fun y => mem_str y (D_cp (sg s) p true))).
  { unfold d'. rewrite <- remove_set_twice, <- G. reflexivity. }
  rewrite Eq in Hz. apply (peers_remove_sub (sg s) _ i z Dpi) in Hz as [Hz Dz].
  pose proof (SPin z Hz Tz) as Hzs. destruct Hzs as [<-|[]].
  rewrite (x_in_D_cp (sg s) p true) in Dz. discriminate.
Qed.
End Loop.

Section Loop2.
Variable g0 : graph.
Hypothesis W0 : WF g0.
Hypothesis X0 : subs_under_dedicated g0 = true.
Hypothesis P0 : one_sp_peer g0 = true.
Variable E : str -> bool.
Hypothesis E_nolink : forall y, E y = true -> cls_is g0 y KLink = false.

Lemma state_eta d s : InvD g0 E d s -> mkSt (remove_set g0 d) (sdr s) = s.
Proof. intros [G _]. destruct s as [gs ds]; simpl in G |- *; subst gs; reflexivity. Qed.

Lemma disconnect_loop_run : forall L d s,
  InvD g0 E d s -> (forall y, d y = true -> Kl g0 y) ->
  (forall i, In i L -> has_id g0 i = true /\ cls_is g0 i KCP = true /\ (typ_is g0 i sServicePort = true -> E i = true)) ->
  exists d', for_each L (fun i => ex <- cp_exists i ;; if ex then disconnect_one i else ret tt) s
               = (mkSt (remove_set g0 d') (sdr s), Ok tt) /\
     InvD g0 E d' (mkSt (remove_set g0 d') (sdr s)) /\ (forall y, d y = true -> d' y = true) /\ (forall y, d' y = true -> Kl g0 y) /\
     (forall i z, In i L -> d' i = false -> In z (peers (remove_set g0 d') i) -> typ_is g0 z sServicePort = false).
Proof.
  induction L as [|i L IH]; intros d s I HK HL; simpl.
  - exists d. unfold ret. rewrite (state_eta d s I). split; [reflexivity|]. split; [exact I|]. split; [auto|]. split; [exact HK|].
    intros i z [].
  - destruct (HL i (or_introl eq_refl)) as [Hi [Ci Ei]]. pose proof I as [G W].
    unfold bind at 1 2. rewrite (cp_exists_run i s (r_ids _ _ _ W)).
    assert (Step : exists d1, (if cls_is (sg s) i KCP then disconnect_one i else ret tt) s = (mkSt (remove_set g0 d1) (sdr s), Ok tt) /\
              InvD g0 E d1 (mkSt (remove_set g0 d1) (sdr s)) /\ (forall y, d y = true -> d1 y = true) /\ (forall y, d1 y = true -> Kl g0 y) /\
              (d1 i = false -> forall z, In z (peers (remove_set g0 d1) i) -> typ_is g0 z sServicePort = false)).
    { destruct (d i) eqn:Di.
      - assert (C : cls_is (sg s) i KCP = false).
        { destruct (cls_is (sg s) i KCP) eqn:C; [|reflexivity]. apply cls_is_has_id in C.
          destruct (has_id_alive _ _ _ _ _ I C) as [_ X]. congruence. }
        rewrite C. exists d. unfold ret. rewrite (state_eta d s I). split; [reflexivity|]. split; [exact I|]. split; [auto|]. split; [exact HK|].
        intro X. congruence.
      - assert (C : cls_is (sg s) i KCP = true) by (rewrite G, (rs_cls g0 d _ _ Di); exact Ci). rewrite C.
        destruct (step_disconnect_one g0 W0 X0 P0 E E_nolink d s i I HK Hi Di Ci Ei) as [d1 [R [I1 [S1 [K1 [_ N1]]]]]].
        exists d1. split; [exact R|]. split; [exact I1|]. split; [exact S1|]. split; [exact K1|]. intros _. exact N1. }
    destruct Step as [d1 [R [I1 [S1 [K1 N1]]]]]. rewrite R.
    destruct (IH d1 (mkSt (remove_set g0 d1) (sdr s)) I1 K1 (fun j Hj => HL j (or_intror Hj))) as [d' [R' [I' [S' [K' N']]]]].
    simpl in R', I'. exists d'. split; [exact R'|]. split; [exact I'|]. split; [auto|]. split; [exact K'|].
    intros j z [<-|Hj] Dj Hz; [|eapply N'; eauto].
    assert (D1 : d1 i = false) by (destruct (d1 i) eqn:X; [rewrite (S' _ X) in Dj; discriminate | reflexivity]).
    rewrite (remove_set_more g0 d1 d' S') in Hz. apply (peers_remove_sub _ d' i z Dj) in Hz as [Hz _].
    exact (N1 D1 z Hz).
Qed.
End Loop2.

(* ---- remove_ns_with_cps_and_links --------------------------------------------------------------------------------- *)
Section RemoveNs.
Variable g0 : graph.
Hypothesis W0 : WF g0.
Variable E : str -> bool.

(* what remove_cp_and_links x deletes, in terms of the graph before the call *)
Lemma D_cp_members d s x y :
  InvD g0 E d s -> d x = false -> cls_is g0 x KCP = true -> mem_str y (D_cp (sg s) x true) = true ->
  y = x \/ In y (first_nb g0 x Connects KCP) \/ cls_is g0 y KLink = true.
Proof.
  intros I Dx Cx Hy. pose proof I as [G W].
  assert (Cxs : cls_is (sg s) x KCP = true) by (rewrite G, (rs_cls g0 d _ _ Dx); exact Cx).
  destruct (rc_del_inv (sg s) no_exempt x true Cxs (or_introl eq_refl) y Hy) as [[Hy' _]|[_ C]].
  - unfold cp_ifs in Hy'. apply (proj1 (In_dedup _ _)) in Hy'. destruct Hy' as [<-|Hy']; [left; reflexivity|].
    right. left. unfold cp_extra in Hy'. apply filter_In in Hy' as [Hy' _].
    rewrite G, (first_nb_remove g0 d x _ _ Dx) in Hy'. apply filter_In in Hy'. tauto.
  - right. right. pose proof (cls_is_has_id _ _ _ C) as Hy'. destruct (has_id_alive _ _ _ _ _ I Hy') as [_ Dy].
    rewrite G, (rs_cls g0 d _ _ Dy) in C. exact C.
Qed.

Lemma ports_loop_run : forall L d s,
  InvD g0 E d s -> NoDup L ->
  (forall x, In x L -> has_id g0 x = true /\ d x = false /\ cls_is g0 x KCP = true) ->
  (forall x y, In x L -> In y L -> x <> y -> ~ In y (first_nb g0 x Connects KCP)) ->
  (forall x c z, In x L -> (c = x \/ In c (first_nb (sg s) x Connects KCP)) -> In z (peers (sg s) c) ->
                 typ_is g0 z sServicePort = true -> E z = true) ->
  exists d', for_each L (fun i => remove_cp_and_links i true) s = (mkSt (remove_set g0 d') (sdr s), Ok tt) /\
    InvD g0 E d' (mkSt (remove_set g0 d') (sdr s)) /\ (forall y, d y = true -> d' y = true) /\ (forall x, In x L -> d' x = true) /\
    (forall y, d' y = true -> d y = true \/ In y L \/ (exists x, In x L /\ In y (first_nb g0 x Connects KCP)) \/ cls_is g0 y KLink = true).
Proof.
  induction L as [|x L IH]; intros d s I ND HL NA NS; simpl.
  - exists d. unfold ret. rewrite (state_eta g0 E d s I). split; [reflexivity|]. split; [exact I|]. split; [auto|]. split; [intros x []|]. auto.
  - destruct (HL x (or_introl eq_refl)) as [Hx [Dx Cx]]. inversion ND as [|? ? Hnot ND']; subst. pose proof I as [G W].
    destruct (step_remove_cp g0 W0 E d s x I Hx Dx Cx) as [R I1].
    { intros c z Hc Hz Tz. eapply NS; eauto. left. reflexivity. }
    set (d1 := fun y => d y || mem_str y (D_cp (sg s) x true)) in *.
    unfold bind at 1. rewrite R.
    assert (S1 : forall y, d y = true -> d1 y = true) by (intros y Hy; unfold d1; rewrite Hy; reflexivity).
    assert (Keep : forall y, In y L -> d1 y = false).
    { intros y Hy. destruct (HL y (or_intror Hy)) as [_ [Dy Cy]]. unfold d1. rewrite Dy. simpl.
      destruct (mem_str y (D_cp (sg s) x true)) eqn:M; [|reflexivity]. exfalso.
      destruct (D_cp_members d s x y I Dx Cx M) as [->|[Hadj|C]].
      - contradiction.
      - apply (NA x y); [left; reflexivity | right; exact Hy | intro; subst; contradiction | exact Hadj].
      - rewrite (cls_is_unique _ _ _ KLink Cy) in C; [discriminate | discriminate]. }
    destruct (IH d1 (mkSt (remove_set g0 d1) (sdr s)) I1 ND') as [d' [R' [I' [S' [A' M']]]]].
    + intros y Hy. destruct (HL y (or_intror Hy)) as [Hy0 [_ Cy]]. split; [exact Hy0|]. split; [apply Keep; exact Hy | exact Cy].
    + intros a b Ha Hb. apply NA; right; assumption.
    + intros y c z Hy Hc Hz Tz. simpl in Hc, Hz. pose proof (Keep y Hy) as Ky.
      assert (Eq : remove_set g0 d1 = remove_set (sg s) d1) by (rewrite G; apply remove_set_more; exact S1).
      rewrite Eq in Hc, Hz.
      assert (Dc : d1 c = false).
      { destruct Hc as [->|Hc]; [exact Ky|]. rewrite (first_nb_remove (sg s) d1 y _ _ Ky) in Hc. apply filter_In in Hc as [_ Hc].
        apply negb_true_iff in Hc. exact Hc. }
      apply (peers_remove_sub (sg s) d1 c z Dc) in Hz as [Hz _].
      apply (NS y c z (or_intror Hy)); [|exact Hz | exact Tz].
      destruct Hc as [->|Hc]; [left; reflexivity|]. right.
      rewrite (first_nb_remove (sg s) d1 y _ _ Ky) in Hc. apply filter_In in Hc. tauto.
    + simpl in R', I'. exists d'. split; [exact R'|]. split; [exact I'|]. split; [auto|]. split.
      * intros y [<-|Hy]; [|apply A'; exact Hy]. apply S'. unfold d1. rewrite (x_in_D_cp (sg s) x true). apply orb_true_r.
      * intros y Hy. destruct (M' y Hy) as [Hy1|[Hy1|[[a [Ha Hy1]]|Hy1]]].
        -- unfold d1 in Hy1. apply orb_true_iff in Hy1 as [Hy1|Hy1]; [left; exact Hy1|].
           destruct (D_cp_members d s x y I Dx Cx Hy1) as [->|[Hadj|C]].
           ++ right. left. left. reflexivity.
           ++ right. right. left. exists x. split; [left; reflexivity | exact Hadj].
           ++ right. right. right. exact C.
        -- right. left. right. exact Hy1.
        -- right. right. left. exists a. split; [right; exact Ha | exact Hy1].
        -- right. right. right. exact Hy1.
Qed.
End RemoveNs.

(* ---- neighbour lists have no repetitions (one edge per unordered pair) ------------------------------------------------ *)
Lemma NoDup_map_filter {A B} (f : A -> B) (P : A -> bool) l : NoDup (map f l) -> NoDup (map f (filter P l)).
Proof.
  induction l as [|a l IH]; simpl; intro H; [constructor|]. inversion H; subst. destruct (P a); simpl; [|auto].
  constructor; [|auto]. intro Hin. apply H2. apply in_map_iff in Hin as [b [E Hb]]. apply filter_In in Hb as [Hb _].
  rewrite <- E. apply in_map. exact Hb.
Qed.

Lemma nb_of_ends x e j r : In (j, r) (nb_of x e) -> same_ends e x j = true.
Proof.
  unfold nb_of, same_ends. destruct (str_eqb (ea e) x) eqn:E1.
  - intros [H|[]]. inversion H; subst. rewrite ?str_eqb_refl. reflexivity.
  - destruct (str_eqb (eb e) x) eqn:E2; [|intros []]. intros [H|[]]. inversion H; subst. rewrite ?str_eqb_refl, ?E2. simpl. rewrite ?orb_true_r. reflexivity.
Qed.
Lemma same_ends_trans e e' x j : same_ends e x j = true -> same_ends e' x j = true -> same_ends e' (ea e) (eb e) = true.
Proof.
  unfold same_ends. intros H H'.
  apply orb_true_iff in H as [H|H]; apply andb_true_iff in H as [A B]; apply str_eqb_eq in A; apply str_eqb_eq in B; subst;
  apply orb_true_iff in H' as [H'|H']; apply andb_true_iff in H' as [A' B']; rewrite A', B'; simpl; auto using orb_true_r.
Qed.

Lemma nbrs_NoDup g x : edges_distinct (gedges g) -> NoDup (map fst (nbrs g x)).
Proof.
  rewrite nbrs_def. unfold edges_distinct. induction (gedges g) as [|e l IH]; simpl; intro H; [constructor|].
  inversion H as [|? ? Hall Hrest]; subst. rewrite map_app. specialize (IH Hrest).
  assert (Hnot : forall j r, In (j, r) (nb_of x e) -> ~ In j (map fst (flat_map (nb_of x) l))).
  { intros j r Hj Hin. apply in_map_iff in Hin as [[j' r'] [Ej Hin]]. simpl in Ej. subst j'.
    apply in_flat_map in Hin as [e' [He' Hin]]. rewrite Forall_forall in Hall. specialize (Hall e' He').
    rewrite (same_ends_trans e e' x j (nb_of_ends _ _ _ _ Hj) (nb_of_ends _ _ _ _ Hin)) in Hall. discriminate. }
  unfold nb_of in *. destruct (str_eqb (ea e) x); simpl in *.
  - constructor; [apply (Hnot (eb e) (erel e)); left; reflexivity | exact IH].
  - destruct (str_eqb (eb e) x); simpl in *; [|exact IH].
    constructor; [apply (Hnot (ea e) (erel e)); left; reflexivity | exact IH].
Qed.
Lemma first_nb_NoDup g x r k : edges_distinct (gedges g) -> NoDup (first_nb g x r k).
Proof. intro H. unfold first_nb. apply NoDup_map_filter. apply nbrs_NoDup. exact H. Qed.

Section RemoveNs2.
Variable g0 : graph.
Hypothesis W0 : WF g0.
Variable E : str -> bool.

Lemma remove_ns_run d s sv :
  InvD g0 E d s -> has_id g0 sv = true -> d sv = false -> cls_is g0 sv KNS = true ->
  (forall x, In x (first_nb g0 sv Connects KCP) -> E x = true) ->
  (forall x c z, In x (first_nb g0 sv Connects KCP) -> d x = false -> (c = x \/ In c (first_nb (sg s) x Connects KCP)) ->
                 In z (peers (sg s) c) -> typ_is g0 z sServicePort = true -> E z = true) ->
  exists d', remove_ns_with_cps_and_links sv s = (mkSt (remove_set g0 d') (sdr s), Ok tt) /\
    InvD g0 E d' (mkSt (remove_set g0 d') (sdr s)) /\ (forall y, d y = true -> d' y = true) /\ d' sv = true /\
    (forall x, In x (first_nb g0 sv Connects KCP) -> d' x = true) /\
    (forall y, d' y = true -> d y = true \/ y = sv \/ In y (first_nb g0 sv Connects KCP) \/
                              (exists x, In x (first_nb g0 sv Connects KCP) /\ In y (first_nb g0 x Connects KCP)) \/ cls_is g0 y KLink = true).
Proof.
  intros I Hs Ds Cs HE NS. pose proof I as [G W]. pose proof (InvD_sane _ _ _ _ I) as Sn.
  assert (Css : cls_is (sg s) sv KNS = true) by (rewrite G, (rs_cls g0 d _ _ Ds); exact Cs).
  unfold remove_ns_with_cps_and_links. unfold bind at 1. rewrite (check_class_run sv [KNS] s KNS Sn Css eq_refl).
  unfold bind at 1. rewrite (q_first_nb_ok sv Connects KCP s Sn (cls_is_has_id _ _ _ Css)).
  set (L := first_nb (sg s) sv Connects KCP).
  assert (HL : forall x, In x L <-> In x (first_nb g0 sv Connects KCP) /\ d x = false).
  { intro x. unfold L. rewrite G, (first_nb_remove g0 d sv _ _ Ds), filter_In, negb_true_iff. tauto. }
  destruct (step_delete_owner g0 E d s sv I Hs Ds) as [R1 I1].
  { apply (cls_is_unique _ _ _ _ Cs). discriminate. }
  { apply (cls_is_unique _ _ _ _ Cs). discriminate. }
  { intros n Hn Hsc. apply HE. apply (in_scope_ns g0 W0 sv n Cs Hn Hsc). }
  set (d1 := fun y => d y || str_eqb y sv) in *.
  unfold bind at 1. rewrite R1.
  assert (S1 : forall y, d y = true -> d1 y = true) by (intros y Hy; unfold d1; rewrite Hy; reflexivity).
  assert (KL : forall x, In x L -> has_id g0 x = true /\ d1 x = false /\ cls_is g0 x KCP = true).
  { intros x Hx. apply HL in Hx as [Hx Dx]. apply In_first_nb in Hx as [_ Cx]. split; [eapply cls_is_has_id; eauto|]. split; [|exact Cx].
    unfold d1. rewrite Dx. simpl. apply str_eqb_neq. intro Ex. subst x. rewrite (cls_is_unique _ _ _ KCP Cs) in Cx; discriminate. }
  destruct (ports_loop_run g0 W0 E L d1 (mkSt (remove_set g0 d1) (sdr s)) I1) as [d' [R' [I' [S' [A' M']]]]].
  - apply first_nb_NoDup. apply (r_edges_distinct _ _ _ W).
  - exact KL.
  - intros x y Hx Hy _. apply HL in Hx as [Hx _]. apply HL in Hy as [Hy _]. apply (ns_ports_nonadjacent g0 W0 sv sv x y Cs Cs Hx Hy).
  - intros x c z Hx Hc Hz Tz. simpl in Hc, Hz. destruct (KL x Hx) as [_ [Dx1 _]]. apply HL in Hx as [Hx Dx0].
    assert (Eq : remove_set g0 d1 = remove_set (sg s) d1) by (rewrite G; apply remove_set_more; exact S1).
    rewrite Eq in Hc, Hz.
    assert (Dc : d1 c = false).
    { destruct Hc as [->|Hc]; [exact Dx1|]. rewrite (first_nb_remove (sg s) d1 x _ _ Dx1) in Hc. apply filter_In in Hc as [_ Hc].
      apply negb_true_iff in Hc. exact Hc. }
    apply (peers_remove_sub (sg s) d1 c z Dc) in Hz as [Hz _].
    apply (NS x c z Hx Dx0); [|exact Hz | exact Tz].
    destruct Hc as [->|Hc]; [left; reflexivity|]. right.
    rewrite (first_nb_remove (sg s) d1 x _ _ Dx1) in Hc. apply filter_In in Hc. tauto.
  - simpl in R', I'. exists d'. split; [exact R'|]. split; [exact I'|]. split; [auto|].
    split; [apply S'; unfold d1; rewrite str_eqb_refl; apply orb_true_r|].
    split.
    + intros x Hx. destruct (d x) eqn:Dx; [auto|]. apply A'. apply HL. auto.
    + intros y Hy. destruct (M' y Hy) as [Hy1|[Hy1|[[a [Ha Hy1]]|Hy1]]].
      * unfold d1 in Hy1. apply orb_true_iff in Hy1 as [Hy1|Hy1]; [left; exact Hy1|]. right. left. apply str_eqb_eq. exact Hy1.
      * right. right. left. apply HL in Hy1. tauto.
      * right. right. right. left. exists a. apply HL in Ha. tauto.
      * right. right. right. right. exact Hy1.
Qed.
End RemoveNs2.

(* ---- the list the disconnection loop walks ------------------------------------------------------------------------- *)
Lemma In_dedup_keep_aux a : forall l seen, In a (dedup_keep_aux seen l) <-> In a l /\ ~ In a seen.
Proof.
  induction l as [|x l IH]; intro seen; simpl; [tauto|].
  destruct (mem_str x seen) eqn:M.
  - rewrite IH. apply mem_str_In in M. split; [tauto|]. intros [[<-|H] Hn]; [contradiction | auto].
  - assert (Hx : ~ In x seen) by (intro X; apply mem_str_In in X; congruence).
    simpl. rewrite IH. simpl. split.
    + intros [<-|[H Hn]]; [auto|]. split; [auto|]. intro X. apply Hn. right. exact X.
    + intros [[<-|H] Hn]; [auto|]. destruct (str_eq_dec x a) as [->|Ne]; [auto|]. right. split; [exact H|]. intros [X|X]; auto.
Qed.
Lemma In_order_by hint l a : In a (order_by hint l) <-> In a l.
Proof.
  unfold order_by. rewrite in_app_iff, !filter_In. unfold dedup_keep. rewrite In_dedup_keep_aux. split.
  - intros [[_ H]|[H _]]; [apply mem_str_In; exact H | exact H].
  - intro H. destruct (mem_str a hint) eqn:M.
    + left. split; [split; [apply mem_str_In; exact M | intros []] | apply mem_str_In; exact H].
    + right. split; [exact H | reflexivity].
Qed.

Lemma children_of_handle_run i s : sane (sg s) -> cls_is (sg s) i KCP = true ->
  children_of_handle i s = (s, Ok (if typ_is (sg s) i sDedicatedPort then first_nb (sg s) i Connects KCP else [])).
Proof.
  intros Hs C. pose proof (cls_is_has_id _ _ _ C) as Hi. unfold children_of_handle. unfold bind at 1.
  rewrite (type_is_run i sDedicatedPort s Hs Hi). destruct (typ_is (sg s) i sDedicatedPort); [|reflexivity].
  unfold child_cps. unfold bind at 1. rewrite (check_class_run i [KCP] s KCP Hs C eq_refl). apply q_first_nb_ok; assumption.
Qed.

Section Phase1.
Variable g0 : graph.
Hypothesis W0 : WF g0.
Hypothesis X0 : subs_under_dedicated g0 = true.
Hypothesis P0 : one_sp_peer g0 = true.
Variable E : str -> bool.
Hypothesis E_nolink : forall y, E y = true -> cls_is g0 y KLink = false.

Definition loop_list (ifs : list str) : list str :=
  flat_map (fun i => i :: (if typ_is g0 i sDedicatedPort then first_nb g0 i Connects KCP else [])) ifs.

Lemma loop_list_facts ifs a : (forall i, In i ifs -> cls_is g0 i KCP = true) -> In a (loop_list ifs) ->
  cls_is g0 a KCP = true /\ (In a ifs \/ typ_is g0 a sServicePort = false).
Proof.
  intros HC H. unfold loop_list in H. apply in_flat_map in H as [i [Hi H]]. destruct H as [<-|H]; [split; [apply HC; exact Hi | left; exact Hi]|].
  destruct (typ_is g0 i sDedicatedPort); [|destruct H].
  assert (Ca : cls_is g0 a KCP = true) by (apply In_first_nb in H; tauto). split; [exact Ca|]. right.
  destruct (typ_is g0 a sServicePort) eqn:T; [|reflexivity]. exfalso.
  assert (Hia : In i (first_nb g0 a Connects KCP)) by (eapply first_nb_sym; eauto).
  rewrite (sp_no_children g0 a W0 X0 Ca T) in Hia. destruct Hia.
Qed.

Lemma disconnect_phase fl hint ifs s :
  sg s = g0 -> fl_skip_gone fl = true ->
  (forall i, In i ifs -> cls_is g0 i KCP = true) ->
  (forall i, In i ifs -> typ_is g0 i sServicePort = true -> E i = true) ->
  exists d', disconnect_loop fl hint ifs s = (mkSt (remove_set g0 d') (sdr s), Ok tt) /\
    InvD g0 E d' (mkSt (remove_set g0 d') (sdr s)) /\ (forall y, d' y = true -> Kl g0 y) /\
    (forall c z, In c (loop_list ifs) -> d' c = false -> In z (peers (remove_set g0 d') c) -> typ_is g0 z sServicePort = false).
Proof.
  intros G FL HC HE. pose proof (InvD_init g0 W0 E s G) as I0. pose proof (InvD_sane _ _ _ _ I0) as Sn.
  unfold disconnect_loop. unfold bind at 1.
  rewrite (concatM_pure _ (fun i => i :: (if typ_is g0 i sDedicatedPort then first_nb g0 i Connects KCP else [])) ifs s).
  2:{ intros i Hi. unfold bind. rewrite (children_of_handle_run i s Sn); [rewrite G; reflexivity | rewrite G; apply HC; exact Hi]. }
  fold (loop_list ifs). rewrite FL.
  destruct (disconnect_loop_run g0 W0 X0 P0 E E_nolink (order_by hint (loop_list ifs)) (fun _ => false) s I0) as [d' [R [I' [_ [K' N']]]]].
  - intros y Hy. discriminate Hy.
  - intros i Hi. apply In_order_by in Hi. destruct (loop_list_facts ifs i HC Hi) as [Ci Hor].
    split; [eapply cls_is_has_id; eauto|]. split; [exact Ci|]. intro T. destruct Hor as [Hin|T']; [apply HE; assumption | congruence].
  - exists d'. split; [exact R|]. split; [exact I'|]. split; [exact K'|].
    intros c z Hc Dc Hz. apply (N' c z); [apply In_order_by; exact Hc | exact Dc | exact Hz].
Qed.
End Phase1.

(* C07 - reflection: the boolean checker wf_b that the harness evaluates on every snapshot of the
   implementation decides the declarative statement WF. *)
From Coq Require Import String List NArith Bool Arith Lia.
From FIM Require Import Base.Str Gen.Rules Model.T7Graph Model.T7Ops Model.T7WF Proofs.T7Tables.
Import ListNotations.

Lemma cls_eqb_eq a b : cls_eqb a b = true <-> a = b.
Proof. destruct a, b; simpl; split; intro H; try reflexivity; try discriminate. Qed.
Lemma cls_eqb_refl a : cls_eqb a a = true.
Proof. destruct a; reflexivity. Qed.
Lemma rel_eqb_eq a b : rel_eqb a b = true <-> a = b.
Proof. destruct a, b; simpl; split; intro H; try reflexivity; try discriminate. Qed.
Lemma str_eqb_neq a b : str_eqb a b = false <-> a <> b.
Proof.
  split; intro H.
  - intro E. apply str_eqb_eq in E. congruence.
  - destruct (str_eqb a b) eqn:E; [apply str_eqb_eq in E; contradiction | reflexivity].
Qed.
Lemma ostr_eqb_eq a b : ostr_eqb a b = true <-> a = b.
Proof.
  destruct a, b; simpl; split; intro H; try reflexivity; try discriminate.
  - apply str_eqb_eq in H. congruence.
  - inversion H; subst. apply str_eqb_refl.
Qed.
Lemma len_is_eq {A} (l : list A) n : len_is l n = true <-> length l = n.
Proof. unfold len_is. apply Nat.eqb_eq. Qed.

Lemma nodup_b_NoDup l : nodup_b l = true <-> NoDup l.
Proof.
  induction l as [|x l IH]; simpl.
  - split; [constructor | reflexivity].
  - rewrite andb_true_iff, negb_true_iff, IH. split.
    + intros [H1 H2]. constructor; [|exact H2]. intro Hin. apply mem_str_In in Hin. congruence.
    + intro H. inversion H; subst. split; [|assumption].
      destruct (mem_str x l) eqn:E; [apply mem_str_In in E; contradiction | reflexivity].
Qed.

Lemma has_id_In g x : has_id g x = true <-> exists n, In n (gnodes g) /\ nid n = x.
Proof.
  unfold has_id. rewrite existsb_exists. split; intros [n [H1 H2]]; exists n; split; auto.
  - apply str_eqb_eq. exact H2.
  - apply str_eqb_eq. exact H2.
Qed.

Lemma fields_ok_P n : fields_ok n = true <-> fields_P n.
Proof.
  unfold fields_ok, fields_P. destruct (ntyp n), (nname n); split; intro H; try discriminate; try reflexivity.
  - eauto.
  - destruct H as [t [nm [H1 H2]]]; discriminate.
  - destruct H as [t [nm [H1 H2]]]; discriminate.
  - destruct H as [t [nm [H1 H2]]]; discriminate.
Qed.

Lemma vocab_ok_P n : vocab_ok n = true <-> vocab_P n.
Proof.
  unfold vocab_ok, vocab_ok_in, vocab_P. destruct (class_name (ncls n)) as [c|]; split; intro H.
  - apply andb_true_iff in H as [H1 H2]. exists c. split; [reflexivity|]. split; [apply mem_str_In; exact H1|].
    intros v t Hv Ht. rewrite Hv, Ht in H2. apply mem_str_In. exact H2.
  - destruct H as [c' [Hc [Hin Hty]]]. inversion Hc; subst c'. apply andb_true_iff. split; [apply mem_str_In; exact Hin|].
    destruct (assoc_str c rule_types) as [v|] eqn:Ev; [|reflexivity].
    destruct (ntyp n) as [t|] eqn:Et; [|reflexivity]. apply mem_str_In. eapply Hty; eauto.
  - discriminate.
  - destruct H as [c' [Hc _]]. discriminate.
Qed.

Lemma edges_nodup_b_P l : edges_nodup_b l = true <-> edges_distinct l.
Proof.
  unfold edges_distinct. induction l as [|e l IH]; simpl.
  - split; [constructor | reflexivity].
  - rewrite andb_true_iff, negb_true_iff, IH. split.
    + intros [H1 H2]. constructor; [|exact H2]. apply Forall_forall. intros e' Hin.
      destruct (same_ends e' (ea e) (eb e)) eqn:E; [|reflexivity].
      assert (existsb (fun e'0 => same_ends e'0 (ea e) (eb e)) l = true) by (apply existsb_exists; eauto). congruence.
    + intro H. inversion H; subst. split; [|assumption].
      destruct (existsb _ l) eqn:E; [|reflexivity].
      apply existsb_exists in E as [e' [Hin He]]. rewrite Forall_forall in H2. rewrite (H2 _ Hin) in He. discriminate.
Qed.

Lemma names_unique_in_P g l : names_unique_in g l = true <-> ForallOrdPairs (fun a b => name_clash g a b = false) l.
Proof.
  induction l as [|a l IH]; simpl.
  - split; [constructor | reflexivity].
  - rewrite andb_true_iff, negb_true_iff, IH. split.
    + intros [H1 H2]. constructor; [|exact H2]. apply Forall_forall. intros b Hin.
      destruct (name_clash g a b) eqn:E; [|reflexivity].
      assert (existsb (name_clash g a) l = true) by (apply existsb_exists; eauto). congruence.
    + intro H. inversion H; subst. split; [|assumption].
      destruct (existsb _ l) eqn:E; [|reflexivity].
      apply existsb_exists in E as [b [Hin He]]. rewrite Forall_forall in H2. rewrite (H2 _ Hin) in He. discriminate.
Qed.

Lemma xorb_neq a b : xorb a b = true <-> a <> b.
Proof. destruct a, b; simpl; split; intro H; try reflexivity; try discriminate; try congruence. Qed.

Lemma node_struct_ok_P g n : node_struct_ok g n = true <-> struct_P g n.
Proof.
  unfold node_struct_ok, struct_P. destruct (ncls n) eqn:Ec; split; intro H;
    try reflexivity;
    try (split; [intro X; discriminate X | split; [intro X; discriminate X | intro X; discriminate X]]).
  - (* KComp *) apply len_is_eq in H. split; [intros _; exact H | split; intro X; discriminate X].
  - destruct H as [H _]. apply len_is_eq. apply H. reflexivity.
  - (* KCP *) apply andb_true_iff in H as [H H3]. apply andb_true_iff in H as [H1 H2].
    split; [intro; discriminate|]. split; [|intro; discriminate]. intros _.
    split; [apply len_is_eq; exact H1|]. split.
    + intros j Hj. unfold sub_shape_ok in H2. rewrite forallb_forall in H2. apply xorb_neq. apply H2. exact Hj.
    + intro Ht. rewrite Ht in H3. rewrite (proj2 (ostr_eqb_eq _ _) eq_refl) in H3. simpl in H3. apply len_is_eq. exact H3.
  - destruct H as [_ [H _]]. destruct (H eq_refl) as [H1 [H2 H3]].
    apply andb_true_iff. split; [apply andb_true_iff; split|].
    + apply len_is_eq. exact H1.
    + unfold sub_shape_ok. apply forallb_forall. intros j Hj. apply xorb_neq. apply H2. exact Hj.
    + destruct (ostr_eqb (ntyp n) (Some sServicePort)) eqn:E; [|reflexivity]. simpl.
      apply ostr_eqb_eq in E. apply len_is_eq. apply H3. exact E.
  - (* KLink *) split; [intro; discriminate|]. split; [intro; discriminate|]. intros _ j r Hin.
    unfold link_ends_ok in H. rewrite forallb_forall in H. specialize (H _ Hin). simpl in H.
    apply andb_true_iff in H as [H1 H2]. apply rel_eqb_eq in H1. auto.
  - destruct H as [_ [_ H]]. specialize (H eq_refl). unfold link_ends_ok. apply forallb_forall.
    intros [j r] Hin. simpl. destruct (H _ _ Hin) as [H1 H2]. subst r. rewrite H2. reflexivity.
Qed.

Theorem wf_b_reflect g : wf_b g = true <-> WF g.
Proof.
  unfold wf_b. split.
  - intro H. repeat (apply andb_true_iff in H as [H ?]).
    constructor.
    + intros n Hin. apply fields_ok_P. rewrite forallb_forall in H. auto.
    + intros n Hin. apply vocab_ok_P. rewrite forallb_forall in H5. auto.
    + apply nodup_b_NoDup. assumption.
    + intros e Hin. rewrite forallb_forall in H3. specialize (H3 _ Hin). unfold edge_ends_ok in H3.
      apply andb_true_iff in H3 as [Ha Hb]. split; apply has_id_In; assumption.
    + apply edges_nodup_b_P. assumption.
    + intros n Hin. apply node_struct_ok_P. rewrite forallb_forall in H1. auto.
    + apply names_unique_in_P. assumption.
  - intros [F V I E D St N].
    repeat (apply andb_true_iff; split).
    + apply forallb_forall. intros n Hin. apply fields_ok_P. auto.
    + apply forallb_forall. intros n Hin. apply vocab_ok_P. auto.
    + apply nodup_b_NoDup. assumption.
    + apply forallb_forall. intros e Hin. destruct (E _ Hin) as [Ha Hb]. unfold edge_ends_ok.
      apply andb_true_iff. split; apply has_id_In; assumption.
    + apply edges_nodup_b_P. assumption.
    + apply forallb_forall. intros n Hin. apply node_struct_ok_P. auto.
    + apply names_unique_in_P. assumption.
Qed.

(* C09 - the shape of the graph while NetworkService.__init__ connects interfaces: the pre-state g extended by
   the service node and, per connected interface, one ServicePort, one Link and three edges; adjacency and
   class look-ups in such a graph. *)
From Coq Require Import List NArith Bool Lia.
From FIM Require Import Base.Str Gen.T9Names Model.T9Graph Model.T9Ops Proofs.T9Monad Proofs.T9Simple.
Import ListNotations.
Open Scope N_scope.

(* ---------------------------------------------------------------- generic list facts *)
Lemma flat_map_flat_map {A B C} (f : B -> list C) (h : A -> list B) (l : list A) :
  flat_map f (flat_map h l) = flat_map (fun a => flat_map f (h a)) l.
Proof. induction l; simpl; auto. rewrite flat_map_app. congruence. Qed.

Lemma flat_map_nil {A B} (f : A -> list B) (l : list A) : (forall a, In a l -> f a = []) -> flat_map f l = [].
Proof. induction l; simpl; auto. intro H. rewrite (H a) by auto. rewrite IHl; auto. Qed.

Lemma flat_map_ext_in {A B} (f h : A -> list B) (l : list A) :
  (forall a, In a l -> f a = h a) -> flat_map f l = flat_map h l.
Proof. induction l; simpl; auto. intro H. rewrite (H a) by auto. rewrite IHl; auto. Qed.

Lemma filter_ext_in' {A} (f h : A -> bool) (l : list A) :
  (forall a, In a l -> f a = h a) -> filter f l = filter h l.
Proof. induction l; simpl; auto. intro H. rewrite (H a) by auto. rewrite IHl; auto. Qed.

Lemma filter_all {A} (f : A -> bool) (l : list A) : (forall a, In a l -> f a = true) -> filter f l = l.
Proof. induction l; simpl; auto. intro H. rewrite (H a) by auto. rewrite IHl; auto. Qed.

Lemma filter_none {A} (f : A -> bool) (l : list A) : (forall a, In a l -> f a = false) -> filter f l = [].
Proof. induction l; simpl; auto. intro H. rewrite (H a) by auto. rewrite IHl; auto. Qed.

Lemma nodupN_NoDup l : nodupN l = true -> NoDup l.
Proof.
  induction l; simpl; intro H; constructor.
  - apply andb_true_iff in H as [H _]. apply negb_true_iff in H. intro Hin.
    assert (existsb (N.eqb a) l = true) by (apply existsb_exists; exists a; split; auto; apply N.eqb_refl). congruence.
  - apply andb_true_iff in H as [_ H]. auto.
Qed.

Lemma NoDup_snoc {A} (l : list A) x : NoDup l -> ~ In x l -> NoDup (l ++ [x]).
Proof.
  induction l; simpl; intros H Hx.
  - constructor; [simpl; tauto | constructor].
  - inversion H; subst. constructor.
    + rewrite in_app_iff; simpl. intros [?|[?|[]]]; [auto|subst; apply Hx; auto].
    + apply IHl; auto.
Qed.

Lemma neqb_of_neq (a b : N) : a <> b -> (a =? b) = false.
Proof. intro; apply N.eqb_neq; auto. Qed.

(* ---------------------------------------------------------------- ids, membership *)
Definition ids (g : graph) : list N := map nid (gnodes g).

Lemma has_node_In g x : has_node g x = true <-> In x (ids g).
Proof.
  unfold has_node, ids. rewrite existsb_exists. split.
  - intros [n [Hin He]]. apply N.eqb_eq in He. subst. apply in_map; auto.
  - intro H. apply in_map_iff in H as [n [He Hin]]. exists n. split; auto. apply N.eqb_eq; auto.
Qed.

Lemma has_node_false_In g x : has_node g x = false <-> ~ In x (ids g).
Proof. rewrite <- has_node_In. destruct (has_node g x); split; intro H; try congruence; try (exfalso; apply H; reflexivity). Qed.

Lemma find_node_In g x n : find_node g x = Ok n -> In x (ids g).
Proof. intro H. apply has_node_In. eapply find_node_has; eauto. Qed.

Lemma find_nodes_unique (L : list node) n : NoDup (map nid L) -> In n L ->
  filter (fun m => nid m =? nid n) L = [n].
Proof.
  induction L as [|m L IH]; simpl; intros Hnd Hin; [contradiction|].
  inversion Hnd; subst. destruct Hin as [->|Hin].
  - rewrite N.eqb_refl. f_equal. apply filter_none. intros a Ha.
    apply N.eqb_neq. intro He. apply H1. rewrite <- He. apply in_map; auto.
  - destruct (nid m =? nid n) eqn:E.
    + apply N.eqb_eq in E. exfalso. apply H1. rewrite E. apply in_map; auto.
    + auto.
Qed.

Lemma find_node_unique g n : NoDup (ids g) -> In n (gnodes g) -> find_node g (nid n) = Ok n.
Proof. intros. unfold find_node, find_nodes. rewrite find_nodes_unique; auto. Qed.

Lemma In_ids_find g x : NoDup (ids g) -> In x (ids g) -> exists n, find_node g x = Ok n /\ In n (gnodes g) /\ nid n = x.
Proof.
  intros Hnd Hin. apply in_map_iff in Hin as [n [He Hin]]. exists n. subst. split; [|auto].
  apply find_node_unique; auto.
Qed.

(* ---------------------------------------------------------------- closed edge lists *)
Definition closed (g : graph) : Prop := forall e, In e (gedges g) -> In (ea e) (ids g) /\ In (eb e) (ids g).
Definition untouched (x : N) (es : list edge) : Prop := forall e, In e es -> touches x e = false.

Lemma wf_closed g : wf_graph g = true -> closed g.
Proof.
  unfold wf_graph. intro H. apply andb_true_iff in H as [H _]. apply andb_true_iff in H as [_ H].
  intros e He. rewrite forallb_forall in H. specialize (H e He). apply andb_true_iff in H as [H1 H2].
  split; apply has_node_In; auto.
Qed.
Lemma wf_nodup g : wf_graph g = true -> NoDup (ids g).
Proof.
  unfold wf_graph. intro H. apply andb_true_iff in H as [H _]. apply andb_true_iff in H as [H _].
  apply nodupN_NoDup; auto.
Qed.

Lemma closed_untouched g x : closed g -> ~ In x (ids g) -> untouched x (gedges g).
Proof.
  intros Hc Hx e He. destruct (Hc e He) as [Ha Hb]. unfold touches.
  apply orb_false_iff; split; apply N.eqb_neq; intro; subst; auto.
Qed.

Lemma untouched_app x a b : untouched x a -> untouched x b -> untouched x (a ++ b).
Proof. intros Ha Hb e He. apply in_app_iff in He as [?|?]; auto. Qed.

Definition adj_es (es : list edge) (x r : N) : list N :=
  flat_map (fun e => if erel e =? r then other_end x e else []) es.
Definition adj_any_es (es : list edge) (x : N) : list N := flat_map (other_end x) es.

Lemma other_end_untouched x e : touches x e = false -> other_end x e = [].
Proof. unfold touches, other_end. intro H. apply orb_false_iff in H as [-> ->]. reflexivity. Qed.

Lemma adj_es_untouched es x r : untouched x es -> adj_es es x r = [].
Proof.
  intro H. apply flat_map_nil. intros e He. rewrite other_end_untouched by auto. destruct (erel e =? r); auto.
Qed.
Lemma adj_any_es_untouched es x : untouched x es -> adj_any_es es x = [].
Proof. intro H. apply flat_map_nil. intros e He. apply other_end_untouched; auto. Qed.

Lemma adj_es_app a b x r : adj_es (a ++ b) x r = adj_es a x r ++ adj_es b x r.
Proof. apply flat_map_app. Qed.
Lemma adj_any_es_app a b x : adj_any_es (a ++ b) x = adj_any_es a x ++ adj_any_es b x.
Proof. apply flat_map_app. Qed.

Lemma filter_untouched x es : untouched x es -> filter (fun e => negb (touches x e)) es = es.
Proof. intro H. apply filter_all. intros e He. rewrite H; auto. Qed.

Lemma same_pair_untouched a b es : untouched b es -> existsb (same_pair a b) es = false.
Proof.
  intro H. induction es; simpl; auto. rewrite IHes by (intros e He; apply H; right; auto).
  specialize (H a0 (or_introl eq_refl)). unfold touches in H. apply orb_false_iff in H as [H1 H2].
  unfold same_pair. rewrite H1, H2. rewrite !andb_false_r. reflexivity.
Qed.
Lemma same_pair_untouched_l a b es : untouched a es -> existsb (same_pair a b) es = false.
Proof.
  intro H. induction es; simpl; auto. rewrite IHes by (intros e He; apply H; right; auto).
  specialize (H a0 (or_introl eq_refl)). unfold touches in H. apply orb_false_iff in H as [H1 H2].
  unfold same_pair. rewrite H1, H2. rewrite !andb_false_l, !andb_false_r. reflexivity.
Qed.

Lemma adj_in_closed g x r y : closed g -> In y (adj_rel g x r) -> In y (ids g).
Proof.
  intros Hc H. unfold adj_rel in H. apply in_flat_map in H as [e [He Hy]].
  destruct (Hc e He) as [Ha Hb]. destruct (erel e =? r); [|contradiction].
  unfold other_end in Hy. destruct (ea e =? x); [destruct Hy as [<-|[]]; auto|].
  destruct (eb e =? x); [destruct Hy as [<-|[]]; auto|contradiction].
Qed.
Lemma adj_any_in_closed g x y : closed g -> In y (adj_any g x) -> In y (ids g).
Proof.
  intros Hc H. unfold adj_any in H. apply in_flat_map in H as [e [He Hy]].
  destruct (Hc e He) as [Ha Hb].
  unfold other_end in Hy. destruct (ea e =? x); [destruct Hy as [<-|[]]; auto|].
  destruct (eb e =? x); [destruct Hy as [<-|[]]; auto|contradiction].
Qed.

(* ---------------------------------------------------------------- the extended graph *)
Record conn := mkConn { k_if : iface_h; k_p : N; k_l : N; k_lty : N; k_pname : str }.
Definition k_i (c : conn) : N := ih_id (k_if c).
Definition conn_nodes (c : conn) : list node :=
  [mkNode (k_p c) cCP (k_pname c) tServicePort 0; mkNode (k_l c) cLink (k_pname c ++ suffix_link) (k_lty c) 0].
Definition conn_edges (ns : N) (c : conn) : list edge :=
  [mkEdge ns (k_p c) rConnects; mkEdge (k_l c) (k_i c) rConnects; mkEdge (k_l c) (k_p c) rConnects].
Definition ext (g : graph) (nsn : node) (cs : list conn) : graph :=
  mkGraph (gnodes g ++ nsn :: flat_map conn_nodes cs) (gedges g ++ flat_map (conn_edges (nid nsn)) cs).
Definition conn_ids (cs : list conn) : list N := flat_map (fun c => [k_p c; k_l c]) cs.
Definition new_ids (nsn : node) (cs : list conn) : list N := nid nsn :: conn_ids cs.

Lemma ids_ext g nsn cs : ids (ext g nsn cs) = ids g ++ new_ids nsn cs.
Proof.
  unfold ids, ext, new_ids, conn_ids; simpl. rewrite map_app. simpl. f_equal. f_equal.
  induction cs; simpl; auto. f_equal. f_equal. auto.
Qed.

Record good (g : graph) (nsn : node) (cs : list conn) : Prop := mkGood {
  gd_nodup : NoDup (ids g ++ new_ids nsn cs);
  gd_cls : ncls nsn = cNS;
  gd_cp : forall c, In c cs -> has_cls g cCP (k_i c) = true;
  gd_ifs : NoDup (map k_i cs);
  gd_peers : forall c, In c cs -> peer_cps g (k_i c) = Ok [] }.

Lemma has_cls_In g k y : has_cls g k y = true -> In y (ids g).
Proof.
  unfold has_cls, cls_of, find_nodes. destruct (filter _ _) as [|n l] eqn:E; [discriminate|]. intros _.
  assert (In n (filter (fun n0 => nid n0 =? y) (gnodes g))) by (rewrite E; left; auto).
  apply filter_In in H as [Hin He]. apply N.eqb_eq in He. subst. apply in_map; auto.
Qed.

(* class look-ups: nodes of g keep their class in the extension *)
Lemma cls_of_ext_old g nsn cs y : In y (ids g) -> cls_of (ext g nsn cs) y = cls_of g y.
Proof.
  intro Hin. unfold cls_of, find_nodes, ext; simpl. rewrite filter_app.
  apply in_map_iff in Hin as [n [He Hin]].
  destruct (filter (fun n0 => nid n0 =? y) (gnodes g)) as [|m l] eqn:E.
  - exfalso. assert (In n (filter (fun n0 => nid n0 =? y) (gnodes g))).
    { apply filter_In; split; auto. apply N.eqb_eq; auto. }
    rewrite E in H; contradiction.
  - reflexivity.
Qed.
Lemma has_cls_ext_old g nsn cs k y : In y (ids g) -> has_cls (ext g nsn cs) k y = has_cls g k y.
Proof. intro H. unfold has_cls. rewrite cls_of_ext_old; auto. Qed.

Lemma cls_of_ext_new g nsn cs n :
  NoDup (ids g ++ new_ids nsn cs) -> In n (nsn :: flat_map conn_nodes cs) ->
  cls_of (ext g nsn cs) (nid n) = Some (ncls n).
Proof.
  intros Hnd Hin. unfold cls_of.
  assert (H : find_nodes (ext g nsn cs) (nid n) = [n]).
  { unfold find_nodes. apply find_nodes_unique.
    - fold (ids (ext g nsn cs)). rewrite ids_ext. exact Hnd.
    - unfold ext; simpl. apply in_app_iff. right. exact Hin. }
  rewrite H. reflexivity.
Qed.

Lemma conn_p_node c cs : In c cs -> In (mkNode (k_p c) cCP (k_pname c) tServicePort 0) (flat_map conn_nodes cs).
Proof. intro H. apply in_flat_map. exists c. split; auto. left; auto. Qed.
Lemma conn_l_node c cs : In c cs ->
  In (mkNode (k_l c) cLink (k_pname c ++ suffix_link) (k_lty c) 0) (flat_map conn_nodes cs).
Proof. intro H. apply in_flat_map. exists c. split; auto. right; left; auto. Qed.

Lemma conn_ids_In_p c cs : In c cs -> In (k_p c) (conn_ids cs).
Proof. intro H. apply in_flat_map. exists c. split; auto. left; auto. Qed.
Lemma conn_ids_In_l c cs : In c cs -> In (k_l c) (conn_ids cs).
Proof. intro H. apply in_flat_map. exists c. split; auto. right; left; auto. Qed.

(* disjointness facts read off the NoDup *)
Lemma nodup_app_disj {A} (a b : list A) x : NoDup (a ++ b) -> In x a -> In x b -> False.
Proof.
  induction a; simpl; intros Hnd Ha Hb; [contradiction|].
  inversion Hnd; subst. destruct Ha as [->|Ha].
  - apply H1. apply in_app_iff; auto.
  - eapply IHa; eauto.
Qed.

Lemma good_new_not_old g nsn cs x : good g nsn cs -> In x (new_ids nsn cs) -> ~ In x (ids g).
Proof. intros G Hn Ho. eapply nodup_app_disj; [apply (gd_nodup _ _ _ G)|eauto|eauto]. Qed.

Lemma good_i_old g nsn cs c : good g nsn cs -> In c cs -> In (k_i c) (ids g).
Proof. intros G Hc. eapply has_cls_In. apply (gd_cp _ _ _ G); auto. Qed.

Lemma ext_closed g nsn cs : closed g -> good g nsn cs -> closed (ext g nsn cs).
Proof.
  intros Hc G e He. rewrite ids_ext. unfold ext in He; simpl in He.
  apply in_app_iff in He as [He|He].
  - destruct (Hc e He). split; apply in_app_iff; auto.
  - apply in_flat_map in He as [c [Hin He]].
    assert (Hi := good_i_old _ _ _ _ G Hin).
    assert (Hp := conn_ids_In_p _ _ Hin). assert (Hl := conn_ids_In_l _ _ Hin).
    unfold new_ids. simpl in He.
    destruct He as [<-|[<-|[<-|[]]]]; simpl; split; apply in_app_iff; simpl; auto.
Qed.

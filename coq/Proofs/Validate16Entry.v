(* C16 proofs (round 4): entry-point independence as ONE statement over the type of entry-point
   semantics; the unchecked ways in (direct attribute assignment, attaching an object that was assigned to
   directly); list values with non-string elements; keywords that name an attribute which is not a field. *)
From Coq Require Import List ZArith NArith Bool String Lia.
From FIM Require Import Base.Str Base.Regex Base.RegexSound Model.Labels16Types Gen.UnicodeClasses Gen.LabelValidators
  Model.Labels16 Model.Labels16Spec Proofs.Validate16 Proofs.Validate16Misc.
Import ListNotations.

(* acceptance of one keyword does not depend on the object it is set on *)
Lemma set_one_snd_indep fg st st' kv : snd (set_one fg st kv) = snd (set_one fg st' kv).
Proof.
  destruct kv as [k v]. unfold set_one. destruct v; try reflexivity;
    (destruct (negb (mem_str k label_fields)); [reflexivity|]; destruct (regex_phase k _); [reflexivity|];
     destruct (range_phase k _); reflexivity).
Qed.

Lemma set_fields_ok_all fg : forall kws st, snd (set_fields fg st kws) = None ->
  Forall (fun kv => snd (set_one fg labels_init kv) = None) kws.
Proof.
  induction kws as [|kv kws IH]; intros st H; [constructor|]. cbn [set_fields] in H.
  destruct (set_one fg st kv) as [st' oe] eqn:E. destruct oe as [e|]; [discriminate|].
  constructor; [|apply (IH st'); exact H]. rewrite (set_one_snd_indep fg labels_init st), E. reflexivity.
Qed.

Lemma accepted_is_strs fg st k v : mem_str k label_fields = true -> snd (set_one fg st (k, v)) = None -> is_strs v = true.
Proof. intros Hk. unfold set_one. destruct v; try reflexivity; cbn [snd]; discriminate. Qed.

Lemma In_encode st k v : In (k, Some v) st -> In (k, v) (labels_encode st).
Proof.
  induction st as [|[k' ov] st IH]; intro H; [contradiction|]. destruct H as [H|H].
  - inversion H; subst. change (labels_encode ((k, Some v) :: st)) with ((k, v) :: labels_encode st). left; reflexivity.
  - destruct ov as [v'|].
    + change (labels_encode ((k', Some v') :: st)) with ((k', v') :: labels_encode st). right; apply IH; exact H.
    + change (labels_encode ((k', None) :: st)) with (labels_encode st). apply IH; exact H.
Qed.

(* re-validation succeeds exactly on objects all of whose fields are documented *)
Theorem revalidate_sound st : labels_wf st -> revalidate st = None -> labels_inv st.
Proof.
  intros Hw H. unfold revalidate in H. apply set_fields_ok_all in H. rewrite Forall_forall in H.
  unfold labels_inv. apply Forall_forall. intros [k ov] Hin. cbn [fst snd]. destruct ov as [v|]; [|exact I].
  assert (Hk : mem_str k label_fields = true).
  { apply mem_str_In. rewrite <- Hw. apply (in_map fst) in Hin. exact Hin. }
  specialize (H (k, v) (In_encode _ _ _ Hin)).
  pose proof (accepted_is_strs _ _ _ _ Hk H) as Hs. split; [exact Hs|].
  apply (accept_iff_domain false labels_init k v Hk Hs). exact H.
Qed.

Theorem revalidate_complete st : labels_wf st -> labels_inv st -> revalidate st = None.
Proof.
  intros Hw Hi. unfold revalidate.
  assert (Hb : labels_init = [] ++ blank st).
  { unfold labels_init, blank. rewrite <- Hw, map_map. reflexivity. }
  rewrite Hb, (recode_gen false); [reflexivity | | exact Hi |].
  - simpl. rewrite Hw. apply label_fields_nodup.
  - intros k Hk. rewrite Hw in Hk. apply mem_str_In; exact Hk.
Qed.

Lemma lget_lset st k v : In k (map fst st) -> lget (lset st k v) k = Some v.
Proof.
  unfold lget. induction st as [|[k' v'] st IH]; simpl; intro H; [contradiction|].
  destruct (str_eqb k k') eqn:E.
  - simpl. rewrite E. reflexivity.
  - simpl. rewrite E. apply IH. destruct H as [H|H]; [|exact H]. subst. rewrite str_eqb_refl in E. discriminate.
Qed.

Lemma lset_wf st k v : labels_wf st -> labels_wf (lset st k v).
Proof. unfold labels_wf. rewrite lset_keys. auto. Qed.

(* ONE statement: for every entry-point semantics that validates, and every field and value of the documented type,
   the value is accepted iff it is in the documented domain, and the resulting object satisfies the invariant *)
Theorem entry_point_independence sem : ep_checked sem = true ->
  forall cur k v, labels_inv cur -> labels_wf cur -> mem_str k label_fields = true -> is_strs v = true ->
    (snd (ep_apply sem cur (k, v)) = None <-> Forall (in_domain k) (elems v)) /\
    labels_inv (fst (ep_apply sem cur (k, v))) /\ labels_wf (fst (ep_apply sem cur (k, v))).
Proof.
  intros Hc cur k v Hi Hw Hk Hs. destruct sem as [fg fresh | | r]; cbn [ep_checked] in Hc; try discriminate.
  - cbn [ep_apply]. split; [apply accept_iff_domain; assumption|]. split.
    + apply set_one_inv. destruct fresh; [apply init_inv | exact Hi].
    + unfold labels_wf. rewrite set_one_keys. destruct fresh; [apply init_wf | exact Hw].
  - subst r. cbn [ep_apply attach_labels]. unfold attr_assign. cbn [fst snd].
    pose proof (lset_wf cur k v Hw) as Hw'.
    destruct (revalidate (lset cur k v)) as [e|] eqn:R; cbn [fst snd].
    + split; [|split; assumption]. split; [discriminate|]. intro Hd. exfalso.
      assert (Hi' : labels_inv (lset cur k v)) by (apply lset_inv; [exact Hi | split; assumption]).
      rewrite (revalidate_complete _ Hw' Hi') in R. discriminate.
    + pose proof (revalidate_sound _ Hw' R) as Hi'. split; [|split; assumption]. split; [|reflexivity]. intros _.
      apply (stored_values_in_domain (lset cur k v) k v Hi'). apply lget_lset. rewrite Hw. apply mem_str_In; exact Hk.
Qed.

(* an entry-point semantics that does not validate lets an undocumented value into an object *)
Theorem unchecked_entry_point_refuted sem : ep_checked sem = false ->
  exists cur k v, labels_inv cur /\ labels_wf cur /\ mem_str k label_fields = true /\ is_strs v = true /\
    snd (ep_apply sem cur (k, v)) = None /\ ~ labels_inv (fst (ep_apply sem cur (k, v))).
Proof.
  intro Hc. exists labels_init, (S"vlan"), (LStr (S"junk")).
  assert (Hk : mem_str (S"vlan") label_fields = true) by (vm_compute; reflexivity).
  assert (Hbad : ~ labels_inv (lset labels_init (S"vlan") (LStr (S"junk")))).
  { intro Hi. assert (G : lget (lset labels_init (S"vlan") (LStr (S"junk"))) (S"vlan") = Some (LStr (S"junk"))) by (vm_compute; reflexivity).
    destruct (stored_values_in_domain _ _ _ Hi G) as [_ D].
    apply (accept_iff_domain false labels_init (S"vlan") (LStr (S"junk")) Hk eq_refl) in D. vm_compute in D. discriminate. }
  split; [apply init_inv|]. split; [apply init_wf|]. split; [exact Hk|]. split; [reflexivity|].
  destruct sem as [fg fresh | | r]; cbn [ep_checked] in Hc; try discriminate.
  - cbn [ep_apply fst snd]. split; [reflexivity | exact Hbad].
  - subst r. cbn [ep_apply attach_labels fst snd]. split; [reflexivity | exact Hbad].
Qed.

(* the regenerated table of entry points: either every entry validates (then the statement above covers the table)
   or the table names an entry that does not *)
Theorem entry_point_table_full_or_refuted :
  if forallb (fun e => ep_checked (snd e)) label_entry_points
  then forall name sem, In (name, sem) label_entry_points ->
         forall cur k v, labels_inv cur -> labels_wf cur -> mem_str k label_fields = true -> is_strs v = true ->
           (snd (ep_apply sem cur (k, v)) = None <-> Forall (in_domain k) (elems v)) /\
           labels_inv (fst (ep_apply sem cur (k, v))) /\ labels_wf (fst (ep_apply sem cur (k, v)))
  else exists name sem, In (name, sem) label_entry_points /\ ep_checked sem = false /\
         exists cur k v, labels_inv cur /\ labels_wf cur /\ mem_str k label_fields = true /\ is_strs v = true /\
           snd (ep_apply sem cur (k, v)) = None /\ ~ labels_inv (fst (ep_apply sem cur (k, v))).
Proof.
  destruct (forallb (fun e => ep_checked (snd e)) label_entry_points) eqn:F.
  - intros name sem Hin. rewrite forallb_forall in F. specialize (F _ Hin). cbn [snd] in F.
    apply entry_point_independence; exact F.
  - assert (X : exists e, In e label_entry_points /\ ep_checked (snd e) = false).
    { clear -F. induction label_entry_points as [|e l IH]; [discriminate|]. simpl in F.
      destruct (ep_checked (snd e)) eqn:E.
      - destruct (IH F) as (e' & Hin & He). exists e'. split; [right; exact Hin | exact He].
      - exists e. split; [left; reflexivity | exact E]. }
    destruct X as ([name sem] & Hin & He). exists name, sem. split; [exact Hin|]. split; [exact He|].
    apply unchecked_entry_point_refuted; exact He.
Qed.

(* the table contains the entry points the harness drives (by name count) and is not empty *)
Lemma entry_point_table_nonempty : (7 <= List.length label_entry_points)%nat.
Proof. vm_compute. repeat constructor. Qed.

(* ---------------- list values with non-string elements ---------------- *)
Definition mixed_full : Prop :=
  forall fg k l, existsb (fun e => negb (lelem_is_str e)) l = true -> mixed_outcome fg k l <> KW_stored.
Definition mixed_refuted : Prop :=
  exists fg k l, existsb (fun e => negb (lelem_is_str e)) l = true /\ mixed_outcome fg k l = KW_stored.

Theorem mixed_full_or_refuted : if label_list_elements_typechecked then mixed_full else mixed_refuted.
Proof.
  destruct label_list_elements_typechecked eqn:F.
  - intros fg k l _. unfold mixed_outcome. rewrite F. discriminate.
  - exists false, (S"numa"), [LE_int 5]. split; [reflexivity|]. unfold mixed_outcome. rewrite F. vm_compute. reflexivity.
Qed.

(* ---------------- keywords naming an attribute that is not a field ---------------- *)
Theorem nonfield_attr_full_or_refuted :
  if label_field_test_is_dict then (forall fg, nonfield_attr_outcome fg <> KW_stored) else nonfield_attr_outcome false = KW_stored.
Proof.
  unfold nonfield_attr_outcome. destruct label_field_test_is_dict.
  - intros [|]; discriminate.
  - reflexivity.
Qed.

Theorem caps_nonfield_attr_full_or_refuted :
  if caps_field_test_is_dict then (forall fg, caps_nonfield_attr_outcome fg <> KW_stored) else caps_nonfield_attr_outcome false = KW_stored.
Proof.
  unfold caps_nonfield_attr_outcome. destruct caps_field_test_is_dict.
  - intros [|]; discriminate.
  - reflexivity.
Qed.

(* decoding never stores under an attribute name once from_json pre-filters *)
Theorem nonfield_attr_from_json : from_json_prefilters = true -> nonfield_attr_outcome_from_json = KW_skipped.
Proof. intro H. unfold nonfield_attr_outcome_from_json. rewrite H. reflexivity. Qed.

(* ---------------- Tags / Capacities objects changed directly, then attached ---------------- *)
Definition tags_attach_full : Prop := forall l, attach_tags set_tags_revalidates l = true -> Forall tag_in_domain l.
Definition tags_attach_refuted : Prop := exists l, attach_tags set_tags_revalidates l = true /\ ~ Forall tag_in_domain l.

Theorem tags_attach_full_or_refuted : if set_tags_revalidates then tags_attach_full else tags_attach_refuted.
Proof.
  unfold tags_attach_full, tags_attach_refuted. destruct set_tags_revalidates.
  - intros l H. unfold attach_tags in H. destruct (tag_check_all l) as [out|] eqn:E; [|discriminate].
    apply tag_check_all_spec in E. tauto.
  - exists [TNonStr]. split; [reflexivity|]. intro F. inversion F; subst. contradiction.
Qed.

Lemma cap_set_fields_ok_all fg : forall kws st, snd (cap_set_fields fg st kws) = None ->
  Forall (fun kv => cap_asserts (snd kv) = None) kws.
Proof.
  induction kws as [|[k v] kws IH]; intros st H; [constructor|]. cbn [cap_set_fields] in H. unfold cap_set_one in H.
  destruct (cap_asserts v) eqn:A; [discriminate|]. constructor; [exact A|].
  destruct (mem_str k cap_field_names).
  - apply (IH _ H).
  - destruct fg; [apply (IH _ H) | discriminate].
Qed.

Definition caps_attach_full : Prop := forall st, attach_caps set_capacities_revalidates st = true -> caps_inv st.
Definition caps_attach_refuted : Prop := exists st, attach_caps set_capacities_revalidates st = true /\ ~ caps_inv st.

Theorem caps_attach_full_or_refuted : if set_capacities_revalidates then caps_attach_full else caps_attach_refuted.
Proof.
  unfold caps_attach_full, caps_attach_refuted. destruct set_capacities_revalidates.
  - intros st H. unfold attach_caps in H. destruct (snd (cap_set_fields false st st)) eqn:E; [discriminate|].
    apply cap_set_fields_ok_all in E. unfold caps_inv. eapply Forall_impl; [|exact E].
    intros kv A. apply cap_asserts_spec. exact A.
  - exists [(S"core", CV_int (-5))]. split; [reflexivity|]. intro F. inversion F; subst. cbn in H1. lia.
Qed.

(* C12 proofs, part 3: reading per-node delegations back into pools (incorporate_delegation) and the
   identity pools -> per-node delegations -> pools, for any order in which the nodes are read. *)
From Coq Require Import List ZArith NArith Bool Lia Permutation String.
From FIM Require Import Base.Str Gen.DelegGen Model.Deleg12 Model.Pools12 Proofs.Deleg12Enc Proofs.Deleg12Pools.
Import ListNotations.

(* ---------------------------------------------------------------------------------------------- *)
(* incorporate over a flat list of (node, delegation) events                                        *)
(* ---------------------------------------------------------------------------------------------- *)
Fixpoint inc_events (ty : dtype) (l : list pool) (es : list (str * deleg)) : res (list pool) :=
  match es with
  | [] => Ok l
  | (n, d) :: r => bind (inc_one ty n l d) (fun l' => inc_events ty l' r)
  end.

Lemma inc_events_app ty a b : forall l,
  inc_events ty l (a ++ b) = bind (inc_events ty l a) (fun l' => inc_events ty l' b).
Proof.
  induction a as [|[n d] r IH]; intro l; simpl; [reflexivity|].
  destruct (inc_one ty n l d); simpl; [apply IH|reflexivity].
Qed.

Lemma inc_items_events ty n items : forall l, inc_items ty n l items = inc_events ty l (map (pair n) items).
Proof.
  induction items as [|d r IH]; intro l; simpl; [reflexivity|].
  destruct (inc_one ty n l d); simpl; [apply IH|reflexivity].
Qed.

Lemma incorporate_all_flat ty g : forall l, Forall (fun nd => ds_type (snd nd) = ty) g ->
  incorporate_all ty g l = inc_events ty l (flatten_g g).
Proof.
  induction g as [|[n ds] r IH]; intros l T; [reflexivity|].
  apply Forall_cons_iff in T as [Th Tr]. simpl in Th.
  unfold flatten_g. cbn [incorporate_all flat_map fst snd]. rewrite inc_events_app.
  unfold incorporate. rewrite Th, dtype_eqb_refl, inc_items_events.
  destruct (inc_events ty l (map (pair n) (ds_items ds))); cbn [bind]; [apply IH; exact Tr|reflexivity].
Qed.

(* ---------------------------------------------------------------------------------------------- *)
(* pool registry lemmas                                                                             *)
(* ---------------------------------------------------------------------------------------------- *)
Lemma find_pool_id pn l p : find_pool pn l = Some p -> p_id p = pn.
Proof.
  induction l as [|q r IH]; simpl; [discriminate|].
  destruct (str_eqb (p_id q) pn) eqn:E; [|exact IH]. intro H. injection H as <-. apply str_eqb_eq. exact E.
Qed.

Lemma find_put_same q l : find_pool (p_id q) (put_pool q l) = Some q.
Proof.
  induction l as [|x r IH]; simpl.
  - rewrite str_eqb_refl. reflexivity.
  - destruct (str_eqb (p_id x) (p_id q)) eqn:E; simpl.
    + rewrite str_eqb_refl. reflexivity.
    + rewrite E. exact IH.
Qed.

Lemma find_put_other q l pn : p_id q <> pn -> find_pool pn (put_pool q l) = find_pool pn l.
Proof.
  intro N. induction l as [|x r IH]; simpl.
  - apply str_eqb_false in N. rewrite N. reflexivity.
  - destruct (str_eqb (p_id x) (p_id q)) eqn:E; simpl.
    + apply str_eqb_eq in E. rewrite E. apply str_eqb_false in N. rewrite N. reflexivity.
    + destruct (str_eqb (p_id x) pn); [reflexivity|exact IH].
Qed.

Lemma find_pool_None pn l : find_pool pn l = None <-> ~ In pn (map p_id l).
Proof.
  induction l as [|x r IH]; simpl; [tauto|].
  destruct (str_eqb (p_id x) pn) eqn:E.
  - apply str_eqb_eq in E. split; [discriminate|]. intro H. exfalso. apply H. left. exact E.
  - apply str_eqb_false in E. rewrite IH. tauto.
Qed.

Lemma put_pool_In_ids q l y : In y (map p_id (put_pool q l)) -> y = p_id q \/ In y (map p_id l).
Proof.
  induction l as [|x r IH]; simpl.
  - intros [H|[]]. left. congruence.
  - destruct (str_eqb (p_id x) (p_id q)) eqn:E; simpl.
    + apply str_eqb_eq in E. intros [H|H]; [left; congruence|right; right; exact H].
    + intros [H|H]; [right; left; exact H|]. destruct (IH H) as [A|A]; [left; exact A|right; right; exact A].
Qed.

Lemma put_pool_ids q l : NoDup (map p_id l) -> NoDup (map p_id (put_pool q l)).
Proof.
  induction l as [|x r IH]; simpl; intro ND.
  - constructor; [tauto|constructor].
  - inversion ND as [|? ? NI ND']; subst. destruct (str_eqb (p_id x) (p_id q)) eqn:E; simpl.
    + apply str_eqb_eq in E. rewrite <- E. constructor; assumption.
    + constructor; [|apply IH; exact ND'].
      intro H. apply str_eqb_false in E. destruct (put_pool_In_ids q r _ H) as [A|A]; [congruence|contradiction].
Qed.

(* ---------------------------------------------------------------------------------------------- *)
(* one event, seen from the pool it names                                                           *)
(* ---------------------------------------------------------------------------------------------- *)
Definition is_def (e : str * deleg) : bool := match d_fmt (snd e) with FDef => true | _ => false end.
Definition ev_pool (e : str * deleg) : option str := d_pool (snd e).
Definition for_pool (pn : str) (e : str * deleg) : bool :=
  match d_pool (snd e) with Some q => str_eqb q pn | None => false end.

Definition ev_ok (e : str * deleg) : Prop :=
  d_fmt (snd e) <> FSingle /\ (exists pn, d_pool (snd e) = Some pn) /\
  (d_fmt (snd e) = FDef -> exists x, d_details (snd e) = Some x).

Definition pstep (ty : dtype) (pn : str) (cur : option pool) (e : str * deleg) : option pool :=
  let p := match cur with Some p => p | None => fresh_pool ty pn end in
  match d_fmt (snd e) with
  | FDef => Some (mkP (p_type p) (p_id p) (Some (d_id (snd e))) (Some (fst e)) (p_for p) (d_details (snd e)))
  | _ => Some (mkP (p_type p) (p_id p) (Some (d_id (snd e))) (p_on p) (set_add (fst e) (p_for p)) (p_details p))
  end.

Definition undefined_in (l : list pool) (o : option str) : Prop :=
  match o with
  | Some pn => match find_pool pn l with Some p => p_on p = None | None => True end
  | None => True
  end.

Definition defnames (es : list (str * deleg)) : list (option str) := map ev_pool (filter is_def es).

Lemma inc_one_spec ty n d l pn : ev_ok (n, d) -> d_pool d = Some pn ->
  (is_def (n, d) = true -> undefined_in l (Some pn)) ->
  exists q, pstep ty pn (find_pool pn l) (n, d) = Some q /\ p_id q = pn /\ inc_one ty n l d = Ok (put_pool q l).
Proof.
  intros (NS & _ & DD) HP U. cbn [snd fst] in *. unfold pstep, inc_one, is_def in *. cbn [snd fst] in *.
  rewrite HP.
  assert (ID : p_id (match find_pool pn l with Some p => p | None => fresh_pool ty pn end) = pn).
  { destruct (find_pool pn l) as [p|] eqn:F; [eapply find_pool_id; exact F|reflexivity]. }
  destruct (d_fmt d) eqn:F.
  - destruct (DD eq_refl) as [x Hx]. specialize (U eq_refl). unfold undefined_in in U.
    destruct (find_pool pn l) as [p|] eqn:FP.
    + rewrite U, Hx. eexists. split; [reflexivity|]. split; [exact ID|reflexivity].
    + cbn [fresh_pool p_on]. rewrite Hx. eexists. split; [reflexivity|]. split; [exact ID|reflexivity].
  - eexists. split; [reflexivity|]. split; [exact ID|reflexivity].
  - contradiction.
Qed.

Lemma inc_events_spec ty es : forall l,
  Forall ev_ok es -> NoDup (defnames es) -> Forall (undefined_in l) (defnames es) ->
  exists l', inc_events ty l es = Ok l' /\
             (forall pn, find_pool pn l' = fold_left (pstep ty pn) (filter (for_pool pn) es) (find_pool pn l)) /\
             (NoDup (map p_id l) -> NoDup (map p_id l')).
Proof.
  induction es as [|[n d] r IH]; intros l OK ND UD.
  - exists l. repeat split; tauto.
  - apply Forall_cons_iff in OK as [Oe Or].
    destruct Oe as (NS & [pn HP] & DD). cbn [snd] in *.
    assert (Oe : ev_ok (n, d)) by (repeat split; [exact NS|exists pn; exact HP|exact DD]).
    assert (U : is_def (n, d) = true -> undefined_in l (Some pn)).
    { intro I. unfold defnames in UD. cbn [filter] in UD. rewrite I in UD. cbn [map] in UD.
      apply Forall_cons_iff in UD as [Uh _]. unfold ev_pool in Uh. cbn [snd] in Uh. rewrite HP in Uh. exact Uh. }
    destruct (inc_one_spec ty n d l pn Oe HP U) as (q & PS & IDq & IO).
    (* premises for the rest *)
    assert (ND' : NoDup (defnames r)).
    { unfold defnames in *. cbn [filter] in ND. destruct (is_def (n, d)); [cbn [map] in ND; inversion ND; assumption|exact ND]. }
    assert (UD' : Forall (undefined_in (put_pool q l)) (defnames r)).
    { apply Forall_forall. intros o Ho. destruct o as [pn'|]; [|exact I]. unfold undefined_in.
      destruct (str_dec pn' pn) as [->|NE].
      - rewrite <- IDq, find_put_same.
        destruct (is_def (n, d)) eqn:I.
        + exfalso. unfold defnames in ND. cbn [filter] in ND. rewrite I in ND. cbn [map] in ND.
          unfold ev_pool at 1 in ND. cbn [snd] in ND. rewrite HP in ND. apply NoDup_cons_iff in ND as [NI _].
          apply NI. exact Ho.
        + (* a reference keeps defined_on *)
          assert (Uo : undefined_in l (Some pn)).
          { unfold defnames in UD. cbn [filter] in UD. rewrite I in UD. rewrite Forall_forall in UD.
            apply UD. exact Ho. }
          unfold undefined_in in Uo. unfold pstep, is_def in PS, I. cbn [snd fst] in PS, I.
          destruct (d_fmt d); try discriminate; injection PS as <-; cbn [p_on];
            (destruct (find_pool pn l) as [p|]; [exact Uo|reflexivity]).
      - rewrite find_put_other by congruence.
        assert (Uo : undefined_in l (Some pn')).
        { rewrite Forall_forall in UD. apply UD. unfold defnames in *. cbn [filter].
          destruct (is_def (n, d)); [right; exact Ho|exact Ho]. }
        exact Uo. }
    destruct (IH (put_pool q l) Or ND' UD') as (l' & E & FS & NDI).
    exists l'. cbn [inc_events]. rewrite IO. cbn [bind]. split; [exact E|]. split.
    + intro pn'. rewrite FS. cbn [filter]. unfold for_pool at 2. cbn [snd]. rewrite HP.
      destruct (str_eqb pn pn') eqn:EQ.
      * apply str_eqb_eq in EQ. subst pn'. cbn [fold_left]. rewrite PS. f_equal.
        rewrite <- IDq. apply find_put_same.
      * apply str_eqb_false in EQ. rewrite find_put_other by congruence. reflexivity.
    + intro N0. apply NDI. apply put_pool_ids. exact N0.
Qed.

(* ---------------------------------------------------------------------------------------------- *)
(* the fold of the events of ONE pool, field by field                                               *)
(* ---------------------------------------------------------------------------------------------- *)
Definition not_def (e : str * deleg) : bool := negb (is_def e).

Lemma fold_pstep_fields ty pn L : forall p0,
  exists p', fold_left (pstep ty pn) L (Some p0) = Some p' /\
    p_type p' = p_type p0 /\ p_id p' = p_id p0 /\
    p_for p' = fold_left (fun acc e => set_add (fst e) acc) (filter not_def L) (p_for p0) /\
    (p_on p', p_details p') =
      fold_left (fun (od : option str * option det) (e : str * deleg) => (Some (fst e), d_details (snd e)))
                (filter is_def L) (p_on p0, p_details p0) /\
    p_deleg p' = fold_left (fun (o : option str) (e : str * deleg) => Some (d_id (snd e))) L (p_deleg p0).
Proof.
  induction L as [|e r IH]; intro p0.
  - exists p0. repeat split.
  - cbn [fold_left]. unfold pstep at 2. unfold not_def, is_def. cbn [filter].
    destruct (d_fmt (snd e)) eqn:F; cbn [negb];
      match goal with |- context [fold_left (pstep ty pn) r (Some ?q)] => destruct (IH q) as (p' & E & T & I & Fo & OD & DL) end;
      exists p'; cbn [p_type p_id p_for p_on p_details p_deleg fold_left] in *; repeat split; assumption.
Qed.

Lemma set_add_fresh x l : ~ In x l -> set_add x l = l ++ [x].
Proof. intro H. unfold set_add. apply str_mem_false in H. rewrite H. reflexivity. Qed.

Lemma fold_set_add_nodup (M : list (str * deleg)) : forall acc, NoDup (acc ++ map fst M) ->
  fold_left (fun acc e => set_add (fst e) acc) M acc = acc ++ map fst M.
Proof.
  induction M as [|e r IH]; intros acc ND; simpl.
  - rewrite app_nil_r. reflexivity.
  - simpl in ND. rewrite set_add_fresh.
    + rewrite IH; rewrite <- app_assoc; [reflexivity|exact ND].
    + apply NoDup_remove_2 in ND. intro H. apply ND. apply in_or_app. left. exact H.
Qed.

Lemma fold_last_id did (L : list (str * deleg)) : Forall (fun e => d_id (snd e) = did) L -> L <> [] ->
  forall o, fold_left (fun (o : option str) (e : str * deleg) => Some (d_id (snd e))) L o = Some did.
Proof.
  intros F NE.
  assert (C : forall L', Forall (fun e => d_id (snd e) = did) L' ->
              fold_left (fun (o : option str) (e : str * deleg) => Some (d_id (snd e))) L' (Some did) = Some did).
  { induction L' as [|e r IH]; intro F'; simpl; [reflexivity|].
    apply Forall_cons_iff in F' as [Fe Fr]. rewrite Fe. apply IH. exact Fr. }
  destruct L as [|e r]; [contradiction|]. apply Forall_cons_iff in F as [Fe Fr].
  intro o. simpl. rewrite Fe. apply C. exact Fr.
Qed.

Lemma refs_no_def ty did pid l : filter is_def (map (fun n => (n, mkD ty did FRef (Some pid) None)) l) = [].
Proof. induction l as [|n r IH]; [reflexivity|exact IH]. Qed.

Lemma refs_not_def ty did pid l :
  filter not_def (map (fun n => (n, mkD ty did FRef (Some pid) None)) l) = map (fun n => (n, mkD ty did FRef (Some pid) None)) l.
Proof. induction l as [|n r IH]; [reflexivity|]. simpl. unfold not_def, is_def at 1. simpl. f_equal. exact IH. Qed.

(* the events prescribed for a well-formed pool p, in ANY order, rebuild p *)
Lemma pool_rebuilt ty p L : pool_ok ty p = true -> Permutation L (pool_evs ty p) ->
  exists p', fold_left (pstep ty (p_id p)) L None = Some p' /\ pool_equiv p' p.
Proof.
  intros OK PM.
  destruct (pool_ok_inv ty p OK) as (did & on & x & T & Hd & Ho & Hx & K & NE & NDF & NIF).
  assert (EV : pool_evs ty p = (on, mkD ty did FDef (Some (p_id p)) (Some x))
                               :: map (fun n => (n, mkD ty did FRef (Some (p_id p)) None)) (p_for p)).
  { unfold pool_evs. rewrite Hd, Ho, Hx. reflexivity. }
  rewrite EV in PM.
  set (refs := map (fun n => (n, mkD ty did FRef (Some (p_id p)) None)) (p_for p)) in *.
  assert (FD : filter is_def refs = []).
  { unfold refs. apply refs_no_def. }
  assert (FR : filter not_def refs = refs).
  { unfold refs. apply refs_not_def. }
  (* the definitions and references found in L *)
  assert (LD : filter is_def L = [(on, mkD ty did FDef (Some (p_id p)) (Some x))]).
  { apply Permutation_length_1_inv. apply Permutation_sym.
    eapply Permutation_trans; [apply Permutation_filter; exact PM|]. cbn [filter]. unfold is_def at 1. cbn. rewrite FD.
    apply Permutation_refl. }
  assert (LR : Permutation (filter not_def L) refs).
  { eapply Permutation_trans; [apply Permutation_filter; exact PM|]. cbn [filter]. unfold not_def at 1, is_def. cbn.
    rewrite FR. apply Permutation_refl. }
  assert (LI : Forall (fun e => d_id (snd e) = did) L).
  { eapply perm_Forall; [apply Permutation_sym; exact PM|]. constructor; [reflexivity|].
    apply Forall_forall. intros e He. unfold refs in He. apply in_map_iff in He as (n & <- & _). reflexivity. }
  assert (LN : L <> []).
  { intro H. subst L. apply Permutation_nil in PM. discriminate. }
  assert (RF : map fst refs = p_for p).
  { unfold refs. rewrite map_map. simpl. apply map_id. }
  destruct L as [|e r]; [contradiction|].
  assert (S0 : fold_left (pstep ty (p_id p)) (e :: r) None = fold_left (pstep ty (p_id p)) (e :: r) (Some (fresh_pool ty (p_id p)))).
  { reflexivity. }
  rewrite S0.
  destruct (fold_pstep_fields ty (p_id p) (e :: r) (fresh_pool ty (p_id p))) as (p' & E & T' & I' & F' & OD & DL).
  exists p'. split; [exact E|].
  rewrite LD in OD. cbn in OD. injection OD as On De.
  rewrite (fold_last_id did _ LI LN) in DL.
  cbn [fresh_pool p_for] in F'. rewrite fold_set_add_nodup in F'.
  - unfold pool_equiv. cbn [fresh_pool p_type p_id] in *. repeat split; try congruence.
    rewrite F'. simpl. rewrite <- RF. apply Permutation_map. exact LR.
  - simpl. eapply Permutation_NoDup; [apply Permutation_map; apply Permutation_sym; exact LR|]. rewrite RF. exact NDF.
Qed.

(* ---------------------------------------------------------------------------------------------- *)
(* the prescribed events, filtered by pool                                                          *)
(* ---------------------------------------------------------------------------------------------- *)
Lemma pool_evs_for ty p pn :
  filter (for_pool pn) (pool_evs ty p) = if str_eqb (p_id p) pn then pool_evs ty p else [].
Proof.
  unfold pool_evs. destruct (p_deleg p) as [did|], (p_on p) as [on|]; try (destruct (str_eqb (p_id p) pn); reflexivity).
  cbn [filter]. unfold for_pool at 1. cbn.
  assert (R : forall l, filter (for_pool pn) (map (fun n => (n, mkD ty did FRef (Some (p_id p)) None)) l)
                        = if str_eqb (p_id p) pn then map (fun n => (n, mkD ty did FRef (Some (p_id p)) None)) l else []).
  { induction l as [|n r IH]; simpl; [destruct (str_eqb (p_id p) pn); reflexivity|].
    unfold for_pool at 1. cbn. rewrite IH. destruct (str_eqb (p_id p) pn); reflexivity. }
  rewrite R. destruct (str_eqb (p_id p) pn); reflexivity.
Qed.

Lemma expected_for_absent ty P pn : ~ In pn (map p_id P) -> filter (for_pool pn) (expected_events ty P) = [].
Proof.
  unfold expected_events. induction P as [|p r IH]; intro NI; [reflexivity|].
  simpl in *. rewrite filter_app, pool_evs_for.
  destruct (str_eqb (p_id p) pn) eqn:E; [apply str_eqb_eq in E; tauto|]. simpl. apply IH. tauto.
Qed.

Lemma expected_for ty P pn : NoDup (map p_id P) ->
  filter (for_pool pn) (expected_events ty P) = match find_pool pn P with Some p => pool_evs ty p | None => [] end.
Proof.
  unfold expected_events. induction P as [|p r IH]; intro ND; [reflexivity|].
  simpl in *. inversion ND as [|? ? NI ND']; subst. rewrite filter_app, pool_evs_for.
  destruct (str_eqb (p_id p) pn) eqn:E.
  - apply str_eqb_eq in E. subst pn. fold (expected_events ty r). rewrite expected_for_absent by exact NI.
    apply app_nil_r.
  - simpl. apply IH. exact ND'.
Qed.

Lemma pool_evs_ok ty p : pool_ok ty p = true -> Forall ev_ok (pool_evs ty p).
Proof.
  intro OK. destruct (pool_ok_inv ty p OK) as (did & on & x & T & Hd & Ho & Hx & _).
  unfold pool_evs. rewrite Hd, Ho, Hx. constructor.
  - unfold ev_ok. cbn. repeat split; [discriminate|eexists; reflexivity|intros _; eexists; reflexivity].
  - apply Forall_forall. intros e He. apply in_map_iff in He as (n & <- & _).
    unfold ev_ok. cbn. repeat split; [discriminate|eexists; reflexivity|discriminate].
Qed.

Lemma pool_evs_defnames ty p : pool_ok ty p = true -> defnames (pool_evs ty p) = [Some (p_id p)].
Proof.
  intro OK. destruct (pool_ok_inv ty p OK) as (did & on & x & T & Hd & Ho & Hx & _).
  unfold pool_evs, defnames. rewrite Hd, Ho, Hx. cbn [filter]. unfold is_def at 1. cbn.
  rewrite refs_no_def. reflexivity.
Qed.

Section Regroup.
Variable ty : dtype.
Variable P : list pool.
Hypothesis OK : forallb (pool_ok ty) P = true.
Hypothesis IDS : NoDup (map p_id P).

Lemma expected_ok : Forall ev_ok (expected_events ty P).
Proof.
  unfold expected_events. rewrite forallb_forall in OK. clear IDS.
  induction P as [|p r IH]; [constructor|]. simpl. apply Forall_app. split.
  - apply pool_evs_ok. apply OK. left. reflexivity.
  - apply IH. intros q Hq. apply OK. right. exact Hq.
Qed.

Lemma expected_defnames : defnames (expected_events ty P) = map (fun p => Some (p_id p)) P.
Proof.
  unfold expected_events, defnames. rewrite forallb_forall in OK. clear IDS.
  induction P as [|p r IH]; [reflexivity|]. simpl. rewrite filter_app, map_app.
  fold (defnames (pool_evs ty p)). rewrite pool_evs_defnames by (apply OK; left; reflexivity).
  simpl. f_equal. apply IH. intros q Hq. apply OK. right. exact Hq.
Qed.

(* the prescribed delegations, read back in any order, rebuild the pools *)
Lemma incorporate_expected es : Permutation es (expected_events ty P) ->
  exists P', inc_events ty [] es = Ok P' /\ pools_equiv P' P.
Proof.
  intro PM.
  assert (OKs : Forall ev_ok es) by (eapply perm_Forall; [apply Permutation_sym; exact PM|apply expected_ok]).
  assert (NDs : NoDup (defnames es)).
  { eapply Permutation_NoDup.
    - unfold defnames. apply Permutation_map. apply Permutation_filter. apply Permutation_sym. exact PM.
    - fold (defnames (expected_events ty P)). rewrite expected_defnames. rewrite <- (map_map p_id Some).
      apply FinFun.Injective_map_NoDup; [intros a b H; congruence|exact IDS]. }
  assert (UDs : Forall (undefined_in []) (defnames es)).
  { apply Forall_forall. intros [pn|] _; exact I. }
  destruct (inc_events_spec ty es [] OKs NDs UDs) as (P' & E & FS & NDI).
  exists P'. split; [exact E|]. split; [apply NDI; constructor|].
  intro pn. rewrite FS. cbn [find_pool].
  assert (PF : Permutation (filter (for_pool pn) es) (match find_pool pn P with Some p => pool_evs ty p | None => [] end)).
  { rewrite <- (expected_for ty P pn IDS). apply Permutation_filter. exact PM. }
  destruct (find_pool pn P) as [p|] eqn:F.
  - assert (Hp : p_id p = pn) by (eapply find_pool_id; exact F). subst pn.
    assert (Op : pool_ok ty p = true).
    { rewrite forallb_forall in OK. apply OK. clear - F. induction P as [|q r IH]; simpl in F; [discriminate|].
      destruct (str_eqb (p_id q) (p_id p)); [injection F as ->; left; reflexivity|right; apply IH; exact F]. }
    destruct (pool_rebuilt ty p _ Op PF) as (p' & E' & EQ). rewrite E'. exact EQ.
  - apply Permutation_sym in PF. apply Permutation_nil in PF. rewrite PF. exact I.
Qed.

(* pools -> index -> per-node delegations -> pools, nodes read in any order *)
Lemma regroup_any_order idx G G' : no_conflict P = true ->
  build_index P = Ok idx -> generate ty (Some idx) = Ok G -> Permutation G' G ->
  exists P', incorporate_all ty G' [] = Ok P' /\ pools_equiv P' P.
Proof.
  intros NC B GE PG.
  destruct (generate_ok ty P OK idx B NC) as (G0 & GE0 & [_ TY] & PE). rewrite GE in GE0. injection GE0 as <-.
  assert (TY' : Forall (fun nd => ds_type (snd nd) = ty) G') by (eapply perm_Forall; [apply Permutation_sym; exact PG|exact TY]).
  rewrite (incorporate_all_flat ty G' [] TY').
  apply incorporate_expected.
  eapply Permutation_trans; [|exact PE]. unfold flatten_g. apply perm_flat_map. exact PG.
Qed.

Lemma regroup_ok : no_conflict P = true -> exists P', regroup ty P = Ok P' /\ pools_equiv P' P.
Proof.
  intro NC. destruct (build_index_ok P (all_valid ty P OK)) as (idx & B & _).
  destruct (generate_ok ty P OK idx B NC) as (G & GE & _).
  destruct (regroup_any_order idx G G NC B GE (Permutation_refl G)) as (P' & E & EQ).
  exists P'. unfold regroup. rewrite B. cbn [bind]. rewrite GE. cbn [bind]. split; assumption.
Qed.

End Regroup.

(* C07 - the removal programs for components and nodes: loops over services and components. *)
From Coq Require Import String List NArith ZArith Bool Arith Lia.
From FIM Require Import Base.Str Gen.Rules Model.T7Graph Model.T7Ops Model.T7WF Model.T7Steps Model.T7Rel
     Proofs.T7Tables Proofs.T7WFRefl Proofs.T7Frame Proofs.T7Units Proofs.T7Api Proofs.T7Api2 Proofs.T7Api3
     Proofs.T7RelUnits Proofs.T7RelRun Proofs.T7RelCp Proofs.T7Api4 Proofs.T7RelAdd Proofs.T7Api5 Proofs.T7Api6
     Proofs.T7Rem Proofs.T7Rem2 Proofs.T7Rem3.
Import ListNotations.

Section Progs.
Variable g0 : graph.
Hypothesis W0 : WF g0.
Variable E : str -> bool.

(* "no service-port peer is left" on the interfaces of a service (and their sub-interfaces), in the state s *)
Definition NoSPat (d : str -> bool) (g : graph) (sv : str) : Prop :=
  forall x c z, In x (first_nb g0 sv Connects KCP) -> d x = false -> (c = x \/ In c (first_nb g x Connects KCP)) ->
                In z (peers g c) -> typ_is g0 z sServicePort = true -> E z = true.

Lemma NoSPat_mono d d' sv : (forall y, d y = true -> d' y = true) ->
  NoSPat d (remove_set g0 d) sv -> NoSPat d' (remove_set g0 d') sv.
Proof.
  intros Sd H x c z Hx Dx Hc Hz Tz.
  assert (Dx0 : d x = false) by (destruct (d x) eqn:Q; [rewrite (Sd _ Q) in Dx; discriminate | reflexivity]).
  rewrite (remove_set_more g0 d d' Sd) in Hc, Hz.
  assert (Dc : d' c = false).
  { destruct Hc as [->|Hc]; [exact Dx|]. rewrite (first_nb_remove _ d' x _ _ Dx) in Hc. apply filter_In in Hc as [_ Hc].
    apply negb_true_iff in Hc. exact Hc. }
  apply (peers_remove_sub _ d' c z Dc) in Hz as [Hz _].
  apply (H x c z Hx Dx0); [|exact Hz | exact Tz].
  destruct Hc as [->|Hc]; [left; reflexivity|]. right. rewrite (first_nb_remove _ d' x _ _ Dx) in Hc. apply filter_In in Hc. tauto.
Qed.

(* a list of services is removed one after the other *)
Lemma nss_loop_run : forall L d s,
  InvD g0 E d s -> NoDup L ->
  (forall sv, In sv L -> has_id g0 sv = true /\ d sv = false /\ cls_is g0 sv KNS = true /\
                         (forall x, In x (first_nb g0 sv Connects KCP) -> E x = true) /\ NoSPat d (remove_set g0 d) sv) ->
  exists d', for_each L remove_ns_with_cps_and_links s = (mkSt (remove_set g0 d') (sdr s), Ok tt) /\
    InvD g0 E d' (mkSt (remove_set g0 d') (sdr s)) /\ (forall y, d y = true -> d' y = true) /\
    (forall sv, In sv L -> d' sv = true /\ forall x, In x (first_nb g0 sv Connects KCP) -> d' x = true) /\
    (forall y, d' y = true -> d y = true \/ In y L \/ cls_is g0 y KCP = true \/ cls_is g0 y KLink = true).
Proof.
  induction L as [|sv L IH]; intros d s I ND HL; simpl.
  - exists d. unfold ret. rewrite (state_eta g0 E d s I). split; [reflexivity|]. split; [exact I|]. split; [auto|]. split; [intros sv []|]. auto.
  - destruct (HL sv (or_introl eq_refl)) as [Hs [Ds [Cs [HE NS]]]]. inversion ND as [|? ? Hnot ND']; subst. pose proof I as [G W].
    destruct (remove_ns_run g0 W0 E d s sv I Hs Ds Cs HE) as [d1 [R1 [I1 [S1 [D1s [D1p M1]]]]]].
    { rewrite G. exact NS. }
    unfold bind at 1. rewrite R1.
    assert (M1' : forall y, d1 y = true -> d y = true \/ y = sv \/ cls_is g0 y KCP = true \/ cls_is g0 y KLink = true).
    { intros y Hy. destruct (M1 y Hy) as [H|[H|[H|[[x [Hx H]]|H]]]].
      - left. exact H.
      - right. left. exact H.
      - right. right. left. apply In_first_nb in H. tauto.
      - right. right. left. apply In_first_nb in H. tauto.
      - right. right. right. exact H. }
    destruct (IH d1 (mkSt (remove_set g0 d1) (sdr s)) I1 ND') as [d' [R' [I' [S' [A' M']]]]].
    + intros sv' Hsv'. destruct (HL sv' (or_intror Hsv')) as [Hs' [Ds' [Cs' [HE' NS']]]].
      split; [exact Hs'|]. split.
      * destruct (d1 sv') eqn:Q; [|reflexivity]. exfalso. destruct (M1' sv' Q) as [H|[H|[H|H]]].
        -- congruence.
        -- subst sv'. contradiction.
        -- rewrite (cls_is_unique _ _ _ KCP Cs') in H; discriminate.
        -- rewrite (cls_is_unique _ _ _ KLink Cs') in H; discriminate.
      * split; [exact Cs'|]. split; [exact HE'|]. apply (NoSPat_mono d d1 sv' S1 NS').
    + simpl in R', I'. exists d'. split; [exact R'|]. split; [exact I'|]. split; [auto|]. split.
      * intros sv' [<-|Hsv']; [|apply A'; exact Hsv']. split; [apply S'; exact D1s | intros x Hx; apply S'; apply D1p; exact Hx].
      * intros y Hy. destruct (M' y Hy) as [H|[H|[H|H]]].
        -- destruct (M1' y H) as [H1|[H1|[H1|H1]]].
           ++ left. exact H1.
           ++ subst y. right. left. left. reflexivity.
           ++ right. right. left. exact H1.
           ++ right. right. right. exact H1.
        -- right. left. right. exact H.
        -- right. right. left. exact H.
        -- right. right. right. exact H.
Qed.

(* the elements that have the component c / the node x as an owner *)
Lemma in_scope_comp c n : cls_is g0 c KComp = true -> In n (gnodes g0) -> In c (scope_of g0 n) -> In (nid n) (first_nb g0 c Has KNS).
Proof.
  intros Cc Hn H. unfold scope_of in H. destruct (ncls n) eqn:Kn; try destruct H.
  - exfalso. unfold comp_owners in H. apply In_nb_where in H as [r [_ P]]. apply andb_true_iff in P as [_ P].
    rewrite !(cls_is_unique _ _ _ _ Cc) in P; [discriminate P | discriminate | discriminate].
  - unfold ns_owners in H. apply In_nb_where in H as [r [Hadj P]]. apply andb_true_iff in P as [Pr _]. apply rel_eqb_eq in Pr. subst r.
    apply In_first_nb. split; [apply nbrs_sym; exact Hadj|]. rewrite (cls_node g0 W0 n _ Hn), Kn. reflexivity.
  - exfalso. unfold cp_owners in H. apply In_nb_where in H as [r [_ P]]. apply andb_true_iff in P as [_ P].
    rewrite !(cls_is_unique _ _ _ _ Cc) in P; [|discriminate|discriminate]. simpl in P. rewrite andb_false_r in P. discriminate P.
Qed.
Lemma in_scope_node x n : cls_is g0 x KNode = true -> In n (gnodes g0) -> In x (scope_of g0 n) ->
  In (nid n) (first_nb g0 x Has KComp) \/ In (nid n) (first_nb g0 x Has KNS).
Proof.
  intros Cx Hn H. unfold scope_of in H. destruct (ncls n) eqn:Kn; try destruct H.
  - left. unfold comp_owners in H. apply In_nb_where in H as [r [Hadj P]]. apply andb_true_iff in P as [Pr _]. apply rel_eqb_eq in Pr. subst r.
    apply In_first_nb. split; [apply nbrs_sym; exact Hadj|]. rewrite (cls_node g0 W0 n _ Hn), Kn. reflexivity.
  - right. unfold ns_owners in H. apply In_nb_where in H as [r [Hadj P]]. apply andb_true_iff in P as [Pr _]. apply rel_eqb_eq in Pr. subst r.
    apply In_first_nb. split; [apply nbrs_sym; exact Hadj|]. rewrite (cls_node g0 W0 n _ Hn), Kn. reflexivity.
  - exfalso. unfold cp_owners in H. apply In_nb_where in H as [r [_ P]]. apply andb_true_iff in P as [_ P].
    rewrite !(cls_is_unique _ _ _ _ Cx) in P; [|discriminate|discriminate]. simpl in P. rewrite andb_false_r in P. discriminate P.
Qed.

(* the interfaces of a deleted service are deleted *)
Definition PortsGone (d : str -> bool) : Prop :=
  forall sv x, cls_is g0 sv KNS = true -> d sv = true -> In x (first_nb g0 sv Connects KCP) -> d x = true.

(* what a service needs for its removal *)
Definition NsReady (d : str -> bool) (sv : str) : Prop :=
  E sv = true /\ (forall x, In x (first_nb g0 sv Connects KCP) -> E x = true) /\ NoSPat d (remove_set g0 d) sv.
Lemma NsReady_mono d d' sv : (forall y, d y = true -> d' y = true) -> NsReady d sv -> NsReady d' sv.
Proof. intros Sd [A [B C]]. split; [exact A|]. split; [exact B|]. eapply NoSPat_mono; eauto. Qed.

Lemma remove_comp_run d s c :
  InvD g0 E d s -> has_id g0 c = true -> d c = false -> cls_is g0 c KComp = true ->
  (forall sv, In sv (first_nb g0 c Has KNS) -> NsReady d sv) ->
  exists d', remove_component_with_nss c s = (mkSt (remove_set g0 d') (sdr s), Ok tt) /\
    InvD g0 E d' (mkSt (remove_set g0 d') (sdr s)) /\ (forall y, d y = true -> d' y = true) /\ d' c = true /\
    (forall sv, In sv (first_nb g0 c Has KNS) -> d' sv = true) /\ (PortsGone d -> PortsGone d') /\
    (forall y, d' y = true -> d y = true \/ y = c \/ cls_is g0 y KNS = true \/ cls_is g0 y KCP = true \/ cls_is g0 y KLink = true).
Proof.
  intros I Hc Dc Cc HR. pose proof I as [G W]. pose proof (InvD_sane _ _ _ _ I) as Sn.
  assert (Ccs : cls_is (sg s) c KComp = true) by (rewrite G, (rs_cls g0 d _ _ Dc); exact Cc).
  unfold remove_component_with_nss. unfold bind at 1. rewrite (check_class_run c [KComp] s KComp Sn Ccs eq_refl).
  unfold bind at 1. rewrite (q_first_nb_ok c Has KNS s Sn (cls_is_has_id _ _ _ Ccs)).
  set (L := first_nb (sg s) c Has KNS).
  assert (HL : forall x, In x L <-> In x (first_nb g0 c Has KNS) /\ d x = false).
  { intro x. unfold L. rewrite G, (first_nb_remove g0 d c _ _ Dc), filter_In, negb_true_iff. tauto. }
  destruct (step_delete_owner g0 E d s c I Hc Dc) as [R1 I1].
  { apply (cls_is_unique _ _ _ _ Cc). discriminate. }
  { apply (cls_is_unique _ _ _ _ Cc). discriminate. }
  { intros n Hn Hsc. destruct (HR (nid n) (in_scope_comp c n Cc Hn Hsc)) as [A _]. exact A. }
  set (d1 := fun y => d y || str_eqb y c) in *.
  unfold bind at 1. rewrite R1.
  assert (S1 : forall y, d y = true -> d1 y = true) by (intros y Hy; unfold d1; rewrite Hy; reflexivity).
  destruct (nss_loop_run L d1 (mkSt (remove_set g0 d1) (sdr s)) I1) as [d' [R' [I' [S' [A' M']]]]].
  - apply first_nb_NoDup. apply (r_edges_distinct _ _ _ W).
  - intros sv Hsv. apply HL in Hsv as [Hsv Dsv]. assert (Csv : cls_is g0 sv KNS = true) by (apply In_first_nb in Hsv; tauto).
    split; [eapply cls_is_has_id; eauto|]. split.
    { unfold d1. rewrite Dsv. simpl. apply str_eqb_neq. intro Ex. subst sv. rewrite (cls_is_unique _ _ _ KNS Cc) in Csv; discriminate. }
    split; [exact Csv|]. destruct (NsReady_mono d d1 sv S1 (HR sv Hsv)) as [_ [B C]]. auto.
  - simpl in R', I'. exists d'. split; [exact R'|]. split; [exact I'|]. split; [auto|].
    split; [apply S'; unfold d1; rewrite str_eqb_refl; apply orb_true_r|]. split; [|split].
    + intros sv Hsv. destruct (d sv) eqn:Dsv; [auto|]. apply A'. apply HL. auto.
    + intros PG sv x Csv Dsv Hx. destruct (M' sv Dsv) as [H|[H|[H|H]]].
      * unfold d1 in H. apply orb_true_iff in H as [H|H]; [apply S', S1; eapply PG; eauto|].
        apply str_eqb_eq in H. subst sv. rewrite (cls_is_unique _ _ _ KNS Cc) in Csv; discriminate.
      * apply (A' sv H). exact Hx.
      * rewrite (cls_is_unique _ _ _ KCP Csv) in H; discriminate.
      * rewrite (cls_is_unique _ _ _ KLink Csv) in H; discriminate.
    + intros y Hy. destruct (M' y Hy) as [H|[H|[H|H]]].
      * unfold d1 in H. apply orb_true_iff in H as [H|H]; [left; exact H|]. right. left. apply str_eqb_eq. exact H.
      * right. right. left. apply HL in H as [H _]. apply In_first_nb in H. tauto.
      * right. right. right. left. exact H.
      * right. right. right. right. exact H.
Qed.

Lemma nss_loop_ports L d d' :
  (forall y, d y = true -> d' y = true) ->
  (forall sv, In sv L -> d' sv = true /\ forall x, In x (first_nb g0 sv Connects KCP) -> d' x = true) ->
  (forall y, d' y = true -> d y = true \/ In y L \/ cls_is g0 y KCP = true \/ cls_is g0 y KLink = true) ->
  PortsGone d -> PortsGone d'.
Proof.
  intros Sd A M PG sv x Csv Dsv Hx. destruct (M sv Dsv) as [H|[H|[H|H]]].
  - apply Sd. eapply PG; eauto.
  - apply (A sv H). exact Hx.
  - rewrite (cls_is_unique _ _ _ KCP Csv) in H; discriminate.
  - rewrite (cls_is_unique _ _ _ KLink Csv) in H; discriminate.
Qed.

Lemma comps_loop_run : forall L d s,
  InvD g0 E d s -> NoDup L ->
  (forall c, In c L -> has_id g0 c = true /\ d c = false /\ cls_is g0 c KComp = true /\
                       forall sv, In sv (first_nb g0 c Has KNS) -> NsReady d sv) ->
  exists d', for_each L remove_component_with_nss s = (mkSt (remove_set g0 d') (sdr s), Ok tt) /\
    InvD g0 E d' (mkSt (remove_set g0 d') (sdr s)) /\ (forall y, d y = true -> d' y = true) /\
    (forall c, In c L -> d' c = true /\ forall sv, In sv (first_nb g0 c Has KNS) -> d' sv = true) /\
    (PortsGone d -> PortsGone d') /\
    (forall y, d' y = true -> d y = true \/ In y L \/ cls_is g0 y KNS = true \/ cls_is g0 y KCP = true \/ cls_is g0 y KLink = true).
Proof.
  induction L as [|c L IH]; intros d s I ND HL; simpl.
  - exists d. unfold ret. rewrite (state_eta g0 E d s I). split; [reflexivity|]. split; [exact I|]. split; [auto|]. split; [intros c []|]. auto.
  - destruct (HL c (or_introl eq_refl)) as [Hc [Dc [Cc HR]]]. inversion ND as [|? ? Hnot ND']; subst.
    destruct (remove_comp_run d s c I Hc Dc Cc HR) as [d1 [R1 [I1 [S1 [D1c [D1s [PG1 M1]]]]]]].
    unfold bind at 1. rewrite R1.
    destruct (IH d1 (mkSt (remove_set g0 d1) (sdr s)) I1 ND') as [d' [R' [I' [S' [A' [PG' M']]]]]].
    + intros c' Hc'. destruct (HL c' (or_intror Hc')) as [Hc0 [Dc' [Cc' HR']]].
      split; [exact Hc0|]. split.
      * destruct (d1 c') eqn:Q; [|reflexivity]. exfalso. destruct (M1 c' Q) as [H|[H|[H|[H|H]]]].
        -- congruence.
        -- subst c'. contradiction.
        -- rewrite (cls_is_unique _ _ _ KNS Cc') in H; discriminate.
        -- rewrite (cls_is_unique _ _ _ KCP Cc') in H; discriminate.
        -- rewrite (cls_is_unique _ _ _ KLink Cc') in H; discriminate.
      * split; [exact Cc'|]. intros sv Hsv. apply (NsReady_mono d d1 sv S1). apply HR'. exact Hsv.
    + simpl in R', I'. exists d'. split; [exact R'|]. split; [exact I'|]. split; [auto|]. split; [|split].
      * intros c' [<-|Hc']; [|apply A'; exact Hc']. split; [apply S'; exact D1c | intros sv Hsv; apply S'; apply D1s; exact Hsv].
      * auto.
      * intros y Hy. destruct (M' y Hy) as [H|[H|[H|[H|H]]]].
        -- destruct (M1 y H) as [H1|[H1|[H1|[H1|H1]]]].
           ++ left. exact H1.
           ++ subst y. right. left. left. reflexivity.
           ++ right. right. left. exact H1.
           ++ right. right. right. left. exact H1.
           ++ right. right. right. right. exact H1.
        -- right. left. right. exact H.
        -- right. right. left. exact H.
        -- right. right. right. left. exact H.
        -- right. right. right. right. exact H.
Qed.

(* remove_network_node_with_components_nss_cps_and_links *)
Lemma remove_node_run d s n :
  InvD g0 E d s -> has_id g0 n = true -> d n = false -> cls_is g0 n KNode = true ->
  (forall c, In c (first_nb g0 n Has KComp) -> E c = true /\ forall sv, In sv (first_nb g0 c Has KNS) -> NsReady d sv) ->
  (forall sv, In sv (first_nb g0 n Has KNS) -> NsReady d sv) ->
  exists d', remove_network_node n s = (mkSt (remove_set g0 d') (sdr s), Ok tt) /\
    InvD g0 E d' (mkSt (remove_set g0 d') (sdr s)) /\ (forall y, d y = true -> d' y = true) /\ d' n = true /\
    (forall c, In c (first_nb g0 n Has KComp) -> d c = false -> d' c = true /\ forall sv, In sv (first_nb g0 c Has KNS) -> d' sv = true) /\
    (forall sv, In sv (first_nb g0 n Has KNS) -> d' sv = true) /\
    (PortsGone d -> PortsGone d').
Proof.
  intros I Hn Dn Cn HC HS. pose proof I as [G W]. pose proof (InvD_sane _ _ _ _ I) as Sn.
  assert (Cns : cls_is (sg s) n KNode = true) by (rewrite G, (rs_cls g0 d _ _ Dn); exact Cn).
  unfold remove_network_node. unfold bind at 1. rewrite (check_class_run n [KNode] s KNode Sn Cns eq_refl).
  unfold bind at 1. rewrite (q_first_nb_ok n Has KComp s Sn (cls_is_has_id _ _ _ Cns)).
  set (L := first_nb (sg s) n Has KComp).
  assert (HL : forall x, In x L <-> In x (first_nb g0 n Has KComp) /\ d x = false).
  { intro x. unfold L. rewrite G, (first_nb_remove g0 d n _ _ Dn), filter_In, negb_true_iff. tauto. }
  destruct (comps_loop_run L d s I) as [d1 [R1 [I1 [S1 [A1 [PG1 M1]]]]]].
  - apply first_nb_NoDup. apply (r_edges_distinct _ _ _ W).
  - intros c Hc. apply HL in Hc as [Hc Dc]. assert (Cc : cls_is g0 c KComp = true) by (apply In_first_nb in Hc; tauto).
    split; [eapply cls_is_has_id; eauto|]. split; [exact Dc|]. split; [exact Cc|]. apply (HC c Hc).
  - unfold bind at 1. rewrite R1.
    assert (Dn1 : d1 n = false).
    { destruct (d1 n) eqn:Q; [|reflexivity]. exfalso. destruct (M1 n Q) as [H|[H|[H|[H|H]]]].
      - congruence.
      - apply HL in H as [H _]. apply In_first_nb in H as [_ H]. rewrite (cls_is_unique _ _ _ KComp Cn) in H; discriminate.
      - rewrite (cls_is_unique _ _ _ KNS Cn) in H; discriminate.
      - rewrite (cls_is_unique _ _ _ KCP Cn) in H; discriminate.
      - rewrite (cls_is_unique _ _ _ KLink Cn) in H; discriminate. }
    set (s1 := mkSt (remove_set g0 d1) (sdr s)) in *. pose proof I1 as [G1 W1]. pose proof (InvD_sane _ _ _ _ I1) as Sn1.
    assert (Cn1 : cls_is (sg s1) n KNode = true) by (rewrite G1, (rs_cls g0 d1 _ _ Dn1); exact Cn).
    unfold bind at 1. rewrite (q_first_nb_ok n Has KNS s1 Sn1 (cls_is_has_id _ _ _ Cn1)).
    set (L2 := first_nb (sg s1) n Has KNS).
    assert (HL2 : forall x, In x L2 <-> In x (first_nb g0 n Has KNS) /\ d1 x = false).
    { intro x. unfold L2. rewrite G1, (first_nb_remove g0 d1 n _ _ Dn1), filter_In, negb_true_iff. tauto. }
    destruct (step_delete_owner g0 E d1 s1 n I1 Hn Dn1) as [R2 I2].
    { apply (cls_is_unique _ _ _ _ Cn). discriminate. }
    { apply (cls_is_unique _ _ _ _ Cn). discriminate. }
    { intros m Hm Hsc. destruct (in_scope_node n m Cn Hm Hsc) as [H|H]; [destruct (HC _ H) as [X _]; exact X | destruct (HS _ H) as [X _]; exact X]. }
    set (d2 := fun y => d1 y || str_eqb y n) in *.
    unfold bind at 1. rewrite R2.
    assert (S2 : forall y, d1 y = true -> d2 y = true) by (intros y Hy; unfold d2; rewrite Hy; reflexivity).
    destruct (nss_loop_run L2 d2 (mkSt (remove_set g0 d2) (sdr s1)) I2) as [d' [R' [I' [S' [A' M']]]]].
    + apply first_nb_NoDup. apply (r_edges_distinct _ _ _ W1).
    + intros sv Hsv. apply HL2 in Hsv as [Hsv Dsv]. assert (Csv : cls_is g0 sv KNS = true) by (apply In_first_nb in Hsv; tauto).
      split; [eapply cls_is_has_id; eauto|]. split.
      { unfold d2. rewrite Dsv. simpl. apply str_eqb_neq. intro Ex. subst sv. rewrite (cls_is_unique _ _ _ KNS Cn) in Csv; discriminate. }
      split; [exact Csv|].
      destruct (NsReady_mono d d2 sv (fun y Hy => S2 y (S1 y Hy)) (HS sv Hsv)) as [_ [B C]]. auto.
    + simpl in R', I'. exists d'. split; [exact R'|]. split; [exact I'|]. split; [auto|].
      split; [apply S'; unfold d2; rewrite str_eqb_refl; apply orb_true_r|]. split; [|split].
      * intros c Hc Dc. assert (HcL : In c L) by (apply HL; auto). destruct (A1 c HcL) as [X Y].
        split; [auto|]. intros sv Hsv. auto.
      * intros sv Hsv. destruct (d1 sv) eqn:Dsv; [auto|]. apply A'. apply HL2. auto.
      * intro PG. apply (nss_loop_ports L2 d2 d' S' A' M'). intros sv x Csv Dsv Hx.
        unfold d2 in Dsv. apply orb_true_iff in Dsv as [Dsv|Dsv]; [apply S2; eapply PG1; eauto|].
        apply str_eqb_eq in Dsv. subst sv. rewrite (cls_is_unique _ _ _ KNS Cn) in Csv; discriminate.
Qed.
End Progs.

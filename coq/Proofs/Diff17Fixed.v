(* C17 - the service comparison with proposed_fixes/C17-1.patch applied ([svc_diff_fixed]) meets the full
   specification; and a service comparison is None for the repaired method exactly when it is for the
   current one (so NodeSliver.diff, which only tests that, is not affected by the repair). *)
From Coq Require Import List NArith ZArith Bool.
Import ListNotations.
From FIM Require Import Model.Diff17 Proofs.Diff17Lemmas.

Lemma if_flag_fixed_spec a b : if_flag_fixed a b = if_flags_dedicated a b.
Proof.
  unfold if_flag_fixed, if_flags_dedicated. cbv zeta. rewrite prop_diff_flags, iface_diff_exact.
  destruct (if_dedicated a); cbn [andb]; auto.
  unfold iface_expected, mk_opt.
  assert (isnil (exp_added sub_name (if_subs a) (if_subs b)) && isnil (exp_removed sub_name (if_subs a) (if_subs b))
          && isnil (exp_mod sub_name sub_flags (if_subs a) (if_subs b)) = subs_same a b) as K.
  { unfold subs_same. apply exp_empty_same. intros; apply is_none_sub_flags. }
  destruct (idiff_empty _) eqn:Q.
  - unfold idiff_empty in Q. cbn [i_self i_added i_removed i_mod] in Q.
    rewrite <- !andb_assoc in Q. apply andb_true_iff in Q. destruct Q as [_ Q].
    rewrite andb_assoc, K in Q. now rewrite Q.
  - unfold subs_changed. cbn [i_self i_added i_removed i_mod]. rewrite K.
    unfold set_sub. cbn. destruct (subs_same a b); reflexivity.
Qed.

Lemma if_mods_fixed_exp oa ob : if_mods_fixed oa ob = exp_mod if_name if_flags_dedicated oa ob.
Proof.
  unfold if_mods_fixed. apply (mods_exp if_name if_flag_fixed if_flags_dedicated). intros. apply if_flag_fixed_spec.
Qed.

Lemma svc_diff_fixed_exact_ded a b : svc_diff_fixed a b = svc_expected_with if_flags_dedicated a b.
Proof.
  unfold svc_diff_fixed, svc_expected_with, mk_opt, sdiff_empty. cbv zeta.
  cbn [s_self s_added s_removed s_mod].
  now rewrite kids_added_exp, kids_removed_exp, self_mod_exp, if_mods_fixed_exp.
Qed.

Lemma if_flags_dedicated_spec x y :
  wf_iface x = true -> wf_iface y = true -> if_dedicated x = if_dedicated y ->
  if_flags_dedicated x y = if_flags_spec x y.
Proof.
  intros Wx Wy C. pose proof (plain_port_subs_same x y Wx Wy C) as P.
  unfold if_flags_dedicated, if_flags_spec. f_equal.
  destruct (if_dedicated x); cbn; auto. now rewrite (P eq_refl).
Qed.

(* the full statement, for the repaired method *)
Lemma svc_diff_fixed_exact a b :
  wf_svc a = true -> wf_svc b = true -> compat_svc a b = true -> svc_diff_fixed a b = svc_expected a b.
Proof.
  intros Wa Wb C. rewrite svc_diff_fixed_exact_ded. unfold svc_expected, svc_expected_with.
  rewrite (exp_mod_ext if_name if_flags_dedicated if_flags_spec); auto.
  intros x y Hin. destruct (in_kids_common_wf a b x y Wa Wb Hin).
  apply if_flags_dedicated_spec; auto. eapply compat_svc_in'; eauto.
Qed.

Lemma is_none_ded_code x y : is_none (if_flags_dedicated x y) = is_none (if_flags_code x y).
Proof.
  unfold if_flags_dedicated, if_flags_code, iface_same, props_same, is_none. cbn.
  destruct (labels_same _ _), (caps_same _ _), (udata_same _ _), (if_dedicated x), (subs_same x y); reflexivity.
Qed.

Lemma isnil_exp_mod {E} (nm : E -> N) fl oa ob :
  isnil (exp_mod nm fl oa ob)
  = forallb (fun e => match dget nm (nm e) (dflt ob) with Some e' => is_none (fl e e') | None => true end) (dflt oa).
Proof.
  unfold exp_mod. rewrite isnil_flat_map. apply forallb_ext_in'. intros e _.
  destruct (dget nm (nm e) (dflt ob)) as [e'|]; auto. destruct (is_none (fl e e')); reflexivity.
Qed.

(* None-ness of a service comparison does not depend on the repair (unconditional) *)
Lemma svc_diff_fixed_some a b : isSome (svc_diff_fixed a b) = isSome (svc_diff a b).
Proof.
  rewrite svc_diff_fixed_exact_ded, svc_diff_exact_code. unfold svc_expected_code, svc_expected_with.
  rewrite !isSome_mk_opt. f_equal. unfold sdiff_empty. cbn [s_self s_added s_removed s_mod].
  f_equal. rewrite !isnil_exp_mod. apply forallb_ext_in'. intros e _.
  destruct (dget if_name (if_name e) (dflt (sv_ifs b))); auto. apply is_none_ded_code.
Qed.

Lemma svc_diff_fixed_self s : wf_svc s = true -> svc_diff_fixed s s = None.
Proof.
  intros W. apply isSome_false. rewrite svc_diff_fixed_some. now rewrite (svc_diff_self s W).
Qed.

Lemma sd_added_kids_fixed a b : sd_added (svc_diff_fixed a b) = kids_added if_name (sv_ifs a) (sv_ifs b).
Proof.
  unfold svc_diff_fixed. cbv zeta. cbn [s_self s_added s_removed s_mod].
  destruct (isnil (self_mod _ _)); cbn; auto.
  destruct (isnil (kids_added _ _ _)) eqn:Q; cbn; auto.
  destruct (isnil (kids_removed _ _ _) && isnil (if_mods_fixed _ _)); cbn; auto using isnil_true, eq_sym.
Qed.

Lemma sd_removed_kids_fixed a b : sd_removed (svc_diff_fixed a b) = kids_removed if_name (sv_ifs a) (sv_ifs b).
Proof.
  unfold svc_diff_fixed. cbv zeta. cbn [s_self s_added s_removed s_mod].
  destruct (isnil (self_mod _ _)); cbn; auto.
  destruct (isnil (kids_added _ _ _)); cbn; auto.
  destruct (isnil (kids_removed _ _ _)) eqn:Q; cbn; auto.
  destruct (isnil (if_mods_fixed _ _)); cbn; auto using isnil_true, eq_sym.
Qed.

Lemma svc_fixed_antisym a b :
  sd_added (svc_diff_fixed a b) = sd_removed (svc_diff_fixed b a) /\
  sd_removed (svc_diff_fixed a b) = sd_added (svc_diff_fixed b a).
Proof.
  rewrite !sd_added_kids_fixed, !sd_removed_kids_fixed. split; [|symmetry]; apply kids_added_removed.
Qed.

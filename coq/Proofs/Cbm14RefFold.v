(* C14 - refinement: the loop of merge_adm over the common nodes, on the node list. *)
From Coq Require Import List NArith Bool Lia.
From FIM Require Import Model.Cbm14Store Model.Cbm14Spec Model.Cbm14Abs Proofs.Cbm14Assoc Proofs.Cbm14Frame
     Proofs.Cbm14RefBase.
Import ListNotations.
Open Scope N_scope.

Definition mrg (adm : N) (c t : node) (l : list N) : node :=
  set_si (SIds (l ++ [adm])) (set_dels (upd_d (n_ld c) (n_ld t)) (upd_d (n_cd c) (n_cd t)) c).

Definition step_nodes (adm : N) (c t : node) (l : list N) (ns : list node) : list node :=
  filter (fun n => negb (n_int n =? n_int t)) (map (fun n => if n_int n =? n_int c then mrg adm c t l else n) ns).

Definition mo_nodes (cbm tmp adm : N) (acc : option (list node)) (x : N) : option (list node) :=
  match acc with
  | None => None
  | Some ns =>
      match at_ cbm x ns, at_ tmp x ns with
      | Some c, Some t => match n_si c with SIds l => Some (step_nodes adm c t l ns) | _ => None end
      | _, _ => None
      end
  end.

Lemma merge_one_nodes cbm tmp adm acc x :
  option_map s_nodes (merge_one cbm tmp adm acc x) = mo_nodes cbm tmp adm (option_map s_nodes acc) x.
Proof.
  destruct acc as [st|]; simpl; auto. rewrite !find_node_at.
  destruct (at_ cbm x (s_nodes st)) as [c|]; auto. destruct (at_ tmp x (s_nodes st)) as [t|]; auto.
  destruct (n_si c); reflexivity.
Qed.

Lemma fold_merge_one_nodes cbm tmp adm l : forall acc,
  option_map s_nodes (fold_left (merge_one cbm tmp adm) l acc) =
  fold_left (mo_nodes cbm tmp adm) l (option_map s_nodes acc).
Proof. induction l as [|x r IH]; intro acc; simpl; auto. rewrite IH, merge_one_nodes. reflexivity. Qed.

Lemma uniq_inj ns a b : uniq ns -> In a ns -> In b ns -> n_int a = n_int b -> a = b.
Proof.
  unfold uniq. induction ns as [|m r IH]; simpl; [tauto|]. intros ND [Ea|Ha] [Eb|Hb] E; inversion ND; subst; auto.
  - exfalso. apply H1. rewrite E. apply in_map. exact Hb.
  - exfalso. apply H1. rewrite <- E. apply in_map. exact Ha.
Qed.

Lemma ukeys_inj ns a b : ukeys ns -> In a ns -> In b ns -> key a = key b -> a = b.
Proof.
  unfold ukeys. induction ns as [|m r IH]; simpl; [tauto|]. intros ND [Ea|Ha] [Eb|Hb] E; inversion ND; subst; auto.
  - exfalso. apply H1. rewrite E. apply in_map. exact Hb.
  - exfalso. apply H1. rewrite <- E. apply in_map. exact Ha.
Qed.

(* one common node *)
Lemma step_spec nx cbm tmp adm ns x c t l :
  J nx ns -> cbm <> tmp -> at_ cbm x ns = Some c -> at_ tmp x ns = Some t ->
  let ns1 := step_nodes adm c t l ns in
  J nx ns1 /\
  at_ cbm x ns1 = Some (mrg adm c t l) /\ at_ tmp x ns1 = None /\
  (forall g k, (g, k) <> (cbm, x) -> (g, k) <> (tmp, x) -> at_ g k ns1 = at_ g k ns).
Proof.
  intros (U & B & K) NE Hc Ht ns1.
  apply at_In in Hc as (Hc & Gc & Nc). apply at_In in Ht as (Ht & Gt & Nt).
  set (c' := mrg adm c t l) in *.
  set (repl := fun n => if n_int n =? n_int c then c' else n) in *.
  assert (ns1 = filter (fun n => negb (n_int n =? n_int t)) (map repl ns)) as EQ by reflexivity.
  clearbody ns1. subst ns1. set (ns1 := filter (fun n => negb (n_int n =? n_int t)) (map repl ns)).
  assert (n_int c' = n_int c /\ n_gid c' = cbm /\ n_nid c' = x) as (Ic & Gc' & Nc') by (unfold c', mrg; simpl; auto).
  assert (c <> t) as CT by (intro E; subst; congruence).
  assert (n_int c <> n_int t) as ICT by (intro E; apply CT; eapply uniq_inj; eauto).
  assert (forall m, In m ns -> m <> c -> repl m = m) as RO.
  { intros m Hm NEm. unfold repl. destruct (n_int m =? n_int c) eqn:E; auto. apply N.eqb_eq in E.
    exfalso. apply NEm. eapply uniq_inj; eauto. }
  assert (repl c = c') as RC by (unfold repl; rewrite N.eqb_refl; reflexivity).
  assert (forall m, n_int (repl m) = n_int m) as RI.
  { intro m. unfold repl. destruct (n_int m =? n_int c) eqn:E; auto. apply N.eqb_eq in E. congruence. }
  assert (forall m, In m ns -> key (repl m) = key m) as RK.
  { intros m Hm. unfold repl. destruct (n_int m =? n_int c) eqn:E; auto. apply N.eqb_eq in E.
    assert (m = c) by (eapply uniq_inj; eauto). subst. unfold key. congruence. }
  assert (forall n, In n ns1 <-> n_int n <> n_int t /\ exists m, In m ns /\ n = repl m) as MEM.
  { intro n. unfold ns1. rewrite filter_In, in_map_iff, negb_true_iff, N.eqb_neq. split.
    - intros [(m & E & Hm) NI]. split; auto. exists m. auto.
    - intros [NI (m & Hm & E)]. split; auto. exists m. auto. }
  assert (J nx ns1) as J1.
  { unfold ns1. split; [|split].
    - unfold uniq. apply NoDup_map_filter. rewrite map_map.
      rewrite (map_ext (fun m => n_int (repl m)) n_int RI). exact U.
    - intros n Hn. apply filter_In in Hn as [Hn _]. apply in_map_iff in Hn as (m & E & Hm). subst. rewrite RI. auto.
    - unfold ukeys. apply NoDup_map_filter. rewrite map_map.
      rewrite (map_ext_in (fun m => key (repl m)) key _ RK). exact K. }
  destruct J1 as (U1 & B1 & K1). split; [split; auto|].
  assert (In c' ns1) as IC' by (apply MEM; split; [congruence|]; exists c; auto).
  split; [apply at_uniq; auto|]. split.
  - apply at_none. intros n Hn Gn Nn. apply MEM in Hn as [NI (m & Hm & E)]. subst n.
    assert (m <> c) as MC by (intro; subst m; rewrite RC in Gn; congruence).
    rewrite (RO m Hm MC) in Gn, Nn, NI. apply NI. f_equal. apply (ukeys_inj ns m t K Hm Ht). unfold key. congruence.
  - intros g k N1 N2. destruct (at_ g k ns) as [n0|] eqn:A.
    + apply at_In in A as (H0 & G0 & K0).
      assert (n0 <> c) as X1 by (intro; subst n0; apply N1; congruence).
      assert (n0 <> t) as X2 by (intro; subst n0; apply N2; congruence).
      apply at_uniq; auto. apply MEM. split.
      * intro E. apply X2. apply (uniq_inj ns n0 t U H0 Ht E).
      * exists n0. split; auto. symmetry. apply RO; auto.
    + apply at_none. intros n Hn Gn Nn. apply MEM in Hn as [NI (m & Hm & E)]. subst n.
      assert (m <> c) as MC by (intro; subst m; rewrite RC in Gn, Nn; apply N1; congruence).
      rewrite (RO m Hm MC) in Gn, Nn. eapply at_none_inv; eauto.
Qed.

(* the whole loop *)
Lemma fold_spec nx cbm tmp adm : cbm <> tmp -> forall todo ns ns',
  J nx ns -> NoDup todo ->
  fold_left (mo_nodes cbm tmp adm) todo (Some ns) = Some ns' ->
  J nx ns' /\
  (forall k c t, In k todo -> at_ cbm k ns = Some c -> at_ tmp k ns = Some t ->
                 at_ cbm k ns' = Some (mrg adm c t (abs_con (n_si c))) /\ at_ tmp k ns' = None) /\
  (forall k, ~ In k todo -> at_ cbm k ns' = at_ cbm k ns /\ at_ tmp k ns' = at_ tmp k ns) /\
  (forall g k, g <> cbm -> g <> tmp -> at_ g k ns' = at_ g k ns).
Proof.
  intro NE. induction todo as [|x r IH]; intros ns ns' Jn ND H; simpl in H.
  - inversion H; subst. split; [exact Jn|]. split; [|split]; intros; simpl in *; try tauto; auto.
  - destruct (at_ cbm x ns) as [c|] eqn:Hc.
    2:{ exfalso. clear - H. induction r; simpl in H; [discriminate|auto]. }
    destruct (at_ tmp x ns) as [t|] eqn:Ht.
    2:{ exfalso. clear - H. induction r; simpl in H; [discriminate|auto]. }
    destruct (n_si c) as [| |l] eqn:Si.
    1,2: exfalso; clear - H; induction r; simpl in H; [discriminate|auto].
    destruct (step_spec nx cbm tmp adm ns x c t l Jn NE Hc Ht) as (J1 & S1 & S2 & S3).
    inversion ND as [|? ? NI ND']; subst.
    destruct (IH _ _ J1 ND' H) as (J' & I1 & I2 & I3).
    split; auto. split; [|split].
    + intros k c0 t0 [E|Hk] Hc0 Ht0.
      * subst k. rewrite Hc in Hc0. rewrite Ht in Ht0. inversion Hc0; inversion Ht0; subst.
        destruct (I2 x NI) as [A1 A2]. rewrite A1, A2, S1, S2, Si. auto.
      * assert (k <> x) as KX by (intro; subst; contradiction).
        apply (I1 k c0 t0 Hk).
        -- rewrite S3; auto; intro E; inversion E; congruence.
        -- rewrite S3; auto; intro E; inversion E; congruence.
    + intros k NK. simpl in NK. destruct (I2 k) as [A1 A2]; [tauto|].
      rewrite A1, A2. split; apply S3; intro E; inversion E; subst; tauto.
    + intros g k G1 G2. rewrite I3; auto. apply S3; intro E; inversion E; congruence.
Qed.

(* C14 - refinement, connections: unmerge_adm, snapshot and rollback on the store model. *)
From Coq Require Import List NArith Bool Lia.
From FIM Require Import Model.Cbm14Store Model.Cbm14Spec Model.Cbm14Abs Proofs.Cbm14Assoc Proofs.Cbm14Merge
     Proofs.Cbm14Unmerge Proofs.Cbm14Inv Proofs.Cbm14Frame Proofs.Cbm14RefBase Proofs.Cbm14RefPrep Proofs.Cbm14RefFold
     Proofs.Cbm14RefMerge Proofs.Cbm14RefUnmerge Proofs.Cbm14RefSnap Proofs.Cbm14RefEdge Proofs.Cbm14RefEdgePrep
     Proofs.Cbm14RefEdgeLoop Proofs.Cbm14RefEdgeMerge.
Import ListNotations.
Open Scope N_scope.

Lemma fold_delete_edges ds : forall s,
  s_edges (fold_left (fun s i => delete_node i s) ds s) =
  filter (fun e => negb (memN (e_a e) ds) && negb (memN (e_b e) ds)) (s_edges s).
Proof.
  induction ds as [|i r IH]; intro s; simpl.
  - induction (s_edges s) as [|e l IHl]; simpl; auto. f_equal. exact IHl.
  - rewrite IH. simpl. induction (s_edges s) as [|e l IHl]; simpl; auto.
    rewrite (N.eqb_sym (e_a e) i), (N.eqb_sym (e_b e) i).
    destruct (i =? e_a e), (i =? e_b e); simpl; auto;
      destruct (memN (e_a e) r), (memN (e_b e) r); simpl; auto; f_equal; exact IHl.
Qed.

Lemma edat_filter_ds ds es i j :
  ~ In i ds -> ~ In j ds ->
  edat (filter (fun e => negb (memN (e_a e) ds) && negb (memN (e_b e) ds)) es) i j = edat es i j.
Proof.
  intros NI NJ. apply edat_filter_keep. intros e _ Jn.
  unfold joins in Jn. apply orb_true_iff in Jn. rewrite !andb_true_iff, !N.eqb_eq in Jn.
  apply memN_false in NI, NJ. destruct Jn as [[-> ->]|[-> ->]]; rewrite NI, NJ; reflexivity.
Qed.

Lemma ebelow_filter nx p es : ebelow nx es -> ebelow nx (filter p es).
Proof. intros B e He. apply filter_In in He as [He _]. apply (B e He). Qed.

(* unmerge_adm in detail: which node is found under each NodeID afterwards, which connections remain *)
Lemma unmerge_run cbm g st :
  J (s_next st) (s_nodes st) -> cbm_ok cbm (s_nodes st) -> gexists cbm st = true ->
  exists st' ds, unmerge_adm cbm g st = OOk st' /\
    s_edges st' = filter (fun e => negb (memN (e_a e) ds) && negb (memN (e_b e) ds)) (s_edges st) /\
    s_next st' = s_next st /\
    (forall k n', at_ cbm k (s_nodes st') = Some n' ->
                  exists n, at_ cbm k (s_nodes st) = Some n /\ n_int n' = n_int n /\ ~ In (n_int n) ds) /\
    (forall n, In n (s_nodes st) -> n_gid n <> cbm -> ~ In (n_int n) ds).
Proof.
  intros (U & B & K) W GE. unfold unmerge_adm. rewrite GE. cbn [negb].
  destruct (unm_nodes_total cbm g (s_nodes st) W) as (ns' & ds & UN). rewrite UN.
  destruct (unm_nodes_spec cbm g _ _ _ UN) as (F & D).
  eexists.
  destruct (fold_delete_nodes ds (mkStore ns' (s_edges st) (s_next st))) as [EN EX]. simpl in EN, EX.
  set (fin := filter (fun n => negb (memN (n_int n) ds)) ns') in *.
  (* every node keeps its internal id and key *)
  assert (forall n n', unm_rel cbm g ds n n' -> In n (s_nodes st) -> n_int n' = n_int n /\ key n' = key n) as PK.
  { intros n n' R Hn. unfold unm_rel in R. destruct (n_gid n =? cbm) eqn:T; [|subst; auto].
    apply N.eqb_eq in T. destruct R as (del & R & _). destruct (W n Hn T) as [W1 W2].
    destruct (unm_node_abs g n W1 W2) as (m & del' & E & _ & Kk & Ki & _). rewrite R in E. inversion E; subst. auto. }
  assert (map n_int ns' = map n_int (s_nodes st) /\ map key ns' = map key (s_nodes st)) as [MI MK].
  { clear - F PK. induction F as [|a b l l' R F IH]; simpl; auto.
    destruct (PK a b R (or_introl eq_refl)) as [-> ->].
    destruct IH as [-> ->]; auto. intros n n' R' Hn. apply PK; simpl; auto. }
  assert (J (s_next st) fin) as Jf.
  { unfold fin. split; [|split].
    - unfold uniq. apply NoDup_map_filter. rewrite MI. exact U.
    - intros n Hn. apply filter_In in Hn as [Hn _].
      assert (In (n_int n) (map n_int (s_nodes st))) as X by (rewrite <- MI; apply in_map; auto).
      apply in_map_iff in X as (m & E & Hm). rewrite <- E. auto.
    - unfold ukeys. apply NoDup_map_filter. rewrite MK. exact K. }
  (* which internal ids are scheduled for deletion *)
  assert (forall n n' del, In n (s_nodes st) -> n_gid n = cbm -> unm_node g n = inl (Some (n', del)) ->
                           (In (n_int n) ds <-> del = true)) as DEL.
  { intros n n' del Hn Gn Un. split.
    - intro Hi. destruct (D _ Hi) as (m & m' & Hm & Gm & Im & Um).
      assert (m = n) by (apply (uniq_inj (s_nodes st)); auto). subst m. rewrite Un in Um. inversion Um. reflexivity.
    - intro; subst del. destruct (Forall2_in_l _ _ _ _ F Hn) as (y & _ & R). unfold unm_rel in R.
      assert (n_gid n =? cbm = true) as T by (apply N.eqb_eq; auto). rewrite T in R.
      destruct R as (del & R1 & R2). rewrite Un in R1. inversion R1; subst. auto. }
  (* the node found under (cbm, k) afterwards *)
  assert (forall k, at_ cbm k fin =
                    match at_ cbm k (s_nodes st) with
                    | Some n => match unm_node g n with
                                | inl (Some (n', false)) => Some n'
                                | _ => None end
                    | None => None end) as AT.
  { intro k. destruct Jf as (Uf & Bf & Kf).
    destruct (at_ cbm k (s_nodes st)) as [n|] eqn:A.
    - apply at_In in A as (Hn & Gn & Nn). destruct (W n Hn Gn) as [W1 W2].
      destruct (unm_node_abs g n W1 W2) as (n' & del & Un & _ & Kk & Ki & _). rewrite Un.
      destruct (Forall2_in_l _ _ _ _ F Hn) as (y & Hy & R). unfold unm_rel in R.
      assert (n_gid n =? cbm = true) as T by (apply N.eqb_eq; auto). rewrite T in R.
      destruct R as (del0 & R1 & _). rewrite Un in R1. inversion R1; subst y del0; clear R1.
      destruct del.
      + apply at_none. intros m Hm Gm Nm. unfold fin in Hm. apply filter_In in Hm as [Hm ND].
        apply negb_true_iff in ND. apply memN_false in ND.
        destruct (Forall2_in_r _ _ _ _ F Hm) as (n0 & Hn0 & R0).
        destruct (PK n0 m R0 Hn0) as [I0 K0].
        assert (n0 = n) by (apply (ukeys_inj (s_nodes st)); auto; rewrite <- K0; unfold key; congruence). subst n0.
        apply ND. rewrite I0. apply (DEL n n' true Hn Gn Un). reflexivity.
      + apply at_uniq; auto.
        * unfold fin. apply filter_In. split; auto. apply negb_true_iff. apply memN_false.
          rewrite Ki. intro X. apply (DEL n n' false Hn Gn Un) in X. discriminate.
        * unfold key in Kk. inversion Kk. congruence.
        * unfold key in Kk. inversion Kk. congruence.
    - apply at_none. intros m Hm Gm Nm. unfold fin in Hm. apply filter_In in Hm as [Hm _].
      destruct (Forall2_in_r _ _ _ _ F Hm) as (n0 & Hn0 & R0). destruct (PK n0 m R0 Hn0) as [_ K0].
      unfold key in K0. inversion K0. eapply (at_none_inv cbm k (s_nodes st) n0 A Hn0); congruence. }
  exists ds. split; [reflexivity|].
  split; [apply (fold_delete_edges ds (mkStore ns' (s_edges st) (s_next st)))|]. split; [exact EX|]. split.
  - intros k n' A'. rewrite EN, AT in A'.
    destruct (at_ cbm k (s_nodes st)) as [n|] eqn:A; [|discriminate].
    pose proof A as A0. apply at_In in A as (Hn & Gn & Nn). destruct (W n Hn Gn) as [W1 W2].
    destruct (unm_node_abs g n W1 W2) as (m & del & Un & _ & Kk & Ki & _). rewrite Un in A'.
    destruct del; [discriminate|]. inversion A'; subst m. exists n. split; auto. split; auto.
    intro X. apply (DEL n n' false Hn Gn Un) in X. discriminate.
  - intros n Hn Gn X. destruct (D _ X) as (m & m' & Hm & Gm & Im & _).
    assert (m = n) by (apply (uniq_inj (s_nodes st)); auto). subst m. contradiction.
Qed.

Lemma hasn_is_some {V} k (l : list (N * V)) : hasn k l = is_some (getn k l).
Proof. unfold hasn, has, getn. destruct (get N.eqb k l); reflexivity. Qed.

Lemma sunmerge_get_edge' C g e :
  gete e (edges (sunmerge C g)) =
  if hasn (fst e) (nodes (sunmerge C g)) && hasn (snd e) (nodes (sunmerge C g)) then gete e (edges C) else None.
Proof.
  unfold sunmerge at 1. cbn [edges]. unfold gete.
  apply (get_filter_key ekey_eqb ekey_eqb_eq
           (fun k => hasn (fst k) (nodes (sunmerge C g)) && hasn (snd k) (nodes (sunmerge C g)))).
Qed.

Theorem unmerge_refines_edges cbm g st :
  J (s_next st) (s_nodes st) -> ebelow (s_next st) (s_edges st) -> cbm_ok cbm (s_nodes st) -> gexists cbm st = true ->
  exists st', unmerge_adm cbm g st = OOk st' /\
    (forall e, gete e (abs_edges cbm st') = gete e (edges (sunmerge (abs_cbm cbm st) g))) /\
    (forall h e, h <> cbm -> gete e (abs_edges h st') = gete e (abs_edges h st)) /\
    ebelow (s_next st') (s_edges st').
Proof.
  intros Jst EB W GE. pose proof Jst as (U & B & K).
  destruct (unmerge_refines_nodes cbm g st Jst W GE) as (st1 & E1 & UG & J' & _ & OT).
  destruct (unmerge_run cbm g st Jst W GE) as (st' & ds & E & EE & EX & AT & OD).
  rewrite E in E1. inversion E1; subst st1; clear E1. exists st'. split; auto.
  pose proof J' as (U' & _ & K').
  split; [|split].
  - intros [x y]. rewrite sunmerge_get_edge'. cbn [fst snd]. rewrite !hasn_is_some, <- !UG, !getn_abs.
    change (edges (abs_cbm cbm st)) with (abs_edges cbm st).
    destruct (N.ltb_spec y x) as [L|L].
    + rewrite !abs_edges_unordered; auto. destruct (_ && _); reflexivity.
    + rewrite (ordered_minmax x y L), (abs_edges_get cbm st' x y U' K'), (abs_edges_get cbm st x y U K).
      destruct (at_ cbm x (s_nodes st')) as [nx'|] eqn:Ax; simpl; auto.
      destruct (at_ cbm y (s_nodes st')) as [ny'|] eqn:Ay; simpl; auto.
      destruct (AT x nx' Ax) as (nx0 & -> & Ix & Dx). destruct (AT y ny' Ay) as (ny0 & -> & Iy & Dy).
      rewrite EE, Ix, Iy. apply edat_filter_ds; auto.
  - intros h [x y] NH.
    destruct (N.ltb_spec y x) as [L|L]; [rewrite !abs_edges_unordered; auto|].
    rewrite (ordered_minmax x y L), (abs_edges_get h st' x y U' K'), (abs_edges_get h st x y U K), !OT; auto.
    destruct (at_ h x (s_nodes st)) as [nx0|] eqn:Ax; auto. destruct (at_ h y (s_nodes st)) as [ny0|] eqn:Ay; auto.
    apply at_In in Ax as (Hx & Gx & _). apply at_In in Ay as (Hy & Gy & _).
    rewrite EE. apply edat_filter_ds; apply OD; auto; congruence.
  - rewrite EE, EX. apply ebelow_filter. exact EB.
Qed.

(* ---------- snapshot ---------- *)
Definition copy2 (new : N) (m : list (N * N)) (a t : node) : Prop :=
  copy_of new a t /\ lookup m (n_int a) = Some (n_int t).

Lemma clone_full g new st :
  J (s_next st) (s_nodes st) -> ebelow (s_next st) (s_edges st) -> gexists new st = false ->
  exists cn m, s_nodes (clone g new st) = s_nodes st ++ cn /\
               s_edges (clone g new st) = s_edges st ++ clone_edges m (s_edges st) /\
               Forall2 (copy2 new m) (of_gid g st) cn /\ renaming (s_next st) m /\
               J (s_next (clone g new st)) (s_nodes st ++ cn) /\
               ebelow (s_next (clone g new st)) (s_edges (clone g new st)).
Proof.
  intros Jst EB FR. pose proof Jst as (U & B & K).
  destruct (clone_spec g new st Jst FR) as (cn & E & CP & J2).
  unfold clone in *. destruct (clone_nodes new (s_next st) (of_gid g st)) as [cn0 m] eqn:EC.
  assert (NoDup (map n_int (of_gid g st))) as NDI by (unfold of_gid; apply NoDup_map_filter; exact U).
  destruct (clone_nodes_renaming new _ _ _ _ NDI EC) as (FL & RN & DM).
  destruct (clone_nodes_spec _ _ _ _ _ EC) as (S1 & S2 & S3).
  simpl in E, J2 |- *. apply app_inv_head in E. subst cn0.
  exists cn, m. split; auto. split; auto. split; [apply Forall2_and; auto|]. split; auto. split; auto.
  apply clone_edges_ebelow; auto. intros i v L. apply S3 in L. apply L.
Qed.

Lemma find_copy2 new m k l cn :
  Forall2 (copy2 new m) l cn ->
  match find (fun n => n_nid n =? k) l with
  | Some a => exists t, find (fun n => n_nid n =? k) cn = Some t /\ copy2 new m a t
  | None => find (fun n => n_nid n =? k) cn = None
  end.
Proof.
  induction 1 as [|a t l tn R F IH]; simpl; auto.
  assert (n_nid t = n_nid a) as E by apply R. rewrite E.
  destruct (n_nid a =? k); eauto.
Qed.

Theorem snapshot_refines_edges cbm new st :
  J (s_next st) (s_nodes st) -> ebelow (s_next st) (s_edges st) -> gexists cbm st = true -> gexists new st = false ->
  exists st', snapshot cbm new st = OOk st' /\
    (forall e, gete e (abs_edges new st') = gete e (abs_edges cbm st)) /\
    (forall h e, h <> new -> gete e (abs_edges h st') = gete e (abs_edges h st)) /\
    ebelow (s_next st') (s_edges st').
Proof.
  intros Jst EB GE FR. pose proof Jst as (U & B & K).
  destruct (snapshot_refines_nodes cbm new st Jst GE FR) as (st' & E & _ & OT & J' & _).
  exists st'. split; auto.
  assert (st' = clone cbm new st) as ST by (unfold snapshot in E; rewrite GE in E; cbn [negb] in E; inversion E; reflexivity).
  destruct (clone_full cbm new st Jst EB FR) as (cn & m & EN & EE & CP & RN & _ & EB').
  rewrite <- ST in EN, EE, EB'. pose proof J' as (U' & _ & K').
  pose proof (notmp_of_fresh new st FR) as NT.
  assert (forall n, In n cn -> n_gid n = new) as CN.
  { intros n Hn. destruct (Forall2_in_r _ _ _ _ CP Hn) as (a & _ & (R & _)). apply R. }
  assert (forall k, match at_ cbm k (s_nodes st) with
                    | Some c => exists t, at_ new k (s_nodes st') = Some t /\ lookup m (n_int c) = Some (n_int t)
                    | None => at_ new k (s_nodes st') = None end) as AN.
  { intro k. rewrite EN, at_app, (at_other_gid new k (s_nodes st) NT), (at_all_gid new k cn CN), at_gnodes.
    pose proof (find_copy2 new m k _ _ CP) as FC. unfold of_gid in FC. fold (gnodes cbm (s_nodes st)) in FC.
    destruct (find (fun n => n_nid n =? k) (gnodes cbm (s_nodes st))) as [a|]; auto.
    destruct FC as (t & -> & (_ & L)). eauto. }
  split; [|split; [|exact EB']].
  - intros [x y]. destruct (N.ltb_spec y x) as [L|L]; [rewrite !abs_edges_unordered; auto|].
    rewrite (ordered_minmax x y L), (abs_edges_get new st' x y U' K'), (abs_edges_get cbm st x y U K).
    pose proof (AN x) as Ax. pose proof (AN y) as Ay.
    destruct (at_ cbm x (s_nodes st)) as [cx|]; [destruct Ax as (tx & -> & Lx)|rewrite Ax; reflexivity].
    destruct (at_ cbm y (s_nodes st)) as [cy|]; [destruct Ay as (ty & -> & Ly)|rewrite Ay; reflexivity].
    rewrite EE, edat_app.
    assert (s_next st <= n_int tx) as GEx by (apply RN in Lx; exact Lx).
    rewrite (edat_below _ _ (n_int tx) (n_int ty) EB GEx).
    apply (clone_edges_edat (s_next st) m (s_edges st) _ _ _ _ RN Lx Ly).
  - intros h [x y] NH. destruct (N.ltb_spec y x) as [L|L]; [rewrite !abs_edges_unordered; auto|].
    rewrite (ordered_minmax x y L), (abs_edges_get h st' x y U' K'), (abs_edges_get h st x y U K), !OT; auto.
    destruct (at_ h x (s_nodes st)) as [nx0|] eqn:Ax; auto. destruct (at_ h y (s_nodes st)) as [ny0|] eqn:Ay; auto.
    rewrite EE, edat_app. destruct (edat (s_edges st) (n_int nx0) (n_int ny0)); auto.
    apply (clone_edges_old (s_next st)); auto. apply at_In in Ax as (Hx & _). apply B. exact Hx.
Qed.

(* ---------- rollback ---------- *)
Lemma delete_graph_edges g st :
  s_edges (delete_graph g st) =
  filter (fun e => negb (memN (e_a e) (map n_int (of_gid g st))) && negb (memN (e_b e) (map n_int (of_gid g st)))) (s_edges st).
Proof.
  unfold delete_graph.
  assert (fold_left (fun s n => delete_node (n_int n) s) (of_gid g st) st =
          fold_left (fun s i => delete_node i s) (map n_int (of_gid g st)) st) as ->.
  { generalize st at 2 4. induction (of_gid g st) as [|n r IH]; simpl; auto. }
  apply fold_delete_edges.
Qed.

Theorem rollback_refines_edges cbm sid st :
  J (s_next st) (s_nodes st) -> ebelow (s_next st) (s_edges st) -> sid <> cbm -> gexists sid st = true ->
  exists st', rollback cbm sid st = OOk st' /\
    (forall e, gete e (abs_edges cbm st') = gete e (abs_edges sid st)) /\
    (forall h e, h <> cbm -> h <> sid -> gete e (abs_edges h st') = gete e (abs_edges h st)) /\
    ebelow (s_next st') (s_edges st').
Proof.
  intros Jst EB NE GE. pose proof Jst as (U & B & K).
  destruct (rollback_refines_nodes cbm sid st Jst NE GE) as (st' & E & _ & OT & _ & J' & _).
  exists st'. split; auto. pose proof J' as (U' & _ & K').
  (* the store after rollback, explicitly *)
  destruct (delete_graph_nodes cbm st U) as [EN EX].
  set (D := filter (fun n => negb (n_gid n =? cbm)) (s_nodes st)) in *.
  assert (gexists sid (delete_graph cbm st) = true) as GE'.
  { destruct (gexists_at sid st GE) as (k & n & A). apply (at_gexists sid k _ n). rewrite EN. unfold D.
    rewrite at_filter_gid. apply N.eqb_neq in NE. rewrite NE. exact A. }
  assert (st' = map_gid sid (set_gid cbm) (delete_graph cbm st)) as ST.
  { unfold rollback in E. rewrite (rollback_gen_live _ cbm sid st GE GE') in E. unfold rehome in E. rewrite GE' in E.
    inversion E; reflexivity. }
  assert (s_nodes st' = map (rh cbm sid) D) as ES by (rewrite ST; unfold map_gid; simpl; rewrite EN; reflexivity).
  assert (s_edges st' = s_edges (delete_graph cbm st)) as EE by (rewrite ST; reflexivity).
  assert (s_next st' = s_next st) as EX' by (rewrite ST; simpl; exact EX).
  rewrite delete_graph_edges in EE. set (ds := map n_int (of_gid cbm st)) in *.
  assert (forall n, In n (s_nodes st) -> n_gid n <> cbm -> ~ In (n_int n) ds) as OD.
  { intros n Hn Gn X. unfold ds in X. apply in_map_iff in X as (m & Em & Hm). unfold of_gid in Hm.
    apply filter_In in Hm as [Hm Gm]. apply N.eqb_eq in Gm.
    assert (m = n) by (apply (uniq_inj (s_nodes st)); auto). subst. contradiction. }
  assert (cbm <> sid) as NE' by auto.
  assert (forall k, at_ cbm k (s_nodes st') = option_map (set_gid cbm) (at_ sid k (s_nodes st))) as AC.
  { intro k. rewrite ES, (rh_at_cbm_new cbm sid k D NE').
    - unfold D. rewrite at_filter_gid. apply N.eqb_neq in NE. rewrite NE. reflexivity.
    - unfold D. rewrite at_filter_gid, N.eqb_refl. reflexivity. }
  split; [|split].
  - intros [x y]. destruct (N.ltb_spec y x) as [L|L]; [rewrite !abs_edges_unordered; auto|].
    rewrite (ordered_minmax x y L), (abs_edges_get cbm st' x y U' K'), (abs_edges_get sid st x y U K), !AC.
    destruct (at_ sid x (s_nodes st)) as [nx0|] eqn:Ax; simpl; auto.
    destruct (at_ sid y (s_nodes st)) as [ny0|] eqn:Ay; simpl; auto.
    apply at_In in Ax as (Hx & Gx & _). apply at_In in Ay as (Hy & Gy & _).
    rewrite EE. apply edat_filter_ds; apply OD; auto; congruence.
  - intros h [x y] H1 H2. destruct (N.ltb_spec y x) as [L|L]; [rewrite !abs_edges_unordered; auto|].
    rewrite (ordered_minmax x y L), (abs_edges_get h st' x y U' K'), (abs_edges_get h st x y U K), !OT; auto.
    destruct (at_ h x (s_nodes st)) as [nx0|] eqn:Ax; auto. destruct (at_ h y (s_nodes st)) as [ny0|] eqn:Ay; auto.
    apply at_In in Ax as (Hx & Gx & _). apply at_In in Ay as (Hy & Gy & _).
    rewrite EE. apply edat_filter_ds; apply OD; auto; congruence.
  - rewrite EE, EX'. apply ebelow_filter. exact EB.
Qed.

(* C07 - service port + link as a unit: connect_interface (one new port, linked to an existing interface) and peer
   (two new ports linked to each other), built from the relaxed unit lemmas and discharged at the end. *)
From Coq Require Import String List NArith ZArith Bool Arith Lia.
From FIM Require Import Base.Str Gen.Rules Model.T7Graph Model.T7Ops Model.T7WF Model.T7Steps Model.T7Rel
     Proofs.T7Tables Proofs.T7WFRefl Proofs.T7Frame Proofs.T7Units Proofs.T7Api Proofs.T7Api2 Proofs.T7RelUnits Proofs.T7RelRun Proofs.T7RelCp.
Import ListNotations.

Lemma name_free_add_other g n k name : cls_eqb (ncls n) k = false -> name_free (g_add_node g n) k name = name_free g k name.
Proof. intro H. unfold name_free, g_add_node. simpl. rewrite forallb_app. simpl. rewrite H. simpl. rewrite andb_true_r. reflexivity. Qed.
Lemma name_free_add_edge g a r b k name : name_free (g_add_edge g a r b) k name = name_free g k name.
Proof. reflexivity. Qed.

Lemma no_edge_add_node g n a b : no_edge (g_add_node g n) a b = no_edge g a b.
Proof. reflexivity. Qed.

Lemma nbrs_add_edge_other g a r b y : no_edge g a b = true -> y <> a -> y <> b -> nbrs (g_add_edge g a r b) y = nbrs g y.
Proof.
  intros NE Ha Hb. rewrite (nbrs_add_edge _ _ _ _ _ NE). unfold nb_of. simpl.
  assert (E1 : str_eqb a y = false) by (apply str_eqb_neq; congruence).
  assert (E2 : str_eqb b y = false) by (apply str_eqb_neq; congruence).
  rewrite E1, E2. apply app_nil_r.
Qed.

Lemma is_sp_dec n : {is_type n sServicePort = true} + {is_type n sServicePort = false}.
Proof. destruct (is_type n sServicePort); auto. Qed.

Lemma no_edge_fresh g a b : (forall e, In e (gedges g) -> edge_ends_P g e) -> has_id g b = false -> no_edge g a b = true.
Proof.
  intros HE Hb. unfold no_edge. apply negb_true_iff. destruct (existsb _ _) eqn:E; [|reflexivity].
  apply existsb_exists in E as [e [He Hs]]. exfalso.
  assert (In (a, erel e) (nbrs g b)).
  { apply In_nbrs. exists e. split; [exact He|]. split; [reflexivity|]. unfold same_ends in Hs.
    apply orb_true_iff in Hs as [Hs|Hs]; apply andb_true_iff in Hs as [A B]; apply str_eqb_eq in A; apply str_eqb_eq in B; auto. }
  rewrite (nbrs_fresh_nil _ _ HE Hb) in H. destruct H.
Qed.

Lemma ao_nbrs_any ep g n a r y :
  WFr no_exempt ep g -> owned_okR g n a r = true ->
  nbrs (add_owned g n a r) y = nbrs g y ++ nb_of y {| ea := a; eb := nid n; erel := r |}.
Proof.
  intros W OK. unfold add_owned. rewrite nbrs_add_edge; [rewrite nbrs_add_node; reflexivity|].
  rewrite no_edge_add_node. apply no_edge_fresh; [apply (r_edge_ends _ _ _ W) | apply (aw_freshR _ _ _ _ OK)].
Qed.

Lemma name_of_newR g n a r : owned_okR g n a r = true -> name_of (add_owned g n a r) (nid n) = nname n.
Proof. intro OK. unfold name_of. rewrite (ao_find_newR g n a r OK). reflexivity. Qed.

Section Peering.
Variables (g : graph) (s i : str) (sp l : node).
Hypothesis W : WF g.
Hypothesis OK : peering_ok g s i sp l = true.
Local Notation ps := (nid sp).
Local Notation lk := (nid l).
Let ep := fun z => str_eqb z ps.
Let g1 := add_owned g sp s Connects.
Let g2 := g_add_node g1 l.
Let g3 := add_link_edge g2 lk i.
Let g4 := add_link_edge g3 lk ps.

Lemma pk_parts :
  has_id g ps = false /\ has_id g lk = false /\ ps <> lk /\ new_node_ok sp = true /\ new_node_ok l = true /\
  ncls sp = KCP /\ is_type sp sServicePort = true /\ ncls l = KLink /\ cls_is g s KNS = true /\ cls_is g i KCP = true /\
  typ_is g i sServicePort = false /\ sibling_free g s Connects KCP (nname sp) = true /\ name_free g KLink (nname l) = true.
Proof.
  unfold peering_ok, fresh in OK. repeat (apply andb_true_iff in OK as [OK ?]).
  apply negb_true_iff in OK. apply negb_true_iff in H10. apply negb_true_iff in H9. apply str_eqb_neq in H9.
  apply cls_eqb_eq in H6. apply cls_eqb_eq in H4. apply negb_true_iff in H1.
  repeat split; assumption.
Qed.

Lemma pk_W0 : WFr no_exempt ep g.
Proof. apply WF_WFr in W. eapply WFr_mono; [| |exact W]; intros x H; [exact H | discriminate H]. Qed.

Lemma pk_ok1 : owned_okR g sp s Connects = true.
Proof.
  destruct pk_parts as [F1 [_ [_ [N1 [_ [C1 [T1 [_ [Cs [_ [_ [SF _]]]]]]]]]]]].
  unfold owned_okR, fresh, owner_shape_okR. rewrite F1, N1, C1. simpl.
  assert (X : is_type sp sSubInterface = false) by (apply (is_type_excl _ _ _ T1); reflexivity).
  rewrite X, Cs. simpl. exact SF.
Qed.

Lemma pk_W1 : WFr no_exempt ep g1.
Proof. apply WFr_add_owned; [exact pk_W0 | exact pk_ok1 | intros _ _; unfold ep; apply str_eqb_refl]. Qed.

Lemma pk_i_ne_ps : i <> ps.
Proof. destruct pk_parts as [F1 [_ [_ [_ [_ [_ [_ [_ [_ [Ci _]]]]]]]]]]. intro E. rewrite <- E in F1. rewrite (cls_is_has_id _ _ _ Ci) in F1. discriminate. Qed.
Lemma pk_s_ne_ps : s <> ps.
Proof. destruct pk_parts as [F1 [_ [_ [_ [_ [_ [_ [_ [Cs _]]]]]]]]]. intro E. rewrite <- E in F1. rewrite (cls_is_has_id _ _ _ Cs) in F1. discriminate. Qed.

Lemma pk_fresh_l1 : has_id g1 lk = false.
Proof.
  destruct pk_parts as [_ [F2 [Ne _]]]. unfold g1, add_owned. rewrite has_id_add_edge, has_id_add_node, F2. simpl.
  apply str_eqb_neq. exact Ne.
Qed.

Lemma pk_ok2 : plain_ok g1 l = true.
Proof.
  destruct pk_parts as [_ [_ [_ [_ [N2 [C1 [_ [C2 [_ [_ [_ [_ NF]]]]]]]]]]]].
  unfold plain_ok, fresh. rewrite pk_fresh_l1, N2, C2. simpl.
  unfold g1, add_owned. rewrite name_free_add_edge, name_free_add_other; [exact NF | rewrite C1; reflexivity].
Qed.
Lemma pk_W2 : WFr no_exempt ep g2.
Proof. apply WFr_add_plain; [exact pk_W1 | exact pk_ok2]. Qed.

(* lookups in the intermediate graphs *)
Lemma pk_cls2_old y k : y <> ps -> y <> lk -> cls_is g2 y k = cls_is g y k.
Proof.
  intros H1 H2. unfold g2. rewrite (cls_is_ext g1 (g_add_node g1 l) y k) by (apply find_nodes_add_node_other; exact H2).
  unfold g1. apply ao_cls_old. exact H1.
Qed.
Lemma pk_typ2_old y t : y <> ps -> y <> lk -> typ_is g2 y t = typ_is g y t.
Proof.
  intros H1 H2. unfold g2. rewrite (typ_is_ext g1 (g_add_node g1 l) y t) by (apply find_nodes_add_node_other; exact H2).
  unfold g1. apply ao_typ_old. exact H1.
Qed.
Lemma pk_cls2_l k : cls_is g2 lk k = cls_eqb (ncls l) k.
Proof. unfold g2, cls_is, cls_of. rewrite (find_nodes_add_node_same _ _ pk_fresh_l1). reflexivity. Qed.
Lemma pk_cls2_ps k : cls_is g2 ps k = cls_eqb (ncls sp) k.
Proof.
  destruct pk_parts as [_ [_ [Ne _]]]. unfold g2. rewrite (cls_is_ext g1 (g_add_node g1 l) ps k) by (apply find_nodes_add_node_other; exact Ne).
  unfold g1. apply (ao_cls_newR _ _ _ _ pk_ok1).
Qed.
Lemma pk_typ2_ps t : typ_is g2 ps t = is_type sp t.
Proof.
  destruct pk_parts as [_ [_ [Ne _]]]. unfold g2. rewrite (typ_is_ext g1 (g_add_node g1 l) ps t) by (apply find_nodes_add_node_other; exact Ne).
  unfold g1. apply (ao_typ_new _ _ _ _ pk_ok1).
Qed.
Lemma pk_nbrs2_l : nbrs g2 lk = [].
Proof. unfold g2. rewrite nbrs_add_node. apply nbrs_fresh_nil; [apply (r_edge_ends _ _ _ pk_W1) | exact pk_fresh_l1]. Qed.
Lemma pk_i_ne_lk : i <> lk.
Proof. destruct pk_parts as [_ [F2 [_ [_ [_ [_ [_ [_ [_ [Ci _]]]]]]]]]]. intro E. rewrite <- E in F2. rewrite (cls_is_has_id _ _ _ Ci) in F2. discriminate. Qed.

Lemma pk_ok3 : link_edge_okR ep g2 lk i = true.
Proof.
  destruct pk_parts as [_ [_ [_ [_ [_ [_ [_ [C2 [_ [Ci [Ti _]]]]]]]]]]].
  unfold link_edge_okR. rewrite pk_cls2_l, C2. simpl.
  rewrite (pk_cls2_old i _ pk_i_ne_ps pk_i_ne_lk), Ci, (pk_typ2_old i _ pk_i_ne_ps pk_i_ne_lk), Ti. simpl.
  assert (NE : no_edge g2 lk i = true).
  { unfold no_edge. apply negb_true_iff. destruct (existsb _ _) eqn:E; [|reflexivity].
    apply existsb_exists in E as [e [He Hs]]. exfalso.
    assert (In (i, erel e) (nbrs g2 lk)).
    { apply In_nbrs. exists e. split; [exact He|]. split; [reflexivity|]. unfold same_ends in Hs.
      apply orb_true_iff in Hs as [Hs|Hs]; apply andb_true_iff in Hs as [A B]; apply str_eqb_eq in A; apply str_eqb_eq in B; auto. }
    rewrite pk_nbrs2_l in H. destruct H. }
  rewrite NE. simpl. unfold first_nb. rewrite pk_nbrs2_l. reflexivity.
Qed.
Lemma pk_W3 : WFr no_exempt ep g3.
Proof. apply WFr_add_link_edge; [exact pk_W2 | exact pk_ok3]. Qed.

Lemma pk_nbrs3_l : nbrs g3 lk = [(i, Connects)].
Proof. unfold g3. rewrite (le_nbrs _ _ _ _ pk_ok3), pk_nbrs2_l, str_eqb_refl. reflexivity. Qed.
Lemma pk_nbrs3_ps : nbrs g3 ps = [(s, Connects)].
Proof.
  destruct pk_parts as [_ [_ [Ne _]]].
  unfold g3. rewrite (le_nbrs _ _ _ _ pk_ok3).
  assert (E1 : str_eqb lk ps = false) by (apply str_eqb_neq; congruence).
  assert (E2 : str_eqb i ps = false) by (apply str_eqb_neq; apply pk_i_ne_ps).
  rewrite E1, E2, app_nil_r. unfold g2. rewrite nbrs_add_node. unfold g1. apply (ao_nbrs_xR _ _ _ _ _ pk_W0 pk_ok1).
Qed.

Lemma pk_ok4 : link_edge_okR ep g3 lk ps = true.
Proof.
  destruct pk_parts as [_ [_ [Ne [_ [_ [C1 [_ [C2 [_ [Ci [Ti _]]]]]]]]]]].
  unfold link_edge_okR. unfold g3 at 1 2 3. rewrite !le_cls, !le_typ.
  rewrite pk_cls2_l, C2, pk_cls2_ps, C1. simpl. unfold ep at 1. rewrite str_eqb_refl, orb_true_r. simpl.
  assert (NE : no_edge g3 lk ps = true).
  { unfold no_edge. apply negb_true_iff. destruct (existsb _ _) eqn:E; [|reflexivity].
    apply existsb_exists in E as [e [He Hs]]. exfalso.
    assert (In (ps, erel e) (nbrs g3 lk)).
    { apply In_nbrs. exists e. split; [exact He|]. split; [reflexivity|]. unfold same_ends in Hs.
      apply orb_true_iff in Hs as [Hs|Hs]; apply andb_true_iff in Hs as [A B]; apply str_eqb_eq in A; apply str_eqb_eq in B; auto. }
    rewrite pk_nbrs3_l in H. destruct H as [H|[]]. inversion H. apply pk_i_ne_ps. assumption. }
  rewrite NE. simpl. apply forallb_forall. intros y Hy. apply In_first_nb in Hy as [Hy _]. rewrite pk_nbrs3_l in Hy.
  destruct Hy as [Hy|[]]. inversion Hy; subst y. unfold g3. rewrite le_typ, (pk_typ2_old i _ pk_i_ne_ps pk_i_ne_lk), Ti. reflexivity.
Qed.
Lemma pk_W4 : WFr no_exempt ep g4.
Proof. apply WFr_add_link_edge; [exact pk_W3 | exact pk_ok4]. Qed.

Lemma pk_peers4 : peers g4 ps = [i].
Proof.
  destruct pk_parts as [_ [F2 [Ne [_ [_ [C1 [_ [C2 [Cs [Ci _]]]]]]]]]].
  assert (Hsl : s <> lk) by (intro E; rewrite <- E in F2; rewrite (cls_is_has_id _ _ _ Cs) in F2; discriminate).
  assert (N4p : nbrs g4 ps = [(s, Connects); (lk, Connects)]).
  { unfold g4. rewrite (le_nbrs _ _ _ _ pk_ok4), pk_nbrs3_ps.
    assert (E1 : str_eqb lk ps = false) by (apply str_eqb_neq; congruence). rewrite E1, str_eqb_refl. reflexivity. }
  assert (N4l : nbrs g4 lk = [(i, Connects); (ps, Connects)]).
  { unfold g4. rewrite (le_nbrs _ _ _ _ pk_ok4), pk_nbrs3_l, str_eqb_refl. reflexivity. }
  assert (C4 : forall y k, cls_is g4 y k = cls_is g2 y k) by (intros; unfold g4, g3; rewrite !le_cls; reflexivity).
  unfold peers, first_nb at 2. rewrite N4p. simpl. rewrite !C4, pk_cls2_l, C2.
  rewrite (pk_cls2_old s _ pk_s_ne_ps), (cls_is_unique _ _ _ KLink Cs) by (try discriminate; exact Hsl).
  simpl. unfold first_nb. rewrite N4l. simpl. rewrite !C4, pk_cls2_ps, C1, (pk_cls2_old i _ pk_i_ne_ps pk_i_ne_lk), Ci. simpl.
  assert (E2 : str_eqb i ps = false) by (apply str_eqb_neq; apply pk_i_ne_ps). rewrite E2, str_eqb_refl. reflexivity.
Qed.

Theorem WF_add_peering_sec : WF g4.
Proof.
  apply WF_WFr. apply (WFr_discharge_ep _ _ _ pk_W4). intros n Hn _ He _ _. unfold ep in He. apply str_eqb_eq in He.
  rewrite He. rewrite pk_peers4. reflexivity.
Qed.

(* frame: what the unit leaves alone *)
Lemma pk_cls4_old y k : y <> ps -> y <> lk -> cls_is g4 y k = cls_is g y k.
Proof. intros H1 H2. unfold g4, g3. rewrite !le_cls. apply pk_cls2_old; assumption. Qed.
Lemma pk_typ4_old y t : y <> ps -> y <> lk -> typ_is g4 y t = typ_is g y t.
Proof. intros H1 H2. unfold g4, g3. rewrite !le_typ. apply pk_typ2_old; assumption. Qed.
Lemma pk_typ4_ps t : typ_is g4 ps t = is_type sp t.
Proof. unfold g4, g3. rewrite !le_typ. apply pk_typ2_ps. Qed.
Lemma pk_nbrs4 y : nbrs g4 y = nbrs g y ++ nb_of y {| ea := s; eb := ps; erel := Connects |}
                              ++ (if str_eqb lk y then [(i, Connects)] else if str_eqb i y then [(lk, Connects)] else [])
                              ++ (if str_eqb lk y then [(ps, Connects)] else if str_eqb ps y then [(lk, Connects)] else []).
Proof.
  unfold g4. rewrite (le_nbrs _ _ _ _ pk_ok4). unfold g3. rewrite (le_nbrs _ _ _ _ pk_ok3). unfold g2. rewrite nbrs_add_node.
  unfold g1. rewrite (ao_nbrs_any _ _ _ _ _ _ pk_W0 pk_ok1). rewrite <- !app_assoc. reflexivity.
Qed.
Lemma pk_nbrs4_other y : y <> s -> y <> ps -> y <> lk -> y <> i -> nbrs g4 y = nbrs g y.
Proof.
  intros H1 H2 H3 H4. rewrite pk_nbrs4. unfold nb_of. simpl.
  assert (E1 : str_eqb s y = false) by (apply str_eqb_neq; congruence).
  assert (E2 : str_eqb ps y = false) by (apply str_eqb_neq; congruence).
  assert (E3 : str_eqb lk y = false) by (apply str_eqb_neq; congruence).
  assert (E4 : str_eqb i y = false) by (apply str_eqb_neq; congruence).
  rewrite E1, E2, E3, E4. rewrite !app_nil_r. reflexivity.
Qed.
Lemma pk_nbrs4_s : nbrs g4 s = nbrs g s ++ [(ps, Connects)].
Proof.
  destruct pk_parts as [_ [F2 [_ [_ [_ [_ [_ [_ [Cs [Ci _]]]]]]]]]].
  rewrite pk_nbrs4. unfold nb_of. simpl. rewrite str_eqb_refl.
  assert (E2 : str_eqb ps s = false) by (apply str_eqb_neq; intro E; apply pk_s_ne_ps; congruence).
  assert (E3 : str_eqb lk s = false).
  { apply str_eqb_neq. intro E. rewrite E in F2. rewrite (cls_is_has_id _ _ _ Cs) in F2. discriminate. }
  assert (E4 : str_eqb i s = false).
  { apply str_eqb_neq. intro E. subst s. rewrite (cls_is_unique _ _ _ KNS Ci) in Cs; discriminate. }
  rewrite E2, E3, E4. rewrite !app_nil_r. reflexivity.
Qed.
End Peering.

Theorem WF_add_peering g s i sp l : WF g -> peering_ok g s i sp l = true -> WF (add_peering g s i sp l).
Proof. intros W OK. exact (WF_add_peering_sec g s i sp l W OK). Qed.

(* ---- peer: two new service ports and their link ------------------------------------------------------------ *)
Section Peering2.
Variables (g : graph) (a b : str) (pa pb l : node).
Hypothesis W : WF g.
Hypothesis OK : peering2_ok g a b pa pb l = true.
Local Notation xa := (nid pa).
Local Notation xb := (nid pb).
Local Notation lk := (nid l).
Let ep := fun z => str_eqb z xa || str_eqb z xb.
Let g1 := add_owned g pa a Connects.
Let g2 := add_owned g1 pb b Connects.
Let g3 := g_add_node g2 l.
Let g4 := add_link_edge g3 lk xa.
Let g5 := add_link_edge g4 lk xb.

Lemma p2_parts :
  has_id g xa = false /\ has_id g xb = false /\ has_id g lk = false /\ xa <> xb /\ xa <> lk /\ xb <> lk /\
  new_node_ok pa = true /\ new_node_ok pb = true /\ new_node_ok l = true /\
  ncls pa = KCP /\ is_type pa sServicePort = true /\ ncls pb = KCP /\ is_type pb sServicePort = true /\
  ncls l = KLink /\ cls_is g a KNS = true /\ cls_is g b KNS = true /\
  sibling_free g a Connects KCP (nname pa) = true /\ sibling_free g b Connects KCP (nname pb) = true /\
  (a = b -> ostr_eqb (nname pa) (nname pb) = false) /\ name_free g KLink (nname l) = true.
Proof.
  unfold peering2_ok, fresh in OK. do 19 (apply andb_true_iff in OK as [OK ?]).
  apply negb_true_iff in OK.
  repeat match goal with H : negb _ = true |- _ => apply negb_true_iff in H end.
  repeat match goal with H : str_eqb _ _ = false |- _ => apply str_eqb_neq in H end.
  repeat match goal with H : cls_eqb _ _ = true |- _ => apply cls_eqb_eq in H end.
  repeat split; try assumption.
  intro E. apply orb_true_iff in H0 as [X|X]; apply negb_true_iff in X; [|exact X].
  apply str_eqb_neq in X. contradiction.
Qed.

Lemma p2_W0 : WFr no_exempt ep g.
Proof. apply WF_WFr in W. eapply WFr_mono; [| |exact W]; intros x H; [exact H | discriminate H]. Qed.

Lemma p2_ok1 : owned_okR g pa a Connects = true.
Proof.
  destruct p2_parts as [F1 [_ [_ [_ [_ [_ [N1 [_ [_ [C1 [T1 [_ [_ [_ [Ca [_ [SF _]]]]]]]]]]]]]]]]].
  unfold owned_okR, fresh, owner_shape_okR. rewrite F1, N1, C1. simpl.
  assert (X : is_type pa sSubInterface = false) by (apply (is_type_excl _ _ _ T1); reflexivity).
  rewrite X, Ca. simpl. exact SF.
Qed.
Lemma p2_W1 : WFr no_exempt ep g1.
Proof. apply WFr_add_owned; [exact p2_W0 | exact p2_ok1 | intros _ _; unfold ep; rewrite str_eqb_refl; reflexivity]. Qed.

Lemma p2_a_ne : a <> xa /\ a <> xb /\ a <> lk /\ b <> xa /\ b <> xb /\ b <> lk.
Proof.
  destruct p2_parts as [F1 [F2 [F3 [_ [_ [_ [_ [_ [_ [_ [_ [_ [_ [_ [Ca [Cb _]]]]]]]]]]]]]]]].
  apply cls_is_has_id in Ca. apply cls_is_has_id in Cb.
  repeat split; intro E; rewrite <- E in *; congruence.
Qed.

Lemma p2_ok2 : owned_okR g1 pb b Connects = true.
Proof.
  destruct p2_parts as [F1 [F2 [_ [Nab [_ [_ [_ [N2 [_ [C1 [_ [C2 [T2 [_ [Ca [Cb [_ [SFb [Hab _]]]]]]]]]]]]]]]]]]].
  destruct p2_a_ne as [A1 [A2 [A3 [B1 [B2 B3]]]]].
  unfold owned_okR, fresh, owner_shape_okR. unfold g1 at 1. rewrite has_id_add_owned, F2.
  assert (E : str_eqb xa xb = false) by (apply str_eqb_neq; exact Nab). rewrite E, N2, C2. simpl.
  assert (X : is_type pb sSubInterface = false) by (apply (is_type_excl _ _ _ T2); reflexivity).
  rewrite X. unfold g1 at 1. rewrite (ao_cls_old g pa a Connects b KNS B1), Cb. simpl.
  unfold sibling_free. apply forallb_forall. intros j Hj. apply In_first_nb in Hj as [Hj Cj].
  unfold g1 in Hj. rewrite (ao_nbrs_any _ _ _ _ _ _ p2_W0 p2_ok1) in Hj. apply in_app_or in Hj as [Hj|Hj].
  - assert (Hne : j <> xa).
    { intro Ej. pose proof (proj1 (nbrs_has_id _ _ _ _ (r_edge_ends _ _ _ p2_W0) Hj)) as Hh. rewrite Ej in Hh. congruence. }
    unfold g1 in Cj. rewrite (ao_cls_old _ _ _ _ _ _ Hne) in Cj. unfold g1. rewrite (ao_name_old _ _ _ _ _ Hne).
    unfold sibling_free in SFb. rewrite forallb_forall in SFb. apply SFb. apply In_first_nb. auto.
  - unfold nb_of in Hj. simpl in Hj. destruct (str_eqb a b) eqn:Eab.
    + destruct Hj as [Hj|[]]. inversion Hj; subst j. unfold g1. rewrite (name_of_newR _ _ _ _ p2_ok1).
      apply str_eqb_eq in Eab. rewrite (Hab Eab). reflexivity.
    + assert (E2 : str_eqb xa b = false) by (apply str_eqb_neq; congruence). rewrite E2 in Hj. destruct Hj.
Qed.
Lemma p2_W2 : WFr no_exempt ep g2.
Proof.
  apply WFr_add_owned; [exact p2_W1 | exact p2_ok2 | intros _ _; unfold ep; rewrite str_eqb_refl; apply orb_true_r].
Qed.

Lemma p2_fresh_l2 : has_id g2 lk = false.
Proof.
  destruct p2_parts as [_ [_ [F3 [_ [Nal [Nbl _]]]]]]. unfold g2, g1. rewrite !has_id_add_owned, F3. simpl.
  apply orb_false_iff. split; apply str_eqb_neq; assumption.
Qed.
Lemma p2_ok3 : plain_ok g2 l = true.
Proof.
  destruct p2_parts as [_ [_ [_ [_ [_ [_ [_ [_ [N3 [C1 [_ [C2 [_ [C3 [_ [_ [_ [_ [_ NF]]]]]]]]]]]]]]]]]]].
  unfold plain_ok, fresh. rewrite p2_fresh_l2, N3, C3. simpl.
  unfold g2, g1, add_owned. rewrite !name_free_add_edge, name_free_add_other, name_free_add_edge, name_free_add_other;
    [exact NF | rewrite C1; reflexivity | rewrite C2; reflexivity].
Qed.
Lemma p2_W3 : WFr no_exempt ep g3.
Proof. apply WFr_add_plain; [exact p2_W2 | exact p2_ok3]. Qed.

Lemma p2_cls3_l k : cls_is g3 lk k = cls_eqb (ncls l) k.
Proof. unfold g3, cls_is, cls_of. rewrite (find_nodes_add_node_same _ _ p2_fresh_l2). reflexivity. Qed.
Lemma p2_cls3_xa k : cls_is g3 xa k = cls_eqb (ncls pa) k.
Proof.
  destruct p2_parts as [_ [_ [_ [Nab [Nal _]]]]].
  unfold g3. rewrite (cls_is_ext g2 (g_add_node g2 l) xa k) by (apply find_nodes_add_node_other; exact Nal).
  unfold g2. rewrite (ao_cls_old _ _ _ _ _ _ Nab). unfold g1. apply (ao_cls_newR _ _ _ _ p2_ok1).
Qed.
Lemma p2_cls3_xb k : cls_is g3 xb k = cls_eqb (ncls pb) k.
Proof.
  destruct p2_parts as [_ [_ [_ [_ [_ [Nbl _]]]]]].
  unfold g3. rewrite (cls_is_ext g2 (g_add_node g2 l) xb k) by (apply find_nodes_add_node_other; exact Nbl).
  unfold g2. apply (ao_cls_newR _ _ _ _ p2_ok2).
Qed.
Lemma p2_cls3_old y k : y <> xa -> y <> xb -> y <> lk -> cls_is g3 y k = cls_is g y k.
Proof.
  intros H1 H2 H3. unfold g3. rewrite (cls_is_ext g2 (g_add_node g2 l) y k) by (apply find_nodes_add_node_other; exact H3).
  unfold g2. rewrite (ao_cls_old _ _ _ _ _ _ H2). unfold g1. apply ao_cls_old. exact H1.
Qed.
Lemma p2_nbrs3_l : nbrs g3 lk = [].
Proof. unfold g3. rewrite nbrs_add_node. apply nbrs_fresh_nil; [apply (r_edge_ends _ _ _ p2_W2) | exact p2_fresh_l2]. Qed.
Lemma p2_nbrs3_xa : nbrs g3 xa = [(a, Connects)].
Proof.
  destruct p2_parts as [_ [_ [_ [Nab _]]]]. destruct p2_a_ne as [_ [_ [_ [B1 _]]]].
  unfold g3. rewrite nbrs_add_node. unfold g2. rewrite (ao_nbrs_any _ _ _ _ _ _ p2_W1 p2_ok2).
  unfold g1. rewrite (ao_nbrs_xR _ _ _ _ _ p2_W0 p2_ok1). unfold nb_of. simpl.
  assert (E1 : str_eqb b xa = false) by (apply str_eqb_neq; exact B1).
  assert (E2 : str_eqb xb xa = false) by (apply str_eqb_neq; congruence). rewrite E1, E2. reflexivity.
Qed.
Lemma p2_nbrs3_xb : nbrs g3 xb = [(b, Connects)].
Proof. unfold g3. rewrite nbrs_add_node. unfold g2. apply (ao_nbrs_xR _ _ _ _ _ p2_W1 p2_ok2). Qed.

Lemma p2_ok4 : link_edge_okR ep g3 lk xa = true.
Proof.
  destruct p2_parts as [_ [_ [_ [_ [_ [_ [_ [_ [_ [C1 [_ [_ [_ [C3 _]]]]]]]]]]]]]].
  unfold link_edge_okR. rewrite p2_cls3_l, C3, p2_cls3_xa, C1. simpl. unfold ep at 1. rewrite str_eqb_refl. simpl. rewrite orb_true_r. simpl.
  assert (NE : no_edge g3 lk xa = true).
  { unfold g3. rewrite no_edge_add_node. unfold no_edge. apply negb_true_iff. destruct (existsb _ _) eqn:E; [|reflexivity].
    apply existsb_exists in E as [e [He Hs]]. exfalso.
    assert (In (xa, erel e) (nbrs g2 lk)).
    { apply In_nbrs. exists e. split; [exact He|]. split; [reflexivity|]. unfold same_ends in Hs.
      apply orb_true_iff in Hs as [Hs|Hs]; apply andb_true_iff in Hs as [A B]; apply str_eqb_eq in A; apply str_eqb_eq in B; auto. }
    rewrite (nbrs_fresh_nil _ _ (r_edge_ends _ _ _ p2_W2) p2_fresh_l2) in H. destruct H. }
  rewrite NE. simpl. unfold first_nb. rewrite p2_nbrs3_l. reflexivity.
Qed.
Lemma p2_W4 : WFr no_exempt ep g4.
Proof. apply WFr_add_link_edge; [exact p2_W3 | exact p2_ok4]. Qed.
Lemma p2_nbrs4_l : nbrs g4 lk = [(xa, Connects)].
Proof. unfold g4. rewrite (le_nbrs _ _ _ _ p2_ok4), p2_nbrs3_l, str_eqb_refl. reflexivity. Qed.

Lemma p2_ok5 : link_edge_okR ep g4 lk xb = true.
Proof.
  destruct p2_parts as [_ [_ [_ [Nab [_ [_ [_ [_ [_ [C1 [_ [C2 [_ [C3 _]]]]]]]]]]]]]].
  unfold link_edge_okR. unfold g4 at 1 2 3. rewrite !le_cls, !le_typ.
  rewrite p2_cls3_l, C3, p2_cls3_xb, C2. simpl. unfold ep at 1. rewrite str_eqb_refl, !orb_true_r. simpl.
  assert (NE : no_edge g4 lk xb = true).
  { unfold no_edge. apply negb_true_iff. destruct (existsb _ _) eqn:E; [|reflexivity].
    apply existsb_exists in E as [e [He Hs]]. exfalso.
    assert (In (xb, erel e) (nbrs g4 lk)).
    { apply In_nbrs. exists e. split; [exact He|]. split; [reflexivity|]. unfold same_ends in Hs.
      apply orb_true_iff in Hs as [Hs|Hs]; apply andb_true_iff in Hs as [A B]; apply str_eqb_eq in A; apply str_eqb_eq in B; auto. }
    rewrite p2_nbrs4_l in H. destruct H as [H|[]]. inversion H. congruence. }
  rewrite NE. simpl. apply forallb_forall. intros y Hy. apply In_first_nb in Hy as [Hy _]. rewrite p2_nbrs4_l in Hy.
  destruct Hy as [Hy|[]]. inversion Hy; subst y. unfold ep. rewrite str_eqb_refl. simpl. apply orb_true_r.
Qed.
Lemma p2_W5 : WFr no_exempt ep g5.
Proof. apply WFr_add_link_edge; [exact p2_W4 | exact p2_ok5]. Qed.

Lemma p2_nbrs5 : nbrs g5 lk = [(xa, Connects); (xb, Connects)] /\ nbrs g5 xa = [(a, Connects); (lk, Connects)] /\
                 nbrs g5 xb = [(b, Connects); (lk, Connects)].
Proof.
  destruct p2_parts as [_ [_ [_ [Nab [Nal [Nbl _]]]]]].
  assert (E1 : str_eqb lk xa = false) by (apply str_eqb_neq; congruence).
  assert (E2 : str_eqb lk xb = false) by (apply str_eqb_neq; congruence).
  assert (E3 : str_eqb xa xb = false) by (apply str_eqb_neq; congruence).
  assert (E4 : str_eqb xb xa = false) by (apply str_eqb_neq; congruence).
  unfold g5. rewrite !(le_nbrs _ _ _ _ p2_ok5). unfold g4. rewrite !(le_nbrs _ _ _ _ p2_ok4).
  rewrite p2_nbrs3_l, p2_nbrs3_xa, p2_nbrs3_xb, !str_eqb_refl, E1, E2, E3, E4. simpl. auto.
Qed.

Lemma p2_cls5 y k : cls_is g5 y k = cls_is g3 y k.
Proof. unfold g5, g4. rewrite !le_cls. reflexivity. Qed.

Lemma p2_peers5 : peers g5 xa = [xb] /\ peers g5 xb = [xa].
Proof.
  destruct p2_parts as [_ [_ [_ [Nab [Nal [Nbl [_ [_ [_ [C1 [_ [C2 [_ [C3 [Ca [Cb _]]]]]]]]]]]]]]]].
  destruct p2_a_ne as [A1 [A2 [A3 [B1 [B2 B3]]]]]. destruct p2_nbrs5 as [Nl [Na Nb]].
  assert (E3 : str_eqb xa xb = false) by (apply str_eqb_neq; congruence).
  assert (E4 : str_eqb xb xa = false) by (apply str_eqb_neq; congruence).
  assert (Fl : first_nb g5 lk Connects KCP = [xa; xb]).
  { unfold first_nb. rewrite Nl. simpl. rewrite !p2_cls5, p2_cls3_xa, p2_cls3_xb, C1, C2. reflexivity. }
  split.
  - unfold peers, first_nb at 2. rewrite Na. simpl. rewrite !p2_cls5, p2_cls3_l, C3.
    rewrite (p2_cls3_old a _ A1 A2 A3), (cls_is_unique _ _ _ KLink Ca) by discriminate. simpl.
    rewrite Fl. simpl. rewrite str_eqb_refl, E4. reflexivity.
  - unfold peers, first_nb at 2. rewrite Nb. simpl. rewrite !p2_cls5, p2_cls3_l, C3.
    rewrite (p2_cls3_old b _ B1 B2 B3), (cls_is_unique _ _ _ KLink Cb) by discriminate. simpl.
    rewrite Fl. simpl. rewrite str_eqb_refl, E3. reflexivity.
Qed.

Theorem WF_add_peering2_sec : WF g5.
Proof.
  apply WF_WFr. apply (WFr_discharge_ep _ _ _ p2_W5). intros n Hn _ He _ _. unfold ep in He.
  destruct p2_peers5 as [P1 P2].
  apply orb_true_iff in He as [He|He]; apply str_eqb_eq in He; rewrite He; [rewrite P1 | rewrite P2]; reflexivity.
Qed.
End Peering2.

Theorem WF_add_peering2 g a b pa pb l : WF g -> peering2_ok g a b pa pb l = true -> WF (add_peering2 g a b pa pb l).
Proof. intros W OK. exact (WF_add_peering2_sec g a b pa pb l W OK). Qed.

(* ---- the two ports alone ------------------------------------------------------------------------------------- *)
Section Ports2.
Variables (ep : str -> bool) (g : graph) (a b : str) (pa pb : node).
Hypothesis W : WF g.
Hypothesis OK : ports2_ok g a b pa pb = true.
Hypothesis Hepa : ep (nid pa) = true.
Local Notation xa := (nid pa).
Local Notation xb := (nid pb).
Let g1 := add_owned g pa a Connects.

Lemma pt_parts :
  has_id g xa = false /\ has_id g xb = false /\ xa <> xb /\
  new_node_ok pa = true /\ new_node_ok pb = true /\
  ncls pa = KCP /\ is_type pa sServicePort = true /\ ncls pb = KCP /\ is_type pb sServicePort = true /\
  cls_is g a KNS = true /\ cls_is g b KNS = true /\
  sibling_free g a Connects KCP (nname pa) = true /\ sibling_free g b Connects KCP (nname pb) = true /\
  (a = b -> ostr_eqb (nname pa) (nname pb) = false).
Proof.
  unfold ports2_ok, fresh in OK. do 13 (apply andb_true_iff in OK as [OK ?]).
  apply negb_true_iff in OK.
  repeat match goal with H : negb _ = true |- _ => apply negb_true_iff in H end.
  repeat match goal with H : str_eqb _ _ = false |- _ => apply str_eqb_neq in H end.
  repeat match goal with H : cls_eqb _ _ = true |- _ => apply cls_eqb_eq in H end.
  repeat split; try assumption.
  intro E. apply orb_true_iff in H as [X|X]; apply negb_true_iff in X; [|exact X].
  apply str_eqb_neq in X. contradiction.
Qed.

Lemma pt_W0 : WFr no_exempt ep g.
Proof. apply WF_WFr in W. eapply WFr_mono; [| |exact W]; intros x H; [exact H | discriminate H]. Qed.

Lemma pt_ok1 : owned_okR g pa a Connects = true.
Proof.
  destruct pt_parts as [F1 [_ [_ [N1 [_ [C1 [T1 [_ [_ [Ca [_ [SF _]]]]]]]]]]]].
  unfold owned_okR, fresh, owner_shape_okR. rewrite F1, N1, C1. simpl.
  assert (X : is_type pa sSubInterface = false) by (apply (is_type_excl _ _ _ T1); reflexivity).
  rewrite X, Ca. simpl. exact SF.
Qed.
Lemma pt_W1 : WFr no_exempt ep g1.
Proof. apply WFr_add_owned; [exact pt_W0 | exact pt_ok1 | intros _ _; exact Hepa]. Qed.

Lemma pt_ok2 : owned_okR g1 pb b Connects = true.
Proof.
  destruct pt_parts as [F1 [F2 [Nab [_ [N2 [C1 [_ [C2 [T2 [Ca [Cb [_ [SFb Hab]]]]]]]]]]]]].
  assert (B1 : b <> xa) by (intro E; rewrite <- E in F1; rewrite (cls_is_has_id _ _ _ Cb) in F1; discriminate).
  unfold owned_okR, fresh, owner_shape_okR. unfold g1 at 1. rewrite has_id_add_owned, F2.
  assert (E : str_eqb xa xb = false) by (apply str_eqb_neq; exact Nab). rewrite E, N2, C2. simpl.
  assert (X : is_type pb sSubInterface = false) by (apply (is_type_excl _ _ _ T2); reflexivity).
  rewrite X. unfold g1 at 1. rewrite (ao_cls_old g pa a Connects b KNS B1), Cb. simpl.
  unfold sibling_free. apply forallb_forall. intros j Hj. apply In_first_nb in Hj as [Hj Cj].
  unfold g1 in Hj. rewrite (ao_nbrs_any _ _ _ _ _ _ pt_W0 pt_ok1) in Hj. apply in_app_or in Hj as [Hj|Hj].
  - assert (Hne : j <> xa).
    { intro Ej. pose proof (proj1 (nbrs_has_id _ _ _ _ (r_edge_ends _ _ _ pt_W0) Hj)) as Hh. rewrite Ej in Hh. congruence. }
    unfold g1 in Cj. rewrite (ao_cls_old _ _ _ _ _ _ Hne) in Cj. unfold g1. rewrite (ao_name_old _ _ _ _ _ Hne).
    unfold sibling_free in SFb. rewrite forallb_forall in SFb. apply SFb. apply In_first_nb. auto.
  - unfold nb_of in Hj. simpl in Hj. destruct (str_eqb a b) eqn:Eab.
    + destruct Hj as [Hj|[]]. inversion Hj; subst j. unfold g1. rewrite (name_of_newR _ _ _ _ pt_ok1).
      apply str_eqb_eq in Eab. rewrite (Hab Eab). reflexivity.
    + assert (E2 : str_eqb xa b = false) by (apply str_eqb_neq; congruence). rewrite E2 in Hj. destruct Hj.
Qed.
End Ports2.

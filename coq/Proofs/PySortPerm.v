(* Base/PySort.v only MOVES elements: whatever the comparison `lt` answers (consistent or not), whenever py_sort
   returns Some r, r is a permutation of the input.  (Counting argument: every step of every loop preserves the
   number of occurrences of every element; the galloping indices are irrelevant because firstn k l ++ skipn k l = l
   for every k.)  Needs decidable equality on the elements only to count occurrences. *)
From Coq Require Import List NArith Bool Lia ZifyBool Permutation Arith.
From FIM Require Import Base.PySort.
Import ListNotations.
Local Open Scope nat_scope.

Section Perm.
Context {A : Type} (eq_dec : forall x y : A, {x = y} + {x <> y}) (lt : A -> A -> bool).

Definition cnt (x : A) (l : list A) : nat := count_occ eq_dec l x.
Definition one (x y : A) : nat := if eq_dec y x then 1 else 0.

Lemma cnt_nil x : cnt x [] = 0.
Proof. reflexivity. Qed.
Lemma cnt_cons x y l : cnt x (y :: l) = one x y + cnt x l.
Proof. unfold cnt, one. simpl. destruct (eq_dec y x); reflexivity. Qed.
Lemma cnt_app x l1 l2 : cnt x (l1 ++ l2) = cnt x l1 + cnt x l2.
Proof. unfold cnt. apply count_occ_app. Qed.
Lemma cnt_rev x l : cnt x (rev l) = cnt x l.
Proof. induction l as [|y l IH]; [reflexivity|]. cbn [rev]. rewrite cnt_app, IH, !cnt_cons, cnt_nil. lia. Qed.
Lemma cnt_rev_append x l1 l2 : cnt x (rev_append l1 l2) = cnt x l1 + cnt x l2.
Proof. rewrite rev_append_rev, cnt_app, cnt_rev. reflexivity. Qed.
Lemma cnt_split x k (l : list A) : cnt x (takeN k l) + cnt x (dropN k l) = cnt x l.
Proof. unfold takeN, dropN. rewrite <- cnt_app, firstn_skipn. reflexivity. Qed.

Hint Rewrite cnt_nil cnt_cons cnt_app cnt_rev cnt_rev_append : cnt.

Ltac splits x :=
  repeat match goal with
         | |- context [takeN ?k ?l] =>
             lazymatch goal with
             | _ : cnt x (takeN k l) + cnt x (dropN k l) = cnt x l |- _ => fail
             | _ => pose proof (cnt_split x k l)
             end
         | |- context [dropN ?k ?l] =>
             lazymatch goal with
             | _ : cnt x (takeN k l) + cnt x (dropN k l) = cnt x l |- _ => fail
             | _ => pose proof (cnt_split x k l)
             end
         | _ : context [takeN ?k ?l] |- _ =>
             lazymatch goal with
             | _ : cnt x (takeN k l) + cnt x (dropN k l) = cnt x l |- _ => fail
             | _ => pose proof (cnt_split x k l)
             end
         end.
Ltac fin x := splits x; autorewrite with cnt in *; splits x; lia.

Ltac brk H :=
  repeat (cbv zeta in H; unfold obind in H;
          match type of H with
          | None = Some _ => discriminate H
          | Some _ = Some _ => inversion H; subst; clear H
          | context [match ?c with _ => _ end] => destruct c eqn:?
          end).

(* ---------- runs ---------- *)
Lemma take_desc_cnt x : forall l prev acc r rest, take_desc lt prev l acc = (r, rest) -> cnt x r + cnt x rest = cnt x acc + cnt x l.
Proof.
  induction l as [|y l IH]; intros prev acc r rest H; simpl in H.
  - inversion H; subst. fin x.
  - destruct (lt y prev); [apply IH in H; fin x|inversion H; subst; fin x].
Qed.
Lemma take_asc_cnt x : forall l prev acc r rest, take_asc lt prev l acc = (r, rest) -> cnt x r + cnt x rest = cnt x acc + cnt x l.
Proof.
  induction l as [|y l IH]; intros prev acc r rest H; simpl in H.
  - inversion H; subst. fin x.
  - destruct (lt y prev); [inversion H; subst; fin x|apply IH in H; fin x].
Qed.
Lemma count_run_cnt x l r rest : count_run lt l = Some (r, rest) -> cnt x r + cnt x rest = cnt x l.
Proof.
  unfold count_run. destruct l as [|x0 [|x1 l]]; intro H; try discriminate.
  - inversion H; subst. fin x.
  - destruct (lt x1 x0).
    + inversion H as [H1]. apply (take_desc_cnt x) in H1. fin x.
    + destruct (take_asc lt x1 l [x1; x0]) as [acc rest'] eqn:E. inversion H; subst. apply (take_asc_cnt x) in E. fin x.
Qed.

Lemma binsert_cnt x pre pivot r : binsert lt pre pivot = Some r -> cnt x r = one x pivot + cnt x pre.
Proof.
  unfold binsert, obind. destruct (bsearch lt _ pivot pre 0 (lenN pre)) as [l|]; intro H; [|discriminate].
  inversion H; subst. fin x.
Qed.
Lemma binsert_all_cnt x : forall extra run r, binsert_all lt run extra = Some r -> cnt x r = cnt x run + cnt x extra.
Proof.
  induction extra as [|y extra IH]; intros run r H; simpl in H.
  - inversion H; subst. fin x.
  - unfold obind in H. destruct (binsert lt run y) as [run'|] eqn:E; [|discriminate].
    apply IH in H. apply (binsert_cnt x) in E. fin x.
Qed.

(* ---------- merges ---------- *)
Lemma cnt_le x (l : list A) : cnt x l <= List.length l.
Proof. unfold cnt. apply count_occ_bound. Qed.
Lemma length_dropN k (l : list A) : List.length (dropN k l) = List.length l - N.to_nat k.
Proof. unfold dropN. apply skipn_length. Qed.

Ltac bounds x :=
  repeat match goal with
         | l : list A |- _ =>
             lazymatch goal with
             | _ : cnt x l <= List.length l |- _ => fail
             | _ => pose proof (cnt_le x l)
             end
         | _ : context [dropN ?k ?l] |- _ =>
             lazymatch goal with
             | _ : cnt x (dropN k l) <= List.length (dropN k l) |- _ => fail
             | _ => pose proof (cnt_le x (dropN k l))
             end
         end.
Ltac lens := unfold lenN in *; cbn [List.length] in *; rewrite ?length_dropN in *.
Ltac deq x :=
  repeat match goal with
         | H : dropN ?k ?l = _ |- _ =>
             let E1 := fresh "E" in
             let E2 := fresh "E" in
             pose proof (cnt_split x k l) as E1; pose proof (length_dropN k l) as E2;
             rewrite H in E1, E2; try rewrite H in *; clear H
         end.
Ltac fin2 x := deq x; autorewrite with cnt in *; splits x; bounds x; lens; lia.

Lemma lo_go_cnt x : forall fuel gal rout a b na nb ac bc mg smg r s,
  na = lenN a -> nb = lenN b ->
  lo_go lt fuel gal rout a b na nb ac bc mg smg = Some (r, s) -> cnt x r = cnt x rout + cnt x a + cnt x b.
Proof.
  induction fuel as [|f IH]; intros gal rout a b na nb ac bc mg smg r s Ha Hb H; [discriminate|].
  cbn [lo_go] in H.
  brk H; try (apply IH in H; [| |]); fin2 x.
Qed.
Lemma hi_go_cnt x : forall fuel gal ra rb out na nb ac bc mg smg r s,
  na = lenN ra -> nb = lenN rb ->
  hi_go lt fuel gal ra rb out na nb ac bc mg smg = Some (r, s) -> cnt x r = cnt x out + cnt x ra + cnt x rb.
Proof.
  induction fuel as [|f IH]; intros gal ra rb out na nb ac bc mg smg r s Ha Hb H; [discriminate|].
  cbn [hi_go] in H.
  brk H; try (apply IH in H; [| |]); fin2 x.
Qed.

Lemma gl_bin_le : forall fuel key get lo hi r, gl_bin lt fuel key get lo hi = Some r -> (r <= hi)%N.
Proof.
  induction fuel as [|f IH]; intros key get lo hi r H; cbn [gl_bin] in H.
  - destruct (lo <? hi)%N; [discriminate|]. inversion H. lia.
  - destruct (lo <? hi)%N eqn:E; [|inversion H; lia].
    unfold obind in H. destruct (get (lo + N.shiftr (hi - lo) 1)%N) as [v|]; [|discriminate].
    assert (Hm : (lo + N.shiftr (hi - lo) 1 < hi)%N).
    { rewrite N.shiftr_div_pow2. change (2 ^ 1)%N with 2%N.
      assert (((hi - lo) / 2 < hi - lo)%N) by (apply N.div_lt; lia). lia. }
    destruct (lt v key); apply IH in H; lia.
Qed.

Lemma gallop_left_le key get n hint r : (hint <= n)%N -> gallop_left lt key get n hint = Some r -> (r <= n)%N.
Proof.
  intros Hh H. unfold gallop_left, obind in H.
  destruct (get hint) as [ah|]; [|discriminate].
  destruct (lt ah key).
  - destruct (gl_right lt (gfuel n) key get hint (n - hint) 0 1) as [[lastofs ofs]|]; [|discriminate].
    apply gl_bin_le in H. destruct (n - hint <? ofs)%N eqn:E; lia.
  - destruct (gl_left lt (gfuel n) key get hint (hint + 1) 0 1) as [[lastofs ofs]|]; [|discriminate].
    apply gl_bin_le in H. lia.
Qed.

Lemma length_takeN k (l : list A) : (k <= lenN l)%N -> lenN (takeN k l) = k.
Proof. intro H. unfold lenN, takeN in *. rewrite firstn_length. lia. Qed.

Lemma merge_lo_cnt x a b na nb smg r s : na = lenN a -> nb = lenN b ->
  merge_lo lt a b na nb smg = Some (r, s) -> cnt x r = cnt x a + cnt x b.
Proof.
  intros Ha Hb H. unfold merge_lo in H.
  brk H; try (apply (lo_go_cnt x) in H; [| |]); fin2 x.
Qed.

Lemma merge_hi_cnt x a b na nb smg r s : na = lenN a -> nb = lenN b ->
  merge_hi lt a b na nb smg = Some (r, s) -> cnt x r = cnt x a + cnt x b.
Proof.
  intros Ha Hb H. unfold merge_hi in H.
  destruct (rev a) as [|y ra'] eqn:Er; [discriminate|].
  assert (Hc : cnt x a = one x y + cnt x ra') by (rewrite <- (cnt_rev x a), Er, cnt_cons; reflexivity).
  assert (Hl : List.length a = S (List.length ra')) by (rewrite <- (rev_length a), Er; reflexivity).
  assert (Hcb : cnt x (rev b) = cnt x b) by apply cnt_rev.
  assert (Hlb : List.length (rev b) = List.length b) by apply rev_length.
  brk H; try (apply (hi_go_cnt x) in H; [| |]); fin2 x.
Qed.
Lemma merge_cnt x a b smg r s : merge lt a b smg = Some (r, s) -> cnt x r = cnt x a + cnt x b.
Proof.
  intro H. unfold merge, obind in H.
  destruct b as [|b0 b']; [discriminate|].
  destruct (gallop_right lt b0 (atN a) (lenN a) 0) as [k|]; [|discriminate].
  destruct (lenN a - k =? 0)%N eqn:E0; [inversion H; subst; fin x|].
  destruct (atN a (lenN a - 1)) as [alast|]; [|discriminate].
  destruct (gallop_left lt alast (atN (b0 :: b')) (lenN (b0 :: b')) (lenN (b0 :: b') - 1)) as [nb2|] eqn:Eg; [|discriminate].
  apply gallop_left_le in Eg; [|lia].
  destruct (nb2 =? 0)%N eqn:E1; [inversion H; subst; fin x|].
  pose proof (length_takeN nb2 (b0 :: b') Eg) as Ht.
  assert (Hd : lenN (dropN k a) = (lenN a - k)%N) by (unfold lenN; rewrite length_dropN; lia).
  destruct (lenN a - k <=? nb2)%N.
  - destruct (merge_lo lt (dropN k a) (takeN nb2 (b0 :: b')) (lenN a - k) nb2 smg) as [[mid s']|] eqn:Em; [|discriminate].
    inversion H; subst. apply (merge_lo_cnt x) in Em; [|congruence|congruence]. fin x.
  - destruct (merge_hi lt (dropN k a) (takeN nb2 (b0 :: b')) (lenN a - k) nb2 smg) as [[mid s']|] eqn:Em; [|discriminate].
    inversion H; subst. apply (merge_hi_cnt x) in Em; [|congruence|congruence]. fin x.
Qed.

(* ---------- the run stack ---------- *)
Fixpoint scnt (x : A) (st : list (@run A)) : nat :=
  match st with [] => 0 | r :: rest => cnt x (r_items r) + scnt x rest end.

Lemma merge_top_cnt x st smg st' s : merge_top lt st smg = Some (st', s) -> scnt x st' = scnt x st.
Proof.
  unfold merge_top, obind. destruct st as [|rb [|ra rest]]; try discriminate.
  destruct (merge lt (r_items ra) (r_items rb) smg) as [[m s']|] eqn:E; [|discriminate].
  intro H. inversion H; subst. apply (merge_cnt x) in E. simpl. lia.
Qed.
Lemma merge_below_cnt x st smg st' s : merge_below lt st smg = Some (st', s) -> scnt x st' = scnt x st.
Proof.
  unfold merge_below, obind. destruct st as [|rc rest]; [discriminate|].
  destruct (merge_top lt rest smg) as [[st2 s2]|] eqn:E; [|discriminate].
  intro H. inversion H; subst. apply (merge_top_cnt x) in E. simpl. lia.
Qed.
Lemma collapse_power_cnt x : forall fuel st power smg st' s,
  collapse_power lt fuel st power smg = Some (st', s) -> scnt x st' = scnt x st.
Proof.
  induction fuel as [|f IH]; intros st power smg st' s H.
  - destruct st as [|r0 [|ra rest]]; cbn [collapse_power] in H; try (inversion H; reflexivity).
    destruct (power <? r_power ra)%N; [discriminate|inversion H; reflexivity].
  - destruct st as [|r0 [|ra rest]]; cbn [collapse_power] in H; try (inversion H; reflexivity).
    destruct (power <? r_power ra)%N; [|inversion H; reflexivity].
    unfold obind in H. destruct (merge_top lt (r0 :: ra :: rest) smg) as [[st2 s2]|] eqn:E; [|discriminate].
    apply IH in H. apply (merge_top_cnt x) in E. lia.
Qed.
Lemma found_new_run_cnt x st n2 listlen smg st' s :
  found_new_run lt st n2 listlen smg = Some (st', s) -> scnt x st' = scnt x st.
Proof.
  unfold found_new_run, obind. destruct st as [|top rest]; [intro H; inversion H; reflexivity|].
  destruct (powerloop (r_start top) (r_len top) n2 listlen) as [power|]; [|discriminate].
  destruct (collapse_power lt (List.length (top :: rest)) (top :: rest) power smg) as [[st2 s2]|] eqn:E; [|discriminate].
  destruct st2 as [|t rest2]; [discriminate|]. intro H. inversion H; subst.
  apply (collapse_power_cnt x) in E. simpl in *. lia.
Qed.
Lemma force_collapse_cnt x : forall fuel st smg r, force_collapse lt fuel st smg = Some r -> cnt x r = scnt x st.
Proof.
  induction fuel as [|f IH]; intros st smg r H.
  - destruct st as [|r0 [|r1 [|r2 rest]]]; cbn [force_collapse] in H; try discriminate. inversion H; subst. simpl. lia.
  - destruct st as [|r0 [|r1 [|r2 rest]]]; cbn [force_collapse] in H; try discriminate.
    + inversion H; subst. simpl. lia.
    + unfold obind in H. destruct (merge_top lt [r0; r1] smg) as [[st2 s2]|] eqn:E; [|discriminate].
      apply IH in H. apply (merge_top_cnt x) in E. lia.
    + unfold obind in H.
      destruct (if (r_len r2 <? r_len r0)%N then merge_below lt (r0 :: r1 :: r2 :: rest) smg
                else merge_top lt (r0 :: r1 :: r2 :: rest) smg) as [[st2 s2]|] eqn:E; [|discriminate].
      apply IH in H. destruct (r_len r2 <? r_len r0)%N; [apply (merge_below_cnt x) in E|apply (merge_top_cnt x) in E]; lia.
Qed.

Lemma runs_go_cnt x : forall fuel rest s nrem listlen mr st smg r,
  runs_go lt fuel rest s nrem listlen mr st smg = Some r -> cnt x r = scnt x st + cnt x rest.
Proof.
  induction fuel as [|f IH]; intros rest s nrem listlen mr st smg r H.
  - destruct rest; simpl in H; [|discriminate]. apply (force_collapse_cnt x) in H. fin x.
  - destruct rest as [|y rest]; cbn [runs_go] in H; [apply (force_collapse_cnt x) in H; fin x|].
    unfold obind in H.
    destruct (count_run lt (y :: rest)) as [[r0 rest1]|] eqn:Ec; [|discriminate].
    apply (count_run_cnt x) in Ec.
    destruct (lenN r0 <? mr)%N.
    + destruct (binsert_all lt r0 (takeN ((if (nrem <=? mr)%N then nrem else mr) - lenN r0) rest1)) as [r1|] eqn:Eb; [|discriminate].
      apply (binsert_all_cnt x) in Eb.
      destruct (found_new_run lt st (if (nrem <=? mr)%N then nrem else mr) listlen smg) as [[st' smg']|] eqn:Ef; [|discriminate].
      apply (found_new_run_cnt x) in Ef. apply IH in H. simpl in H. fin x.
    + destruct (found_new_run lt st (lenN r0) listlen smg) as [[st' smg']|] eqn:Ef; [|discriminate].
      apply (found_new_run_cnt x) in Ef. apply IH in H. simpl in H. fin x.
Qed.

Theorem py_sort_cnt x l r : py_sort lt l = Some r -> cnt x r = cnt x l.
Proof.
  unfold py_sort. destruct (lenN l <? 2)%N; intro H; [inversion H; reflexivity|].
  apply (runs_go_cnt x) in H. simpl in H. lia.
Qed.

Theorem py_sort_permutation l r : py_sort lt l = Some r -> Permutation l r.
Proof.
  intro H. apply (Permutation_count_occ eq_dec). intro x. symmetry. exact (py_sort_cnt x l r H).
Qed.

Theorem py_sort_first_in l x : py_sort_first lt l = Some x -> In x l.
Proof.
  unfold py_sort_first. destruct (py_sort lt l) as [[|y r]|] eqn:E; intro H; try discriminate.
  inversion H; subst. apply py_sort_permutation in E. apply Permutation_sym in E.
  apply (Permutation_in _ E). left. reflexivity.
Qed.
End Perm.

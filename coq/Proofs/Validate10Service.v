(* C10: one service -- validate_service (the code's order, early exits, state update) against svc_ok. *)
From Coq Require Import List ZArith String Bool NArith Lia ZifyBool Permutation.
From FIM Require Import Base.C10Types Gen.Constraints Model.Validate10 Model.C10Spec Proofs.Validate10Lemmas.
Import ListNotations.
Open Scope Z_scope.

Lemma min_cond : forall m nl n, negb (m =? nl) && (n <? m) = false <-> (m = nl \/ m <= n).
Proof. intros. lia. Qed.
Lemma max_cond : forall m nl n, negb (m =? nl) && (n >? m) = false <-> (m = nl \/ n <= m).
Proof. intros. lia. Qed.

(* the set of sites the code computes *)
Lemma nodup_sites : forall eps l, owner_sites eps = Some l ->
  NoDup (nodup osite_eq_dec l) /\ (forall a, In a (nodup osite_eq_dec l) <-> spans eps a).
Proof.
  intros eps l H. split; [apply NoDup_nodup|]. intros a. rewrite nodup_In. apply owner_sites_spans, H.
Qed.

Lemma validate_service_sound : forall T es s after, table_ok T = true ->
  validate_service T es s = (after, Ok) -> svc_ok T es s after.
Proof.
  intros T es s after Hok. unfold validate_service. unfold NL.
  destruct (assoc (s_type s) (t_services T)) as [r|] eqn:Ha; [|intros H; inversion H].
  destruct (node_ifaces (s_ifaces s)) as [eps|] eqn:He; [|intros H; inversion H].
  destruct (negb (sc_min_interfaces r =? t_no_limit T) && (Z.of_nat (List.length eps) <? sc_min_interfaces r)) eqn:Emin;
    [intros H; inversion H|].
  destruct (negb (sc_num_interfaces r =? t_no_limit T) && (Z.of_nat (List.length eps) >? sc_num_interfaces r)) eqn:Emax;
    [intros H; inversion H|].
  apply min_cond in Emin. apply max_cond in Emax. apply node_ifaces_spec in He.
  pose proof (check_props_spec T r s eps) as CP.
  assert (forall aft, check_props r s eps aft = Ok -> site_rule T es r s eps aft -> svc_ok T es s aft) as FIN.
  { intros aft Hc Hs. exists r, eps. unfold no_limit. split; [exact Ha|]. split; [exact He|]. split; [exact Emin|].
    split; [exact Emax|]. split; [exact Hs|]. apply (CP aft (s_type s) Hok Ha). exact Hc. }
  destruct (sc_num_sites r =? t_no_limit T) eqn:Ens.
  - (* no site limit: sites are not looked at *)
    simpl. intros H. inversion H. subst after. apply FIN; [assumption|]. left. split; [unfold no_limit; lia|reflexivity].
  - destruct (owner_sites eps) as [l|] eqn:Eo; simpl; [|intros H; inversion H].
    destruct (nodup_sites eps l Eo) as [Hnd Hin].
    pose proof (owner_sites_owned eps l Eo) as Hown.
    destruct (Z.of_nat (List.length (nodup osite_eq_dec l)) >? sc_num_sites r) eqn:Ecnt; [intros H; inversion H|].
    assert (site_rule T es r s eps after -> site_rule T es r s eps after) as _ by auto.
    assert (forall aft,
      ((nodup osite_eq_dec l = [] /\ aft = s_site s) \/
       (exists a, nodup osite_eq_dec l = [a] /\
          ((s_site s = None /\ aft = a) \/
           (exists d, s_site s = Some d /\ aft = Some d /\ (es = true -> a = Some d)))) \/
       ((2 <= List.length (nodup osite_eq_dec l))%nat /\ s_site s = None /\ aft = None)) ->
      site_rule T es r s eps aft) as SR.
    { intros aft Hd. right. split; [unfold no_limit; lia|]. split; [exact Hown|].
      exists (nodup osite_eq_dec l). split; [exact Hnd|]. split; [exact Hin|]. split; [lia|]. exact Hd. }
    destruct (nodup osite_eq_dec l) as [|a [|b t]] eqn:En.
    + intros H. inversion H. subst after. apply FIN; [assumption|]. apply SR. left. auto.
    + destruct (s_site s) as [d|] eqn:Es.
      * destruct (es && negb (if osite_eq_dec a (Some d) then true else false)) eqn:Ee; [intros H; inversion H|].
        intros H. inversion H. subst after. apply FIN; [assumption|]. apply SR. right. left.
        exists a. split; [reflexivity|]. right. exists d. split; [reflexivity|]. split; [reflexivity|].
        intros Hes. subst es. simpl in Ee. destruct (osite_eq_dec a (Some d)); [assumption|discriminate].
      * intros H. inversion H. subst after. apply FIN; [assumption|]. apply SR. right. left.
        exists a. split; [reflexivity|]. left. auto.
    + destruct (s_site s) as [d|] eqn:Es; [intros H; inversion H|].
      intros H. inversion H. subst after. apply FIN; [assumption|]. apply SR. right. right.
      simpl. split; [lia|auto].
Qed.

Lemma validate_service_complete : forall T es s after, table_ok T = true ->
  svc_ok T es s after -> validate_service T es s = (after, Ok).
Proof.
  intros T es s after Hok [r [eps [Ha [He [Hmin [Hmax [Hs HP]]]]]]].
  unfold validate_service. rewrite Ha. apply node_ifaces_spec in He. rewrite He.
  apply min_cond in Hmin. apply max_cond in Hmax. unfold NL. unfold no_limit in *. rewrite Hmin, Hmax.
  apply (check_props_spec T r s eps after (s_type s) Hok Ha) in HP.
  unfold site_rule, no_limit in Hs.
  destruct Hs as [[Hns Haft]|[Hns [Hown [sites [Hnd [Hin [Hlen Hd]]]]]]].
  - rewrite Hns, Z.eqb_refl. simpl. subst after. rewrite HP. reflexivity.
  - assert (sc_num_sites r =? t_no_limit T = false) as Ens by lia. rewrite Ens.
    destruct (owner_sites_total eps Hown) as [l El]. rewrite El. simpl.
    destruct (nodup_sites eps l El) as [Hnd' Hin'].
    assert (Permutation (nodup osite_eq_dec l) sites) as HPm.
    { apply NoDup_Permutation; [assumption|assumption|]. intros a. rewrite Hin', Hin. reflexivity. }
    pose proof (Permutation_length HPm) as HL.
    assert (Z.of_nat (List.length (nodup osite_eq_dec l)) >? sc_num_sites r = false) as Ecnt by lia.
    rewrite Ecnt.
    destruct Hd as [[Hnil Haft]|[[a [Hone Hd]]|[Htwo [Hdecl Haft]]]].
    + subst sites. apply Permutation_sym, Permutation_nil in HPm. rewrite HPm. subst after. rewrite HP. reflexivity.
    + subst sites. apply Permutation_sym, Permutation_length_1_inv in HPm. rewrite HPm.
      destruct Hd as [[Hdecl Haft]|[d [Hdecl [Haft Hag]]]].
      * rewrite Hdecl. subst after. rewrite HP. reflexivity.
      * rewrite Hdecl. subst after.
        assert (es && negb (if osite_eq_dec a (Some d) then true else false) = false) as Ee.
        { destruct es; [|reflexivity]. simpl. rewrite (Hag eq_refl).
          destruct (osite_eq_dec (Some d) (Some d)); [reflexivity|congruence]. }
        rewrite Ee, HP. reflexivity.
    + destruct (nodup osite_eq_dec l) as [|x [|y t]] eqn:En; simpl in HL; try lia.
      rewrite Hdecl. subst after. rewrite HP. reflexivity.
Qed.

Lemma validate_service_spec : forall T es s after, table_ok T = true ->
  (validate_service T es s = (after, Ok) <-> svc_ok T es s after).
Proof.
  intros. split; [apply validate_service_sound | apply validate_service_complete]; assumption.
Qed.

(* the recorded site is determined by the slice *)
Lemma svc_ok_unique : forall T es s a b, table_ok T = true -> svc_ok T es s a -> svc_ok T es s b -> a = b.
Proof.
  intros T es s a b Hok Ha Hb. apply (validate_service_complete T es s _ Hok) in Ha, Hb. congruence.
Qed.

(* a failing service leaves its own site as the model says and never reports Ok *)
Lemma validate_services_spec : forall T es l sts, table_ok T = true ->
  (validate_services T es l = (sts, Ok) <-> Forall2 (svc_ok T es) l sts).
Proof.
  intros T es l. induction l as [|s r IH]; intros sts Hok; simpl.
  - split; [intros H; inversion H; constructor | intros H; inversion H; reflexivity].
  - destruct (validate_service T es s) as [st res] eqn:Es. destruct res as [|e].
    + destruct (validate_services T es r) as [sts' res'] eqn:Er. split.
      * intros H. inversion H. subst. constructor; [apply validate_service_spec; assumption|].
        apply IH; [assumption|reflexivity].
      * intros H. inversion H as [|s' a r0 l' Hs Hr]. subst.
        apply (validate_service_spec T es s a Hok) in Hs. rewrite Es in Hs. inversion Hs. subst.
        apply (IH l' Hok) in Hr. inversion Hr. subst. reflexivity.
    + split; [intros H; inversion H|].
      intros H. inversion H as [|s' a r0 l' Hs Hr]. subst.
      apply (validate_service_spec T es s a Hok) in Hs. rewrite Es in Hs. inversion Hs.
Qed.

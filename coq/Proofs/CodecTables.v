(* C03: obligations about the regenerated tables (Gen/CodecGen.v) -- finite, by computation. *)
From Coq Require Import String List NArith ZArith Bool.
From FIM Require Import Base.Str Base.Json Gen.CodecGen Model.CodecField Model.CodecMisc.
Import ListNotations.

Lemma codec_gen_ok_true : codec_gen_ok = true.
Proof. reflexivity. Qed.

(* the hand-written inductives of the model have exactly the members the source declares *)
Lemma codec_enums_match :
  path_type_names = ptype_names /\ maint_state_names = mstate_names /\
  maint_entry_fields = ["state"; "deadline"; "expected_end"]%string /\
  gen_class_names = ["Capacities"; "CapacityHints"; "Labels"; "ReservationInfo"; "StructuralInfo"; "Location"; "Flags"]%string /\
  jsondata_names = ["MeasurementData"; "UserData"; "LayoutData"]%string.
Proof. repeat split; reflexivity. Qed.

(* C03: obligations about the regenerated tables (Gen/CodecGen.v) -- finite, by computation. *)
From Coq Require Import String List NArith ZArith Bool.
From FIM Require Import Base.Str Base.Json Gen.CodecGen Model.CodecField Model.CodecMisc.
Import ListNotations.

Lemma codec_gen_ok_true : codec_gen_ok = true.
Proof. reflexivity. Qed.

(* the hand-written inductives of the model have exactly the members the source declares *)
Lemma codec_enums_match :
  path_type_names = ptype_names /\ maint_state_names = mstate_names /\
  maint_entry_fields = ["state"; "deadline"; "expected_end"]%string /\
  gen_class_names = ["Capacities"; "CapacityHints"; "Labels"; "ReservationInfo"; "StructuralInfo"; "Location"; "Flags"]%string /\
  jsondata_names = ["MeasurementData"; "UserData"; "LayoutData"]%string.
Proof. repeat split; reflexivity. Qed.

From FIM Require Import Model.CodecWf Model.CodecChk.

(* every regenerated class descriptor is well formed, whatever the label validator is *)
Lemma classes_ok_all V : forallb (cls_ok V) gen_classes = true.
Proof. reflexivity. Qed.

Lemma classes_ok V c : In c gen_classes -> cls_ok V c = true.
Proof. intro H. pose proof (classes_ok_all V) as Q. rewrite forallb_forall in Q. exact (Q c H). Qed.

Definition n_capacities : str := S"Capacities".

Lemma drop_rule_lossless_all :
  forallb (fun c => str_eqb (jc_name c) n_capacities || lossless_cls c) gen_classes = true.
Proof. vm_compute. reflexivity. Qed.

Lemma drop_rule_lossless c : In c gen_classes -> jc_name c <> n_capacities -> lossless_cls c = true.
Proof.
  intros H N. pose proof drop_rule_lossless_all as Q. rewrite forallb_forall in Q. specialize (Q c H).
  apply orb_true_iff in Q as [Q|Q]; [|exact Q]. apply str_eqb_eq in Q. contradiction.
Qed.

Lemma capacities_lossless_partial : In cls_Capacities gen_classes /\ jc_name cls_Capacities = n_capacities /\
  lossless_cls_but [JNull; JBool false] cls_Capacities = true.
Proof. vm_compute. repeat split; auto. Qed.

(* FULL statement for Capacities (refuted): None is accepted by the constructor (the assertions are skipped),
   dropped by the encoder and read back as the default 0 *)
Lemma capacities_none_refuted :
  exists kw o o', construct VA cls_Capacities kw = Ok o
    /\ from_json VA cls_Capacities (Some (to_json cls_Capacities o)) = Ok (Some o')
    /\ json_eqb (JObj o) (JObj o') = false.
Proof.
  exists [(S"core", JNull); (S"ram", JInt 1)].
  eexists. eexists. split; [vm_compute; reflexivity|]. split; vm_compute; reflexivity.
Qed.

(* the former counterexample to forward compatibility now decodes like the text without the unknown key *)
Lemma forward_compat_example :
  from_json VA cls_Capacities (Some (S"{""core"": 2, ""gpu_model"": ""A100"", ""to_json"": [1]}"))
  = from_json VA cls_Capacities (Some (S"{""core"": 2}")).
Proof. vm_compute. reflexivity. Qed.

Lemma classes_ok_labels V : cls_ok V cls_Labels = true.
Proof. reflexivity. Qed.

(* C07 - how the queries of the model (node lookup, neighbours, owners, peers, scopes) change under the
   primitive graph mutations.  General lemmas over arbitrary graphs. *)
From Coq Require Import String List NArith Bool Arith Lia.
From FIM Require Import Base.Str Gen.Rules Model.T7Graph Model.T7Ops Model.T7WF Model.T7Steps
     Proofs.T7Tables Proofs.T7WFRefl.
Import ListNotations.

Lemma str_eqb_sym a b : str_eqb a b = str_eqb b a.
Proof.
  destruct (str_eqb a b) eqn:E.
  - apply str_eqb_eq in E. subst. symmetry. apply str_eqb_refl.
  - symmetry. apply str_eqb_neq. apply str_eqb_neq in E. congruence.
Qed.

Lemma str_eq_dec (a b : str) : {a = b} + {a <> b}.
Proof. destruct (str_eqb a b) eqn:E; [left; apply str_eqb_eq; exact E | right; apply str_eqb_neq; exact E]. Qed.

(* ---- node lookups -------------------------------------------------------------------------------- *)
Lemma find_nodes_app l1 l2 x :
  filter (fun n => str_eqb (nid n) x) (l1 ++ l2) = filter (fun n => str_eqb (nid n) x) l1 ++ filter (fun n => str_eqb (nid n) x) l2.
Proof. apply filter_app. Qed.

Lemma find_nodes_none g x : has_id g x = false -> find_nodes g x = [].
Proof.
  unfold has_id, find_nodes. induction (gnodes g) as [|n l IH]; simpl; [reflexivity|].
  intro H. apply orb_false_iff in H as [H1 H2]. rewrite H1. auto.
Qed.

Lemma find_nodes_add_node_other g n y : y <> nid n -> find_nodes (g_add_node g n) y = find_nodes g y.
Proof.
  intro H. unfold find_nodes, g_add_node. simpl. rewrite filter_app. simpl.
  assert (E : str_eqb (nid n) y = false) by (apply str_eqb_neq; congruence). rewrite E. apply app_nil_r.
Qed.
Lemma find_nodes_add_node_same g n : has_id g (nid n) = false -> find_nodes (g_add_node g n) (nid n) = [n].
Proof.
  intro H. unfold find_nodes, g_add_node. simpl. rewrite filter_app. simpl. rewrite str_eqb_refl.
  fold (find_nodes g (nid n)). rewrite (find_nodes_none _ _ H). reflexivity.
Qed.
Lemma find_nodes_add_edge g a r b y : find_nodes (g_add_edge g a r b) y = find_nodes g y.
Proof. reflexivity. Qed.

Lemma has_id_add_node g n y : has_id (g_add_node g n) y = has_id g y || str_eqb (nid n) y.
Proof. unfold has_id, g_add_node. simpl. rewrite existsb_app. simpl. rewrite orb_false_r. reflexivity. Qed.
Lemma has_id_add_edge g a r b y : has_id (g_add_edge g a r b) y = has_id g y.
Proof. reflexivity. Qed.

(* every query on node data goes through find_nodes *)
Lemma cls_of_ext g g' y : find_nodes g' y = find_nodes g y -> cls_of g' y = cls_of g y.
Proof. unfold cls_of. intros ->. reflexivity. Qed.
Lemma cls_is_ext g g' y k : find_nodes g' y = find_nodes g y -> cls_is g' y k = cls_is g y k.
Proof. unfold cls_is. intro H. rewrite (cls_of_ext _ _ _ H). reflexivity. Qed.
Lemma typ_is_ext g g' y t : find_nodes g' y = find_nodes g y -> typ_is g' y t = typ_is g y t.
Proof. unfold typ_is, typ_of. intros ->. reflexivity. Qed.
Lemma name_of_ext g g' y : find_nodes g' y = find_nodes g y -> name_of g' y = name_of g y.
Proof. unfold name_of. intros ->. reflexivity. Qed.

(* ---- neighbours ------------------------------------------------------------------------------------ *)
Definition nb_of (x : str) (e : edge) : list (str * rel) :=
  if str_eqb (ea e) x then [(eb e, erel e)] else if str_eqb (eb e) x then [(ea e, erel e)] else [].
Lemma nbrs_def g x : nbrs g x = flat_map (nb_of x) (gedges g).
Proof. reflexivity. Qed.

Lemma flat_map_app' {A B} (f : A -> list B) l1 l2 : flat_map f (l1 ++ l2) = flat_map f l1 ++ flat_map f l2.
Proof. induction l1; simpl; [reflexivity|]. rewrite IHl1. apply app_assoc. Qed.

Lemma nbrs_add_node g n x : nbrs (g_add_node g n) x = nbrs g x.
Proof. reflexivity. Qed.

Lemma filter_id {A} (f : A -> bool) l : (forall x, In x l -> f x = true) -> filter f l = l.
Proof.
  induction l as [|a l IH]; simpl; intro H; [reflexivity|].
  rewrite (H a (or_introl eq_refl)). f_equal. apply IH. intros; apply H; right; assumption.
Qed.

(* adding an edge between a and b when no edge joins them yet *)
Lemma nbrs_add_edge g a r b x :
  no_edge g a b = true ->
  nbrs (g_add_edge g a r b) x = nbrs g x ++ nb_of x (mkEdge a b r).
Proof.
  intro H. unfold g_add_edge, nbrs. simpl. rewrite flat_map_app'. simpl. rewrite app_nil_r.
  f_equal. f_equal. apply filter_id. intros e Hin. unfold no_edge in H. apply negb_true_iff in H.
  destruct (same_ends e a b) eqn:E; [|reflexivity].
  assert (existsb (fun e => same_ends e a b) (gedges g) = true) by (apply existsb_exists; eauto). congruence.
Qed.

Lemma In_nbrs g x j r :
  In (j, r) (nbrs g x) <-> exists e, In e (gedges g) /\ erel e = r /\ ((ea e = x /\ eb e = j) \/ (eb e = x /\ ea e = j)).
Proof.
  unfold nbrs. rewrite in_flat_map. split.
  - intros [e [Hin H]]. exists e. split; [exact Hin|].
    destruct (str_eqb (ea e) x) eqn:E1.
    + apply str_eqb_eq in E1. destruct H as [H|[]]. inversion H; subst. auto.
    + destruct (str_eqb (eb e) x) eqn:E2; [|destruct H].
      apply str_eqb_eq in E2. destruct H as [H|[]]. inversion H; subst. auto.
  - intros [e [Hin [Hr H]]]. exists e. split; [exact Hin|].
    destruct H as [[H1 H2]|[H1 H2]].
    + rewrite H1, str_eqb_refl. left. subst. reflexivity.
    + destruct (str_eqb (ea e) x) eqn:E1.
      * apply str_eqb_eq in E1. left. subst. congruence.
      * rewrite H1, str_eqb_refl. left. subst. reflexivity.
Qed.

Lemma nbrs_sym g x j r : In (j, r) (nbrs g x) -> In (x, r) (nbrs g j).
Proof.
  intro H. apply In_nbrs in H as [e [Hin [Hr H]]]. apply In_nbrs. exists e. split; [exact Hin|]. split; [exact Hr|].
  destruct H as [[H1 H2]|[H1 H2]]; [right|left]; auto.
Qed.

(* under WF the endpoints of edges exist *)
Lemma nbrs_has_id g x j r : (forall e, In e (gedges g) -> edge_ends_P g e) -> In (j, r) (nbrs g x) -> has_id g j = true /\ has_id g x = true.
Proof.
  intros HE H. apply In_nbrs in H as [e [Hin [Hr H]]]. destruct (HE _ Hin) as [Ha Hb].
  destruct H as [[H1 H2]|[H1 H2]]; subst; split; apply has_id_In; assumption.
Qed.

Lemma nbrs_fresh_nil g x : (forall e, In e (gedges g) -> edge_ends_P g e) -> has_id g x = false -> nbrs g x = [].
Proof.
  intros HE Hx. destruct (nbrs g x) as [|[j r] l] eqn:E; [reflexivity|].
  assert (In (j, r) (nbrs g x)) by (rewrite E; left; reflexivity).
  apply (nbrs_has_id _ _ _ _ HE) in H as [_ H]. congruence.
Qed.

Lemma no_edge_fresh g a x : (forall e, In e (gedges g) -> edge_ends_P g e) -> has_id g x = false -> no_edge g a x = true.
Proof.
  intros HE Hx. unfold no_edge. apply negb_true_iff. destruct (existsb _ _) eqn:E; [|reflexivity].
  apply existsb_exists in E as [e [Hin He]]. destruct (HE _ Hin) as [Ha Hb].
  unfold same_ends in He. apply orb_true_iff in He as [He|He]; apply andb_true_iff in He as [H1 H2];
    apply str_eqb_eq in H1; apply str_eqb_eq in H2.
  - rewrite <- H2 in Hx. apply has_id_In in Hb. congruence.
  - rewrite <- H1 in Hx. apply has_id_In in Ha. congruence.
Qed.

(* ---- filtered neighbour lists ---------------------------------------------------------------------- *)
Lemma nb_where_ext g g' y (P P' : str -> rel -> bool) :
  nbrs g' y = nbrs g y -> (forall j r, In (j, r) (nbrs g y) -> P' j r = P j r) ->
  nb_where g' y P' = nb_where g y P.
Proof.
  intros Hn HP. unfold nb_where. rewrite Hn. f_equal. apply filter_ext_in. intros [j r] Hin. simpl. auto.
Qed.
Lemma nb_where_app g g' y (P P' : str -> rel -> bool) extra :
  nbrs g' y = nbrs g y ++ extra -> (forall j r, In (j, r) (nbrs g y) -> P' j r = P j r) ->
  nb_where g' y P' = nb_where g y P ++ map fst (filter (fun p => P' (fst p) (snd p)) extra).
Proof.
  intros Hn HP. unfold nb_where. rewrite Hn, filter_app, map_app. f_equal. f_equal.
  apply filter_ext_in. intros [j r] Hin. simpl. auto.
Qed.

Lemma first_nb_as_where g x r k : first_nb g x r k = nb_where g x (fun j r' => rel_eqb r' r && cls_is g j k).
Proof. reflexivity. Qed.

Lemma In_first_nb g x r k j : In j (first_nb g x r k) <-> In (j, r) (nbrs g x) /\ cls_is g j k = true.
Proof.
  unfold first_nb. rewrite in_map_iff. split.
  - intros [[j' r'] [E H]]. simpl in E. subst j'. apply filter_In in H as [H1 H2]. simpl in H2.
    apply andb_true_iff in H2 as [H2 H3]. apply rel_eqb_eq in H2. subst. auto.
  - intros [H1 H2]. exists (j, r). split; [reflexivity|]. apply filter_In. split; [exact H1|]. simpl.
    rewrite H2. destruct r; reflexivity.
Qed.

Lemma In_nb_where g x P j : In j (nb_where g x P) <-> exists r, In (j, r) (nbrs g x) /\ P j r = true.
Proof.
  unfold nb_where. rewrite in_map_iff. split.
  - intros [[j' r'] [E H]]. simpl in E. subst j'. apply filter_In in H as [H1 H2]. eauto.
  - intros [r [H1 H2]]. exists (j, r). split; [reflexivity|]. apply filter_In. auto.
Qed.

(* C13: the clauses stated about generate_adms / st_generate_adms / rewrite_delegations themselves. *)
From Coq Require Import List NArith Bool Lia.
From FIM Require Import Gen.Adm13Gen Model.Adm13 Proofs.Adm13Gen Proofs.Adm13Spec Proofs.Adm13Props
  Proofs.Adm13Rekey Proofs.Adm13Store.
Import ListNotations.
Open Scope N_scope.

Lemma total_one_model_per_id A : wfb A = true -> gnodes A <> [] ->
  exists L, generate_adms A = Ok L /\ NoDup (map fst L) /\
            forall d, In d (map fst L) <-> exists n, In n (gnodes A) /\ delegated d n.
Proof.
  intros Hw Hne. eexists. split; [apply generate_adms_spec; assumption|].
  rewrite map_map. simpl. rewrite map_id. split; [apply c_ids_NoDup|]. intros d. apply c_ids_In.
Qed.

Lemma empty_raises A : gnodes A = [] -> generate_adms A = Err EQuery.
Proof. intros E. unfold generate_adms, node_ids. rewrite E. reflexivity. Qed.

Section Transfer.
  Variables (A : graph) (L : list (N * graph)) (d : N) (P : graph).
  Hypothesis Hw : wfb A = true.
  Hypothesis HL : generate_adms A = Ok L.
  Hypothesis Hin : In (d, P) L.

  Let HP : P = adm_spec A d := proj1 (generate_adms_inv A L d P Hw HL Hin).

  Lemma present_exact n : In n (gnodes A) -> delegated d n -> exists n', In n' (gnodes P) /\ restricted d n n'.
  Proof. rewrite HP. apply spec_present. exact Hw. Qed.

  Lemma no_leak n' d' x : In n' (gnodes P) ->
    In (d', x) (entries (ldel n')) \/ In (d', x) (entries (cdel n')) -> d' = d.
  Proof. rewrite HP. apply spec_no_leak. Qed.

  Lemma submodel :
    (forall n', In n' (gnodes P) -> exists n, In n (gnodes A) /\ restricted d n n') /\
    NoDup (node_ids P) /\
    (forall e, In e (gedges P) <-> In e (gedges A) /\ In (ea e) (node_ids P) /\ In (eb e) (node_ids P)).
  Proof.
    rewrite HP. split; [|split].
    - intros n'. apply spec_nodes. exact Hw.
    - apply spec_ids_NoDup. exact Hw.
    - intros e. apply spec_edges. exact Hw.
  Qed.

  Lemma stitch_everywhere n : In n (gnodes A) -> is_stitch n = true -> In (nid n) (node_ids P).
  Proof. rewrite HP. apply spec_stitch. Qed.

  Lemma closure_seed c l p e1 e2 :
    In c (gnodes A) -> ncls c = CLS_ConnectionPoint -> (delegated d c \/ is_stitch c = true) ->
    In l (gnodes A) -> ncls l = CLS_Link -> In e1 (gedges A) -> joins e1 (nid c) (nid l) -> ecls e1 = REL_connects ->
    In p (gnodes A) -> ncls p = CLS_ConnectionPoint -> In e2 (gedges A) -> joins e2 (nid l) (nid p) -> ecls e2 = REL_connects ->
    nid p <> nid c ->
    In (nid c) (node_ids P) /\ In (nid l) (node_ids P) /\ In (nid p) (node_ids P) /\ In e1 (gedges P) /\ In e2 (gedges P).
  Proof. rewrite HP. apply spec_closure_seed. exact Hw. Qed.

  Lemma closure_service c s o e1 e2 :
    In c (gnodes A) -> ncls c = CLS_ConnectionPoint -> In (nid c) (node_ids P) ->
    In s (gnodes A) -> ncls s = CLS_NetworkService -> In e1 (gedges A) -> joins e1 (nid c) (nid s) -> ecls e1 = REL_connects ->
    In o (gnodes A) -> (ncls o = CLS_NetworkNode \/ ncls o = CLS_Component) ->
    In e2 (gedges A) -> joins e2 (nid s) (nid o) -> ecls e2 = REL_has ->
    In (nid s) (node_ids P) /\ In (nid o) (node_ids P) /\ In e1 (gedges P) /\ In e2 (gedges P).
  Proof. rewrite HP. apply spec_closure_service. exact Hw. Qed.

  (* re-keying the partition's delegations to a graph id: succeeds, and maps `rekeyed` over the nodes *)
  Lemma rekey_only_key gid :
    rewrite_delegations P gid = (mkGraph (map (rekeyed gid) (gnodes P)) (gedges P), None).
  Proof.
    apply rewrite_delegations_ok.
    - apply submodel.
    - pose proof (proj2 (generate_adms_inv A L d P Hw HL Hin)) as Hd. apply c_ids_In in Hd.
      destruct Hd as [n [Hn Hdel]]. destruct (present_exact n Hn Hdel) as [n' [Hn' _]].
      intros E. rewrite E in Hn'. exact Hn'.
    - rewrite HP. intros n. apply adm_spec_single.
  Qed.
  (* only the last key counts: re-keying to g1 and then to g2 is re-keying to g2 *)
  Lemma rekey_twice g1 g2 :
    rewrite_delegations (fst (rewrite_delegations P g1)) g2 = rewrite_delegations P g2.
  Proof.
    apply rewrite_twice.
    - apply submodel.
    - pose proof (proj2 (generate_adms_inv A L d P Hw HL Hin)) as Hd. apply c_ids_In in Hd.
      destruct Hd as [n [Hn Hdel]]. destruct (present_exact n Hn Hdel) as [n' [Hn' _]].
      intros E. rewrite E in Hn'. exact Hn'.
    - rewrite HP. intros n. apply adm_spec_single.
  Qed.

  (* re-keying to the key the entries already carry changes nothing: a second re-keying to the same id, and a
     re-keying of the fresh partition to its own delegation id *)
  Lemma rekey_idempotent gid :
    rewrite_delegations (fst (rewrite_delegations P gid)) gid = (fst (rewrite_delegations P gid), None) /\
    rewrite_delegations P d = (P, None).
  Proof.
    split.
    - rewrite rekey_twice. rewrite rekey_only_key. reflexivity.
    - rewrite rekey_only_key. f_equal. rewrite <- (graph_eta P) at 3. f_equal.
      rewrite <- (map_id (gnodes P)) at 2. apply map_ext_in. intros n Hn. apply rekeyed_same_key.
      intros d' x Hx. apply (no_leak n d' x Hn Hx).
  Qed.
End Transfer.

(* the store: a call that returns has left the source and the bystanders untouched, and the new graphs are the
   partitions.  Nothing is assumed of the caller's delegation_guids (a bad dictionary is rejected, see below);
   uuid_fresh is about the ids uuid4 hands out for the delegation ids the caller did not mention. *)
Lemma store_level st garm A supplied fresh st' dgs :
  sget st garm = Some A -> wfb A = true ->
  uuid_fresh garm supplied fresh (c_ids (catalog_delegations A)) ->
  st_generate_adms st garm supplied fresh = (st', Ok dgs) ->
  exists L, generate_adms A = Ok L /\
    dgs = map (fun dp => (fst dp, gid_for supplied fresh (fst dp))) L /\
    sget st' garm = Some A /\
    (forall d P, In (d, P) L -> sget st' (gid_for supplied fresh d) = Some P) /\
    (forall k, ~ In k (map snd dgs) -> sget st' k = sget st k).
Proof.
  intros HA Hw Hu Hrun.
  destruct (st_generate_adms_ok_inv _ _ _ _ _ _ Hrun) as [Hne Hok]. rewrite (sview_sget _ _ _ HA) in Hne, Hok.
  destruct (st_generate_adms_spec st garm A supplied fresh HA Hw Hne Hok Hu) as [st2 [S1 [S2 [S3 S4]]]].
  rewrite S1 in Hrun. inversion Hrun; subst st' dgs. clear Hrun.
  exists (map (fun d => (d, adm_spec A d)) (c_ids (catalog_delegations A))).
  split; [apply generate_adms_spec; assumption|].
  split; [rewrite map_map; reflexivity|]. split; [exact S2|]. split.
  - intros d P Hi. apply in_map_iff in Hi. destruct Hi as [d' [E Hi]]. inversion E; subst. apply S3. exact Hi.
  - intros k Hk. apply S4. rewrite map_map in Hk. exact Hk.
Qed.

Lemma bad_guids_rejected st garm supplied fresh :
  guids_ok garm supplied (c_ids (catalog_delegations (sview st garm))) = false ->
  st_generate_adms st garm supplied fresh = (st, Err EQuery).
Proof. apply st_generate_adms_rejects. Qed.

(* guids_ok spelled out *)
Lemma guids_ok_iff garm supplied ds :
  guids_ok garm supplied ds = true <->
  ~ In garm (supplied_for supplied ds) /\ NoDup (supplied_for supplied ds).
Proof. unfold guids_ok. rewrite andb_true_iff, negb_true_iff, memb_false, nodupb_NoDup. tauto. Qed.

(* ------------------------------------------------------------------ no memory of earlier calls *)
(* The outcome of generate_adms for the graph stored under garm depends only on that graph (and the supplied /
   generated ids), not on what else is in the store -- in particular not on the partitions left by, or anything
   computed in, an earlier call.  (The implementation keeps self.node_ids on the ARM object; that it re-lists
   the nodes on every call is what the history stream of the correspondence checks.) *)
Lemma outcome_only_current st1 st2 garm supplied fresh :
  sview st1 garm = sview st2 garm ->
  snd (st_generate_adms st1 garm supplied fresh) = snd (st_generate_adms st2 garm supplied fresh).
Proof.
  intros H. unfold st_generate_adms. rewrite H.
  destruct (node_ids (sview st2 garm)); [reflexivity|]. destruct (guids_ok _ _ _); reflexivity.
Qed.

Lemma depends_only_on_current_graph st1 st2 garm A supplied fresh st1' st2' dgs1 dgs2 :
  sget st1 garm = Some A -> sget st2 garm = Some A -> wfb A = true ->
  uuid_fresh garm supplied fresh (c_ids (catalog_delegations A)) ->
  st_generate_adms st1 garm supplied fresh = (st1', Ok dgs1) ->
  st_generate_adms st2 garm supplied fresh = (st2', Ok dgs2) ->
  dgs1 = dgs2 /\ (forall d gid, In (d, gid) dgs1 -> sget st1' gid = sget st2' gid) /\
  sget st1' garm = Some A /\ sget st2' garm = Some A.
Proof.
  intros H1 H2 Hw Hu R1 R2.
  destruct (store_level _ _ _ _ _ _ _ H1 Hw Hu R1) as [L1 [G1 [D1 [S1 [P1 _]]]]].
  destruct (store_level _ _ _ _ _ _ _ H2 Hw Hu R2) as [L2 [G2 [D2 [S2 [P2 _]]]]].
  rewrite G1 in G2. inversion G2; subst L2. split; [congruence|]. split; [|tauto].
  intros d gid Hi. rewrite D1 in Hi. apply in_map_iff in Hi. destruct Hi as [[d' P] [E Hi]]. simpl in E.
  inversion E; subst. rewrite (P1 _ _ Hi), (P2 _ _ Hi). reflexivity.
Qed.

(* in particular a second call on the store left by a first one (new ids) partitions the same graph the same way *)
Lemma repeatable st garm A sup1 fresh1 sup2 fresh2 st' dgs1 st'' dgs2 :
  sget st garm = Some A -> wfb A = true ->
  uuid_fresh garm sup1 fresh1 (c_ids (catalog_delegations A)) ->
  uuid_fresh garm sup2 fresh2 (c_ids (catalog_delegations A)) ->
  st_generate_adms st garm sup1 fresh1 = (st', Ok dgs1) ->
  st_generate_adms st' garm sup2 fresh2 = (st'', Ok dgs2) ->
  exists L, generate_adms A = Ok L /\ sget st'' garm = Some A /\
    (forall d P, In (d, P) L -> sget st' (gid_for sup1 fresh1 d) = Some P /\ sget st'' (gid_for sup2 fresh2 d) = Some P).
Proof.
  intros HA Hw U1 U2 R1 R2.
  destruct (store_level _ _ _ _ _ _ _ HA Hw U1 R1) as [L1 [G1 [_ [S1 [P1 _]]]]].
  destruct (store_level _ _ _ _ _ _ _ S1 Hw U2 R2) as [L2 [G2 [_ [S2 [P2 _]]]]].
  rewrite G1 in G2. inversion G2; subst L2. exists L1. split; [exact G1|]. split; [exact S2|].
  intros d P Hi. split; [apply P1 | apply P2]; exact Hi.
Qed.

(* ------------------------------------------------------------------ re-keying: store-level frame *)
Lemma rekey_frame st gid key k : k <> gid -> sget (fst (st_rewrite_delegations st gid key)) k = sget st k.
Proof.
  intros Hne. unfold st_rewrite_delegations. destruct (sget st gid); [|reflexivity]. simpl.
  rewrite sget_supd. apply N.eqb_neq in Hne. rewrite Hne. reflexivity.
Qed.

Lemma rekey_at st gid key g : sget st gid = Some g ->
  sget (fst (st_rewrite_delegations st gid key)) gid = Some (fst (rewrite_delegations g key)) /\
  snd (st_rewrite_delegations st gid key) = snd (rewrite_delegations g key).
Proof.
  intros H. unfold st_rewrite_delegations. rewrite H. simpl. rewrite sget_supd, N.eqb_refl, H. auto.
Qed.

(* partition, re-key one of the partitions in the store, partition again: the source is still what it was and the
   second partitioning yields the same models *)
Lemma rekey_then_repartition st garm A sup1 fresh1 st1 dgs1 d gid key sup2 fresh2 st3 dgs2 :
  sget st garm = Some A -> wfb A = true ->
  uuid_fresh garm sup1 fresh1 (c_ids (catalog_delegations A)) ->
  uuid_fresh garm sup2 fresh2 (c_ids (catalog_delegations A)) ->
  st_generate_adms st garm sup1 fresh1 = (st1, Ok dgs1) -> In (d, gid) dgs1 ->
  let st2 := fst (st_rewrite_delegations st1 gid key) in
  st_generate_adms st2 garm sup2 fresh2 = (st3, Ok dgs2) ->
  gid <> garm /\ sget st2 garm = Some A /\
  exists L, generate_adms A = Ok L /\ sget st3 garm = Some A /\
    (forall d' P, In (d', P) L -> sget st3 (gid_for sup2 fresh2 d') = Some P).
Proof.
  intros HA Hw U1 U2 R1 Hi st2 R2.
  destruct (st_generate_adms_ok_inv _ _ _ _ _ _ R1) as [Hne Hok]. rewrite (sview_sget _ _ _ HA) in Hne, Hok.
  destruct (gid_for_fresh garm sup1 fresh1 _ Hok U1) as [Hfresh _].
  destruct (store_level _ _ _ _ _ _ _ HA Hw U1 R1) as [L1 [G1 [D1 [S1 _]]]].
  assert (Hg : gid <> garm).
  { intros E. apply Hfresh. rewrite D1 in Hi. apply in_map_iff in Hi. destruct Hi as [[d' P] [E' Hi]]. simpl in E'.
    inversion E'; subst. rewrite (generate_adms_spec A Hw Hne) in G1. inversion G1; subst L1.
    apply in_map_iff in Hi. destruct Hi as [d'' [E'' Hi]]. inversion E''; subst.
    apply in_map_iff. exists d. auto. }
  assert (S2 : sget st2 garm = Some A).
  { unfold st2. rewrite rekey_frame; [exact S1|]. intros E. apply Hg. symmetry. exact E. }
  split; [exact Hg|]. split; [exact S2|].
  destruct (store_level _ _ _ _ _ _ _ S2 Hw U2 R2) as [L2 [G2 [_ [S3 [P3 _]]]]].
  exists L2. auto.
Qed.

(* ------------------------------------------------------------------ several aggregates in one store *)
(* a later partitioning (of the same or of another aggregate of the store) whose graph ids are not in use by an
   earlier result leaves that earlier result exactly what it was: the partitions of ITS aggregate *)
Lemma earlier_result_unchanged st garm1 A1 sup1 fresh1 st1 dgs1 garm2 A2 sup2 fresh2 st2 dgs2 :
  sget st garm1 = Some A1 -> wfb A1 = true -> uuid_fresh garm1 sup1 fresh1 (c_ids (catalog_delegations A1)) ->
  st_generate_adms st garm1 sup1 fresh1 = (st1, Ok dgs1) ->
  sget st1 garm2 = Some A2 -> wfb A2 = true -> uuid_fresh garm2 sup2 fresh2 (c_ids (catalog_delegations A2)) ->
  st_generate_adms st1 garm2 sup2 fresh2 = (st2, Ok dgs2) ->
  (forall gid, In gid (map snd dgs1) -> ~ In gid (map snd dgs2)) ->
  exists L1, generate_adms A1 = Ok L1 /\
    forall d P, In (d, P) L1 -> sget st2 (gid_for sup1 fresh1 d) = Some P.
Proof.
  intros H1 W1 U1 R1 H2 W2 U2 R2 Hdis.
  destruct (store_level _ _ _ _ _ _ _ H1 W1 U1 R1) as [L1 [G1 [D1 [_ [P1 _]]]]].
  destruct (store_level _ _ _ _ _ _ _ H2 W2 U2 R2) as [L2 [_ [_ [_ [_ B2]]]]].
  exists L1. split; [exact G1|]. intros d P Hi. rewrite B2; [apply P1; exact Hi|].
  apply Hdis. rewrite D1, map_map. simpl. apply in_map_iff. exists (d, P). auto.
Qed.

(* ------------------------------------------------------------------ the gap: closure is one hop deep *)
(* a -L1- b -L2- c, only a carries a delegation (capacity, id 1).  b is kept as the peer of a; b's other
   link L2 and its peer c are not. *)
Definition wit_A : graph :=
  mkGraph [mkNode 1 CLS_ConnectionPoint None 0 None (Some [(1, DSingle 1)]);
           mkNode 2 CLS_ConnectionPoint None 0 None None;
           mkNode 3 CLS_ConnectionPoint None 0 None None;
           mkNode 4 CLS_Link None 0 None None;
           mkNode 5 CLS_Link None 0 None None]
          [mkEdge 1 4 REL_connects 0; mkEdge 2 4 REL_connects 0; mkEdge 2 5 REL_connects 0; mkEdge 3 5 REL_connects 0].
Definition wit_P : graph :=
  mkGraph [mkNode 1 CLS_ConnectionPoint None 0 None (Some [(1, DSingle 1)]);
           mkNode 2 CLS_ConnectionPoint None 0 None None;
           mkNode 4 CLS_Link None 0 None None]
          [mkEdge 1 4 REL_connects 0; mkEdge 2 4 REL_connects 0].

Lemma closure_every_kept_interface_refuted :
  exists A L d P c l p e1 e2,
    wfb A = true /\ generate_adms A = Ok L /\ In (d, P) L /\
    In c (gnodes A) /\ ncls c = CLS_ConnectionPoint /\ In (nid c) (node_ids P) /\
    In l (gnodes A) /\ ncls l = CLS_Link /\ In e1 (gedges A) /\ joins e1 (nid c) (nid l) /\ ecls e1 = REL_connects /\
    In p (gnodes A) /\ ncls p = CLS_ConnectionPoint /\ In e2 (gedges A) /\ joins e2 (nid l) (nid p) /\ ecls e2 = REL_connects /\
    nid p <> nid c /\
    ~ In (nid l) (node_ids P).
Proof.
  exists wit_A, [(1, wit_P)], 1, wit_P,
         (mkNode 2 CLS_ConnectionPoint None 0 None None), (mkNode 5 CLS_Link None 0 None None),
         (mkNode 3 CLS_ConnectionPoint None 0 None None), (mkEdge 2 5 REL_connects 0), (mkEdge 3 5 REL_connects 0).
  split; [vm_compute; reflexivity|]. split; [vm_compute; reflexivity|].
  split; [left; reflexivity|].
  split; [simpl; tauto|]. split; [reflexivity|]. split; [simpl; tauto|].
  split; [simpl; tauto|]. split; [reflexivity|]. split; [simpl; tauto|]. split; [left; split; reflexivity|].
  split; [reflexivity|].
  split; [simpl; tauto|]. split; [reflexivity|]. split; [simpl; tauto|]. split; [right; split; reflexivity|].
  split; [reflexivity|]. split; [simpl; discriminate|].
  simpl. intros [H|[H|[H|[]]]]; discriminate.
Qed.

(* ------------------------------------------------------------------ non-vacuity *)
(* two workers' interfaces (1, 2) on services (6, 7) of nodes (8, 9), switch ports 3 and 4 (4 a stitch node) on a
   stitch service (10) of a stitch switch (11), links 12 (1-3) and 13 (2-4); node 1 is label-only for id 1,
   node 2 capacity-only for id 2 plus a pool reference for id 1, node 8 both types for id 1 and id 2. *)
Definition ex_A : graph :=
  mkGraph [mkNode 1 CLS_ConnectionPoint (Some 2) 7 (Some [(1, DSingle 1)]) None;
           mkNode 2 CLS_ConnectionPoint (Some 2) 7 (Some [(1, DPoolRef 1)]) (Some [(2, DSingle 2)]);
           mkNode 3 CLS_ConnectionPoint (Some 2) 7 None None;
           mkNode 4 CLS_ConnectionPoint (Some 1) 7 None None;
           mkNode 6 CLS_NetworkService (Some 2) 7 None None;
           mkNode 7 CLS_NetworkService (Some 2) 7 None None;
           mkNode 8 CLS_NetworkNode (Some 2) 7 (Some [(1, DPoolDef 1 3); (2, DSingle 4)]) (Some [(1, DSingle 5); (2, DSingle 6)]);
           mkNode 9 CLS_Component (Some 2) 7 None None;
           mkNode 10 CLS_NetworkService (Some 1) 7 None None;
           mkNode 11 CLS_NetworkNode (Some 1) 7 None None;
           mkNode 12 CLS_Link (Some 2) 7 None None;
           mkNode 13 CLS_Link (Some 2) 7 None None;
           mkNode 14 CLS_NetworkNode (Some 2) 7 None None]
          [mkEdge 1 6 REL_connects 0; mkEdge 2 7 REL_connects 0; mkEdge 6 8 REL_has 0; mkEdge 7 9 REL_has 0;
           mkEdge 3 10 REL_connects 0; mkEdge 4 10 REL_connects 0; mkEdge 10 11 REL_has 0;
           mkEdge 1 12 REL_connects 0; mkEdge 3 12 REL_connects 0; mkEdge 2 13 REL_connects 0; mkEdge 4 13 REL_connects 0;
           mkEdge 9 14 REL_has 0].

Lemma ex_nonvacuous :
  wfb ex_A = true /\
  (exists L, generate_adms ex_A = Ok L /\ map fst L = [1; 2] /\
     (* both partitions are proper sub-models, and differ *)
     map (fun dp => node_ids (snd dp)) L = [[1; 2; 3; 4; 6; 7; 8; 9; 10; 11; 12; 13]; [2; 4; 7; 8; 9; 10; 11; 13]] /\
     (* node 8 carries exactly its own entries in each *)
     map (fun dp => option_map (fun n => (ldel n, cdel n)) (find_node (snd dp) 8)) L =
       [Some (Some [(1, DPoolDef 1 3)], Some [(1, DSingle 5)]); Some (Some [(2, DSingle 4)], Some [(2, DSingle 6)])] /\
     (* re-keying succeeds on both *)
     map (fun dp => snd (rewrite_delegations (snd dp) 99)) L = [None; None] /\
     (* and raises on the aggregate model itself (node 8 holds two ids) *)
     snd (rewrite_delegations ex_A 99) = Some EQuery) /\
  (* store level next to a bystander graph (50): id 1 gets the supplied graph id 101, id 2 a generated one (102);
     supplying the ARM's own id (100), or one id twice, is rejected and nothing is touched *)
  (exists st', st_generate_adms [(50, wit_A); (100, ex_A)] 100 [(1, 101); (7, 100)] (fun d => 100 + d) = (st', Ok [(1, 101); (2, 102)]) /\
     map fst st' = [50; 100; 101; 102] /\ sget st' 100 = Some ex_A /\ sget st' 50 = Some wit_A /\
     uuid_fresh 100 [(1, 101); (7, 100)] (fun d => 100 + d) (c_ids (catalog_delegations ex_A))) /\
  st_generate_adms [(50, wit_A); (100, ex_A)] 100 [(2, 100)] (fun d => 100 + d) = ([(50, wit_A); (100, ex_A)], Err EQuery) /\
  st_generate_adms [(50, wit_A); (100, ex_A)] 100 [(1, 77); (2, 77)] (fun d => 100 + d) = ([(50, wit_A); (100, ex_A)], Err EQuery).
Proof.
  split; [vm_compute; reflexivity|]. split.
  - eexists. split; [vm_compute; reflexivity|]. vm_compute. repeat split; reflexivity.
  - split; [|split; vm_compute; reflexivity].
    eexists. split; [vm_compute; reflexivity|]. split; [reflexivity|]. split; [reflexivity|]. split; [reflexivity|].
    vm_compute. split; [intros [H|[]]; discriminate|]. split; [constructor; [intros []|constructor]|].
    intros d [<-|[]] [H|[]]. discriminate.
Qed.

(* C07 - add_facility / add_switch: the construct they build (node, its service, the interfaces -- every element with
   its owner edge) is well-formed whenever the call returns normally; and so is every partial structure the building
   steps leave.  (Not proved: the state after the rollback of a rejected later step, i.e. the removal program.) *)
From Coq Require Import String List NArith ZArith Bool Arith Lia.
From FIM Require Import Base.Str Gen.Rules Model.T7Graph Model.T7Ops Model.T7WF Model.T7Steps
     Proofs.T7Tables Proofs.T7WFRefl Proofs.T7Frame Proofs.T7Units Proofs.T7Api Proofs.T7Api2.
Import ListNotations.

(* as `peel`, for hypotheses about a NORMAL return: the failing branch is contradictory *)
Ltac peelok H :=
  apply bind_reads in H; [| solve [auto 8 with reads]];
  let s1 := fresh "s" in let a := fresh "a" in let Hm := fresh "Hm" in let Hg := fresh "Hg" in
  let e := fresh "e" in let Hr := fresh "Hr" in
  destruct H as [[s1 [a [Hm [Hg H]]]] | [e [Hr Hg]]]; [| discriminate Hr];
  first [ apply getg_val in Hm; destruct Hm as [-> ->]; clear Hg
        | apply guard_ok_val' in Hm; destruct Hm as [-> Hm]; clear Hg
        | rewrite <- Hg in *; clear Hg ].

(* Interface(NEW), normal return: the graph is the unit add_owned *)
Lemma api_new_interface_post sub name iid parent itype lab s s' id :
  WF (sg s) -> type_allowed KCP itype = true -> str_eqb itype sServicePort = false -> str_eqb itype sSubInterface = false ->
  cls_is (sg s) parent KNS = true -> sibling_free (sg s) parent Connects KCP (Some name) = true ->
  new_interface sub name iid parent itype lab s = (s', Ok id) ->
  owned_ok (sg s) (mk id KCP (Some itype) name lab) parent Connects = true /\
  sg s' = add_owned (sg s) (mk id KCP (Some itype) name lab) parent Connects.
Proof.
  intros W T NSP NSUB Hp SF H. unfold new_interface in H.
  repeat (apply bind_reads in H; [| solve [auto 8 with reads]];
          let s1 := fresh "s" in let a := fresh "a" in let Hm := fresh "Hm" in let Hg := fresh "Hg" in
          let e := fresh "e" in let Hr := fresh "Hr" in
          destruct H as [[s1 [a [Hm [Hg H]]]] | [e [Hr _]]]; [| discriminate Hr]; rewrite <- Hg in *; clear Hg).
  apply bind_inv in H as [[s4 [[] [H1 H2]]]|[e [_ Hr]]]; [|discriminate Hr].
  apply ret_inv in H2 as [-> H2]. inversion H2; subst id. unfold add_interface_sliver in H1.
  assert (OK : has_id (sg s2) (nid (mk a0 KCP (Some itype) name lab)) = false ->
               owned_ok (sg s2) (mk a0 KCP (Some itype) name lab) parent Connects = true).
  { intro Hf. unfold owned_ok, fresh, new_node_ok, owner_shape_ok, is_type.
    assert (V : vocab_ok (mk a0 KCP (Some itype) name lab) = true) by exact T. rewrite V, Hf. simpl.
    rewrite NSP, NSUB, SF. simpl. rewrite Hp. reflexivity. }
  assert (Hf : has_id (sg s2) (nid (mk a0 KCP (Some itype) name lab)) = false).
  { apply bind_inv in H1 as [[sx [[] [Ha _]]]|[e [_ Hx]]]; [|discriminate].
    apply add_node_inv in Ha as [[_ [Hf _]]|[e [He _]]]; [exact Hf | discriminate]. }
  split; [exact (OK Hf)|]. exact (proj2 (api_add_owned _ _ _ _ _ _ W OK H1) eq_refl).
Qed.

(* the loop of add_facility / add_switch over one service handle whose cached names grow with every interface *)
Definition iface_spec_ok (x : str * option str * str) : Prop :=
  type_allowed KCP (snd x) = true /\ str_eqb (snd x) sServicePort = false /\ str_eqb (snd x) sSubInterface = false.

Lemma add_ifaces_loop sub sid : forall l cache s s' r,
  WF (sg s) -> cls_is (sg s) sid KNS = true -> Forall iface_spec_ok l ->
  (forall y, In y (first_nb (sg s) sid Connects KCP) -> In (name_of (sg s) y) cache) ->
  add_ifaces sub sid cache l s = (s', r) -> WF (sg s').
Proof.
  induction l as [|[[name iid] itype] l IH]; intros cache s s' r W Hs Hl Hc H; simpl in H.
  - apply ret_inv in H as [-> _]. exact W.
  - inversion Hl as [|? ? [T [NSP NSUB]] Hl']; subst. simpl in T, NSP, NSUB.
    apply bind_inv in H as [[s1 [id [H1 H2]]]|[e [H1 _]]].
    + unfold ns_add_interface in H1. apply bind_inv in H1 as [[s0 [[] [Hgd H1]]]|[e [_ Hr]]]; [|discriminate Hr].
      apply guard_ok_val in Hgd as [-> Hgd]. apply negb_true_iff in Hgd.
      assert (SF : sibling_free (sg s) sid Connects KCP (Some name) = true).
      { unfold sibling_free. apply forallb_forall. intros y Hy. apply negb_true_iff.
        destruct (ostr_eqb (name_of (sg s) y) (Some name)) eqn:E; [|reflexivity].
        apply ostr_eqb_eq in E. exfalso. specialize (Hc y Hy). rewrite E in Hc.
        assert (X : existsb (fun o => ostr_eqb o (Some name)) cache = true)
          by (apply existsb_exists; exists (Some name); split; [exact Hc | apply ostr_eqb_eq; reflexivity]).
        congruence. }
      destruct (api_new_interface_post _ _ _ _ _ _ _ _ _ W T NSP NSUB Hs SF H1) as [OK G1].
      assert (W1 : WF (sg s1)) by (rewrite G1; apply WF_add_owned; assumption).
      pose proof (aw_fresh _ _ _ _ OK) as Hf. simpl in Hf.
      set (nd := mk id KCP (Some itype) name true) in *.
      assert (Hne : sid <> id) by (intro E; subst id; rewrite (cls_is_has_id _ _ _ Hs) in Hf; discriminate).
      apply (IH (cache ++ [Some name]) s1 s' r W1); [| exact Hl' | | exact H2].
      * rewrite G1. rewrite (ao_cls_old (sg s) nd sid Connects sid KNS Hne). exact Hs.
      * intros y Hy. rewrite G1 in Hy. rewrite (ao_first_nb_a _ _ _ _ W OK) in Hy. simpl in Hy.
        apply in_app_or in Hy as [Hy|[Hy|[]]].
        -- assert (Hyn : y <> id) by (intro E; subst y; rewrite (first_nb_has_id _ _ _ _ _ (wf_edge_ends _ W) Hy) in Hf; discriminate).
           rewrite G1, (ao_name_old (sg s) nd sid Connects y Hyn). apply in_or_app. left. apply Hc. exact Hy.
        -- subst y. rewrite G1. change id with (nid nd). rewrite (name_of_new _ _ _ _ OK).
           apply in_or_app. right. left. reflexivity.
    + unfold ns_add_interface in H1. apply bind_inv in H1 as [[s0 [[] [Hgd H1]]]|[e' [Hgd _]]].
      * apply guard_ok_val in Hgd as [-> Hgd]. apply negb_true_iff in Hgd.
        assert (SF : sibling_free (sg s) sid Connects KCP (Some name) = true).
        { unfold sibling_free. apply forallb_forall. intros y Hy. apply negb_true_iff.
          destruct (ostr_eqb (name_of (sg s) y) (Some name)) eqn:E; [|reflexivity].
          apply ostr_eqb_eq in E. exfalso. specialize (Hc y Hy). rewrite E in Hc.
          assert (X : existsb (fun o => ostr_eqb o (Some name)) cache = true)
            by (apply existsb_exists; exists (Some name); split; [exact Hc | apply ostr_eqb_eq; reflexivity]).
          congruence. }
        eapply api_new_interface; [exact W | exact T | exact NSP | | exact SF | exact H1]. rewrite NSUB. exact Hs.
      * apply guard_inv in Hgd as [-> _]. exact W.
Qed.

(* Node.add_network_service, normal return *)
Lemma api_node_add_ns_post n name sid nstype s s' id :
  WF (sg s) -> type_allowed KNS nstype = true -> cls_is (sg s) n KNode = true ->
  node_add_ns n name sid nstype s = (s', Ok id) ->
  WF (sg s') /\ cls_is (sg s') id KNS = true /\ first_nb (sg s') id Connects KCP = [].
Proof.
  intros W T Hn H. pose proof (api_node_add_ns _ _ _ _ _ _ _ W T H) as W'. split; [exact W'|].
  unfold node_add_ns in H.
  apply bind_reads in H; [| unfold nss_of; solve [auto 8 with reads]].
  destruct H as [[s1 [ss [Hm [Hg H]]]] | [e [Hr _]]]; [|discriminate Hr].
  unfold nss_of in Hm. apply bind_inv in Hm as [[s2 [[] [Hc Hq]]]|[e [_ Hx]]]; [|discriminate].
  apply check_class_val in Hc as [-> _]. apply q_first_nb_val in Hq as [-> [-> _]]. clear Hg.
  peelok H. peelok H. rename Hm into Hm0.
  unfold new_service in H.
  peelok H. peelok H. peelok H.
  rewrite bind_assoc in H.
  apply bind_inv in H as [[s9 [[] [H1 H2]]]|[e [_ Hr]]]; [|discriminate Hr].
  apply ret_inv in H2 as [-> H2]. inversion H2; subst id.
  match type of H1 with bind (add_node ?nd) _ _ = _ => set (nsn := nd) in * end.
  match type of W with WF (sg ?sc) => rename sc into scur end.
  assert (Hf : has_id (sg scur) (nid nsn) = false).
  { apply bind_inv in H1 as [[sy [[] [Ha _]]]|[e [_ Hx]]]; [|discriminate].
    apply add_node_inv in Ha as [[_ [Hf _]]|[e [He _]]]; [exact Hf | discriminate]. }
  assert (OK : owned_ok (sg scur) nsn n Has = true).
  { unfold owned_ok, fresh, new_node_ok, owner_shape_ok. assert (V : vocab_ok nsn = true) by exact T. rewrite V, Hf. simpl.
    rewrite Hn. simpl. eapply name_in_sibling; [reflexivity | exact Hm0]. }
  pose proof (proj2 (api_add_owned _ _ _ _ _ _ W (fun _ => OK) H1) eq_refl) as G.
  pose proof (ao_cls_new _ _ _ _ OK KNS) as E1. pose proof (ao_nbrs_x _ _ _ _ W OK) as E2. simpl in E1, E2.
  rewrite G. split; [exact E1|].
  unfold first_nb. rewrite E2. reflexivity.
Qed.

(* Topology.add_node, normal return *)
Lemma api_add_node_post sub name nid ntype s s' id :
  WF (sg s) -> type_allowed KNode ntype = true ->
  t_add_node sub name nid ntype s = (s', Ok id) ->
  WF (sg s') /\ cls_is (sg s') id KNode = true /\ nbrs (sg s') id = [].
Proof.
  intros W T H. pose proof (api_add_node _ _ _ _ _ _ _ W T H) as W'. split; [exact W'|].
  unfold t_add_node in H.
  peelok H. peelok H. peelok H. peelok H. peelok H. peelok H. peelok H.
  apply bind_inv in H as [[s6 [[] [H1 H2]]]|[e [_ Hr]]]; [|discriminate Hr].
  apply add_node_inv in H1 as [[_ [Hf Hg']]|[e [He _]]]; [|discriminate].
  apply ret_inv in H2 as [-> H2]. inversion H2; subst id. rewrite Hg'. split.
  - unfold cls_is, cls_of. pose proof (find_nodes_add_node_same _ _ Hf) as Fn. simpl in Fn. rewrite Fn. reflexivity.
  - rewrite nbrs_add_node. simpl in Hf. apply nbrs_fresh_nil; [apply (wf_edge_ends _ W) | exact Hf].
Qed.

Lemma try_any_ok {A} (m : M A) h s s' a : try_any m h s = (s', Ok a) -> (forall e sx sy b, h e sx = (sy, Ok b) -> False) -> m s = (s', Ok a).
Proof.
  unfold try_any. destruct (m s) as [s1 [x|e]]; intros H Hh; [exact H|]. exfalso. eapply Hh; eauto.
Qed.
Lemma rollback_never_ok n e sx sy (b : unit) : (remove_network_node n ;;; raise e) sx = (sy, Ok b) -> False.
Proof.
  intro H. apply bind_inv in H as [[s1 [u [_ H]]]|[e' [_ H]]]; [|discriminate H].
  apply raise_inv in H as [_ H]. discriminate H.
Qed.

Lemma facility_types_ok : type_allowed KNode sFacility = true /\ type_allowed KNode sSwitch = true /\
  type_allowed KNS sVLAN = true /\ type_allowed KNS sP4 = true /\
  iface_spec_ok (S "", None, sFacilityPort) /\ iface_spec_ok (S "", None, sDedicatedPort).
Proof. vm_compute. repeat split; reflexivity. Qed.

(* Topology.add_facility: when it returns normally (and when its first step, add_node, is refused) *)
Theorem api_add_facility_returns sub name nid ifnames s s' :
  WF (sg s) -> t_add_facility sub name nid ifnames s = (s', Ok tt) -> WF (sg s').
Proof.
  intros W H. destruct facility_types_ok as [T1 [_ [T3 [_ [[I1 [I2 I3]] _]]]]]. unfold t_add_facility in H.
  apply bind_inv in H as [[s1 [n [H1 H2]]]|[e [_ Hr]]]; [|discriminate Hr].
  destruct (api_add_node_post _ _ _ _ _ _ _ W T1 H1) as [W1 [Cn _]].
  apply try_any_ok in H2; [| intros; eapply rollback_never_ok; eauto].
  apply bind_inv in H2 as [[s2 [sv [H3 H4]]]|[e [_ Hr]]]; [|discriminate Hr].
  destruct (api_node_add_ns_post _ _ _ _ _ _ _ W1 T3 Cn H3) as [W2 [Cs Es]].
  assert (HC : forall y, In y (first_nb (sg s2) sv Connects KCP) -> In (name_of (sg s2) y) []) by (rewrite Es; intros y []).
  assert (SP : forall x : str * option str, iface_spec_ok (fst x, snd x, sFacilityPort)) by (intro; repeat split; assumption).
  destruct ifnames as [[|x l]|];
    (eapply (add_ifaces_loop sub sv); [exact W2 | exact Cs | | exact HC | exact H4]).
  - constructor; [repeat split; assumption | constructor].
  - apply Forall_forall. intros z Hz. apply in_map_iff in Hz as [kx [E _]]. subst z. repeat split; assumption.
  - constructor; [repeat split; assumption | constructor].
Qed.

Theorem api_add_switch_returns sub name nid nports s s' :
  WF (sg s) -> t_add_switch sub name nid nports s = (s', Ok tt) -> WF (sg s').
Proof.
  intros W H. destruct facility_types_ok as [_ [T2 [_ [T4 [_ [I1 [I2 I3]]]]]]]. unfold t_add_switch in H.
  apply bind_inv in H as [[s1 [n [H1 H2]]]|[e [_ Hr]]]; [|discriminate Hr].
  destruct (api_add_node_post _ _ _ _ _ _ _ W T2 H1) as [W1 [Cn _]].
  apply try_any_ok in H2; [| intros; eapply rollback_never_ok; eauto].
  apply bind_inv in H2 as [[s2 [sv [H3 H4]]]|[e [_ Hr]]]; [|discriminate Hr].
  destruct (api_node_add_ns_post _ _ _ _ _ _ _ W1 T4 Cn H3) as [W2 [Cs Es]].
  assert (HC : forall y, In y (first_nb (sg s2) sv Connects KCP) -> In (name_of (sg s2) y) []) by (rewrite Es; intros y []).
  eapply (add_ifaces_loop sub sv); [exact W2 | exact Cs | | exact HC | exact H4].
  apply Forall_forall. intros z Hz. apply in_map_iff in Hz as [k [E _]]. subst z. repeat split; assumption.
Qed.

(* ... and a refusal of the first step leaves the model as it was *)
Theorem api_add_facility_switch_first_step sub name nid ntype s s' e :
  WF (sg s) -> type_allowed KNode ntype = true -> t_add_node sub name nid ntype s = (s', Err e) -> WF (sg s').
Proof. intros W T H. eapply api_add_node; eauto. Qed.

Theorem step_facility_switch_returns sub fl g o drawn hint g' :
  WF g -> (match o with OAddFacility _ _ _ | OAddSwitch _ _ _ => True | _ => False end) ->
  step sub fl g o drawn hint = (g', None) -> WF g'.
Proof.
  intros W Ho H. unfold step in H.
  destruct (run_op sub fl hint o (mkSt g drawn)) as [s' [u|e]] eqn:R; [|discriminate H].
  destruct u. assert (G : g' = sg s') by (destruct (sdr s'); inversion H; reflexivity). subst g'.
  destruct o; try contradiction; simpl in R.
  - eapply (api_add_facility_returns sub name nid ifnames (mkSt g drawn)); eauto.
  - eapply (api_add_switch_returns sub name nid nports (mkSt g drawn)); eauto.
Qed.

(* C14 - refinement, basics: looking a node up by (GraphID, NodeID) in the store's node list; the abstraction of
   a graph's nodes read through that lookup. *)
From Coq Require Import List NArith Bool Lia.
From FIM Require Import Model.Cbm14Store Model.Cbm14Spec Model.Cbm14Abs Proofs.Cbm14Assoc Proofs.Cbm14Frame.
Import ListNotations.
Open Scope N_scope.

Definition at_ (g k : N) (ns : list node) : option node :=
  find (fun n => (n_gid n =? g) && (n_nid n =? k)) ns.
Definition ukeys (ns : list node) : Prop := NoDup (map key ns).
(* the node-list invariant *)
Definition J (nx : N) (ns : list node) : Prop := uniq ns /\ below nx ns /\ ukeys ns.

Lemma find_node_at g k st : find_node g k st = at_ g k (s_nodes st).
Proof. reflexivity. Qed.

Lemma at_In g k ns n : at_ g k ns = Some n -> In n ns /\ n_gid n = g /\ n_nid n = k.
Proof.
  unfold at_. intro H. apply find_some in H as [H1 H2]. apply andb_true_iff in H2 as [A B].
  apply N.eqb_eq in A, B. auto.
Qed.

Lemma at_none g k ns : (forall n, In n ns -> n_gid n = g -> n_nid n = k -> False) -> at_ g k ns = None.
Proof.
  unfold at_. induction ns as [|m r IH]; simpl; auto. intro H.
  destruct ((n_gid m =? g) && (n_nid m =? k)) eqn:E.
  - apply andb_true_iff in E as [A B]. apply N.eqb_eq in A, B. exfalso. eapply H; eauto.
  - apply IH. intros n Hn. apply H. auto.
Qed.

Lemma at_none_inv g k ns n : at_ g k ns = None -> In n ns -> n_gid n = g -> n_nid n = k -> False.
Proof.
  unfold at_. intros H Hin A B. apply (find_none _ _ H) in Hin. subst. rewrite !N.eqb_refl in Hin. discriminate.
Qed.

Lemma at_uniq g k ns n : ukeys ns -> In n ns -> n_gid n = g -> n_nid n = k -> at_ g k ns = Some n.
Proof.
  unfold at_, ukeys. induction ns as [|m r IH]; simpl; [tauto|]. intros ND [E|Hin] A B.
  - subst. rewrite !N.eqb_refl. reflexivity.
  - inversion ND; subst. destruct ((n_gid m =? n_gid n) && (n_nid m =? n_nid n)) eqn:E.
    + apply andb_true_iff in E as [X Y]. apply N.eqb_eq in X, Y. exfalso. apply H1.
      replace (key m) with (key n) by (unfold key; congruence). apply in_map. exact Hin.
    + apply IH; auto.
Qed.

Lemma at_app g k a b : at_ g k (a ++ b) = match at_ g k a with Some n => Some n | None => at_ g k b end.
Proof. unfold at_. induction a as [|m r IH]; simpl; auto. destruct ((n_gid m =? g) && (n_nid m =? k)); auto. Qed.

Lemma at_gnodes g k ns : at_ g k ns = find (fun n => n_nid n =? k) (gnodes g ns).
Proof.
  unfold at_, gnodes. induction ns as [|m r IH]; simpl; auto.
  destruct (n_gid m =? g); simpl; auto. destruct (n_nid m =? k); auto.
Qed.

Lemma at_other_gid g k ns : (forall n, In n ns -> n_gid n <> g) -> at_ g k ns = None.
Proof. intro H. apply at_none. intros n Hn E _. apply (H n Hn E). Qed.

(* the abstraction read through the lookup *)
Lemma getn_abs g st k : getn k (abs_nodes g st) = option_map absn (at_ g k (s_nodes st)).
Proof.
  unfold abs_nodes, of_gid, at_, getn. induction (s_nodes st) as [|m r IH]; simpl; auto.
  destruct (n_gid m =? g); simpl; auto. rewrite N.eqb_sym. destruct (n_nid m =? k); auto.
Qed.

Lemma getn_abs_adm g st k : getn k (abs_adm_nodes g st) = option_map absa (at_ g k (s_nodes st)).
Proof.
  unfold abs_adm_nodes, of_gid, at_, getn. induction (s_nodes st) as [|m r IH]; simpl; auto.
  destruct (n_gid m =? g); simpl; auto. rewrite N.eqb_sym. destruct (n_nid m =? k); auto.
Qed.

Lemma keys_abs g st : map fst (abs_nodes g st) = map n_nid (of_gid g st).
Proof. unfold abs_nodes. rewrite map_map. reflexivity. Qed.

Lemma ukeys_nids g ns : ukeys ns -> NoDup (map n_nid (gnodes g ns)).
Proof.
  unfold ukeys, gnodes. induction ns as [|m r IH]; simpl; intro ND; [constructor|].
  inversion ND; subst. destruct (n_gid m =? g) eqn:E; simpl; auto.
  constructor; auto. intro X. apply H1. apply in_map_iff in X as (n & En & Hn).
  apply filter_In in Hn as [Hn Hg]. apply N.eqb_eq in E, Hg.
  replace (key m) with (key n) by (unfold key; congruence). apply in_map. exact Hn.
Qed.

(* decidable invariant => propositional *)
Lemma nodupK_sound l : nodupK l = true -> NoDup l.
Proof.
  induction l as [|x r IH]; simpl; intro H; constructor.
  - apply andb_true_iff in H as [H _]. apply negb_true_iff in H. intro X.
    assert (existsb (fun y => (fst x =? fst y) && (snd x =? snd y)) r = true); [|congruence].
    apply existsb_exists. exists x. split; auto. rewrite !N.eqb_refl. reflexivity.
  - apply IH. apply andb_true_iff in H. tauto.
Qed.

Definition cbm_wf (cbm : N) (ns : list node) : Prop := forall n, In n ns -> n_gid n = cbm -> wf_cnode n = true.

Lemma rgoodb_sound cbm st :
  rgoodb cbm st = true -> J (s_next st) (s_nodes st) /\ cbm_wf cbm (s_nodes st).
Proof.
  unfold rgoodb. rewrite !andb_true_iff, !forallb_forall. intros [[[H1 H2] H3] H4]. split; [split; [|split]|].
  - apply nodupN_sound. exact H1.
  - intros n Hn. apply N.ltb_lt. auto.
  - apply nodupK_sound. exact H3.
  - intros n Hn Hg. apply H4. unfold of_gid. apply filter_In. split; auto. apply N.eqb_eq. exact Hg.
Qed.

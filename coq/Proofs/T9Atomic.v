(* C09 - the service constructor's rollback: whenever Topology.add_network_service raises - whatever the
   exception, whichever interface of the list is the rejected one - the graph is what it was.  Also the
   composite builders with a rollback: add_facility, add_switch (when it has one), peer. *)
From Coq Require Import List NArith Bool Lia.
From FIM Require Import Base.Str Gen.T9Names Model.T9Graph Model.T9Ops Proofs.T9Monad Proofs.T9Simple Proofs.T9Ext
     Proofs.T9Peers Proofs.T9Rollback Proofs.T9Connect.
Import ListNotations.
Open Scope N_scope.

(* ---------------------------------------------------------------- hypotheses of the theorem, as booleans *)
(* every interface handle names a ConnectionPoint of the graph, or nothing of the graph (a stale handle) *)
Definition ifaces_typed (g : graph) (ifs : list iface_h) : bool :=
  forallb (fun i => match cls_of g (ih_id i) with None => true | Some c => c =? cCP end) ifs.
(* ids the call may create (the caller-supplied service id, the uuid supply) are not interface ids *)
Definition potential_ids (node_id : option N) (fresh : list N) : list N :=
  match node_id with Some x => [x] | None => [] end ++ fresh.
Definition supply_apart (node_id : option N) (fresh : list N) (ifs : list iface_h) : bool :=
  forallb (fun i => negb (existsb (N.eqb (ih_id i)) (potential_ids node_id fresh))) ifs.

Lemma cls_of_In g y : In y (ids g) -> exists c, cls_of g y = Some c.
Proof.
  intro H. unfold cls_of, find_nodes. apply in_map_iff in H as [n [He Hin]].
  destruct (filter (fun n0 => nid n0 =? y) (gnodes g)) as [|m l] eqn:E; [|eauto].
  exfalso. assert (In n (filter (fun n0 => nid n0 =? y) (gnodes g))).
  { apply filter_In; split; auto. apply N.eqb_eq; auto. }
  rewrite E in H; contradiction.
Qed.

Lemma ifaces_typed_prop g ifs i : ifaces_typed g ifs = true -> In i ifs -> iface_typed g i.
Proof.
  unfold ifaces_typed. rewrite forallb_forall. intros H Hin Hids. specialize (H i Hin).
  destruct (cls_of_In g _ Hids) as [c Hc]. unfold has_cls. rewrite Hc in *. exact H.
Qed.

Lemma supply_apart_prop node_id fresh ifs i :
  supply_apart node_id fresh ifs = true -> In i ifs -> ~ In (ih_id i) (potential_ids node_id fresh).
Proof.
  unfold supply_apart. rewrite forallb_forall. intros H Hin Hp. specialize (H i Hin).
  apply negb_true_iff in H.
  assert (existsb (N.eqb (ih_id i)) (potential_ids node_id fresh) = true).
  { apply existsb_exists. exists (ih_id i). split; auto. apply N.eqb_refl. }
  congruence.
Qed.

(* ---------------------------------------------------------------- the loop *)
Lemma handler_never_ok (done : list iface_h) ns e s s' u : rollback_service ns done e s <> (s', Ok u).
Proof.
  unfold rollback_service, bind. destruct (for_each done disconnect_interface s) as [s1 [a|e1]]; [|discriminate].
  destruct (remove_ns_with_cps_and_links ns s1) as [s2 [b|e2]]; discriminate.
Qed.

Lemma connect_all_rollback fl g nsn ty (U : list N) :
  closed g -> NoDup (ids g) ->
  forall todo cs s s' e,
    good g nsn cs -> sg s = ext g nsn cs -> incl (new_ids nsn cs) U -> incl (sfresh s) U ->
    (forall i, In i todo -> ~ In (ih_id i) U /\ iface_typed g i) ->
    connect_all fl (nid nsn) ty todo (map k_if cs) s = (s', Err e) -> sg s' = g.
Proof.
  intros Hcl Hndg. induction todo as [|i r IH]; intros cs s s' e G Hsg HU Hfr Hifs H.
  - simpl in H. discriminate.
  - simpl in H. unfold bind at 1 in H.
    set (B := guardrails ty i ;;; connect_interface fl (nid nsn) i) in *.
    unfold catch_any in H.
    destruct (B s) as [s0 [u|e0]] eqn:EB.
    + (* connected: go on with one more connection *)
      unfold B in EB. apply bind_ok in EB as (s1 & u1 & Hg & Hc).
      apply guardrails_ok in Hg as ->.
      destruct (Hifs i (or_introl eq_refl)) as [HiU Hty].
      destruct u.
      destruct (connect_ok_shape fl g nsn cs U i s s0 Hcl Hndg G Hsg HU Hfr HiU Hty Hc)
        as (c & Hci & Hsg' & G' & HU' & Hfr').
      apply (IH (cs ++ [c]) s0 s' e); auto.
      * intros j Hj. apply Hifs. right; auto.
      * rewrite map_app. simpl. rewrite Hci. exact H.
    + (* the body raised: the handler runs in the state the body left: the loop's state, possibly with
         one ServicePort of a half-finished connect *)
      destruct (rollback_service (nid nsn) (map k_if cs) e0 s0) as [s2 [u|e2]] eqn:EH.
      { exfalso. eapply handler_never_ok; eauto. }
      inversion H; subst s2 e2. clear H.
      destruct s0 as [g0 fr0].
      destruct (step_fail_shape fl g nsn cs ty i s (mkSt g0 fr0) e0 Hcl G Hsg EB) as [Hs0|(o & Hs0 & Hnew & Hcls)];
        simpl sg in Hs0; subst g0.
      * rewrite <- (extO_nil g nsn cs) in EH.
        rewrite (rollback_restores g nsn cs [] fr0 e0 Hcl) in EH; [inversion EH; reflexivity|].
        constructor; auto; [rewrite app_nil_r; apply (gd_nodup _ _ _ G)|intros o' []].
      * assert (HE : mkGraph (gnodes (ext g nsn cs) ++ [o])
                             (gedges (ext g nsn cs) ++ [mkEdge (nid nsn) (nid o) rConnects]) = extO g nsn cs [o]).
        { unfold extO, ext, tail_nodes, tail_edges. cbn [gnodes gedges]. rewrite <- !app_assoc. reflexivity. }
        rewrite HE in EH.
        rewrite (rollback_restores g nsn cs [o] fr0 e0 Hcl) in EH; [inversion EH; reflexivity|].
        constructor; auto.
        -- cbn [map]. rewrite ids_ext in Hnew. rewrite app_assoc. apply NoDup_snoc; [apply (gd_nodup _ _ _ G)|exact Hnew].
        -- intros o' [<-|[]]. exact Hcls.
Qed.

(* ---------------------------------------------------------------- Topology.add_network_service *)
Lemma service_rollback fl name node_id nstype ifs pure g fresh s' e :
  wf_graph g = true -> ifaces_typed g ifs = true -> supply_apart node_id fresh ifs = true ->
  op_add_service fl name node_id nstype ifs pure (mkSt g fresh) = (s', Err e) ->
  sg s' = g.
Proof.
  intros Hwf Hty Hsup H.
  assert (Hcl := wf_closed g Hwf). assert (Hnd := wf_nodup g Hwf).
  unfold op_add_service, new_service in H.
  apply bind_err_cases in H as [H|(s0 & id & Eid & H)]; [exact (no_mut_id_or_draw _ _ _ _ H)|].
  assert (Hs0 : sg s0 = g /\ In id (potential_ids node_id fresh) /\ incl (sfresh s0) (potential_ids node_id fresh)).
  { unfold potential_ids. destruct node_id as [x|]; simpl in Eid.
    - unfold ret in Eid. inversion Eid; subst. simpl. split; auto. split; auto. intros y Hy; right; auto.
    - apply draw_ok in Eid as (r & Hr & ->). simpl in *. subst fresh. split; auto. split; [left; auto|].
      intros y Hy; right; auto. }
  destruct Hs0 as (Hg0 & HidU & HfrU).
  destruct nstype as [ty|]; [|inversion H; subst s'; exact Hg0].
  apply bind_err_cases in H as [H|(s1 & u1 & E1 & H)]; [rewrite <- Hg0; exact (no_mut_guard _ _ _ _ _ H)|].
  apply guard_ok in E1 as [-> _].
  apply bind_err_cases in H as [H|(s1 & u2 & E2 & H)]; [rewrite <- Hg0; exact (no_mut_opt_raise _ _ _ _ H)|].
  apply opt_raise_ok in E2 as ->.
  apply bind_err_cases in H as [H|(s1 & u3 & E3 & H)].
  { rewrite <- Hg0.
    refine ((_ : no_mut (taken <- ask (fun g0 => Ok (name_taken g0 cNS name));; guard (negb taken) EQuery)) _ _ _ H).
    nm. }
  apply bind_ok in E3 as (sx & tk & Ea & Eg). apply ask_ok in Ea as [-> _]. apply guard_ok in Eg as [-> _].
  set (nsn := mkNode id cNS name ty 0) in *.
  apply bind_err_cases in H as [H|(s1 & u4 & E4 & H)].
  { rewrite <- Hg0. exact (atomic_mutate (fun _ => True) _ _ _ _ I H). }
  apply mutate_ok in E4 as (g1 & Hg1 & ->). rewrite Hg0 in Hg1. apply add_node_result in Hg1 as [Hnew ->].
  simpl nid in Hnew.
  apply bind_err_cases in H as [H|(s1 & u5 & E5 & H)]; [discriminate|].
  apply ret_ok in E5 as [-> _].
  apply bind_err_cases in H as [H|(s1 & u6 & E6 & H)]; [|unfold ret in H; discriminate].
  apply (connect_all_rollback fl g nsn ty (potential_ids node_id fresh) Hcl Hnd ifs []
           (mkSt (mkGraph (gnodes g ++ [nsn]) (gedges g)) (sfresh s0)) s' e).
  - constructor.
    + unfold new_ids, conn_ids; simpl. apply NoDup_snoc; auto. apply has_node_false_In; auto.
    + reflexivity.
    + intros c Hc; destruct Hc.
    + constructor.
    + intros c Hc; destruct Hc.
  - unfold ext; simpl. rewrite app_nil_r. reflexivity.
  - unfold new_ids; simpl. intros y [<-|[]]. exact HidU.
  - exact HfrU.
  - intros i Hi. split; [eapply supply_apart_prop; eauto | eapply ifaces_typed_prop; eauto].
  - exact H.
Qed.

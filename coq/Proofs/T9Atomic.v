(* C09 - the service constructor's rollback: whenever Topology.add_network_service raises
   TopologyException - whichever interface of the list is the rejected one - the graph is what it was. *)
From Coq Require Import List NArith Bool Lia.
From FIM Require Import Base.Str Gen.T9Names Model.T9Graph Model.T9Ops Proofs.T9Monad Proofs.T9Simple Proofs.T9Ext
     Proofs.T9Peers Proofs.T9Rollback Proofs.T9Connect Proofs.T9CompFresh.
Import ListNotations.
Open Scope N_scope.

(* ---------------------------------------------------------------- hypotheses of the theorem, as booleans *)
(* every interface handle names a ConnectionPoint of the graph, or nothing of the graph (a stale handle) *)
Definition ifaces_typed (g : graph) (ifs : list iface_h) : bool :=
  forallb (fun i => match cls_of g (ih_id i) with None => true | Some c => c =? cCP end) ifs.
(* ids the call may create (the caller-supplied service id, the uuid supply) are not interface ids *)
Definition potential_ids (node_id : option N) (fresh : list N) : list N :=
  match node_id with Some x => [x] | None => [] end ++ fresh.
Definition supply_apart (node_id : option N) (fresh : list N) (ifs : list iface_h) : bool :=
  forallb (fun i => negb (existsb (N.eqb (ih_id i)) (potential_ids node_id fresh))) ifs.

Lemma cls_of_In g y : In y (ids g) -> exists c, cls_of g y = Some c.
Proof.
  intro H. unfold cls_of, find_nodes. apply in_map_iff in H as [n [He Hin]].
  destruct (filter (fun n0 => nid n0 =? y) (gnodes g)) as [|m l] eqn:E; [|eauto].
  exfalso. assert (In n (filter (fun n0 => nid n0 =? y) (gnodes g))).
  { apply filter_In; split; auto. apply N.eqb_eq; auto. }
  rewrite E in H; contradiction.
Qed.

Lemma ifaces_typed_prop g ifs i : ifaces_typed g ifs = true -> In i ifs -> iface_typed g i.
Proof.
  unfold ifaces_typed. rewrite forallb_forall. intros H Hin Hids. specialize (H i Hin).
  destruct (cls_of_In g _ Hids) as [c Hc]. unfold has_cls. rewrite Hc in *. exact H.
Qed.

Lemma supply_apart_prop node_id fresh ifs i :
  supply_apart node_id fresh ifs = true -> In i ifs -> ~ In (ih_id i) (potential_ids node_id fresh).
Proof.
  unfold supply_apart. rewrite forallb_forall. intros H Hin Hp. specialize (H i Hin).
  apply negb_true_iff in H.
  assert (existsb (N.eqb (ih_id i)) (potential_ids node_id fresh) = true).
  { apply existsb_exists. exists (ih_id i). split; auto. apply N.eqb_refl. }
  congruence.
Qed.

(* ---------------------------------------------------------------- the loop *)
Lemma handler_never_ok (done : list iface_h) ns s s' u :
  (for_each done disconnect_interface ;;; remove_ns_with_cps_and_links ns ;;; @raise unit ETopology) s
  <> (s', Ok u).
Proof.
  unfold bind. destruct (for_each done disconnect_interface s) as [s1 [a|e]]; [|discriminate].
  destruct (remove_ns_with_cps_and_links ns s1) as [s2 [b|e]]; discriminate.
Qed.

Lemma connect_all_rollback fl g nsn ty (U : list N) :
  closed g -> NoDup (ids g) ->
  forall todo cs s s',
    good g nsn cs -> sg s = ext g nsn cs -> incl (new_ids nsn cs) U -> incl (sfresh s) U ->
    (forall i, In i todo -> ~ In (ih_id i) U /\ iface_typed g i) ->
    connect_all fl (nid nsn) ty todo (map k_if cs) s = (s', Err ETopology) -> sg s' = g.
Proof.
  intros Hcl Hndg. induction todo as [|i r IH]; intros cs s s' G Hsg HU Hfr Hifs H.
  - simpl in H. discriminate.
  - simpl in H. unfold bind at 1 in H.
    set (B := guardrails ty i ;;; connect_interface fl (nid nsn) i) in *.
    set (Hd := for_each (map k_if cs) disconnect_interface ;;;
               remove_ns_with_cps_and_links (nid nsn) ;;; @raise unit ETopology) in *.
    unfold catch_topology in H.
    destruct (B s) as [s0 [u|e]] eqn:EB.
    + (* connected: go on with one more connection *)
      unfold B in EB. apply bind_ok in EB as (s1 & u1 & Hg & Hc).
      apply guardrails_ok in Hg as ->.
      destruct (Hifs i (or_introl eq_refl)) as [HiU Hty].
      destruct u.
      destruct (connect_ok_shape fl g nsn cs U i s s0 Hcl Hndg G Hsg HU Hfr HiU Hty Hc)
        as (c & Hci & Hsg' & G' & HU' & Hfr').
      apply (IH (cs ++ [c]) s0 s'); auto.
      * intros j Hj. apply Hifs. right; auto.
      * rewrite map_app. simpl. rewrite Hci. exact H.
    + destruct e; try (inversion H; fail).
      (* TopologyException: the handler runs in the state the body left, which is the loop's state *)
      assert (Hs0 : sg s0 = ext g nsn cs).
      { rewrite <- Hsg. apply (step_topo_atomic fl (nid nsn) ty i s s0). exact EB. }
      destruct (Hd s0) as [s2 [u|e]] eqn:EH.
      * exfalso. eapply handler_never_ok; eauto.
      * inversion H; subst.
        destruct s0 as [g0 fr0]. simpl in Hs0. subst g0.
        unfold Hd in EH. rewrite (rollback_restores g nsn cs fr0 Hcl G) in EH.
        inversion EH; subst. reflexivity.
Qed.

(* ---------------------------------------------------------------- Topology.add_network_service *)
Lemma service_rollback fl name node_id nstype ifs pure g fresh s' :
  wf_graph g = true -> ifaces_typed g ifs = true -> supply_apart node_id fresh ifs = true ->
  op_add_service fl name node_id nstype ifs pure (mkSt g fresh) = (s', Err ETopology) ->
  sg s' = g.
Proof.
  intros Hwf Hty Hsup H.
  assert (Hcl := wf_closed g Hwf). assert (Hnd := wf_nodup g Hwf).
  unfold op_add_service, new_service in H.
  unfold bind at 1 in H.
  destruct (id_or_draw node_id (mkSt g fresh)) as [s0 [id|e]] eqn:Eid.
  2:{ inversion H; subst s'. apply (no_mut_id_or_draw node_id _ _ _ Eid). }
  assert (Hs0 : sg s0 = g /\ In id (potential_ids node_id fresh) /\ incl (sfresh s0) (potential_ids node_id fresh)).
  { unfold potential_ids. destruct node_id as [x|]; simpl in Eid.
    - unfold ret in Eid. inversion Eid; subst. simpl. split; auto. split; auto. intros y Hy; right; auto.
    - apply draw_ok in Eid as (r & Hr & ->). simpl in *. subst fresh. split; auto. split; [left; auto|].
      intros y Hy; right; auto. }
  destruct Hs0 as (Hg0 & HidU & HfrU).
  destruct nstype as [ty|]; [|inversion H; subst s'; exact Hg0].
  unfold bind at 1 in H. destruct (guard (name_ok rule_svc name) EValue s0) as [s1 [u1|e]] eqn:E1.
  2:{ inversion H; subst s'. rewrite <- Hg0. apply (no_mut_guard _ _ _ _ _ E1). }
  apply guard_ok in E1 as [-> _].
  unfold bind at 1 in H. destruct (opt_raise pure s0) as [s1 [u2|e]] eqn:E2.
  2:{ inversion H; subst s'. rewrite <- Hg0. apply (no_mut_opt_raise _ _ _ _ E2). }
  assert (s1 = s0) as ->.
  { destruct pure; simpl in E2; unfold raise, ret in E2; inversion E2; reflexivity. }
  unfold bind at 1 in H.
  destruct ((taken <- ask (fun g0 => Ok (name_taken g0 cNS name));; guard (negb taken) EQuery) s0)
    as [s1 [u3|e]] eqn:E3.
  2:{ inversion H; subst s'. rewrite <- Hg0.
      refine ((_ : no_mut (taken <- ask (fun g0 => Ok (name_taken g0 cNS name));; guard (negb taken) EQuery)) _ _ _ E3).
      nm. }
  apply bind_ok in E3 as (sx & tk & Ea & Eg). apply ask_ok in Ea as [-> _]. apply guard_ok in Eg as [-> _].
  unfold bind at 1 in H.
  set (nsn := mkNode id cNS name ty 0) in *.
  destruct (m_add_node nsn s0) as [s1 [u4|e]] eqn:E4.
  2:{ inversion H; subst s'. unfold m_add_node, mutate in E4. destruct (g_add_node nsn (sg s0)) eqn:Eg; [discriminate|].
      inversion E4; subst. apply g_add_node_err in Eg. discriminate. }
  apply mutate_ok in E4 as (g1 & Hg1 & ->). rewrite Hg0 in Hg1. apply add_node_result in Hg1 as [Hnew ->].
  simpl nid in Hnew.
  unfold bind at 1 in H. unfold ret at 1 in H.
  unfold bind at 1 in H.
  destruct (connect_all fl id ty ifs [] (mkSt (mkGraph (gnodes g ++ [nsn]) (gedges g)) (sfresh s0)))
    as [s2 [u5|e]] eqn:E5.
  { unfold ret in H. discriminate. }
  inversion H; subst e s2. clear H.
  apply (connect_all_rollback fl g nsn ty (potential_ids node_id fresh) Hcl Hnd ifs []
           (mkSt (mkGraph (gnodes g ++ [nsn]) (gedges g)) (sfresh s0)) s').
  - constructor.
    + unfold new_ids, conn_ids; simpl. apply NoDup_snoc; auto. apply has_node_false_In; auto.
    + reflexivity.
    + intros c Hc; destruct Hc.
    + constructor.
    + intros c Hc; destruct Hc.
  - unfold ext; simpl. rewrite app_nil_r. reflexivity.
  - unfold new_ids; simpl. intros y [<-|[]]. exact HidU.
  - exact HfrU.
  - intros i Hi. split; [eapply supply_apart_prop; eauto | eapply ifaces_typed_prop; eauto].
  - exact E5.
Qed.

(* ---------------------------------------------------------------- add_facility: the part that is atomic *)
Lemma add_facility_first_step fl name node_id d_ns d_int d_intk nstype pure_ns ports pure_single s s' e :
  op_add_facility fl name node_id d_ns d_int d_intk nstype pure_ns ports pure_single s = (s', Err e) ->
  (forall s1 id, op_add_node fl name node_id (Some tFacility) None s <> (s1, Ok id)) ->
  sg s' = sg s.
Proof.
  intros H Hno. unfold op_add_facility in H. unfold bind at 1 in H.
  destruct (op_add_node fl name node_id (Some tFacility) None s) as [s1 [id|e1]] eqn:E.
  - exfalso. eapply Hno; eauto.
  - inversion H; subst. eapply (op_add_node_atomic fl name node_id (Some tFacility) None s s' e); auto.
Qed.

Lemma add_switch_first_step fl name node_id d_ns d_intk nstype pure_ns nports pure_port s s' e :
  op_add_switch fl name node_id d_ns d_intk nstype pure_ns nports pure_port s = (s', Err e) ->
  (forall s1 id, op_add_node fl name node_id (Some tSwitch) None s <> (s1, Ok id)) ->
  sg s' = sg s.
Proof.
  intros H Hno. unfold op_add_switch in H. unfold bind at 1 in H.
  destruct (op_add_node fl name node_id (Some tSwitch) None s) as [s1 [id|e1]] eqn:E.
  - exfalso. eapply Hno; eauto.
  - inversion H; subst. eapply (op_add_node_atomic fl name node_id (Some tSwitch) None s s' e); auto.
Qed.

(* peer: atomic when it is the first of its three steps (the port on the calling service) that is refused *)
Lemma peer_first_step fl a b pure s s' e :
  op_peer fl a b pure s = (s', Err e) ->
  (forall an bn ca s1 id, node_name (sg s) a = Ok an -> node_name (sg s) b = Ok bn ->
       service_iface_names (sg s) a = Ok ca ->
       add_interface_cached fl a ca (an ++ dash ++ bn) None (Some tServicePort) pure s <> (s1, Ok id)) ->
  sg s' = sg s.
Proof.
  intros H Hno. unfold op_peer in H.
  apply bind_err_cases in H as [H|(s1 & an & H1 & H)]; [exact (no_mut_ask _ _ _ _ H)|].
  apply ask_ok in H1 as [-> Han].
  apply bind_err_cases in H as [H|(s1 & bn & H1 & H)]; [exact (no_mut_ask _ _ _ _ H)|].
  apply ask_ok in H1 as [-> Hbn].
  apply bind_err_cases in H as [H|(s1 & ca & H1 & H)]; [exact (no_mut_ask _ _ _ _ H)|].
  apply ask_ok in H1 as [-> Hca].
  apply bind_err_cases in H as [H|(s1 & cb & H1 & H)]; [exact (no_mut_ask _ _ _ _ H)|].
  apply ask_ok in H1 as [-> Hcb].
  apply bind_err_cases in H as [H|(s1 & i1 & H1 & H)].
  - unfold add_interface_cached in H.
    apply bind_err_cases in H as [H|(s1 & u & H1 & H)]; [exact (no_mut_guard _ _ _ _ _ H)|].
    apply guard_ok in H1 as [-> _].
    refine (new_interface_atomic fl _ None a (Some tServicePort) pure s s' e _ H).
    apply (service_iface_names_found _ _ _ Hca).
  - exfalso. eapply (Hno an bn ca); eauto.
Qed.

(* ---------------------------------------------------------------- non-vacuity instances *)
From Coq Require Import String.
From FIM Require Import Proofs.T9Refuted.

(* two dedicated ports get connected, the third list element repeats the first: "already connected",
   the handler disconnects both and removes the service *)
Definition ex_ifs : list iface_h :=
  [mkIface 8 (S "nic1-p1"); mkIface 9 (S "nic1-p2"); mkIface 8 (S "nic1-p1")].

Lemma ex_service_rollback_hyps :
  wf_graph g_two_nodes = true /\ ifaces_typed g_two_nodes ex_ifs = true /\ supply_apart None supply ex_ifs = true.
Proof. vm_compute. auto. Qed.

Lemma ex_service_rollback_runs :
  let r := op_add_service Experiment (S "s1") None (Some tL2Bridge) ex_ifs None (mkSt g_two_nodes supply) in
  snd r = Err ETopology /\ sg (fst r) = g_two_nodes /\ List.length (sfresh (fst r)) = 3%nat.
Proof. vm_compute. auto. Qed.

(* the same call without the repeated interface succeeds and adds 5 nodes: the loop really mutates *)
Lemma ex_service_ok :
  let r := op_add_service Experiment (S "s1") None (Some tL2Bridge) (firstn 2 ex_ifs) None (mkSt g_two_nodes supply) in
  snd r = Ok 50 /\ List.length (gnodes (sg (fst r))) = 14%nat.
Proof. vm_compute. auto. Qed.

(* L2PTP refuses a shared port at position 1, after the dedicated port at position 0 was connected *)
Lemma ex_service_guardrail :
  let r := op_add_service Experiment (S "s1") None (Some tL2PTP)
             [mkIface 8 (S "nic1-p1"); mkIface 4 (S "nic1-p1")] None (mkSt g_two_nodes supply) in
  snd r = Err ETopology /\ sg (fst r) = g_two_nodes.
Proof. vm_compute. auto. Qed.

Lemma ex_add_node_dup :
  let r := op_add_node Experiment (S "n1") None (Some tVM) None (mkSt g_two_nodes supply) in
  snd r = Err ETopology /\ sg (fst r) = g_two_nodes.
Proof. vm_compute. auto. Qed.

Lemma ex_add_link_ok_hyp :
  ifaces_exist g_two_nodes [mkIface 4 (S "nic1-p1"); mkIface 8 (S "nic1-p1")].
Proof.
  intros i [<-|[<-|[]]]; eexists; vm_compute; reflexivity.
Qed.

(* ---------------------------------------------------------------- statements in the shape of Properties/C09.v *)
Lemma add_node_atomic_all fl name node_id ntype pure s s' e :
  op_add_node fl name node_id ntype pure s = (s', Err e) -> sg s' = sg s.
Proof. apply op_add_node_atomic. exact I. Qed.
Lemma add_node_service_atomic_all fl pn name node_id nstype pure s s' e :
  op_add_node_service fl pn name node_id nstype pure s = (s', Err e) -> sg s' = sg s.
Proof. apply op_add_node_service_atomic. exact I. Qed.
Lemma add_interface_atomic_all fl ns name node_id itype pure s s' e :
  op_add_interface fl ns name node_id itype pure s = (s', Err e) -> sg s' = sg s.
Proof. apply op_add_interface_atomic. exact I. Qed.
Lemma add_link_atomic_existing fl name node_id ltype ifs pure s s' e :
  (forall l, ifs = Some l -> ifaces_exist (sg s) l) ->
  op_add_link fl name node_id ltype ifs pure s = (s', Err e) -> sg s' = sg s.
Proof. apply op_add_link_atomic_if_ifaces_exist. Qed.
Lemma names_translated : t9_gen_ok = true.
Proof. reflexivity. Qed.

(* a two-port switch is built completely (node, service, p1, p2) when nothing is rejected *)
Lemma ex_switch_ok :
  let r := op_add_switch Experiment (S "sw1") None 0 [] tVLAN None 2 None (mkSt g_two_nodes supply) in
  snd r = Ok 50 /\ List.length (gnodes (sg (fst r))) = 13%nat.
Proof. vm_compute. auto. Qed.

Lemma ex_peer_ok :
  let r := op_peer Experiment 30 31 None (mkSt (mkGraph (firstn 2 (gnodes g_two_services)) []) supply) in
  snd r = Ok tt /\ List.length (gnodes (sg (fst r))) = 5%nat /\ List.length (gedges (sg (fst r))) = 4%nat.
Proof. vm_compute. auto. Qed.

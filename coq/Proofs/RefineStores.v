(* C05: the two storage models refine the reference model, step by step and over all histories of
   the operations of the property's quantifier; consequently the two backends agree. *)
From Coq Require Import List NArith Bool Lia.
From FIM Require Import Base.Assoc Model.Store Model.StoreDisjoint Model.PGSpec.
From FIM Require Import Proofs.IsolationBase Proofs.IsolationShared Proofs.IsolationFrame Proofs.IsolationDisjoint.
From FIM Require Import Proofs.RefineUnique Proofs.RefineSim.
Import ListNotations.
Open Scope N_scope.

(* ---------- every link joins two stored nodes: preserved ---------- *)
Lemma In_set_edge a b ps p q d l : In (p, q, d) (set_edge a b ps l) -> exists d', In (p, q, d') l.
Proof.
  induction l as [|[[x y] e] r IH]; [intros []|]. cbn [set_edge].
  destruct (edge_is a b (x, y, e)); cbn [fst snd].
  - intros [H|H]; [inversion H; subst; exists e; now left | exists d; now right].
  - intros [H|H]; [exists d; now left | destruct (IH H) as [d' Hd]; exists d'; now right].
Qed.

Lemma closed_set_node G id ps : EClosed G -> EClosed (nx_set_node G id ps).
Proof.
  intros H a b q Hin. unfold ids, nx_set_node in *. cbn [gn ge] in *. rewrite map_fst_set_node. now apply (H a b q).
Qed.

Lemma closed_set_edge G a b ps : EClosed G -> EClosed (nx_set_edge G a b ps).
Proof.
  intros H p q d Hin. unfold nx_set_edge in Hin. cbn [ge] in Hin. apply In_set_edge in Hin as [d' Hd].
  exact (H p q d' Hd).
Qed.

Lemma closed_add_edge G a b ps : In a (ids G) -> In b (ids G) -> EClosed G -> EClosed (nx_add_edge G a b ps).
Proof.
  intros Ha Hb H. unfold nx_add_edge. destruct (nx_edge G a b); [now apply closed_set_edge|].
  intros p q d Hin. cbn [ge] in Hin. apply in_app_or in Hin as [Hin|[Hin|[]]].
  - exact (H p q d Hin).
  - inversion Hin; subst. now split.
Qed.

Lemma closed_remove_node G x : EClosed G -> EClosed (nx_remove_node G x).
Proof.
  intros H a b q Hin. unfold nx_remove_node, ids in *. cbn [gn ge] in *.
  apply filter_In in Hin as [Hin Ht]. destruct (H a b q Hin) as [Ha Hb].
  unfold edge_touches in Ht. apply negb_true_iff in Ht. apply orb_false_iff in Ht as [Ta Tb].
  rewrite (map_fst_filter_fst (fun i => negb (N.eqb i x))). split; apply filter_In; split; auto; now apply negb_true_iff.
Qed.

Lemma closed_remove_nodes G l : EClosed G -> EClosed (nx_remove_nodes G l).
Proof.
  intros H a b q Hin. unfold nx_remove_nodes, ids in *. cbn [gn ge] in *.
  apply filter_In in Hin as [Hin Ht]. destruct (H a b q Hin) as [Ha Hb].
  apply negb_true_iff in Ht. apply orb_false_iff in Ht as [Ta Tb].
  rewrite (map_fst_filter_fst (fun i => negb (memN i l))). split; apply filter_In; split; auto; now apply negb_true_iff.
Qed.

Lemma closed_same G' G : ids G' = ids G -> ge G' = ge G -> EClosed G -> EClosed G'.
Proof. intros E1 E2 H a b q Hin. rewrite E1. rewrite E2 in Hin. exact (H a b q Hin). Qed.

Lemma found_in_ids_G G g n id : NoDup (ids G) -> find_node G g n = Some id -> In id (ids G).
Proof.
  intros Hnd H. destruct (find_node_sound G g n id Hnd H) as [ps [H1 _]]. unfold nx_node in H1.
  apply aget_In in H1. change id with (fst (id, ps)). now apply in_map.
Qed.

Lemma closed_pg_ops G g :
  NoDup (ids G) -> EClosed G ->
  (forall n p v, EClosed (fst (pg_update_node G g n p v))) /\
  (forall n p, EClosed (fst (pg_unset_node G g n p))) /\
  (forall p v, EClosed (fst (pg_update_nodes G g p v))) /\
  (forall n u, EClosed (fst (pg_update_node_props G g n u))) /\
  (forall a b k gd f, EClosed (fst (with_link G g a b k gd f))) /\
  (forall a r b ps, EClosed (fst (pg_add_link G g a r b ps))) /\
  (forall n, EClosed (fst (pg_delete_node G g n))).
Proof.
  intros Hnd H. split; [|split; [|split; [|split; [|split; [|split]]]]].
  - intros n p v. unfold pg_update_node. destruct (N.eqb p k_class); [exact H|].
    destruct (find_node G g n); [|exact H]. destruct (nx_node G n0); [|exact H]. cbn [fst]. now apply closed_set_node.
  - intros n p. unfold pg_unset_node. destruct (N.eqb p k_class); [exact H|]. destruct (memN p no_unset); [exact H|].
    destruct (find_node G g n); [|exact H]. destruct (nx_node G n0); [|exact H]. cbn [fst]. now apply closed_set_node.
  - intros p v. unfold pg_update_nodes. destruct (find_all G g); [|exact H]. destruct (N.eqb p k_class); [exact H|]. cbn [fst].
    apply (closed_same _ G); [|reflexivity|exact H]. unfold ids, upd_nodes. cbn [gn]. rewrite map_map. apply map_ext.
    intros [i q]. cbn [fst]. now destruct (memN i l).
  - intros n u. unfold pg_update_node_props. destruct (ahas k_class u); [exact H|].
    destruct (find_node G g n); [|exact H]. destruct (nx_node G n0); [|exact H]. cbn [fst]. now apply closed_set_node.
  - intros a b k gd f. unfold with_link. destruct gd; [exact H|]. destruct (find_link G g a b) as [[[ia ib] ps]|]; [|exact H].
    destruct (has_val ps k_class k); [|exact H]. cbn [fst]. now apply closed_set_edge.
  - intros a r b ps. unfold pg_add_link. destruct (find_node G g a) as [ia|] eqn:Ea; [|exact H].
    destruct (find_node G g b) as [ib|] eqn:Eb; [|exact H].
    assert (Hia : In ia (ids G)) by (eapply found_in_ids_G; eauto).
    assert (Hib : In ib (ids G)) by (eapply found_in_ids_G; eauto).
    destruct ps as [u|]; cbn [fst]; [destruct (ahas k_class u); cbn [fst]; [exact H|]|]; now apply closed_add_edge.
  - intros n. unfold pg_delete_node. destruct (find_node G g n); [|exact H]. cbn [fst]. now apply closed_remove_node.
Qed.

Lemma closed_add_node G g newid n c ps G' :
  nx_node G newid = None -> EClosed G -> pg_add_node G g newid n c ps = Some G' -> EClosed G'.
Proof.
  intros Hfresh H Hadd. unfold pg_add_node in Hadd.
  destruct (search G [(k_graphid, g); (k_nodeid, n)]); [|discriminate].
  assert (E1 : nx_add_node G newid (blank_attrs g n c) = mkG (gn G ++ [(newid, blank_attrs g n c)]) (ge G))
    by (unfold nx_add_node; now rewrite Hfresh).
  assert (H1 : EClosed (mkG (gn G ++ [(newid, blank_attrs g n c)]) (ge G))).
  { intros a b q Hin. cbn [ge] in Hin. destruct (H a b q Hin) as [Ha Hb]. unfold ids. cbn [gn].
    rewrite map_app. split; apply in_or_app; now left. }
  rewrite E1 in Hadd. destruct ps as [u|]; [|inversion Hadd; subst; exact H1].
  destruct (nx_node (mkG (gn G ++ [(newid, blank_attrs g n c)]) (ge G)) newid); inversion Hadd; subst; [|exact H1].
  now apply closed_set_node.
Qed.

(* ---------- find_matching_nodes ---------- *)
Lemma collect_snd (l : list node) : collect_nodeids (map (fun nd => (0, snd nd)) l) = collect_nodeids l.
Proof.
  induction l as [|[i ps] r IH]; [reflexivity|]. cbn [map collect_nodeids snd].
  destruct (aget k_nodeid ps); [|reflexivity]. destruct (hashable p); [|reflexivity]. now rewrite IH.
Qed.

Lemma matching_result_snd mine (l : list node) :
  matching_result mine (map (fun ps => (0, ps)) (map snd l)) = matching_result mine l.
Proof. unfold matching_result. rewrite map_map. now rewrite collect_snd. Qed.

Lemma extract_is_view G g :
  NoDup (ids G) ->
  s_extract G g = match fst (view G g) with [] => None | _ => Some (mkI (fst (view G g)) (snd (view G g))) end.
Proof.
  intro Hnd. unfold s_extract. rewrite search_graphid_ids_in.
  assert (Hsame : filter (fun n => memN (fst n) (ids_in G g)) (gn G) = filter (in_g g) (gn G)).
  { apply filter_ext_in. intros [i ps] Hin. cbn [fst].
    destruct (in_g g (i, ps)) eqn:Eg.
    - apply memN_In. unfold ids_in. apply in_map_iff. exists (i, ps). split; [reflexivity|]. apply filter_In. now split.
    - exact (not_in_g_not_member G g Hnd i ps Hin Eg). }
  unfold view. cbn [fst snd].
  destruct (ids_in G g) as [|x r] eqn:Ei.
  - unfold ids_in in Ei. destruct (filter (in_g g) (gn G)); [reflexivity | discriminate].
  - assert (Hne : filter (in_g g) (gn G) <> []) by (intro E0; unfold ids_in in Ei; rewrite E0 in Ei; discriminate).
    rewrite Hsame. destruct (filter (in_g g) (gn G)); [congruence | reflexivity].
Qed.

Lemma sim_matching G g g2 :
  NoDup (ids G) -> s_matching G g g2 = sp_matching (abs_nxg G g) (abs_nxg G g2).
Proof.
  intro Hnd. unfold s_matching, sp_matching. rewrite (sim_list_ids G g Hnd).
  destruct (sp_list_ids (abs_nxg G g)) as [[| |mine| |]|e]; try reflexivity.
  destruct (negb (forallb hashable mine)); [reflexivity|].
  rewrite (extract_is_view G g2 Hnd). unfold abs_nxg at 1, abs_of_view. cbn [sn].
  destruct (fst (view G g2)) as [|nd r] eqn:E; [reflexivity|]. cbn [inodes map].
  symmetry. exact (matching_result_snd mine (nd :: r)).
Qed.

(* ---------- refinement relations ---------- *)
Definition RS (s : store) (sp : spec) : Prop := forall g, abs_shared s g = sget sp g.
Definition RD (d : dstore) (sp : spec) : Prop := forall g, abs_disjoint d g = sget sp g.

Lemma sget_sput sp g X g' : sget (sput sp g X) g' = if N.eqb g' g then X else sget sp g'.
Proof. unfold sget, sput. rewrite aget_aset. now destruct (N.eqb g' g). Qed.

Lemma refine_frame_scope o : refine_scope0 o = true -> frame_scope o = true.
Proof.
  destruct o; cbn; try reflexivity; try discriminate.
  - destruct ps as [u|]; [|reflexivity]. unfold writes_identity. intro H. apply negb_true_iff in H.
    apply orb_false_iff in H as [H _]. now rewrite H.
  - unfold is_identity. intro H. apply negb_true_iff in H. apply orb_false_iff in H as [H _]. now rewrite H.
  - unfold is_identity. intro H. apply negb_true_iff in H. apply orb_false_iff in H as [H _]. now rewrite H.
  - unfold writes_identity. intro H. apply negb_true_iff in H. apply orb_false_iff in H as [H _]. now rewrite H.
Qed.

Lemma scope_ident_key p : negb (is_identity p) = true -> ident_key p = false.
Proof. unfold is_identity, ident_key. apply negb_true_iff. Qed.
Lemma scope_ident_free u : negb (writes_identity u) = true -> ident_free u = true.
Proof.
  unfold writes_identity, ident_free. intro H. apply negb_true_iff in H. apply orb_false_iff in H as [H1 H2].
  now rewrite H1, H2.
Qed.

(* shared store: state of the addressed graph and result, for a lifted graph-object method *)
Lemma RS_lift s sp g x y :
  RS s sp -> SInv s ->
  (forall g', g' <> g -> view (fst x) g' = view (sg s) g') ->
  abs_nxg (fst x) g = fst y -> snd x = snd y ->
  RS (fst (lift s x)) (fst (splift sp g y)) /\ snd (lift s x) = snd (splift sp g y).
Proof.
  intros HR HI Hfr Hab Hres. split; [|exact Hres].
  intro g'. unfold lift, splift. cbn [fst]. rewrite sget_sput. unfold abs_shared. cbn [sg].
  destruct (N.eqb g' g) eqn:E.
  - apply N.eqb_eq in E; subst g'. exact Hab.
  - apply N.eqb_neq in E. unfold abs_nxg. rewrite (Hfr g' E). apply HR.
Qed.

Theorem shared_step_refines s sp o :
  SInv s -> EClosed (sg s) -> refine_scope0 o = true -> RS s sp ->
  RS (fst (sstep s o)) (fst (spec_step sp o)) /\ snd (sstep s o) = snd (spec_step sp o).
Proof.
  intros HI Hcl Hsc HR. pose proof HI as [Hnd Hlt].
  assert (Hfs : frame_scope o = true) by now apply refine_frame_scope.
  assert (Hframe : forall g', target o <> g' -> view (sg (fst (sstep s o))) g' = view (sg s) g')
    by (intros; now apply frame_step).
  assert (HX : forall g, abs_nxg (sg s) g = sget sp g) by exact HR.
  destruct o; cbn in Hsc; try discriminate; cbn [sstep spec_step target] in *.
  - (* del_graph *)
    split; [|reflexivity]. intro g'. cbn [fst]. rewrite sget_sput. unfold abs_shared, s_del_graph. cbn [sg].
    destruct (N.eqb g' g) eqn:E.
    + apply N.eqb_eq in E; subst g'. now apply sim_del_graph.
    + apply N.eqb_neq in E. unfold abs_nxg. rewrite <- (HR g'). unfold abs_shared, abs_nxg.
      f_equal. apply (Hframe g'). congruence.
  - (* add_node *)
    rewrite <- (HX g).
    assert (Hfresh : nx_node (sg s) (snext s) = None).
    { unfold nx_node. apply aget_None_notin. intro Hin. apply Hlt in Hin. lia. }
    destruct (pg_add_node (sg s) g (snext s) n c ps) as [G'|] eqn:E.
    + destruct (sim_add_node (sg s) g Hcl (snext s) n c ps G' Hfresh) as [A B]; [|exact E|].
      { destruct ps; [now apply scope_ident_free | exact I]. }
      unfold splift. cbn [fst snd]. split; [|now rewrite B].
      intro g'. rewrite sget_sput. unfold abs_shared. cbn [sg]. destruct (N.eqb g' g) eqn:Eg.
      * apply N.eqb_eq in Eg; subst g'. exact A.
      * apply N.eqb_neq in Eg. rewrite <- (HR g'). unfold abs_shared, abs_nxg. f_equal.
        specialize (Hframe g'). cbn [fst sg] in Hframe. apply Hframe. congruence.
    + rewrite (sim_add_node_fail (sg s) g (snext s) n c ps E). unfold splift. cbn [fst snd].
      split; [|reflexivity]. intro g'. rewrite sget_sput. destruct (N.eqb g' g) eqn:Eg; [|apply HR].
      apply N.eqb_eq in Eg; subst g'. reflexivity.
  - (* del_node *)
    rewrite <- (HX g). destruct (sim_delete_node (sg s) g Hnd n) as [A B].
    apply RS_lift; auto; intros g' Hg'; apply (Hframe g'); congruence.
  - (* add_link *)
    rewrite <- (HX g). destruct (sim_add_link (sg s) g Hnd a r b ps) as [A B].
    apply RS_lift; auto; intros g' Hg'; apply (Hframe g'); congruence.
  - (* upd_node *)
    rewrite <- (HX g).
    pose proof (sim_with_node (sg s) g Hnd n (N.eqb p k_class) (aset p v)) as Hs. cbv zeta in Hs.
    destruct Hs as [A B].
    { intro ps0. apply scope_ident_key in Hsc. apply orb_false_iff in Hsc as [H1 H2]. now apply keeps_identity_aset. }
    apply RS_lift; auto; intros g' Hg'; apply (Hframe g'); congruence.
  - (* unset_node *)
    rewrite <- (HX g).
    destruct (N.eqb p k_class || memN p no_unset) eqn:Eg.
    + unfold pg_unset_node, sp_unset_node, sp_with_node. rewrite Eg.
      assert (Ex : (if N.eqb p k_class then (sg s, Err EQuery) else if memN p no_unset then (sg s, Err EQuery) else
                    match find_node (sg s) g n with
                    | Some id => match nx_node (sg s) id with
                                 | Some ps => (nx_set_node (sg s) id (aremove p ps), Ok RUnit)
                                 | None => (sg s, Err EOther) end
                    | None => (sg s, Err EQuery) end) = (sg s, Err EQuery)).
      { apply orb_true_iff in Eg as [E1|E1]; rewrite E1; [reflexivity|]. now destruct (N.eqb p k_class). }
      rewrite Ex. apply RS_lift; auto; intros g' _; reflexivity.
    + apply orb_false_iff in Eg as [E1 E2].
      pose proof (sim_with_node (sg s) g Hnd n false (aremove p)) as Hs. cbv zeta in Hs.
      destruct Hs as [A B]; [intro ps0; now apply keeps_identity_aremove|].
      unfold pg_unset_node, sp_unset_node. rewrite E1, E2. cbn [orb].
      apply RS_lift; auto; intros g' Hg'; specialize (Hframe g'); unfold pg_unset_node in Hframe;
      rewrite E1, E2 in Hframe; apply Hframe; congruence.
  - (* upd_nodes *)
    rewrite <- (HX g). destruct (sim_update_nodes (sg s) g Hnd p v) as [A B]; [now apply scope_ident_key|].
    apply RS_lift; auto; intros g' Hg'; apply (Hframe g'); congruence.
  - (* upd_node_props *)
    rewrite <- (HX g).
    pose proof (sim_with_node (sg s) g Hnd n (ahas k_class ps) (aupdate ps)) as Hs. cbv zeta in Hs.
    destruct Hs as [A B].
    { intro ps0. apply scope_ident_free in Hsc. apply andb_true_iff in Hsc as [H1 H2]. apply negb_true_iff in H1, H2.
      now apply keeps_identity_aupdate. }
    apply RS_lift; auto; intros g' Hg'; apply (Hframe g'); congruence.
  - rewrite <- (HX g). destruct (sim_with_link (sg s) g Hnd a b k (N.eqb p k_class) (aset p v)) as [A B].
    apply RS_lift; auto; intros g' Hg'; apply (Hframe g'); congruence.
  - rewrite <- (HX g). destruct (sim_with_link (sg s) g Hnd a b k (N.eqb p k_class) (aremove p)) as [A B].
    apply RS_lift; auto; intros g' Hg'; apply (Hframe g'); congruence.
  - rewrite <- (HX g). destruct (sim_with_link (sg s) g Hnd a b k (ahas k_class ps) (aupdate ps)) as [A B].
    apply RS_lift; auto; intros g' Hg'; apply (Hframe g'); congruence.
  - split; [exact HR|]. cbn [snd]. rewrite <- (HX g). now apply sim_get_node.
  - split; [exact HR|]. cbn [snd]. rewrite <- (HX g). now apply sim_get_link.
  - split; [exact HR|]. cbn [snd]. rewrite <- (HX g). unfold pg_by_class. now apply (sim_by (sg s) g Hnd [(k_class, c)]).
  - split; [exact HR|]. cbn [snd]. rewrite <- (HX g). unfold pg_by_class_type.
    now apply (sim_by (sg s) g Hnd [(k_class, c); (k_type, t)]).
  - split; [exact HR|]. cbn [snd]. rewrite <- (HX g). now apply sim_list_ids.
  - split; [exact HR|]. cbn [snd]. rewrite <- (HX g). now apply sim_node_exists.
  - split; [exact HR|]. cbn [snd]. rewrite <- (HX g). now apply sim_unique.
  - split; [exact HR|]. cbn [snd]. rewrite <- (HX g). f_equal. f_equal. now apply sim_graph_exists.
  - split; [exact HR|]. cbn [snd]. rewrite <- (HX g), <- (HX g2). now apply sim_matching.
Qed.

(* ---------- invariants along refine-scope histories, shared store ---------- *)
Lemma closed_step_shared s o : SInv s -> refine_scope0 o = true -> EClosed (sg s) -> EClosed (sg (fst (sstep s o))).
Proof.
  intros HI Hsc H. pose proof HI as [Hnd Hlt].
  destruct (closed_pg_ops (sg s) (target o) Hnd H) as [C1 [C2 [C3 [C4 [C5 [C6 C7]]]]]].
  destruct o; cbn in Hsc; try discriminate; cbn [sstep target lift fst sg] in *; try exact H; auto.
  - unfold s_del_graph. cbn [sg]. now apply closed_remove_nodes.
  - destruct (pg_add_node (sg s) g (snext s) n c ps) as [G'|] eqn:E; cbn [fst sg]; [|exact H].
    eapply closed_add_node; [| exact H | exact E].
    unfold nx_node. apply aget_None_notin. intro Hin. apply Hlt in Hin. lia.
  - apply C5.
  - apply C5.
  - apply C5.
Qed.

Lemma RS_init : RS init_store [].
Proof. intro g. reflexivity. Qed.

Theorem shared_refines_run ops : forall s sp,
  SInv s -> EClosed (sg s) -> RS s sp -> (forall o, In o ops -> refine_scope0 o = true) ->
  sresults s ops = spec_results sp ops /\ RS (srun ops s) (spec_run ops sp).
Proof.
  induction ops as [|o r IH]; intros s sp HI Hcl HR Hsc; cbn [sresults spec_results srun spec_run fold_left]; [auto|].
  assert (Ho : refine_scope0 o = true) by (apply Hsc; now left).
  destruct (shared_step_refines s sp o HI Hcl Ho HR) as [HR' Hres].
  destruct (IH (fst (sstep s o)) (fst (spec_step sp o))) as [A B]; auto.
  - now apply SInv_step.
  - now apply closed_step_shared.
  - intros; apply Hsc; now right.
  - split; [now rewrite Hres, A | exact B].
Qed.

Theorem shared_refines_spec ops :
  (forall o, In o ops -> refine_scope0 o = true) ->
  sresults init_store ops = spec_results [] ops /\
  forall g, abs_shared (srun ops init_store) g = sget (spec_run ops []) g.
Proof.
  intro H. apply shared_refines_run; auto; [apply SInv_init | intros a b q [] | apply RS_init].
Qed.

(* ---------- the one-graph-per-id store ---------- *)
Definition DClosed (d : dstore) : Prop := forall g, EClosed (dget d g).

Lemma filter_all_true {A} (f : A -> bool) l : forallb f l = true -> filter f l = l.
Proof.
  induction l as [|x r IH]; [reflexivity|]. cbn [forallb filter]. intro H. apply andb_true_iff in H as [H1 H2].
  rewrite H1. f_equal. now apply IH.
Qed.

Lemma RD_lift d sp g x y :
  RD d sp -> abs_nxg (fst x) g = fst y -> snd x = snd y ->
  RD (fst (dlift d g x)) (fst (splift sp g y)) /\ snd (dlift d g x) = snd (splift sp g y).
Proof.
  intros HR Hab Hres. split; [|exact Hres].
  intro g'. unfold dlift, splift, abs_disjoint. cbn [fst]. rewrite sget_sput, dget_dput.
  destruct (N.eqb g' g) eqn:E; [apply N.eqb_eq in E; subst g'; exact Hab | apply HR].
Qed.

Theorem disjoint_step_refines d sp o :
  DInv d -> DClosed d -> DHome d -> refine_scope0 o = true ->
  RD d sp ->
  RD (fst (dstep d o)) (fst (spec_step sp o)) /\ snd (dstep d o) = snd (spec_step sp o).
Proof.
  intros HI Hcl Hhome Hsc HR.
  assert (HX : forall g, abs_nxg (dget d g) g = sget sp g) by exact HR.
  assert (Hnd : forall g, NoDup (ids (dget d g))) by (intro g; apply (HI g)).
  destruct o; cbn in Hsc; try discriminate; cbn [dstep spec_step] in *.
  - (* del_graph *)
    split; [|reflexivity]. intro g'. cbn [fst]. rewrite sget_sput. unfold abs_disjoint, d_del_graph.
    destruct (gn (dget d g)) as [|nd r] eqn:E.
    + destruct (N.eqb g' g) eqn:Eg; [|apply HR]. apply N.eqb_eq in Eg; subst g'.
      unfold abs_nxg, view, ids_in. rewrite E. cbn [filter map]. rewrite filter_in_ids_nil. reflexivity.
    + rewrite dget_dput. destruct (N.eqb g' g); [reflexivity | apply HR].
  - (* add_node *)
    rewrite <- (HX g).
    assert (Hfresh : nx_node (dget d g) (dcounter d g) = None).
    { destruct (HI g) as [_ Hlt]. cbn [sg snext] in Hlt. unfold nx_node. apply aget_None_notin. intro Hin. apply Hlt in Hin. lia. }
    destruct (pg_add_node (dget d g) g (dcounter d g) n c ps) as [G'|] eqn:E.
    + destruct (sim_add_node (dget d g) g (Hcl g) (dcounter d g) n c ps G' Hfresh) as [A B]; [|exact E|].
      { destruct ps; [now apply scope_ident_free | exact I]. }
      unfold splift. cbn [fst snd]. split; [|now rewrite B].
      intro g'. rewrite sget_sput. unfold abs_disjoint. rewrite dget_dput_ctr, dget_dput.
      destruct (N.eqb g' g) eqn:Eg; [apply N.eqb_eq in Eg; subst g'; exact A | apply HR].
    + rewrite (sim_add_node_fail (dget d g) g (dcounter d g) n c ps E). unfold splift. cbn [fst snd].
      split; [|reflexivity]. intro g'. rewrite sget_sput. destruct (N.eqb g' g) eqn:Eg; [|apply HR].
      apply N.eqb_eq in Eg; subst g'. reflexivity.
  - rewrite <- (HX g). destruct (sim_delete_node (dget d g) g (Hnd g) n) as [A B]. now apply RD_lift.
  - rewrite <- (HX g). destruct (sim_add_link (dget d g) g (Hnd g) a r b ps) as [A B]. now apply RD_lift.
  - rewrite <- (HX g).
    pose proof (sim_with_node (dget d g) g (Hnd g) n (N.eqb p k_class) (aset p v)) as Hs. cbv zeta in Hs.
    destruct Hs as [A B].
    { intro ps0. apply scope_ident_key in Hsc. apply orb_false_iff in Hsc as [H1 H2]. now apply keeps_identity_aset. }
    now apply RD_lift.
  - rewrite <- (HX g).
    destruct (N.eqb p k_class || memN p no_unset) eqn:Eg.
    + unfold pg_unset_node, sp_unset_node, sp_with_node. rewrite Eg.
      assert (Ex : (if N.eqb p k_class then (dget d g, Err EQuery) else if memN p no_unset then (dget d g, Err EQuery) else
                    match find_node (dget d g) g n with
                    | Some id => match nx_node (dget d g) id with
                                 | Some ps => (nx_set_node (dget d g) id (aremove p ps), Ok RUnit)
                                 | None => (dget d g, Err EOther) end
                    | None => (dget d g, Err EQuery) end) = (dget d g, Err EQuery)).
      { apply orb_true_iff in Eg as [E1|E1]; rewrite E1; [reflexivity|]. now destruct (N.eqb p k_class). }
      rewrite Ex. now apply RD_lift.
    + apply orb_false_iff in Eg as [E1 E2].
      pose proof (sim_with_node (dget d g) g (Hnd g) n false (aremove p)) as Hs. cbv zeta in Hs.
      destruct Hs as [A B]; [intro ps0; now apply keeps_identity_aremove|].
      unfold pg_unset_node, sp_unset_node. rewrite E1, E2. cbn [orb]. now apply RD_lift.
  - rewrite <- (HX g). destruct (sim_update_nodes (dget d g) g (Hnd g) p v) as [A B]; [now apply scope_ident_key|].
    now apply RD_lift.
  - rewrite <- (HX g).
    pose proof (sim_with_node (dget d g) g (Hnd g) n (ahas k_class ps) (aupdate ps)) as Hs. cbv zeta in Hs.
    destruct Hs as [A B].
    { intro ps0. apply scope_ident_free in Hsc. apply andb_true_iff in Hsc as [H1 H2]. apply negb_true_iff in H1, H2.
      now apply keeps_identity_aupdate. }
    now apply RD_lift.
  - rewrite <- (HX g). destruct (sim_with_link (dget d g) g (Hnd g) a b k (N.eqb p k_class) (aset p v)) as [A B]. now apply RD_lift.
  - rewrite <- (HX g). destruct (sim_with_link (dget d g) g (Hnd g) a b k (N.eqb p k_class) (aremove p)) as [A B]. now apply RD_lift.
  - rewrite <- (HX g). destruct (sim_with_link (dget d g) g (Hnd g) a b k (ahas k_class ps) (aupdate ps)) as [A B]. now apply RD_lift.
  - split; [exact HR|]. cbn [snd]. rewrite <- (HX g). now apply sim_get_node.
  - split; [exact HR|]. cbn [snd]. rewrite <- (HX g). now apply sim_get_link.
  - split; [exact HR|]. cbn [snd]. rewrite <- (HX g). unfold pg_by_class. now apply (sim_by (dget d g) g (Hnd g) [(k_class, c)]).
  - split; [exact HR|]. cbn [snd]. rewrite <- (HX g). unfold pg_by_class_type.
    now apply (sim_by (dget d g) g (Hnd g) [(k_class, c); (k_type, t)]).
  - split; [exact HR|]. cbn [snd]. rewrite <- (HX g). now apply sim_list_ids.
  - split; [exact HR|]. cbn [snd]. rewrite <- (HX g). now apply sim_node_exists.
  - split; [exact HR|]. cbn [snd]. rewrite <- (HX g). now apply sim_unique.
  - split; [exact HR|]. cbn [snd]. rewrite <- (HX g). f_equal. f_equal. now apply sim_graph_exists.
  - (* matching: all nodes stored under the partner's id carry its graph id *)
    split; [exact HR|]. cbn [snd]. unfold d_matching, sp_matching. rewrite <- (HX g), <- (HX g2) in *.
    rewrite (sim_list_ids (dget d g) g (Hnd g)).
    destruct (sp_list_ids (abs_nxg (dget d g) g)) as [[| |mine| |]|e]; try reflexivity.
    destruct (negb (forallb hashable mine)); [reflexivity|].
    assert (Ev : fst (view (dget d g2) g2) = gn (dget d g2)).
    { unfold view. cbn [fst]. apply filter_all_true. apply (Hhome g2). }
    unfold abs_nxg, abs_of_view. cbn [sn]. rewrite Ev.
    symmetry. exact (matching_result_snd mine (gn (dget d g2))).
Qed.

Lemma refine_nid_scope o : refine_scope0 o = true -> nid_scope o = true.
Proof.
  destruct o; cbn; try reflexivity; try discriminate.
  - destruct ps as [u|]; [apply scope_ident_free | reflexivity].
  - intro H. apply scope_ident_key in H. now rewrite H.
  - intro H. apply scope_ident_key in H. now rewrite H.
  - apply scope_ident_free.
Qed.

Lemma DClosed_put d g G : DClosed d -> EClosed G -> DClosed (dput d g G).
Proof. intros H HG g'. rewrite dget_dput. destruct (N.eqb g' g); [exact HG | apply H]. Qed.

Lemma closed_step_disjoint d o : DInv d -> refine_scope0 o = true -> DClosed d -> DClosed (fst (dstep d o)).
Proof.
  intros HI Hsc H.
  assert (Hnd : forall g, NoDup (ids (dget d g))) by (intro g; apply (HI g)).
  destruct o; cbn in Hsc; try discriminate; cbn [dstep dlift fst] in *; try exact H;
    try (apply DClosed_put; [exact H | apply (closed_pg_ops (dget d g) g (Hnd g) (H g))]).
  - unfold d_del_graph. destruct (gn (dget d g)); [exact H|]. apply DClosed_put; [exact H | intros a b q []].
  - destruct (pg_add_node (dget d g) g (dcounter d g) n c ps) as [G'|] eqn:E; cbn [fst]; [|exact H].
    intro g'. rewrite dget_dput_ctr. apply DClosed_put; [exact H|].
    eapply closed_add_node; [| apply (H g) | exact E].
    destruct (HI g) as [_ Hlt]. cbn [sg snext] in Hlt. unfold nx_node. apply aget_None_notin. intro Hin. apply Hlt in Hin. lia.
Qed.

Theorem disjoint_refines_run ops : forall d sp,
  DInv d -> DClosed d -> DHome d -> RD d sp -> (forall o, In o ops -> refine_scope0 o = true) ->
  dresults d ops = spec_results sp ops /\ RD (drun ops d) (spec_run ops sp).
Proof.
  induction ops as [|o r IH]; intros d sp HI Hcl Hh HR Hsc;
    cbn [dresults spec_results drun spec_run fold_left] in *; [auto|].
  assert (Ho : refine_scope0 o = true) by (apply Hsc; now left).
  destruct (disjoint_step_refines d sp o HI Hcl Hh Ho HR) as [HR' Hres].
  destruct (IH (fst (dstep d o)) (fst (spec_step sp o))) as [A B]; auto.
  - now apply DInv_step.
  - now apply closed_step_disjoint.
  - apply DHome_step; auto. apply nid_home_scope. now apply refine_nid_scope.
  - intros; apply Hsc; now right.
  - split; [now rewrite Hres, A | exact B].
Qed.

Theorem disjoint_refines_spec ops :
  (forall o, In o ops -> refine_scope0 o = true) ->
  dresults init_dstore ops = spec_results [] ops /\
  forall g, abs_disjoint (drun ops init_dstore) g = sget (spec_run ops []) g.
Proof.
  intros H. apply disjoint_refines_run; auto.
  - apply DInv_init.
  - intros g a b q [].
  - intro g. reflexivity.
  - intro g. reflexivity.
Qed.

Theorem backends_agree ops :
  (forall o, In o ops -> refine_scope0 o = true) ->
  sresults init_store ops = dresults init_dstore ops /\
  forall g, abs_shared (srun ops init_store) g = abs_disjoint (drun ops init_dstore) g.
Proof.
  intros H. destruct (shared_refines_spec ops H) as [A1 A2]. destruct (disjoint_refines_spec ops H) as [B1 B2].
  split; [congruence | intro g; now rewrite A2, B2].
Qed.

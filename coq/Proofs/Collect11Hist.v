(* C11: the ASM path against the topology path for any enumeration order of the graph; histories on a long-lived
   collector (what a fresh collector answers is a function of the current slice only; what the same collector
   answers is the exact accumulation); the log line. *)
From Coq Require Import List ZArith NArith Bool String Permutation Lia.
From FIM Require Import Base.Str Gen.CollectGen Model.Collect11 Model.Collect11Spec Proofs.Collect11Tables
  Proofs.Collect11Attrs Proofs.Collect11Main Proofs.Collect11Log.
Import ListNotations.

(* ------------------------------------------------------------------ ASM path *)
Definition g_nodes (g : agraph) := flat_map (fun e => match e with GNode n => [n] | _ => [] end) g.
Definition g_ports (g : agraph) := flat_map (fun e => match e with GPort p => [p] | _ => [] end) g.
Definition g_svcs (g : agraph) := flat_map (fun e => match e with GSvc v => [v] | _ => [] end) g.
Definition g_facs (g : agraph) := flat_map (fun e => match e with GFac f => [f] | _ => [] end) g.

Lemma flat_map_map {X Y Z} (h : X -> Y) (sel : Y -> list Z) l : flat_map sel (map h l) = flat_map (fun x => sel (h x)) l.
Proof. induction l as [|x r IH]; simpl; [reflexivity|]. rewrite IH. reflexivity. Qed.

Lemma flat_map_single {X} (l : list X) : flat_map (fun x => [x]) l = l.
Proof. induction l as [|x r IH]; simpl; congruence. Qed.

Lemma flat_map_none {X Y} (l : list X) : flat_map (fun _ => @nil Y) l = [].
Proof. induction l as [|x r IH]; simpl; congruence. Qed.

Lemma slice_of_graph_of_slice s : slice_of_graph (graph_of_slice s) = s.
Proof.
  destruct s as [ns ps vs fs]. unfold slice_of_graph, graph_of_slice. cbn [sl_nodes sl_ports sl_svcs sl_facs].
  rewrite !flat_map_app, !flat_map_map. cbv beta iota.
  rewrite !flat_map_single, !flat_map_none, !app_nil_r. reflexivity.
Qed.

Lemma Forall2_gelem l l' : Forall2 gelem_eqv l l' ->
  Forall2 node_eqv (g_nodes l) (g_nodes l') /\ g_ports l = g_ports l' /\ g_svcs l = g_svcs l' /\ g_facs l = g_facs l'.
Proof.
  induction 1 as [|a b l l' Hab _ IH]; [repeat split; constructor|].
  destruct IH as (I1 & I2 & I3 & I4). unfold g_nodes, g_ports, g_svcs, g_facs in *.
  destruct a, b; simpl in Hab; try contradiction; simpl.
  - repeat split; try assumption. constructor; assumption.
  - subst. repeat split; try assumption; congruence.
  - subst. repeat split; try assumption; congruence.
  - subst. repeat split; try assumption; congruence.
Qed.

Theorem graph_eqv_slice g g' : graph_eqv g g' -> slice_eqv (slice_of_graph g) (slice_of_graph g').
Proof.
  intros (l & Hp & Hf). destruct (Forall2_gelem _ _ Hf) as (F1 & F2 & F3 & F4).
  unfold slice_eqv, slice_of_graph. cbn [sl_nodes sl_ports sl_svcs sl_facs].
  fold (g_nodes g) (g_nodes g') (g_ports g) (g_ports g') (g_svcs g) (g_svcs g') (g_facs g) (g_facs g').
  split; [|split; [|split]].
  - exists (g_nodes l). split; [apply Permutation_flat_map; exact Hp | exact F1].
  - rewrite <- F3. apply Permutation_flat_map. exact Hp.
  - rewrite <- F4. apply Permutation_flat_map. exact Hp.
  - rewrite <- F2. intro x. split; apply Permutation_in; [|apply Permutation_sym]; apply Permutation_flat_map; exact Hp.
Qed.

Theorem run_asm g : run [OAsm g] = Ok (collected (slice_of_graph g)).
Proof. unfold run. simpl. unfold collect_asm. apply collect_topo_ok. Qed.

Theorem asm_enumeration_independent g g' k : graph_eqv g g' ->
  Permutation (getk k (collected (slice_of_graph g))) (getk k (collected (slice_of_graph g'))).
Proof. intro H. apply reload_invariant, graph_eqv_slice, H. Qed.

(* the statement's clause: collecting from the topology object (slice s in its listing order) and from the serialized
   model (graph g = the same elements in ANY enumeration order) gives the same attributes *)
Theorem topo_vs_asm s g ma k : graph_eqv (graph_of_slice s) g -> run [OAsm g] = Ok ma ->
  Permutation (getk k (collected s)) (getk k ma) /\ (In k (keys (collected s)) <-> In k (keys ma)).
Proof.
  intros H Hr. rewrite run_asm in Hr. assert (E : ma = collected (slice_of_graph g)) by congruence. subst ma.
  apply graph_eqv_slice in H. rewrite slice_of_graph_of_slice in H.
  split; [apply reload_invariant | apply reload_same_keys]; exact H.
Qed.

Theorem log_topo_vs_asm s g : graph_eqv (graph_of_slice s) g ->
  log_run [OAsm g] = logged (slice_of_graph g) /\ slice_eqv s (slice_of_graph g).
Proof.
  intro H. split; [reflexivity|]. apply graph_eqv_slice in H. rewrite slice_of_graph_of_slice in H. exact H.
Qed.

(* ------------------------------------------------------------------ histories *)
Fixpoint hist_pure (m : attrs) (es : list hev) : attrs * list attrs :=
  match es with
  | [] => (m, [])
  | HSame s :: r => let m' := topo_pure m s in let '(mf, o) := hist_pure m' r in (mf, m' :: o)
  | HFresh s :: r => let '(mf, o) := hist_pure m r in (mf, collected s :: o)
  end.

Lemma hist_fold es : forall m outs,
  fold_left (fun acc e => bind acc (fun st => hist_step st e)) es (Ok (m, outs))
  = Ok (fst (hist_pure m es), outs ++ snd (hist_pure m es)).
Proof.
  induction es as [|e r IH]; intros m outs; simpl.
  - rewrite app_nil_r. reflexivity.
  - destruct e as [s|s]; simpl; rewrite collect_topo_ok; simpl; rewrite IH.
    + destruct (hist_pure (topo_pure m s) r) as [mf o]. simpl. rewrite <- app_assoc. reflexivity.
    + destruct (hist_pure m r) as [mf o]. simpl. rewrite <- app_assoc. reflexivity.
Qed.

Theorem hist_run_ok es : hist_run es = Ok (hist_pure init_attrs es).
Proof. unfold hist_run. rewrite hist_fold. simpl. destruct (hist_pure init_attrs es); reflexivity. Qed.

(* a collector created for the occasion answers with a function of the CURRENT slice only, whatever was collected
   before (by it: nothing; by the long-lived collector: anything) *)
Theorem history_memoryless es : forall m i s,
  nth_error es i = Some (HFresh s) -> nth_error (snd (hist_pure m es)) i = Some (collected s).
Proof.
  induction es as [|e r IH]; intros m i s H; [destruct i; discriminate|].
  destruct i as [|i]; simpl in H.
  - inversion H; subst. simpl. destruct (hist_pure m r). reflexivity.
  - destruct e as [s0|s0]; simpl.
    + specialize (IH (topo_pure m s0) i s H). destruct (hist_pure (topo_pure m s0) r). exact IH.
    + specialize (IH m i s H). destruct (hist_pure m r). exact IH.
Qed.

Theorem history_memoryless_run es mf outs i s :
  hist_run es = Ok (mf, outs) -> nth_error es i = Some (HFresh s) -> nth_error outs i = Some (collected s).
Proof.
  intros H Hn. rewrite hist_run_ok in H. pose proof (history_memoryless es init_attrs i s Hn) as P.
  destruct (hist_pure init_attrs es) as [a b]. inversion H; subst. exact P.
Qed.

(* the long-lived collector: its mapping is the fold of the slices it was fed, and nothing else *)
Lemma hist_same_state es : forall m, fst (hist_pure m es) = fold_left topo_pure (same_slices es) m.
Proof.
  induction es as [|e r IH]; intro m; [reflexivity|].
  destruct e as [s|s]; simpl.
  - specialize (IH (topo_pure m s)). destruct (hist_pure (topo_pure m s) r). exact IH.
  - specialize (IH m). destruct (hist_pure m r). exact IH.
Qed.

Lemma fold_multi ss : forall m k, In k multi_keys ->
  getk k (fold_left topo_pure ss m) = getk k m ++ flat_map (required_of k) ss.
Proof.
  induction ss as [|s r IH]; intros m k Hk; simpl; [rewrite app_nil_r; reflexivity|].
  rewrite IH by exact Hk. rewrite multi_closed by exact Hk. rewrite <- app_assoc. reflexivity.
Qed.

Lemma fold_set ss : forall m k, In k set_keys ->
  getk k (fold_left topo_pure ss m) = addus (flat_map (required_of k) ss) (getk k m).
Proof.
  induction ss as [|s r IH]; intros m k Hk; simpl; [reflexivity|].
  rewrite IH by exact Hk. rewrite set_closed by exact Hk. rewrite addus_app. reflexivity.
Qed.

Lemma fold_type ss : forall m,
  getk A_RESOURCE_TYPE (fold_left topo_pure ss m) = if existsb has_switch ss then sw_val else getk A_RESOURCE_TYPE m.
Proof.
  induction ss as [|s r IH]; intro m; simpl; [reflexivity|].
  rewrite IH, type_closed. destruct (has_switch s); simpl; [destruct (existsb has_switch r); reflexivity | reflexivity].
Qed.

Theorem same_collector_multi es mf outs k : hist_run es = Ok (mf, outs) -> In k multi_keys ->
  getk k mf = flat_map (required_of k) (same_slices es).
Proof.
  intros H Hk. rewrite hist_run_ok in H. pose proof (hist_same_state es init_attrs) as P.
  destruct (hist_pure init_attrs es) as [a b]. inversion H; subst. simpl in P. rewrite P, fold_multi by exact Hk.
  rewrite init_get; [reflexivity|].
  unfold multi_keys in Hk. destruct Hk as [Hk|[Hk|[Hk|[Hk|[Hk|[Hk|[]]]]]]]; subst k; intro E; vm_compute in E; discriminate.
Qed.

Theorem same_collector_set es mf outs k v : hist_run es = Ok (mf, outs) -> In k set_keys ->
  (In v (getk k mf) <-> exists s, In s (same_slices es) /\ In v (required_of k s)) /\ NoDup (getk k mf).
Proof.
  intros H Hk. rewrite hist_run_ok in H. pose proof (hist_same_state es init_attrs) as P.
  destruct (hist_pure init_attrs es) as [a b]. inversion H; subst. simpl in P. rewrite P, fold_set by exact Hk.
  rewrite init_get by (unfold set_keys in Hk; destruct Hk as [Hk|[Hk|[Hk|[Hk|[]]]]]; subst k; intro E; vm_compute in E; discriminate).
  split; [|apply addus_NoDup; constructor].
  rewrite addus_In, in_flat_map. simpl. tauto.
Qed.

Theorem same_collector_type es mf outs : hist_run es = Ok (mf, outs) ->
  getk A_RESOURCE_TYPE mf = [AS (if existsb has_switch (same_slices es) then S"switch-p4" else S"sliver")].
Proof.
  intro H. rewrite hist_run_ok in H. pose proof (hist_same_state es init_attrs) as P.
  destruct (hist_pure init_attrs es) as [a b]. inversion H; subst. simpl in P. rewrite P, fold_type.
  destruct (existsb has_switch (same_slices es)); reflexivity.
Qed.

(* collecting the same slice twice in a row with one collector: per-resource values are listed twice (the code
   accumulates), the site sets and the resource type are unchanged *)
Theorem twice_in_a_row s k :
  (In k multi_keys -> getk k (topo_pure (collected s) s) = getk k (collected s) ++ getk k (collected s)) /\
  (In k set_keys -> getk k (topo_pure (collected s) s) = getk k (collected s)) /\
  getk A_RESOURCE_TYPE (topo_pure (collected s) s) = getk A_RESOURCE_TYPE (collected s).
Proof.
  split; [|split].
  - intro Hk. rewrite multi_closed by exact Hk. rewrite multi_exact by exact Hk. reflexivity.
  - intro Hk. rewrite set_closed by exact Hk. rewrite set_exact by exact Hk.
    generalize (required_of k s). intro l.
    assert (G : forall vals acc, (forall v, In v vals -> In v acc) -> addus vals acc = acc).
    { induction vals as [|v r IH]; intros acc Hsub; [reflexivity|]. unfold addus in *. simpl.
      unfold add_unique. assert (Hv : amem v acc = true) by (apply amem_In, Hsub; left; reflexivity).
      rewrite Hv. apply IH. intros x Hx. apply Hsub. right. exact Hx. }
    apply G. intros v Hv. apply addus_In. right. exact Hv.
  - rewrite type_closed, type_exact. unfold resource_type, sw_val. destruct (has_switch s); reflexivity.
Qed.

(* ------------------------------------------------------------------ the log line *)
Theorem summary_counts s :
  sm_vms (summary_of (logged s)) = tally_vms s /\ sm_cores (summary_of (logged s)) = tally_cores s /\
  sm_p4s (summary_of (logged s)) = tally_switches s /\
  (forall x, In x (sm_sites (summary_of (logged s))) <-> site_used s x) /\
  (forall f, In f (sm_facs (summary_of (logged s))) <-> facility_used s f) /\
  sm_comps (summary_of (logged s)) = map (fun kv => colon (fst kv) (str_of_Z (snd kv))) (l_comps (logged s)) /\
  sm_svcs (summary_of (logged s))
    = map (fun kv => colon (fst kv) (str_of_Z (snd kv))) (filter (fun kv => negb (str_eqb (fst kv) (S"OVS"))) (tally_services s)) /\
  (forall key, dget key (sm_vmdetails (summary_of (logged s)))
               = countb (str_eqb key) (map vmdetail_key (flat_map vm_caps (sl_nodes s)))).
Proof.
  unfold summary_of. cbn [sm_vms sm_cores sm_p4s sm_sites sm_facs sm_comps sm_svcs sm_vmdetails].
  rewrite log_vms, log_cores, log_switches, log_services, log_vm_caps.
  repeat split; try (apply log_sites); try (apply log_facilities); try reflexivity.
  intro key.
  assert (G : forall l d, dget key (fold_left (fun d c => cnt_inc (vmdetail_key c) d) l d)
                         = (dget key d + countb (str_eqb key) (map vmdetail_key l))%Z).
  { induction l as [|c r IH]; intro d; simpl; [rewrite countb_nil; lia|].
    rewrite IH, dget_inc, countb_cons. lia. }
  rewrite G. simpl. lia.
Qed.

(* C06 proofs, part 1: first-neighbour and two-hop queries (Model/Query6.v). *)
From Coq Require Import List NArith ZArith Bool Lia.
From FIM Require Import Model.Query6.
Import ListNotations.
Open Scope N_scope.

(* ---------- small list facts ---------- *)
Lemma mem_In x l : mem x l = true <-> In x l.
Proof.
  unfold mem. rewrite existsb_exists. split.
  - intros (y & Hy & E). apply N.eqb_eq in E. subst; auto.
  - intros H. exists x. split; auto. apply N.eqb_refl.
Qed.

Lemma mem_false x l : mem x l = false <-> ~ In x l.
Proof.
  rewrite <- mem_In. destruct (mem x l); split; intros H; congruence.
Qed.

Lemma nodupb_NoDup l : nodupb l = true -> NoDup l.
Proof.
  induction l as [|a l IH]; simpl; intros H. constructor.
  apply andb_true_iff in H as [H1 H2]. constructor; auto.
  intro Hin. apply mem_In in Hin. rewrite Hin in H1. discriminate.
Qed.

Lemma NoDup_nodupb l : NoDup l -> nodupb l = true.
Proof.
  induction 1 as [|a l Hn _ IH]; simpl; auto.
  apply andb_true_iff. split; auto. apply negb_true_iff. apply mem_false. auto.
Qed.

Lemma NoDup_map_inj {A B} (f : A -> B) l a b :
  NoDup (map f l) -> In a l -> In b l -> f a = f b -> a = b.
Proof.
  induction l as [|c l IH]; simpl; intros ND Ha Hb E. contradiction.
  inversion ND as [|? ? Hn ND']; subst.
  destruct Ha as [->|Ha], Hb as [->|Hb]; auto.
  - exfalso. apply Hn. rewrite E. apply in_map; auto.
  - exfalso. apply Hn. rewrite <- E. apply in_map; auto.
Qed.

Lemma NoDup_map_filter {A B} (f : A -> B) P l : NoDup (map f l) -> NoDup (map f (filter P l)).
Proof.
  induction l as [|a l IH]; simpl; intros H. constructor.
  inversion H as [|? ? Hn ND]; subst. destruct (P a); simpl; auto.
  constructor; auto. intro Hin. apply Hn.
  apply in_map_iff in Hin as (x & Hx & Hin). apply filter_In in Hin as [Hin _].
  rewrite <- Hx. apply in_map. auto.
Qed.

Lemma filter_filter {A} (P Q : A -> bool) l : filter P (filter Q l) = filter (fun x => Q x && P x) l.
Proof.
  induction l as [|a l IH]; simpl; auto.
  destruct (Q a); simpl; [destruct (P a)|]; rewrite IH; auto.
Qed.

(* ---------- set.difference against a drop list computed from the same list ---------- *)
Lemma memn_filter l Q n : NoDup (map n_int l) -> In n l -> memn n (filter Q l) = Q n.
Proof.
  intros ND Hn. destruct (Q n) eqn:E.
  - unfold memn. apply existsb_exists. exists n. split. apply filter_In; auto. apply N.eqb_refl.
  - apply not_true_is_false. intro H. unfold memn in H.
    apply existsb_exists in H as (m & Hm & Em). apply filter_In in Hm as [Hm Qm].
    apply N.eqb_eq in Em. assert (m = n) by (eapply NoDup_map_inj; eauto). subst. congruence.
Qed.

Lemma difference_filter l P :
  NoDup (map n_int l) -> difference l (filter (fun n => negb (P n)) l) = filter P l.
Proof.
  intros ND. unfold difference. apply filter_ext_in. intros n Hn.
  rewrite memn_filter; auto. apply negb_involutive.
Qed.

Lemma filter_by_label_filter l cls :
  NoDup (map n_int l) -> filter_by_label l cls = filter (fun n => n_cls n =? cls) l.
Proof. intros. unfold filter_by_label. apply difference_filter; auto. Qed.

(* ---------- extract_graph / _find_node ---------- *)
Definition extracted (s : store) (gid : N) : graph :=
  mkGraph (graph_nodes s gid)
          (fun a b => if mem a (map n_int (graph_nodes s gid)) && mem b (map n_int (graph_nodes s gid))
                      then edge_rel (s_edges s) a b else None).

Lemma extract_Ok s gid G : extract s gid = Ok G -> G = extracted s gid /\ graph_nodes s gid <> [].
Proof.
  unfold extract, extracted. destruct (graph_nodes s gid) eqn:E; intros H; inversion H; subst.
  split; auto. discriminate.
Qed.

Lemma extract_nonempty s gid : graph_nodes s gid <> [] -> extract s gid = Ok (extracted s gid).
Proof. unfold extract, extracted. destruct (graph_nodes s gid); intros; [congruence|reflexivity]. Qed.

Lemma graph_nodes_In s gid m : In m (graph_nodes s gid) <-> in_graph s gid m.
Proof.
  unfold graph_nodes, in_graph. rewrite filter_In. rewrite N.eqb_eq. tauto.
Qed.

Lemma find_node_Ok s gid id n : find_node s gid id = Ok n -> in_graph s gid n /\ n_id n = id.
Proof.
  unfold find_node. destruct (filter _ (s_nodes s)) as [|a [|b l]] eqn:E; intros H; inversion H; subst.
  assert (Hin : In n (filter (fun n0 => (n_id n0 =? id) && (n_gid n0 =? gid)) (s_nodes s))) by (rewrite E; left; auto).
  apply filter_In in Hin as [Hin Hb]. apply andb_true_iff in Hb as [H1 H2].
  apply N.eqb_eq in H1, H2. unfold in_graph. auto.
Qed.

Lemma find_node_unique s gid id n n' :
  find_node s gid id = Ok n -> in_graph s gid n' -> n_id n' = id -> n' = n.
Proof.
  intros H [Hin Hg] Hid. subst id. unfold find_node in H.
  assert (Hf : In n' (filter (fun n0 => (n_id n0 =? n_id n') && (n_gid n0 =? gid)) (s_nodes s))).
  { apply filter_In. split; auto. rewrite N.eqb_refl. simpl. apply N.eqb_eq; auto. }
  destruct (filter _ (s_nodes s)) as [|a [|b l]]; inversion H; subst.
  destruct Hf as [Hf|[]]. auto.
Qed.

Lemma find_node_extract s gid id n : find_node s gid id = Ok n -> extract s gid = Ok (extracted s gid).
Proof.
  intros H. apply find_node_Ok in H as [H _]. apply extract_nonempty.
  apply graph_nodes_In in H. intro E. rewrite E in H. contradiction.
Qed.

Lemma keys_graph_nodes s gid : keys_distinct s = true -> NoDup (map n_int (graph_nodes s gid)).
Proof. intros H. apply NoDup_map_filter. apply nodupb_NoDup. exact H. Qed.

Lemma g_rel_extracted s gid n m :
  in_graph s gid n -> in_graph s gid m ->
  g_rel (extracted s gid) (n_int n) (n_int m) = edge_rel (s_edges s) (n_int n) (n_int m).
Proof.
  intros Hn Hm. simpl.
  assert (A : mem (n_int n) (map n_int (graph_nodes s gid)) = true)
    by (apply mem_In, in_map, graph_nodes_In; auto).
  assert (B : mem (n_int m) (map n_int (graph_nodes s gid)) = true)
    by (apply mem_In, in_map, graph_nodes_In; auto).
  rewrite A, B. reflexivity.
Qed.

Lemma rel_is_true G a b rel : rel_is G a b rel = true <-> g_rel G a b = Some rel.
Proof.
  unfold rel_is. destruct (g_rel G a b); split; intros H; try discriminate.
  - apply N.eqb_eq in H. subst; auto.
  - inversion H. apply N.eqb_refl.
Qed.

Lemma adjb_true G a b : adjb G a b = true <-> exists r, g_rel G a b = Some r.
Proof.
  unfold adjb. destruct (g_rel G a b); split; intros H; try discriminate; eauto.
  destruct H; discriminate.
Qed.

Lemma rel_is_adjb G a b rel : rel_is G a b rel = true -> adjb G a b = true.
Proof. intros H. apply rel_is_true in H. apply adjb_true. eauto. Qed.

(* ---------- first neighbours ---------- *)
Lemma first_neighbors_via_filter G a rel :
  NoDup (map n_int (g_nodes G)) ->
  first_neighbors_via G a rel = filter (fun n => rel_is G a (n_int n) rel) (g_nodes G).
Proof.
  intros ND. unfold first_neighbors_via, neighbors.
  rewrite difference_filter by (apply NoDup_map_filter; auto).
  rewrite filter_filter. apply filter_ext. intros n.
  destruct (rel_is G a (n_int n) rel) eqn:E; simpl.
  - rewrite (rel_is_adjb _ _ _ _ E). reflexivity.
  - apply andb_false_r.
Qed.

Lemma first_neighbor_find s gid id rel cls r :
  first_neighbor s gid id rel cls = Ok r -> exists n, find_node s gid id = Ok n.
Proof.
  unfold first_neighbor, bind. destruct (extract s gid); try discriminate.
  destruct (find_node s gid id); try discriminate. eauto.
Qed.

Lemma first_neighbor_unfold s gid id rel cls n :
  keys_distinct s = true -> find_node s gid id = Ok n ->
  first_neighbor s gid id rel cls =
  Ok (map n_id (filter (fun m => n_cls m =? cls)
                 (filter (fun m => rel_is (extracted s gid) (n_int n) (n_int m) rel) (graph_nodes s gid)))).
Proof.
  intros K FN. unfold first_neighbor. rewrite (find_node_extract _ _ _ _ FN). cbn [bind]. rewrite FN. cbn [bind].
  assert (ND : NoDup (map n_int (g_nodes (extracted s gid)))) by (apply keys_graph_nodes; auto).
  rewrite first_neighbors_via_filter by exact ND.
  rewrite filter_by_label_filter by (apply NoDup_map_filter; exact ND).
  reflexivity.
Qed.

Lemma first_neighbor_exact s gid id rel cls r :
  keys_distinct s = true ->
  first_neighbor s gid id rel cls = Ok r ->
  exists n, find_node s gid id = Ok n /\
  forall x, In x r <-> exists m, in_graph s gid m /\ n_id m = x /\ n_cls m = cls /\ joined s n m rel.
Proof.
  intros K H. destruct (first_neighbor_find _ _ _ _ _ _ H) as [n FN]. exists n. split; auto.
  rewrite (first_neighbor_unfold _ _ _ _ _ _ K FN) in H. inversion H; subst. clear H.
  destruct (find_node_Ok _ _ _ _ FN) as [Hn _].
  intro x. rewrite in_map_iff. split.
  - intros (m & Hid & Hin). apply filter_In in Hin as [Hin Hc]. apply filter_In in Hin as [Hin Hr].
    apply graph_nodes_In in Hin. exists m. repeat split; auto; try apply Hin.
    + apply N.eqb_eq; auto.
    + unfold joined. apply rel_is_true in Hr. rewrite g_rel_extracted in Hr; auto.
  - intros (m & Hg & Hid & Hc & Hj). exists m. split; auto.
    apply filter_In. split; [apply filter_In; split|].
    + apply graph_nodes_In; auto.
    + apply rel_is_true. rewrite g_rel_extracted; auto.
    + apply N.eqb_eq; auto.
Qed.

Lemma ids_graph_nodes l gid :
  nodupb2 (map (fun n => (n_gid n, n_id n)) l) = true ->
  NoDup (map n_id (filter (fun n => n_gid n =? gid) l)).
Proof.
  induction l as [|a l IH]; simpl; intros H. constructor.
  apply andb_true_iff in H as [H1 H2]. destruct (n_gid a =? gid) eqn:E; auto.
  simpl. constructor; auto. intro Hin.
  apply in_map_iff in Hin as (m & Hid & Hm). apply filter_In in Hm as [Hm Hg].
  apply negb_true_iff in H1. apply not_true_iff_false in H1. apply H1.
  apply existsb_exists. exists (n_gid m, n_id m). split.
  - apply in_map_iff. exists m. auto.
  - simpl. apply N.eqb_eq in E, Hg. rewrite Hid, Hg, E. rewrite !N.eqb_refl. reflexivity.
Qed.

Lemma first_neighbor_nodup s gid id rel cls r :
  wf_store s = true -> first_neighbor s gid id rel cls = Ok r -> NoDup r.
Proof.
  intros W H. apply andb_true_iff in W as [K I].
  destruct (first_neighbor_find _ _ _ _ _ _ H) as [n FN].
  rewrite (first_neighbor_unfold _ _ _ _ _ _ K FN) in H. inversion H; subst.
  do 2 apply NoDup_map_filter. apply ids_graph_nodes. exact I.
Qed.

Lemma first_neighbor_total s gid id rel cls :
  (exists n, find_node s gid id = Ok n) <-> (exists r, first_neighbor s gid id rel cls = Ok r).
Proof.
  split.
  - intros [n FN]. unfold first_neighbor. rewrite (find_node_extract _ _ _ _ FN). cbn [bind]. rewrite FN.
    cbn [bind]. eauto.
  - intros [r H]. eapply first_neighbor_find; eauto.
Qed.

(* ---------- two-hop query ---------- *)
Lemma memn_const n k l :
  memn k (map (fun _ : node => n) l) = match l with [] => false | _ => n_int n =? n_int k end.
Proof.
  induction l as [|a l IH]; auto.
  unfold memn in *. simpl. rewrite IH. destruct l; destruct (n_int n =? n_int k); auto.
Qed.

Lemma match_nil_filter {A} (P : A -> bool) l : match l with [] => [] | _ => filter P l end = filter P l.
Proof. destruct l; auto. Qed.

Lemma filter_nil {A} (Q : A -> bool) l : filter Q l = [] <-> forall x, In x l -> Q x = false.
Proof.
  induction l as [|a l IH]; simpl. split; auto. intros _ x [].
  destruct (Q a) eqn:E; split.
  - discriminate.
  - intros H. specialize (H a (or_introl eq_refl)). congruence.
  - intros H x [->|Hx]; auto. apply IH; auto.
  - intros H. apply IH. intros x Hx. apply H. auto.
Qed.

Lemma second_of_In G a n rel2 c2 k :
  NoDup (map n_int (g_nodes G)) ->
  (In k (second_of G a n rel2 c2) <->
   In k (g_nodes G) /\ adjb G (n_int n) (n_int k) = true /\ n_cls k = c2 /\ n_int k <> a /\
   (n_int k = n_int n -> forall k', In k' (g_nodes G) -> adjb G (n_int n) (n_int k') = true ->
                         rel_is G (n_int n) (n_int k') rel2 = true)).
Proof.
  intros ND. unfold second_of.
  set (sn := neighbors G (n_int n)).
  set (off := filter (fun k0 => negb (rel_is G (n_int n) (n_int k0) rel2)) sn).
  assert (NDsn : NoDup (map n_int sn)) by (apply NoDup_map_filter; auto).
  rewrite filter_by_label_filter by (apply NoDup_map_filter; auto).
  rewrite match_nil_filter. rewrite filter_In. rewrite filter_In. unfold difference. rewrite filter_In.
  rewrite memn_const. unfold sn at 1. unfold neighbors. rewrite filter_In.
  assert (OFF : off = [] <-> forall k', In k' (g_nodes G) -> adjb G (n_int n) (n_int k') = true ->
                                        rel_is G (n_int n) (n_int k') rel2 = true).
  { unfold off. rewrite filter_nil. unfold sn, neighbors. split.
    - intros H k' Hk Ha. specialize (H k'). rewrite filter_In in H. specialize (H (conj Hk Ha)).
      apply negb_false_iff in H. auto.
    - intros H k' Hk. apply filter_In in Hk as [Hk Ha]. apply negb_false_iff. auto. }
  split.
  - intros [[[[Hk Ha] Hm] Hc] Hs]. apply negb_true_iff in Hm, Hs. apply N.eqb_neq in Hs. apply N.eqb_eq in Hc.
    repeat split; auto.
    intros E. apply OFF. destruct off; auto. rewrite E in Hm. rewrite N.eqb_refl in Hm. discriminate.
  - intros (Hk & Ha & Hc & Hs & Hself).
    split; [split; [split; [split|]|]|]; auto.
    + apply negb_true_iff. destruct off eqn:EO; auto. apply N.eqb_neq. intro E. symmetry in E.
      specialize (Hself E). apply OFF in Hself. discriminate.
    + apply N.eqb_eq; auto.
    + apply negb_true_iff, N.eqb_neq; auto.
Qed.

Lemma fsn_nodes_In G a rel1 c1 rel2 c2 m k :
  NoDup (map n_int (g_nodes G)) ->
  (In (m, k) (fsn_nodes G a rel1 c1 rel2 c2) <->
   In m (g_nodes G) /\ rel_is G a (n_int m) rel1 = true /\ n_cls m = c1 /\ In k (second_of G a m rel2 c2)).
Proof.
  intros ND. unfold fsn_nodes.
  change (difference (neighbors G a) (filter (fun n => negb (rel_is G a (n_int n) rel1)) (neighbors G a)))
    with (first_neighbors_via G a rel1).
  rewrite first_neighbors_via_filter by auto.
  set (fn1 := filter (fun n => rel_is G a (n_int n) rel1) (g_nodes G)).
  assert (E : match fn1 with
              | [] => []
              | _ => flat_map (fun n => map (fun k0 => (n, k0)) (second_of G a n rel2 c2)) (filter_by_label fn1 c1)
              end = flat_map (fun n => map (fun k0 => (n, k0)) (second_of G a n rel2 c2)) (filter_by_label fn1 c1)).
  { destruct fn1; reflexivity. }
  rewrite E. clear E.
  rewrite filter_by_label_filter by (apply NoDup_map_filter; auto).
  rewrite in_flat_map. split.
  - intros (n & Hn & Hin). apply in_map_iff in Hin as (k0 & Epair & Hk0). inversion Epair; subst.
    apply filter_In in Hn as [Hn Hc]. apply filter_In in Hn as [Hn Hr]. apply N.eqb_eq in Hc. auto.
  - intros (Hm & Hr & Hc & Hk). exists m. split.
    + apply filter_In. split. apply filter_In; auto. apply N.eqb_eq; auto.
    + apply in_map_iff. exists k; auto.
Qed.

Lemma fsn_find s gid id rel1 c1 rel2 c2 r :
  first_and_second_neighbor s gid id rel1 c1 rel2 c2 = Ok r -> exists n, find_node s gid id = Ok n.
Proof.
  unfold first_and_second_neighbor, bind. destruct (extract s gid); try discriminate.
  destruct (find_node s gid id); try discriminate. eauto.
Qed.

Lemma fsn_total s gid id rel1 c1 rel2 c2 :
  (exists n, find_node s gid id = Ok n) <-> (exists r, first_and_second_neighbor s gid id rel1 c1 rel2 c2 = Ok r).
Proof.
  split.
  - intros [n FN]. unfold first_and_second_neighbor. rewrite (find_node_extract _ _ _ _ FN). cbn [bind].
    rewrite FN. cbn [bind]. eauto.
  - intros [r H]. eapply fsn_find; eauto.
Qed.

(* what the code returns, exactly *)
Lemma second_neighbor_returned s gid id rel1 c1 rel2 c2 r :
  keys_distinct s = true ->
  first_and_second_neighbor s gid id rel1 c1 rel2 c2 = Ok r ->
  exists n, find_node s gid id = Ok n /\
  forall b c, In (b, c) r <-> second_coded s gid n rel1 c1 rel2 c2 b c.
Proof.
  intros K H. destruct (fsn_find _ _ _ _ _ _ _ _ H) as [n FN]. exists n. split; auto.
  unfold first_and_second_neighbor in H. rewrite (find_node_extract _ _ _ _ FN) in H. cbn [bind] in H.
  rewrite FN in H. cbn [bind] in H. inversion H; subst. clear H.
  destruct (find_node_Ok _ _ _ _ FN) as [Hn _].
  assert (ND : NoDup (map n_int (g_nodes (extracted s gid)))) by (apply keys_graph_nodes; auto).
  intros b c. rewrite in_map_iff. unfold second_coded. split.
  - intros ([m k] & Epair & Hin). simpl in Epair. inversion Epair; subst. clear Epair.
    apply fsn_nodes_In in Hin; auto. destruct Hin as (Hm & Hr & Hc & Hk).
    apply second_of_In in Hk; auto. destruct Hk as (Hk & Ha & Hc2 & Hs & Hself).
    change (g_nodes (extracted s gid)) with (graph_nodes s gid) in *.
    apply graph_nodes_In in Hm, Hk.
    exists m, k. repeat split; auto; try apply Hm; try apply Hk.
    + unfold joined. apply rel_is_true in Hr. rewrite g_rel_extracted in Hr; auto.
    + apply adjb_true in Ha as [r' Ha]. rewrite g_rel_extracted in Ha; auto. exists r'. exact Ha.
    + intros E k' r' Hk' Hj. specialize (Hself E k').
      assert (Ha' : adjb (extracted s gid) (n_int m) (n_int k') = true).
      { apply adjb_true. exists r'. rewrite g_rel_extracted; auto. }
      specialize (Hself (proj2 (graph_nodes_In _ _ _) Hk') Ha').
      apply rel_is_true in Hself. rewrite g_rel_extracted in Hself; auto.
      unfold joined in Hj. congruence.
  - intros (m & k & Hm & Hk & Hb & Hc & Hj & Hc1 & [r' Hj2] & Hc2 & Hs & Hself).
    exists (m, k). simpl. split. congruence.
    apply fsn_nodes_In; auto. change (g_nodes (extracted s gid)) with (graph_nodes s gid).
    repeat split; auto.
    + apply graph_nodes_In; auto.
    + apply rel_is_true. rewrite g_rel_extracted; auto.
    + apply second_of_In; auto. change (g_nodes (extracted s gid)) with (graph_nodes s gid).
      repeat split; auto.
      * apply graph_nodes_In; auto.
      * apply adjb_true. exists r'. rewrite g_rel_extracted; auto.
      * intros E k' Hk' Ha'. apply graph_nodes_In in Hk'.
        apply adjb_true in Ha' as [r2 Ha']. rewrite g_rel_extracted in Ha'; auto.
        apply rel_is_true. rewrite g_rel_extracted; auto.
        rewrite (Hself E k' r2 Hk' Ha') in Ha'. exact Ha'.
Qed.

(* the start node never comes back as a second neighbour *)
Lemma second_neighbor_never_start s gid id rel1 c1 rel2 c2 r b c :
  keys_distinct s = true ->
  first_and_second_neighbor s gid id rel1 c1 rel2 c2 = Ok r -> In (b, c) r -> c <> id.
Proof.
  intros K H Hin. destruct (second_neighbor_returned _ _ _ _ _ _ _ _ K H) as (n & FN & Hr).
  apply Hr in Hin. destruct Hin as (m & k & Hm & Hk & Hb & Hc & _ & _ & _ & _ & Hs & _).
  intro E. apply Hs. rewrite (find_node_unique _ _ _ _ k FN Hk); auto. congruence.
Qed.

(* under the hypothesis that excludes the defect's signature the two-hop query is exact *)
Lemma second_neighbor_exact_partial s gid id rel1 c1 rel2 c2 r :
  keys_distinct s = true ->
  rel2_uniformb s gid id rel1 c1 rel2 c2 = true ->
  first_and_second_neighbor s gid id rel1 c1 rel2 c2 = Ok r ->
  exists n, find_node s gid id = Ok n /\
  forall b c, In (b, c) r <-> second_spec s gid n rel1 c1 rel2 c2 b c.
Proof.
  intros K U H. destruct (second_neighbor_returned _ _ _ _ _ _ _ _ K H) as (n & FN & Hr).
  exists n. split; auto. intros b c. rewrite Hr. clear Hr H.
  unfold rel2_uniformb in U. rewrite (find_node_extract _ _ _ _ FN), FN in U.
  change (g_nodes (extracted s gid)) with (graph_nodes s gid) in U.
  rewrite forallb_forall in U.
  destruct (find_node_Ok _ _ _ _ FN) as [Hn _].
  assert (UM : forall m, in_graph s gid m -> joined s n m rel1 -> n_cls m = c1 ->
               adjb (extracted s gid) (n_int m) (n_int m) = false /\
               forall k, in_graph s gid k -> n_cls k = c2 -> n_int k <> n_int n ->
                         forall r', joined s m k r' -> r' = rel2).
  { intros m Hm Hj Hc. specialize (U m (proj2 (graph_nodes_In _ _ _) Hm)).
    assert (R1 : rel_is (extracted s gid) (n_int n) (n_int m) rel1 = true)
      by (apply rel_is_true; rewrite g_rel_extracted; auto).
    rewrite R1 in U. rewrite (proj2 (N.eqb_eq _ _) Hc) in U. simpl in U.
    apply andb_true_iff in U as [U1 U2]. split. apply negb_true_iff; auto.
    intros k Hk Hc2 Hs r' Hj2. rewrite forallb_forall in U2.
    specialize (U2 k (proj2 (graph_nodes_In _ _ _) Hk)).
    assert (A : adjb (extracted s gid) (n_int m) (n_int k) = true)
      by (apply adjb_true; exists r'; rewrite g_rel_extracted; auto).
    rewrite A in U2. rewrite (proj2 (N.eqb_eq _ _) Hc2) in U2.
    rewrite (proj2 (N.eqb_neq _ _) Hs) in U2. simpl in U2.
    apply rel_is_true in U2. rewrite g_rel_extracted in U2; auto. unfold joined in Hj2. congruence. }
  unfold second_coded, second_spec. split.
  - intros (m & k & Hm & Hk & Hb & Hc & Hj & Hc1 & [r' Hj2] & Hc2 & Hs & _).
    exists m, k. repeat split; auto; try apply Hm; try apply Hk.
    destruct (UM m Hm Hj Hc1) as [_ U2]. rewrite <- (U2 k Hk Hc2 Hs r' Hj2). exact Hj2.
  - intros (m & k & Hm & Hk & Hb & Hc & Hj & Hc1 & Hj2 & Hc2 & Hs).
    exists m, k. repeat split; auto; try apply Hm; try apply Hk.
    + exists rel2; auto.
    + intros E. exfalso. destruct (UM m Hm Hj Hc1) as [U1 _].
      assert (A : adjb (extracted s gid) (n_int m) (n_int m) = true).
      { apply adjb_true. exists rel2. rewrite g_rel_extracted; auto. unfold joined in Hj2. rewrite E in Hj2. auto. }
      congruence.
Qed.

(* the witness: a -has- b, b -connects- c, b -has- d; (has, NetworkService, connects, ConnectionPoint) from a *)
Definition witness_store : store :=
  mkStore [mkNode 1 1 1 1; mkNode 2 1 2 4; mkNode 3 1 3 5; mkNode 4 1 4 5] [(1, 2, 1); (2, 3, 2); (2, 4, 1)].

Lemma second_neighbor_exact_refuted :
  exists s gid id rel1 c1 rel2 c2 r n b c,
    wf_store s = true /\ first_and_second_neighbor s gid id rel1 c1 rel2 c2 = Ok r /\
    find_node s gid id = Ok n /\ In (b, c) r /\ ~ second_spec s gid n rel1 c1 rel2 c2 b c.
Proof.
  exists witness_store, 1, 1, 1, 4, 2, 5, [(2, 3); (2, 4)], (mkNode 1 1 1 1), 2, 4.
  split; [vm_compute; reflexivity|]. split; [vm_compute; reflexivity|]. split; [vm_compute; reflexivity|].
  split; [right; left; reflexivity|].
  intros (m & k & [Hm _] & [Hk _] & Hb & Hc & _ & _ & Hj2 & _).
  simpl in Hm, Hk.
  destruct Hm as [<-|[<-|[<-|[<-|[]]]]]; simpl in Hb; try discriminate;
  destruct Hk as [<-|[<-|[<-|[<-|[]]]]]; simpl in Hc; try discriminate.
  all: try (vm_compute in Hj2; discriminate).
Qed.

(* ---------- derived helpers ---------- *)
Lemma get_parent_some s gid id rel parent p :
  keys_distinct s = true ->
  get_parent s gid id rel parent = Ok (Some p) ->
  exists n, find_node s gid id = Ok n /\
  forall x, (exists m, in_graph s gid m /\ n_id m = x /\ n_cls m = parent /\ joined s n m rel) <-> x = p.
Proof.
  intros K H. unfold get_parent, bind in H.
  destruct (first_neighbor s gid id rel parent) as [l|] eqn:E; try discriminate.
  destruct l as [|q [|q' l]]; inversion H; subst.
  destruct (first_neighbor_exact _ _ _ _ _ _ K E) as (n & FN & Hx). exists n. split; auto.
  intro x. rewrite <- Hx. simpl. split; [intros [->|[]]; auto | intros ->; auto].
Qed.

Lemma get_parent_none s gid id rel parent :
  get_parent s gid id rel parent = Ok None ->
  exists l, first_neighbor s gid id rel parent = Ok l /\ length l <> 1%nat.
Proof.
  unfold get_parent, bind. destruct (first_neighbor s gid id rel parent) as [l|]; try discriminate.
  intros H. exists l. split; auto. destruct l as [|q [|q' l]]; simpl; try discriminate; lia.
Qed.

Lemma peers_returned V s gid id o :
  keys_distinct s = true ->
  find_peer_connection_points V s gid id = Ok o ->
  exists n, find_node s gid id = Ok n /\
  forall c, (exists l, o = Some l /\ In c l) <->
            (exists b, second_coded s gid n (v_connects V) (v_Link V) (v_connects V) (v_ConnectionPoint V) b c).
Proof.
  intros K H. unfold find_peer_connection_points, bind in H.
  destruct (first_and_second_neighbor s gid id _ _ _ _) as [r|] eqn:E; try discriminate.
  destruct (second_neighbor_returned _ _ _ _ _ _ _ _ K E) as (n & FN & Hr). exists n. split; auto.
  assert (Ho : o = match r with [] => None | _ => Some (map snd r) end) by (destruct r; inversion H; auto).
  clear H. intro c. split.
  - intros (l & Hl & Hc). rewrite Hl in Ho. destruct r as [|q r']; [discriminate|].
    injection Ho as Ho. subst l. change (In c (map snd (q :: r'))) in Hc. apply in_map_iff in Hc as ([b c'] & Ec & Hin). simpl in Ec. subst.
    exists b. apply Hr. exact Hin.
  - intros [b Hb]. apply Hr in Hb. destruct r as [|q r']; [destruct Hb|].
    eexists. split; [exact Ho|]. apply in_map_iff. exists (b, c). auto.
Qed.

Lemma node_cps_returned V s gid id l :
  keys_distinct s = true ->
  get_all_node_or_component_connection_points V s gid id = Ok l ->
  exists n, find_node s gid id = Ok n /\
  (n_cls n = v_NetworkNode V \/ n_cls n = v_Component V \/ n_cls n = v_CompositeNode V) /\
  forall c, In c l <->
            (exists b, second_coded s gid n (v_has V) (v_NetworkService V) (v_connects V) (v_ConnectionPoint V) b c).
Proof.
  intros K H. unfold get_all_node_or_component_connection_points in H.
  destruct (find_node s gid id) as [n|] eqn:FN; try discriminate. cbn [bind] in H.
  destruct ((n_cls n =? v_NetworkNode V) || (n_cls n =? v_Component V) || (n_cls n =? v_CompositeNode V)) eqn:C;
    try discriminate.
  unfold bind in H.
  destruct (first_and_second_neighbor s gid id _ _ _ _) as [r|] eqn:E; try discriminate.
  inversion H; subst. clear H.
  destruct (second_neighbor_returned _ _ _ _ _ _ _ _ K E) as (n' & FN' & Hr).
  assert (n' = n) by congruence. subst n'.
  exists n. split; auto. split.
  - apply orb_true_iff in C as [C|C]; [apply orb_true_iff in C as [C|C]|]; apply N.eqb_eq in C; auto.
  - intro c. rewrite in_map_iff. split.
    + intros ([b c'] & Ec & Hin). simpl in Ec. subst. exists b. apply Hr. exact Hin.
    + intros [b Hb]. exists (b, c). split; auto. apply Hr. exact Hb.
Qed.

(* C10: lemmas relating the executable validation model (Model/Validate10.v) to the declarative
   specification (Model/C10Spec.v), for ARBITRARY tables satisfying the boolean condition table_ok and for
   both settings of the two "what does the code enforce" flags. *)
From Coq Require Import List ZArith String Bool NArith Lia Permutation.
From FIM Require Import Base.C10Types Gen.Constraints Model.Validate10 Model.C10Spec.
Import ListNotations.
Open Scope Z_scope.

(* ---------- small facts ---------- *)
Lemma mem_In : forall x l, mem x l = true <-> In x l.
Proof.
  intros x l. unfold mem. rewrite existsb_exists. split.
  - intros [y [Hy He]]. apply String.eqb_eq in He. subst. exact Hy.
  - intros H. exists x. split; [exact H | apply String.eqb_refl].
Qed.

Lemma mem_false : forall x l, mem x l = false <-> ~ In x l.
Proof.
  intros x l. split.
  - intros H C. apply mem_In in C. congruence.
  - intros H. destruct (mem x l) eqn:E; [|reflexivity]. apply mem_In in E. contradiction.
Qed.

Lemma check_all_ok : forall A (f : A -> result) l, check_all f l = Ok <-> (forall x, In x l -> f x = Ok).
Proof.
  intros A f l. induction l as [|x r IH]; simpl.
  - split; [intros _ y []| reflexivity].
  - destruct (f x) eqn:E.
    + rewrite IH. split.
      * intros H y [<-|Hy]; [exact E | apply H, Hy].
      * intros H y Hy. apply H. right. exact Hy.
    + split; [discriminate|]. intros H. specialize (H x (or_introl eq_refl)). congruence.
Qed.

Lemma assoc_In : forall A k (l : list (string * A)) v, assoc k l = Some v -> In (k, v) l.
Proof.
  intros A k l v. induction l as [|[k' v'] r IH]; simpl; [discriminate|].
  destruct (String.eqb k k') eqn:E.
  - intros H. inversion H. subst. apply String.eqb_eq in E. subst. left. reflexivity.
  - intros H. right. apply IH, H.
Qed.

(* ---------- what table_ok gives for one entry ---------- *)
Lemma table_ok_service : forall T k r, table_ok T = true -> assoc k (t_services T) = Some r ->
  sc_num_instances r = t_no_limit T /\
  (forall p, In p (sc_required r) -> mem p ns_getters = true) /\
  (forall p, In p (sc_forbidden r) -> mem p ns_getters = true).
Proof.
  intros T k r Hok Ha. unfold table_ok in Hok. apply andb_true_iff in Hok. destruct Hok as [Hs _].
  rewrite forallb_forall in Hs. specialize (Hs _ (assoc_In _ _ _ _ Ha)). simpl in Hs.
  apply andb_true_iff in Hs. destruct Hs as [Hs Hf]. apply andb_true_iff in Hs. destruct Hs as [Hi Hr].
  rewrite forallb_forall in Hr, Hf. apply Z.eqb_eq in Hi. auto.
Qed.

Lemma table_ok_node : forall T k r, table_ok T = true -> assoc k (t_nodes T) = Some r ->
  forall p, In p (nc_required r) -> mem p node_getters = true.
Proof.
  intros T k r Hok Ha. unfold table_ok in Hok. apply andb_true_iff in Hok. destruct Hok as [_ Hn].
  rewrite forallb_forall in Hn. specialize (Hn _ (assoc_In _ _ _ _ Ha)). simpl in Hn.
  rewrite forallb_forall in Hn. exact Hn.
Qed.

(* ---------- nodes ---------- *)
Lemma validate_node_spec : forall T n, table_ok T = true ->
  (validate_node T n = Ok <-> node_allowed T n).
Proof.
  intros T n Hok. unfold validate_node, node_allowed.
  destruct (assoc (n_type n) (t_nodes T)) as [r|] eqn:Ha.
  - pose proof (table_ok_node T _ _ Hok Ha) as Hg.
    destruct (forallb (fun p => mem p node_getters && mem p (n_set n)) (nc_required r)) eqn:Er.
    + rewrite forallb_forall in Er.
      destruct (existsb (fun p => mem p (n_set n)) (nc_forbidden r)) eqn:Ef.
      * split; [discriminate|]. intros [r' [Hr' [_ Hf]]]. inversion Hr'; subst r'.
        apply existsb_exists in Ef. destruct Ef as [p [Hp Hm]]. apply mem_In in Hm.
        exfalso. exact (Hf p Hp Hm).
      * split; [|reflexivity]. intros _. exists r. split; [reflexivity|]. split.
        -- intros p Hp. specialize (Er p Hp). apply andb_true_iff in Er. apply mem_In, Er.
        -- intros p Hp Hin. apply mem_In in Hin.
           assert (existsb (fun p => mem p (n_set n)) (nc_forbidden r) = true) as C
             by (apply existsb_exists; exists p; auto). congruence.
    + split; [discriminate|]. intros [r' [Hr' [Hreq _]]]. inversion Hr'; subst r'.
      assert (forallb (fun p => mem p node_getters && mem p (n_set n)) (nc_required r) = true) as C.
      { apply forallb_forall. intros p Hp. rewrite (Hg p Hp). simpl. apply mem_In, Hreq, Hp. }
      congruence.
  - split; [discriminate|]. intros [r [Hr _]]. discriminate.
Qed.

Lemma visible_spec : forall cf n, visible cf n = true <-> node_in_scope cf n.
Proof.
  intros cf n. unfold visible, node_in_scope. rewrite orb_true_iff, negb_true_iff. split.
  - intros [H|H]; [left; exact H|right]. apply String.eqb_neq, H.
  - intros [H|H]; [left; exact H|right]. apply String.eqb_neq, H.
Qed.

Lemma nodes_spec : forall T cf l, table_ok T = true ->
  (check_all (validate_node T) (filter (visible cf) l) = Ok <->
   (forall n, In n l -> node_in_scope cf n -> node_allowed T n)).
Proof.
  intros T cf l Hok. rewrite check_all_ok. split.
  - intros H n Hn Hs. apply (validate_node_spec T n Hok). apply H. apply filter_In. split; [exact Hn|].
    apply visible_spec, Hs.
  - intros H n Hn. apply filter_In in Hn. destruct Hn as [Hn Hv]. apply (validate_node_spec T n Hok).
    apply H; [exact Hn | apply visible_spec, Hv].
Qed.

(* ---------- interfaces ---------- *)
Lemma node_side_spec : forall i e, node_side i = Some e <-> attached_to i e.
Proof.
  intros i e. unfold node_side, attached_to.
  destruct (String.eqb (i_type i) S_ServicePort) eqn:E.
  - apply String.eqb_eq in E. split.
    + intros H. left. split; [exact E|]. destruct (i_peers i) as [[|p [|q l]]|]; try discriminate.
      inversion H. reflexivity.
    + intros [[_ H]|[H _]]; [rewrite H; reflexivity | contradiction].
  - apply String.eqb_neq in E. split.
    + intros H. right. split; [exact E|]. inversion H. reflexivity.
    + intros [[H _]|[_ H]]; [contradiction | rewrite H; reflexivity].
Qed.

Lemma node_ifaces_spec : forall l eps, node_ifaces l = Some eps <-> Forall2 attached_to l eps.
Proof.
  induction l as [|i r IH]; intros eps; simpl.
  - split; [intros H; inversion H; constructor | intros H; inversion H; reflexivity].
  - split.
    + destruct (node_side i) as [e|] eqn:E; [|discriminate].
      destruct (node_ifaces r) as [r'|] eqn:Er; [|discriminate].
      intros H. inversion H. subst. constructor; [apply node_side_spec, E | apply IH; reflexivity].
    + intros H. inversion H as [|i' e r0 eps' Ha Hr]. subst.
      apply node_side_spec in Ha. rewrite Ha. apply IH in Hr. rewrite Hr. reflexivity.
Qed.

Lemma owner_sites_spec : forall eps l, owner_sites eps = Some l <-> Forall2 (fun e a => ep_owner e = Some a) eps l.
Proof.
  induction eps as [|e r IH]; intros l; simpl.
  - split; [intros H; inversion H; constructor | intros H; inversion H; reflexivity].
  - split.
    + destruct (ep_owner e) as [a|] eqn:E; [|discriminate].
      destruct (owner_sites r) as [r'|] eqn:Er; [|discriminate].
      intros H. inversion H. subst. constructor; [exact E | apply IH; reflexivity].
    + intros H. inversion H as [|e' a r0 l' Ha Hr]. subst. rewrite Ha. apply IH in Hr. rewrite Hr. reflexivity.
Qed.

Lemma owner_sites_none : forall eps, owner_sites eps = None -> exists e, In e eps /\ ep_owner e = None.
Proof.
  induction eps as [|e r IH]; simpl; [discriminate|].
  destruct (ep_owner e) as [a|] eqn:E.
  - destruct (owner_sites r) eqn:Er; [discriminate|]. intros _. destruct (IH eq_refl) as [e' [H1 H2]].
    exists e'. auto.
  - intros _. exists e. auto.
Qed.

Lemma owner_sites_spans : forall eps l, owner_sites eps = Some l -> forall a, In a l <-> spans eps a.
Proof.
  intros eps l H. apply owner_sites_spec in H. induction H as [|e a r l' Ha Hr IH]; intros b.
  - split; [intros []| intros [e [[] _]]].
  - simpl. rewrite IH. unfold spans. split.
    + intros [<-|[e' [H1 H2]]]; [exists e; simpl; auto | exists e'; simpl; auto].
    + intros [e' [[<-|H1] H2]]; [left; congruence | right; exists e'; auto].
Qed.

Lemma owner_sites_total : forall eps, (forall e, In e eps -> ep_owner e <> None) -> exists l, owner_sites eps = Some l.
Proof.
  intros eps H. destruct (owner_sites eps) as [l|] eqn:E; [exists l; reflexivity|].
  destruct (owner_sites_none eps E) as [e [H1 H2]]. exfalso. exact (H e H1 H2).
Qed.

Lemma owner_sites_owned : forall eps l, owner_sites eps = Some l -> forall e, In e eps -> ep_owner e <> None.
Proof.
  intros eps l H. apply owner_sites_spec in H. induction H as [|e a r l' Ha Hr IH]; intros e' [].
  - subst. congruence.
  - apply IH. assumption.
Qed.

(* two duplicate-free lists with the same members have the same shape as far as validation looks *)
Lemma same_members_perm : forall (s1 s2 : list osite), NoDup s1 -> NoDup s2 ->
  (forall a, In a s1 <-> In a s2) -> Permutation s1 s2.
Proof. intros. apply NoDup_Permutation; assumption. Qed.

(* ---------- properties of a service ---------- *)
Lemma svc_has_spec : forall s after p, svc_has s after p = true <-> has_prop s after p.
Proof.
  intros s after p. unfold svc_has, has_prop. destruct (String.eqb p S_site) eqn:E.
  - apply String.eqb_eq in E. split.
    + intros H. left. split; [exact E|]. destruct after; [discriminate|discriminate].
    + intros [[_ H]|[H _]]; [destruct after; [reflexivity|congruence] | contradiction].
  - apply String.eqb_neq in E. rewrite mem_In. split.
    + intros H. right. auto.
    + intros [[H _]|[_ H]]; [contradiction|exact H].
Qed.

Lemma check_props_spec : forall T r s eps after k, table_ok T = true -> assoc k (t_services T) = Some r ->
  (check_props r s eps after = Ok <->
   (forall p, In p (sc_required r) -> has_prop s after p) /\
   (forall p, In p (sc_forbidden r) -> ~ has_prop s after p) /\
   (sc_itypes r <> [] -> forall e, In e eps -> In (ep_type e) (sc_itypes r))).
Proof.
  intros T r s eps after k Hok Ha. destruct (table_ok_service T k r Hok Ha) as [_ [Hgr Hgf]].
  unfold check_props.
  assert (check_all (check_required s after) (sc_required r) = Ok <->
          (forall p, In p (sc_required r) -> has_prop s after p)) as R.
  { rewrite check_all_ok. split; intros H p Hp; specialize (H p Hp); unfold check_required in *;
      rewrite (Hgr p Hp) in *.
    - apply svc_has_spec. destruct (svc_has s after p); [reflexivity|discriminate].
    - apply svc_has_spec in H. rewrite H. reflexivity. }
  assert (check_all (check_forbidden s after) (sc_forbidden r) = Ok <->
          (forall p, In p (sc_forbidden r) -> ~ has_prop s after p)) as F.
  { rewrite check_all_ok. split; intros H p Hp; specialize (H p Hp); unfold check_forbidden in *;
      rewrite (Hgf p Hp) in *.
    - intros C. apply svc_has_spec in C. rewrite C in H. discriminate.
    - destruct (svc_has s after p) eqn:E; [|reflexivity]. apply svc_has_spec in E. contradiction. }
  destruct (check_all (check_required s after) (sc_required r)) eqn:E1.
  - destruct (check_all (check_forbidden s after) (sc_forbidden r)) eqn:E2.
    + destruct (sc_itypes r) as [|t rit] eqn:Ei.
      * split; [|reflexivity]. intros _. split; [apply R; reflexivity|]. split; [apply F; reflexivity|].
        intros C. congruence.
      * destruct (forallb (fun e => mem (ep_type e) (t :: rit)) eps) eqn:Et.
        -- split; [|reflexivity]. intros _. split; [apply R; reflexivity|]. split; [apply F; reflexivity|].
           intros _ e He. rewrite forallb_forall in Et. apply mem_In, Et, He.
        -- split; [discriminate|]. intros [_ [_ H]].
           assert (forallb (fun e => mem (ep_type e) (t :: rit)) eps = true) as C.
           { apply forallb_forall. intros e He. apply mem_In. apply H; [discriminate|exact He]. }
           congruence.
    + split; [discriminate|]. intros [_ [H _]]. apply F in H. discriminate.
  - split; [discriminate|]. intros [H _]. apply R in H. discriminate.
Qed.

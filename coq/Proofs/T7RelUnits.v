(* C07 - the relaxed invariant WFr: relation to WF, monotonicity, discharge of exemptions, and THE removal lemma:
   deleting any set of elements (with their edges) keeps WFr for the elements that are not exempt afterwards, provided
   their owners / links / peers survive. *)
From Coq Require Import String List NArith ZArith Bool Arith Lia.
From FIM Require Import Base.Str Gen.Rules Model.T7Graph Model.T7Ops Model.T7WF Model.T7Steps Model.T7Rel
     Proofs.T7Tables Proofs.T7WFRefl Proofs.T7Frame Proofs.T7Units.
Import ListNotations.



Lemma struct_Pr_mono ep ep' g n : (forall x, ep x = true -> ep' x = true) -> struct_Pr ep g n -> struct_Pr ep' g n.
Proof.
  intros H [A [B C]]. split; [exact A|]. split; [|exact C]. intro Hc. destruct (B Hc) as [B1 [B2 B3]].
  repeat split; auto. intros Ht He. apply B3; [exact Ht|]. destruct (ep (nid n)) eqn:E; [|reflexivity]. rewrite (H _ E) in He. discriminate.
Qed.

(* more exemptions are harmless *)
Lemma WFr_mono eo ep eo' ep' g :
  (forall x, eo x = true -> eo' x = true) -> (forall x, ep x = true -> ep' x = true) -> WFr eo ep g -> WFr eo' ep' g.
Proof.
  intros Ho Hp [F V I E D St N]. constructor; auto.
  - intros n Hn He. apply (struct_Pr_mono ep ep' g n Hp). apply St; [exact Hn|].
    destruct (eo (nid n)) eqn:X; [rewrite (Ho _ X) in He; discriminate | reflexivity].
  - eapply ForallOrdPairs_impl_in; [|exact N]. intros a b _ _ H Ha Hb. apply H.
    + destruct (eo (nid a)) eqn:X; [rewrite (Ho _ X) in Ha; discriminate | reflexivity].
    + destruct (eo (nid b)) eqn:X; [rewrite (Ho _ X) in Hb; discriminate | reflexivity].
Qed.

(* exemptions only matter on the elements present *)
Lemma WFr_ext eo ep eo' ep' g :
  (forall n, In n (gnodes g) -> eo' (nid n) = eo (nid n)) -> (forall n, In n (gnodes g) -> ep' (nid n) = ep (nid n)) ->
  WFr eo ep g -> WFr eo' ep' g.
Proof.
  intros Ho Hp [F V I E D St N]. constructor; auto.
  - intros n Hn He. rewrite (Ho n Hn) in He. destruct (St n Hn He) as [A [B C]]. split; [exact A|]. split; [|exact C].
    intro Hc. destruct (B Hc) as [B1 [B2 B3]]. repeat split; auto. intros Ht Hq. rewrite (Hp n Hn) in Hq. auto.
  - eapply ForallOrdPairs_impl_in; [|exact N]. intros a b Ha Hb H Ea Eb. rewrite (Ho a Ha) in Ea. rewrite (Ho b Hb) in Eb. auto.
Qed.

(* a service port whose peer rule does hold need not be exempt *)
Lemma WFr_discharge_ep eo ep g :
  WFr eo ep g ->
  (forall n, In n (gnodes g) -> eo (nid n) = false -> ep (nid n) = true -> ncls n = KCP -> ntyp n = Some sServicePort ->
             length (peers g (nid n)) = 1) ->
  WFr eo no_exempt g.
Proof.
  intros [F V I E D St N] H. constructor; auto.
  intros n Hn He. destruct (St n Hn He) as [A [B C]]. split; [exact A|]. split; [|exact C].
  intro Hc. destruct (B Hc) as [B1 [B2 B3]]. repeat split; auto. intros Ht _.
  destruct (ep (nid n)) eqn:X; [apply H; auto | apply B3; auto].
Qed.

Lemma FOP_filter_impl {A} (R R' : A -> A -> Prop) (f : A -> bool) l :
  (forall a b, In a l -> In b l -> f a = true -> f b = true -> R a b -> R' a b) ->
  ForallOrdPairs R l -> ForallOrdPairs R' (filter f l).
Proof.
  induction l as [|a l IH]; simpl; intros H F; [constructor|]. inversion F; subst.
  assert (IH' : ForallOrdPairs R' (filter f l)) by (apply IH; [intros; apply H; auto | assumption]).
  destruct (f a) eqn:Fa; [|exact IH']. constructor; [|exact IH'].
  apply Forall_forall. intros b Hb. apply filter_In in Hb as [Hb Fb]. rewrite Forall_forall in H2.
  apply H; auto.
Qed.

(* ---- the removal lemma ---------------------------------------------------------------------------------- *)
Section RemoveR.
Variables (g : graph) (del eo ep eo' ep' : str -> bool).
Let g' := remove_set g del.
Hypothesis W : WFr eo ep g.
Hypothesis CL : closedR g del eo ep eo' ep'.

Lemma rr_keep_where y (F : graph -> str -> rel -> bool) :
  del y = false ->
  (forall j r, del j = false -> F g' j r = F g j r) ->
  (forall j, In j (nb_where g y (F g)) -> del j = false) ->
  nb_where g' y (F g') = nb_where g y (F g).
Proof.
  intros Hy HF Hk. unfold nb_where in *. unfold g'. rewrite (rs_nbrs g del _ Hy).
  induction (nbrs g y) as [|[j r] l IH]; simpl in *; [reflexivity|].
  destruct (F g j r) eqn:E.
  - assert (Hj : del j = false) by (apply Hk; left; reflexivity). rewrite Hj. simpl. rewrite (HF _ _ Hj), E. simpl.
    f_equal. apply IH. intros; apply Hk; right; assumption.
  - destruct (del j) eqn:Hj; simpl; [apply IH; exact Hk|]. rewrite (HF _ _ Hj), E. apply IH. exact Hk.
Qed.

Lemma rr_cls y k : del y = false -> cls_is g' y k = cls_is g y k.
Proof. intro H. apply cls_is_ext. apply (rs_find g del). exact H. Qed.
Lemma rr_typ y t : del y = false -> typ_is g' y t = typ_is g y t.
Proof. intro H. apply typ_is_ext. apply (rs_find g del). exact H. Qed.

Lemma rr_scope m : In m (gnodes g) -> del (nid m) = false -> eo' (nid m) = false -> scope_of g' m = scope_of g m.
Proof.
  intros Hm Hd He. destruct (CL m Hm Hd He) as [_ C]. unfold scope_of. destruct (ncls m) eqn:Hc; try reflexivity.
  - unfold comp_owners. apply (rr_keep_where (nid m) (fun g j r => rel_eqb r Has && (cls_is g j KNode || cls_is g j KComposite)) Hd); [|exact C].
    intros j r Hj. rewrite !(rr_cls _ _ Hj). reflexivity.
  - unfold ns_owners. apply (rr_keep_where (nid m) (fun g j r => rel_eqb r Has && (cls_is g j KNode || cls_is g j KComposite || cls_is g j KComp)) Hd); [|exact C].
    intros j r Hj. rewrite !(rr_cls _ _ Hj). reflexivity.
  - destruct C as [C _]. unfold cp_owners.
    apply (rr_keep_where (nid m) (fun g j r => rel_eqb r Connects && (cls_is g j KNS || typ_is g (nid m) sSubInterface && cls_is g j KCP && negb (typ_is g j sSubInterface))) Hd); [|exact C].
    intros j r Hj. rewrite !(rr_cls _ _ Hj), (rr_typ _ _ Hj), (rr_typ _ _ Hd). reflexivity.
Qed.

Lemma rr_first_keep y r k : del y = false -> (forall j, In j (first_nb g y r k) -> del j = false) ->
  first_nb g' y r k = first_nb g y r k.
Proof.
  intros Hy Hk. rewrite !first_nb_as_where.
  apply (rr_keep_where y (fun g j r' => rel_eqb r' r && cls_is g j k) Hy); [|exact Hk].
  intros j0 r0 Hj. rewrite (rr_cls _ _ Hj). reflexivity.
Qed.
Lemma rr_first_sub y r k j : del y = false -> In j (first_nb g' y r k) -> In j (first_nb g y r k) /\ del j = false.
Proof.
  intros Hy H. apply In_first_nb in H as [H1 H2]. unfold g' in H1. rewrite (rs_nbrs g del _ Hy) in H1.
  apply filter_In in H1 as [H1 H3]. simpl in H3. apply negb_true_iff in H3. split; [|exact H3].
  apply In_first_nb. split; [exact H1|]. rewrite <- (rr_cls _ _ H3). exact H2.
Qed.

Theorem WFr_remove_set_sec : WFr eo' ep' g'.
Proof.
  constructor.
  - intros m Hm. unfold g', remove_set in Hm. simpl in Hm. apply filter_In in Hm as [Hm _]. apply (r_fields _ _ _ W); exact Hm.
  - intros m Hm. unfold g', remove_set in Hm. simpl in Hm. apply filter_In in Hm as [Hm _]. apply (r_vocab _ _ _ W); exact Hm.
  - unfold g', remove_set. simpl. pose proof (r_ids _ _ _ W) as ND. induction (gnodes g) as [|n l IH]; simpl; [constructor|].
    inversion ND; subst. destruct (negb (del (nid n))); simpl; [|auto]. constructor; [|auto].
    intro Hin. apply H1. apply in_map_iff in Hin as [z [E Hz]]. apply filter_In in Hz as [Hz _]. rewrite <- E. apply in_map. exact Hz.
  - intros e He. unfold g', remove_set in He. simpl in He. apply filter_In in He as [He Hd].
    apply andb_true_iff in Hd as [Da Db]. destruct (r_edge_ends _ _ _ W _ He) as [[na [A1 A2]] [nb [B1 B2]]].
    split; [exists na | exists nb]; (split; [|assumption]); unfold g', remove_set; simpl; apply filter_In; (split; [assumption|]); congruence.
  - unfold g', remove_set. simpl. apply ForallOrdPairs_filter. apply (r_edges_distinct _ _ _ W).
  - intros m Hm He. unfold g', remove_set in Hm. simpl in Hm. apply filter_In in Hm as [Hm Hd]. apply negb_true_iff in Hd.
    destruct (CL m Hm Hd He) as [Eo C]. pose proof (r_struct _ _ _ W _ Hm Eo) as [S1 [S2 S3]].
    pose proof (rr_scope m Hm Hd He) as SC. unfold scope_of in SC.
    split; [|split]; intro Hk; rewrite Hk in C, SC.
    + rewrite SC. auto.
    + destruct C as [C1 C2]. destruct (S2 Hk) as [P1 [P2 P3]]. split; [|split].
      * rewrite SC. exact P1.
      * intros j Hj. apply (rr_first_sub _ _ _ _ Hd) in Hj as [Hj Hdj]. rewrite (rr_typ _ _ Hd), (rr_typ _ _ Hdj). auto.
      * intros Ht Hp. destruct (C2 Ht Hp) as [Ep C3]. specialize (P3 Ht Ep). unfold peers in *. rewrite <- P3.
        rewrite (rr_first_keep _ _ _ Hd (fun l Hl => proj1 (C3 l Hl))).
        f_equal. apply flat_map_ext_in. intros l Hl. destruct (C3 l Hl) as [Dl Dy]. rewrite (rr_first_keep _ _ _ Dl Dy). reflexivity.
    + intros j r Hin. unfold g' in Hin. rewrite (rs_nbrs g del _ Hd) in Hin. apply filter_In in Hin as [Hin Hdj]. simpl in Hdj. apply negb_true_iff in Hdj.
      destruct (S3 Hk _ _ Hin) as [A B]. split; [exact A|]. rewrite (rr_cls _ _ Hdj). exact B.
  - unfold names_P. change (gnodes g') with (filter (fun n => negb (del (nid n))) (gnodes g)).
    eapply FOP_filter_impl; [|exact (r_names _ _ _ W)].
    intros a b Ha Hb Fa Fb H Ea Eb. simpl in Fa, Fb, H. apply negb_true_iff in Fa. apply negb_true_iff in Fb.
    destruct (CL a Ha Fa Ea) as [Oa _]. destruct (CL b Hb Fb Eb) as [Ob _]. specialize (H Oa Ob).
    unfold name_clash in *. rewrite (rr_scope a Ha Fa Ea), (rr_scope b Hb Fb Eb). exact H.
Qed.
End RemoveR.

Theorem WFr_remove_set g del eo ep eo' ep' : WFr eo ep g -> closedR g del eo ep eo' ep' -> WFr eo' ep' (remove_set g del).
Proof. intros W C. exact (WFr_remove_set_sec g del eo ep eo' ep' W C). Qed.

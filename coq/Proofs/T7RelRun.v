(* C07 - the removal programs, run: on a graph with distinct ids and no dangling edges every query succeeds, and a
   sequence of delete_node calls is the removal of a set. *)
From Coq Require Import String List NArith ZArith Bool Arith Lia.
From FIM Require Import Base.Str Gen.Rules Model.T7Graph Model.T7Ops Model.T7WF Model.T7Steps Model.T7Rel
     Proofs.T7Tables Proofs.T7WFRefl Proofs.T7Frame Proofs.T7Units Proofs.T7Api Proofs.T7RelUnits.
Import ListNotations.

Definition sane (g : graph) : Prop := NoDup (map nid (gnodes g)) /\ (forall e, In e (gedges g) -> edge_ends_P g e).
Lemma WFr_sane eo ep g : WFr eo ep g -> sane g.
Proof. intros W. split; [apply (r_ids _ _ _ W) | apply (r_edge_ends _ _ _ W)]. Qed.

Lemma q_first_nb_ok x r k s : sane (sg s) -> has_id (sg s) x = true -> q_first_nb x r k s = (s, Ok (first_nb (sg s) x r k)).
Proof.
  intros [ND _] H. destruct (find1_ok x s ND H) as [n E]. unfold q_first_nb, bind, getg, ret. rewrite E. reflexivity.
Qed.

Lemma filterM_pure {A} (f : A -> M bool) (F : A -> bool) l s :
  (forall a, In a l -> f a s = (s, Ok (F a))) -> filterM f l s = (s, Ok (filter F l)).
Proof.
  induction l as [|a l IH]; simpl; intro H; [reflexivity|].
  unfold bind. rewrite (H a (or_introl eq_refl)). rewrite IH by (intros; apply H; right; assumption). unfold ret.
  destruct (F a); reflexivity.
Qed.
Lemma mapM_pure {A B} (f : A -> M B) (F : A -> B) l s :
  (forall a, In a l -> f a s = (s, Ok (F a))) -> mapM f l s = (s, Ok (map F l)).
Proof.
  induction l as [|a l IH]; simpl; intro H; [reflexivity|].
  unfold bind. rewrite (H a (or_introl eq_refl)). rewrite IH by (intros; apply H; right; assumption). reflexivity.
Qed.
Lemma concatM_pure {A B} (f : A -> M (list B)) (F : A -> list B) l s :
  (forall a, In a l -> f a s = (s, Ok (F a))) -> concatM f l s = (s, Ok (flat_map F l)).
Proof.
  intro H. unfold concatM, bind. rewrite (mapM_pure f F l s H). unfold ret. rewrite flat_map_concat_map. reflexivity.
Qed.

(* ---- deleting a list of elements ------------------------------------------------------------------------------ *)
Lemma remove_set_twice g d1 d2 : remove_set (remove_set g d1) d2 = remove_set g (fun y => d1 y || d2 y).
Proof.
  unfold remove_set. simpl. f_equal.
  - induction (gnodes g) as [|n l IH]; simpl; [reflexivity|]. destruct (d1 (nid n)); simpl; [exact IH|]. destruct (d2 (nid n)); simpl; [exact IH | f_equal; exact IH].
  - induction (gedges g) as [|e l IH]; simpl; [reflexivity|].
    destruct (d1 (ea e)); simpl; [exact IH|]. destruct (d1 (eb e)); simpl; [rewrite ?andb_false_r; exact IH|].
    destruct (negb (d2 (ea e)) && negb (d2 (eb e))); simpl; [f_equal; exact IH | exact IH].
Qed.
Lemma remove_set_ext g d1 d2 : (forall y, d1 y = d2 y) -> remove_set g d1 = remove_set g d2.
Proof.
  intro H. unfold remove_set. f_equal.
  - apply filter_ext. intro n. rewrite H. reflexivity.
  - apply filter_ext. intro e. rewrite !H. reflexivity.
Qed.
Lemma remove_set_none g : remove_set g (fun _ => false) = g.
Proof.
  unfold remove_set. destruct g as [ns es]. simpl. f_equal; apply filter_id; reflexivity.
Qed.

Lemma sane_remove_set g d : sane g -> sane (remove_set g d).
Proof.
  intros [ND E]. split.
  - unfold remove_set. simpl. induction (gnodes g) as [|n l IH]; simpl; [constructor|].
    inversion ND; subst. destruct (negb (d (nid n))); simpl; [|auto]. constructor; [|auto].
    intro Hin. apply H1. apply in_map_iff in Hin as [z [Ez Hz]]. apply filter_In in Hz as [Hz _]. rewrite <- Ez. apply in_map. exact Hz.
  - intros e He. unfold remove_set in He. simpl in He. apply filter_In in He as [He Hd].
    apply andb_true_iff in Hd as [Da Db]. destruct (E _ He) as [[na [A1 A2]] [nb [B1 B2]]].
    split; [exists na | exists nb]; (split; [|assumption]); unfold remove_set; simpl; apply filter_In; (split; [assumption|]); congruence.
Qed.
Lemma has_id_remove_keep g d y : has_id g y = true -> d y = false -> has_id (remove_set g d) y = true.
Proof.
  intros H Hd. apply has_id_In in H as [n [Hn E]]. apply has_id_In. exists n. split; [|exact E].
  unfold remove_set. simpl. apply filter_In. split; [exact Hn|]. rewrite E, Hd. reflexivity.
Qed.

Lemma delete_node_ok x s : sane (sg s) -> has_id (sg s) x = true ->
  delete_node x s = (mkSt (remove_set (sg s) (fun y => str_eqb y x)) (sdr s), Ok tt).
Proof.
  intros [ND _] H. destruct (find1_ok x s ND H) as [n E]. unfold delete_node, bind, getg, putg. rewrite E. reflexivity.
Qed.

Lemma del_seq : forall l s, sane (sg s) -> NoDup l -> (forall x, In x l -> has_id (sg s) x = true) ->
  for_each l delete_node s = (mkSt (remove_set (sg s) (fun y => mem_str y l)) (sdr s), Ok tt).
Proof.
  induction l as [|x l IH]; intros s Hs ND Hx; simpl.
  - unfold ret. rewrite remove_set_none. destruct s; reflexivity.
  - inversion ND; subst. unfold bind. rewrite (delete_node_ok x s Hs (Hx x (or_introl eq_refl))).
    rewrite IH; simpl.
    + rewrite remove_set_twice. reflexivity.
    + apply sane_remove_set. exact Hs.
    + exact H2.
    + intros z Hz. apply has_id_remove_keep; [apply Hx; right; exact Hz|]. apply str_eqb_neq. intro E. subst. contradiction.
Qed.

Lemma mem_str_dedup x l : mem_str x (dedup l) = mem_str x l.
Proof.
  induction l as [|y l IH]; simpl; [reflexivity|]. destruct (mem_str y l) eqn:E; simpl.
  - rewrite IH. destruct (str_eqb x y) eqn:Exy; [|reflexivity]. apply str_eqb_eq in Exy. subst. rewrite E. reflexivity.
  - rewrite IH. reflexivity.
Qed.
Lemma NoDup_dedup l : NoDup (dedup l).
Proof.
  induction l as [|y l IH]; simpl; [constructor|]. destruct (mem_str y l) eqn:E; [exact IH|].
  constructor; [|exact IH]. intro H. apply mem_str_In in H. rewrite mem_str_dedup in H. congruence.
Qed.
Lemma In_dedup x l : In x (dedup l) <-> In x l.
Proof. rewrite <- !mem_str_In. rewrite mem_str_dedup. tauto. Qed.

(* ---- remove_cp_and_links, run --------------------------------------------------------------------------------- *)
Lemma cp_unit_run x dp s : sane (sg s) -> has_id (sg s) x = true ->
  remove_cp_and_links x dp s = (mkSt (remove_set (sg s) (fun y => mem_str y (D_cp (sg s) x dp))) (sdr s), Ok tt).
Proof.
  intros Hs Hx. pose proof Hs as [ND E]. unfold remove_cp_and_links.
  unfold bind at 1. rewrite (q_first_nb_ok x Connects KCP s Hs Hx).
  assert (Hnb : forall y r k j, In j (first_nb (sg s) y r k) -> has_id (sg s) j = true)
    by (intros y r k j Hj; eapply first_nb_has_id; eauto).
  unfold bind at 1.
  rewrite (filterM_pure _ (fun p => len_is (first_nb (sg s) p Connects KCP) 1 && dp) (first_nb (sg s) x Connects KCP) s).
  2:{ intros p Hp. unfold bind. rewrite (q_first_nb_ok p Connects KCP s Hs (Hnb _ _ _ _ Hp)). reflexivity. }
  fold (cp_extra (sg s) x dp). fold (cp_ifs (sg s) x dp).
  assert (Hifs : forall i, In i (cp_ifs (sg s) x dp) -> has_id (sg s) i = true).
  { intros i Hi. unfold cp_ifs in Hi. apply (proj1 (In_dedup _ _)) in Hi. destruct Hi as [<-|Hi]; [exact Hx|]. unfold cp_extra in Hi. apply filter_In in Hi as [Hi _]. eapply Hnb; eauto. }
  unfold bind at 1.
  rewrite (concatM_pure _ (fun i => filter (fun l => len_is (first_nb (sg s) l Connects KCP) 2) (first_nb (sg s) i Connects KLink)) (cp_ifs (sg s) x dp) s).
  2:{ intros i Hi. unfold bind. rewrite (q_first_nb_ok i Connects KLink s Hs (Hifs i Hi)).
      apply filterM_pure. intros l Hl. unfold bind. rewrite (q_first_nb_ok l Connects KCP s Hs (Hnb _ _ _ _ Hl)). reflexivity. }
  fold (cp_links (sg s) x dp). fold (D_cp (sg s) x dp).
  apply del_seq; [exact Hs | apply NoDup_dedup |].
  intros y Hy. unfold D_cp in Hy. apply (proj1 (In_dedup _ _)) in Hy. apply in_app_or in Hy as [Hy|Hy]; [apply Hifs; exact Hy|].
  unfold cp_links in Hy. apply in_flat_map in Hy as [i [Hi Hy]]. apply filter_In in Hy as [Hy _]. eapply Hnb; eauto.
Qed.

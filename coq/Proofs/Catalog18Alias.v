(* C18: aliasing of the caller's label objects.  With pairwise distinct label objects what the caller sees is
   exactly gen_component (so C18_component speaks about it); with one object handed to two ports it is not:
   both ports show the last port's local_name (refuted witness). *)
From Coq Require Import List ZArith NArith Bool Lia String.
From FIM Require Import Base.Str Base.PySort Gen.Catalog Model.Catalog18 Proofs.Catalog18Comp.
Import ListNotations.
Open Scope Z_scope.

Lemma mapi_from_id {X} (f : nat -> X -> X) : forall l j0,
  (forall j x, nth_error l j = Some x -> f (j0 + j)%nat x = x) -> mapi_from f j0 l = l.
Proof.
  induction l as [|x l IH]; intros j0 H; simpl; [reflexivity|].
  rewrite (IH (Datatypes.S j0)).
  - pose proof (H O x eq_refl) as H0. rewrite Nat.add_0_r in H0. rewrite H0. reflexivity.
  - intros j y Hy. rewrite Nat.add_succ_comm. apply (H (Datatypes.S j) y Hy).
Qed.

Lemma filter_unique {X} (g : X -> N) : forall (L : list X) j x,
  NoDup (map g L) -> nth_error L j = Some x -> filter (fun y => N.eqb (g y) (g x)) L = [x].
Proof.
  induction L as [|y L IH]; intros j x Hnd Hn; [destruct j; discriminate|].
  simpl in Hnd. inversion Hnd as [|? ? Hnotin Hnd']; subst.
  destruct j as [|j]; simpl in Hn.
  - inversion Hn; subst. simpl. rewrite N.eqb_refl. f_equal.
    assert (Hnone : forall z, In z L -> N.eqb (g z) (g x) = false).
    { intros z Hz. apply N.eqb_neq. intro E. apply Hnotin. rewrite <- E. apply in_map. exact Hz. }
    clear -Hnone. induction L as [|z L IH]; simpl; [reflexivity|].
    rewrite (Hnone z (or_introl eq_refl)). apply IH. intros w Hw. apply Hnone. right. exact Hw.
  - simpl. assert (E : N.eqb (g y) (g x) = false).
    { apply N.eqb_neq. intro E. apply Hnotin. rewrite E. apply in_map. eapply nth_error_In. exact Hn. }
    rewrite E. apply (IH j x Hnd' Hn).
Qed.

Lemma nth_error_combine {X Y} : forall (a : list X) (b : list Y) j x y,
  nth_error a j = Some x -> nth_error b j = Some y -> nth_error (combine a b) j = Some (x, y).
Proof.
  induction a as [|x0 a IH]; intros [|y0 b] [|j] x y Ha Hb; simpl in *; try discriminate.
  - inversion Ha; inversion Hb; reflexivity.
  - apply IH; assumption.
Qed.

Lemma set_local_same i : set_local i (if_local i) = i.
Proof. destruct i; reflexivity. Qed.

(* "the label objects handed to the ports are pairwise distinct objects" *)
Definition labels_distinct (ports : list (str * Z)) (l : list lab) : Prop :=
  NoDup (map (fun pl : str * lab => lab_tag (snd pl)) (combine (map fst ports) l)).

Theorem seen_is_gen_component_when_distinct cat e name nsid ids labs parent :
  find_entry cat (e_model e) (e_type e) = Some e ->
  type_from_str (e_type e) = Some (e_type e) ->
  entry_args_wf e ids labs = true ->
  (forall ports l, e_ifs e = Some ports -> labs = Some l -> labels_distinct ports l) ->
  gen_component_seen cat name (ByTypeModel (Some (e_type e)) (Some (e_model e))) nsid ids labs parent
  = gen_component cat name (ByTypeModel (Some (e_type e)) (Some (e_model e))) nsid ids labs parent.
Proof.
  intros Hf Ht Hwf Hd.
  destruct (gen_component_spec cat e name nsid ids labs parent Hf Ht Hwf) as [c [Hc Hs]].
  unfold gen_component_seen, gen_component_seen_with. rewrite Hc. unfold sel_ports. rewrite Hf.
  destruct labs as [l|]; [|reflexivity].
  destruct (e_ifs e) as [ports|] eqn:Ei; [|reflexivity].
  destruct stamps_caller_labels; [|reflexivity]. f_equal.
  destruct Hs as [_ [_ [_ [_ Hns]]]]. rewrite Ei in Hns. destruct Hns as [ns [Hcns [_ [Hlen Hifs]]]].
  specialize (Hd ports l eq_refl eq_refl).
  destruct c as [cn cm ct cd cns]. cbn [c_ns] in Hcns. subst cns. unfold alias_comp. cbn [c_name c_model c_type c_details c_ns].
  f_equal. f_equal. destruct ns as [nid nname ntype nlayer ifs]. cbn [ns_id ns_name ns_type ns_layer ns_ifs] in *. f_equal.
  apply mapi_from_id. intros j i Hj. simpl.
  assert (Hlt : (j < List.length ports)%nat) by (rewrite <- Hlen; apply nth_error_Some; congruence).
  destruct (nth_error ports j) as [p|] eqn:Ep; [|apply nth_error_None in Ep; lia].
  destruct (Hifs j p Ep) as [i' [Hi' Hspec]]. rewrite Hj in Hi'. inversion Hi'; subst i'.
  destruct Hspec as [_ [_ [_ [_ [lb [Hlb [_ [Hbdf [Hloc _]]]]]]]]].
  unfold alias_iface. rewrite Hlb. unfold owner_port.
  assert (Hc2 : nth_error (combine (map fst ports) l) j = Some (fst p, lb)).
  { apply nth_error_combine; [apply map_nth_error; exact Ep|exact Hlb]. }
  pose proof (filter_unique (fun pl : str * lab => lab_tag (snd pl)) _ j (fst p, lb) Hd Hc2) as Hu.
  cbn [snd] in Hu. rewrite Hu.
  simpl. rewrite Hbdf, <- Hloc. apply set_local_same.
Qed.

(* the code attaches a COPY of each caller-supplied Labels object (flag read from the source by the translator) *)
Lemma labels_are_copied : stamps_caller_labels = false.
Proof. vm_cast_no_check (eq_refl false). Qed.

Lemma seen_with_false cat name s nsid ids labs parent :
  gen_component_seen_with false cat name s nsid ids labs parent = gen_component cat name s nsid ids labs parent.
Proof.
  unfold gen_component_seen_with. destruct (gen_component cat name s nsid ids labs parent) as [c|c]; [|reflexivity].
  destruct labs as [l|]; [|reflexivity]. destruct (sel_ports cat s); reflexivity.
Qed.

Lemma after_with_false cat name s nsid ids labs parent :
  caller_labels_after_with false cat name s nsid ids labs parent
  = match labs with Some l => map (fun _ => None) l | None => [] end.
Proof.
  unfold caller_labels_after_with. destruct labs as [l|]; [|reflexivity]. destruct (sel_ports cat s); reflexivity.
Qed.

(* for ALL arguments, shared label objects included: what the caller sees is gen_component's result and none of the
   label objects it handed over is modified *)
Theorem caller_sees_gen_component : forall cat name s nsid ids labs parent,
  gen_component_seen cat name s nsid ids labs parent = gen_component cat name s nsid ids labs parent /\
  caller_labels_after cat name s nsid ids labs parent = match labs with Some l => map (fun _ => None) l | None => [] end.
Proof.
  intros. unfold gen_component_seen, caller_labels_after. rewrite labels_are_copied.
  split; [apply seen_with_false|apply after_with_false].
Qed.

(* why the copy matters: if the caller's object were attached as is, one object handed to both ports of a two-port
   entry would make the first port show the second port's local_name *)
Theorem stamping_would_alias :
  let e : comp_entry := (S"M", [], S"SmartNIC", S"d", Some [(S"p1", 100); (S"p2", 100)]) in
  let lb := {| lab_bdf := BNone; lab_tag := 0%N |} in
  exists c ns i, gen_component_seen_with true [e] (S"n1") (ByTypeModel (Some (S"SmartNIC")) (Some (S"M"))) None None (Some [lb; lb]) None = Ok c /\
    c_ns c = Some ns /\ nth_error (ns_ifs ns) 0 = Some i /\ if_name i = S"n1-p1" /\ if_local i = LStr (S"p2").
Proof. vm_compute. do 3 eexists. repeat split. Qed.

(* C14 - FULL refinement for whole histories: the store-level model simulates the abstract model, nodes and
   connections; the abstract theorems transfer to the store level. *)
From Coq Require Import List NArith Bool Lia Permutation.
From FIM Require Import Model.Cbm14Store Model.Cbm14Check Model.Cbm14Spec Model.Cbm14Abs Proofs.Cbm14Assoc Proofs.Cbm14Merge
     Proofs.Cbm14Unmerge Proofs.Cbm14Inv Proofs.Cbm14Hist Proofs.Cbm14Dec Proofs.Cbm14Frame Proofs.Cbm14RefBase Proofs.Cbm14RefPrep
     Proofs.Cbm14RefFold Proofs.Cbm14RefMerge Proofs.Cbm14RefUnmerge Proofs.Cbm14RefSnap Proofs.Cbm14RefHist
     Proofs.Cbm14RefEdge Proofs.Cbm14RefEdgePrep Proofs.Cbm14RefEdgeLoop Proofs.Cbm14RefEdgeMerge Proofs.Cbm14RefEdgeOps
     Proofs.Cbm14RefEdgeOther Proofs.Cbm14RefOrder.
Import ListNotations.
Open Scope N_scope.

Definition fhop_of (st : store) (o : op) : hop :=
  match o with
  | OpMerge adm _ => HMerge (abs_adm adm st)
  | OpUnmerge g => HUnmerge g
  | OpSnap new => HSnap new
  | OpRollback sid => HRollback sid
  end.

(* documented domain: as for the node part, and a merged source is a well-formed model without self-loops *)
Definition fpre (cbm : N) (o : op) (st : store) (hs : hstate) : Prop :=
  pre cbm o st hs /\
  match o with OpMerge adm _ => wf_admb (abs_adm adm st) = true /\ noselfb adm st = true | _ => True end.

Record FSim (cbm : N) (st : store) (hs : hstate) : Prop := mkFSim {
  fs_J : J (s_next st) (s_nodes st);
  fs_EB : ebelow (s_next st) (s_edges st);
  fs_ok : cbm_ok cbm (s_nodes st);
  fs_n : forall k, getn k (abs_nodes cbm st) = getn k (nodes (h_cur hs));
  fs_e : forall e, gete e (abs_edges cbm st) = gete e (edges (h_cur hs));
  fs_inv : HInv hs;
  fs_snaps : forall id C ms, getn id (h_snaps hs) = Some (C, ms) ->
             id <> cbm /\ gexists id st = true /\ cbm_ok id (s_nodes st) /\
             (forall k, getn k (abs_nodes id st) = getn k (nodes C)) /\
             (forall e, gete e (abs_edges id st) = gete e (edges C))
}.

Lemma noselfb_sound adm st :
  noselfb adm st = true -> forall n, In n (of_gid adm st) -> edat (s_edges st) (n_int n) (n_int n) = None.
Proof.
  unfold noselfb. rewrite forallb_forall. intros H n Hn. apply edat_none_iff.
  specialize (H n Hn). apply negb_true_iff in H. exact H.
Qed.

Lemma hasn_ext {V} k (l l' : list (N * V)) : getn k l = getn k l' -> hasn k l = hasn k l'.
Proof. intro H. rewrite !hasn_is_some, H. reflexivity. Qed.

Theorem fsim_step cbm o st hs st' :
  FSim cbm st hs -> fpre cbm o st hs -> step cbm o st = OOk st' -> FSim cbm st' (hstep hs (fhop_of st o)).
Proof.
  intros [Jst EB W CN CE HI SN] [P PX] H. pose proof Jst as (U & B & K). destruct HI as [IC IS].
  destruct o as [adm tmp|g|new|sid]; simpl in P, H; simpl fhop_of; unfold hstep; cbv beta iota.
  - (* merge *)
    destruct P as (NE & NA & FR & NM). destruct PX as [WA NSb].
    change (adm_id (abs_adm adm st)) with adm. rewrite NM.
    assert (cbm_wf cbm (s_nodes st)) as W0 by (intros n Hn Gn; apply (W n Hn Gn)).
    pose proof (noselfb_sound adm st NSb) as NS.
    destruct (merge_refines_nodes cbm adm tmp st st' Jst W0 NE NA FR H) as (CF & MG & J' & _ & OT & TN).
    destruct (merge_refines_edges cbm adm tmp st st' Jst EB W0 NE NA FR NS H) as (ME & EB').
    assert (conflict (h_cur hs) (abs_adm adm st) = false) as CF'.
    { rewrite <- CF. unfold conflict. apply existsb_ext'. intros [k a]. simpl. rewrite <- CN. reflexivity. }
    destruct (smerge_defined _ _ CF') as [C' SM]. rewrite SM.
    assert (~ In adm (map adm_id (h_ms hs))) as NIn by (intro X; apply mem_In in X; congruence).
    assert (forall n, In n (s_nodes st) -> n_gid n = cbm -> ~ In adm (abs_con (n_si n))) as NC.
    { intros n Hn Gn X. pose proof (at_uniq cbm (n_nid n) _ n K Hn Gn eq_refl) as A.
      pose proof (CN (n_nid n)) as E. rewrite getn_abs, A in E. simpl in E. symmetry in E.
      apply (Inv_not_contributor _ _ adm IC NIn (n_nid n) (absn n) E). exact X. }
    constructor; cbn [h_cur h_ms h_snaps].
    + exact J'.
    + exact EB'.
    + apply (merge_keeps_ok cbm adm tmp st st' Jst W NE FR NC H).
    + intro k. rewrite MG, get_merge_nodes, (smerge_get_node _ _ _ k SM), CN. reflexivity.
    + intro e. rewrite ME, get_merge_edges, (smerge_get_edge _ _ _ e SM), CE. reflexivity.
    + assert (HInv (hstep hs (HMerge (abs_adm adm st)))) as X.
      { apply HInv_step; [split; auto|]. simpl. apply wf_admb_sound. exact WA. }
      simpl in X. rewrite NM, SM in X. exact X.
    + intros id C ms G. destruct (SN id C ms G) as (N1 & G1 & O1 & A1 & A2).
      assert (id <> tmp) as N2 by (intro; subst; congruence).
      split; auto. split; [apply (gexists_transfer id st st' (fun k => OT id k N1 N2) G1)|].
      split; [apply (ok_transfer id (s_nodes st) (s_nodes st')); [apply J'|intro k; apply OT; auto|exact O1]|].
      split.
      * intro k. rewrite (abs_transfer id st st' (fun k => OT id k N1 N2)). apply A1.
      * intro e. rewrite (merge_other_edges cbm adm tmp st st' id Jst EB W0 NE NA FR H N1 N2 e). apply A2.
  - (* unmerge *)
    destruct (unmerge_refines_nodes cbm g st Jst W P) as (st1 & E & UG & J' & W' & OT).
    rewrite E in H. inversion H; subst st1; clear H.
    destruct (unmerge_refines_edges cbm g st Jst EB W P) as (st2 & E2 & UE & OE & EB').
    rewrite E in E2. inversion E2; subst st2; clear E2.
    pose proof IC as ((ND1 & ND2) & _).
    assert (NoDup (map fst (nodes (abs_cbm cbm st)))) as NDk by (simpl; rewrite keys_abs; apply (ukeys_nids cbm); exact K).
    assert (forall k, getn k (nodes (sunmerge (abs_cbm cbm st) g)) = getn k (nodes (sunmerge (h_cur hs) g))) as SNG.
    { intro k. rewrite (sunmerge_get_node _ g k NDk), (sunmerge_get_node _ g k ND1). simpl nodes. rewrite CN. reflexivity. }
    constructor; cbn [h_cur h_ms h_snaps].
    + exact J'.
    + exact EB'.
    + exact W'.
    + intro k. rewrite UG. apply SNG.
    + intro e. rewrite UE, !sunmerge_get_edge'.
      rewrite (hasn_ext _ _ _ (SNG (fst e))), (hasn_ext _ _ _ (SNG (snd e))).
      change (edges (abs_cbm cbm st)) with (abs_edges cbm st). rewrite CE. reflexivity.
    + assert (HInv (hstep hs (HUnmerge g))) as X by (apply HInv_step; [split; auto|exact I]). exact X.
    + intros id C ms G. destruct (SN id C ms G) as (N1 & G1 & O1 & A1 & A2).
      split; auto. split; [apply (gexists_transfer id st st' (fun k => OT id k N1) G1)|].
      split; [apply (ok_transfer id (s_nodes st) (s_nodes st')); [apply J'|intro k; apply OT; auto|exact O1]|].
      split.
      * intro k. rewrite (abs_transfer id st st' (fun k => OT id k N1)). apply A1.
      * intro e. rewrite (OE id e N1). apply A2.
  - (* snapshot *)
    destruct P as (GE & FR).
    destruct (snapshot_refines_nodes cbm new st Jst GE FR) as (st1 & E & SG & OT & J' & OK').
    rewrite E in H. inversion H; subst st1; clear H.
    destruct (snapshot_refines_edges cbm new st Jst EB GE FR) as (st2 & E2 & SE & OE & EB').
    rewrite E in E2. inversion E2; subst st2; clear E2.
    assert (new <> cbm) as NN by (intro; subst; congruence).
    assert (hasn new (h_snaps hs) = false) as HN.
    { destruct (hasn new (h_snaps hs)) eqn:X; auto. apply (has_get N.eqb) in X as [[C ms] X].
      destruct (SN new C ms X) as (_ & G1 & _). congruence. }
    rewrite HN.
    constructor; cbn [h_cur h_ms h_snaps].
    + exact J'.
    + exact EB'.
    + apply (ok_transfer cbm (s_nodes st) (s_nodes st')); [apply J'|intro k; apply OT; auto|exact W].
    + intro k. rewrite (abs_transfer cbm st st' (fun k => OT cbm k (not_eq_sym NN))). apply CN.
    + intro e. rewrite (OE cbm e (not_eq_sym NN)). apply CE.
    + assert (HInv (hstep hs (HSnap new))) as X by (apply HInv_step; [split; auto|exact I]).
      simpl in X. rewrite HN in X. exact X.
    + intros id C ms G. unfold getn in G. simpl in G. fold (@getn (Cbm14Spec.cbm * list adm)) in G.
      destruct (id =? new) eqn:EI.
      * apply N.eqb_eq in EI. subst id. inversion G; subst C ms.
        split; auto. split; [|split; [apply OK'; exact W|split]].
        -- destruct (gexists_at cbm st GE) as (k & n & A).
           pose proof (SG k) as X. rewrite !getn_abs, A in X. simpl in X.
           destruct (at_ new k (s_nodes st')) as [m|] eqn:A'; [eapply at_gexists; eauto|discriminate].
        -- intro k. rewrite SG. apply CN.
        -- intro e. rewrite SE. apply CE.
      * apply N.eqb_neq in EI. destruct (SN id C ms G) as (N1 & G1 & O1 & A1 & A2).
        split; auto. split; [apply (gexists_transfer id st st' (fun k => OT id k EI) G1)|].
        split; [apply (ok_transfer id (s_nodes st) (s_nodes st')); [apply J'|intro k; apply OT; auto|exact O1]|].
        split.
        -- intro k. rewrite (abs_transfer id st st' (fun k => OT id k EI)). apply A1.
        -- intro e. rewrite (OE id e EI). apply A2.
  - (* rollback *)
    apply (has_get N.eqb) in P as [[C ms] G]. fold (@getn (Cbm14Spec.cbm * list adm)) in G.
    destruct (SN sid C ms G) as (N1 & G1 & O1 & A1 & A2).
    destruct (rollback_refines_nodes cbm sid st Jst N1 G1) as (st1 & E & RG & OT & TS & J' & OK').
    rewrite E in H. inversion H; subst st1; clear H.
    destruct (rollback_refines_edges cbm sid st Jst EB N1 G1) as (st2 & E2 & RE & OE & EB').
    rewrite E in E2. inversion E2; subst st2; clear E2. rewrite G.
    constructor; cbn [h_cur h_ms h_snaps].
    + exact J'.
    + exact EB'.
    + apply OK'. exact O1.
    + intro k. rewrite RG. apply A1.
    + intro e. rewrite RE. apply A2.
    + assert (HInv (hstep hs (HRollback sid))) as X by (apply HInv_step; [split; auto|exact I]).
      simpl in X. rewrite G in X. exact X.
    + intros id C0 ms0 G0. unfold getn in G0.
      rewrite (get_filter_key N.eqb Neq (fun k => negb (k =? sid))) in G0.
      destruct (id =? sid) eqn:EI; simpl in G0; [discriminate|]. apply N.eqb_neq in EI.
      destruct (SN id C0 ms0 G0) as (M1 & M2 & M3 & M4 & M5).
      split; auto. split; [apply (gexists_transfer id st st' (fun k => OT id k M1 EI) M2)|].
      split; [apply (ok_transfer id (s_nodes st) (s_nodes st')); [apply J'|intro k; apply OT; auto|exact M3]|].
      split.
      * intro k. rewrite (abs_transfer id st st' (fun k => OT id k M1 EI)). apply M4.
      * intro e. rewrite (OE id e M1 EI). apply M5.
Qed.

(* ---------- histories ---------- *)
Fixpoint fsim_run (cbm : N) (st : store) (hs : hstate) (ops : list op) : option (store * hstate) :=
  match ops with
  | [] => Some (st, hs)
  | o :: r => match step cbm o st with
              | OOk st' => fsim_run cbm st' (hstep hs (fhop_of st o)) r
              | _ => None
              end
  end.
Fixpoint fpre_run (cbm : N) (st : store) (hs : hstate) (ops : list op) : Prop :=
  match ops with
  | [] => True
  | o :: r => fpre cbm o st hs /\
              match step cbm o st with
              | OOk st' => fpre_run cbm st' (hstep hs (fhop_of st o)) r
              | _ => True
              end
  end.
Fixpoint fhops_run (cbm : N) (st : store) (ops : list op) : list hop :=
  match ops with
  | [] => []
  | o :: r => fhop_of st o :: match step cbm o st with OOk st' => fhops_run cbm st' r | _ => [] end
  end.

Theorem fsim_run_ok cbm ops : forall st hs st' hs',
  FSim cbm st hs -> fpre_run cbm st hs ops -> fsim_run cbm st hs ops = Some (st', hs') ->
  FSim cbm st' hs' /\ hs' = hrun hs (fhops_run cbm st ops).
Proof.
  induction ops as [|o r IH]; intros st hs st' hs' S P H; simpl in *.
  - inversion H; subst. auto.
  - destruct P as [P0 P1]. destruct (step cbm o st) as [s1| |] eqn:E; try discriminate.
    apply (IH s1 _ st' hs'); auto. eapply fsim_step; eauto.
Qed.

Lemma fsim_init cbm st :
  J (s_next st) (s_nodes st) -> ebelow (s_next st) (s_edges st) -> gexists cbm st = false -> FSim cbm st hinit.
Proof.
  intros Jst EB GE. pose proof Jst as (U & _ & K). constructor; simpl.
  - exact Jst.
  - exact EB.
  - intros n Hn Gn. exfalso. apply (notmp_of_fresh cbm st GE n Hn Gn).
  - intro k. rewrite getn_abs, (no_gid_at cbm st GE k). reflexivity.
  - intros [x y]. destruct (N.ltb_spec y x) as [L|L]; [rewrite abs_edges_unordered; auto|].
    rewrite (ordered_minmax x y L), (abs_edges_get cbm st x y U K), (no_gid_at cbm st GE x). reflexivity.
  - apply HInv_init.
  - intros id C ms G. discriminate.
Qed.

(* the abstraction of the combined graph IS (equivalent to) the abstract combined model *)
Lemma fsim_eqv cbm st hs : FSim cbm st hs -> eqv (abs_cbm cbm st) (h_cur hs).
Proof. intro S. apply eqv_of_gets; [apply (fs_n _ _ _ S) | apply (fs_e _ _ _ S)]. Qed.

Lemma fmerge_not_refused cbm adm tmp st hs st1 :
  FSim cbm st hs -> fpre cbm (OpMerge adm tmp) st hs -> merge_adm cbm adm tmp st = OOk st1 ->
  exists C', smerge (h_cur hs) (abs_adm adm st) = Some C' /\
             hstep hs (HMerge (abs_adm adm st)) = mkH C' (h_ms hs ++ [abs_adm adm st]) (h_snaps hs).
Proof.
  intros S [(NE & NA & FR & NM) _] H.
  assert (cbm_wf cbm (s_nodes st)) as W0 by (intros n Hn Gn; apply (fs_ok _ _ _ S n Hn Gn)).
  destruct (merge_refines_nodes cbm adm tmp st st1 (fs_J _ _ _ S) W0 NE NA FR H) as (CF & _).
  assert (conflict (h_cur hs) (abs_adm adm st) = false) as CF'.
  { rewrite <- CF. unfold conflict. apply existsb_ext'. intros [k a]. simpl. rewrite <- (fs_n _ _ _ S). reflexivity. }
  destruct (smerge_defined _ _ CF') as [C' SM]. exists C'. split; auto.
  simpl. change (adm_id (abs_adm adm st)) with adm. rewrite NM, SM. reflexivity.
Qed.

Lemma hase_ext {V} e (l l' : list (ekey * V)) : gete e l = gete e l' -> hase e l = hase e l'.
Proof. unfold hase, has, gete. intros ->. reflexivity. Qed.

Lemma no_new_inner_ext C C' A :
  (forall k, getn k (nodes C) = getn k (nodes C')) -> (forall e, gete e (edges C) = gete e (edges C')) ->
  no_new_inner_edges C A -> no_new_inner_edges C' A.
Proof.
  intros H1 H2 N e He X Y. rewrite <- (hase_ext e _ _ (H2 e)). apply N; auto.
  - rewrite (hasn_ext _ _ _ (H1 (fst e))). exact X.
  - rewrite (hasn_ext _ _ _ (H1 (snd e))). exact Y.
Qed.

(* ---------- unmerge is the inverse of merge, on the store: F2 is exactly the hypothesis ---------- *)
Theorem store_unmerge_inverse cbm adm tmp st hs st1 st2 :
  FSim cbm st hs -> fpre cbm (OpMerge adm tmp) st hs ->
  no_new_inner_edges (abs_cbm cbm st) (abs_adm adm st) ->
  merge_adm cbm adm tmp st = OOk st1 -> unmerge_adm cbm adm st1 = OOk st2 ->
  eqv (abs_cbm cbm st2) (abs_cbm cbm st).
Proof.
  intros S P NI H1 H2.
  destruct (fmerge_not_refused cbm adm tmp st hs st1 S P H1) as (C' & SM & HS).
  assert (FSim cbm st1 (hstep hs (fhop_of st (OpMerge adm tmp)))) as S1 by (eapply fsim_step; eauto).
  simpl fhop_of in S1. rewrite HS in S1.
  assert (gexists cbm st1 = true) as GE1.
  { unfold unmerge_adm in H2. destruct (gexists cbm st1); auto. discriminate. }
  assert (FSim cbm st2 (hstep (mkH C' (h_ms hs ++ [abs_adm adm st]) (h_snaps hs)) (fhop_of st1 (OpUnmerge adm)))) as S2.
  { eapply fsim_step; eauto. split; [exact GE1|exact I]. }
  destruct (fs_inv _ _ _ S) as [IC _]. destruct P as [(_ & _ & _ & NM) [WA _]].
  assert (~ In adm (map adm_id (h_ms hs))) as NIn by (intro X; apply mem_In in X; congruence).
  apply (eqv_trans _ (sunmerge C' adm)); [apply (fsim_eqv _ _ _ S2)|].
  apply (eqv_trans _ (h_cur hs)); [|apply eqv_sym; apply (fsim_eqv _ _ _ S)].
  apply (unmerge_inverse (h_cur hs) (abs_adm adm st) C'); auto.
  - apply (Inv_wf_cbm _ _ IC).
  - apply wf_admb_sound. exact WA.
  - apply (Inv_not_contributor _ _ adm IC NIn).
  - apply (no_new_inner_ext (abs_cbm cbm st)); auto; [apply (fs_n _ _ _ S) | apply (fs_e _ _ _ S)].
Qed.

(* ---------- rollback, on the store ---------- *)
Lemma ftouches_hop id st o : Cbm14Hist.touches id (fhop_of st o) = otouches id o.
Proof. destruct o; reflexivity. Qed.

Lemma fhops_untouched cbm id ops : forall st,
  forallb (fun o => negb (otouches id o)) ops = true ->
  forallb (fun o => negb (Cbm14Hist.touches id o)) (fhops_run cbm st ops) = true.
Proof.
  induction ops as [|o r IH]; intros st H; simpl in *; auto.
  apply andb_true_iff in H as [H1 H2]. rewrite ftouches_hop, H1. simpl.
  destruct (step cbm o st); auto.
Qed.

Lemma fsim_run_app cbm a : forall b st hs,
  fsim_run cbm st hs (a ++ b) =
  match fsim_run cbm st hs a with Some (s1, h1) => fsim_run cbm s1 h1 b | None => None end.
Proof. induction a as [|o r IH]; intros b st hs; simpl; auto. destruct (step cbm o st); auto. Qed.

Lemma fhops_run_app cbm a : forall b st hs s1 h1,
  fsim_run cbm st hs a = Some (s1, h1) -> fhops_run cbm st (a ++ b) = fhops_run cbm st a ++ fhops_run cbm s1 b.
Proof.
  induction a as [|o r IH]; intros b st hs s1 h1 H; simpl in *.
  - inversion H; subst. reflexivity.
  - destruct (step cbm o st) as [s2| |]; try discriminate. f_equal. eapply IH; eauto.
Qed.

Theorem store_rollback cbm id mid st hs st' hs' :
  FSim cbm st hs ->
  fpre_run cbm st hs (OpSnap id :: mid ++ [OpRollback id]) ->
  fsim_run cbm st hs (OpSnap id :: mid ++ [OpRollback id]) = Some (st', hs') ->
  forallb (fun o => negb (otouches id o)) mid = true ->
  eqv (abs_cbm cbm st') (abs_cbm cbm st).
Proof.
  intros S P H T.
  destruct (fsim_run_ok cbm _ st hs st' hs' S P H) as [S' EH].
  apply (eqv_trans _ (h_cur hs')); [apply (fsim_eqv _ _ _ S')|].
  assert (h_cur hs' = h_cur hs) as ->; [|apply eqv_sym; apply (fsim_eqv _ _ _ S)].
  destruct P as [[(GE & FR) _] _].
  assert (hasn id (h_snaps hs) = false) as HN.
  { destruct (hasn id (h_snaps hs)) eqn:X; auto. apply (has_get N.eqb) in X as [[C ms] X].
    destruct (fs_snaps _ _ _ S id C ms X) as (_ & G1 & _). congruence. }
  cbn [fsim_run fhops_run app fhop_of] in H, EH. destruct (step cbm (OpSnap id) st) as [s1| |] eqn:E1; try discriminate.
  rewrite fsim_run_app in H.
  destruct (fsim_run cbm s1 (hstep hs (HSnap id)) mid) as [[s2 h2]|] eqn:E2; [|discriminate].
  rewrite (fhops_run_app cbm mid [OpRollback id] s1 _ s2 h2 E2) in EH.
  change (HSnap id :: fhops_run cbm s1 mid ++ fhops_run cbm s2 [OpRollback id])
    with ([HSnap id] ++ fhops_run cbm s1 mid ++ fhops_run cbm s2 [OpRollback id]) in EH.
  rewrite !hrun_app in EH. cbn [fhops_run fhop_of] in EH.
  assert (hs' = hstep (hrun (hstep hs (HSnap id)) (fhops_run cbm s1 mid)) (HRollback id)) as EH'.
  { rewrite EH. destruct (step cbm (OpRollback id) s2); reflexivity. }
  rewrite EH'.
  apply (rollback_restores hs id (fhops_run cbm s1 mid) HN (fhops_untouched cbm id mid s1 T)).
Qed.

(* ---------- order independence, on the store ---------- *)
Lemma abs_edges_gE g st :
  abs_edges g st = flat_map (edge_abs g st) (gE (gints g st) (s_edges st)).
Proof.
  rewrite abs_edges_flat. unfold gE. induction (s_edges st) as [|e r IH]; simpl; auto.
  destruct (Cbm14Store.touches (gints g st) e) eqn:T; simpl; [rewrite IH; reflexivity|].
  unfold Cbm14Store.touches in T. apply orb_false_iff in T as [TA TB]. apply memN_false in TA, TB.
  unfold edge_abs at 1.
  destruct (nid_of_int (of_gid g st) (e_a e)) eqn:A; [|exact IH].
  exfalso. apply TA. unfold gints. apply nid_of_int_in in A. exact A.
Qed.

Lemma abs_adm_same g st st' : Same g st st' -> abs_adm g st' = abs_adm g st.
Proof.
  intros [H1 H2]. unfold abs_adm, abs_adm_nodes. rewrite H1. f_equal.
  rewrite (abs_edges_gE g st'), (abs_edges_gE g st).
  assert (gints g st' = gints g st) as G by (unfold gints; rewrite H1; reflexivity).
  rewrite G, H2. apply flat_map_ext. intro e. unfold edge_abs. rewrite H1. reflexivity.
Qed.

Definition fadms_of (st0 : store) (l : list (N * N)) : list adm := map (fun p => abs_adm (fst p) st0) l.

Definition fsources_kept (S : list N) (st0 st : store) : Prop :=
  forall a, In a S -> gexists a st0 = true /\ Good a st /\ Same a st0 st.

Lemma Same_sym_gints g a b : Same g a b -> gints g b = gints g a.
Proof. intros [H _]. unfold gints. rewrite H. reflexivity. Qed.

Lemma frun_merges cbm st0 S : ~ In cbm S -> forall l st hs st' hs',
  FSim cbm st hs -> fsources_kept S st0 st -> incl (map fst l) S ->
  fpre_run cbm st hs (mops l) -> fsim_run cbm st hs (mops l) = Some (st', hs') ->
  merge_from (h_cur hs) (fadms_of st0 l) = Some (h_cur hs') /\ FSim cbm st' hs' /\ Forall wf_adm (fadms_of st0 l).
Proof.
  intro NC. induction l as [|[adm tmp] r IH]; intros st hs st' hs' S0 SK IN P H.
  - simpl in H. inversion H; subst. split; auto. split; auto. constructor.
  - cbn [mops map fsim_run fpre_run fst snd] in H, P. destruct P as [P0 P1].
    change (step cbm (OpMerge adm tmp) st) with (merge_adm cbm adm tmp st) in *.
    destruct (merge_adm cbm adm tmp st) as [s1| |] eqn:E; try discriminate.
    destruct (fmerge_not_refused cbm adm tmp st hs s1 S0 P0 E) as (C' & SM & HS).
    assert (FSim cbm s1 (hstep hs (fhop_of st (OpMerge adm tmp)))) as S1 by (eapply fsim_step; eauto).
    cbn [fhop_of] in *. rewrite HS in *.
    assert (In adm S) as IA by (apply IN; simpl; auto).
    assert (abs_adm adm st = abs_adm adm st0) as EA.
    { destruct (SK adm IA) as (_ & _ & SM0). apply abs_adm_same. exact SM0. }
    assert (fsources_kept S st0 s1) as SK1.
    { intros a Ha. destruct (SK a Ha) as (G0 & GD & SM0). split; auto.
      assert (gexists a st = true) as GA.
      { apply gexists_of_gid. destruct SM0 as [-> _]. apply gexists_of_gid. exact G0. }
      destruct P0 as [(_ & _ & FR & _) _].
      assert (outside cbm a (OpMerge adm tmp)) as OUT.
      { split; [intro; subst; contradiction|]. intro; subst. congruence. }
      pose proof (step_frame a cbm (OpMerge adm tmp) st GD OUT) as PR.
      change (step cbm (OpMerge adm tmp) st) with (merge_adm cbm adm tmp st) in PR. rewrite E in PR.
      destruct PR as [SN GD']. split; auto. eapply Same_trans; eauto. }
    destruct (IH s1 _ st' hs' S1 SK1) as (MF & S' & WFr); auto.
    + intros x Hx. apply IN. simpl. auto.
    + split; [|split; auto].
      * cbn [fadms_of map fst]. rewrite merge_from_cons, <- EA, SM. exact MF.
      * cbn [fadms_of map fst]. constructor; auto. rewrite <- EA. apply wf_admb_sound. apply P0.
Qed.

(* merging the same delegation models in two orders gives EQUIVALENT combined graphs (nodes and connections) *)
Theorem store_order_independent cbm st hs l1 l2 st1 hs1 st2 hs2 :
  FSim cbm st hs ->
  Permutation (map fst l1) (map fst l2) -> ~ In cbm (map fst l1) ->
  (forall a, In a (map fst l1) -> gexists a st = true /\ Good a st) ->
  pairwise_compatible (fadms_of st l1) ->
  fpre_run cbm st hs (mops l1) -> fsim_run cbm st hs (mops l1) = Some (st1, hs1) ->
  fpre_run cbm st hs (mops l2) -> fsim_run cbm st hs (mops l2) = Some (st2, hs2) ->
  eqv (abs_cbm cbm st1) (abs_cbm cbm st2).
Proof.
  intros S0 PM NC GS PC P1 R1 P2 R2.
  assert (fsources_kept (map fst l1) st st) as SK.
  { intros a Ha. destruct (GS a Ha). split; auto. split; auto. apply Same_refl. }
  destruct (frun_merges cbm st (map fst l1) NC l1 st hs st1 hs1 S0 SK (incl_refl _) P1 R1) as (M1 & S1 & WF).
  assert (incl (map fst l2) (map fst l1)) as I2 by (intros x Hx; eapply Permutation_in; [apply Permutation_sym; exact PM|exact Hx]).
  destruct (frun_merges cbm st (map fst l1) NC l2 st hs st2 hs2 S0 SK I2 P2 R2) as (M2 & S2 & _).
  assert (Permutation (fadms_of st l1) (fadms_of st l2)) as PA.
  { unfold fadms_of. rewrite <- (map_map fst (fun a => abs_adm a st) l1), <- (map_map fst (fun a => abs_adm a st) l2).
    apply Permutation_map. exact PM. }
  destruct (merge_from_perm _ _ PA (h_cur hs) (h_cur hs1) WF PC M1) as (D' & M2' & EQ).
  rewrite M2 in M2'. inversion M2'; subst D'.
  apply (eqv_trans _ (h_cur hs1)); [apply (fsim_eqv _ _ _ S1)|].
  apply (eqv_trans _ (h_cur hs2)); [exact EQ|apply eqv_sym; apply (fsim_eqv _ _ _ S2)].
Qed.

(* ---------- the per-operation refinement theorems, nodes and connections together ---------- *)
Theorem unmerge_refines cbm g st :
  J (s_next st) (s_nodes st) -> ebelow (s_next st) (s_edges st) -> cbm_ok cbm (s_nodes st) -> gexists cbm st = true ->
  exists st', unmerge_adm cbm g st = OOk st' /\ eqv (abs_cbm cbm st') (sunmerge (abs_cbm cbm st) g).
Proof.
  intros Jst EB W GE.
  destruct (unmerge_refines_nodes cbm g st Jst W GE) as (st1 & E & UG & _).
  destruct (unmerge_refines_edges cbm g st Jst EB W GE) as (st2 & E2 & UE & _).
  rewrite E in E2. inversion E2; subst st2. exists st1. split; auto. apply eqv_of_gets; auto.
Qed.

Theorem snapshot_refines cbm new st :
  J (s_next st) (s_nodes st) -> ebelow (s_next st) (s_edges st) -> gexists cbm st = true -> gexists new st = false ->
  exists st', snapshot cbm new st = OOk st' /\
              eqv (abs_cbm new st') (abs_cbm cbm st) /\ eqv (abs_cbm cbm st') (abs_cbm cbm st).
Proof.
  intros Jst EB GE FR.
  destruct (snapshot_refines_nodes cbm new st Jst GE FR) as (st1 & E & SG & OT & _).
  destruct (snapshot_refines_edges cbm new st Jst EB GE FR) as (st2 & E2 & SE & OE & _).
  rewrite E in E2. inversion E2; subst st2. exists st1. split; auto.
  assert (new <> cbm) as NN by (intro; subst; congruence).
  split; apply eqv_of_gets; auto.
  - intro k. apply (abs_transfer cbm st st1). intro k0. apply OT. auto.
  - intro e. apply OE. auto.
Qed.

Theorem rollback_refines cbm sid st :
  J (s_next st) (s_nodes st) -> ebelow (s_next st) (s_edges st) -> sid <> cbm -> gexists sid st = true ->
  exists st', rollback cbm sid st = OOk st' /\ eqv (abs_cbm cbm st') (abs_cbm sid st).
Proof.
  intros Jst EB NE GE.
  destruct (rollback_refines_nodes cbm sid st Jst NE GE) as (st1 & E & RG & _).
  destruct (rollback_refines_edges cbm sid st Jst EB NE GE) as (st2 & E2 & RE & _).
  rewrite E in E2. inversion E2; subst st2. exists st1. split; auto. apply eqv_of_gets; auto.
Qed.

(* ---------- a concrete instance ---------- *)
Lemma ex_full :
  rgoodb 0 ex_store = true /\ goodb 1 ex_store = true /\ gexists 0 ex_store = false /\
  fpre_run 0 ex_store hinit ex_sops /\
  exists st' hs', fsim_run 0 ex_store hinit ex_sops = Some (st', hs') /\
                  map adm_id (h_ms hs') = [1] /\ map fst (edges (h_cur hs')) = [(10, 11)] /\
                  map fst (abs_edges 0 st') = [(10, 11)].
Proof.
  split; [vm_compute; reflexivity|]. split; [vm_compute; reflexivity|]. split; [vm_compute; reflexivity|]. split.
  - vm_compute. repeat split; try reflexivity; try discriminate.
  - eexists. eexists. split; [vm_compute; reflexivity|]. split; [|split]; vm_compute; reflexivity.
Qed.

(* C08 proofs, part 11: everything the addressed element owns is deleted (normal return). *)
From Coq Require Import List NArith Bool Lia.
From FIM Require Import Model.T8Graph Model.T8Ops Proofs.T8Frame Proofs.T8Query Proofs.T8Sound Proofs.T8Complete
     Proofs.T8Closed Proofs.T8Top.
Import ListNotations.

Definition owned (g : graph) (o : op) (x : N) : Prop :=
  match o with
  | ORemoveNode nm | ORemoveFacility nm | ORemoveSwitch nm =>
      exists n, In n (by_name g CNode nm) /\ class_of g n = CNode /\ O_node g n x
  | ORemoveLink nm => In x (by_name g CLink nm)
  | ORemoveNsTopo nm => exists s, In s (by_name g CNS nm) /\ class_of g s = CNS /\ O_ns g s x
  | ORemoveComponent n c => exists c', In c' (first_neighbor g n RHas CComp) /\ name_of g c' = c /\ O_comp g c' x
  | ONodeRemoveNs n sn => exists s, In s (first_neighbor g n RHas CNS) /\ name_of g s = sn /\ O_ns g s x
  | ODisconnect _ i => exists p, get_peers_typed g i T_ServicePort = Some [p] /\ O_cp g p true x
  | OUnpeer a b => exists xy, unpeer_ends g a b = Some [xy] /\ (x = fst xy \/ x = snd xy)
  | OUnpeer6 a b => exists xy, In xy (unpeer_pairs g a b) /\ (x = fst xy \/ x = snd xy)
  | ORemoveInterface s nm => exists i, In i (cpn g s) /\ name_of g i = nm /\ O_cp g i true x
  | ORemoveChild p nm => In x (cpn g p) /\ name_of g x = nm
  | OPrune | OPrune7 | OPrune8 | OPrune9 => False
  end.

Theorem owned_exec ex o cs g r g' tr :
  run (exec ex o cs) g = (inl r, (g', tr)) -> forall x, owned g o x -> In x tr.
Proof.
  intros E x Hx. pose proof (target_exec ex o cs g r g' tr E) as T.
  destruct o; simpl in Hx, T.
  - destruct Hx as [n [Hn [Hc Ho]]].
    apply (closed_O_node g tr n x (closed_exec ex (ORemoveNode name) cs g r g' tr eq_refl E) (T n Hn) Hc Ho).
  - destruct Hx as [n [Hn [Hc Ho]]].
    apply (closed_O_node g tr n x (closed_exec ex (ORemoveFacility name) cs g r g' tr eq_refl E) (T n Hn) Hc Ho).
  - destruct Hx as [n [Hn [Hc Ho]]].
    apply (closed_O_node g tr n x (closed_exec ex (ORemoveSwitch name) cs g r g' tr eq_refl E) (T n Hn) Hc Ho).
  - apply T. exact Hx.
  - destruct Hx as [s [Hs [Hc Ho]]].
    apply (closed_O_ns g tr s x (closed_exec ex (ORemoveNsTopo name) cs g r g' tr eq_refl E) (T s Hs) Hc Ho).
  - destruct Hx as [c [Hc [Hnm Ho]]].
    apply (closed_O_comp g tr c x (closed_exec ex (ORemoveComponent n cname) cs g r g' tr eq_refl E) (T c (conj Hc Hnm))); [|exact Ho].
    apply first_neighbor_In in Hc. tauto.
  - destruct Hx as [s [Hs [Hnm Ho]]].
    apply (closed_O_ns g tr s x (closed_exec ex (ONodeRemoveNs n sname) cs g r g' tr eq_refl E) (T s (conj Hs Hnm))); [|exact Ho].
    apply first_neighbor_In in Hs. tauto.
  - destruct Hx as [p [Hp Ho]].
    apply (closed_O_cp g tr p x (closed_exec ex (ODisconnect s i) cs g r g' tr eq_refl E) (T p Hp) Ho).
  - apply T. exact Hx.
  - apply T. exact Hx.
  - destruct Hx as [i [Hi [Hnm Ho]]].
    apply (closed_O_cp g tr i x (closed_exec ex (ORemoveInterface s iname) cs g r g' tr eq_refl E) (T i (conj Hi Hnm)) Ho).
  - apply T. exact Hx.
  - destruct Hx.
  - destruct Hx.
  - destruct Hx.
  - destruct Hx.
Qed.

(* C09 - one iteration of the interface loop of NetworkService.__init__ on the extended graph: it either
   raises TopologyException before touching the graph, or fails otherwise, or extends the graph by exactly
   one well-formed connection. *)
From Coq Require Import List NArith Bool Lia.
From FIM Require Import Base.Str Gen.T9Names Model.T9Graph Model.T9Ops Proofs.T9Monad Proofs.T9Simple Proofs.T9Ext
     Proofs.T9Peers.
Import ListNotations.
Open Scope N_scope.

(* ---------------------------------------------------------------- inversion of successful runs *)
Lemma bind_ok {A B} (m : M A) (k : A -> M B) s s' b :
  bind m k s = (s', Ok b) -> exists s1 a, m s = (s1, Ok a) /\ k a s1 = (s', Ok b).
Proof. unfold bind. destruct (m s) as [s1 [a|e]]; intro H; [eauto|discriminate]. Qed.
Lemma guard_ok b e s s1 u : guard b e s = (s1, Ok u) -> s1 = s /\ b = true.
Proof. destruct b; simpl; unfold ret, raise; intro H; inversion H; auto. Qed.
Lemma draw_ok s s1 x : draw s = (s1, Ok x) -> exists r, sfresh s = x :: r /\ s1 = mkSt (sg s) r.
Proof. unfold draw. destruct (sfresh s); intro H; inversion H; eauto. Qed.
Lemma mutate_ok f s s1 u : mutate f s = (s1, Ok u) -> exists g', f (sg s) = Ok g' /\ s1 = mkSt g' (sfresh s).
Proof. unfold mutate. destruct (f (sg s)); intro H; inversion H; eauto. Qed.
Lemma ret_ok {A} (a b : A) s s1 : ret a s = (s1, Ok b) -> s1 = s /\ b = a.
Proof. unfold ret. intro H; inversion H; auto. Qed.

Lemma add_node_result n G G' : g_add_node n G = Ok G' ->
  has_node G (nid n) = false /\ G' = mkGraph (gnodes G ++ [n]) (gedges G).
Proof. unfold g_add_node. destruct (has_node G (nid n)); intro H; inversion H; auto. Qed.

Lemma add_edge_result a r b G G' : g_add_edge a r b G = Ok G' ->
  existsb (same_pair a b) (gedges G) = false -> G' = mkGraph (gnodes G) (gedges G ++ [mkEdge a b r]).
Proof.
  unfold g_add_edge. destruct (find_node G a); [|discriminate]. destruct (find_node G b); [|discriminate].
  intros H Hex. rewrite Hex in H. inversion H; reflexivity.
Qed.

Lemma guardrails_ok ty i s s0 u : guardrails ty i s = (s0, Ok u) -> s0 = s.
Proof.
  unfold guardrails. destruct (ty =? tL2PTP); [|intro H; apply ret_ok in H as [? _]; auto].
  intro H. apply bind_ok in H as (s1 & a & H1 & H2). apply ask_ok in H1 as [-> _].
  apply guard_ok in H2 as [-> _]. reflexivity.
Qed.

(* ---------------------------------------------------------------- TopologyException only before mutation *)
Lemma never_topo_ask {A} (q : graph -> res A) : (forall g e, q g = Err e -> e = EQuery) -> never_topo (ask q).
Proof.
  intros Hq s s' H. unfold ask in H. destruct (q (sg s)) eqn:E; inversion H; subst.
  apply Hq in E. discriminate.
Qed.

Lemma node_type_err g x e : node_type g x = Err e -> e = EQuery.
Proof. unfold node_type. destruct (find_node g x) eqn:E; intro H; inversion H; subst. eapply find_node_err; eauto. Qed.

Lemma connect_topo_atomic fl ns i : topo_atomic (connect_interface fl ns i).
Proof.
  unfold connect_interface.
  apply topo_atomic_bind_nm; [nm|intro owner].
  destruct owner as [on|]; [|apply topo_atomic_of_no_mut; nm].
  apply topo_atomic_bind_nm; [nm|intro oname]. apply topo_atomic_bind_nm; [nm|intro peers].
  apply topo_atomic_bind_nm; [nm|intro].
  destruct fl.
  - (* Experiment: ids are drawn, nothing raises TopologyException any more *)
    apply topo_atomic_of_never. unfold new_interface, new_link. simpl.
    repeat first [ apply never_topo_bind; [|intro] | apply never_topo_ret | apply never_topo_draw
                 | apply never_topo_add_node | apply never_topo_add_edge
                 | (apply never_topo_guard; discriminate)
                 | (apply never_topo_ask; intros; eapply node_type_err; eauto) ].
  - (* Substrate: the ServicePort has no caller-supplied id, the Interface constructor refuses at once *)
    intros s s' H. unfold bind, new_interface, guard, raise in H. simpl in H. inversion H. reflexivity.
Qed.

Lemma step_topo_atomic fl ns ty i : topo_atomic (guardrails ty i ;;; connect_interface fl ns i).
Proof.
  apply topo_atomic_bind_nm; [|intro; apply connect_topo_atomic].
  unfold guardrails. destruct (ty =? tL2PTP); nm.
Qed.

(* ---------------------------------------------------------------- a successful connect extends the shape *)
Definition iface_typed (g : graph) (i : iface_h) : Prop :=
  In (ih_id i) (ids g) -> has_cls g cCP (ih_id i) = true.

Lemma new_ids_snoc nsn cs c : new_ids nsn (cs ++ [c]) = new_ids nsn cs ++ [k_p c; k_l c].
Proof. unfold new_ids, conn_ids. rewrite flat_map_app. simpl. reflexivity. Qed.

Lemma ext_snoc g nsn cs c :
  ext g nsn (cs ++ [c]) =
  mkGraph (gnodes (ext g nsn cs) ++ conn_nodes c) (gedges (ext g nsn cs) ++ conn_edges (nid nsn) c).
Proof.
  unfold ext; simpl. rewrite !flat_map_app. simpl.
  rewrite <- !app_assoc. reflexivity.
Qed.

Lemma connect_ok_shape fl g nsn cs (U : list N) i s s1 :
  closed g -> NoDup (ids g) -> good g nsn cs -> sg s = ext g nsn cs ->
  incl (new_ids nsn cs) U -> incl (sfresh s) U -> ~ In (ih_id i) U -> iface_typed g i ->
  connect_interface fl (nid nsn) i s = (s1, Ok tt) ->
  exists c, k_if c = i /\ sg s1 = ext g nsn (cs ++ [c]) /\ good g nsn (cs ++ [c]) /\
            incl (new_ids nsn (cs ++ [c])) U /\ incl (sfresh s1) U.
Proof.
  intros Hcl Hndg G Hsg HU Hfr HiU Hty H.
  set (E := ext g nsn cs) in *. set (ns := nid nsn) in *.
  assert (HclE : closed E) by (apply ext_closed; auto).
  assert (HndE : NoDup (ids E)) by (unfold E; rewrite ids_ext; apply (gd_nodup _ _ _ G)).
  unfold connect_interface in H.
  apply bind_ok in H as (s' & owner & H1 & H). apply ask_ok in H1 as [-> Hown].
  destruct owner as [on|]; [|discriminate].
  apply bind_ok in H as (s' & oname & H1 & H). apply ask_ok in H1 as [-> Honame].
  apply bind_ok in H as (s' & peers & H1 & H). apply ask_ok in H1 as [-> Hpeers].
  apply bind_ok in H as (s' & u & H1 & H). apply guard_ok in H1 as [-> Hnil].
  destruct peers; [clear Hnil|discriminate].
  rewrite Hsg in Hpeers. fold E in Hpeers.
  set (pname := oname ++ dash ++ ih_name i) in *.
  apply bind_ok in H as (s2 & p & Hp & H).
  (* the Interface constructor *)
  unfold new_interface in Hp.
  apply bind_ok in Hp as (s' & u1 & H1 & Hp). apply guard_ok in H1 as [-> Hfl].
  assert (fl = Experiment) as -> by (destruct fl; [reflexivity|discriminate]). clear Hfl.
  apply bind_ok in Hp as (s' & p' & H1 & Hp). simpl in H1. apply draw_ok in H1 as (r1 & Hr1 & ->).
  apply bind_ok in Hp as (s' & u2 & H1 & Hp). apply guard_ok in H1 as [-> _].
  apply bind_ok in Hp as (s' & u3 & H1 & Hp). apply ret_ok in H1 as [-> _].
  apply bind_ok in Hp as (s' & u4 & H1 & Hp). apply mutate_ok in H1 as (E' & HE' & ->). simpl in HE'.
  rewrite Hsg in HE'. apply add_node_result in HE' as [Hpnew ->]. simpl nid in Hpnew. simpl sfresh in *.
  apply bind_ok in Hp as (s' & u5 & H1 & Hp). apply mutate_ok in H1 as (E'' & HE'' & ->). simpl in HE''.
  apply ret_ok in Hp as [-> ->]. simpl sfresh in *.
  assert (Hp_notin : ~ In p' (ids E)) by (apply has_node_false_In; exact Hpnew).
  assert (Hp_unt : untouched p' (gedges E)) by (apply closed_untouched; auto).
  apply add_edge_result in HE''; [|simpl; apply same_pair_untouched; exact Hp_unt]. simpl in HE''.
  (* the interface's type, then the Link constructor *)
  apply bind_ok in H as (s' & ity & H1 & H). apply ask_ok in H1 as [-> Hity]. simpl sg in Hity.
  apply bind_ok in H as (s3 & l0 & Hl & H). apply ret_ok in H as [-> _].
  unfold new_link in Hl. simpl in Hl.
  apply bind_ok in Hl as (s' & u6 & H1 & Hl). apply ret_ok in H1 as [-> _].
  apply bind_ok in Hl as (s' & l' & H1 & Hl). apply draw_ok in H1 as (r2 & Hr2 & ->). simpl in Hr2.
  apply bind_ok in Hl as (s' & u7 & H1 & Hl). apply guard_ok in H1 as [-> _].
  apply bind_ok in Hl as (s' & u8 & H1 & Hl). apply ret_ok in H1 as [-> _].
  apply bind_ok in Hl as (s' & u9 & H1 & Hl). apply mutate_ok in H1 as (E3 & HE3 & ->). simpl in HE3.
  apply add_node_result in HE3 as [Hlnew ->]. simpl nid in Hlnew. simpl sfresh in *.
  apply bind_ok in Hl as (s' & u10 & H1 & Hl). apply ret_ok in Hl as [<- _].
  simpl in H1.
  apply bind_ok in H1 as (s' & u11 & H1 & H2). apply mutate_ok in H1 as (E4 & HE4 & ->). simpl in HE4.
  apply bind_ok in H2 as (s' & u12 & H2 & H3). apply mutate_ok in H2 as (E5 & HE5 & ->). simpl in HE5.
  apply ret_ok in H3 as [-> _]. simpl.
  (* freshness of l' *)
  assert (Hl_notin : ~ In l' (ids E) /\ l' <> p').
  { apply has_node_false_In in Hlnew. rewrite HE'' in Hlnew. unfold ids in Hlnew; simpl in Hlnew.
    rewrite map_app in Hlnew. simpl in Hlnew. split.
    - intro X. apply Hlnew. apply in_app_iff. left. exact X.
    - intro X. apply Hlnew. apply in_app_iff. right. left. auto. }
  destruct Hl_notin as [Hl_notin Hlp].
  assert (Hl_unt : untouched l' (gedges E)) by (apply closed_untouched; auto).
  assert (Hns_in : In ns (ids E)).
  { unfold E. rewrite ids_ext. apply in_app_iff. right. left. reflexivity. }
  assert (Hi_in : In (ih_id i) (ids E)).
  { unfold peer_cps in Hpeers. destruct (find_node E (ih_id i)) eqn:Ef; [|discriminate].
    eapply find_node_In; eauto. }
  assert (Hlns : l' <> ns) by (intro X; apply Hl_notin; rewrite X; auto).
  assert (Hpns : p' <> ns) by (intro X; apply Hp_notin; rewrite X; auto).
  assert (Hip : ih_id i <> p') by (intro X; apply Hp_notin; rewrite <- X; auto).
  assert (Hil : ih_id i <> l') by (intro X; apply Hl_notin; rewrite <- X; auto).
  rewrite HE'' in HE4.
  apply add_edge_result in HE4.
  2:{ simpl. apply same_pair_untouched_l. apply untouched_app; auto.
      intros e [<-|[]]. unfold touches; simpl.
      rewrite (neqb_of_neq ns l') by auto. rewrite (neqb_of_neq p' l') by auto. reflexivity. }
  simpl in HE4. rewrite HE4 in HE5.
  apply add_edge_result in HE5.
  2:{ simpl. rewrite <- app_assoc. rewrite existsb_app. rewrite (same_pair_untouched_l _ _ _ Hl_unt). simpl.
      unfold same_pair; simpl.
      rewrite (neqb_of_neq ns l') by auto. rewrite (neqb_of_neq p' l') by auto.
      rewrite (neqb_of_neq (ih_id i) p') by auto. rewrite (neqb_of_neq l' p') by auto.
      rewrite !andb_false_r, !andb_false_l. reflexivity. }
  simpl in HE5.
  (* the new connection *)
  set (lty := if ity =? tSharedPort then tL2Path else tPatch) in *.
  exists (mkConn i p' l' lty pname).
  assert (Hi_old : In (ih_id i) (ids g)).
  { unfold E in Hi_in. rewrite ids_ext in Hi_in. apply in_app_iff in Hi_in as [?|Hnew]; auto.
    exfalso. apply HiU. apply HU. exact Hnew. }
  assert (Hi_notcs : ~ In (ih_id i) (map k_i cs)).
  { intro Hin. apply in_map_iff in Hin as [c' [Hc'i Hc']].
    destruct (peers_member g nsn cs G c' Hc') as [L [HL HinL]].
    rewrite Hc'i in HL. fold E in HL. rewrite HL in Hpeers. inversion Hpeers; subst. contradiction. }
  split; [reflexivity|]. split; [|split; [|split]].
  - rewrite HE5. rewrite ext_snoc. fold E. unfold conn_nodes, conn_edges; simpl. fold ns.
    rewrite <- !app_assoc. reflexivity.
  - destruct G as [Gnd Gcls Gcp Gifs Gpeers]. constructor; auto.
    + rewrite new_ids_snoc. cbn [k_p k_l]. rewrite app_assoc.
      replace ((ids g ++ new_ids nsn cs) ++ [p'; l']) with (((ids g ++ new_ids nsn cs) ++ [p']) ++ [l'])
        by (rewrite <- app_assoc; reflexivity).
      unfold E in Hp_notin, Hl_notin. rewrite ids_ext in Hp_notin, Hl_notin.
      apply NoDup_snoc; [apply NoDup_snoc; auto|].
      intro X. apply in_app_iff in X as [X|[X|[]]]; [apply Hl_notin; auto|apply Hlp; auto].
    + intros c' Hc'. apply in_app_iff in Hc' as [Hc'|[<-|[]]]; [auto | apply Hty; exact Hi_old].
    + rewrite map_app. simpl. apply NoDup_snoc; auto.
    + intros c' Hc'. apply in_app_iff in Hc' as [Hc'|[<-|[]]]; [auto|].
      unfold k_i; simpl. rewrite <- Hpeers. symmetry.
      apply (peers_transport g nsn cs Hcl (mkGood _ _ _ Gnd Gcls Gcp Gifs Gpeers)); auto.
  - rewrite new_ids_snoc. apply incl_app; auto. simpl.
    intros x [<-|[<-|[]]]; apply Hfr.
    + rewrite Hr1. left; reflexivity.
    + rewrite Hr1. right. rewrite Hr2. left; reflexivity.
  - intros x Hx. apply Hfr. rewrite Hr1. right. rewrite Hr2. right. exact Hx.
Qed.

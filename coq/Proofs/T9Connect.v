(* C09 - one iteration of the interface loop of NetworkService.__init__ on the extended graph: it either
   raises TopologyException before touching the graph, or fails otherwise, or extends the graph by exactly
   one well-formed connection. *)
From Coq Require Import List NArith Bool Lia.
From FIM Require Import Base.Str Gen.T9Names Model.T9Graph Model.T9Ops Proofs.T9Monad Proofs.T9Simple Proofs.T9Ext
     Proofs.T9Peers.
Import ListNotations.
Open Scope N_scope.

(* ---------------------------------------------------------------- inversion of successful runs *)
Lemma bind_ok {A B} (m : M A) (k : A -> M B) s s' b :
  bind m k s = (s', Ok b) -> exists s1 a, m s = (s1, Ok a) /\ k a s1 = (s', Ok b).
Proof. unfold bind. destruct (m s) as [s1 [a|e]]; intro H; [eauto|discriminate]. Qed.
Lemma guard_ok b e s s1 u : guard b e s = (s1, Ok u) -> s1 = s /\ b = true.
Proof. destruct b; simpl; unfold ret, raise; intro H; inversion H; auto. Qed.
Lemma draw_ok s s1 x : draw s = (s1, Ok x) -> exists r, sfresh s = x :: r /\ s1 = mkSt (sg s) r.
Proof. unfold draw. destruct (sfresh s); intro H; inversion H; eauto. Qed.
Lemma mutate_ok f s s1 u : mutate f s = (s1, Ok u) -> exists g', f (sg s) = Ok g' /\ s1 = mkSt g' (sfresh s).
Proof. unfold mutate. destruct (f (sg s)); intro H; inversion H; eauto. Qed.
Lemma ret_ok {A} (a b : A) s s1 : ret a s = (s1, Ok b) -> s1 = s /\ b = a.
Proof. unfold ret. intro H; inversion H; auto. Qed.

Lemma add_node_result n G G' : g_add_node n G = Ok G' ->
  has_node G (nid n) = false /\ G' = mkGraph (gnodes G ++ [n]) (gedges G).
Proof. unfold g_add_node. destruct (has_node G (nid n)); intro H; inversion H; auto. Qed.

Lemma add_edge_result a r b G G' : g_add_edge a r b G = Ok G' ->
  existsb (same_pair a b) (gedges G) = false -> G' = mkGraph (gnodes G) (gedges G ++ [mkEdge a b r]).
Proof.
  unfold g_add_edge. destruct (find_node G a); [|discriminate]. destruct (find_node G b); [|discriminate].
  intros H Hex. rewrite Hex in H. inversion H; reflexivity.
Qed.

Lemma guardrails_ok ty i s s0 u : guardrails ty i s = (s0, Ok u) -> s0 = s.
Proof.
  unfold guardrails. destruct (ty =? tL2PTP); [|intro H; apply ret_ok in H as [? _]; auto].
  intro H. apply bind_ok in H as (s1 & a & H1 & H2). apply ask_ok in H1 as [-> _].
  apply guard_ok in H2 as [-> _]. reflexivity.
Qed.

Lemma bind_err_cases {A B} (m : M A) (k : A -> M B) s s' e :
  bind m k s = (s', Err e) ->
  m s = (s', Err e) \/ exists s1 a, m s = (s1, Ok a) /\ k a s1 = (s', Err e).
Proof. unfold bind. destruct (m s) as [s1 [a|e1]]; intro H; [right; eauto|left; inversion H; reflexivity]. Qed.

Lemma no_mut_guardrails ty i : no_mut (guardrails ty i).
Proof. unfold guardrails. destruct (ty =? tL2PTP); nm. Qed.

(* ---------------------------------------------------------------- a successful connect extends the shape *)
Definition iface_typed (g : graph) (i : iface_h) : Prop :=
  In (ih_id i) (ids g) -> has_cls g cCP (ih_id i) = true.

Lemma new_ids_snoc nsn cs c : new_ids nsn (cs ++ [c]) = new_ids nsn cs ++ [k_p c; k_l c].
Proof. unfold new_ids, conn_ids. rewrite flat_map_app. simpl. reflexivity. Qed.

Lemma ext_snoc g nsn cs c :
  ext g nsn (cs ++ [c]) =
  mkGraph (gnodes (ext g nsn cs) ++ conn_nodes c) (gedges (ext g nsn cs) ++ conn_edges (nid nsn) c).
Proof.
  unfold ext; simpl. rewrite !flat_map_app. simpl.
  rewrite <- !app_assoc. reflexivity.
Qed.

Lemma connect_ok_shape fl g nsn cs (U : list N) i s s1 :
  closed g -> NoDup (ids g) -> good g nsn cs -> sg s = ext g nsn cs ->
  incl (new_ids nsn cs) U -> incl (sfresh s) U -> ~ In (ih_id i) U -> iface_typed g i ->
  connect_interface fl (nid nsn) i s = (s1, Ok tt) ->
  exists c, k_if c = i /\ sg s1 = ext g nsn (cs ++ [c]) /\ good g nsn (cs ++ [c]) /\
            incl (new_ids nsn (cs ++ [c])) U /\ incl (sfresh s1) U.
Proof.
  intros Hcl Hndg G Hsg HU Hfr HiU Hty H.
  set (E := ext g nsn cs) in *. set (ns := nid nsn) in *.
  assert (HclE : closed E) by (apply ext_closed; auto).
  assert (HndE : NoDup (ids E)) by (unfold E; rewrite ids_ext; apply (gd_nodup _ _ _ G)).
  unfold connect_interface in H.
  apply bind_ok in H as (s' & nsty & H1 & H). apply ask_ok in H1 as [-> _].
  apply bind_ok in H as (s' & ug & H1 & H). apply guardrails_ok in H1 as ->.
  apply bind_ok in H as (s' & owner & H1 & H). apply ask_ok in H1 as [-> Hown].
  destruct owner as [on|]; [|discriminate].
  apply bind_ok in H as (s' & oname & H1 & H). apply ask_ok in H1 as [-> Honame].
  apply bind_ok in H as (s' & peers & H1 & H). apply ask_ok in H1 as [-> Hpeers].
  apply bind_ok in H as (s' & u & H1 & H). apply guard_ok in H1 as [-> Hnil].
  destruct peers; [clear Hnil|discriminate].
  rewrite Hsg in Hpeers. fold E in Hpeers.
  set (pname := oname ++ dash ++ ih_name i) in *.
  apply bind_ok in H as (s' & cps & H1 & H). apply ask_ok in H1 as [-> _].
  apply bind_ok in H as (s' & ux1 & H1 & H). apply guard_ok in H1 as [-> _].
  apply bind_ok in H as (s' & ltk & H1 & H). apply ask_ok in H1 as [-> _].
  apply bind_ok in H as (s' & ux2 & H1 & H). apply guard_ok in H1 as [-> _].
  apply bind_ok in H as (s2 & p & Hp & H).
  (* the Interface constructor *)
  unfold new_interface in Hp.
  apply bind_ok in Hp as (s' & u1 & H1 & Hp). apply guard_ok in H1 as [-> Hfl].
  assert (fl = Experiment) as -> by (destruct fl; [reflexivity|discriminate]). clear Hfl.
  apply bind_ok in Hp as (s' & p' & H1 & Hp). simpl in H1. apply draw_ok in H1 as (r1 & Hr1 & ->).
  apply bind_ok in Hp as (s' & u2 & H1 & Hp). apply guard_ok in H1 as [-> _].
  apply bind_ok in Hp as (s' & u3 & H1 & Hp). apply ret_ok in H1 as [-> _].
  apply bind_ok in Hp as (s' & u4 & H1 & Hp). apply mutate_ok in H1 as (E' & HE' & ->). simpl in HE'.
  rewrite Hsg in HE'. apply add_node_result in HE' as [Hpnew ->]. simpl nid in Hpnew. simpl sfresh in *.
  apply bind_ok in Hp as (s' & u5 & H1 & Hp). apply mutate_ok in H1 as (E'' & HE'' & ->). simpl in HE''.
  apply ret_ok in Hp as [-> ->]. simpl sfresh in *.
  assert (Hp_notin : ~ In p' (ids E)) by (apply has_node_false_In; exact Hpnew).
  assert (Hp_unt : untouched p' (gedges E)) by (apply closed_untouched; auto).
  apply add_edge_result in HE''; [|simpl; apply same_pair_untouched; exact Hp_unt]. simpl in HE''.
  (* the interface's type, then the Link constructor *)
  apply bind_ok in H as (s' & ity & H1 & H). apply ask_ok in H1 as [-> Hity]. simpl sg in Hity.
  apply bind_ok in H as (s3 & l0 & Hl & H). apply ret_ok in H as [-> _].
  unfold new_link in Hl. simpl in Hl.
  apply bind_ok in Hl as (s' & u6 & H1 & Hl). apply ret_ok in H1 as [-> _].
  apply bind_ok in Hl as (s' & l' & H1 & Hl). apply draw_ok in H1 as (r2 & Hr2 & ->). simpl in Hr2.
  apply bind_ok in Hl as (s' & u7 & H1 & Hl). apply guard_ok in H1 as [-> _].
  apply bind_ok in Hl as (s' & u8 & H1 & Hl). apply ret_ok in H1 as [-> _].
  apply bind_ok in Hl as (s' & upc & H1 & Hl).
  apply (precheck_ok [i; mkIface p' pname]) in H1 as [-> _].
  apply bind_ok in Hl as (s' & u9 & H1 & Hl). apply mutate_ok in H1 as (E3 & HE3 & ->). simpl in HE3.
  apply add_node_result in HE3 as [Hlnew ->]. simpl nid in Hlnew. simpl sfresh in *.
  apply bind_ok in Hl as (s' & u10 & H1 & Hl). apply ret_ok in Hl as [<- _].
  simpl in H1.
  apply bind_ok in H1 as (s' & u11 & H1 & H2). apply mutate_ok in H1 as (E4 & HE4 & ->). simpl in HE4.
  apply bind_ok in H2 as (s' & u12 & H2 & H3). apply mutate_ok in H2 as (E5 & HE5 & ->). simpl in HE5.
  apply ret_ok in H3 as [-> _]. simpl.
  (* freshness of l' *)
  assert (Hl_notin : ~ In l' (ids E) /\ l' <> p').
  { apply has_node_false_In in Hlnew. rewrite HE'' in Hlnew. unfold ids in Hlnew; simpl in Hlnew.
    rewrite map_app in Hlnew. simpl in Hlnew. split.
    - intro X. apply Hlnew. apply in_app_iff. left. exact X.
    - intro X. apply Hlnew. apply in_app_iff. right. left. auto. }
  destruct Hl_notin as [Hl_notin Hlp].
  assert (Hl_unt : untouched l' (gedges E)) by (apply closed_untouched; auto).
  assert (Hns_in : In ns (ids E)).
  { unfold E. rewrite ids_ext. apply in_app_iff. right. left. reflexivity. }
  assert (Hi_in : In (ih_id i) (ids E)).
  { unfold peer_cps in Hpeers. destruct (find_node E (ih_id i)) eqn:Ef; [|discriminate].
    eapply find_node_In; eauto. }
  assert (Hlns : l' <> ns) by (intro X; apply Hl_notin; rewrite X; auto).
  assert (Hpns : p' <> ns) by (intro X; apply Hp_notin; rewrite X; auto).
  assert (Hip : ih_id i <> p') by (intro X; apply Hp_notin; rewrite <- X; auto).
  assert (Hil : ih_id i <> l') by (intro X; apply Hl_notin; rewrite <- X; auto).
  rewrite HE'' in HE4.
  apply add_edge_result in HE4.
  2:{ simpl. apply same_pair_untouched_l. apply untouched_app; auto.
      intros e [<-|[]]. unfold touches; simpl.
      rewrite (neqb_of_neq ns l') by auto. rewrite (neqb_of_neq p' l') by auto. reflexivity. }
  simpl in HE4. rewrite HE4 in HE5.
  apply add_edge_result in HE5.
  2:{ simpl. rewrite <- app_assoc. rewrite existsb_app. rewrite (same_pair_untouched_l _ _ _ Hl_unt). simpl.
      unfold same_pair; simpl.
      rewrite (neqb_of_neq ns l') by auto. rewrite (neqb_of_neq p' l') by auto.
      rewrite (neqb_of_neq (ih_id i) p') by auto. rewrite (neqb_of_neq l' p') by auto.
      rewrite !andb_false_r, !andb_false_l. reflexivity. }
  simpl in HE5.
  (* the new connection *)
  set (lty := if ity =? tSharedPort then tL2Path else tPatch) in *.
  exists (mkConn i p' l' lty pname).
  assert (Hi_old : In (ih_id i) (ids g)).
  { unfold E in Hi_in. rewrite ids_ext in Hi_in. apply in_app_iff in Hi_in as [?|Hnew]; auto.
    exfalso. apply HiU. apply HU. exact Hnew. }
  assert (Hi_notcs : ~ In (ih_id i) (map k_i cs)).
  { intro Hin. apply in_map_iff in Hin as [c' [Hc'i Hc']].
    destruct (peers_member g nsn cs G c' Hc') as [L [HL HinL]].
    rewrite Hc'i in HL. fold E in HL. rewrite HL in Hpeers. inversion Hpeers; subst. contradiction. }
  split; [reflexivity|]. split; [|split; [|split]].
  - rewrite HE5. rewrite ext_snoc. fold E. unfold conn_nodes, conn_edges; simpl. fold ns.
    rewrite <- !app_assoc. reflexivity.
  - destruct G as [Gnd Gcls Gcp Gifs Gpeers]. constructor; auto.
    + rewrite new_ids_snoc. cbn [k_p k_l]. rewrite app_assoc.
      replace ((ids g ++ new_ids nsn cs) ++ [p'; l']) with (((ids g ++ new_ids nsn cs) ++ [p']) ++ [l'])
        by (rewrite <- app_assoc; reflexivity).
      unfold E in Hp_notin, Hl_notin. rewrite ids_ext in Hp_notin, Hl_notin.
      apply NoDup_snoc; [apply NoDup_snoc; auto|].
      intro X. apply in_app_iff in X as [X|[X|[]]]; [apply Hl_notin; auto|apply Hlp; auto].
    + intros c' Hc'. apply in_app_iff in Hc' as [Hc'|[<-|[]]]; [auto | apply Hty; exact Hi_old].
    + rewrite map_app. simpl. apply NoDup_snoc; auto.
    + intros c' Hc'. apply in_app_iff in Hc' as [Hc'|[<-|[]]]; [auto|].
      unfold k_i; simpl. rewrite <- Hpeers. symmetry.
      apply (peers_transport g nsn cs Hcl (mkGood _ _ _ Gnd Gcls Gcp Gifs Gpeers)); auto.
  - rewrite new_ids_snoc. apply incl_app; auto. simpl.
    intros x [<-|[<-|[]]]; apply Hfr.
    + rewrite Hr1. left; reflexivity.
    + rewrite Hr1. right. rewrite Hr2. left; reflexivity.
  - intros x Hx. apply Hfr. rewrite Hr1. right. rewrite Hr2. right. exact Hx.
Qed.

(* ---------------------------------------------------------------- shape of a new port under an existing parent *)
Lemma opt_raise_ok o s s1 u : opt_raise o s = (s1, Ok u) -> s1 = s.
Proof. destruct o; simpl; unfold raise, ret; intro H; inversion H; reflexivity. Qed.

Lemma id_or_draw_ok o s s1 x : id_or_draw o s = (s1, Ok x) ->
  sg s1 = sg s /\ incl (sfresh s1) (sfresh s) /\ (o = Some x \/ In x (sfresh s)).
Proof.
  destruct o as [y|]; simpl.
  - unfold ret. intro H; inversion H; subst. split; auto. split; [apply incl_refl|left; reflexivity].
  - intro H. apply draw_ok in H as (r & Hr & ->). simpl. rewrite Hr. split; auto.
    split; [intros z Hz; right; auto|right; left; auto].
Qed.

Lemma new_interface_shape fl name node_id ns ty pure s s2 p :
  closed (sg s) ->
  new_interface fl name node_id (Some ns) (Some ty) pure s = (s2, Ok p) ->
  has_node (sg s) p = false /\
  sg s2 = mkGraph (gnodes (sg s) ++ [mkNode p cCP name ty 0]) (gedges (sg s) ++ [mkEdge ns p rConnects]) /\
  incl (sfresh s2) (sfresh s) /\ (node_id = Some p \/ In p (sfresh s)).
Proof.
  intros Hcl H. unfold new_interface in H.
  apply bind_ok in H as (s' & u1 & H1 & H). apply guard_ok in H1 as [-> _].
  apply bind_ok in H as (s0 & id & H1 & H). apply id_or_draw_ok in H1 as (G0 & F0 & I0).
  apply bind_ok in H as (s' & u2 & H1 & H). apply guard_ok in H1 as [-> _].
  apply bind_ok in H as (s' & u3 & H1 & H). apply opt_raise_ok in H1 as ->.
  apply bind_ok in H as (s' & u4 & H1 & H). apply mutate_ok in H1 as (g1 & Hg1 & ->).
  apply add_node_result in Hg1 as [Hnew ->]. simpl nid in Hnew.
  apply bind_ok in H as (s' & u5 & H1 & H). apply mutate_ok in H1 as (g2 & Hg2 & ->). simpl in Hg2.
  apply ret_ok in H as [-> <-]. simpl.
  rewrite G0 in *.
  assert (Hunt : untouched p (gedges (sg s))).
  { apply closed_untouched; auto. apply has_node_false_In; auto. }
  apply add_edge_result in Hg2; [|simpl; apply same_pair_untouched; exact Hunt]. simpl in Hg2.
  repeat split; auto.
Qed.

Lemma parent_found_In g x : In x (ids g) -> NoDup (ids g) -> exists n, find_node g x = Ok n.
Proof. intros H Hnd. destruct (In_ids_find g x Hnd H) as [n [Hn _]]; eauto. Qed.

(* ---------------------------------------------------------------- a failing iteration leaves at most one orphan port *)
Lemma step_fail_shape fl g nsn cs ty i s s1 e :
  closed g -> good g nsn cs -> sg s = ext g nsn cs ->
  (guardrails ty i ;;; connect_interface fl (nid nsn) i) s = (s1, Err e) ->
  sg s1 = ext g nsn cs \/
  exists o, sg s1 = mkGraph (gnodes (ext g nsn cs) ++ [o]) (gedges (ext g nsn cs) ++ [mkEdge (nid nsn) (nid o) rConnects])
            /\ ~ In (nid o) (ids (ext g nsn cs)) /\ ncls o = cCP.
Proof.
  intros Hcl G Hsg H.
  set (E := ext g nsn cs) in *.
  assert (HclE : closed E) by (apply ext_closed; auto).
  assert (HndE : NoDup (ids E)) by (unfold E; rewrite ids_ext; apply (gd_nodup _ _ _ G)).
  assert (Hns_in : In (nid nsn) (ids E)).
  { unfold E. rewrite ids_ext. apply in_app_iff. right. left. reflexivity. }
  apply bind_err_cases in H as [H|(s' & u & H1 & H)].
  { left. rewrite <- Hsg. exact (no_mut_guardrails _ _ _ _ _ H). }
  apply guardrails_ok in H1 as ->.
  unfold connect_interface in H.
  apply bind_err_cases in H as [H|(s' & nsty & H1 & H)]; [left; rewrite <- Hsg; exact (no_mut_ask _ _ _ _ H)|].
  apply ask_ok in H1 as [-> _].
  apply bind_err_cases in H as [H|(s' & u1 & H1 & H)];
    [left; rewrite <- Hsg; exact (no_mut_guardrails _ _ _ _ _ H)|].
  apply guardrails_ok in H1 as ->.
  apply bind_err_cases in H as [H|(s' & owner & H1 & H)]; [left; rewrite <- Hsg; exact (no_mut_ask _ _ _ _ H)|].
  apply ask_ok in H1 as [-> _].
  destruct owner as [on|]; [|left; rewrite <- Hsg; exact (no_mut_raise _ _ _ _ H)].
  apply bind_err_cases in H as [H|(s' & oname & H1 & H)]; [left; rewrite <- Hsg; exact (no_mut_ask _ _ _ _ H)|].
  apply ask_ok in H1 as [-> _].
  apply bind_err_cases in H as [H|(s' & peers & H1 & H)]; [left; rewrite <- Hsg; exact (no_mut_ask _ _ _ _ H)|].
  apply ask_ok in H1 as [-> _].
  apply bind_err_cases in H as [H|(s' & u2 & H1 & H)]; [left; rewrite <- Hsg; exact (no_mut_guard _ _ _ _ _ H)|].
  apply guard_ok in H1 as [-> _].
  set (pname := oname ++ dash ++ ih_name i) in *.
  apply bind_err_cases in H as [H|(s' & cps & H1 & H)]; [left; rewrite <- Hsg; exact (no_mut_ask _ _ _ _ H)|].
  apply ask_ok in H1 as [-> _].
  apply bind_err_cases in H as [H|(s' & ux1 & H1 & H)]; [left; rewrite <- Hsg; exact (no_mut_guard _ _ _ _ _ H)|].
  apply guard_ok in H1 as [-> _].
  apply bind_err_cases in H as [H|(s' & ltk & H1 & H)]; [left; rewrite <- Hsg; exact (no_mut_ask _ _ _ _ H)|].
  apply ask_ok in H1 as [-> _].
  apply bind_err_cases in H as [H|(s' & ux2 & H1 & H)]; [left; rewrite <- Hsg; exact (no_mut_guard _ _ _ _ _ H)|].
  apply guard_ok in H1 as [-> _].
  apply bind_err_cases in H as [H|(s2 & p & H1 & H)].
  { left. rewrite <- Hsg.
    refine (new_interface_atomic fl pname None (nid nsn) (Some tServicePort) None s s1 e _ H).
    unfold parent_found. rewrite Hsg. apply parent_found_In; auto. }
  right.
  assert (HclS : closed (sg s)) by (rewrite Hsg; exact HclE).
  destruct (new_interface_shape _ _ _ _ _ _ _ _ _ HclS H1) as (Hnew & Hs2 & _ & _).
  rewrite Hsg in Hnew, Hs2.
  exists (mkNode p cCP pname tServicePort 0). simpl nid.
  split; [|split; [apply has_node_false_In; exact Hnew|reflexivity]].
  rewrite <- Hs2.
  apply bind_err_cases in H as [H|(s' & ity & H3 & H)]; [exact (no_mut_ask _ _ _ _ H)|].
  apply ask_ok in H3 as [-> _].
  apply bind_err_cases in H as [H|(s' & l0 & H3 & H)].
  - exact (new_link_atomic fl _ None _ _ None s2 s1 e I H).
  - unfold ret in H. discriminate.
Qed.

(* C08 proofs, part 6: what IS deleted when an operation returns normally.
   (a) LI: a link of exactly two ends never survives one of its ends (the peering link goes with the port);
   (b) the containment closure of the addressed element is deleted (node -> components, services ->
       their ports -> the sub-interfaces that hang on a port alone). *)
From Coq Require Import List NArith Bool Lia Arith PeanoNat.
From FIM Require Import Model.T8Graph Model.T8Ops Proofs.T8Frame Proofs.T8Query Proofs.T8Hoare Proofs.T8Sound.
Import ListNotations.

(* x hangs on i alone: a connection point next to i whose only neighbouring connection point is i *)
Definition sole (g : graph) (i x : N) : Prop :=
  In x (cpn g i) /\ In i (cpn g x) /\ forall y, In y (cpn g x) -> y = i.
Definition O_cp (g : graph) (i : N) (dp : bool) (x : N) : Prop := x = i \/ (dp = true /\ sole g i x).
Definition O_ns (g : graph) (s : N) (x : N) : Prop := x = s \/ exists i, In i (cpn g s) /\ O_cp g i true x.
Definition O_comp (g : graph) (c : N) (x : N) : Prop :=
  x = c \/ exists s, In s (first_neighbor g c RHas CNS) /\ O_ns g s x.
Definition O_node (g : graph) (n : N) (x : N) : Prop :=
  x = n \/ (exists c, In c (first_neighbor g n RHas CComp) /\ O_comp g c x)
        \/ (exists s, In s (first_neighbor g n RHas CNS) /\ O_ns g s x).

(* l is a link whose connection points are exactly i and j *)
Definition link2 (g : graph) (l i j : N) : Prop :=
  class_of g l = CLink /\ i <> j /\ forall y, In y (cpn g l) <-> y = i \/ y = j.

Lemma link2_sym g l i j : link2 g l i j -> link2 g l j i.
Proof. intros [A [B C]]. split; [exact A|]. split; [congruence|]. intros y. rewrite C. tauto. Qed.

Section Complete.
Variable g0 : graph.

Definition LI (D : list N) : Prop := forall l i j, link2 g0 l i j -> In i D -> In l D.
Definition CI (D : list N) : Prop := forall i x, In i D -> sole g0 i x -> In x D.
Definition J1 (s : st) : Prop := cons g0 s /\ LI (snd s).
Definition J2 (s : st) : Prop := cons g0 s /\ LI (snd s) /\ CI (snd s).

Lemma cpn_class g l y : In y (cpn g l) -> class_of g y = CCP.
Proof. unfold cpn. rewrite first_neighbor_In. tauto. Qed.

Lemma cons_has s n : cons g0 s -> has_node (fst s) n = true -> ~ In n (snd s) /\ has_node g0 n = true.
Proof.
  intros C H. rewrite C, has_node_restrict in H. apply andb_true_iff in H. destruct H as [H1 H2].
  split; [apply memN_false; apply negb_true_iff; exact H1 | exact H2].
Qed.

Lemma cons_class s n : cons g0 s -> ~ In n (snd s) -> class_of (fst s) n = class_of g0 n.
Proof. intros C H. rewrite C. apply class_of_restrict. apply memN_false. exact H. Qed.

Lemma find_has g n x : find_node g n = Some x -> has_node g n = true.
Proof. unfold has_node. intros ->. reflexivity. Qed.

(* the delete loop *)
Lemma for_each_delete_ok l : forall (s s' : st),
  for_each m_delete l s = (inl tt, s') ->
  (forall x, In x (snd s') <-> In x l \/ In x (snd s)) /\ (cons g0 s -> cons g0 s').
Proof.
  induction l as [|a l IH]; intros s s' E.
  - simpl in E. apply ret_ok in E. destruct E as [_ ->]. split; [intros x; simpl; tauto | auto].
  - simpl in E. apply bind_ok in E. destruct E as [[] [s1 [E1 E2]]].
    apply delete_ok in E1. destruct E1 as [Hh ->].
    destruct (IH _ _ E2) as [H1 H2]. split.
    + intros x. rewrite H1. simpl. tauto.
    + intros C. apply H2. unfold cons in *. simpl. rewrite C. apply delete_restrict.
Qed.

(* one call of remove_cp_and_links that returns *)
Lemma remove_cp_ok n dp s s' :
  cons g0 s -> remove_cp_and_links n dp s = (inl tt, s') ->
  cons g0 s' /\ ~ In n (snd s) /\
  (forall x, In x (snd s') <-> In x (cp_del_list (fst s) n dp) \/ In x (snd s)).
Proof.
  intros C E. unfold remove_cp_and_links in E.
  apply bind_ok in E. destruct E as [[] [s0 [E0 E]]]. apply read_ok in E0. destruct E0 as [_ ->].
  apply bind_ok in E. destruct E as [x0 [s1 [E1 E]]]. apply need_node_ok in E1. destruct E1 as [F ->].
  apply bind_ok in E. destruct E as [l [s1 [E1 E]]]. apply get_ok in E1. destruct E1 as [-> ->].
  apply for_each_set_ok in E. destruct (for_each_delete_ok _ _ _ E) as [H1 H2].
  split; [apply H2; exact C|]. split; [|exact H1].
  apply (cons_has s n C). apply (find_has _ _ _ F).
Qed.

Lemma in_family_cur (s : st) n dp : In n (cp_family (fst s) n dp).
Proof. unfold cp_family. rewrite dedup_In. left. reflexivity. Qed.

Lemma cp_del_list_In g n dp x :
  In x (cp_del_list g n dp) <-> In x (cp_family g n dp) \/ In x (cp_links g (cp_family g n dp)).
Proof. unfold cp_del_list. rewrite dedup_In, in_app_iff. tauto. Qed.

Lemma cp_links_In g fam x :
  In x (cp_links g fam) <->
  exists i, In i fam /\ In x (first_neighbor g i RConnects CLink) /\
            length (first_neighbor g x RConnects CCP) = 2%nat.
Proof.
  unfold cp_links. rewrite dedup_In, in_flat_map. split.
  - intros [i [Hi H]]. apply filter_In in H. destruct H as [H1 H2]. apply Nat.eqb_eq in H2. exists i. auto.
  - intros [i [Hi [H1 H2]]]. exists i. split; [exact Hi|]. apply filter_In. split; [exact H1|].
    apply Nat.eqb_eq. exact H2.
Qed.

Lemma cp_family_class g n dp i : In i (cp_family g n dp) -> i = n \/ class_of g i = CCP.
Proof.
  unfold cp_family. rewrite dedup_In. intros [<-|H]; [left; reflexivity|].
  apply filter_In in H. destruct H as [H _]. right. apply (cpn_class g n). exact H.
Qed.

(* LI is kept by a returning remove_cp_and_links *)
Lemma remove_cp_LI n dp s s' :
  J1 s -> remove_cp_and_links n dp s = (inl tt, s') -> J1 s'.
Proof.
  intros [C L] E. destruct (remove_cp_ok n dp s s' C E) as [C' [Hn H]]. split; [exact C'|].
  intros l i j Hl Hi. apply H in Hi. apply H.
  destruct Hi as [Hi|Hi]; [|right; apply (L l i j Hl Hi)].
  destruct (in_dec N.eq_dec l (snd s)) as [Hld|Hld]; [right; exact Hld|].
  left. pose proof Hl as [Hcl [Hij Hm]].
  assert (Hid : ~ In i (snd s)).
  { intros Hid. apply Hld. apply (L l i j Hl Hid). }
  assert (Hjd : ~ In j (snd s)).
  { intros Hjd. apply Hld. apply (L l j i (link2_sym _ _ _ _ Hl) Hjd). }
  assert (Hic : class_of g0 i = CCP) by (apply (cpn_class g0 l); apply Hm; auto).
  apply cp_del_list_In in Hi. apply cp_del_list_In. right.
  assert (Hfam : In i (cp_family (fst s) n dp)).
  { destruct Hi as [Hi|Hi]; [exact Hi|]. exfalso.
    apply cp_links_In in Hi. destruct Hi as [i' [_ [Hi _]]].
    rewrite C in Hi. apply first_neighbor_restrict in Hi; [|discriminate].
    destruct Hi as [Hi _]. apply first_neighbor_In in Hi. destruct Hi as [_ Hi]. congruence. }
  apply cp_links_In. exists i. split; [exact Hfam|]. rewrite C. split.
  - apply first_neighbor_restrict; [discriminate|]. split; [|auto].
    apply (first_neighbor_sym g0 l i RConnects CCP CLink); [apply Hm; auto | exact Hcl].
  - apply (NoDup_len2 _ i j Hij); [apply first_neighbor_NoDup|].
    intros y. rewrite first_neighbor_restrict; [|discriminate]. fold (cpn g0 l). rewrite Hm.
    split; [tauto|]. intros [->| ->]; tauto.
Qed.

(* what a returning remove_cp_and_links n dp is sure to have deleted *)
Lemma remove_cp_complete n dp s s' :
  cons g0 s -> remove_cp_and_links n dp s = (inl tt, s') ->
  forall x, O_cp g0 n dp x -> In x (snd s').
Proof.
  intros C E x Hx. destruct (remove_cp_ok n dp s s' C E) as [C' [Hn H]]. apply H.
  destruct Hx as [->|[Hdp [Hx1 [Hx2 Hx3]]]].
  - left. apply cp_del_list_In. left. apply in_family_cur.
  - destruct (in_dec N.eq_dec x (snd s)) as [Hxd|Hxd]; [right; exact Hxd|]. left.
    apply cp_del_list_In. left. unfold cp_family. rewrite dedup_In. right. apply filter_In. split.
    + rewrite C. apply first_neighbor_restrict; [discriminate|]. auto.
    + subst dp. rewrite andb_true_r. apply Nat.eqb_eq.
      apply (NoDup_len1 _ n); [apply first_neighbor_NoDup|].
      intros y. rewrite C, first_neighbor_restrict; [|discriminate]. split.
      * intros [Hy _]. apply Hx3. exact Hy.
      * intros ->. auto.
Qed.

(* CI is kept by a returning remove_cp_and_links n true when n is a connection point *)
Lemma remove_cp_CI n s s' :
  J2 s -> class_of g0 n = CCP -> remove_cp_and_links n true s = (inl tt, s') -> J2 s'.
Proof.
  intros [C [L K]] Hnc E.
  destruct (remove_cp_LI n true s s' (conj C L) E) as [C' L'].
  split; [exact C'|]. split; [exact L'|].
  destruct (remove_cp_ok n true s s' C E) as [_ [Hn H]].
  intros i x Hi Hs. apply H in Hi. destruct Hi as [Hi|Hi]; [|apply H; right; apply (K i x Hi Hs)].
  destruct (in_dec N.eq_dec x (snd s)) as [Hxd|Hxd]; [apply H; right; exact Hxd|].
  apply cp_del_list_In in Hi. destruct Hi as [Hi|Hi].
  - (* i in the family *)
    unfold cp_family in Hi. rewrite dedup_In in Hi. destruct Hi as [<-|Hi].
    + apply (remove_cp_complete n true s s' C E). right. auto.
    + apply filter_In in Hi. destruct Hi as [Hi1 Hi2]. rewrite andb_true_r in Hi2. apply Nat.eqb_eq in Hi2.
      (* i hangs on n alone in the current graph; x is next to i, so x = n *)
      rewrite C in Hi1. apply first_neighbor_restrict in Hi1; [|discriminate]. destruct Hi1 as [Hi1 [_ Hid]].
      destruct Hs as [Hs1 [Hs2 Hs3]].
      apply len1_inv in Hi2. destruct Hi2 as [a Ha].
      assert (Hna : In n (first_neighbor (fst s) i RConnects CCP)).
      { rewrite C. apply first_neighbor_restrict; [discriminate|]. split; [|auto].
        apply (first_neighbor_sym g0 n i RConnects CCP CCP); [exact Hi1 | exact Hnc]. }
      assert (Hxa : In x (first_neighbor (fst s) i RConnects CCP)).
      { rewrite C. apply first_neighbor_restrict; [discriminate|]. auto. }
      rewrite Ha in Hna, Hxa. destruct Hna as [<-|[]]. destruct Hxa as [<-|[]].
      apply H. left. apply cp_del_list_In. left. apply in_family_cur.
  - (* i a link: it is no connection point, nothing hangs on it *)
    exfalso. apply cp_links_In in Hi. destruct Hi as [i' [_ [Hi _]]].
    rewrite C in Hi. apply first_neighbor_restrict in Hi; [|discriminate]. destruct Hi as [Hi _].
    apply first_neighbor_In in Hi. destruct Hi as [_ Hi].
    destruct Hs as [_ [Hs2 _]]. apply cpn_class in Hs2. congruence.
Qed.

(* deleting a node that is not a connection point keeps LI and CI *)
Lemma delete_J2 n c s u s' :
  J2 s -> class_of (fst s) n = c -> c <> CCP -> m_delete n s = (inl u, s') ->
  J2 s' /\ snd s' = n :: snd s.
Proof.
  intros [C [L K]] Hc Hne E. apply delete_ok in E. destruct E as [Hh ->]. simpl.
  destruct (cons_has s n C Hh) as [Hnd _]. rewrite (cons_class s n C Hnd) in Hc.
  split; [|reflexivity]. split; [|split].
  - unfold cons. simpl. rewrite C. apply delete_restrict.
  - intros l i j Hl [<-|Hi]; [|right; apply (L l i j Hl Hi)].
    exfalso. destruct Hl as [_ [_ Hm]]. assert (class_of g0 n = CCP) by (apply (cpn_class g0 l); apply Hm; auto).
    congruence.
  - intros i x [<-|Hi] Hs; [|right; apply (K i x Hi Hs)].
    exfalso. destruct Hs as [_ [Hs _]]. apply cpn_class in Hs. congruence.
Qed.

Lemma J2_J1 s : J2 s -> J1 s.
Proof. intros [A [B _]]. split; assumption. Qed.

Lemma delete_J1 n c s u s' :
  J1 s -> class_of (fst s) n = c -> c <> CCP -> m_delete n s = (inl u, s') ->
  J1 s' /\ snd s' = n :: snd s.
Proof.
  intros [C L] Hc Hne E. apply delete_ok in E. destruct E as [Hh ->]. simpl.
  destruct (cons_has s n C Hh) as [Hnd _]. rewrite (cons_class s n C Hnd) in Hc.
  split; [|reflexivity]. split.
  - unfold cons. simpl. rewrite C. apply delete_restrict.
  - intros l i j Hl [<-|Hi]; [|right; apply (L l i j Hl Hi)].
    exfalso. destruct Hl as [_ [_ Hm]]. assert (class_of g0 n = CCP) by (apply (cpn_class g0 l); apply Hm; auto).
    congruence.
Qed.

End Complete.

(* C07 - add_network_service with interfaces (and the port mirror service): the service, then one connect_interface per
   interface; a failure rolls everything back (16ce105): the interfaces connected so far are disconnected and the
   service is removed.  The service made by the call owns service ports only, each peered with the interface it was made
   for -- so its removal strands nothing. *)
From Coq Require Import String List NArith ZArith Bool Arith Lia.
From FIM Require Import Base.Str Gen.Rules Model.T7Graph Model.T7Ops Model.T7WF Model.T7Steps Model.T7Rel
     Proofs.T7Tables Proofs.T7WFRefl Proofs.T7Frame Proofs.T7Units Proofs.T7Api Proofs.T7Api2 Proofs.T7Api3
     Proofs.T7RelUnits Proofs.T7RelRun Proofs.T7RelCp Proofs.T7Api4 Proofs.T7RelAdd Proofs.T7Api5 Proofs.T7Api6
     Proofs.T7Rem Proofs.T7Rem2 Proofs.T7Rem3 Proofs.T7Rem4 Proofs.T7Rem5.
Import ListNotations.

(* the interfaces of s are service ports none of which has a service-port peer *)
Definition SPfree (g : graph) (s : str) : Prop :=
  forall x, In x (first_nb g s Connects KCP) ->
    typ_is g x sServicePort = true /\ forall z, In z (peers g x) -> typ_is g z sServicePort = false.

Lemma SPfree_remove g d s : SPfree g s -> d s = false -> SPfree (remove_set g d) s.
Proof.
  intros H Ds x Hx. rewrite (first_nb_remove g d s _ _ Ds) in Hx. apply filter_In in Hx as [Hx Dx]. apply negb_true_iff in Dx.
  destruct (H x Hx) as [T P]. split; [rewrite (rs_typ g d _ _ Dx); exact T|].
  intros z Hz. apply (peers_remove_sub g d x z Dx) in Hz as [Hz Dz]. rewrite (rs_typ g d _ _ Dz). apply P. exact Hz.
Qed.

Section AddPeeringFrame.
Variables (g : graph) (s i : str) (sp l : node).
Hypothesis W : WF g.
Hypothesis OK : peering_ok g s i sp l = true.
Let g4 := add_peering g s i sp l.

Lemma apf_old y : has_id g y = true -> y <> nid sp /\ y <> nid l.
Proof.
  intro H. destruct (pk_parts g s i sp l OK) as [F1 [F2 _]]. split; intro E; subst y; congruence.
Qed.
Lemma apf_cls y k : has_id g y = true -> cls_is g4 y k = cls_is g y k.
Proof. intro H. destruct (apf_old y H). apply (pk_cls4_old g s i sp l); assumption. Qed.
Lemma apf_typ y t : has_id g y = true -> typ_is g4 y t = typ_is g y t.
Proof. intro H. destruct (apf_old y H). apply (pk_typ4_old g s i sp l); assumption. Qed.

Lemma apf_X1 : subs_under_dedicated g = true -> subs_under_dedicated g4 = true.
Proof.
  intro X. destruct (pk_parts g s i sp l OK) as [F1 [F2 [_ [_ [_ [C1 [_ [C2 [Cs [Ci _]]]]]]]]]].
  unfold subs_under_dedicated in *. rewrite forallb_forall in *. intros e He.
  assert (Cl : cls_is g4 (nid l) KCP = false).
  { unfold g4, add_peering. change (cls_is (add_link_edge (add_link_edge (g_add_node (add_owned g sp s Connects) l) (nid l) i) (nid l) (nid sp)) (nid l) KCP = false).
    rewrite !le_cls. rewrite (pk_cls2_l g s i sp l OK), C2. reflexivity. }
  assert (Csg : cls_is g4 s KCP = false).
  { rewrite (apf_cls s KCP (cls_is_has_id _ _ _ Cs)). apply (cls_is_unique _ _ _ _ Cs). discriminate. }
  assert (Old : In e (gedges g) -> negb (cls_is g4 (ea e) KCP && cls_is g4 (eb e) KCP) || typ_is g4 (ea e) sDedicatedPort || typ_is g4 (eb e) sDedicatedPort = true).
  { intro Hin. destruct (wf_edge_ends _ W e Hin) as [A B]. apply has_id_In in A. apply has_id_In in B.
    rewrite !(apf_cls _ _ A), !(apf_cls _ _ B), (apf_typ _ _ A), (apf_typ _ _ B). apply X. exact Hin. }
  unfold g4, add_peering, g_add_edge, g_add_node in He. simpl in He.
  repeat (apply in_app_or in He as [He|He]; [apply filter_In in He as [He _] | destruct He as [<-|[]]; simpl; rewrite ?Cl, ?Csg; reflexivity]).
  apply Old. exact He.
Qed.

Lemma apf_ports x : In x (first_nb g4 s Connects KCP) -> x = nid sp \/ In x (first_nb g s Connects KCP).
Proof.
  intro H. apply In_first_nb in H as [H C].
  unfold g4, add_peering in H. change (In (x, Connects) (nbrs (add_link_edge (add_link_edge (g_add_node (add_owned g sp s Connects) l) (nid l) i) (nid l) (nid sp)) s)) in H.
  rewrite (pk_nbrs4_s g s i sp l W OK) in H. apply in_app_or in H as [H|H]; [|left; destruct H as [H|[]]; congruence].
  right. apply In_first_nb. split; [exact H|].
  assert (Hx : has_id g x = true) by (apply (nbrs_has_id _ _ _ _ (wf_edge_ends _ W)) in H; tauto).
  rewrite <- (apf_cls x KCP Hx). exact C.
Qed.

Lemma apf_peers_old x z : has_id g x = true -> x <> s -> x <> i -> cls_is g x KCP = true -> In z (peers g4 x) -> In z (peers g x) /\ has_id g z = true.
Proof.
  intros Hx Nxs Nxi Cx H. destruct (apf_old x Hx) as [N1 N2].
  apply In_peers_inv in H as [l' [Hl [Hz Hne]]].
  apply In_first_nb in Hl as [Hl Cl]. apply In_first_nb in Hz as [Hz Cz].
  change g4 with (add_link_edge (add_link_edge (g_add_node (add_owned g sp s Connects) l) (nid l) i) (nid l) (nid sp)) in Hl, Hz.
  rewrite (pk_nbrs4_other g s i sp l W OK x Nxs N1 N2 Nxi) in Hl.
  assert (Hl0 : has_id g l' = true) by (apply (nbrs_has_id _ _ _ _ (wf_edge_ends _ W)) in Hl; tauto).
  rewrite (apf_cls l' KLink Hl0) in Cl. destruct (apf_old l' Hl0) as [M1 M2].
  destruct (pk_parts g s i sp l OK) as [_ [_ [_ [_ [_ [_ [_ [_ [Cs [Ci _]]]]]]]]]].
  assert (Nls : l' <> s) by (intro E; subst l'; rewrite (cls_is_unique _ _ _ KLink Cs) in Cl; discriminate).
  assert (Nli : l' <> i) by (intro E; subst l'; rewrite (cls_is_unique _ _ _ KLink Ci) in Cl; discriminate).
  rewrite (pk_nbrs4_other g s i sp l W OK l' Nls M1 M2 Nli) in Hz.
  assert (Hz0 : has_id g z = true) by (apply (nbrs_has_id _ _ _ _ (wf_edge_ends _ W)) in Hz; tauto).
  rewrite (apf_cls z KCP Hz0) in Cz. split; [|exact Hz0].
  eapply In_peers; [apply In_first_nb; split; [exact Hl | exact Cl] | apply In_first_nb; split; [exact Hz | exact Cz] | exact Hne].
Qed.

Lemma apf_SPfree : SPfree g s -> SPfree g4 s.
Proof.
  intros H x Hx. destruct (pk_parts g s i sp l OK) as [F1 [F2 [_ [_ [_ [C1 [T1 [C2 [Cs [Ci [Ti _]]]]]]]]]]].
  destruct (apf_ports x Hx) as [->|Hx0].
  - split.
    + change g4 with (add_link_edge (add_link_edge (g_add_node (add_owned g sp s Connects) l) (nid l) i) (nid l) (nid sp)).
      rewrite (pk_typ4_ps g s i sp l OK). exact T1.
    + intros z Hz. change g4 with (add_link_edge (add_link_edge (g_add_node (add_owned g sp s Connects) l) (nid l) i) (nid l) (nid sp)) in Hz.
      rewrite (pk_peers4 g s i sp l W OK) in Hz. destruct Hz as [<-|[]].
      rewrite (apf_typ i _ (cls_is_has_id _ _ _ Ci)). exact Ti.
  - destruct (H x Hx0) as [T P]. assert (Cx : cls_is g x KCP = true) by (apply In_first_nb in Hx0; tauto).
    pose proof (cls_is_has_id _ _ _ Cx) as Hx1.
    split; [rewrite (apf_typ x _ Hx1); exact T|]. intros z Hz.
    assert (Nxs : x <> s) by (intro E; subst x; rewrite (cls_is_unique _ _ _ KCP Cs) in Cx; discriminate).
    assert (Nxi : x <> i) by (intro E; subst x; congruence).
    destruct (apf_peers_old x z Hx1 Nxs Nxi Cx Hz) as [Hz0 Hzi]. rewrite (apf_typ z _ Hzi). apply P. exact Hz0.
Qed.
End AddPeeringFrame.

(* ---- the rollback -------------------------------------------------------------------------------------------------- *)
Lemma remove_fresh_service g s0 st st' r :
  sg st = g -> WF g -> subs_under_dedicated g = true -> cls_is g s0 KNS = true -> SPfree g s0 ->
  remove_ns_with_cps_and_links s0 st = (st', r) -> WF (sg st').
Proof.
  intros G W X Cs SF H.
  set (P0 := first_nb g s0 Connects KCP).
  set (E := fun y => str_eqb y s0 || mem_str y P0).
  pose proof (InvD_init g W E st G) as I0.
  destruct (remove_ns_run g W E (fun _ => false) st s0 I0 (cls_is_has_id _ _ _ Cs) eq_refl Cs) as [d2 [R2 [I2 [_ [D2s [D2p _]]]]]].
  - intros x Hx. unfold E. apply orb_true_iff. right. apply mem_str_In. exact Hx.
  - intros x c z Hx _ Hc Hz Tz. exfalso. rewrite G in Hc, Hz. destruct (SF x Hx) as [Tx Px].
    assert (Cx : cls_is g x KCP = true) by (apply In_first_nb in Hx; tauto).
    rewrite (sp_no_children g x W X Cx Tx) in Hc. destruct Hc as [->|[]]. rewrite (Px z Hz) in Tz. discriminate.
  - rewrite R2 in H. inversion H; subst st' r. simpl. apply (finish g E d2 _ I2).
    intros y Hy _. unfold E in Hy. apply orb_true_iff in Hy as [Hy|Hy].
    + apply str_eqb_eq in Hy. subst y. exact D2s.
    + apply mem_str_In in Hy. apply D2p. exact Hy.
Qed.

Lemma rollback_ns s0 e : forall done st st' (r : res unit),
  WF (sg st) -> subs_under_dedicated (sg st) = true -> cls_is (sg st) s0 KNS = true -> SPfree (sg st) s0 ->
  (forall j, In j done -> cls_is (sg st) j KCP = true /\ typ_is (sg st) j sServicePort = false) ->
  (for_each done disconnect_interface ;;; (remove_ns_with_cps_and_links s0 ;;; raise e)) st = (st', r) -> WF (sg st').
Proof.
  induction done as [|j done IH]; intros st st' r W X Cs SF HD H.
  - simpl in H. unfold bind at 1 in H. unfold ret at 1 in H.
    apply bind_inv in H as [[s1 [[] [H1 H2]]]|[e' [H1 _]]].
    + apply raise_inv in H2 as [-> _]. eapply remove_fresh_service; eauto.
    + eapply remove_fresh_service; eauto.
  - simpl in H. rewrite <- bind_assoc in H.
    destruct (HD j (or_introl eq_refl)) as [Cj Tj].
    apply bind_inv in H as [[s1 [[] [H1 H2]]]|[e' [H1 _]]]; [|eapply api_disconnect; eauto].
    pose proof (api_disconnect j st s1 (Ok tt) W X Cj Tj H1) as W1.
    pose proof W as Wr. apply WF_WFr in Wr.
    destruct (disconnect_run j st s1 (Ok tt) (WFr_sane _ _ _ Wr) H1) as [[G _]|[p [Esp [G _]]]].
    + rewrite <- G in *. eapply IH; eauto. intros k Hk. apply HD. right. exact Hk.
    + (* the service port p, peer of j, and its link are gone *)
      assert (Hp : In p (sp_peers (sg st) j)) by (rewrite Esp; left; reflexivity).
      unfold sp_peers in Hp. apply filter_In in Hp as [Hraw Tp]. simpl in Tp. pose proof (raw_peers_cls _ _ _ Hraw) as Cp.
      set (d := fun y => mem_str y (D_cp (sg st) p true)) in *.
      assert (NC : first_nb (sg st) p Connects KCP = []) by (apply sp_no_children; assumption).
      assert (Dinv : forall y, d y = true -> y = p \/ cls_is (sg st) y KLink = true).
      { intros y Hy. destruct (rc_del_inv (sg st) no_exempt p true Cp (or_introl eq_refl) y Hy) as [[Hy' _]|[_ C]]; [|right; exact C].
        left. unfold cp_ifs, cp_extra in Hy'. rewrite NC in Hy'. simpl in Hy'. destruct Hy' as [Hy'|[]]. congruence. }
      assert (Keep : forall y k, cls_is (sg st) y k = true -> k <> KLink -> (k = KCP -> typ_is (sg st) y sServicePort = false) -> d y = false).
      { intros y k Cy N1 N2. destruct (d y) eqn:Dy; [|reflexivity]. exfalso. destruct (Dinv y Dy) as [->|C].
        - destruct (cls_eqb k KCP) eqn:Ek; [apply cls_eqb_eq in Ek; rewrite (N2 Ek) in Tp; discriminate|].
          rewrite (cls_is_unique _ _ _ k Cp) in Cy; [discriminate | intro Q; subst k; discriminate Ek].
        - rewrite (cls_is_unique _ _ _ KLink Cy) in C; [discriminate | exact N1]. }
      assert (Ds : d s0 = false) by (apply (Keep s0 KNS Cs); [discriminate | discriminate]).
      apply (IH s1 st' r W1); [rewrite G | rewrite G | rewrite G | rewrite G |].
      * apply x1_remove_set. exact X.
      * rewrite (rs_cls _ d _ _ Ds). exact Cs.
      * apply SPfree_remove; assumption.
      * intros k Hk. destruct (HD k (or_intror Hk)) as [Ck Tk].
        assert (Dk : d k = false) by (apply (Keep k KCP Ck); [discriminate | intros _; exact Tk]).
        rewrite (rs_cls _ d _ _ Dk), (rs_typ _ d _ _ Dk). auto.
      * exact H2.
Qed.

(* ---- NetworkService(NEW) at top level, normal return ----------------------------------------------------------------- *)
Lemma new_service_top_post name sid nstype s s' id :
  new_service name sid nstype None s = (s', Ok id) ->
  has_id (sg s) id = false /\ sg s' = g_add_node (sg s) (mk id KNS (Some nstype) name false).
Proof.
  intro H. unfold new_service in H.
  peelok H. peelok H.
  apply bind_reads in H; [| solve [auto 8 with reads]].
  destruct H as [[s1 [a1 [_ [Hg1 H]]]] | [e [Hr _]]]; [| discriminate Hr].
  apply bind_inv in H as [[s6 [[] [H1 H2]]]|[e [_ Hr]]]; [|discriminate Hr].
  apply add_node_inv in H1 as [[_ [Hf Hg']]|[e [He _]]]; [|discriminate].
  apply bind_inv in H2 as [[s7 [[] [H2 H3]]]|[e [_ Hr]]]; [|discriminate Hr].
  apply ret_inv in H2 as [-> _]. apply ret_inv in H3 as [-> H3]. inversion H3; subst id.
  rewrite Hg1 in Hf, Hg'. simpl in Hf. split; [exact Hf | exact Hg'].
Qed.

Section FreshService.
Variables (g : graph) (n : node).
Hypothesis W : WF g.
Hypothesis Hf : has_id g (nid n) = false.
Hypothesis Kn : ncls n = KNS.
Let g' := g_add_node g n.

Lemma fs_old_find y : has_id g y = true -> find_nodes g' y = find_nodes g y.
Proof. intro H. apply find_nodes_add_node_other. intro E. subst y. congruence. Qed.
Lemma fs_cls y k : has_id g y = true -> cls_is g' y k = cls_is g y k.
Proof. intro H. apply cls_is_ext. apply fs_old_find. exact H. Qed.
Lemma fs_typ y t : has_id g y = true -> typ_is g' y t = typ_is g y t.
Proof. intro H. apply typ_is_ext. apply fs_old_find. exact H. Qed.
Lemma fs_cls_new : cls_is g' (nid n) KNS = true.
Proof. unfold g', cls_is, cls_of. rewrite (find_nodes_add_node_same _ _ Hf), Kn. reflexivity. Qed.
Lemma fs_SPfree : SPfree g' (nid n).
Proof.
  intros x Hx. exfalso. apply In_first_nb in Hx as [Hx _]. unfold g' in Hx. rewrite nbrs_add_node in Hx.
  rewrite (nbrs_fresh_nil _ _ (wf_edge_ends _ W) Hf) in Hx. destruct Hx.
Qed.
Lemma fs_X1 : subs_under_dedicated g = true -> subs_under_dedicated g' = true.
Proof.
  intro X. unfold subs_under_dedicated in *. rewrite forallb_forall in *. intros e He. unfold g' in He. simpl in He.
  destruct (wf_edge_ends _ W e He) as [A B]. apply has_id_In in A. apply has_id_In in B.
  rewrite !(fs_cls _ _ A), !(fs_cls _ _ B), (fs_typ _ _ A), (fs_typ _ _ B). apply X. exact He.
Qed.
End FreshService.

(* ---- the loop over the interfaces -------------------------------------------------------------------------------------- *)
Lemma connect_all_preserves fl sub s0 nstype : forall todo done st st' r,
  fl_connect_names fl = true -> fl_connect_undo fl = true ->
  WF (sg st) -> subs_under_dedicated (sg st) = true -> cls_is (sg st) s0 KNS = true -> SPfree (sg st) s0 ->
  (forall j, In j (todo ++ done) -> cls_is (sg st) j KCP = true /\ typ_is (sg st) j sServicePort = false) ->
  connect_all fl sub s0 nstype todo done st = (st', r) -> WF (sg st').
Proof.
  induction todo as [|i todo IH]; intros done st st' r FN FU W X Cs SF HI H; simpl in H.
  - apply ret_inv in H as [-> _]. exact W.
  - destruct (HI i (or_introl eq_refl)) as [Ci Ti].
    apply bind_inv in H as [[s1 [[] [H1 H2]]]|[e [H1 _]]].
    + (* this interface was connected *)
      unfold try_any in H1.
      match type of H1 with (match ?m with _ => _ end) = _ => destruct m as [sX [v|e]] eqn:E1 end.
      2:{ exfalso. apply bind_inv in H1 as [[? [? [_ Q]]]|[? [_ Q]]]; [|discriminate Q].
          apply bind_inv in Q as [[? [? [_ Q]]]|[? [_ Q]]]; [|discriminate Q]. apply raise_inv in Q as [_ Q]. discriminate Q. }
      inversion H1; subst sX v. clear H1.
      apply bind_reads in E1; [| auto with reads]. destruct E1 as [[sa [sh [_ [Ga E1]]]]|[e [Q _]]]; [|discriminate Q].
      apply bind_reads in E1; [| auto with reads]. destruct E1 as [[sb [[] [_ [Gb E1]]]]|[e [Q _]]]; [|discriminate Q].
      assert (Gab : sg sb = sg st) by congruence. rewrite <- Gab in W, X, Cs, SF, HI, Ci, Ti.
      destruct (api_connect_shape fl sub s0 i sb s1 (Ok tt) W FN Cs Ci Ti E1) as [[_ [sp [l [OK G]]]]|[e [Q _]]]; [|discriminate Q].
      assert (Old : forall y, has_id (sg sb) y = true -> has_id (sg sb) y = true) by auto.
      apply (IH (done ++ [i]) s1 st' r FN FU); rewrite ?G.
      * apply WF_add_peering; assumption.
      * apply apf_X1; assumption.
      * rewrite (apf_cls _ s0 i sp l OK s0 KNS (cls_is_has_id _ _ _ Cs)). exact Cs.
      * apply apf_SPfree; assumption.
      * intros j Hj. assert (Hj' : In j ((i :: todo) ++ done)).
        { apply in_app_or in Hj as [Hj|Hj]; [apply in_or_app; left; right; exact Hj|].
          apply in_app_or in Hj as [Hj|[<-|[]]]; [apply in_or_app; right; exact Hj | left; reflexivity]. }
        destruct (HI j Hj') as [Cj Tj]. pose proof (cls_is_has_id _ _ _ Cj) as Hjh.
        rewrite (apf_cls _ s0 i sp l OK j KCP Hjh), (apf_typ _ s0 i sp l OK j _ Hjh). auto.
      * exact H2.
    + (* it was refused: roll back *)
      unfold try_any in H1.
      match type of H1 with (match ?m with _ => _ end) = _ => destruct m as [sX [v|e1]] eqn:E1 end; [discriminate H1|].
      assert (GX : sg sX = sg st).
      { apply bind_reads in E1; [| auto with reads]. destruct E1 as [[sa [sh [_ [Ga E1]]]]|[e2 [_ Q]]]; [|exact Q].
        apply bind_reads in E1; [| auto with reads]. destruct E1 as [[sb [[] [_ [Gb E1]]]]|[e2 [_ Q]]]; [|congruence].
        assert (Gab : sg sb = sg st) by congruence. rewrite <- Gab in W, Cs, Ci, Ti.
        destruct (api_connect_shape fl sub s0 i sb sX (Err e1) W FN Cs Ci Ti E1) as [[Q _]|[e2 [_ [Q|[Q _]]]]]; [discriminate Q | congruence | congruence]. }
      rewrite <- GX in W, X, Cs, SF, HI.
      eapply (rollback_ns s0 e1 done sX st' (Err e)); eauto.
      intros j Hj. apply HI. apply in_or_app. right. exact Hj.
Qed.

(* Topology.add_network_service with any list of interfaces *)
Theorem api_add_ns fl sub name sid nstype ifs s s' r :
  WF (sg s) -> subs_under_dedicated (sg s) = true -> type_allowed KNS nstype = true ->
  fl_connect_names fl = true -> fl_connect_undo fl = true ->
  (forall j, In j ifs -> cls_is (sg s) j KCP = true /\ typ_is (sg s) j sServicePort = false) ->
  t_add_ns fl sub name sid nstype ifs s = (s', r) -> WF (sg s').
Proof.
  intros W X T FN FU HI H. unfold t_add_ns in H.
  apply bind_inv in H as [[s1 [id [H1 H2]]]|[e [H1 _]]]; [|eapply api_new_service_top; eauto].
  pose proof (api_new_service_top _ _ _ _ _ _ W T H1) as W1.
  destruct (new_service_top_post _ _ _ _ _ _ H1) as [Hf G].
  set (n := mk id KNS (Some nstype) name false) in *.
  apply (connect_all_preserves fl sub id nstype ifs [] s1 s' r FN FU W1); rewrite ?G.
  - apply (fs_X1 (sg s) n W Hf X).
  - apply (fs_cls_new (sg s) n Hf eq_refl).
  - apply (fs_SPfree (sg s) n W Hf).
  - intros j Hj. rewrite app_nil_r in Hj. destruct (HI j Hj) as [Cj Tj]. pose proof (cls_is_has_id _ _ _ Cj) as Hj'.
    rewrite (fs_cls (sg s) n Hf j KCP Hj'), (fs_typ (sg s) n Hf j _ Hj'). auto.
  - exact H2.
Qed.

Lemma port_mirror_type_ok : type_allowed KNS sPortMirror = true.
Proof. reflexivity. Qed.

(* C06 proofs, part 4: every NodeID a query returns is the NodeID of a node OF THE QUERIED GRAPH - for ANY store
   (no well-formedness hypothesis), in particular for stores that hold edges crossing graph boundaries
   (the stitching window after merge_nodes).  The code achieves it by working on extract_graph's copy. *)
From Coq Require Import List NArith ZArith Bool Lia.
From FIM Require Import Model.Query6 Proofs.Query6Nbr Proofs.Query6Path Proofs.Query6Api.
Import ListNotations.
Open Scope N_scope.

Definition owned (s : store) (gid x : N) : Prop := exists m, in_graph s gid m /\ n_id m = x.

Lemma difference_incl l d n : In n (difference l d) -> In n l.
Proof. unfold difference. rewrite filter_In. tauto. Qed.

Lemma neighbors_incl G a n : In n (neighbors G a) -> In n (g_nodes G).
Proof. unfold neighbors. rewrite filter_In. tauto. Qed.

Lemma filter_by_label_incl l cls n : In n (filter_by_label l cls) -> In n l.
Proof. unfold filter_by_label. apply difference_incl. Qed.

Lemma first_neighbors_via_incl G a rel n : In n (first_neighbors_via G a rel) -> In n (g_nodes G).
Proof. unfold first_neighbors_via. intros H. apply difference_incl in H. eapply neighbors_incl; eauto. Qed.

Lemma extract_nodes s gid G n : extract s gid = Ok G -> In n (g_nodes G) -> in_graph s gid n.
Proof. intros E H. apply extract_Ok in E as [-> _]. apply graph_nodes_In. exact H. Qed.

Lemma first_neighbor_owned s gid id rel cls r x :
  first_neighbor s gid id rel cls = Ok r -> In x r -> owned s gid x.
Proof.
  unfold first_neighbor, bind. destruct (extract s gid) as [G|] eqn:E; try discriminate.
  destruct (find_node s gid id); try discriminate. intros H Hx. inversion H; subst.
  apply in_map_iff in Hx as (m & Hid & Hm). exists m. split; auto.
  apply (extract_nodes _ _ _ _ E). apply filter_by_label_incl in Hm. eapply first_neighbors_via_incl; eauto.
Qed.

Lemma second_of_incl G a n rel2 c2 k : In k (second_of G a n rel2 c2) -> In k (g_nodes G).
Proof.
  unfold second_of. intros H.
  destruct (filter_by_label _ c2) as [|q l] eqn:E; [destruct H|].
  apply filter_In in H as [H _]. rewrite <- E in H.
  apply filter_by_label_incl, difference_incl in H. eapply neighbors_incl; eauto.
Qed.

Lemma fsn_nodes_incl G a rel1 c1 rel2 c2 m k :
  In (m, k) (fsn_nodes G a rel1 c1 rel2 c2) -> In m (g_nodes G) /\ In k (g_nodes G).
Proof.
  unfold fsn_nodes. intros H.
  destruct (difference (neighbors G a) _) as [|q l] eqn:E; [destruct H|].
  rewrite <- E in H. apply in_flat_map in H as (n & Hn & H).
  apply in_map_iff in H as (k0 & Ep & Hk). inversion Ep; subst. split.
  - apply filter_by_label_incl, difference_incl in Hn. eapply neighbors_incl; eauto.
  - eapply second_of_incl; eauto.
Qed.

Lemma second_neighbor_owned s gid id rel1 c1 rel2 c2 r b c :
  first_and_second_neighbor s gid id rel1 c1 rel2 c2 = Ok r -> In (b, c) r -> owned s gid b /\ owned s gid c.
Proof.
  unfold first_and_second_neighbor, bind. destruct (extract s gid) as [G|] eqn:E; try discriminate.
  destruct (find_node s gid id); try discriminate. intros H Hx. inversion H; subst.
  apply in_map_iff in Hx as ([m k] & Ep & Hin). simpl in Ep. inversion Ep; subst.
  apply fsn_nodes_incl in Hin as [Hm Hk]. split; [exists m|exists k]; split; auto; eapply extract_nodes; eauto.
Qed.

(* paths *)
Lemma id_of_owned s gid rel G x :
  graph_for s gid rel = Ok G -> In x (ints G) -> owned s gid (id_of G x).
Proof.
  intros HG Hx. apply graph_for_Ok in HG as [E _]. unfold id_of, ints in *. rewrite E in *.
  apply in_map_iff in Hx as (m0 & Hi & Hm0).
  destruct (find (fun n => n_int n =? x) (graph_nodes s gid)) as [m|] eqn:F.
  - apply find_some in F as [Hm _]. exists m. split; auto. apply graph_nodes_In; auto.
  - exfalso. apply (find_none _ _ F) in Hm0. rewrite Hi, N.eqb_refl in Hm0. discriminate.
Qed.

Lemma is_path_nodes G p a z x : is_path G p a z = true -> In x p -> In x (ints G).
Proof.
  intros H Hx. apply is_path_iff in H as (r & -> & _ & Ha & A). destruct Hx as [<-|Hx]; auto.
  apply (proj1 (all_in_In G r) A); auto.
Qed.

Lemma shortest_path_owned s gid a z rel ids x :
  shortest_path s gid a z rel = Ok ids -> In x ids -> owned s gid x.
Proof.
  intros H Hx. assert (Hne : ids <> []) by (intro E; subst; destruct Hx).
  destruct (shortest_path_sound_min _ _ _ _ _ _ H Hne) as (G & na & nz & p & HG & _ & _ & -> & IP & _).
  unfold ids_of in Hx. apply in_map_iff in Hx as (y & <- & Hy).
  eapply id_of_owned; eauto. eapply is_path_nodes; eauto.
Qed.

Lemma path_with_hops_owned s gid a z hops cutoff ids x :
  path_with_hops s gid a z hops cutoff = Ok ids -> In x ids -> owned s gid x.
Proof.
  intros H Hx. assert (Hne : ids <> []) by (intro E; subst; destruct Hx).
  destruct (path_with_hops_spec _ _ _ _ _ _ _ H) as (G & na & nz & p & HG & _ & _ & -> & _ & S2).
  destruct (S2 Hne) as [(IP & _) _].
  unfold ids_of in Hx. apply in_map_iff in Hx as (y & <- & Hy).
  eapply id_of_owned; eauto. eapply is_path_nodes; eauto.
Qed.

Lemma get_parent_owned s gid id rel parent p :
  get_parent s gid id rel parent = Ok (Some p) -> owned s gid p.
Proof.
  unfold get_parent, bind. destruct (first_neighbor s gid id rel parent) as [l|] eqn:E; try discriminate.
  destruct l as [|q [|q' l]]; intros H; inversion H; subst.
  eapply first_neighbor_owned; eauto. left; auto.
Qed.

Lemma peers_owned V s gid id l c :
  find_peer_connection_points V s gid id = Ok (Some l) -> In c l -> owned s gid c.
Proof.
  unfold find_peer_connection_points, bind.
  destruct (first_and_second_neighbor s gid id _ _ _ _) as [r|] eqn:E; try discriminate.
  destruct r as [|q r']; intros H; inversion H; subst. intros Hc.
  change (In c (map snd (q :: r'))) in Hc. apply in_map_iff in Hc as ([b c'] & <- & Hin).
  eapply second_neighbor_owned in Hin; eauto. tauto.
Qed.

Lemma node_cps_owned V s gid id l c :
  get_all_node_or_component_connection_points V s gid id = Ok l -> In c l -> owned s gid c.
Proof.
  unfold get_all_node_or_component_connection_points, bind.
  destruct (find_node s gid id) as [n|]; try discriminate.
  destruct (_ || _ || _); try discriminate.
  destruct (first_and_second_neighbor s gid id _ _ _ _) as [r|] eqn:E; try discriminate.
  intros H Hc. inversion H; subst. apply in_map_iff in Hc as ([b c'] & <- & Hin).
  eapply second_neighbor_owned in Hin; eauto. tauto.
Qed.

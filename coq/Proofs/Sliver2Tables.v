(* C02: the finite obligations on the regenerated tables (by computation over the tables - the domain
   is the table), the generic theorems instantiated with them, and the refutation witnesses. *)
From Coq Require Import List String NArith Bool.
From FIM Require Import Base.Str Model.Sliver2Kinds Gen.PropMap Model.Sliver2Map Model.Sliver2WF
  Model.Sliver2Deep Model.Sliver2DeepWF Model.Sliver2Graph
  Model.Sliver2GraphWF Proofs.Sliver2Assoc Proofs.Sliver2MapRT Proofs.Sliver2Elem Proofs.Sliver2DeepRT
  Proofs.Sliver2GraphW Proofs.Sliver2GraphR Proofs.Sliver2GraphRT.
Import ListNotations.

Lemma gen_ok_true : gen_ok = true.
Proof. reflexivity. Qed.

(* names the offending attribute / keyword when a mapping line is deleted, misspelled or made asymmetric *)
Lemma no_bad_entries : map bad_entries all_kinds = [[]; []; []; []; []].
Proof. vm_compute. reflexivity. Qed.

(* no from_json wraps an absent property into an empty object (Gateway did before fix 450b7bb) *)
Lemma no_wrapping_decoders : map wrapping_decoders all_kinds = [[]; []; []; []; []].
Proof. vm_compute. reflexivity. Qed.

(* add_interface_sliver writes the child interfaces too (fix 1e6f502) *)
Lemma add_interface_descends_true : add_interface_descends = true.
Proof. reflexivity. Qed.

(* every attribute of every sliver class is written and read back by mutually inverse table entries;
   no graph property collides with a child key or the node id; absent properties read as documented *)
Lemma all_tables_ok_true : all_tables_ok = true.
Proof. vm_compute. reflexivity. Qed.

Definition setter_keywords (k : kind) : list string := map (fun se => fst (fst se)) (setters k).

(* SLIVER_PROPERTY_TO_GRAPH sends each property name to the graph property its attribute is stored in *)
Lemma unset_map_all_true : forallb (fun k => forallb (unset_map_ok k) (setter_keywords k)) all_kinds = true.
Proof. vm_compute. reflexivity. Qed.

(* the settable properties that cannot be unset through the API *)
Lemma unmapped_exact :
  map unmapped_setters all_kinds =
  [["image_type"; "stitch_node"]; ["stitch_node"]; ["stitch_node"]; ["stitch_node"]; ["stitch_node"]]%string.
Proof. vm_compute. reflexivity. Qed.

(* unsetting reads None for every mapped settable property *)
Definition unset_none_entry (k : kind) (kw : string) : bool :=
  match settable k kw, alookup kw sliver_property_to_graph with
  | Some x, Some _ => match unset_reads k x with None => true | Some _ => false end
  | _, _ => true
  end.
Lemma unset_none_all_true : forallb (fun k => forallb (unset_none_entry k) (setter_keywords k)) all_kinds = true.
Proof. vm_compute. reflexivity. Qed.

Lemma sym k : tables_symmetric k = true.
Proof. apply (tables_ok_parts k all_tables_ok_true). Qed.
Lemma absent k : absent_ok k = true.
Proof. apply (tables_ok_parts k all_tables_ok_true). Qed.

Lemma settable_is_setter k p x : settable k p = Some x -> In p (setter_keywords k).
Proof.
  unfold settable, find_setter, setter_keywords.
  destruct (find (fun e => String.eqb (fst (fst e)) p) (setters k)) as [[[kw a] s]|] eqn:E; [|discriminate].
  intros _. apply find_some in E as [Hin He]. simpl in He. apply String.eqb_eq in He. subst.
  apply in_map_iff. exists (p, a, s). split; [reflexivity | exact Hin].
Qed.

Lemma unset_map_ok_all k p : unset_map_ok k p = true.
Proof.
  destruct (settable k p) as [x|] eqn:E.
  - assert (H := unset_map_all_true). rewrite forallb_forall in H. specialize (H k (in_all_kinds k)).
    rewrite forallb_forall in H. apply H. eapply settable_is_setter. exact E.
  - unfold unset_map_ok. rewrite E. reflexivity.
Qed.

(* ---------- instantiated theorems ---------- *)
Lemma absent_none_k k : absent_none k = true.
Proof. apply (tables_ok_parts k all_tables_ok_true). Qed.

Theorem props_roundtrip k a :
  attrs_wf k a = true -> bind (to_props k a) (from_props k) = Ok a.
Proof. apply props_roundtrip_exact_generic; [apply sym | apply absent_none_k]. Qed.

Theorem dict_roundtrip t :
  tree_wf t = true -> bind (to_dict t) (from_dict (t_kind t)) = Ok (forget_ids t).
Proof. apply dict_roundtrip_bind. exact all_tables_ok_true. Qed.

Theorem json_roundtrip t :
  tree_wf t = true -> bind (sliver_to_json t) (sliver_from_json (t_kind t)) = Ok (forget_ids t).
Proof. apply json_roundtrip_generic. exact all_tables_ok_true. Qed.

Theorem graph_roundtrip_thm t : graph_wf t = true -> graph_roundtrip t = Ok t.
Proof. apply graph_roundtrip_generic; [exact all_tables_ok_true | exact add_interface_descends_true]. Qed.

Theorem set_get k p v d x :
  settable k p = Some x -> single_written k x = true -> value_ok k p v = true -> readable k d = true ->
  exists d', set_property k p (Some v) d = Ok d' /\ get_property k p d' = Ok (stored k p v).
Proof.
  intros Hset Hsw Hv Hr. unfold single_written in Hsw.
  destruct (to_for k x) as [[g [e|x0]]|] eqn:E; try discriminate.
  eapply (set_get_generic k p v d x g e (sym k) Hset E); try assumption.
  intros y Hy. subst e. discriminate.
Qed.

Lemma stored_argument k p v : stores_argument k p = true -> value_ok k p v = true -> stored k p v = Some v.
Proof.
  unfold stores_argument, value_ok, stored. cbn [blank_with].
  destruct (find_setter k p) as [[x st]|]; [|discriminate].
  intros Hst Hv. destruct (apply_setter st (Some v)) as [o|] eqn:E; [|discriminate].
  destruct st as [[c|]| | | |[c|]]; simpl in E; try discriminate.
  - destruct (val_class v) as [c'|]; [destruct (String.eqb c c')|]; inversion E; reflexivity.
  - inversion E; reflexivity.
  - destruct v; inversion E; reflexivity.
  - destruct v; inversion E; reflexivity.
  - destruct (val_class v) as [c'|]; [destruct (String.eqb c c')|]; inversion E; reflexivity.
  - inversion E; reflexivity.
Qed.

Theorem set_get_same k p v d x :
  settable k p = Some x -> single_written k x = true -> stores_argument k p = true ->
  value_ok k p v = true -> readable k d = true ->
  exists d', set_property k p (Some v) d = Ok d' /\ get_property k p d' = Ok (Some v).
Proof.
  intros Hset Hsw Hsa Hv Hr. destruct (set_get k p v d x Hset Hsw Hv Hr) as [d' [H1 H2]].
  exists d'. split; [exact H1|]. rewrite H2. rewrite (stored_argument k p v Hsa Hv). reflexivity.
Qed.

Theorem unset_get k p d x g :
  settable k p = Some x -> alookup p sliver_property_to_graph = Some g ->
  mem g no_unset_properties = false -> readable k d = true ->
  exists d', set_property k p None d = Ok d' /\ get_property k p d' = Ok (unset_reads k x).
Proof.
  intros Hset Hmap Hnu Hr.
  exact (unset_get_generic k p d x g (sym k) (absent k) Hset Hmap Hnu (unset_map_ok_all k p) Hr).
Qed.

Lemma unset_reads_none k p x g :
  settable k p = Some x -> alookup p sliver_property_to_graph = Some g -> unset_reads k x = None.
Proof.
  intros Hset Hmap.
  assert (H := unset_none_all_true). rewrite forallb_forall in H. specialize (H k (in_all_kinds k)).
  rewrite forallb_forall in H. specialize (H p (settable_is_setter k p x Hset)).
  unfold unset_none_entry in H. rewrite Hset, Hmap in H.
  destruct (unset_reads k x); [discriminate | reflexivity].
Qed.

(* unset makes the property read as absent *)
Theorem unset_get_absent k p d x g :
  settable k p = Some x -> alookup p sliver_property_to_graph = Some g ->
  mem g no_unset_properties = false -> readable k d = true ->
  exists d', set_property k p None d = Ok d' /\ get_property k p d' = Ok None.
Proof.
  intros Hset Hmap Hnu Hr. destruct (unset_get k p d x g Hset Hmap Hnu Hr) as [d' [H1 H2]].
  exists d'. split; [exact H1|]. rewrite H2. rewrite (unset_reads_none k p x g Hset Hmap). reflexivity.
Qed.

(* documented: name and type (NO_UNSET_PROPERTIES) are refused loudly *)
Theorem unset_refused k p d g :
  alookup p sliver_property_to_graph = Some g -> mem g no_unset_properties = true ->
  set_property k p None d = Err ExQuery.
Proof. intros H1 H2. unfold set_property, unset_property. rewrite H1, H2. reflexivity. Qed.

(* a property without an unset mapping: unset is a silent no-op *)
Theorem unset_unmapped_noop k p d :
  alookup p sliver_property_to_graph = None -> set_property k p None d = Ok d.
Proof. intro H. unfold set_property, unset_property. rewrite H. reflexivity. Qed.

(* ---------- witnesses ---------- *)
Definition w_name (s : string) : option fval := Some (FStr (of_string s)).

(* a freshly built, named network service: gateway is None *)
Definition w_service : attrs := aset "resource_name" (w_name "s1") (blank KService).

Lemma fresh_service_roundtrip :
  attrs_wf KService w_service = true /\ bind (to_props KService w_service) (from_props KService) = Ok w_service.
Proof. split; vm_compute; reflexivity. Qed.

(* an empty Capacities object: encoded as '' *)
Definition w_empty_caps : attrs :=
  aset "capacities" (Some (FObj "Capacities" (Some []))) (aset "resource_name" (w_name "n1") (blank KNode)).

Lemma empty_value_reads_absent :
  bind (to_props KNode w_empty_caps) (from_props KNode)
  = Ok (aset "capacities" None w_empty_caps).
Proof. vm_compute. reflexivity. Qed.

(* the node properties of a named VM *)
Definition w_node_props : props :=
  [("GraphID", Some (S"g")); ("NodeID", Some (S"n1")); ("Name", Some (S"n1")); ("Type", Some (S"VM"));
   ("StitchNode", Some (S"false")); ("Site", Some (S"RENC"))]%string.
Definition w_service_props : props :=
  [("GraphID", Some (S"g")); ("NodeID", Some (S"s1")); ("Name", Some (S"s1")); ("Type", Some (S"L2Bridge"));
   ("StitchNode", Some (S"false")); ("Gateway", Some (S"{""ipv4"": ""10.0.0.1"", ""ipv4_subnet"": ""10.0.0.0/24""}"))]%string.

Lemma image_ref_alone_refuted :
  readable KNode w_node_props = true /\
  exists d', set_property KNode "image_ref" (Some (FStr (S"img"))) w_node_props = Ok d' /\
             get_property KNode "image_ref" d' = Ok None.
Proof. split; [vm_compute; reflexivity|]. eexists. split; vm_compute; reflexivity. Qed.

Lemma image_pair_example :
  exists d', set_properties KNode [("image_ref", Some (FStr (S"img"))); ("image_type", Some (FStr (S"qcow2")))]%string
                            w_node_props = Ok d' /\
             get_property KNode "image_ref" d' = Ok (Some (FStr (S"img"))) /\
             get_property KNode "image_type" d' = Ok (Some (FStr (S"qcow2"))).
Proof. eexists. split; [|split]; vm_compute; reflexivity. Qed.

Lemma image_comma_example :
  exists d', set_properties KNode [("image_ref", Some (FStr (S"a,b"))); ("image_type", Some (FStr (S"qcow2")))]%string
                            w_node_props = Ok d' /\
             get_property KNode "image_ref" d' = Ok (Some (FStr (S"a,b"))) /\
             get_property KNode "image_type" d' = Ok (Some (FStr (S"qcow2"))).
Proof. eexists. split; [|split]; vm_compute; reflexivity. Qed.

Lemma unset_gateway_example :
  readable KService w_service_props = true /\
  exists d', set_property KService "gateway" None w_service_props = Ok d' /\
             get_property KService "gateway" d' = Ok None.
Proof. split; [vm_compute; reflexivity|]. eexists. split; vm_compute; reflexivity. Qed.

(* graph route: node > component > service > DedicatedPort > sub-interface *)
Definition w_sl (k : kind) (id name ty : string) (en : string) (c n i : option (list tree)) : tree :=
  T k (Some (of_string id))
    (aset "resource_type" (Some (FEnum en (of_string ty))) (aset "resource_name" (w_name name) (blank k))) c n i.

Definition w_sub := w_sl KInterface "i2" "sub1" "SubInterface" "InterfaceType" None None None.
Definition w_port := w_sl KInterface "i1" "p1" "DedicatedPort" "InterfaceType" None None (Some [w_sub]).
Definition w_ns := w_sl KService "s1" "ns1" "OVS" "ServiceType" None None (Some [w_port]).
Definition w_comp := w_sl KComponent "c1" "nic1" "SmartNIC" "ComponentType" None (Some [w_ns]) None.
Definition w_tree := w_sl KNode "n1" "node1" "Server" "NodeType" (Some [w_comp]) None None.

Lemma graph_example :
  graph_wf w_tree = true /\ graph_roundtrip w_tree = Ok w_tree /\ List.length (subtrees w_tree) = 5%nat.
Proof. split; [vm_compute; reflexivity|]. split; vm_compute; reflexivity. Qed.

(* non-vacuity of the round-trip hypotheses: the same deep tree through dictionary and JSON *)
Lemma deep_example :
  tree_wf w_tree = true /\ bind (to_dict w_tree) (from_dict KNode) = Ok (forget_ids w_tree)
  /\ forget_ids w_tree <> T KNode None [] None None None.
Proof. split; [vm_compute; reflexivity|]. split; [vm_compute; reflexivity|]. vm_compute. intro H. inversion H. Qed.

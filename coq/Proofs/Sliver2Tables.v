(* C02: obligations on the regenerated tables (finite, by computation) *)
From Coq Require Import List String NArith Bool.
From FIM Require Import Base.Str Model.Sliver2Kinds Gen.PropMap Model.Sliver2Map.
Import ListNotations.

Lemma gen_ok_true : gen_ok = true.
Proof. reflexivity. Qed.

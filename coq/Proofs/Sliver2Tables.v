(* C02: the finite obligations on the regenerated tables (by computation over the tables - the domain
   is the table), the generic theorems instantiated with them, and the refutation witnesses. *)
From Coq Require Import List String NArith Bool.
From FIM Require Import Base.Str Model.Sliver2Kinds Gen.PropMap Model.Sliver2Map Model.Sliver2WF
  Model.Sliver2Deep Model.Sliver2DeepWF Model.Sliver2Graph
  Model.Sliver2GraphWF Proofs.Sliver2Assoc Proofs.Sliver2MapRT Proofs.Sliver2Elem Proofs.Sliver2Multi Proofs.Sliver2DeepRT
  Proofs.Sliver2GraphW Proofs.Sliver2GraphR Proofs.Sliver2GraphRT.
Import ListNotations.

Lemma gen_ok_true : gen_ok = true.
Proof. reflexivity. Qed.

(* names the offending attribute / keyword when a mapping line is deleted, misspelled or made asymmetric *)
Lemma no_bad_entries : map bad_entries all_kinds = [[]; []; []; []; []].
Proof. vm_compute. reflexivity. Qed.

(* no from_json wraps an absent property into an empty object (Gateway did before fix 450b7bb) *)
Lemma no_wrapping_decoders : map wrapping_decoders all_kinds = [[]; []; []; []; []].
Proof. vm_compute. reflexivity. Qed.

(* add_interface_sliver writes the child interfaces too (fix 1e6f502) *)
Lemma add_interface_descends_true : add_interface_descends = true.
Proof. reflexivity. Qed.

(* every attribute of every sliver class is written and read back by mutually inverse table entries;
   no graph property collides with a child key or the node id; absent properties read as documented *)
Lemma all_tables_ok_true : all_tables_ok = true.
Proof. vm_compute. reflexivity. Qed.

Definition setter_keywords (k : kind) : list string := map (fun se => fst (fst se)) (setters k).

(* SLIVER_PROPERTY_TO_GRAPH sends each property name to the graph property its attribute is stored in *)
Lemma unset_map_all_true : forallb (fun k => forallb (unset_map_ok k) (setter_keywords k)) all_kinds = true.
Proof. vm_compute. reflexivity. Qed.

(* the settable properties that cannot be unset through the API *)
Lemma unmapped_exact :
  map unmapped_setters all_kinds =
  [[]; []; []; []; []].
Proof. vm_compute. reflexivity. Qed.

(* unsetting reads None for every mapped settable property *)
Definition unset_none_entry (k : kind) (kw : string) : bool :=
  match settable k kw, alookup kw sliver_property_to_graph with
  | Some x, Some _ => match unset_reads k x with
                      | None => true
                      | Some (FBool false) => String.eqb kw "stitch_node"   (* a flag reads its default *)
                      | Some _ => false
                      end
  | _, _ => true
  end.
Lemma unset_none_all_true : forallb (fun k => forallb (unset_none_entry k) (setter_keywords k)) all_kinds = true.
Proof. vm_compute. reflexivity. Qed.

Lemma sym k : tables_symmetric k = true.
Proof. apply (tables_ok_parts k all_tables_ok_true). Qed.
Lemma absent k : absent_ok k = true.
Proof. apply (tables_ok_parts k all_tables_ok_true). Qed.

Lemma settable_is_setter k p x : settable k p = Some x -> In p (setter_keywords k).
Proof.
  unfold settable, find_setter, setter_keywords.
  destruct (find (fun e => String.eqb (fst (fst e)) p) (setters k)) as [[[kw a] s]|] eqn:E; [|discriminate].
  intros _. apply find_some in E as [Hin He]. simpl in He. apply String.eqb_eq in He. subst.
  apply in_map_iff. exists (p, a, s). split; [reflexivity | exact Hin].
Qed.

Lemma unset_map_ok_all k p : unset_map_ok k p = true.
Proof.
  destruct (settable k p) as [x|] eqn:E.
  - assert (H := unset_map_all_true). rewrite forallb_forall in H. specialize (H k (in_all_kinds k)).
    rewrite forallb_forall in H. apply H. eapply settable_is_setter. exact E.
  - unfold unset_map_ok. rewrite E. reflexivity.
Qed.

(* ---------- instantiated theorems ---------- *)
Lemma absent_none_k k : absent_none k = true.
Proof. apply (tables_ok_parts k all_tables_ok_true). Qed.

Theorem props_roundtrip k a :
  attrs_wf k a = true -> bind (to_props k a) (from_props k) = Ok a.
Proof. apply props_roundtrip_exact_generic; [apply sym | apply absent_none_k]. Qed.

Theorem dict_roundtrip t :
  tree_wf t = true -> bind (to_dict t) (from_dict (t_kind t)) = Ok (forget_ids t).
Proof. apply dict_roundtrip_bind. exact all_tables_ok_true. Qed.

Theorem json_roundtrip t :
  tree_wf t = true -> bind (sliver_to_json t) (sliver_from_json (t_kind t)) = Ok (forget_ids t).
Proof. apply json_roundtrip_generic. exact all_tables_ok_true. Qed.

Theorem graph_under g parent t :
  good_graph g = true -> graph_wf_sub t = true -> fresh_in g t = true -> parent_ok g parent t = true ->
  exists g', add_under g parent t = Ok g' /\
    build_deep g' (t_kind t) (id_of t) = Ok t /\
    good_graph g' = true /\
    gids g' = gids g ++ map id_of (subtrees t) /\
    (forall x, In x (gids g) -> find_node g' x = find_node g x) /\
    (forall x rel L, In x (gids g) -> parent <> Some x ->
                     get_first_neighbor g' x rel L = get_first_neighbor g x rel L).
Proof. apply graph_under_generic; [exact all_tables_ok_true | exact add_interface_descends_true]. Qed.

Theorem graph_roundtrip_thm t : graph_wf t = true -> graph_roundtrip t = Ok t.
Proof. apply graph_roundtrip_generic; [exact all_tables_ok_true | exact add_interface_descends_true]. Qed.

(* Node.set_property / set_properties complete a lone image_ref / image_type from the graph (fix C02-4) *)
Lemma node_completes_true : node_completes_image_pair = true.
Proof. reflexivity. Qed.

Theorem set_properties_get k l l' d :
  completed_kvs node_completes_image_pair k l d = Ok l' ->
  kws_ok k l' = true -> values_ok k l' = true -> readable k d = true ->
  exists d', set_properties k l d = Ok d' /\ readable k d' = true /\
    (forall p v x, In (p, Some v) l' -> settable k p = Some x -> get_property k p d' = Ok (stored k p v)) /\
    (forall q y, settable k q = Some y -> ~ In y (kw_targets k l') -> aget y (blank k) = None ->
                 always_written k y = false -> get_property k q d' = get_property k q d).
Proof. intros Hc Hkw Hv Hr. exact (multi_get _ k l l' d (sym k) Hc Hkw Hv Hr). Qed.

Theorem set_properties_order k l l2 d d1 :
  completed_kvs node_completes_image_pair k l d = Ok l ->
  completed_kvs node_completes_image_pair k l2 d = Ok l2 ->
  kws_ok k l = true -> Permutation.Permutation l l2 ->
  set_properties k l d = Ok d1 -> set_properties k l2 d = Ok d1.
Proof. unfold set_properties. apply multi_perm. Qed.

(* the keywords set one after the other with set_property *)
Definition set_each_actual := set_each node_completes_image_pair.

Theorem set_properties_is_fold k (l : list (string * fval)) d :
  forallb (kw_plain k) l = true -> kws_ok k (opt_kvs l) = true -> values_ok k (opt_kvs l) = true ->
  readable k d = true ->
  exists df dm, set_each_actual k l d = Ok df /\ set_properties k (opt_kvs l) d = Ok dm /\
    forall q y, settable k q = Some y -> aget y (blank k) = None -> always_written k y = false ->
                get_property k q df = get_property k q dm.
Proof. unfold set_each_actual, set_properties. apply multi_is_fold. apply sym. Qed.

Theorem set_get k p v d x l' :
  settable k p = Some x ->
  completed_kvs node_completes_image_pair k [(p, Some v)] d = Ok l' ->
  kws_ok k l' = true -> values_ok k l' = true -> readable k d = true ->
  exists d', set_property k p (Some v) d = Ok d' /\ get_property k p d' = Ok (stored k p v).
Proof.
  intros Hset Hc Hkw Hv Hr.
  destruct (set_properties_get k _ _ d Hc Hkw Hv Hr) as [d' [H1 [_ [H2 _]]]].
  exists d'. split; [exact H1|]. apply (H2 p v x); [|exact Hset].
  (* the keyword itself survives the completion *)
  unfold completed_kvs in Hc. destruct (node_completes_image_pair && kind_eqb k KNode).
  - apply (complete_keeps k d image_pairs _ _ p v Hc). left. reflexivity.
  - inversion Hc; subst. left. reflexivity.
Qed.

(* every keyword but the two halves of the image pair: no completion, the simple form *)
Theorem set_get_plain k p v d x :
  settable k p = Some x -> mem p ["image_ref"; "image_type"]%string = false ->
  value_ok k p v = true -> readable k d = true ->
  exists d', set_property k p (Some v) d = Ok d' /\ get_property k p d' = Ok (stored k p v).
Proof.
  intros Hset Hnp Hv Hr.
  assert (Hc : completed_kvs node_completes_image_pair k [(p, Some v)] d = Ok [(p, Some v)]).
  { apply completed_nopair. unfold no_pair_kw. cbn [forallb fst]. rewrite Hnp. reflexivity. }
  exact (set_get k p v d x _ Hset Hc (kws_ok_single k p v x Hset) Hv Hr).
Qed.

Theorem set_frame k p v d x q y :
  settable k p = Some x -> mem p ["image_ref"; "image_type"]%string = false ->
  value_ok k p v = true -> readable k d = true ->
  settable k q = Some y -> y <> x -> aget y (blank k) = None -> always_written k y = false ->
  exists d', set_property k p (Some v) d = Ok d' /\ get_property k q d' = get_property k q d.
Proof.
  intros Hset Hnp Hv Hr Hq Hne Hb Ha.
  assert (Hc : completed_kvs node_completes_image_pair k [(p, Some v)] d = Ok [(p, Some v)]).
  { apply completed_nopair. unfold no_pair_kw. cbn [forallb fst]. rewrite Hnp. reflexivity. }
  destruct (set_properties_get k _ _ d Hc (kws_ok_single k p v x Hset) Hv Hr) as [d' [H1 [_ [_ H3]]]].
  exists d'. split; [exact H1|]. apply (H3 q y Hq); try assumption.
  rewrite (kw_targets_cons k p (Some v) [] x Hset). intros [E|[]]. apply Hne. symmetry. exact E.
Qed.

Lemma stored_argument k p v : stores_argument k p = true -> value_ok k p v = true -> stored k p v = Some v.
Proof.
  unfold stores_argument, value_ok, stored. cbn [blank_with].
  destruct (find_setter k p) as [[x st]|]; [|discriminate].
  intros Hst Hv. destruct (apply_setter st (Some v)) as [o|] eqn:E; [|discriminate].
  destruct st as [[c|]| | | |[c|]]; simpl in E; try discriminate.
  - destruct (val_class v) as [c'|]; [destruct (String.eqb c c')|]; inversion E; reflexivity.
  - inversion E; reflexivity.
  - destruct v; inversion E; reflexivity.
  - destruct v; inversion E; reflexivity.
  - destruct (val_class v) as [c'|]; [destruct (String.eqb c c')|]; inversion E; reflexivity.
  - inversion E; reflexivity.
Qed.

Theorem set_get_same k p v d x :
  settable k p = Some x -> mem p ["image_ref"; "image_type"]%string = false -> stores_argument k p = true ->
  value_ok k p v = true -> readable k d = true ->
  exists d', set_property k p (Some v) d = Ok d' /\ get_property k p d' = Ok (Some v).
Proof.
  intros Hset Hnp Hsa Hv Hr. destruct (set_get_plain k p v d x Hset Hnp Hv Hr) as [d' [H1 H2]].
  exists d'. split; [exact H1|]. rewrite H2. rewrite (stored_argument k p v Hsa Hv). reflexivity.
Qed.

Theorem unset_get k p d x g :
  settable k p = Some x -> alookup p sliver_property_to_graph = Some g ->
  mem g no_unset_properties = false -> readable k d = true ->
  exists d', set_property k p None d = Ok d' /\ get_property k p d' = Ok (unset_reads k x).
Proof.
  intros Hset Hmap Hnu Hr.
  exact (unset_get_generic k p d x g (sym k) (absent k) Hset Hmap Hnu (unset_map_ok_all k p) Hr).
Qed.

Lemma unset_reads_none k p x g :
  settable k p = Some x -> alookup p sliver_property_to_graph = Some g ->
  String.eqb p "stitch_node" = false -> unset_reads k x = None.
Proof.
  intros Hset Hmap Hns.
  assert (H := unset_none_all_true). rewrite forallb_forall in H. specialize (H k (in_all_kinds k)).
  rewrite forallb_forall in H. specialize (H p (settable_is_setter k p x Hset)).
  unfold unset_none_entry in H. rewrite Hset, Hmap in H.
  destruct (unset_reads k x) as [[ | | | | |[|]| ]|]; try discriminate H; try reflexivity.
  rewrite Hns in H. discriminate H.
Qed.

(* unset makes the property read as absent (a boolean flag, once it has an unset mapping, reads its
   default False: C02_unset_get gives the exact value) *)
Theorem unset_get_absent k p d x g :
  settable k p = Some x -> alookup p sliver_property_to_graph = Some g ->
  mem g no_unset_properties = false -> readable k d = true -> String.eqb p "stitch_node" = false ->
  exists d', set_property k p None d = Ok d' /\ get_property k p d' = Ok None.
Proof.
  intros Hset Hmap Hnu Hr Hns. destruct (unset_get k p d x g Hset Hmap Hnu Hr) as [d' [H1 H2]].
  exists d'. split; [exact H1|]. rewrite H2. rewrite (unset_reads_none k p x g Hset Hmap Hns). reflexivity.
Qed.

(* documented: name and type (NO_UNSET_PROPERTIES) are refused loudly *)
Theorem unset_refused k p d g :
  alookup p sliver_property_to_graph = Some g -> mem g no_unset_properties = true ->
  set_property k p None d = Err ExQuery.
Proof. intros H1 H2. unfold set_property, set_property_with, unset_property. rewrite H1, H2. reflexivity. Qed.

(* a property without an unset mapping: unset is a silent no-op *)
Theorem unset_unmapped_noop k p d :
  alookup p sliver_property_to_graph = None -> set_property k p None d = Ok d.
Proof. intro H. unfold set_property, set_property_with, unset_property. rewrite H. reflexivity. Qed.

(* ---------- witnesses ---------- *)
Definition w_name (s : string) : option fval := Some (FStr (of_string s)).

(* a freshly built, named network service: gateway is None *)
Definition w_service : attrs := aset "resource_name" (w_name "s1") (blank KService).

Lemma fresh_service_roundtrip :
  attrs_wf KService w_service = true /\ bind (to_props KService w_service) (from_props KService) = Ok w_service.
Proof. split; vm_compute; reflexivity. Qed.

(* an empty Capacities object: encoded as '' *)
Definition w_empty_caps : attrs :=
  aset "capacities" (Some (FObj "Capacities" (Some []))) (aset "resource_name" (w_name "n1") (blank KNode)).

Lemma empty_value_reads_absent :
  bind (to_props KNode w_empty_caps) (from_props KNode)
  = Ok (aset "capacities" None w_empty_caps).
Proof. vm_compute. reflexivity. Qed.

(* the node properties of a named VM *)
Definition w_node_props : props :=
  [("GraphID", Some (S"g")); ("NodeID", Some (S"n1")); ("Name", Some (S"n1")); ("Type", Some (S"VM"));
   ("StitchNode", Some (S"false")); ("Site", Some (S"RENC"))]%string.
Definition w_service_props : props :=
  [("GraphID", Some (S"g")); ("NodeID", Some (S"s1")); ("Name", Some (S"s1")); ("Type", Some (S"L2Bridge"));
   ("StitchNode", Some (S"false")); ("Gateway", Some (S"{""ipv4"": ""10.0.0.1"", ""ipv4_subnet"": ""10.0.0.0/24""}"))]%string.

Lemma stitch_fold_refuted :
  exists df dm,
    set_each_actual KNode [("stitch_node", FBool true); ("site", FStr (S"UKY"))]%string w_node_props = Ok df /\
    set_properties KNode [("stitch_node", Some (FBool true)); ("site", Some (FStr (S"UKY")))]%string w_node_props = Ok dm /\
    get_property KNode "stitch_node" df = Ok (Some (FBool false)) /\
    get_property KNode "stitch_node" dm = Ok (Some (FBool true)).
Proof. eexists. eexists. split; [|split; [|split]]; vm_compute; reflexivity. Qed.

Definition w_node_img_props : props := w_node_props ++ [("ImageRef", Some (S"img,qcow2"))]%string.

(* SLIVER level (not repaired by c7cf34d): a NodeSliver object that carries only one half of the image
   pair loses it in the converters - the pair is one graph property, written only when both are set *)
Definition w_lone_image : attrs :=
  aset "image_ref" (Some (FStr (S"img"))) (aset "resource_name" (w_name "n1") (blank KNode)).

Lemma lone_image_half_lost :
  bind (to_props KNode w_lone_image) (from_props KNode) = Ok (aset "image_ref" None w_lone_image) /\
  aset "image_ref" None w_lone_image <> w_lone_image /\ attrs_wf KNode w_lone_image = false.
Proof. split; [vm_compute; reflexivity|]. split; [vm_compute; intro H; inversion H | vm_compute; reflexivity]. Qed.

(* a lone half on a node without an image is refused loudly; with an image it replaces its half *)
Lemma image_ref_alone :
  set_property KNode "image_ref" (Some (FStr (S"img"))) w_node_props = Err ExOther /\
  exists l' d', completed_kvs node_completes_image_pair KNode [("image_ref", Some (FStr (S"img2")))]%string w_node_img_props = Ok l' /\
    kws_ok KNode l' = true /\ values_ok KNode l' = true /\ readable KNode w_node_img_props = true /\
    set_property KNode "image_ref" (Some (FStr (S"img2"))) w_node_img_props = Ok d' /\
    get_property KNode "image_type" d' = Ok (Some (FStr (S"qcow2"))).
Proof.
  split; [vm_compute; reflexivity|]. eexists. eexists.
  split; [vm_compute; reflexivity|]. split; [vm_compute; reflexivity|]. split; [vm_compute; reflexivity|].
  split; [vm_compute; reflexivity|]. split; vm_compute; reflexivity.
Qed.

(* the model of proposed fix C02-4 (completion flag true): a lone half is completed from the graph,
   and refused when the graph has no other half *)

Lemma completion_example :
  (exists d', set_property_with true KNode "image_ref" (Some (FStr (S"img2"))) w_node_img_props = Ok d' /\
              get_property KNode "image_ref" d' = Ok (Some (FStr (S"img2"))) /\
              get_property KNode "image_type" d' = Ok (Some (FStr (S"qcow2")))) /\
  set_property_with true KNode "image_ref" (Some (FStr (S"img2"))) w_node_props = Err ExOther.
Proof. split; [eexists; split; [|split]|]; vm_compute; reflexivity. Qed.

Lemma image_pair_example :
  exists d', set_properties KNode [("image_ref", Some (FStr (S"img"))); ("image_type", Some (FStr (S"qcow2")))]%string
                            w_node_props = Ok d' /\
             get_property KNode "image_ref" d' = Ok (Some (FStr (S"img"))) /\
             get_property KNode "image_type" d' = Ok (Some (FStr (S"qcow2"))).
Proof. eexists. split; [|split]; vm_compute; reflexivity. Qed.

Lemma image_comma_example :
  exists d', set_properties KNode [("image_ref", Some (FStr (S"a,b"))); ("image_type", Some (FStr (S"qcow2")))]%string
                            w_node_props = Ok d' /\
             get_property KNode "image_ref" d' = Ok (Some (FStr (S"a,b"))) /\
             get_property KNode "image_type" d' = Ok (Some (FStr (S"qcow2"))).
Proof. eexists. split; [|split]; vm_compute; reflexivity. Qed.

Lemma unset_gateway_example :
  readable KService w_service_props = true /\
  exists d', set_property KService "gateway" None w_service_props = Ok d' /\
             get_property KService "gateway" d' = Ok None.
Proof. split; [vm_compute; reflexivity|]. eexists. split; vm_compute; reflexivity. Qed.

(* graph route: node > component > service > DedicatedPort > sub-interface *)
Definition w_sl (k : kind) (id name ty : string) (en : string) (c n i : option (list tree)) : tree :=
  T k (Some (of_string id))
    (aset "resource_type" (Some (FEnum en (of_string ty))) (aset "resource_name" (w_name name) (blank k))) c n i.

Definition w_sub := w_sl KInterface "i2" "sub1" "SubInterface" "InterfaceType" None None None.
Definition w_port := w_sl KInterface "i1" "p1" "DedicatedPort" "InterfaceType" None None (Some [w_sub]).
Definition w_ns := w_sl KService "s1" "ns1" "OVS" "ServiceType" None None (Some [w_port]).
Definition w_comp := w_sl KComponent "c1" "nic1" "SmartNIC" "ComponentType" None (Some [w_ns]) None.
Definition w_tree := w_sl KNode "n1" "node1" "Server" "NodeType" (Some [w_comp]) None None.

(* a second component, with a service and a port, added under the node of a graph that already holds w_tree *)
Definition w_port2 := w_sl KInterface "i9" "p9" "TrunkPort" "InterfaceType" None None None.
Definition w_ns2 := w_sl KService "s9" "ns9" "OVS" "ServiceType" None None (Some [w_port2]).
Definition w_comp2 := w_sl KComponent "c9" "nic9" "SharedNIC" "ComponentType" None (Some [w_ns2]) None.
Definition w_graph1 : graph := match add_sliver empty_graph w_tree with Ok g => g | Err _ => empty_graph end.

Lemma graph_under_example :
  good_graph w_graph1 = true /\ graph_wf_sub w_comp2 = true /\ fresh_in w_graph1 w_comp2 = true /\
  parent_ok w_graph1 (Some (S"n1")) w_comp2 = true /\ List.length (g_nodes w_graph1) = 5%nat /\
  exists g2, add_under w_graph1 (Some (S"n1")) w_comp2 = Ok g2 /\
    build_deep g2 KComponent (S"c9") = Ok w_comp2 /\
    get_first_neighbor g2 (S"n1") rel_has (class_label KComponent) = Ok [S"c1"; S"c9"] /\
    build_deep g2 KComponent (S"c1") = Ok w_comp.
Proof.
  split; [vm_compute; reflexivity|]. split; [vm_compute; reflexivity|]. split; [vm_compute; reflexivity|].
  split; [vm_compute; reflexivity|]. split; [vm_compute; reflexivity|].
  eexists. split; [vm_compute; reflexivity|]. split; [vm_compute; reflexivity|]. split; vm_compute; reflexivity.
Qed.

Lemma graph_example :
  graph_wf w_tree = true /\ graph_roundtrip w_tree = Ok w_tree /\ List.length (subtrees w_tree) = 5%nat.
Proof. split; [vm_compute; reflexivity|]. split; vm_compute; reflexivity. Qed.

(* non-vacuity of the round-trip hypotheses: the same deep tree through dictionary and JSON *)
Lemma deep_example :
  tree_wf w_tree = true /\ bind (to_dict w_tree) (from_dict KNode) = Ok (forget_ids w_tree)
  /\ forget_ids w_tree <> T KNode None [] None None None.
Proof. split; [vm_compute; reflexivity|]. split; [vm_compute; reflexivity|]. vm_compute. intro H. inversion H. Qed.

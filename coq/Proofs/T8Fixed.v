(* C08 proofs, part 12: the statements that were refuted before the fixes 4c6e5fb / 13b815d / edd75a8 and
   hold of the model of the repaired code: service-side ports go with the interfaces of a removed element
   (sub-interfaces included), unpeer only along a peering, disconnect only removes a service port, the
   handle lists of remove_interface / remove_child_interface. *)
From Coq Require Import List NArith Bool Lia Arith PeanoNat.
From FIM Require Import Model.T8Graph Model.T8Ops Proofs.T8Frame Proofs.T8Query Proofs.T8Hoare Proofs.T8Sound
     Proofs.T8SoundTop Proofs.T8Complete Proofs.T8Closed Proofs.T8Top Proofs.T8Handles.
Import ListNotations.

(* classes of what one remove_cp_and_links deletes *)
Lemma del_list_cases g0 s n dp z :
  cons g0 s -> In z (cp_del_list (fst s) n dp) ->
  z = n \/ (dp = true /\ In z (cpn g0 n)) \/ class_of g0 z = CLink.
Proof.
  intros C Hz. apply cp_del_list_In in Hz. destruct Hz as [Hz|Hz].
  - unfold cp_family in Hz. rewrite dedup_In in Hz. destruct Hz as [<-|Hz]; [left; reflexivity|].
    apply filter_In in Hz. destruct Hz as [Hz Hf]. apply andb_true_iff in Hf. destruct Hf as [_ Hf].
    rewrite C in Hz. apply first_neighbor_restrict in Hz; [|discriminate]. destruct Hz as [Hz _].
    right. left. auto.
  - apply cp_links_In in Hz. destruct Hz as [i [_ [Hz _]]]. rewrite C in Hz.
    apply first_neighbor_restrict in Hz; [|discriminate]. destruct Hz as [Hz _].
    apply first_neighbor_In in Hz. right. right. tauto.
Qed.

Section Fixed.
Variable g0 : graph.

(* a deleted two-ended link has lost one of its ends (links are never deleted on their own here) *)
Definition LJ (D : list N) : Prop := forall l a b, link2 g0 l a b -> In l D -> In a D \/ In b D.

Lemma remove_cp_LJ n dp s s' :
  cons g0 s -> LJ (snd s) -> class_of g0 n = CCP -> remove_cp_and_links n dp s = (inl tt, s') -> LJ (snd s').
Proof.
  intros C L Hn E. destruct (remove_cp_ok g0 n dp s s' C E) as [_ [_ H]].
  intros l a b Hl Hin. apply H in Hin. destruct Hin as [Hin|Hin].
  - pose proof Hl as [Hcl [_ Hm]].
    apply cp_del_list_In in Hin. destruct Hin as [Hin|Hin].
    + (* l in the family: the family holds connection points only *)
      exfalso. destruct (cp_family_class (fst s) n dp l Hin) as [->|Hc]; [congruence|].
      unfold cp_family in Hin. rewrite dedup_In in Hin. destruct Hin as [<-|Hin]; [congruence|].
      apply filter_In in Hin. destruct Hin as [Hin _]. rewrite C in Hin.
      apply first_neighbor_restrict in Hin; [|discriminate]. destruct Hin as [Hin _].
      apply first_neighbor_In in Hin. destruct Hin as [_ Hin]. congruence.
    + apply cp_links_In in Hin. destruct Hin as [i [Hi [Hli _]]].
      assert (Hic : class_of g0 i = CCP).
      { destruct (cp_family_class (fst s) n dp i Hi) as [->|Hc]; [exact Hn|].
        unfold cp_family in Hi. rewrite dedup_In in Hi. destruct Hi as [<-|Hi]; [exact Hn|].
        apply filter_In in Hi. destruct Hi as [Hi _]. rewrite C in Hi.
        apply first_neighbor_restrict in Hi; [|discriminate]. destruct Hi as [Hi _].
        apply (cpn_class g0 n). exact Hi. }
      rewrite C in Hli. apply first_neighbor_restrict in Hli; [|discriminate]. destruct Hli as [Hli _].
      assert (Hil : In i (cpn g0 l)) by (apply (first_neighbor_sym g0 i l RConnects CLink CCP); assumption).
      assert (Hid : In i (snd s')).
      { apply H. left. apply cp_del_list_In. left. exact Hi. }
      apply Hm in Hil. destruct Hil as [->| ->]; auto.
  - destruct (L l a b Hl Hin) as [Ha|Hb]; [left | right]; apply H; right; assumption.
Qed.

(* a two-ended link from ii to sp that is still there makes sp a peer of ii in the current graph *)
Lemma link2_peer s l ii sp :
  cons g0 s -> link2 g0 l ii sp -> ~ In ii (snd s) -> ~ In l (snd s) -> ~ In sp (snd s) ->
  In sp (peer_cps (fst s) ii).
Proof.
  intros C [Hcl [Hne Hm]] Hi Hl Hs. unfold peer_cps. apply in_flat_map. exists l. split.
  - rewrite C. apply first_neighbor_restrict; [discriminate|]. split; [|auto].
    apply (first_neighbor_sym g0 l ii RConnects CCP CLink); [apply Hm; auto | exact Hcl].
  - apply removeN_In. split; [|congruence]. rewrite C. apply nbrs_cls_restrict; [discriminate|]. split; [|auto].
    assert (Hs' : In sp (cpn g0 l)) by (apply Hm; auto).
    unfold cpn in Hs'. apply first_neighbor_In in Hs'. destruct Hs' as [A B].
    apply nbrs_cls_In. split; [exists RConnects; exact A | exact B].
Qed.

(* disconnect_interface that returns: what it deleted, and that every ServicePort peer of i is now deleted *)
Lemma disconnect_interface_ok i s r s' :
  cons g0 s -> disconnect_interface i s = (inl r, s') ->
  cons g0 s' /\ ~ In i (snd s) /\
  (forall sp, In sp (peer_cps (fst s) i) -> type_of (fst s) sp = T_ServicePort -> In sp (snd s')) /\
  ((snd s' = snd s /\ r = None) \/
   exists x, r = Some x /\ In x (peer_cps (fst s) i) /\ type_of (fst s) x = T_ServicePort /\
             remove_cp_and_links x true s = (inl tt, s')).
Proof.
  intros C E. unfold disconnect_interface in E.
  apply bind_ok in E. destruct E as [x0 [s1 [E1 E]]]. apply need_node_ok in E1. destruct E1 as [F ->].
  apply bind_ok in E. destruct E as [p [s1 [E1 E]]]. apply get_ok in E1. destruct E1 as [-> ->].
  destruct (cons_has g0 s i C (find_has _ _ _ F)) as [Hid _].
  assert (Hall : forall l, get_peers_typed (fst s) i T_ServicePort = Some l ->
                 forall sp, In sp (peer_cps (fst s) i) -> type_of (fst s) sp = T_ServicePort -> In sp l).
  { intros l Hl sp Hsp Ht. unfold get_peers_typed, get_peers in Hl.
    remember (peer_cps (fst s) i) as pc eqn:Epc. destruct pc as [|a rr]; [discriminate|].
    assert (Hl' : l = filter (fun p : N => N.eqb (type_of (fst s) p) T_ServicePort) (a :: rr)) by congruence.
    rewrite Hl'. apply filter_In. split; [exact Hsp | apply N.eqb_eq; exact Ht]. }
  destruct (get_peers_typed (fst s) i T_ServicePort) as [[|x [|y rr]]|] eqn:Eg; try discriminate.
  - apply ret_ok in E. destruct E as [-> ->]. split; [exact C|]. split; [exact Hid|]. split; [|left; auto].
    intros sp Hsp Ht. destruct (Hall [] eq_refl sp Hsp Ht).
  - apply bind_ok in E. destruct E as [[] [s2 [E1 E]]]. apply ret_ok in E. destruct E as [-> ->].
    destruct (get_peers_typed_In _ _ _ _ x Eg (or_introl eq_refl)) as [Hp Ht].
    split; [apply (cons_to g0 _ _ _ _ (Inv_remove_cp x true) C E1)|]. split; [exact Hid|]. split.
    + intros sp Hsp Hts. destruct (Hall [x] eq_refl sp Hsp Hts) as [<-|[]].
      apply (del_remove_cp g0 x true _ _ C E1).
    + right. exists x. auto.
  - apply ret_ok in E. destruct E as [-> ->]. split; [exact C|]. split; [exact Hid|]. split; [|left; auto].
    intros sp Hsp Ht. unfold get_peers_typed, get_peers in Eg.
    destruct (peer_cps (fst s) i); [destruct Hsp | discriminate].
Qed.

Lemma disconnect_peers_of_ok i s s' :
  cons g0 s -> disconnect_peers_of i s = (inl tt, s') ->
  cons g0 s' /\ ~ In i (snd s) /\
  (forall sp, In sp (peer_cps (fst s) i) -> type_of (fst s) sp = T_ServicePort -> In sp (snd s')) /\
  (snd s' = snd s \/
   exists x, In x (peer_cps (fst s) i) /\ type_of (fst s) x = T_ServicePort /\
             remove_cp_and_links x true s = (inl tt, s')).
Proof.
  intros C E. unfold disconnect_peers_of in E.
  apply bind_ok in E. destruct E as [x0 [s1 [E1 E]]]. apply need_node_ok in E1. destruct E1 as [F ->].
  apply bind_ok in E. destruct E as [p [s1 [E1 E]]]. apply get_ok in E1. destruct E1 as [-> ->].
  destruct (cons_has g0 s i C (find_has _ _ _ F)) as [Hid _].
  assert (Hall : forall l, get_peers_typed (fst s) i T_ServicePort = Some l ->
                 forall sp, In sp (peer_cps (fst s) i) -> type_of (fst s) sp = T_ServicePort -> In sp l).
  { intros l Hl sp Hsp Ht. unfold get_peers_typed, get_peers in Hl.
    remember (peer_cps (fst s) i) as pc eqn:Epc. destruct pc as [|a rr]; [discriminate|].
    assert (Hl' : l = filter (fun p : N => N.eqb (type_of (fst s) p) T_ServicePort) (a :: rr)) by congruence.
    rewrite Hl'. apply filter_In. split; [exact Hsp | apply N.eqb_eq; exact Ht]. }
  destruct (get_peers_typed (fst s) i T_ServicePort) as [[|x [|y rr]]|] eqn:Eg; try discriminate.
  - apply ret_ok in E. destruct E as [_ ->]. split; [exact C|]. split; [exact Hid|]. split; [|left; auto].
    intros sp Hsp Ht. destruct (Hall [] eq_refl sp Hsp Ht).
  - apply bind_ok in E. destruct E as [par [s1 [E1 E]]]. apply get_ok in E1. destruct E1 as [-> ->].
    destruct (first_neighbor (fst s) x RConnects CNS) as [|q [|q' rq]]; try discriminate.
    apply bind_ok in E. destruct E as [r [s2 [E1 E]]]. apply ret_ok in E. destruct E as [_ ->].
    destruct (disconnect_interface_ok i s r s2 C E1) as [C2 [_ [Hb Hc]]].
    split; [exact C2|]. split; [exact Hid|]. split; [exact Hb|].
    destruct Hc as [[Hc _]|[x' [_ [Hx1 [Hx2 Hx3]]]]]; [left; exact Hc | right; exists x'; auto].
  - apply ret_ok in E. destruct E as [_ ->]. split; [exact C|]. split; [exact Hid|]. split; [|left; auto].
    intros sp Hsp Ht. unfold get_peers_typed, get_peers in Eg.
    destruct (peer_cps (fst s) i); [destruct Hsp | discriminate].
Qed.

Definition JL (s : st) : Prop := cons g0 s /\ LJ (snd s).
(* the service port across a two-ended link from ii is deleted *)
Definition Rart (ii : N) (s : st) : Prop :=
  forall l sp, link2 g0 l ii sp -> type_of g0 sp = T_ServicePort -> In sp (snd s).

Lemma peers_step ii s s' :
  JL s -> disconnect_peers_of ii s = (inl tt, s') -> JL s' /\ Rart ii s' /\ (forall x, In x (snd s) -> In x (snd s')).
Proof.
  intros [C L] E. destruct (disconnect_peers_of_ok ii s s' C E) as [C' [Hid [Hb Hc]]].
  assert (Hsub : forall x, In x (snd s) -> In x (snd s')).
  { intros x Hx. apply (ext_to g0 _ _ _ _ x (Inv_disconnect_peers_of ii) C E Hx). }
  split; [split; [exact C'|]|split; [|exact Hsub]].
  - destruct Hc as [Hc|[x [Hx1 [_ Hx3]]]]; [rewrite Hc; exact L|].
    apply (remove_cp_LJ x true s s' C L); [|exact Hx3]. apply (peer_cps_class g0 s ii x C Hx1).
  - intros l sp Hl Ht.
    destruct (in_dec N.eq_dec sp (snd s)) as [Hsd|Hsd]; [apply Hsub; exact Hsd|].
    destruct (in_dec N.eq_dec l (snd s)) as [Hld|Hld].
    + destruct (L l ii sp Hl Hld) as [H|H]; [contradiction | apply Hsub; exact H].
    + apply Hb.
      * apply (link2_peer s l ii sp C Hl Hid Hld Hsd).
      * rewrite C. rewrite type_of_restrict; [exact Ht | apply memN_false; exact Hsd].
Qed.

Lemma peers_loop l s s' :
  JL s -> for_each_set disconnect_peers_of l s = (inl tt, s') ->
  JL s' /\ (forall ii, In ii l -> Rart ii s') /\ (forall x, In x (snd s) -> In x (snd s')).
Proof.
  intros HJ E. apply for_each_set_ok in E.
  set (Jl := fun t : st => JL t /\ forall x, In x (snd s) -> In x (snd t)).
  assert (H : Jl s' /\ forall ii, In ii l -> Rart ii s').
  { apply (for_each_ok_all disconnect_peers_of Jl Rart l) with (s := s); [| | |exact E].
    - intros ii t1 t2 _ [A B] Et. destruct (peers_step ii t1 t2 A Et) as [A' [R' S']].
      split; [split; [exact A' | intros x Hx; apply S'; apply B; exact Hx] | exact R'].
    - intros ii y t1 t2 _ [A _] HR Et. destruct (peers_step y t1 t2 A Et) as [_ [_ S']].
      intros l0 sp Hl Ht. apply S'. apply (HR l0 sp Hl Ht).
    - split; [exact HJ | auto]. }
  destruct H as [[A B] R]. auto.
Qed.

Lemma JL_init : JL (g0, []).
Proof. split; [apply cons_init | intros l a b _ []]. Qed.

(* the disconnect loop of _disconnect_from_services over the interface list L.  DI: every connection point it has
   deleted so far is the ServicePort peer of an interface of L, or next to such a peer.  `free L ii`: ii is neither -
   the interfaces of the element are not connected to each other - so ii is still there at its turn (not skipped). *)
Definition DI (L D : list N) : Prop :=
  forall z, In z D -> class_of g0 z = CCP ->
    exists jj p, In jj L /\ In p (peer_cps g0 jj) /\ type_of g0 p = T_ServicePort /\ (z = p \/ In z (cpn g0 p)).
Definition free (L : list N) (ii : N) : Prop :=
  forall jj, In jj L ->
    ~ In ii (peer_cps g0 jj) /\ forall p, In p (peer_cps g0 jj) -> type_of g0 p = T_ServicePort -> ~ In ii (cpn g0 p).

Lemma peers_step_DI L ii s s' :
  cons g0 s -> DI L (snd s) -> In ii L -> disconnect_peers_of ii s = (inl tt, s') -> DI L (snd s').
Proof.
  intros C HD Hii E. destruct (disconnect_peers_of_ok ii s s' C E) as [_ [_ [_ Hc]]].
  destruct Hc as [Hc|[x [Hx1 [Hx2 Hx3]]]]; [rewrite Hc; exact HD|].
  destruct (remove_cp_ok g0 x true s s' C Hx3) as [_ [_ H]].
  assert (Hp : In x (peer_cps g0 ii)) by (rewrite C in Hx1; apply (peer_cps_mono g0 (snd s)); exact Hx1).
  assert (Ht : type_of g0 x = T_ServicePort).
  { rewrite C in Hx2. destruct (type_of_restrict_eq g0 (snd s) x _ Hx2 ltac:(discriminate)) as [A _]. exact A. }
  intros z Hz Hzc. apply H in Hz. destruct Hz as [Hz|Hz]; [|apply (HD z Hz Hzc)].
  exists ii, x. split; [exact Hii|]. split; [exact Hp|]. split; [exact Ht|].
  destruct (del_list_cases g0 s x true z C Hz) as [->|[[_ Hn]|Hl]]; [left; reflexivity | right; exact Hn | congruence].
Qed.

Lemma step_art L ii s s' :
  JL s -> DI L (snd s) -> In ii L -> disconnect_step ii s = (inl tt, s') ->
  JL s' /\ DI L (snd s') /\ (forall x, In x (snd s) -> In x (snd s')) /\ (free L ii -> Rart ii s').
Proof.
  intros HJ HD Hii E. unfold disconnect_step in E.
  apply bind_ok in E. destruct E as [b [s1 [E1 E]]]. apply get_ok in E1. destruct E1 as [-> ->].
  destruct (has_node (fst s) ii && cls_eqb (class_of (fst s) ii) CCP) eqn:Eb.
  - destruct (peers_step ii s s' HJ E) as [A [B S']]. pose proof HJ as [C _].
    split; [exact A|]. split; [apply (peers_step_DI L ii s s' C HD Hii E)|]. split; [exact S' | intros _; exact B].
  - apply ret_ok in E. destruct E as [_ ->]. split; [exact HJ|]. split; [exact HD|]. split; [auto|].
    intros Hf l sp Hl Ht. exfalso. pose proof HJ as [C _].
    assert (Hc : class_of g0 ii = CCP).
    { destruct Hl as [_ [_ Hm]]. apply (cpn_class g0 l). apply Hm. auto. }
    destruct (in_dec N.eq_dec ii (snd s)) as [Hd|Hd].
    + destruct (HD ii Hd Hc) as [jj [p [Hjj [Hp [Htp [->|Hn]]]]]].
      * exact (proj1 (Hf jj Hjj) Hp).
      * exact (proj2 (Hf jj Hjj) p Hp Htp Hn).
    + assert (Hm : memN ii (snd s) = false) by (apply memN_false; exact Hd).
      rewrite C, has_node_restrict, Hm, (class_of_restrict _ _ _ Hm), Hc in Eb. simpl in Eb.
      unfold has_node, class_of in *. destruct (find_node g0 ii); [discriminate | discriminate].
Qed.

Lemma disc_loop L s s' :
  JL s -> DI L (snd s) -> for_each_set disconnect_step L s = (inl tt, s') ->
  JL s' /\ (forall ii, In ii L -> free L ii -> Rart ii s') /\ (forall x, In x (snd s) -> In x (snd s')).
Proof.
  intros HJ HD E. apply for_each_set_ok in E.
  set (Jl := fun t : st => JL t /\ DI L (snd t) /\ forall x, In x (snd s) -> In x (snd t)).
  assert (H : Jl s' /\ forall ii, In ii L -> (fun ii t => free L ii -> Rart ii t) ii s').
  { apply (for_each_ok_all disconnect_step Jl (fun ii t => free L ii -> Rart ii t) L) with (s := s); [| | |exact E].
    - intros ii t1 t2 Hii [A [D B]] Et. destruct (step_art L ii t1 t2 A D Hii Et) as [A' [D' [S' R']]].
      split; [split; [exact A' | split; [exact D' | intros x Hx; apply S'; apply B; exact Hx]] | exact R'].
    - intros ii y t1 t2 Hy [A [D _]] HR Et. destruct (step_art L y t1 t2 A D Hy Et) as [_ [_ [S' _]]].
      intros Hf l0 sp Hl Ht. apply S'. apply (HR Hf l0 sp Hl Ht).
    - split; [exact HJ | split; [exact HD | auto]]. }
  destruct H as [[A [_ B]] R]. auto.
Qed.

Lemma DI_init L : DI L [].
Proof. intros z []. Qed.

End Fixed.

(* the interfaces an operation disconnects before removing: the interfaces of the element and the
   sub-interfaces of its dedicated ports *)
Definition disc_ifs (g : graph) (o : op) (ii : N) : Prop :=
  match o with
  | ORemoveNode nm | ORemoveSwitch nm =>
      exists n, In n (topo_nodes g nm) /\ In ii (disc_list g (node_interface_list g n))
  | ORemoveFacility nm =>
      exists n, In n (by_name g CNode nm) /\ In ii (disc_list g (node_interface_list g n))
  | ORemoveComponent n c =>
      exists c', In c' (first_neighbor g n RHas CComp) /\ name_of g c' = c /\
                 In ii (disc_list g (comp_interface_list g c'))
  | ORemoveNsTopo nm =>
      exists s, In s (by_name g CNS nm) /\ In ii (disc_list g (cpn g s))
  | ONodeRemoveNs n sn =>
      exists s, In s (first_neighbor g n RHas CNS) /\ name_of g s = sn /\ In ii (disc_list g (cpn g s))
  | ORemoveChild p nm => In ii (cpn g p) /\ name_of g ii = nm
  | ODisconnect _ i => ii = i
  | _ => False
  end.

Lemma art_ns_disconnecting g s s' ii :
  remove_ns_disconnecting s (g, []) = (inl tt, s') -> In ii (disc_list g (cpn g s)) ->
  free g (disc_list g (cpn g s)) ii -> Rart g ii s'.
Proof.
  intros E Hii Hf. unfold remove_ns_disconnecting in E.
  apply bind_ok in E. destruct E as [ifs [s1 [E1 E]]]. apply get_ok in E1. destruct E1 as [-> ->].
  apply bind_ok in E. destruct E as [[] [s1 [E1 E]]].
  destruct (disc_loop g _ _ _ (JL_init g) (DI_init g _) E1) as [[C1 _] [HR _]].
  intros l sp Hl Ht. apply (ext_to g _ _ _ _ sp (Inv_remove_ns s) C1 E). apply (HR ii Hii Hf l sp Hl Ht).
Qed.

Lemma art_node_tail g nm n s' ii :
  bind (m_get (fun g => disc_list g (node_interface_list g n))) (fun ifs =>
  bind (for_each_set disconnect_step ifs) (fun _ =>
  bind (m_get (fun g => by_name g CNode nm)) (fun all =>
  bind (uniq all EQuery EQuery) (fun n' => remove_node_graph n')))) (g, []) = (inl tt, s') ->
  In ii (disc_list g (node_interface_list g n)) ->
  free g (disc_list g (node_interface_list g n)) ii -> Rart g ii s'.
Proof.
  intros E Hii Hf.
  apply bind_ok in E. destruct E as [ifs [s1 [E1 E]]]. apply get_ok in E1. destruct E1 as [-> ->].
  apply bind_ok in E. destruct E as [[] [s1 [E1 E]]].
  destruct (disc_loop g _ _ _ (JL_init g) (DI_init g _) E1) as [[C1 _] [HR _]].
  intros l sp Hl Ht.
  assert (I : Inv (bind (m_get (fun g => by_name g CNode nm)) (fun all =>
              bind (uniq all EQuery EQuery) (fun n' => remove_node_graph n')))).
  { repeat first [apply Inv_remove_node_graph | inv_step]. }
  apply (ext_to g _ _ _ _ sp I C1 E). apply (HR ii Hii Hf l sp Hl Ht).
Qed.

(* the element's interfaces are not connected to each other: ii is not across a link from (nor next to a ServicePort
   across a link from) another interface the operation disconnects.  Not needed where a single interface is handled. *)
Definition self_peer_free (g : graph) (o : op) (ii : N) : Prop :=
  match o with
  | ORemoveChild _ _ | ODisconnect _ _ => True
  | _ => forall jj, disc_ifs g o jj ->
           ~ In ii (peer_cps g jj) /\
           forall p, In p (peer_cps g jj) -> type_of g p = T_ServicePort -> ~ In ii (cpn g p)
  end.

(* "... and the peering artefacts created for it (the service-side port ...)": on normal return, the
   ServicePort across a two-ended link from any interface the operation disconnects is deleted *)
Theorem artefact_ports_deleted ex o cs g r g' tr :
  run (exec ex o cs) g = (inl r, (g', tr)) ->
  forall ii l sp, disc_ifs g o ii -> self_peer_free g o ii ->
                  link2 g l ii sp -> type_of g sp = T_ServicePort -> In sp tr.
Proof.
  unfold run. destruct o; simpl; intros E ii l sp Hd Hsf Hl Ht; try (destruct Hd; fail).
  - (* remove_node *)
    apply then_ret_ok in E. destruct E as [[] E]. unfold api_remove_node in E.
    apply bind_ok in E. destruct E as [cands [s1 [E1 E]]]. apply get_ok in E1. destruct E1 as [-> ->].
    apply bind_ok in E. destruct E as [n [s1 [E1 E]]]. apply uniq_ok in E1. destruct E1 as [Hc ->].
    destruct Hd as [n' [Hn' Hii]]. simpl in Hc. pose proof Hn' as Hn0. rewrite Hc in Hn'. destruct Hn' as [<-|[]].
    refine (art_node_tail g name n _ ii E Hii _ l sp Hl Ht).
    intros jj Hjj. apply Hsf. exists n. auto.
  - (* remove_facility *)
    apply then_ret_ok in E. destruct E as [[] E]. unfold api_remove_facility in E.
    apply bind_ok in E. destruct E as [all [s1 [E1 E]]]. apply get_ok in E1. destruct E1 as [-> ->].
    apply bind_ok in E. destruct E as [n [s1 [E1 E]]]. apply uniq_ok in E1. destruct E1 as [Hc ->].
    apply bind_ok in E. destruct E as [t [s1 [E1 E]]]. apply get_ok in E1. destruct E1 as [-> ->].
    apply bind_ok in E. destruct E as [[] [s1 [E1 E]]]. apply guard_ok in E1. destruct E1 as [_ ->].
    destruct Hd as [n' [Hn' Hii]]. simpl in Hc. pose proof Hn' as Hn0. rewrite Hc in Hn'. destruct Hn' as [<-|[]].
    refine (art_node_tail g name n _ ii E Hii _ l sp Hl Ht).
    intros jj Hjj. apply Hsf. exists n. auto.
  - (* remove_switch *)
    apply then_ret_ok in E. destruct E as [[] E]. unfold api_remove_switch in E.
    apply bind_ok in E. destruct E as [all [s1 [E1 E]]]. apply get_ok in E1. destruct E1 as [-> ->].
    apply bind_ok in E. destruct E as [n0 [s1 [E1 E]]]. apply uniq_ok in E1. destruct E1 as [_ ->].
    apply bind_ok in E. destruct E as [t [s1 [E1 E]]]. apply get_ok in E1. destruct E1 as [-> ->].
    apply bind_ok in E. destruct E as [[] [s1 [E1 E]]]. apply guard_ok in E1. destruct E1 as [_ ->].
    unfold api_remove_node in E.
    apply bind_ok in E. destruct E as [cands [s1 [E1 E]]]. apply get_ok in E1. destruct E1 as [-> ->].
    apply bind_ok in E. destruct E as [n [s1 [E1 E]]]. apply uniq_ok in E1. destruct E1 as [Hc ->].
    destruct Hd as [n' [Hn' Hii]]. simpl in Hc. pose proof Hn' as Hn0. rewrite Hc in Hn'. destruct Hn' as [<-|[]].
    refine (art_node_tail g name n _ ii E Hii _ l sp Hl Ht).
    intros jj Hjj. apply Hsf. exists n. auto.
  - (* topology.remove_network_service *)
    apply then_ret_ok in E. destruct E as [[] E]. unfold api_remove_ns_topo in E.
    apply bind_ok in E. destruct E as [all [s1 [E1 E]]]. apply get_ok in E1. destruct E1 as [-> ->].
    apply bind_ok in E. destruct E as [n [s1 [E1 E]]]. apply uniq_ok in E1. destruct E1 as [Hc ->].
    destruct Hd as [s0 [Hs0 Hii]]. simpl in Hc. pose proof Hs0 as Hs00. rewrite Hc in Hs0. destruct Hs0 as [<-|[]].
    refine (art_ns_disconnecting g n _ ii E Hii _ l sp Hl Ht).
    intros jj Hjj. apply Hsf. exists n. auto.
  - (* remove_component *)
    apply then_ret_ok in E. destruct E as [[] E]. unfold api_remove_component in E.
    apply bind_ok in E. destruct E as [[] [s1 [E1 E]]]. apply need_class_ok in E1. destruct E1 as [_ [_ ->]].
    apply bind_ok in E. destruct E as [cs0 [s1 [E1 E]]]. apply get_ok in E1. destruct E1 as [-> ->].
    apply bind_ok in E. destruct E as [c [s1 [E1 E]]]. apply uniq_ok in E1. destruct E1 as [Hc ->].
    apply bind_ok in E. destruct E as [ifs [s1 [E1 E]]]. apply get_ok in E1. destruct E1 as [-> ->].
    apply bind_ok in E. destruct E as [[] [s1 [E1 E]]].
    destruct Hd as [c' [Hc1 [Hc2 Hii]]]. simpl in Hc.
    assert (Hxc : In c' (child_by_name g (first_neighbor g n RHas CComp) cname)).
    { unfold child_by_name. apply filter_In. split; [exact Hc1 | apply N.eqb_eq; exact Hc2]. }
    rewrite Hc in Hxc. destruct Hxc as [<-|[]].
    destruct (disc_loop g _ _ _ (JL_init g) (DI_init g _) E1) as [[C1 _] [HR _]].
    apply (ext_to g _ _ _ _ sp (Inv_remove_component c) C1 E). refine (HR ii Hii _ l sp Hl Ht).
    intros jj Hjj. apply Hsf. exists c. auto.
  - (* node.remove_network_service *)
    apply then_ret_ok in E. destruct E as [[] E]. unfold api_node_remove_ns in E.
    apply bind_ok in E. destruct E as [x0 [s1 [E1 E]]]. apply need_node_ok in E1. destruct E1 as [_ ->].
    apply bind_ok in E. destruct E as [[] [s1 [E1 E]]]. apply guard_ok in E1. destruct E1 as [_ ->].
    apply bind_ok in E. destruct E as [ss [s1 [E1 E]]]. apply get_ok in E1. destruct E1 as [-> ->].
    apply bind_ok in E. destruct E as [s0 [s1 [E1 E]]]. apply uniq_ok in E1. destruct E1 as [Hs ->].
    destruct Hd as [s' [Hs1 [Hs2 Hii]]]. simpl in Hs.
    assert (Hxc : In s' (child_by_name g (first_neighbor g n RHas CNS) sname)).
    { unfold child_by_name. apply filter_In. split; [exact Hs1 | apply N.eqb_eq; exact Hs2]. }
    rewrite Hs in Hxc. destruct Hxc as [<-|[]].
    refine (art_ns_disconnecting g s0 _ ii E Hii _ l sp Hl Ht).
    intros jj Hjj. apply Hsf. exists s0. auto.
  - (* disconnect_interface *)
    subst ii.
    apply bind_ok in E. destruct E as [c [s1 [E E2]]]. apply ret_ok in E2. destruct E2 as [_ E2]. subst s1.
    unfold api_disconnect in E. apply bind_ok in E. destruct E as [rr [s1 [E E2]]].
    assert (Hs1 : s1 = (g', tr)) by (destruct rr; apply ret_ok in E2; destruct E2 as [_ E2]; symmetry; exact E2).
    subst s1.
    destruct (disconnect_interface_ok g i (g, []) rr (g', tr) (cons_init g) E) as [_ [Hid [Hb _]]].
    simpl in Hb. apply Hb; [|exact Ht].
    apply (link2_peer g (g, []) l i sp (cons_init g) Hl); simpl; auto.
  - (* remove_child_interface *)
    apply bind_ok in E. destruct E as [c [s1 [E E2]]]. apply ret_ok in E2. destruct E2 as [_ E2]. subst s1.
    unfold api_remove_child in E.
    apply bind_ok in E. destruct E as [x0 [s1 [E1 E]]]. apply need_node_ok in E1. destruct E1 as [_ ->].
    apply bind_ok in E. destruct E as [[] [s1 [E1 E]]]. apply guard_ok in E1. destruct E1 as [_ ->].
    apply bind_ok in E. destruct E as [[] [s1 [E1 E]]]. apply guard_ok in E1. destruct E1 as [_ ->].
    apply bind_ok in E. destruct E as [is_ [s1 [E1 E]]]. apply get_ok in E1. destruct E1 as [-> ->].
    apply bind_ok in E. destruct E as [i [s1 [E1 E]]]. apply uniq_ok in E1. destruct E1 as [Hi ->].
    apply bind_ok in E. destruct E as [[] [s1 [E0 E]]].
    apply bind_ok in E. destruct E as [[] [s2 [E1 E]]]. apply ret_ok in E. destruct E as [_ E]. rewrite <- E in *.
    destruct Hd as [Hx1 Hx2]. simpl in Hi.
    assert (Hxc : In ii (child_by_name g (first_neighbor g p RConnects CCP) iname)).
    { unfold child_by_name. apply filter_In. split; [exact Hx1 | apply N.eqb_eq; exact Hx2]. }
    rewrite Hi in Hxc. destruct Hxc as [<-|[]].
    destruct (peers_step g i _ _ (JL_init g) E0) as [[C1 _] [HR _]].
    apply (ext_to g _ _ _ _ sp (Inv_remove_cp i false) C1 E1). apply (HR l sp Hl Ht).
Qed.

Lemma dedup_pairs_In p l : In p (dedup_pairs l) -> In p l.
Proof.
  induction l as [|q l IH]; simpl; [tauto|].
  destruct (existsb (pair_eqb q) l); [intros H; right; apply IH; exact H|].
  intros [<-|H]; [left; reflexivity | right; apply IH; exact H].
Qed.

Lemma chains4_In g a b x y :
  In (x, y) (chains4 g a b) ->
  exists m, In x (cn g a) /\ In m (cn g x) /\ In y (cn g m) /\ In b (cn g y).
Proof.
  unfold chains4. intros Hp. apply in_flat_map in Hp. destruct Hp as [x' [Hx Hp]].
  apply in_flat_map in Hp. destruct Hp as [m [Hm Hp]].
  apply in_flat_map in Hp. destruct Hp as [y' [Hy Hp]].
  destruct (reach1 g y' b) eqn:Er; [|destruct Hp]. destruct Hp as [Hp|[]]. inversion Hp; subst x' y'.
  exists m. repeat split; try assumption. apply memN_In. exact Er.
Qed.

Lemma unpeer_ends_In g a b l xy : unpeer_ends g a b = Some l -> In xy l -> In xy (chains4 g a b).
Proof.
  unfold unpeer_ends. destruct (N.eqb a b || reach1 g a b || reach2 g a b || reach3 g a b); [discriminate|].
  destruct (dedup_pairs (chains4 g a b)) as [|p r] eqn:E; [discriminate|].
  intros H Hin. inversion H; subst l. apply dedup_pairs_In. rewrite E. exact Hin.
Qed.

(* unpeer of two services that are not joined by service - ServicePort - link - ServicePort - service (a chain of
   four `connects` edges whose inner ends are both ServicePorts) raises and deletes nothing *)
Theorem unpeer_only_peered ex a b cs g r g' tr :
  run (exec ex (OUnpeer a b) cs) g = (r, (g', tr)) ->
  (forall x m y, In x (cn g a) -> In m (cn g x) -> In y (cn g m) -> In b (cn g y) ->
                 ~ (type_of g x = T_ServicePort /\ type_of g y = T_ServicePort)) ->
  (exists e, r = inr e) /\ tr = [] /\ g' = g.
Proof.
  intros E H.
  unfold run in E. simpl in E. unfold bind, api_unpeer, bind, need_node, m_read, m_get in E. simpl in E.
  destruct (find_node g a); [|inversion E; eauto].
  destruct (find_node g b); [|inversion E; eauto].
  simpl in E. destruct (unpeer_ends g a b) as [[|[x y] [|xy' l]]|] eqn:Hu; simpl in E;
    try (inversion E; eauto; fail).
  - (* one candidate: its ends are not both service ports *)
    assert (Hb : both_sp g (x, y) = false).
    { destruct (both_sp g (x, y)) eqn:Eb; [|reflexivity]. exfalso.
      unfold both_sp in Eb. simpl in Eb. apply andb_true_iff in Eb. destruct Eb as [E1 E2].
      apply N.eqb_eq in E1. apply N.eqb_eq in E2.
      destruct (chains4_In g a b x y (unpeer_ends_In g a b _ (x, y) Hu (or_introl eq_refl))) as [m [A [B [C D]]]].
      apply (H x m y A B C D). auto. }
    unfold api_unpeer_checked, bind, m_get, guard in E. simpl in E. rewrite Hb in E. simpl in E.
    inversion E. eauto.
  - match type of E with context [if ?c then _ else _] => destruct c end; simpl in E; inversion E; eauto.
Qed.

(* whatever disconnect_interface deletes is a ServicePort peering with the interface, a connection point
   next to that port, or a link attached to them - never another node interface *)
Theorem disconnect_only_service_port ex s i cs g r g' tr :
  run (exec ex (ODisconnect s i) cs) g = (r, (g', tr)) ->
  forall x, In x tr ->
  exists p, In p (peer_cps g i) /\ type_of g p = T_ServicePort /\ U_cp g p true x.
Proof. intros E x Hx. exact (sound_exec ex (ODisconnect s i) cs g r g' tr E x Hx). Qed.

(* NetworkService.remove_interface: the handle's list afterwards is what a fresh look-up reports.
   Hypothesis: no two ports of the service are next to each other. *)
Theorem handles_remove_interface ex s nm c g cs' g' tr :
  run (exec ex (ORemoveInterface s nm) [c]) g = (inl cs', (g', tr)) ->
  class_of g s = CNS ->
  same c (cpn g s) ->
  (forall i y, In i (cpn g s) -> In y (cpn g s) -> ~ In y (cpn g i)) ->
  exists c', cs' = [c'] /\ same c' (cpn g' s).
Proof.
  intros E Hs Hc Hp. pose proof (frame_exec _ _ _ _ _ _ _ E) as Hg. subst g'.
  unfold run in E. simpl in E.
  apply bind_ok in E. destruct E as [c' [s1 [E E2]]]. apply ret_ok in E2. destruct E2 as [-> E2]. subst s1.
  exists c'. split; [reflexivity|].
  unfold api_remove_interface in E.
  apply bind_ok in E. destruct E as [[] [s1 [E1 E]]]. apply guard_ok in E1. destruct E1 as [_ ->].
  apply bind_ok in E. destruct E as [x0 [s1 [E1 E]]]. apply need_node_ok in E1. destruct E1 as [_ ->].
  apply bind_ok in E. destruct E as [[] [s1 [E1 E]]]. apply guard_ok in E1. destruct E1 as [_ ->].
  apply bind_ok in E. destruct E as [is_ [s1 [E1 E]]]. apply get_ok in E1. destruct E1 as [-> ->].
  apply bind_ok in E. destruct E as [i [s1 [E1 E]]]. apply uniq_ok in E1. destruct E1 as [Hi ->].
  apply bind_ok in E. destruct E as [[] [s1 [E1 E]]]. apply ret_ok in E. destruct E as [-> E]. subst s1.
  simpl in Hi.
  assert (Hic : In i (cpn g s)).
  { assert (Hin : In i (child_by_name g (first_neighbor g s RConnects CCP) nm)) by (rewrite Hi; left; reflexivity).
    unfold child_by_name in Hin. apply filter_In in Hin. tauto. }
  destruct (remove_cp_ok g i true _ _ (cons_init g) E1) as [_ [_ H]]. simpl in H.
  assert (Hst : ~ In s tr).
  { intros Hin. apply H in Hin. destruct Hin as [Hin|[]].
    destruct (del_list_cases g (g, []) i true s (cons_init g) Hin) as [Heq|[[_ Hn]|Hl]].
    - apply (cpn_class g s) in Hic. rewrite Heq in Hs. congruence.
    - apply (cpn_class g i) in Hn. congruence.
    - congruence. }
  intros y. simpl. rewrite (fresh_after g tr s y Hst), removeN_In, (Hc y). split.
  - intros [Hy Hne]. split; [exact Hy|]. intros Hin. apply H in Hin. destruct Hin as [Hin|[]].
    destruct (del_list_cases g (g, []) i true y (cons_init g) Hin) as [->|[[_ Hn]|Hl]].
    + apply Hne. reflexivity.
    + apply (Hp i y Hic Hy Hn).
    + apply (cpn_class g s) in Hy. congruence.
  - intros [Hy Hnt]. split; [exact Hy|]. intros ->. apply Hnt. apply H. left.
    apply cp_del_list_In. left. apply (in_family_cur (g, [])).
Qed.

(* Interface.remove_child_interface: the port handle's list afterwards is what a fresh look-up reports.
   Hypotheses: the port is not next to itself; a peer of one of its sub-interfaces has no neighbouring
   connection point and is neither the port nor one of its sub-interfaces (true of service ports). *)
Theorem handles_remove_child ex p nm c g cs' g' tr :
  run (exec ex (ORemoveChild p nm) [c]) g = (inl cs', (g', tr)) ->
  same c (cpn g p) ->
  ~ In p (cpn g p) ->
  (forall i x, In i (cpn g p) -> In x (peer_cps g i) -> cpn g x = [] /\ x <> p /\ ~ In x (cpn g p)) ->
  exists c', cs' = [c'] /\ same c' (cpn g' p).
Proof.
  intros E Hc Hpp Hp. pose proof (frame_exec _ _ _ _ _ _ _ E) as Hg. subst g'.
  unfold run in E. simpl in E.
  apply bind_ok in E. destruct E as [c' [s1 [E E2]]]. apply ret_ok in E2. destruct E2 as [-> E2]. subst s1.
  exists c'. split; [reflexivity|].
  unfold api_remove_child in E.
  apply bind_ok in E. destruct E as [x0 [s1 [E1 E]]]. apply need_node_ok in E1. destruct E1 as [F ->].
  apply bind_ok in E. destruct E as [[] [s1 [E1 E]]]. apply guard_ok in E1. destruct E1 as [_ ->].
  apply bind_ok in E. destruct E as [[] [s1 [E1 E]]]. apply guard_ok in E1. destruct E1 as [Hcl ->].
  apply bind_ok in E. destruct E as [is_ [s1 [E1 E]]]. apply get_ok in E1. destruct E1 as [-> ->].
  apply bind_ok in E. destruct E as [i [s1 [E1 E]]]. apply uniq_ok in E1. destruct E1 as [Hi ->].
  apply bind_ok in E. destruct E as [[] [s1 [E0 E]]].
  apply bind_ok in E. destruct E as [[] [s2 [E1 E]]]. apply ret_ok in E. destruct E as [-> E]. subst s2.
  simpl in Hi, F.
  assert (Hpc : class_of g p = CCP).
  { unfold class_of. rewrite F. destruct (ncls x0); simpl in Hcl; try discriminate; reflexivity. }
  assert (Hic : In i (cpn g p)).
  { assert (Hin : In i (child_by_name g (first_neighbor g p RConnects CCP) nm)) by (rewrite Hi; left; reflexivity).
    unfold child_by_name in Hin. apply filter_In in Hin. tauto. }
  assert (Hip : i <> p) by (intros ->; exact (Hpp Hic)).
  destruct (disconnect_peers_of_ok g i _ _ (cons_init g) E0) as [C1 [_ [_ Hd]]]. simpl in Hd.
  destruct (remove_cp_ok g i false _ _ C1 E1) as [_ [_ H2]]. simpl in H2.
  (* which connection points are in the trace *)
  assert (Hcp : forall z, class_of g z = CCP -> In z tr -> z = i \/ (In z (peer_cps g i))).
  { intros z Hz Hin. apply H2 in Hin. destruct Hin as [Hin|Hin].
    - destruct (del_list_cases g s1 i false z C1 Hin) as [->|[[Hf _]|Hl]]; [auto | discriminate | congruence].
    - destruct Hd as [Hd|[x [Hx1 [_ Hx3]]]]; [rewrite Hd in Hin; destruct Hin|].
      destruct (remove_cp_ok g x true _ _ (cons_init g) Hx3) as [_ [_ H1]]. simpl in H1.
      apply H1 in Hin. destruct Hin as [Hin|[]].
      destruct (Hp i x Hic Hx1) as [Hx0 _].
      right. rewrite (del_list_cp_only g (g, []) x z (cons_init g) Hx0 Hin Hz). exact Hx1. }
  assert (Hpt : ~ In p tr).
  { intros Hin. destruct (Hcp p Hpc Hin) as [Heq|Hx]; [congruence|].
    destruct (Hp i p Hic Hx) as [_ [Hne _]]. apply Hne. reflexivity. }
  intros y. simpl. rewrite (fresh_after g tr p y Hpt), removeN_In, (Hc y). split.
  - intros [Hy Hne]. split; [exact Hy|]. intros Hin.
    destruct (Hcp y (cpn_class g p y Hy) Hin) as [Heq|Hx]; [congruence|].
    destruct (Hp i y Hic Hx) as [_ [_ Hn]]. exact (Hn Hy).
  - intros [Hy Hnt]. split; [exact Hy|]. intros ->. apply Hnt. apply H2. left.
    apply cp_del_list_In. left. apply in_family_cur.
Qed.

(* Topology.remove_link (fix 65db950): a link that carries a ServicePort was made by connect_interface / peer;
   the call raises and nothing changes *)
Theorem remove_link_refuses_peering_link ex nm cs g r g' tr :
  run (exec ex (ORemoveLink nm) cs) g = (r, (g', tr)) ->
  (forall l, In l (by_name g CLink nm) -> link_has_service_port g l = true) ->
  (exists e, r = inr e) /\ tr = [] /\ g' = g.
Proof.
  intros E H. unfold run in E. simpl in E. unfold bind, api_remove_link, bind, m_get, uniq in E. simpl in E.
  destruct (by_name g CLink nm) as [|l [|l' r0]] eqn:Eb; simpl in E; try (inversion E; eauto; fail).
  rewrite (H l (or_introl eq_refl)) in E. simpl in E. inversion E; eauto.
Qed.

(* ---- the handle's cached list never influences what happens to the model ---- *)
Definition err_of {A} (r : A + exn) : option exn := match r with inl _ => None | inr e => Some e end.
Definition same_eff {A B} (r : (A + exn) * st) (r' : (B + exn) * st) : Prop :=
  snd r = snd r' /\ err_of (fst r) = err_of (fst r').

Lemma same_eff_refl {A} (r : (A + exn) * st) : same_eff r r.
Proof. split; reflexivity. Qed.

Lemma same_eff_ret {A B} (a : A) (b : B) s : same_eff (ret a s) (ret b s).
Proof. split; reflexivity. Qed.

Lemma same_eff_bind {A B B'} (m : M A) (f : A -> M B) (f' : A -> M B') :
  (forall x s, same_eff (f x s) (f' x s)) -> forall s, same_eff (bind m f s) (bind m f' s).
Proof. intros H s. unfold bind. destruct (m s) as [[x|e] s1]; [apply H | split; reflexivity]. Qed.

Lemma same_eff_then_ret {A A' B B'} (m : M A) (m' : M A') (h : A -> B) (h' : A' -> B') s :
  same_eff (m s) (m' s) -> same_eff (bind m (fun x => ret (h x)) s) (bind m' (fun x => ret (h' x)) s).
Proof.
  unfold bind, ret, same_eff. destruct (m s) as [[x|e] s1], (m' s) as [[x'|e'] s1']; simpl;
    intros [H1 H2]; split; try assumption; try discriminate; reflexivity.
Qed.

Lemma eff_api_disconnect i c c' s : same_eff (api_disconnect i c s) (api_disconnect i c' s).
Proof.
  unfold api_disconnect. apply same_eff_bind. intros r t. destruct r; apply same_eff_ret.
Qed.

Lemma eff_api_remove_interface ex s0 nm c c' s :
  same_eff (api_remove_interface ex s0 nm c s) (api_remove_interface ex s0 nm c' s).
Proof. unfold api_remove_interface. repeat (apply same_eff_bind; intros). apply same_eff_ret. Qed.

Lemma eff_api_remove_child p nm c c' s :
  same_eff (api_remove_child p nm c s) (api_remove_child p nm c' s).
Proof. unfold api_remove_child. repeat (apply same_eff_bind; intros). apply same_eff_ret. Qed.

Lemma eff_api_unpeer a b ca cb ca' cb' s :
  same_eff (api_unpeer a b ca cb s) (api_unpeer a b ca' cb' s).
Proof.
  unfold api_unpeer. apply same_eff_bind. intros _ s1. apply same_eff_bind. intros _ s2.
  apply same_eff_bind. intros e s3. destruct e as [[|xy [|xy' l]]|]; try apply same_eff_refl.
  unfold api_unpeer_checked, api_unpeer_with. repeat (apply same_eff_bind; intros). apply same_eff_ret.
Qed.

Lemma eff_api_unpeer6 a b ca cb ca' cb' s :
  same_eff (api_unpeer6 a b ca cb s) (api_unpeer6 a b ca' cb' s).
Proof.
  unfold api_unpeer6. apply same_eff_bind. intros x s1. apply same_eff_bind. intros _ s2.
  apply same_eff_bind. intros ps s3. destruct ps as [|p ps']; [apply same_eff_refl|].
  apply same_eff_bind. intros _ s4. apply same_eff_ret.
Qed.

Theorem cache_independent ex o cs cs' g : same_eff (run (exec ex o cs) g) (run (exec ex o cs') g).
Proof.
  unfold run. destruct o; simpl;
    try (apply same_eff_bind; intros; apply same_eff_ret).
  - apply (same_eff_then_ret _ _ (fun c => [c]) (fun c => [c])). apply eff_api_disconnect.
  - apply (same_eff_then_ret _ _ (fun cc => [fst cc; snd cc]) (fun cc => [fst cc; snd cc])). apply eff_api_unpeer.
  - apply (same_eff_then_ret _ _ (fun cc => [fst cc; snd cc]) (fun cc => [fst cc; snd cc])). apply eff_api_unpeer6.
  - apply (same_eff_then_ret _ _ (fun c => [c]) (fun c => [c])). apply eff_api_remove_interface.
  - apply (same_eff_then_ret _ _ (fun c => [c]) (fun c => [c])). apply eff_api_remove_child.
Qed.

(* ================= unpeer as rewritten by proposed_fixes/C08-6 (operation OUnpeer6) ================= *)

Lemma class_has g x c : class_of g x = c -> c <> COther -> has_node g x = true.
Proof. unfold class_of, has_node. destruct (find_node g x); [reflexivity | intros <- H; exfalso; apply H; reflexivity]. Qed.

Lemma has_node_delete g n x : x <> n -> has_node (delete g n) x = has_node g x.
Proof.
  intros H. replace (delete g n) with (restrict g [n]).
  - rewrite has_node_restrict. simpl. destruct (N.eqb x n) eqn:E; [apply N.eqb_eq in E; contradiction | reflexivity].
  - rewrite <- (restrict_nil g) at 2. symmetry. apply delete_restrict.
Qed.

Lemma for_each_delete_succeeds l : forall (s : st),
  NoDup l -> (forall x, In x l -> has_node (fst s) x = true) -> exists s', for_each m_delete l s = (inl tt, s').
Proof.
  induction l as [|a l IH]; intros s Hn Hh; simpl.
  - exists s. reflexivity.
  - unfold bind, m_delete. rewrite (Hh a (or_introl eq_refl)). inversion Hn as [|? ? Ha Hn']; subst.
    apply (IH (delete (fst s) a, a :: snd s) Hn'). intros x Hx. simpl.
    rewrite has_node_delete; [apply Hh; right; exact Hx | intros ->; exact (Ha Hx)].
Qed.

Lemma cp_del_list_has g n dp x : has_node g n = true -> In x (cp_del_list g n dp) -> has_node g x = true.
Proof.
  intros Hn Hx. apply cp_del_list_In in Hx. destruct Hx as [Hx|Hx].
  - unfold cp_family in Hx. rewrite dedup_In in Hx. destruct Hx as [<-|Hx]; [exact Hn|].
    apply filter_In in Hx. destruct Hx as [Hx _]. apply first_neighbor_In in Hx. destruct Hx as [_ Hx].
    apply (class_has g x CCP Hx). discriminate.
  - apply cp_links_In in Hx. destruct Hx as [i [_ [Hx _]]]. apply first_neighbor_In in Hx. destruct Hx as [_ Hx].
    apply (class_has g x CLink Hx). discriminate.
Qed.

(* remove_cp_and_links on a node that is there always returns normally *)
Lemma remove_cp_succeeds n dp (s : st) : has_node (fst s) n = true -> exists s', remove_cp_and_links n dp s = (inl tt, s').
Proof.
  intros Hn. unfold remove_cp_and_links, bind, m_nonempty, need_node, m_read, m_get.
  assert (Hne : gnodes (fst s) <> []).
  { unfold has_node, find_node in Hn. destruct (gnodes (fst s)); [discriminate | discriminate]. }
  destruct (gnodes (fst s)) eqn:Eg; [contradiction|]. simpl.
  unfold has_node in Hn. destruct (find_node (fst s) n) eqn:Ef; [|discriminate]. simpl.
  unfold for_each_set.
  destruct (for_each_delete_succeeds (cp_del_list (fst s) n dp) s) as [s' Hs'].
  - unfold cp_del_list. apply dedup_NoDup.
  - intros x Hx. apply (cp_del_list_has (fst s) n dp x); [unfold has_node; rewrite Ef; reflexivity | exact Hx].
  - exists s'. rewrite Hs'. reflexivity.
Qed.

Lemma remove_if_there_succeeds c (s : st) : exists s', remove_if_there c s = (inl tt, s').
Proof.
  unfold remove_if_there, bind, m_get. simpl.
  destruct (has_node (fst s) c && cls_eqb (class_of (fst s) c) CCP) eqn:Eb.
  - apply andb_true_iff in Eb. destruct Eb as [Hh _]. apply remove_cp_succeeds. exact Hh.
  - exists s. reflexivity.
Qed.

Lemma for_each_succeeds {A} (f : A -> M unit) l :
  (forall x s, exists s', f x s = (inl tt, s')) -> forall s, exists s', for_each f l s = (inl tt, s').
Proof.
  intros H. induction l as [|a l IH]; intros s; simpl; [exists s; reflexivity|].
  unfold bind. destruct (H a s) as [s1 E]. rewrite E. apply IH.
Qed.

(* unpeer (C08-6) succeeds exactly when a peering pair exists *)
Theorem unpeer6_succeeds_iff ex a b cs g :
  class_of g a = CNS ->
  ((exists cs' g' tr, run (exec ex (OUnpeer6 a b) cs) g = (inl cs', (g', tr))) <-> unpeer_pairs g a b <> []).
Proof.
  intros Ha. assert (Hh : has_node g a = true) by (apply (class_has g a CNS Ha); discriminate).
  unfold run. simpl. unfold bind at 1. unfold api_unpeer6, bind, need_node, m_read, m_get, guard. simpl.
  unfold has_node in Hh. unfold class_of in Ha. destruct (find_node g a) as [xa|] eqn:Ef; [|discriminate].
  rewrite Ha. simpl.
  destruct (unpeer_pairs g a b) as [|p0 ps'] eqn:U; simpl.
  - split; [intros [cs' [g' [tr E]]]; discriminate | intros H; exfalso; apply H; reflexivity].
  - split; [intros _; discriminate|]. intros _.
    destruct (for_each_succeeds remove_if_there (unpeer6_ends (p0 :: ps')) remove_if_there_succeeds (g, [])) as [s' E].
    unfold for_each_set. rewrite E. simpl. destruct s' as [g' tr]. unfold ret. eauto.
Qed.

(* without a peering pair: "do not peer", nothing changes *)
Theorem unpeer6_not_peered ex a b cs g r g' tr :
  run (exec ex (OUnpeer6 a b) cs) g = (r, (g', tr)) -> unpeer_pairs g a b = [] ->
  (exists e, r = inr e) /\ tr = [] /\ g' = g.
Proof.
  intros E U. unfold run in E. simpl in E. unfold bind, api_unpeer6, bind, need_node, m_read, m_get, guard in E. simpl in E.
  destruct (find_node g a) as [xa|]; [|inversion E; eauto]. simpl in E.
  destruct (cls_eqb (ncls xa) CNS || cls_eqb (ncls xa) CLink); simpl in E; [|inversion E; eauto].
  rewrite U in E. simpl in E. inversion E; eauto.
Qed.

(* it removes exactly the peering: every end of every pair is deleted (normal return), and whatever is deleted is such
   an end, a connection point next to one, or a link attached to them; the two-ended links go by links2_exec *)
Theorem unpeer6_removes_exactly ex a b cs g r g' tr :
  run (exec ex (OUnpeer6 a b) cs) g = (inl r, (g', tr)) ->
  (forall xy, In xy (unpeer_pairs g a b) -> In (fst xy) tr /\ In (snd xy) tr) /\
  (forall x, In x tr -> exists xy, In xy (unpeer_pairs g a b) /\ (U_cp g (fst xy) true x \/ U_cp g (snd xy) true x)).
Proof.
  intros E. split.
  - intros xy Hxy. split; apply (target_exec _ _ _ _ _ _ _ E); simpl; exists xy; auto.
  - intros x Hx. exact (sound_exec _ _ _ _ _ _ _ E x Hx).
Qed.

(* handle lists after unpeer (C08-6) = fresh look-ups; hypotheses: the ends have no neighbouring connection point, and
   an end on b's side is not a port of a and vice versa *)
Theorem handles_unpeer6 ex a b ca cb g cs' g' tr :
  run (exec ex (OUnpeer6 a b) [ca; cb]) g = (inl cs', (g', tr)) ->
  class_of g a = CNS -> class_of g b = CNS ->
  same ca (cpn g a) -> same cb (cpn g b) ->
  (forall xy, In xy (unpeer_pairs g a b) ->
     cpn g (fst xy) = [] /\ cpn g (snd xy) = [] /\ ~ In (snd xy) (cpn g a) /\ ~ In (fst xy) (cpn g b)) ->
  exists ca' cb', cs' = [ca'; cb'] /\ same ca' (cpn g' a) /\ same cb' (cpn g' b).
Proof.
  intros E Ha Hb Hca Hcb Hp.
  pose proof (frame_exec _ _ _ _ _ _ _ E) as Hg.
  destruct (unpeer6_removes_exactly _ _ _ _ _ _ _ _ E) as [Htar Hsnd].
  (* a connection point in the trace is an end; a service is never in the trace *)
  assert (Hcp : forall z, class_of g z = CCP -> In z tr -> exists xy, In xy (unpeer_pairs g a b) /\ (z = fst xy \/ z = snd xy)).
  { intros z Hz Hin. destruct (Hsnd z Hin) as [xy [Hxy HU]]. exists xy. split; [exact Hxy|].
    destruct (Hp xy Hxy) as [H1 [H2 _]].
    destruct HU as [[[->|[_ Hn]]|[i [[->|[_ Hi]] Hl]]]|[[->|[_ Hn]]|[i [[->|[_ Hi]] Hl]]]]; auto;
      try (unfold cpn in *; rewrite H1 in *; contradiction); try (unfold cpn in *; rewrite H2 in *; contradiction);
      try (unfold lks in Hl; apply first_neighbor_In in Hl; destruct Hl as [_ Hl]; congruence). }
  assert (Hns : forall s, class_of g s = CNS -> ~ In s tr).
  { intros s Hs Hin. destruct (Hsnd s Hin) as [xy [Hxy HU]].
    destruct (unpeer_pairs_class g a b xy Hxy) as [C1 C2]. destruct (Hp xy Hxy) as [H1 [H2 _]].
    destruct HU as [[[->|[_ Hn]]|[i [_ Hl]]]|[[->|[_ Hn]]|[i [_ Hl]]]]; try congruence;
      try (apply cpn_class in Hn; congruence);
      try (unfold lks in Hl; apply first_neighbor_In in Hl; destruct Hl as [_ Hl]; congruence). }
  (* the returned caches *)
  unfold run in E. simpl in E.
  apply bind_ok in E. destruct E as [cc [s1 [E E2]]]. apply ret_ok in E2. destruct E2 as [-> E2]. subst s1.
  exists (fst cc), (snd cc). split; [reflexivity|].
  unfold api_unpeer6 in E.
  apply bind_ok in E. destruct E as [x0 [s0 [E1 E]]]. apply need_node_ok in E1. destruct E1 as [_ ->].
  apply bind_ok in E. destruct E as [[] [s0 [E1 E]]]. apply guard_ok in E1. destruct E1 as [_ ->].
  apply bind_ok in E. destruct E as [ps [s0 [E1 E]]]. apply get_ok in E1. destruct E1 as [-> ->].
  simpl in E. destruct (unpeer_pairs g a b) as [|p0 ps'] eqn:U; [discriminate|].
  apply bind_ok in E. destruct E as [[] [s1 [E1 E]]]. apply ret_ok in E. destruct E as [-> _]. cbn [fst snd].
  subst g'. split.
  - intros z. rewrite (fresh_after g tr a z (Hns a Ha)), filter_In, negb_true_iff, (Hca z). split.
    + intros [Hz Hm]. split; [exact Hz|]. intros Hin.
      destruct (Hcp z (cpn_class g a z Hz) Hin) as [xy [Hxy [->| ->]]].
      * assert (memN (fst xy) (map fst (p0 :: ps')) = true) by (apply memN_In; apply in_map; exact Hxy). congruence.
      * destruct (Hp xy Hxy) as [_ [_ [H3 _]]]. exact (H3 Hz).
    + intros [Hz Hnt]. split; [exact Hz|]. apply memN_false. intros Hin. apply in_map_iff in Hin.
      destruct Hin as [xy [<- Hxy]]. apply Hnt. apply (Htar xy Hxy).
  - intros z. rewrite (fresh_after g tr b z (Hns b Hb)), filter_In, negb_true_iff, (Hcb z). split.
    + intros [Hz Hm]. split; [exact Hz|]. intros Hin.
      destruct (Hcp z (cpn_class g b z Hz) Hin) as [xy [Hxy [->| ->]]].
      * destruct (Hp xy Hxy) as [_ [_ [_ H4]]]. exact (H4 Hz).
      * assert (memN (snd xy) (map snd (p0 :: ps')) = true) by (apply memN_In; apply in_map; exact Hxy). congruence.
    + intros [Hz Hnt]. split; [exact Hz|]. apply memN_false. intros Hin. apply in_map_iff in Hin.
      destruct Hin as [xy [<- Hxy]]. apply Hnt. apply (Htar xy Hxy).
Qed.

(* C07 - connect_interface: the new service port and its link are built as one unit; the call keeps the graph
   well-formed when it returns or refuses, the only other outcomes being the three failures between the two
   constructions (id generator / duplicate id / link name too long), which leave a port without link. *)
From Coq Require Import String List NArith ZArith Bool Arith Lia.
From FIM Require Import Base.Str Gen.Rules Model.T7Graph Model.T7Ops Model.T7WF Model.T7Steps Model.T7Rel
     Proofs.T7Tables Proofs.T7WFRefl Proofs.T7Frame Proofs.T7Units Proofs.T7Api Proofs.T7Api2 Proofs.T7Api3
     Proofs.T7RelUnits Proofs.T7RelRun Proofs.T7RelCp Proofs.T7Api4 Proofs.T7RelAdd.
Import ListNotations.

Lemma reads_parent_of_comp c : reads (parent_of_comp c).
Proof. unfold parent_of_comp. apply reads_bind; [auto with reads|]. intros [[nm id]|]; auto with reads. Qed.
Lemma reads_parent_of_ns x : reads (parent_of_ns x).
Proof.
  unfold parent_of_ns. apply reads_bind; [auto with reads|]. intros [[nm id]|]; [auto with reads|].
  apply reads_bind; [auto with reads|]. intros [[nm id]|]; [auto with reads|].
  apply reads_bind; [auto with reads|]. intros [[nm id]|]; auto with reads.
Qed.
Lemma reads_owner_of_ns x : reads (owner_of_ns x).
Proof.
  unfold owner_of_ns. apply reads_bind; [apply reads_parent_of_ns|]. intros [[ ]|]; auto with reads;
  (apply reads_bind; [apply reads_parent_of_comp | intro; apply reads_ret]).
Qed.
Lemma reads_owner_of_iface f : forall i, reads (owner_of_iface f i).
Proof.
  induction f as [|f IH]; intro i; simpl; [apply reads_raise|].
  apply reads_bind; [auto with reads|]. intros [ | | | ]; try apply reads_owner_of_ns. apply IH.
Qed.
Lemma reads_q_second_nb x r k1 k2 : reads (q_second_nb x r k1 k2).
Proof. unfold q_second_nb. auto 8 with reads. Qed.
Lemma reads_find_peers i : reads (find_peers i).
Proof. unfold find_peers. apply reads_bind; [apply reads_q_second_nb | intro; apply reads_ret]. Qed.
Lemma reads_cps_of_ns_or_link x : reads (cps_of_ns_or_link x).
Proof. unfold cps_of_ns_or_link. auto 8 with reads. Qed.
#[export] Hint Resolve reads_parent_of_comp reads_parent_of_ns reads_owner_of_ns reads_owner_of_iface reads_q_second_nb
  reads_find_peers reads_cps_of_ns_or_link : reads.

Lemma cps_of_ns_or_link_val x s s' l :
  cps_of_ns_or_link x s = (s', Ok l) -> s' = s /\ l = first_nb (sg s) x Connects KCP.
Proof.
  unfold cps_of_ns_or_link. intro H. apply bind_inv in H as [[s1 [[] [H1 H2]]]|[e [_ H]]]; [|discriminate].
  apply check_class_val in H1 as [-> _]. apply q_first_nb_val in H2 as [-> [-> _]]. auto.
Qed.

(* element + owner edge as a run, without any judgement about well-formedness *)
Lemma add_owned_run n a rl s s' r :
  NoDup (map nid (gnodes (sg s))) -> has_id (sg s) a = true ->
  bind (add_node n) (fun _ => add_link a rl (nid n)) s = (s', r) ->
  (r = Ok tt /\ has_id (sg s) (nid n) = false /\ sg s' = add_owned (sg s) n a rl) \/ (exists e, r = Err e /\ sg s' = sg s).
Proof.
  intros ND Ha H. apply bind_inv in H as [[s1 [[] [H1 H2]]]|[e [H1 Hr]]].
  - apply add_node_inv in H1 as [[_ [Hf Hg]]|[e [He _]]]; [|discriminate].
    apply add_link_inv_ok in H2.
    + destruct H2 as [-> Hg2]. left. rewrite Hg2, Hg. auto.
    + rewrite Hg. apply nodup_add_node; assumption.
    + rewrite Hg, has_id_add_node, Ha. reflexivity.
    + rewrite Hg, has_id_add_node, str_eqb_refl. apply orb_true_r.
  - apply add_node_inv in H1 as [[H1 _]|[e' [_ Hg]]]; [discriminate|]. right. exists e. auto.
Qed.

(* peel a reading prefix; the failing branch (graph unchanged) is closed by `left` *)
Ltac peell H W :=
  apply bind_reads in H; [| solve [auto 8 with reads]];
  let s1 := fresh "s" in let a := fresh "a" in let Hm := fresh "Hm" in let Hg := fresh "Hg" in
  let e := fresh "e" in let Hr := fresh "Hr" in
  destruct H as [[s1 [a [Hm [Hg H]]]] | [e [Hr Hg]]]; [| left; rewrite Hg; exact W];
  first [ apply getg_val in Hm; destruct Hm as [-> ->]; clear Hg
        | apply guard_ok_val' in Hm; destruct Hm as [-> Hm]; clear Hg
        | apply check_node_unique_val in Hm; destruct Hm as [-> Hm]; clear Hg
        | apply cps_of_ns_or_link_val in Hm; destruct Hm as [-> ->]; clear Hg
        | apply type_is_val in Hm; destruct Hm as [-> ->]; clear Hg
        | rewrite <- Hg in *; clear Hg ].
(* ... once the port exists: the failing branch is one of the late failures *)
Ltac peelr H :=
  apply bind_reads in H; [| solve [auto 8 with reads]];
  let s1 := fresh "s" in let a := fresh "a" in let Hm := fresh "Hm" in let Hg := fresh "Hg" in
  let e := fresh "e" in let Hr := fresh "Hr" in
  destruct H as [[s1 [a [Hm [Hg H]]]] | [e [Hr Hg]]];
  [ first [ apply getg_val in Hm; destruct Hm as [-> ->]; clear Hg
          | apply guard_ok_val' in Hm; destruct Hm as [-> Hm]; clear Hg
          | rewrite <- Hg in *; clear Hg ] | ].

(* the failures that can happen between the construction of the port and the construction of its link *)
Definition late (r : res unit) : Prop := r = Err ENoDraw \/ r = Err EQuery \/ r = Err EValue.
Definition late' {A} (r : res A) : Prop := r = Err ENoDraw \/ r = Err EQuery \/ r = Err EValue.

Lemma draw_err s s' e : draw s = (s', Err e) -> e = ENoDraw.
Proof. unfold draw. destruct (sdr s); intro H; inversion H. reflexivity. Qed.
Lemma find1_err x s s' e : find1 x s = (s', Err e) -> e = EQuery.
Proof.
  unfold find1. intro H. apply bind_inv in H as [[s1 [g [H1 H2]]]|[e' [H1 _]]].
  - destruct (find_nodes g x) as [|n [|m l]]; try (apply raise_inv in H2 as [_ H2]; congruence).
    apply ret_inv in H2 as [_ H2]. discriminate.
  - apply getg_inv in H1 as [_ H1]. discriminate.
Qed.
Lemma add_node_err n s s' e : add_node n s = (s', Err e) -> e = EQuery.
Proof.
  unfold add_node. intro H. apply bind_inv in H as [[s1 [g [H1 H2]]]|[e' [H1 _]]].
  - apply bind_inv in H2 as [[s2 [[] [H2 H3]]]|[e' [H2 Hr]]].
    + apply putg_inv in H3 as [_ H3]. discriminate.
    + apply guard_inv in H2 as [_ [[_ H2]|[_ H2]]]; congruence.
  - apply getg_inv in H1 as [_ H1]. discriminate.
Qed.
Lemma guard_err b e s s' ex : guard b e s = (s', Err ex) -> ex = e.
Proof. intros H. apply guard_inv in H as [_ [[_ H]|[_ H]]]; congruence. Qed.

(* Interface(NEW) for a service port, as a run *)
Lemma new_sp_run sub name parent s s' r :
  NoDup (map nid (gnodes (sg s))) -> has_id (sg s) parent = true ->
  new_interface sub name None parent sServicePort false s = (s', r) ->
  (exists id, r = Ok id /\ sub = false /\ has_id (sg s) id = false /\
              sg s' = add_owned (sg s) (mk id KCP (Some sServicePort) name false) parent Connects) \/
  (exists e, r = Err e /\ sg s' = sg s).
Proof.
  intros ND Hp H. unfold new_interface in H.
  apply bind_reads in H; [|auto with reads]. destruct H as [[s1 [[] [Hm [Hg H]]]]|[e [Hr Hg]]]; [|right; eauto].
  apply guard_ok_val in Hm as [-> Hm]. clear Hg.
  assert (Hsub : sub = false) by (destruct sub; [discriminate Hm | reflexivity]).
  apply bind_reads in H; [|auto with reads]. destruct H as [[s1 [id [_ [Hg H]]]]|[e [Hr Hg]]]; [|right; eauto].
  apply bind_reads in H; [|auto with reads]. destruct H as [[s2 [[] [_ [Hg2 H]]]]|[e [Hr Hg2]]]; [|right; exists e; split; [exact Hr | congruence]].
  apply bind_inv in H as [[s3 [[] [H1 H2]]]|[e [H1 Hr]]].
  - apply ret_inv in H2 as [-> ->]. unfold add_interface_sliver in H1.
    apply add_owned_run in H1; [| rewrite Hg2, Hg; exact ND | rewrite Hg2, Hg; exact Hp].
    destruct H1 as [[_ [Hf Hq]]|[e [He _]]]; [|discriminate]. left. exists id. rewrite Hg2, Hg in *. auto.
  - unfold add_interface_sliver in H1.
    apply add_owned_run in H1; [| rewrite Hg2, Hg; exact ND | rewrite Hg2, Hg; exact Hp].
    destruct H1 as [[H1 _]|[e' [_ Hq]]]; [discriminate|]. right. exists e. split; [exact Hr | congruence].
Qed.

Lemma props_loop_err : forall (l : list str) s s' e, for_each l (fun i => props i ;;; ret tt) s = (s', Err e) -> e = EQuery.
Proof.
  induction l as [|x l IH]; simpl; intros s s' e H.
  - apply ret_inv in H as [_ H]. discriminate.
  - apply bind_inv in H as [[s1 [[] [H1 H2]]]|[e' [H1 Hr]]].
    + eapply IH; eauto.
    + inversion Hr; subst e'. apply bind_inv in H1 as [[s2 [n [H2 H3]]]|[e' [H2 Hr']]].
      * apply ret_inv in H3 as [_ H3]. discriminate.
      * inversion Hr'; subst e'. eapply find1_err; eauto.
Qed.

(* Link(NEW) on a pair of interfaces, as a run *)
Lemma new_link_pair_run sub name ltype a b s s' r :
  NoDup (map nid (gnodes (sg s))) -> has_id (sg s) a = true -> has_id (sg s) b = true ->
  new_link sub name None ltype [a; b] s = (s', r) ->
  (exists id, r = Ok id /\ has_id (sg s) id = false /\
     sg s' = g_add_edge (g_add_edge (g_add_node (sg s) (mk id KLink (Some ltype) name false)) id Connects a) id Connects b) \/
  (sg s' = sg s /\ (late' r \/ (r = Err ETopology /\ sub = true))).
Proof.
  intros ND Ha Hb H. unfold new_link in H.
  apply bind_inv in H as [[s1 [[] [H1 H]]]|[e [H1 Hr]]];
    [| right; split; [eapply reads_guard; eauto|]; right;
       destruct sub; [| apply ret_inv in H1 as [_ H1]; discriminate H1]; apply guard_err in H1; subst e; auto ].
  apply guard_ok_val in H1 as [-> _].
  apply bind_inv in H as [[s1 [id [H1 H]]]|[e [H1 Hr]]];
    [| right; split; [eapply reads_draw; eauto|]; left; apply draw_err in H1; subst e; left; exact Hr].
  assert (G1 : sg s1 = sg s) by (eapply reads_draw; eauto). clear H1.
  apply bind_inv in H as [[s2 [[] [H1 H]]]|[e [H1 Hr]]]; [| apply guard_inv in H1 as [_ [[_ H1]|[H1 _]]]; discriminate ].
  apply guard_ok_val in H1 as [-> _].
  apply bind_inv in H as [[s2 [[] [H1 H]]]|[e [H1 Hr]]];
    [| right; split; [rewrite <- G1; eapply reads_check_name; eauto|]; left; apply guard_err in H1; subst e; right; right; exact Hr].
  apply guard_ok_val in H1 as [-> _].
  assert (R : reads (for_each [a; b] (fun i => props i ;;; ret tt))) by auto 8 with reads.
  apply bind_inv in H as [[s2 [[] [H1 H]]]|[e [H1 Hr]]].
  2:{ right. split; [rewrite <- G1; eapply R; eauto|]. left. right. left. rewrite Hr. f_equal. eapply props_loop_err; eauto. }
  assert (G2 : sg s2 = sg s1) by (eapply R; eauto). clear H1.
  apply bind_inv in H as [[s3 [[] [H1 H]]]|[e [H1 Hr]]].
  2:{ right. split.
      - apply add_node_inv in H1 as [[X _]|[e' [_ Hq]]]; [discriminate | congruence].
      - left. right. left. rewrite Hr. f_equal. eapply add_node_err; eauto. }
  apply add_node_inv in H1 as [[_ [Hf Hq]]|[e [He _]]]; [|discriminate].
  rewrite G2, G1 in Hf, Hq. simpl in Hf.
  assert (ND3 : NoDup (map nid (gnodes (sg s3)))) by (rewrite Hq; apply nodup_add_node; assumption).
  assert (Hid3 : has_id (sg s3) id = true) by (rewrite Hq, has_id_add_node; simpl; rewrite str_eqb_refl; apply orb_true_r).
  simpl in H.
  apply bind_inv in H as [[s4 [[] [H1 H]]]|[e [H1 Hr]]].
  2:{ exfalso. apply bind_inv in H1 as [[s5 [[] [H2 H3]]]|[e' [H2 Hr']]].
      - apply add_link_inv_ok in H2 as [_ Hq5]; [| exact ND3 | exact Hid3 | rewrite Hq, has_id_add_node, Ha; reflexivity].
        apply bind_inv in H3 as [[s6 [[] [H4 H5]]]|[e' [H4 Hr']]].
        + apply ret_inv in H5 as [_ H5]. discriminate.
        + apply add_link_inv_ok in H4 as [H4 _]; [discriminate | | | ].
          * rewrite Hq5. exact ND3.
          * rewrite Hq5, has_id_add_edge. exact Hid3.
          * rewrite Hq5, has_id_add_edge, Hq, has_id_add_node, Hb. reflexivity.
      - apply add_link_inv_ok in H2 as [H2 _]; [discriminate | exact ND3 | exact Hid3 | rewrite Hq, has_id_add_node, Ha; reflexivity]. }
  apply ret_inv in H as [-> ->].
  apply bind_inv in H1 as [[s5 [[] [H2 H3]]]|[e' [_ Hr']]]; [|discriminate].
  apply add_link_inv_ok in H2 as [_ Hq5]; [| exact ND3 | exact Hid3 | rewrite Hq, has_id_add_node, Ha; reflexivity].
  apply bind_inv in H3 as [[s6 [[] [H4 H5]]]|[e' [_ Hr']]]; [|discriminate].
  apply ret_inv in H5 as [-> _].
  apply add_link_inv_ok in H4 as [_ Hq6].
  - left. exists id. split; [reflexivity|]. split; [exact Hf|]. rewrite Hq6, Hq5, Hq. reflexivity.
  - rewrite Hq5. exact ND3.
  - rewrite Hq5, has_id_add_edge. exact Hid3.
  - rewrite Hq5, has_id_add_edge, Hq, has_id_add_node, Hb. reflexivity.
Qed.


Lemma type_is_err x t s s' e : type_is x t s = (s', Err e) -> e = EQuery.
Proof.
  unfold type_is, type_of_handle. intro H. apply bind_inv in H as [[s1 [o [H1 H2]]]|[e' [H1 Hr]]].
  - apply ret_inv in H2 as [_ H2]. discriminate.
  - inversion Hr; subst e'. apply bind_inv in H1 as [[s2 [n [H2 H3]]]|[e' [H2 Hr']]].
    + apply ret_inv in H3 as [_ H3]. discriminate.
    + inversion Hr'; subst e'. eapply find1_err; eauto.
Qed.

(* taking a freshly added owned element away again gives back the graph *)
Lemma remove_add_owned g n a r :
  sane g -> has_id g (nid n) = false ->
  remove_set (add_owned g n a r) (fun y => mem_str y [nid n]) = g.
Proof.
  intros [ND HE] Hf. destruct g as [ns es]. unfold remove_set, add_owned, g_add_edge, g_add_node. simpl in *. f_equal.
  - rewrite filter_app. simpl. rewrite str_eqb_refl. simpl. rewrite app_nil_r. apply filter_id.
    intros m Hm. destruct (str_eqb (nid m) (nid n)) eqn:E; [|reflexivity]. exfalso. apply str_eqb_eq in E.
    assert (has_id (mkG ns es) (nid n) = true) by (apply has_id_In; exists m; auto). congruence.
  - rewrite filter_app. simpl. rewrite str_eqb_refl. simpl. rewrite andb_false_r. simpl. rewrite app_nil_r.
    assert (Hends : forall e, In e es -> str_eqb (ea e) (nid n) = false /\ str_eqb (eb e) (nid n) = false).
    { intros e He. destruct (HE e He) as [[m1 [M1 E1]] [m2 [M2 E2]]]. split; apply str_eqb_neq; intro E.
      - assert (has_id (mkG ns es) (nid n) = true) by (apply has_id_In; exists m1; split; [exact M1 | congruence]). congruence.
      - assert (has_id (mkG ns es) (nid n) = true) by (apply has_id_In; exists m2; split; [exact M2 | congruence]). congruence. }
    rewrite (filter_id _ es).
    + apply filter_id. intros e He. destruct (Hends e He) as [E1 E2]. rewrite E1, E2. reflexivity.
    + intros e He. destruct (Hends e He) as [E1 E2]. unfold same_ends. apply negb_true_iff.
      rewrite E1, E2, !andb_false_r. reflexivity.
Qed.

(* the handler of peer: remove_cp_and_links on a service port that has just been added takes away exactly that port *)
Lemma undo_owned_port ep g sp s st e st' (r : res unit) :
  WFr no_exempt ep g -> owned_okR g sp s Connects = true -> ep (nid sp) = true -> cls_is g s KNS = true ->
  sg st = add_owned g sp s Connects ->
  (remove_cp_and_links (nid sp) true ;;; raise e) st = (st', r) -> sg st' = g /\ r = Err e.
Proof.
  intros W OK He Cs Hq H.
  pose proof (WFr_add_owned _ _ _ _ _ W OK (fun _ _ => He)) as W1.
  pose proof (aw_freshR _ _ _ _ OK) as Hf.
  assert (Hne : s <> nid sp) by (intro E; rewrite <- E in Hf; rewrite (cls_is_has_id _ _ _ Cs) in Hf; discriminate).
  assert (N1 : nbrs (add_owned g sp s Connects) (nid sp) = [(s, Connects)]) by (apply (ao_nbrs_xR _ _ _ _ _ W OK)).
  assert (F1 : forall k, k <> KNS -> first_nb (add_owned g sp s Connects) (nid sp) Connects k = []).
  { intros k Hk. unfold first_nb. rewrite N1. simpl. rewrite (ao_cls_old _ _ _ _ _ _ Hne), (cls_is_unique _ _ _ k Cs) by congruence. reflexivity. }
  assert (D : D_cp (add_owned g sp s Connects) (nid sp) true = [nid sp]).
  { unfold D_cp, cp_links, cp_ifs, cp_extra. rewrite (F1 KCP) by discriminate. simpl. rewrite (F1 KLink) by discriminate. reflexivity. }
  apply bind_inv in H as [[s1 [[] [H1 H2]]]|[e' [H1 Hr]]].
  - rewrite cp_unit_run in H1.
    + inversion H1; subst s1. clear H1. apply raise_inv in H2 as [-> ->]. simpl. split; [|reflexivity].
      rewrite Hq, D. apply remove_add_owned; [apply (WFr_sane _ _ _ W) | exact Hf].
    + rewrite Hq. apply (WFr_sane _ _ _ W1).
    + rewrite Hq, has_id_add_owned, str_eqb_refl. apply orb_true_r.
  - rewrite cp_unit_run in H1; [discriminate | rewrite Hq; apply (WFr_sane _ _ _ W1) |
      rewrite Hq, has_id_add_owned, str_eqb_refl; apply orb_true_r].
Qed.


Lemma sp_owned_ok g s id name :
  has_id g id = false -> cls_is g s KNS = true -> sibling_free g s Connects KCP (Some name) = true ->
  owned_okR g (mk id KCP (Some sServicePort) name false) s Connects = true.
Proof. intros Hf Cs SF. unfold owned_okR, fresh, owner_shape_okR. simpl. rewrite Hf, Cs, SF. reflexivity. Qed.


Lemma type_is_ok x t s : NoDup (map nid (gnodes (sg s))) -> has_id (sg s) x = true -> exists b, type_is x t s = (s, Ok b).
Proof.
  intros ND H. destruct (find1_ok x s ND H) as [n E]. unfold type_is, type_of_handle, props, bind. rewrite E. unfold ret. eauto.
Qed.

(* ---- connect_interface -------------------------------------------------------------------------------- *)
(* the shape of the result: the unit add_peering on a normal return; the graph before the call on a failure, except
   -- without the rollback -- for the late failures *)
Ltac peels H :=
  apply bind_reads in H; [| solve [auto 8 with reads]];
  let s1 := fresh "s" in let a := fresh "a" in let Hm := fresh "Hm" in let Hg := fresh "Hg" in
  let e := fresh "e" in let Hr := fresh "Hr" in
  destruct H as [[s1 [a [Hm [Hg H]]]] | [e [Hr Hg]]]; [| right; exists e; split; [exact Hr | left; exact Hg]];
  first [ apply getg_val in Hm; destruct Hm as [-> ->]; clear Hg
        | apply guard_ok_val' in Hm; destruct Hm as [-> Hm]; clear Hg
        | apply check_node_unique_val in Hm; destruct Hm as [-> Hm]; clear Hg
        | apply cps_of_ns_or_link_val in Hm; destruct Hm as [-> ->]; clear Hg
        | apply type_is_val in Hm; destruct Hm as [-> ->]; clear Hg
        | rewrite <- Hg in *; clear Hg ].

Lemma api_connect_shape fl sub s i st st' r :
  WF (sg st) -> fl_connect_names fl = true ->
  cls_is (sg st) s KNS = true -> cls_is (sg st) i KCP = true -> typ_is (sg st) i sServicePort = false ->
  connect_interface fl sub s i st = (st', r) ->
  (r = Ok tt /\ exists sp l, peering_ok (sg st) s i sp l = true /\ sg st' = add_peering (sg st) s i sp l) \/
  (exists e, r = Err e /\ (sg st' = sg st \/ (fl_connect_undo fl = false /\ late r))).
Proof.
  intros W FL Cs Ci Ti H. unfold connect_interface in H. rewrite FL in H.
  peels H. peels H. peels H. peels H. peels H. peels H.
  match type of H with (match ?o with _ => _ end) _ = _ => destruct o as [parent|] end;
    [| apply raise_inv in H as [-> ->]; right; eexists; split; [reflexivity | left; reflexivity]].
  peels H. peels H.
  match type of W with WF (sg ?sc) => rename sc into scur end.
  match type of H with context [hname parent ++ dash ++ ?nm] => set (pname := hname parent ++ dash ++ nm) in * end.
  apply bind_reads in H; [| solve [auto 10 with reads]].
  destruct H as [[sA [[] [HmN [HgN H]]]] | [e [Hr HgN]]]; [| right; exists e; split; [exact Hr | left; exact HgN]].
  (* the name checks *)
  assert (Names : sibling_free (sg scur) s Connects KCP (Some pname) = true /\
                  name_free (sg scur) KLink (Some (pname ++ S "-link")) = true).
  { apply bind_inv in HmN as [[sB [cps [H1 H2]]]|[e [_ Hx]]]; [|discriminate].
    apply cps_of_ns_or_link_val in H1 as [-> ->].
    apply bind_inv in H2 as [[sB [g0 [H1 H2]]]|[e [_ Hx]]]; [|discriminate]. apply getg_val in H1 as [-> ->].
    apply bind_inv in H2 as [[sB [[] [H1 H2]]]|[e [_ Hx]]]; [|discriminate]. apply guard_ok_val in H1 as [-> G1].
    apply bind_inv in H2 as [[sB [u [H1 H2]]]|[e [_ Hx]]]; [|discriminate]. apply check_node_unique_val in H1 as [-> G2].
    apply guard_ok_val in H2 as [_ ->]. split; [eapply name_in_sibling; eauto | auto]. }
  destruct Names as [SF NF]. rewrite <- HgN in *. clear HgN HmN.
  pose proof (wf_ids _ W) as ND.
  apply bind_inv in H as [[sB [pid [H1 H]]]|[e [H1 Hr]]].
  2:{ right. exists e. split; [exact Hr|]. left. apply new_sp_run in H1; [| exact ND | eapply cls_is_has_id; eauto].
      destruct H1 as [[id [X _]]|[e' [_ Hq]]]; [discriminate | exact Hq]. }
  apply new_sp_run in H1; [| exact ND | eapply cls_is_has_id; eauto].
  destruct H1 as [[id [X [Hsub [Hf Hq]]]]|[e' [X _]]]; [|discriminate]. inversion X; subst id. clear X.
  set (sp := mk pid KCP (Some sServicePort) pname false) in *.
  assert (ND2 : NoDup (map nid (gnodes (sg sB)))).
  { rewrite Hq. unfold add_owned. simpl. change (NoDup (map nid (gnodes (g_add_node (sg sA) sp)))).
    apply nodup_add_node; assumption. }
  assert (Hi2 : has_id (sg sB) i = true).
  { rewrite Hq, has_id_add_owned. rewrite (cls_is_has_id _ _ _ Ci). reflexivity. }
  assert (Hp2 : has_id (sg sB) pid = true).
  { rewrite Hq, has_id_add_owned. simpl. rewrite str_eqb_refl. apply orb_true_r. }
  (* the link on [i; pid] from a state whose graph is that of sB *)
  assert (Made : forall sC sD lid (shared : bool), sg sC = sg sB ->
            new_link sub (pname ++ S "-link") None (if shared then sL2Path else sPatch) [i; pid] sC = (sD, Ok lid) ->
            exists l, peering_ok (sg sA) s i sp l = true /\ sg sD = add_peering (sg sA) s i sp l).
  { intros sC sD lid shared Hg3 H1.
    apply new_link_pair_run in H1; [| rewrite Hg3; exact ND2 | rewrite Hg3; exact Hi2 | rewrite Hg3; exact Hp2].
    destruct H1 as [[id [X [Hfl Hq4]]]|[_ [[X|[X|X]]|[X _]]]]; try discriminate X. inversion X; subst id. clear X.
    exists (mk lid KLink (Some (if shared then sL2Path else sPatch)) (pname ++ S "-link") false).
    split; [|rewrite Hq4, Hg3, Hq; reflexivity].
    rewrite Hg3, Hq, has_id_add_owned in Hfl. apply orb_false_iff in Hfl as [Hfl Hne].
    change (nid sp) with pid in Hne. unfold peering_ok, fresh.
    repeat (apply andb_true_iff; split); try reflexivity; try assumption;
      try (apply negb_true_iff; assumption).
    destruct shared; reflexivity. }
  assert (Failed : forall sC sD (shared : bool) e, sg sC = sg sB ->
            new_link sub (pname ++ S "-link") None (if shared then sL2Path else sPatch) [i; pid] sC = (sD, Err e) ->
            sg sD = sg sB /\ late (Err e)).
  { intros sC sD shared e Hg3 H1.
    apply new_link_pair_run in H1; [| rewrite Hg3; exact ND2 | rewrite Hg3; exact Hi2 | rewrite Hg3; exact Hp2].
    destruct H1 as [[id [X _]]|[Hc [X|[_ X]]]]; [discriminate X | | congruence].
    split; [congruence|]. unfold late. unfold late' in X. destruct X as [X|[X|X]]; inversion X; auto. }
  apply bind_inv in H as [[sC [shared [Hty H]]]|[e [Hty Hr]]].
  2:{ exfalso. destruct (type_is_ok i sSharedPort sB ND2 Hi2) as [b Eb]. congruence. }
  assert (Hg3 : sg sC = sg sB) by (eapply reads_type_is; eauto). clear Hty.
  destruct (fl_connect_undo fl) eqn:FU.
  - (* with the rollback *)
    unfold try_any in H.
    match type of H with (match ?m with _ => _ end) = _ => destruct m as [sD [v|e2]] eqn:E2 end.
    + inversion H; subst sD r. left. destruct v. split; [reflexivity|].
      apply bind_inv in E2 as [[sE [lid [H1 H2]]]|[e [_ Hr]]]; [|discriminate]. apply ret_inv in H2 as [-> _].
      exists sp. eapply Made; eauto.
    + right. assert (Hd : sg sD = sg sB).
      { apply bind_inv in E2 as [[sE [lid [H1 H2]]]|[e [H1 Hr]]]; [apply ret_inv in H2 as [_ H2]; discriminate|].
        inversion Hr; subst e. exact (proj1 (Failed _ _ _ _ Hg3 H1)). }
      rewrite Hq in Hd.
      assert (W0 : WFr no_exempt (fun _ => true) (sg sA)) by (apply pt_W0; exact W).
      assert (OK1 : owned_okR (sg sA) sp s Connects = true) by (apply sp_owned_ok; assumption).
      destruct (undo_owned_port _ _ sp s sD e2 st' r W0 OK1 eq_refl Cs Hd H) as [U1 U2].
      exists e2. split; [exact U2 | left; exact U1].
  - apply bind_inv in H as [[sD [lid [H1 H]]]|[e [H1 Hr]]].
    + apply ret_inv in H as [-> ->]. left. split; [reflexivity|]. exists sp. eapply Made; eauto.
    + right. exists e. split; [exact Hr|]. right. split; [reflexivity|]. rewrite Hr. exact (proj2 (Failed _ _ _ _ Hg3 H1)).
Qed.

Theorem api_connect fl sub s i st st' r :
  WF (sg st) -> fl_connect_names fl = true ->
  cls_is (sg st) s KNS = true -> cls_is (sg st) i KCP = true -> typ_is (sg st) i sServicePort = false ->
  connect_interface fl sub s i st = (st', r) -> WF (sg st') \/ (fl_connect_undo fl = false /\ late r).
Proof.
  intros W FL Cs Ci Ti H. destruct (api_connect_shape fl sub s i st st' r W FL Cs Ci Ti H) as [[_ [sp [l [OK G]]]]|[e [_ [G|X]]]].
  - left. rewrite G. apply WF_add_peering; assumption.
  - left. rewrite G. exact W.
  - right. exact X.
Qed.

(* C01 proofs, text layer: the reader undoes each writer on every XML-legal string; the only change a
   legal string undergoes on its way is the end-of-line normalisation (CR LF / CR -> LF). *)
From Coq Require Import String.
From Coq Require Import List NArith Bool Lia ZifyBool.
From Coq Require Import Decimal DecimalN DecimalPos.
From FIM Require Import Base.Str Model.Serial1Text.
Import ListNotations.
Open Scope N_scope.

(* ---------- decimal ---------- *)
Lemma str_to_uint_to_str u : str_to_uint (uint_to_str u) = Some u.
Proof. induction u; simpl; try rewrite IHu; reflexivity. Qed.

Definition is_digit (c : N) : bool := (48 <=? c) && (c <=? 57).

Lemma uint_to_str_digits u : forallb is_digit (uint_to_str u) = true.
Proof. induction u; simpl; try rewrite IHu; reflexivity. Qed.

Lemma uint_to_str_nonnil u : u <> Nil -> uint_to_str u <> [].
Proof. destruct u; simpl; congruence. Qed.

Lemma N_to_uint_nonnil n : N.to_uint n <> Nil.
Proof.
  destruct n as [|p]; simpl; [discriminate|]. apply DecimalPos.Unsigned.to_uint_nonnil.
Qed.

Lemma N_of_dec_of_N n : N_of_dec (dec_of_N n) = Some n.
Proof.
  unfold N_of_dec, dec_of_N.
  destruct (uint_to_str (N.to_uint n)) eqn:E.
  - exfalso. apply (uint_to_str_nonnil (N.to_uint n)); [apply N_to_uint_nonnil | exact E].
  - rewrite <- E, str_to_uint_to_str. simpl. f_equal. apply DecimalN.Unsigned.of_to.
Qed.

Lemma dec_digits n : forallb is_digit (dec_of_N n) = true.
Proof. apply uint_to_str_digits. Qed.

(* ---------- references ---------- *)
Lemma unesc_ref body : forall acc r,
  forallb (fun c => negb (c =? 59)) body = true ->
  unesc (Some acc) (body ++ 59 :: r) =
  match decode_ref (List.rev acc ++ body) with
  | Some ch => option_map (cons ch) (unesc None r)
  | None => None
  end.
Proof.
  induction body as [|b body IH]; intros acc r H.
  - simpl. rewrite app_nil_r. reflexivity.
  - simpl in H. apply andb_true_iff in H as [Hb H].
    simpl. destruct (b =? 59) eqn:E; [discriminate|].
    rewrite IH by exact H. simpl. rewrite <- app_assoc. reflexivity.
Qed.

Lemma forallb_impl {A} (p q : A -> bool) l :
  (forall x, p x = true -> q x = true) -> forallb p l = true -> forallb q l = true.
Proof.
  intros Hpq. induction l as [|x l IH]; simpl; [auto|].
  intro H. apply andb_true_iff in H as [H1 H2]. rewrite (Hpq _ H1), (IH H2). reflexivity.
Qed.

Lemma unesc_char_ref c r :
  xml_legal_char c = true ->
  unesc None (char_ref c ++ r) = option_map (cons c) (unesc None r).
Proof.
  intro L. unfold char_ref.
  change ((38 :: 35 :: dec_of_N c ++ [59]) ++ r) with (38 :: ((35 :: dec_of_N c ++ [59]) ++ r)).
  replace ((35 :: dec_of_N c ++ [59]) ++ r) with ((35 :: dec_of_N c) ++ 59 :: r)
    by (simpl; rewrite <- app_assoc; reflexivity).
  cbn [unesc]. change (38 =? 38) with true. cbn iota.
  rewrite unesc_ref.
  - change (List.rev [] ++ 35 :: dec_of_N c) with (35 :: dec_of_N c). unfold decode_ref.
    change (str_eqb (35 :: dec_of_N c) (S"amp")) with false.
    change (str_eqb (35 :: dec_of_N c) (S"lt")) with false.
    change (str_eqb (35 :: dec_of_N c) (S"gt")) with false.
    change (str_eqb (35 :: dec_of_N c) (S"quot")) with false.
    change (str_eqb (35 :: dec_of_N c) (S"apos")) with false.
    cbn iota. rewrite N_of_dec_of_N, L. reflexivity.
  - simpl. apply (forallb_impl is_digit); [|apply dec_digits].
    intros x Hx. unfold is_digit in Hx. lia.
Qed.

Lemma unesc_plain c r :
  xml_legal_char c = true -> c <> 38 -> c <> 60 ->
  unesc None (c :: r) = option_map (cons c) (unesc None r).
Proof.
  intros L H1 H2. cbn [unesc].
  destruct (N.eqb_spec c 38); [contradiction|]. destruct (N.eqb_spec c 60); [contradiction|].
  rewrite L. reflexivity.
Qed.

Lemma unesc_amp r : unesc None (S"&amp;" ++ r) = option_map (cons 38) (unesc None r).
Proof. reflexivity. Qed.
Lemma unesc_lt r : unesc None (S"&lt;" ++ r) = option_map (cons 60) (unesc None r).
Proof. reflexivity. Qed.
Lemma unesc_gt r : unesc None (S"&gt;" ++ r) = option_map (cons 62) (unesc None r).
Proof. reflexivity. Qed.
Lemma unesc_quot r : unesc None (S"&quot;" ++ r) = option_map (cons 34) (unesc None r).
Proof. reflexivity. Qed.

Lemma unesc_et_char c r : xml_legal_char c = true ->
  unesc None (et_escape_char c ++ r) = option_map (cons c) (unesc None r).
Proof.
  intro L. unfold et_escape_char.
  destruct (N.eqb_spec c 38) as [->|N1]; [apply unesc_amp|].
  destruct (N.eqb_spec c 60) as [->|N2]; [apply unesc_lt|].
  destruct (N.eqb_spec c 62) as [->|N3]; [apply unesc_gt|].
  destruct (127 <? c); [apply unesc_char_ref; exact L|].
  apply unesc_plain; assumption.
Qed.

Lemma unesc_lx_char c r : xml_legal_char c = true ->
  unesc None (lx_escape_char c ++ r) = option_map (cons c) (unesc None r).
Proof.
  intro L. unfold lx_escape_char.
  destruct (N.eqb_spec c 38) as [->|N1]; [apply unesc_amp|].
  destruct (N.eqb_spec c 60) as [->|N2]; [apply unesc_lt|].
  destruct (N.eqb_spec c 62) as [->|N3]; [apply unesc_gt|].
  destruct (N.eqb_spec c 13) as [->|N4]; [apply unesc_char_ref; reflexivity|].
  destruct (127 <? c); [apply unesc_char_ref; exact L|].
  apply unesc_plain; assumption.
Qed.

Lemma unesc_lx_attr_char c r : xml_legal_char c = true ->
  unesc None (lx_attr_escape_char c ++ r) = option_map (cons c) (unesc None r).
Proof.
  intro L. unfold lx_attr_escape_char.
  destruct (N.eqb_spec c 38) as [->|N1]; [apply unesc_amp|].
  destruct (N.eqb_spec c 60) as [->|N2]; [apply unesc_lt|].
  destruct (N.eqb_spec c 62) as [->|N3]; [apply unesc_gt|].
  destruct (N.eqb_spec c 34) as [->|N4]; [apply unesc_quot|].
  destruct ((c =? 9) || (c =? 10) || (c =? 13)); [apply unesc_char_ref; exact L|].
  destruct (127 <? c); [apply unesc_char_ref; exact L|].
  apply unesc_plain; assumption.
Qed.

Lemma unesc_flat_map (esc : N -> str) :
  (forall c r, xml_legal_char c = true -> unesc None (esc c ++ r) = option_map (cons c) (unesc None r)) ->
  forall s, xml_legal s = true -> unesc None (flat_map esc s) = Some s.
Proof.
  intros H s. induction s as [|c s IH]; simpl; intro L; [reflexivity|].
  apply andb_true_iff in L as [L1 L2]. rewrite H by exact L1. rewrite IH by exact L2. reflexivity.
Qed.

Lemma unescape_et s : xml_legal s = true -> xml_unescape (et_escape s) = Some s.
Proof. apply unesc_flat_map, unesc_et_char. Qed.
Lemma unescape_lx s : xml_legal s = true -> xml_unescape (lx_escape s) = Some s.
Proof. apply unesc_flat_map, unesc_lx_char. Qed.
Lemma unescape_lx_attr s : xml_legal s = true -> xml_unescape (lx_attr_escape s) = Some s.
Proof. apply unesc_flat_map, unesc_lx_attr_char. Qed.

(* ---------- line ends ---------- *)
Definition plain (c : N) : bool := negb (c =? 10) && negb (c =? 13) && negb (is_brk c).
Definition nocrbrk (c : N) : bool := negb (c =? 13) && negb (is_brk c).

Lemma sj_plain_word w : forall cr r, w <> [] -> forallb plain w = true ->
  splitjoin_from cr (w ++ r) = w ++ splitjoin_from false r.
Proof.
  induction w as [|c w IH]; intros cr r NE H; [congruence|].
  simpl in H. apply andb_true_iff in H as [Hc H].
  unfold plain in Hc. apply andb_true_iff in Hc as [Hc Hc3]. apply andb_true_iff in Hc as [Hc1 Hc2].
  simpl. destruct (c =? 13); [discriminate|]. destruct (c =? 10); [discriminate|].
  destruct (is_brk c); [discriminate|]. f_equal.
  destruct w as [|c' w']; [reflexivity|]. apply IH; [discriminate|exact H].
Qed.

Lemma sj_id t : forall cr, forallb nocrbrk t = true -> (cr = true -> match t with 10 :: _ => False | _ => True end) ->
  splitjoin_from cr t = t.
Proof.
  induction t as [|c t IH]; intros cr H Hcr; [reflexivity|].
  simpl in H. apply andb_true_iff in H as [Hc H]. unfold nocrbrk in Hc. apply andb_true_iff in Hc as [H1 H2].
  simpl. destruct (c =? 13) eqn:E13; [discriminate|].
  destruct (N.eqb_spec c 10) as [->|N10].
  - destruct cr; [exfalso; apply Hcr; reflexivity|]. f_equal. apply IH; [exact H|discriminate].
  - destruct (is_brk c); [discriminate|]. f_equal. apply IH; [exact H|discriminate].
Qed.

Lemma sj_id_false t : forallb nocrbrk t = true -> splitjoin t = t.
Proof. intro H. apply sj_id; [exact H|discriminate]. Qed.

Lemma sj_out_nocrbrk s : forall cr, forallb nocrbrk (splitjoin_from cr s) = true.
Proof.
  induction s as [|c s IH]; intro cr; [reflexivity|]. simpl.
  destruct (c =? 13) eqn:E13; [simpl; apply IH|].
  destruct (c =? 10) eqn:E10.
  - destruct cr; [apply IH| simpl; apply IH].
  - destruct (is_brk c) eqn:B; simpl; [apply IH|].
    unfold nocrbrk at 1. rewrite E13, B. simpl. apply IH.
Qed.

Lemma eol_norm_idem s : eol_norm (eol_norm s) = eol_norm s.
Proof. unfold eol_norm. apply sj_id_false, sj_out_nocrbrk. Qed.

Lemma legal_not_brk c : xml_legal_char c = true -> is_brk c = false.
Proof. unfold xml_legal_char, is_brk. lia. Qed.

Lemma sj_legal s : forall cr, xml_legal s = true -> xml_legal (splitjoin_from cr s) = true.
Proof.
  induction s as [|c s IH]; intros cr L; [reflexivity|]. simpl in L. apply andb_true_iff in L as [L1 L2].
  simpl. destruct (c =? 13); [simpl; apply IH, L2|].
  destruct (c =? 10); [destruct cr; [apply IH, L2 | simpl; apply IH, L2]|].
  destruct (is_brk c); simpl; [apply IH, L2|]. rewrite L1. apply IH, L2.
Qed.

Lemma eol_norm_legal s : xml_legal s = true -> xml_legal (eol_norm s) = true.
Proof. apply sj_legal. Qed.

Lemma eol_norm_no_cr_out s : no_cr (eol_norm s) = true.
Proof.
  unfold eol_norm, splitjoin. generalize (sj_out_nocrbrk s false).
  apply forallb_impl. intros x. unfold nocrbrk. intro H. apply andb_true_iff in H as [H _]. exact H.
Qed.

Lemma eol_norm_id s : xml_legal s = true -> no_cr s = true -> eol_norm s = s.
Proof.
  intros L C. apply sj_id_false.
  induction s as [|c s IH]; [reflexivity|]. simpl in *.
  apply andb_true_iff in L as [L1 L2]. apply andb_true_iff in C as [C1 C2].
  rewrite IH by assumption. unfold nocrbrk. rewrite C1, (legal_not_brk _ L1). reflexivity.
Qed.

Lemma eol_norm_fix_iff s : xml_legal s = true -> (eol_norm s = s <-> no_cr s = true).
Proof.
  intro L. split; intro H; [rewrite <- H; apply eol_norm_no_cr_out | apply eol_norm_id; assumption].
Qed.

(* the escaped words *)
Lemma char_ref_plain c : forallb plain (char_ref c) = true.
Proof.
  unfold char_ref. simpl. rewrite forallb_app. simpl. rewrite andb_true_r.
  apply (forallb_impl is_digit); [|apply dec_digits].
  intros x Hx. unfold is_digit in Hx. unfold plain, is_brk. lia.
Qed.

Lemma et_char_plain c : plain c = true -> forallb plain (et_escape_char c) = true /\ et_escape_char c <> [].
Proof.
  intro P. unfold et_escape_char.
  destruct (c =? 38); [split; [reflexivity|discriminate]|].
  destruct (c =? 60); [split; [reflexivity|discriminate]|].
  destruct (c =? 62); [split; [reflexivity|discriminate]|].
  destruct (127 <? c); [split; [apply char_ref_plain|discriminate]|].
  simpl. rewrite P. split; [reflexivity|discriminate].
Qed.

Lemma et_escape_small c : c <? 32 = true -> et_escape_char c = [c].
Proof. intro H. unfold et_escape_char.
  destruct (N.eqb_spec c 38); [lia|]. destruct (N.eqb_spec c 60); [lia|]. destruct (N.eqb_spec c 62); [lia|].
  destruct (N.ltb_spec 127 c); [lia|]. reflexivity. Qed.

(* splitlines/join commutes with the ElementTree escaping *)
Lemma sj_et_commute s : forall cr, splitjoin_from cr (et_escape s) = et_escape (splitjoin_from cr s).
Proof.
  induction s as [|c s IH]; intro cr; [reflexivity|].
  unfold et_escape in *. cbn [flat_map].
  destruct (N.eqb_spec c 13) as [->|N13].
  { change (et_escape_char 13) with [13]. cbn [Datatypes.app splitjoin_from]. change (13 =? 13) with true. cbn iota.
    cbn [flat_map]. change (et_escape_char 10) with [10]. cbn [Datatypes.app]. f_equal. apply IH. }
  destruct (N.eqb_spec c 10) as [->|N10].
  { change (et_escape_char 10) with [10]. cbn [Datatypes.app splitjoin_from]. change (10 =? 13) with false.
    change (10 =? 10) with true. cbn iota. destruct cr; [apply IH|].
    cbn [flat_map]. change (et_escape_char 10) with [10]. cbn [Datatypes.app]. f_equal. apply IH. }
  destruct (is_brk c) eqn:B.
  { assert (Hs : c <? 32 = true) by (unfold is_brk in B; lia).
    rewrite (et_escape_small _ Hs). cbn [Datatypes.app splitjoin_from].
    destruct (N.eqb_spec c 13); [contradiction|]. destruct (N.eqb_spec c 10); [contradiction|]. rewrite B.
    cbn [flat_map]. change (et_escape_char 10) with [10]. cbn [Datatypes.app]. f_equal. apply IH. }
  assert (P : plain c = true).
  { unfold plain. rewrite B. destruct (N.eqb_spec c 10); [contradiction|]. destruct (N.eqb_spec c 13); [contradiction|]. reflexivity. }
  destruct (et_char_plain c P) as [W NE].
  rewrite sj_plain_word by assumption.
  cbn [splitjoin_from].
  destruct (N.eqb_spec c 13); [contradiction|]. destruct (N.eqb_spec c 10); [contradiction|]. rewrite B.
  cbn [flat_map]. f_equal. apply IH.
Qed.

(* lxml output never contains a raw CR / VT / FF / FS / GS / RS when the input is legal *)
Lemma char_ref_nocrbrk c : forallb nocrbrk (char_ref c) = true.
Proof.
  generalize (char_ref_plain c). apply forallb_impl. intros x. unfold plain, nocrbrk.
  intro H. apply andb_true_iff in H as [H H3]. apply andb_true_iff in H as [H1 H2]. rewrite H2, H3. reflexivity.
Qed.

Lemma flat_map_forallb {A B} (f : A -> list B) (p : A -> bool) (q : B -> bool) l :
  (forall x, p x = true -> forallb q (f x) = true) -> forallb p l = true -> forallb q (flat_map f l) = true.
Proof.
  intro H. induction l as [|x l IH]; simpl; [auto|]. intro Hl. apply andb_true_iff in Hl as [H1 H2].
  rewrite forallb_app, (H _ H1), (IH H2). reflexivity.
Qed.

Lemma lx_escape_nocrbrk s : xml_legal s = true -> forallb nocrbrk (lx_escape s) = true.
Proof.
  apply flat_map_forallb. intros c L. unfold lx_escape_char.
  destruct (c =? 38); [reflexivity|]. destruct (c =? 60); [reflexivity|]. destruct (c =? 62); [reflexivity|].
  destruct (c =? 13) eqn:E; [apply char_ref_nocrbrk|].
  destruct (127 <? c); [apply char_ref_nocrbrk|].
  simpl. unfold nocrbrk. rewrite E, (legal_not_brk _ L). reflexivity.
Qed.

Definition attr_clean (c : N) : bool := nocrbrk c && negb (c =? 9) && negb (c =? 10).

Lemma char_ref_attr_clean c : forallb attr_clean (char_ref c) = true.
Proof.
  unfold char_ref. simpl. rewrite forallb_app. simpl. rewrite andb_true_r.
  apply (forallb_impl is_digit); [|apply dec_digits].
  intros x Hx. unfold is_digit in Hx. unfold attr_clean, nocrbrk, is_brk. lia.
Qed.

Lemma lx_attr_escape_clean s : xml_legal s = true -> forallb attr_clean (lx_attr_escape s) = true.
Proof.
  apply flat_map_forallb. intros c L. unfold lx_attr_escape_char.
  destruct (c =? 38); [reflexivity|]. destruct (c =? 60); [reflexivity|]. destruct (c =? 62); [reflexivity|].
  destruct (c =? 34); [reflexivity|].
  destruct ((c =? 9) || (c =? 10) || (c =? 13)) eqn:E; [apply char_ref_attr_clean|].
  destruct (127 <? c); [apply char_ref_attr_clean|].
  simpl. unfold attr_clean, nocrbrk. rewrite (legal_not_brk _ L). rewrite andb_true_r. lia.
Qed.

Lemma attr_ws_id t : forallb attr_clean t = true -> attr_ws t = t.
Proof.
  induction t as [|c t IH]; [reflexivity|]. simpl. intro H. apply andb_true_iff in H as [H1 H2].
  rewrite IH by exact H2. f_equal.
  unfold attr_clean, nocrbrk in H1.
  destruct ((c =? 9) || (c =? 10) || (c =? 13)) eqn:E; [lia|reflexivity].
Qed.

(* ---------- the journeys ---------- *)
Theorem text_in_legal s : xml_legal s = true -> text_in s = Some (eol_norm s).
Proof.
  intro L. unfold text_in, splitjoin. rewrite sj_et_commute. apply unescape_et. apply sj_legal, L.
Qed.

Theorem text_out_legal s : xml_legal s = true -> text_out s = Some s.
Proof.
  intro L. unfold text_out, eol_norm. rewrite sj_id_false by (apply lx_escape_nocrbrk, L).
  apply unescape_lx, L.
Qed.

Theorem attr_out_legal s : xml_legal s = true -> attr_out s = Some s.
Proof.
  intro L. unfold attr_out, eol_norm.
  pose proof (lx_attr_escape_clean s L) as C.
  rewrite sj_id_false.
  - rewrite attr_ws_id by exact C. apply unescape_lx_attr, L.
  - revert C. apply forallb_impl. intros x. unfold attr_clean. intro H.
    apply andb_true_iff in H as [H _]. apply andb_true_iff in H as [H _]. exact H.
Qed.

Theorem text_trip_legal s : xml_legal s = true -> text_trip s = Some (eol_norm s).
Proof.
  intro L. unfold text_trip. rewrite text_in_legal by exact L. apply text_out_legal, eol_norm_legal, L.
Qed.

Theorem text_trip_no_cr s : xml_legal s = true -> no_cr s = true -> text_trip s = Some s.
Proof. intros L C. rewrite text_trip_legal by exact L. f_equal. apply eol_norm_id; assumption. Qed.

Theorem text_trip_exact s : xml_legal s = true -> (text_trip s = Some s <-> no_cr s = true).
Proof.
  intro L. rewrite text_trip_legal by exact L. split.
  - intro H. injection H as H. apply eol_norm_fix_iff; assumption.
  - intro C. f_equal. apply eol_norm_id; assumption.
Qed.

Theorem text_trip_cr_refuted : exists s, xml_legal s = true /\ text_trip s <> Some s.
Proof. exists [97; 13; 98]. split; [reflexivity|]. vm_compute. discriminate. Qed.

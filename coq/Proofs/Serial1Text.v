(* C01 proofs, text layer: the reader undoes each writer on every XML-legal string: a legal string reaches
   the reader unchanged (a CR travels as the character reference &#13;). *)
From Coq Require Import String.
From Coq Require Import List NArith Bool Lia ZifyBool.
From Coq Require Import Decimal DecimalN DecimalPos.
From FIM Require Import Base.Str Model.Serial1Text.
Import ListNotations.
Open Scope N_scope.

(* ---------- decimal ---------- *)
Lemma str_to_uint_to_str u : str_to_uint (uint_to_str u) = Some u.
Proof. induction u; simpl; try rewrite IHu; reflexivity. Qed.

Definition is_digit (c : N) : bool := (48 <=? c) && (c <=? 57).

Lemma uint_to_str_digits u : forallb is_digit (uint_to_str u) = true.
Proof. induction u; simpl; try rewrite IHu; reflexivity. Qed.

Lemma uint_to_str_nonnil u : u <> Nil -> uint_to_str u <> [].
Proof. destruct u; simpl; congruence. Qed.

Lemma N_to_uint_nonnil n : N.to_uint n <> Nil.
Proof.
  destruct n as [|p]; simpl; [discriminate|]. apply DecimalPos.Unsigned.to_uint_nonnil.
Qed.

Lemma N_of_dec_of_N n : N_of_dec (dec_of_N n) = Some n.
Proof.
  unfold N_of_dec, dec_of_N.
  destruct (uint_to_str (N.to_uint n)) eqn:E.
  - exfalso. apply (uint_to_str_nonnil (N.to_uint n)); [apply N_to_uint_nonnil | exact E].
  - rewrite <- E, str_to_uint_to_str. simpl. f_equal. apply DecimalN.Unsigned.of_to.
Qed.

Lemma dec_digits n : forallb is_digit (dec_of_N n) = true.
Proof. apply uint_to_str_digits. Qed.

(* ---------- references ---------- *)
Lemma unesc_ref body : forall acc r,
  forallb (fun c => negb (c =? 59)) body = true ->
  unesc (Some acc) (body ++ 59 :: r) =
  match decode_ref (List.rev acc ++ body) with
  | Some ch => option_map (cons ch) (unesc None r)
  | None => None
  end.
Proof.
  induction body as [|b body IH]; intros acc r H.
  - simpl. rewrite app_nil_r. reflexivity.
  - simpl in H. apply andb_true_iff in H as [Hb H].
    simpl. destruct (b =? 59) eqn:E; [discriminate|].
    rewrite IH by exact H. simpl. rewrite <- app_assoc. reflexivity.
Qed.

Lemma forallb_impl {A} (p q : A -> bool) l :
  (forall x, p x = true -> q x = true) -> forallb p l = true -> forallb q l = true.
Proof.
  intros Hpq. induction l as [|x l IH]; simpl; [auto|].
  intro H. apply andb_true_iff in H as [H1 H2]. rewrite (Hpq _ H1), (IH H2). reflexivity.
Qed.

Lemma unesc_char_ref c r :
  xml_legal_char c = true ->
  unesc None (char_ref c ++ r) = option_map (cons c) (unesc None r).
Proof.
  intro L. unfold char_ref.
  change ((38 :: 35 :: dec_of_N c ++ [59]) ++ r) with (38 :: ((35 :: dec_of_N c ++ [59]) ++ r)).
  replace ((35 :: dec_of_N c ++ [59]) ++ r) with ((35 :: dec_of_N c) ++ 59 :: r)
    by (simpl; rewrite <- app_assoc; reflexivity).
  cbn [unesc]. change (38 =? 38) with true. cbn iota.
  rewrite unesc_ref.
  - change (List.rev [] ++ 35 :: dec_of_N c) with (35 :: dec_of_N c). unfold decode_ref.
    change (str_eqb (35 :: dec_of_N c) (S"amp")) with false.
    change (str_eqb (35 :: dec_of_N c) (S"lt")) with false.
    change (str_eqb (35 :: dec_of_N c) (S"gt")) with false.
    change (str_eqb (35 :: dec_of_N c) (S"quot")) with false.
    change (str_eqb (35 :: dec_of_N c) (S"apos")) with false.
    cbn iota. rewrite N_of_dec_of_N, L. reflexivity.
  - simpl. apply (forallb_impl is_digit); [|apply dec_digits].
    intros x Hx. unfold is_digit in Hx. lia.
Qed.

Lemma unesc_plain c r :
  xml_legal_char c = true -> c <> 38 -> c <> 60 ->
  unesc None (c :: r) = option_map (cons c) (unesc None r).
Proof.
  intros L H1 H2. cbn [unesc].
  destruct (N.eqb_spec c 38); [contradiction|]. destruct (N.eqb_spec c 60); [contradiction|].
  rewrite L. reflexivity.
Qed.

Lemma unesc_amp r : unesc None (S"&amp;" ++ r) = option_map (cons 38) (unesc None r).
Proof. reflexivity. Qed.
Lemma unesc_lt r : unesc None (S"&lt;" ++ r) = option_map (cons 60) (unesc None r).
Proof. reflexivity. Qed.
Lemma unesc_gt r : unesc None (S"&gt;" ++ r) = option_map (cons 62) (unesc None r).
Proof. reflexivity. Qed.
Lemma unesc_quot r : unesc None (S"&quot;" ++ r) = option_map (cons 34) (unesc None r).
Proof. reflexivity. Qed.

Lemma unesc_et_char c r : xml_legal_char c = true ->
  unesc None (et_escape_char c ++ r) = option_map (cons c) (unesc None r).
Proof.
  intro L. unfold et_escape_char.
  destruct (N.eqb_spec c 38) as [->|N1]; [apply unesc_amp|].
  destruct (N.eqb_spec c 60) as [->|N2]; [apply unesc_lt|].
  destruct (N.eqb_spec c 62) as [->|N3]; [apply unesc_gt|].
  destruct (127 <? c); [apply unesc_char_ref; exact L|].
  apply unesc_plain; assumption.
Qed.

Lemma unesc_lx_char c r : xml_legal_char c = true ->
  unesc None (lx_escape_char c ++ r) = option_map (cons c) (unesc None r).
Proof.
  intro L. unfold lx_escape_char.
  destruct (N.eqb_spec c 38) as [->|N1]; [apply unesc_amp|].
  destruct (N.eqb_spec c 60) as [->|N2]; [apply unesc_lt|].
  destruct (N.eqb_spec c 62) as [->|N3]; [apply unesc_gt|].
  destruct (N.eqb_spec c 13) as [->|N4]; [apply unesc_char_ref; reflexivity|].
  destruct (127 <? c); [apply unesc_char_ref; exact L|].
  apply unesc_plain; assumption.
Qed.

Lemma unesc_lx_attr_char c r : xml_legal_char c = true ->
  unesc None (lx_attr_escape_char c ++ r) = option_map (cons c) (unesc None r).
Proof.
  intro L. unfold lx_attr_escape_char.
  destruct (N.eqb_spec c 38) as [->|N1]; [apply unesc_amp|].
  destruct (N.eqb_spec c 60) as [->|N2]; [apply unesc_lt|].
  destruct (N.eqb_spec c 62) as [->|N3]; [apply unesc_gt|].
  destruct (N.eqb_spec c 34) as [->|N4]; [apply unesc_quot|].
  destruct ((c =? 9) || (c =? 10) || (c =? 13)); [apply unesc_char_ref; exact L|].
  destruct (127 <? c); [apply unesc_char_ref; exact L|].
  apply unesc_plain; assumption.
Qed.

Lemma unesc_flat_map (esc : N -> str) :
  (forall c r, xml_legal_char c = true -> unesc None (esc c ++ r) = option_map (cons c) (unesc None r)) ->
  forall s, xml_legal s = true -> unesc None (flat_map esc s) = Some s.
Proof.
  intros H s. induction s as [|c s IH]; simpl; intro L; [reflexivity|].
  apply andb_true_iff in L as [L1 L2]. rewrite H by exact L1. rewrite IH by exact L2. reflexivity.
Qed.

Lemma unescape_et s : xml_legal s = true -> xml_unescape (et_escape s) = Some s.
Proof. apply unesc_flat_map, unesc_et_char. Qed.
Lemma unescape_lx s : xml_legal s = true -> xml_unescape (lx_escape s) = Some s.
Proof. apply unesc_flat_map, unesc_lx_char. Qed.
Lemma unescape_lx_attr s : xml_legal s = true -> xml_unescape (lx_attr_escape s) = Some s.
Proof. apply unesc_flat_map, unesc_lx_attr_char. Qed.

(* ---------- line ends ---------- *)
Definition nocr (c : N) : bool := negb (c =? 13).

Lemma sj_id t : forall cr, forallb nocr t = true -> (cr = true -> match t with 10 :: _ => False | _ => True end) ->
  splitjoin_from cr t = t.
Proof.
  induction t as [|c t IH]; intros cr H Hcr; [reflexivity|].
  simpl in H. apply andb_true_iff in H as [H1 H]. unfold nocr in H1.
  simpl. destruct (c =? 13) eqn:E13; [discriminate|].
  destruct (N.eqb_spec c 10) as [->|N10].
  - destruct cr; [exfalso; apply Hcr; reflexivity|]. f_equal. apply IH; [exact H|discriminate].
  - f_equal. apply IH; [exact H|discriminate].
Qed.

Lemma sj_id_false t : forallb nocr t = true -> splitjoin t = t.
Proof. intro H. apply sj_id; [exact H|discriminate]. Qed.

Lemma is_digit_nocr x : is_digit x = true -> nocr x = true.
Proof. unfold is_digit, nocr. lia. Qed.

Lemma char_ref_nocr c : forallb nocr (char_ref c) = true.
Proof.
  unfold char_ref. simpl. rewrite forallb_app. simpl. rewrite andb_true_r.
  apply (forallb_impl is_digit); [apply is_digit_nocr|apply dec_digits].
Qed.

Lemma flat_map_forallb {A B} (f : A -> list B) (p : A -> bool) (q : B -> bool) l :
  (forall x, p x = true -> forallb q (f x) = true) -> forallb p l = true -> forallb q (flat_map f l) = true.
Proof.
  intro H. induction l as [|x l IH]; simpl; [auto|]. intro Hl. apply andb_true_iff in Hl as [H1 H2].
  rewrite forallb_app, (H _ H1), (IH H2). reflexivity.
Qed.

(* lxml output never contains a raw CR *)
Lemma lx_escape_nocr s : forallb nocr (lx_escape s) = true.
Proof.
  apply (flat_map_forallb _ (fun _ => true)); [|apply forallb_forall; reflexivity]. intros c _. unfold lx_escape_char.
  destruct (c =? 38); [reflexivity|]. destruct (c =? 60); [reflexivity|]. destruct (c =? 62); [reflexivity|].
  destruct (c =? 13) eqn:E; [apply char_ref_nocr|].
  destruct (127 <? c); [apply char_ref_nocr|].
  simpl. unfold nocr. rewrite E. reflexivity.
Qed.

(* replacing the raw CRs of the ElementTree text gives exactly what lxml would have written *)
Lemma cr_ref_id t : forallb nocr t = true -> cr_ref t = t.
Proof.
  induction t as [|c t IH]; [reflexivity|]. simpl. intro H. apply andb_true_iff in H as [H1 H2].
  unfold nocr in H1. destruct (c =? 13); [discriminate|]. simpl. f_equal. apply IH, H2.
Qed.
Lemma cr_ref_app a b : cr_ref (a ++ b) = cr_ref a ++ cr_ref b.
Proof. unfold cr_ref. apply flat_map_app. Qed.

Lemma cr_ref_et_char c : cr_ref (et_escape_char c) = lx_escape_char c.
Proof.
  unfold et_escape_char, lx_escape_char.
  destruct (c =? 38); [reflexivity|]. destruct (c =? 60); [reflexivity|]. destruct (c =? 62); [reflexivity|].
  destruct (N.eqb_spec c 13) as [->|N13]; [reflexivity|].
  destruct (127 <? c); [apply cr_ref_id, char_ref_nocr|].
  simpl. destruct (N.eqb_spec c 13); [contradiction|reflexivity].
Qed.

Lemma cr_ref_et s : cr_ref (et_escape s) = lx_escape s.
Proof.
  unfold et_escape, lx_escape. induction s as [|c s IH]; [reflexivity|]. simpl.
  rewrite cr_ref_app, cr_ref_et_char, IH. reflexivity.
Qed.

Definition attr_clean (c : N) : bool := nocr c && negb (c =? 9) && negb (c =? 10).

Lemma char_ref_attr_clean c : forallb attr_clean (char_ref c) = true.
Proof.
  unfold char_ref. simpl. rewrite forallb_app. simpl. rewrite andb_true_r.
  apply (forallb_impl is_digit); [|apply dec_digits].
  intros x Hx. unfold is_digit in Hx. unfold attr_clean, nocr. lia.
Qed.

Lemma lx_attr_escape_clean s : forallb attr_clean (lx_attr_escape s) = true.
Proof.
  apply (flat_map_forallb _ (fun _ => true)); [|apply forallb_forall; reflexivity]. intros c _. unfold lx_attr_escape_char.
  destruct (c =? 38); [reflexivity|]. destruct (c =? 60); [reflexivity|]. destruct (c =? 62); [reflexivity|].
  destruct (c =? 34); [reflexivity|].
  destruct ((c =? 9) || (c =? 10) || (c =? 13)) eqn:E; [apply char_ref_attr_clean|].
  destruct (127 <? c); [apply char_ref_attr_clean|].
  simpl. unfold attr_clean, nocr. rewrite andb_true_r. lia.
Qed.

Lemma attr_ws_id t : forallb attr_clean t = true -> attr_ws t = t.
Proof.
  induction t as [|c t IH]; [reflexivity|]. simpl. intro H. apply andb_true_iff in H as [H1 H2].
  rewrite IH by exact H2. f_equal.
  unfold attr_clean, nocr in H1.
  destruct ((c =? 9) || (c =? 10) || (c =? 13)) eqn:E; [lia|reflexivity].
Qed.

(* ---------- the journeys ---------- *)
Theorem text_in_legal s : xml_legal s = true -> text_in s = Some s.
Proof.
  intro L. unfold text_in, eol_norm. rewrite cr_ref_et, sj_id_false by apply lx_escape_nocr.
  apply unescape_lx, L.
Qed.

Theorem text_out_legal s : xml_legal s = true -> text_out s = Some s.
Proof.
  intro L. unfold text_out, eol_norm. rewrite sj_id_false by apply lx_escape_nocr.
  apply unescape_lx, L.
Qed.

Theorem attr_out_legal s : xml_legal s = true -> attr_out s = Some s.
Proof.
  intro L. unfold attr_out, eol_norm.
  pose proof (lx_attr_escape_clean s) as C.
  rewrite sj_id_false.
  - rewrite attr_ws_id by exact C. apply unescape_lx_attr, L.
  - revert C. apply forallb_impl. intros x. unfold attr_clean. intro H.
    apply andb_true_iff in H as [H _]. apply andb_true_iff in H as [H _]. exact H.
Qed.

Theorem text_trip_legal s : xml_legal s = true -> text_trip s = Some s.
Proof. intro L. unfold text_trip. rewrite text_in_legal by exact L. apply text_out_legal, L. Qed.

(* a CR is carried as a reference on both legs *)
Theorem text_trip_cr_example : text_trip [97; 13; 10; 98; 13] = Some [97; 13; 10; 98; 13].
Proof. reflexivity. Qed.

(* text that is not XML is refused (the writer raises), e.g. a vertical tab *)
Theorem text_in_illegal_example : text_in [97; 11; 98] = None /\ text_in [0] = None.
Proof. split; reflexivity. Qed.

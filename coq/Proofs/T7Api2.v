(* C07 - more building calls keep WF: add_component / add_storage (component + its service + its interfaces, each
   element with its owner edge as a unit; any failing step stops with a well-formed partial structure). *)
From Coq Require Import String List NArith ZArith Bool Arith Lia.
From FIM Require Import Base.Str Gen.Rules Model.T7Graph Model.T7Ops Model.T7WF Model.T7Steps
     Proofs.T7Tables Proofs.T7WFRefl Proofs.T7Frame Proofs.T7Units Proofs.T7Api.
Import ListNotations.

Lemma name_of_new g n a r : owned_ok g n a r = true -> name_of (add_owned g n a r) (nid n) = nname n.
Proof. intro OK. unfold name_of. rewrite (ao_find_new g n a r OK). reflexivity. Qed.

Lemma has_id_add_owned g n a r y : has_id (add_owned g n a r) y = has_id g y || str_eqb (nid n) y.
Proof. unfold add_owned. rewrite has_id_add_edge, has_id_add_node. reflexivity. Qed.

(* ---- the interfaces of a new service, one owned unit each ------------------------------------------------- *)
Definition plain_iface (i : node) : Prop :=
  ncls i = KCP /\ new_node_ok i = true /\ is_type i sServicePort = false /\ is_type i sSubInterface = false.

Lemma iface_loop sid : forall (ifs : list node) s s' r,
  WF (sg s) -> cls_is (sg s) sid KNS = true ->
  Forall plain_iface ifs -> NoDup (map nname ifs) ->
  (forall y, In y (first_nb (sg s) sid Connects KCP) -> ~ In (name_of (sg s) y) (map nname ifs)) ->
  for_each ifs (fun i => add_interface_sliver sid i) s = (s', r) -> WF (sg s').
Proof.
  induction ifs as [|i ifs IH]; intros s s' r W Hs Hp ND Hn H; simpl in H.
  - apply ret_inv in H as [-> _]. exact W.
  - inversion Hp as [|? ? [Pc [Pn [Psp Psub]]] Hp']; subst. inversion ND as [|? ? Hnot ND']; subst.
    assert (OK : has_id (sg s) (nid i) = false -> owned_ok (sg s) i sid Connects = true).
    { intro Hf. unfold owned_ok, fresh, owner_shape_ok. rewrite Hf, Pn, Pc, Psp, Psub, Hs. simpl.
      unfold sibling_free. apply forallb_forall. intros y Hy. apply negb_true_iff.
      destruct (ostr_eqb (name_of (sg s) y) (nname i)) eqn:E; [|reflexivity].
      apply ostr_eqb_eq in E. exfalso. apply (Hn y Hy). rewrite E. left. reflexivity. }
    apply bind_inv in H as [[s1 [[] [H1 H2]]]|[e [H1 _]]].
    + unfold add_interface_sliver in H1.
      assert (Hf : has_id (sg s) (nid i) = false).
      { apply bind_inv in H1 as [[sx [[] [Ha _]]]|[e [_ Hx]]]; [|discriminate].
        apply add_node_inv in Ha as [[_ [Hf _]]|[e [He _]]]; [exact Hf | discriminate]. }
      specialize (OK Hf).
      destruct (api_add_owned _ _ _ _ _ _ W (fun _ => OK) H1) as [W1 Hg]. specialize (Hg eq_refl).
      assert (Hne : sid <> nid i) by (intro E; rewrite <- E in Hf; rewrite (cls_is_has_id _ _ _ Hs) in Hf; discriminate).
      apply (IH s1 s' r W1); [| exact Hp' | exact ND' | | exact H2].
      * rewrite Hg, (ao_cls_old _ _ _ _ _ _ Hne). exact Hs.
      * intros y Hy. rewrite Hg in Hy. rewrite (ao_first_nb_a _ _ _ _ W OK) in Hy. rewrite Pc in Hy. simpl in Hy.
        apply in_app_or in Hy as [Hy|[Hy|[]]].
        -- assert (Hyn : y <> nid i).
           { intro E. subst y. rewrite (first_nb_has_id _ _ _ _ _ (wf_edge_ends _ W) Hy) in Hf. discriminate. }
           rewrite Hg, (ao_name_old _ _ _ _ _ Hyn). intro Hin. apply (Hn y Hy). right. exact Hin.
        -- subst y. rewrite Hg, (name_of_new _ _ _ _ OK). exact Hnot.
    + unfold add_interface_sliver in H1.
      destruct (api_add_owned _ _ _ _ _ _ W OK H1) as [W1 _]. exact W1.
Qed.

(* ---- what generate_component produces ---------------------------------------------------------------------- *)
Lemma gen_ifs_val name itype : forall plan s s' ifs,
  mapM (fun pi => check_name KCP (name ++ dash ++ fst pi) ;;;
                  i <- id_or_draw (snd pi) ;;
                  ret (mkNode i KCP itype (Some (name ++ dash ++ fst pi)) true)) plan s = (s', Ok ifs) ->
  sg s' = sg s /\ map nname ifs = map (fun pi => Some (name ++ dash ++ fst pi)) plan /\
  Forall (fun n => ncls n = KCP /\ ntyp n = itype /\ exists nm, nname n = Some nm) ifs.
Proof.
  induction plan as [|pi plan IH]; simpl; intros s s' ifs H.
  - apply ret_inv in H as [-> H]. inversion H. auto.
  - apply bind_inv in H as [[s1 [n [H1 H2]]]|[e [_ H]]]; [|discriminate].
    apply bind_inv in H1 as [[s2 [[] [Hc H1]]]|[e [_ H]]]; [|discriminate].
    apply guard_ok_val in Hc as [-> _].
    apply bind_inv in H1 as [[s3 [i [Hd H1]]]|[e [_ H]]]; [|discriminate].
    pose proof (reads_id_or_draw _ _ _ _ Hd) as G3. apply ret_inv in H1 as [-> H1]. inversion H1; subst n.
    apply bind_inv in H2 as [[s4 [ys [H3 H4]]]|[e [_ H]]]; [|discriminate].
    apply IH in H3 as [G4 [N4 F4]]. apply ret_inv in H4 as [-> H4]. inversion H4; subst ifs.
    split; [congruence|]. split; [simpl; f_equal; exact N4|]. constructor; [simpl; eauto | exact F4].
Qed.

Lemma map_fst_zip_ids ps ids : map fst (zip_ids ps ids) = ps.
Proof. revert ids; induction ps as [|p ps IH]; intros [|i ids]; simpl; try reflexivity; f_equal; apply IH. Qed.

Lemma nodup_iface_names name (plan : list (str * option str)) :
  NoDup (map fst plan) -> NoDup (map (fun pi => Some (name ++ dash ++ fst pi)) plan).
Proof.
  induction plan as [|pi plan IH]; simpl; intro ND; [constructor|]. inversion ND; subst. constructor; [|auto].
  intro Hin. apply in_map_iff in Hin as [q [E Hq]]. inversion E as [E']. apply app_inv_head in E'.
  injection E' as X. apply H1.
  exact (eq_ind (fst q) (fun z => In z (map fst plan)) (in_map fst plan q Hq) (fst pi) X).
Qed.

(* every catalogue entry with ports has distinct port names and a type whose ports get an interface type *)
Definition catalog_ports_ok : bool :=
  forallb (fun c => match c with
                    | (_, _, t, Some ps) => nodup_b ps && (str_eqb t sSmartNIC || str_eqb t sFPGA || str_eqb t sSharedNIC)
                    | _ => true
                    end) catalog.
Lemma catalog_ports_ok_true : catalog_ports_ok = true.
Proof. vm_compute. reflexivity. Qed.

Lemma catalog_lookup_in model ctype c : catalog_lookup model ctype = Some c -> In c catalog.
Proof. unfold catalog_lookup. intro H. apply find_some in H. tauto. Qed.

Lemma bind_assoc {A B C} (m : M A) (f : A -> M B) (k : B -> M C) s :
  bind m (fun x => bind (f x) k) s = bind (bind m f) k s.
Proof. unfold bind. destruct (m s) as [s1 [a|e]]; [|reflexivity]. destruct (f a s1) as [s2 [b|e]]; reflexivity. Qed.

Lemma catalog_type_allowed c : In c catalog -> match c with (_, _, t, _) => type_allowed KComp t = true end.
Proof.
  intro H. pose proof builtin_types_in_vocab as B. unfold builtin_types_ok in B.
  do 5 (apply andb_true_iff in B as [B ?]). rewrite forallb_forall in B. specialize (B _ H). destruct c as [[[m al] t] ps]. exact B.
Qed.
Lemma catalog_ports_facts m al t ps : In (m, al, t, Some ps) catalog ->
  NoDup ps /\ (str_eqb t sSmartNIC || str_eqb t sFPGA || str_eqb t sSharedNIC) = true.
Proof.
  intro H. pose proof catalog_ports_ok_true as B. unfold catalog_ports_ok in B. rewrite forallb_forall in B.
  specialize (B _ H). simpl in B. apply andb_true_iff in B as [B1 B2]. split; [apply nodup_b_NoDup; exact B1 | exact B2].
Qed.

(* Component(NEW): the component under its node, then its service under the component, then the interfaces under the
   service -- every failing step stops with a well-formed partial structure *)
Lemma reads_comp_precheck fl id gen : reads (comp_precheck fl id gen).
Proof. unfold comp_precheck. destruct (fl_comp_precheck fl); auto 8 with reads. Qed.
#[export] Hint Resolve reads_comp_precheck : reads.

Lemma api_new_component fl sub parent name cid ctype model nsid ifids lab s s' r :
  WF (sg s) -> cls_is (sg s) parent KNode = true ->
  sibling_free (sg s) parent Has KComp (Some name) = true ->
  new_component fl sub parent name cid ctype model nsid ifids lab s = (s', r) -> WF (sg s').
Proof.
  intros W Hp SF H. unfold new_component in H.
  peel H W. peel H W. peel H W.
  apply bind_reads in H; [| unfold props; solve [auto 8 with reads]].
  destruct H as [[s1 [pn [Hpn [Hg H]]]] | [e [Hr Hg]]]; [| rewrite Hg; exact W].
  unfold props in Hpn. apply find1_val in Hpn as [-> Fpn]. clear Hg.
  destruct (catalog_lookup model ctype) as [[[[cmodel also] ctype'] ports]|] eqn:CL;
    [| apply raise_inv in H as [-> _]; exact W].
  apply catalog_lookup_in in CL.
  peel H W.
  (* the generation of the sub-structure only reads *)
  apply bind_reads in H;
    [| destruct ports; [apply reads_bind; [apply reads_guard | intro; apply reads_bind; [apply reads_mapM; intro; auto 8 with reads | intro; auto 8 with reads]] | apply reads_ret]].
  destruct H as [[sG [gen [Hgen [HgG H]]]] | [e [Hr Hg]]]; [| rewrite Hg; exact W].
  apply bind_reads in H; [| apply reads_comp_precheck].
  destruct H as [[s2 [[] [_ [Hg' H]]]] | [e [Hr Hg']]]; [| rewrite Hg', HgG; exact W].
  match type of W with WF (sg ?sc) => assert (Hg : sg s2 = sg sc) by congruence end. clear Hg' HgG.
  match type of W with WF (sg ?sc) => rename sc into s0 end.
  (* component + owner edge *)
  set (comp := mk a0 KComp (Some ctype') name lab) in *.
  assert (OK1 : has_id (sg s0) (nid comp) = false -> owned_ok (sg s0) comp parent Has = true).
  { intro Hf. unfold owned_ok, fresh, new_node_ok, owner_shape_ok.
    assert (V : vocab_ok comp = true) by exact (catalog_type_allowed _ CL). rewrite V, Hf. simpl. rewrite Hp, SF. reflexivity. }
  rewrite bind_assoc in H.
  assert (W2 : WF (sg s2)) by (rewrite Hg; exact W).
  assert (OK1' : has_id (sg s2) (nid comp) = false -> owned_ok (sg s2) comp parent Has = true) by (rewrite Hg; exact OK1).
  apply bind_inv in H as [[s3 [[] [H1 H2]]]|[e [H1 _]]];
    [| exact (proj1 (api_add_owned _ _ _ _ _ _ W2 OK1' H1))].
  assert (Hf1 : has_id (sg s2) (nid comp) = false).
  { apply bind_inv in H1 as [[sx [[] [Ha _]]]|[e [_ Hx]]]; [|discriminate].
    apply add_node_inv in Ha as [[_ [Hf _]]|[e [He _]]]; [exact Hf | discriminate]. }
  specialize (OK1' Hf1).
  destruct (api_add_owned _ _ _ _ _ _ W2 (fun _ => OK1') H1) as [W3 G3]. specialize (G3 eq_refl).
  destruct gen as [[ns ifs]|]; [| apply ret_inv in H2 as [-> _]; exact W3].
  (* what was generated *)
  destruct ports as [ps|]; [| apply ret_inv in Hgen as [_ X]; discriminate X].
  destruct (catalog_ports_facts _ _ _ _ CL) as [NDps Tt].
  apply bind_inv in Hgen as [[sa [[] [_ Hgen]]]|[e [_ X]]]; [|discriminate X].
  apply bind_inv in Hgen as [[sb [ifs0 [Hifs Hgen]]]|[e [_ X]]]; [|discriminate X].
  apply gen_ifs_val in Hifs as [_ [Nifs Fifs]].
  apply bind_inv in Hgen as [[sc [sid [_ Hgen]]]|[e [_ X]]]; [|discriminate X].
  apply bind_inv in Hgen as [[sd [[] [_ Hgen]]]|[e [_ X]]]; [|discriminate X].
  apply ret_inv in Hgen as [_ Hgen]. inversion Hgen as [[Ens Eifs]]. subst ifs0. clear Hgen.
  (* service + owner edge *)
  assert (OK2 : has_id (sg s3) (nid ns) = false -> owned_ok (sg s3) ns a0 Has = true).
  { intro Hf. rewrite G3. rewrite G3 in Hf. subst ns. unfold owned_ok, fresh, new_node_ok, owner_shape_ok. simpl. simpl in Hf. rewrite Hf. simpl.
    assert (V : vocab_ok (mkNode sid KNS (Some (if str_eqb ctype' sFPGA then sP4 else sOVS))
                 (Some ((match nname pn with Some p => p ++ dash | None => [] end) ++ name ++ (if str_eqb ctype' sFPGA then S "-l2p4" else S "-l2ovs"))) false) = true)
      by (destruct (str_eqb ctype' sFPGA); reflexivity).
    rewrite V. simpl.
    change a0 with (nid comp). rewrite !(ao_cls_new _ _ _ _ OK1'). simpl.
    unfold sibling_free. apply forallb_forall. intros y Hy. exfalso.
    apply In_first_nb in Hy as [Hy Hk]. change a0 with (nid comp) in Hy. rewrite (ao_nbrs_x _ _ _ _ W2 OK1') in Hy. destruct Hy as [Hy|[]]. inversion Hy; subst y.
    assert (Hpne : parent <> nid comp) by (intro E; rewrite <- E in Hf1; rewrite Hg, (cls_is_has_id _ _ _ Hp) in Hf1; discriminate).
    rewrite (ao_cls_old _ _ _ _ _ _ Hpne), Hg, (cls_is_unique _ _ _ KNS Hp) in Hk; [discriminate Hk | discriminate]. }
  rewrite bind_assoc in H2.
  apply bind_inv in H2 as [[s4 [[] [H3 H4]]]|[e [H3 _]]];
    [| exact (proj1 (api_add_owned _ _ _ _ _ _ W3 OK2 H3))].
  assert (Hf2 : has_id (sg s3) (nid ns) = false).
  { apply bind_inv in H3 as [[sx [[] [Ha _]]]|[e [_ Hx]]]; [|discriminate].
    apply add_node_inv in Ha as [[_ [Hf _]]|[e [He _]]]; [exact Hf | discriminate]. }
  specialize (OK2 Hf2).
  destruct (api_add_owned _ _ _ _ _ _ W3 (fun _ => OK2) H3) as [W4 G4]. specialize (G4 eq_refl).
  (* the interfaces *)
  eapply (iface_loop (nid ns)); [exact W4 | | | | | exact H4].
  - rewrite G4, (ao_cls_new _ _ _ _ OK2). subst ns. reflexivity.
  - apply Forall_forall. intros i Hi. rewrite Forall_forall in Fifs. destruct (Fifs _ Hi) as [Ci [Ti [nm En]]].
    unfold plain_iface, new_node_ok, fields_ok, vocab_ok, vocab_ok_in, is_type. rewrite Ci, Ti, En.
    destruct (str_eqb ctype' sSmartNIC || str_eqb ctype' sFPGA) eqn:E1; [repeat split; reflexivity|].
    destruct (str_eqb ctype' sSharedNIC) eqn:E2; [repeat split; reflexivity|].
    simpl in Tt. discriminate Tt.
  - rewrite Nifs. apply nodup_iface_names. destruct ifids as [l|]; [rewrite map_fst_zip_ids | rewrite map_map; simpl; rewrite map_id]; exact NDps.
  - intros y Hy. exfalso. rewrite G4 in Hy. apply In_first_nb in Hy as [Hy _].
    rewrite (ao_nbrs_x _ _ _ _ W3 OK2) in Hy. destruct Hy as [Hy|[]]. discriminate Hy.
Qed.

(* Node.add_component / add_storage *)
Lemma api_node_add_component fl sub n name cid ctype model nsid ifids s s' r :
  WF (sg s) -> node_add_component fl sub n name cid ctype model nsid ifids s = (s', r) -> WF (sg s').
Proof.
  intros W H. unfold node_add_component in H.
  apply bind_reads in H; [| unfold components_of; solve [auto 8 with reads]].
  destruct H as [[s1 [cs [Hm [Hg H]]]] | [e [Hr Hg]]]; [| rewrite Hg; exact W].
  unfold components_of in Hm. apply bind_inv in Hm as [[s2 [[] [Hc Hq]]]|[e [_ Hx]]]; [|discriminate].
  apply check_class_val in Hc as [-> [m [Fm Em]]]. apply q_first_nb_val in Hq as [-> [-> _]]. clear Hg.
  peel H W. peel H W.
  destruct (check_class_cls _ _ _ _ Fm Em) as [k [[<-|[]] Hk]].
  eapply api_new_component; [exact W | exact Hk | | exact H]. eapply name_in_sibling; eauto.
Qed.
Lemma api_node_add_storage fl sub n name cid s s' r :
  WF (sg s) -> node_add_storage fl sub n name cid s = (s', r) -> WF (sg s').
Proof.
  intros W H. unfold node_add_storage in H. peel H W.
  apply bind_reads in H; [| unfold components_of; solve [auto 8 with reads]].
  destruct H as [[s1 [cs [Hm' [Hg H]]]] | [e [Hr Hg]]]; [| rewrite Hg; exact W].
  unfold components_of in Hm'. apply bind_inv in Hm' as [[s2 [[] [Hc Hq]]]|[e [_ Hx]]]; [|discriminate].
  apply check_class_val in Hc as [-> [m [Fm Em]]]. apply q_first_nb_val in Hq as [-> [-> _]]. clear Hg.
  peel H W. peel H W.
  destruct (check_class_cls _ _ _ _ Fm Em) as [k [[<-|[]] Hk]].
  eapply api_new_component; [exact W | exact Hk | | exact H]. eapply name_in_sibling; eauto.
Qed.

(* ---- one call, any history ------------------------------------------------------------------------------ *)
Lemma mem_enum_allowed k l t : (forall t, In t l -> type_allowed k t = true) -> mem_str t l = true -> type_allowed k t = true.
Proof. intros H M. apply H. apply mem_str_In. exact M. Qed.

Lemma service_type_ok t : mem_str t enum_service_types = true -> type_allowed KNS t = true.
Proof. intro H. apply service_types_in_vocab. apply mem_str_In. exact H. Qed.

Lemma reads_need_elem x : reads (need_elem x).
Proof. unfold need_elem. auto 8 with reads. Qed.
Lemma reads_for_each_need_elem l : reads (for_each l need_elem).
Proof. apply reads_for_each. intro. apply reads_need_elem. Qed.
Lemma reads_for_each_need l : reads (for_each l (need KCP)).
Proof. apply reads_for_each. intro. apply reads_need. Qed.

Lemma run_op_preserves_basic sub fl hint o s s' r :
  WF (sg s) -> op_pre_basic (sg s) o = true -> run_op sub fl hint o s = (s', r) -> WF (sg s').
Proof.
  intros W P R. destruct o; simpl in P; try discriminate P; unfold run_op in R.
  - (* add_node *)
    apply bind_inv in R as [[s1 [id [R1 R2]]]|[e0 [R1 _]]]; [apply ret_inv in R2 as [-> _]|];
      (eapply api_add_node; [exact W | eapply mem_enum_allowed; [apply node_types_in_vocab | exact P] | exact R1]).
  - (* node.add_component *)
    peel R W. eapply api_node_add_component; eauto.
  - (* node.add_storage *)
    peel R W. eapply api_node_add_storage; eauto.
  - (* add_network_service without interfaces *)
    destruct ifs; [|discriminate P]. simpl in R.
    apply bind_inv in R as [[s1 [[] [R1 R2]]]|[e0 [R1 _]]]; [|apply ret_inv in R1 as [_ R1]; discriminate].
    apply ret_inv in R1 as [-> _]. eapply (api_add_ns_nil fl); [exact W | apply service_type_ok; exact P | exact R2].
  - (* node.add_network_service *)
    peel R W.
    apply bind_inv in R as [[s1 [id [R1 R2]]]|[e0 [R1 _]]]; [apply ret_inv in R2 as [-> _]|];
      (eapply api_node_add_ns; [exact W | apply service_type_ok; exact P | exact R1]).
  - (* add_link *)
    apply andb_true_iff in P as [P1 P2].
    apply bind_reads in R; [| apply (reads_for_each_need_elem ifs) ].
    destruct R as [[s1 [u [Hm [Hg R]]]] | [e [Hr Hg]]]; [| rewrite Hg; exact W].
    rewrite <- Hg in W, P2.
    eapply api_add_link; [exact W | eapply mem_enum_allowed; [apply link_types_in_vocab | exact P1] | exact P2 | exact R].
  - (* remove_link *)
    eapply api_remove_link; eauto.
  - (* add_child_interface *)
    peel R W. eapply api_add_sub; eauto.
  - (* rename *)
    peel R W. eapply api_rename; eauto.
  - (* set_property *)
    peel R W. destruct p; try discriminate P; (eapply api_set_property; [exact W | | | exact R]); intro X; try (destruct X as [X|X]); try discriminate X; exact P.
  - (* unset_property *)
    peel R W. eapply api_unset_property; eauto.
Qed.


(* C20 proofs, part 1: fuel adequacy of `run`, soundness of the compositional checker `ab` for ANY event
   automaton, and its instance for the lock automaton (lock_ok). *)
From Coq Require Import List NArith Bool String Lia.
From FIM Require Import Model.Locks20.
Import ListNotations.
Open Scope N_scope.

(* ------------------------------------------------------------------------------------------- *)
(* small facts                                                                                  *)
(* ------------------------------------------------------------------------------------------- *)
Lemma pop_len p : (List.length (snd (pop p)) <= List.length p)%nat.
Proof. destruct p; simpl; lia. Qed.

Lemma pop_true_len p : fst (pop p) = true -> (List.length (snd (pop p)) < List.length p)%nat.
Proof. destruct p; simpl; intros; [discriminate|lia]. Qed.

Lemma accept_app tf a e1 e2 :
  accept tf a (e1 ++ e2) = match accept tf a e1 with Some a1 => accept tf a1 e2 | None => None end.
Proof.
  revert a; induction e1 as [|[ln k] e1 IH]; intro a; simpl; [reflexivity|].
  destruct (tf a k); [apply IH|reflexivity].
Qed.

(* ------------------------------------------------------------------------------------------- *)
(* fuel: with fuel > length of the path no loop runs out of fuel, and the path never grows       *)
(* ------------------------------------------------------------------------------------------- *)
Definition fine (fuel : nat) (x : path -> xres) : Prop :=
  forall p, (List.length p < fuel)%nat ->
    out_of (x p) <> OFuel /\ (List.length (rest_of (x p)) <= List.length p)%nat.

Lemma fine_guard fm f ln fuel k :
  fine fuel k -> fine fuel (fun p => guard_fault fm f ln p k).
Proof.
  intros Hk p Hp. unfold guard_fault. destruct (is_fp fm f); [|apply Hk; exact Hp].
  pose proof (pop_len p) as Hl. destruct (pop p) as [b p'] eqn:E. simpl in Hl.
  destruct b.
  - split; [discriminate|]. unfold rest_of; simpl. exact Hl.
  - destruct (Hk p') as [H1 H2]; [lia|]. split; [exact H1|lia].
Qed.

Lemma fine_seqx fuel x k :
  fine fuel x -> fine fuel k -> fine fuel (fun p => seqx (x p) k).
Proof.
  intros Hx Hk p Hp. destruct (Hx p Hp) as [H1 H2]. unfold seqx.
  destruct (out_of (x p)) eqn:E; try (split; [congruence|exact H2]).
  destruct (Hk (rest_of (x p))) as [H3 H4]; [lia|].
  unfold out_of, rest_of in *; simpl. split; [exact H3|lia].
Qed.

Lemma fine_pre fuel e x : fine fuel x -> fine fuel (fun p => pre e (x p)).
Proof. intros Hx p Hp. destruct (Hx p Hp). unfold pre, out_of, rest_of in *; simpl. auto. Qed.

Lemma fine_loop fm ln f fuel body :
  fine fuel body ->
  forall n p, (List.length p < n)%nat -> (n <= fuel)%nat ->
    out_of (loop_exec fm ln f body n p) <> OFuel /\
    (List.length (rest_of (loop_exec fm ln f body n p)) <= List.length p)%nat.
Proof.
  intros Hb. induction n as [|n IH]; intros p Hp Hn; [lia|].
  simpl. unfold guard_fault.
  assert (Hcont : forall p', (List.length p' <= List.length p)%nat ->
     let r := (let (b, p'') := pop p' in
               if b then pre (ln, KAct XLocal) (seqx (body p'') (loop_exec fm ln f body n))
               else (ONormal, [(ln, KAct XLocal)], p'')) in
     out_of r <> OFuel /\ (List.length (rest_of r) <= List.length p)%nat).
  { intros p' Hp'. pose proof (pop_len p') as Hl. pose proof (pop_true_len p') as Ht.
    destruct (pop p') as [b p''] eqn:E. simpl in *. destruct b.
    - specialize (Ht eq_refl).
      destruct (Hb p'') as [H1 H2]; [lia|].
      unfold pre, seqx. destruct (out_of (body p'')) eqn:Eo; unfold out_of, rest_of in *; simpl;
        try (split; [congruence|lia]).
      destruct (IH (snd (body p''))) as [H3 H4]; [lia|lia|].
      split; [exact H3|lia].
    - split; [discriminate|]. unfold rest_of; simpl. lia. }
  destruct (is_fp fm f).
  - pose proof (pop_len p) as Hl. destruct (pop p) as [b p'] eqn:E. simpl in Hl. destruct b.
    + split; [discriminate|]. unfold rest_of; simpl. exact Hl.
    + apply Hcont. exact Hl.
  - apply Hcont. lia.
Qed.

Lemma fine_hstage fuel (r1 : xres) hl hs (n : nat) :
  fine fuel hs -> (n < fuel)%nat -> out_of r1 <> OFuel -> (List.length (rest_of r1) <= n)%nat ->
  out_of (hstage r1 hl hs) <> OFuel /\ (List.length (rest_of (hstage r1 hl hs)) <= n)%nat.
Proof.
  intros Hh Hn B1 B2. unfold hstage.
  destruct (out_of r1) eqn:Eo; try (split; [congruence|exact B2]).
  destruct hl as [l|]; [|split; [congruence|exact B2]].
  destruct (Hh (rest_of r1)) as [C1 C2]; [lia|].
  unfold out_of, rest_of in *; simpl. split; [exact C1|lia].
Qed.

Lemma fine_fstage fuel (r2 : xres) fin (n : nat) :
  fine fuel fin -> (n < fuel)%nat -> out_of r2 <> OFuel -> (List.length (rest_of r2) <= n)%nat ->
  out_of (fstage r2 fin) <> OFuel /\ (List.length (rest_of (fstage r2 fin)) <= n)%nat.
Proof.
  intros Hf Hn D1 D2. unfold fstage.
  destruct (Hf (rest_of r2)) as [F1 F2]; [lia|].
  destruct (out_of r2) eqn:Er2; try congruence;
    unfold out_of, rest_of in *; simpl;
    (split; [destruct (fst (fst (fin (snd r2)))); congruence|lia]).
Qed.

Lemma fine_try fuel ln body hl hs fin :
  fine fuel body -> fine fuel hs -> fine fuel fin ->
  fine fuel (try_exec ln body hl hs fin).
Proof.
  intros Hb Hh Hf p Hp. unfold try_exec.
  destruct (Hb p Hp) as [B1 B2].
  destruct (fine_hstage fuel (body p) hl hs (List.length p) Hh Hp B1 B2) as [D1 D2].
  destruct (fine_fstage fuel _ fin (List.length p) Hf Hp D1 D2) as [G1 G2].
  unfold pre. unfold out_of at 1. unfold rest_of at 1. simpl.
  destruct (out_of (body p)) eqn:Eo; try congruence; split; assumption.
Qed.

Lemma exec_fine fm fuel s : fine fuel (exec fm fuel s).
Proof.
  induction s; simpl.
  - intros p Hp. split; [discriminate|]. unfold rest_of; simpl; lia.
  - intros p Hp. split; [discriminate|]. unfold rest_of; simpl; lia.
  - intros p Hp. split; [discriminate|]. unfold rest_of; simpl; lia.
  - apply fine_guard. intros p Hp. split; [discriminate|]. unfold rest_of; simpl; lia.
  - apply fine_seqx; assumption.
  - apply fine_guard. intros p Hp.
    pose proof (pop_len p) as Hl. destruct (pop p) as [b p'] eqn:E. simpl in Hl.
    destruct b; [destruct (IHs1 p') as [H1 H2]|destruct (IHs2 p') as [H1 H2]]; try lia;
      unfold pre, out_of, rest_of in *; simpl; (split; [exact H1|lia]).
  - intros p Hp. apply (fine_loop fm ln f fuel _ IHs); [exact Hp|lia].
  - apply fine_try; assumption.
  - apply fine_guard. intros p Hp. split; [discriminate|]. unfold rest_of; simpl; lia.
  - intros p Hp. split; [discriminate|]. unfold rest_of; simpl; lia.
  - (* with self.lock *)
    intros p Hp. destruct (IHs p Hp) as [B1 B2].
    assert (Hrel : fine fuel (fun q : path => (ONormal, [(ln, KRel)], q))).
    { intros q Hq. split; [discriminate|]. unfold rest_of; simpl; lia. }
    destruct (fine_fstage fuel (exec fm fuel s p) _ (List.length p) Hrel Hp B1 B2) as [G1 G2].
    unfold pre, out_of, rest_of in *; simpl. split; assumption.
  - (* acquire with timeout *)
    intros p Hp. pose proof (pop_len p) as Hl. destruct (pop p) as [b p'] eqn:E. simpl in Hl.
    destruct b.
    + destruct (IHs p') as [H1 H2]; [lia|]. unfold pre, out_of, rest_of in *; simpl. split; [exact H1|lia].
    + split; [discriminate|]. unfold rest_of; simpl. exact Hl.
Qed.

Lemma run_no_fuel fm s p : out_of (run fm s p) <> OFuel.
Proof. unfold run. apply (exec_fine fm (S (List.length p)) s p). lia. Qed.

(* ------------------------------------------------------------------------------------------- *)
(* soundness of the compositional checker for any automaton                                     *)
(* ------------------------------------------------------------------------------------------- *)
Lemma runion_ok r1 r2 : ok (runion r1 r2) = true -> ok r1 = true /\ ok r2 = true.
Proof. unfold runion; simpl. intro H. apply andb_true_iff in H. exact H. Qed.

Lemma sel_runion_l o r1 r2 x : In x (sel o r1) -> In x (sel o (runion r1 r2)).
Proof. destruct o; simpl; intro H; try apply in_or_app; auto. Qed.
Lemma sel_runion_r o r1 r2 x : In x (sel o r2) -> In x (sel o (runion r1 r2)).
Proof. destruct o; simpl; intro H; try apply in_or_app; auto. Qed.

Lemma fold_ok (f : N -> res) l x :
  ok (fold_right (fun a acc => runion (f a) acc) rempty l) = true -> In x l -> ok (f x) = true.
Proof.
  induction l as [|y l IH]; simpl; intros H Hin; [contradiction|].
  apply andb_true_iff in H as [H1 H2]. destruct Hin as [->|Hin]; auto.
Qed.
Lemma fold_sel (f : N -> res) l x o y :
  In x l -> In y (sel o (f x)) -> In y (sel o (fold_right (fun a acc => runion (f a) acc) rempty l)).
Proof.
  induction l as [|z l IH]; simpl; intros Hin Hy; [contradiction|].
  destruct Hin as [->|Hin]; [apply sel_runion_l; exact Hy|apply sel_runion_r; auto].
Qed.

Lemma bindr_ok f l x : ok (bindr l f) = true -> In x l -> ok (f x) = true.
Proof. unfold bindr, dedup. intros H Hin. eapply fold_ok; [exact H|]. apply nodup_In. exact Hin. Qed.
Lemma bindr_sel f l x o y : In x l -> In y (sel o (f x)) -> In y (sel o (bindr l f)).
Proof. unfold bindr, dedup. intros Hin Hy. eapply fold_sel; [|exact Hy]. apply nodup_In. exact Hin. Qed.

Section Sound.
Variable tf : auto.
Variable fm : fmode.

Definition good (a : N) (r : res) (x : xres) : Prop :=
  ok r = true -> out_of x <> OFuel ->
  exists a', accept tf a (evs_of x) = Some a' /\ In a' (sel (out_of x) r).

Lemma good_fault a f ln r k p :
  (forall p', good a r (k p')) ->
  good a (with_fault tf fm f a r) (guard_fault fm f ln p k).
Proof.
  intros Hk. unfold with_fault, guard_fault. destruct (is_fp fm f); [|apply Hk].
  destruct (pop p) as [b p']. destruct b.
  - intros Hok _. apply runion_ok in Hok as [H1 _].
    destruct (tf a (KFault f)) as [ax|] eqn:E; [|discriminate].
    exists ax. unfold evs_of, out_of; simpl. rewrite E. split; [reflexivity|left; reflexivity].
  - intros Hok Hf. apply runion_ok in Hok as [_ H2].
    destruct (Hk p' H2 Hf) as [a' [A1 A2]]. exists a'. split; [exact A1|].
    apply sel_runion_r. exact A2.
Qed.

Lemma good_pre a a1 k ln r x :
  tf a k = Some a1 -> good a1 r x -> good a r (pre (ln, k) x).
Proof.
  intros E H Hok Hf. unfold pre, out_of, evs_of in *; simpl in *.
  destruct (H Hok Hf) as [a' [A1 A2]]. exists a'. rewrite E. auto.
Qed.

Definition seq_res (r1 : res) (f : N -> res) : res :=
  let r2 := bindr (rn r1) f in R (ok r1 && ok r2) (rn r2) (rr r1 ++ rr r2) (rx r1 ++ rx r2).

Lemma good_seq a r1 f x1 k :
  good a r1 x1 ->
  (forall a1 p, In a1 (rn r1) -> good a1 (f a1) (k p)) ->
  good a (seq_res r1 f) (seqx x1 k).
Proof.
  intros H1 H2 Hok Hf. unfold seq_res in Hok; simpl in Hok.
  apply andb_true_iff in Hok as [Ok1 Ok2].
  unfold seqx in *. destruct (out_of x1) eqn:Eo.
  - (* normal: continue *)
    destruct (H1 Ok1) as [a1 [A1 A2]]; [congruence|]. rewrite Eo in A2. simpl in A2.
    set (x2 := k (rest_of x1)) in *.
    unfold out_of at 1 in Hf. simpl in Hf.
    destruct (H2 a1 (rest_of x1) A2 (bindr_ok _ _ _ Ok2 A2) Hf) as [a2 [B1 B2]].
    exists a2. unfold evs_of at 1. simpl. rewrite accept_app, A1. split; [exact B1|].
    unfold out_of at 1. simpl. fold x2.
    pose proof (bindr_sel f (rn r1) a1 (out_of x2) a2 A2 B2) as B3.
    unfold seq_res. destruct (out_of x2); simpl in *; auto; apply in_or_app; right; exact B3.
  - destruct (H1 Ok1) as [a1 [A1 A2]]; [congruence|]. rewrite Eo in *. exists a1. split; [exact A1|].
    unfold seq_res; simpl in *. apply in_or_app; left; exact A2.
  - destruct (H1 Ok1) as [a1 [A1 A2]]; [congruence|]. rewrite Eo in *. exists a1. split; [exact A1|].
    unfold seq_res; simpl in *. apply in_or_app; left; exact A2.
  - congruence.
Qed.

Lemma sel_with_fault o f a r x : In x (sel o r) -> In x (sel o (with_fault tf fm f a r)).
Proof. unfold with_fault. destruct (is_fp fm f); [apply sel_runion_r|auto]. Qed.

Lemma good_loop a ln f body rb :
  tf a (KAct XLocal) = Some a ->
  ok rb = true -> forallb (N.eqb a) (rn rb) = true ->
  ok (with_fault tf fm f a (R true [a] (rr rb) (rx rb))) = true ->
  (forall p, good a rb (body p)) ->
  forall n p, good a (with_fault tf fm f a (R true [a] (rr rb) (rx rb))) (loop_exec fm ln f body n p).
Proof.
  intros Eh Okb Hall OkL Hb. induction n as [|n IH]; intro p.
  - intros _ Hf. simpl in Hf. unfold out_of in Hf; simpl in Hf. congruence.
  - simpl.
    assert (Hcont : forall p', good a (with_fault tf fm f a (R true [a] (rr rb) (rx rb)))
              (let (b, p'') := pop p' in
               if b then pre (ln, KAct XLocal) (seqx (body p'') (loop_exec fm ln f body n))
               else (ONormal, [(ln, KAct XLocal)], p''))).
    { intro p'. destruct (pop p') as [b p'']. destruct b.
      + intros _ Hf. unfold pre, seqx in *. unfold out_of at 1 in Hf; simpl in Hf.
        unfold out_of at 1. unfold evs_of at 1. simpl. rewrite Eh.
        destruct (out_of (body p'')) eqn:Eo.
        * destruct (Hb p'' Okb) as [a1 [A1 A2]]; [congruence|]. rewrite Eo in A2; simpl in A2.
          rewrite forallb_forall in Hall. apply Hall in A2. apply N.eqb_eq in A2. subst a1.
          unfold out_of at 1 in Hf. simpl in Hf.
          destruct (IH (rest_of (body p'')) OkL Hf) as [a2 [B1 B2]].
          exists a2. unfold evs_of at 1; simpl. rewrite accept_app, A1. split; [exact B1|].
          unfold out_of at 1; simpl. exact B2.
        * destruct (Hb p'' Okb) as [a1 [A1 A2]]; [congruence|]. rewrite Eo in *.
          exists a1. split; [exact A1|]. apply sel_with_fault. exact A2.
        * destruct (Hb p'' Okb) as [a1 [A1 A2]]; [congruence|]. rewrite Eo in *.
          exists a1. split; [exact A1|]. apply sel_with_fault. exact A2.
        * congruence.
      + intros _ _. exists a. unfold evs_of, out_of; simpl. rewrite Eh. split; [reflexivity|].
        apply (sel_with_fault ONormal). left; reflexivity. }
    unfold guard_fault. destruct (is_fp fm f) eqn:Efp; [|apply Hcont].
    destruct (pop p) as [b p']. destruct b; [|apply Hcont].
    intros _ _. pose proof OkL as O. unfold with_fault in O. rewrite Efp in O. apply runion_ok in O as [O1 _].
    destruct (tf a (KFault f)) as [ax|] eqn:E; [|discriminate].
    exists ax. unfold evs_of, out_of; simpl. rewrite E. split; [reflexivity|].
    unfold with_fault. rewrite Efp. apply (sel_runion_l ORaise). rewrite E. left; reflexivity.
Qed.

(* try / except / finally *)
Lemma good_hstage a0 rb x1 hl hs H :
  good a0 rb x1 ->
  (forall ax q, good ax (H ax) (hs q)) ->
  good a0 (hres tf rb hl H) (hstage x1 hl hs).
Proof.
  intros Hb Hh Hok Hfuel. unfold hstage in *. unfold hres in *.
  destruct hl as [l|].
  - simpl in Hok. apply andb_true_iff in Hok as [Okb Okh].
    destruct (out_of x1) eqn:Eo.
    + destruct (Hb Okb Hfuel) as [a1 [A1 A2]]. exists a1. split; [exact A1|]. rewrite Eo in *. simpl in *.
      apply in_or_app; left; exact A2.
    + destruct (Hb Okb Hfuel) as [a1 [A1 A2]]. exists a1. split; [exact A1|]. rewrite Eo in *. simpl in *.
      apply in_or_app; left; exact A2.
    + destruct (Hb Okb) as [a1 [A1 A2]]; [congruence|]. rewrite Eo in A2. simpl in A2.
      pose proof (bindr_ok _ _ _ Okh A2) as Ok1. cbv beta in Ok1.
      destruct (tf a1 (KAct XLocal)) as [a1'|] eqn:E1; [|simpl in Ok1; discriminate].
      unfold out_of at 1 in Hfuel. simpl in Hfuel.
      destruct (Hh a1' (rest_of x1) Ok1 Hfuel) as [a2 [B1 B2]].
      exists a2. unfold evs_of at 1; simpl. rewrite accept_app, A1. simpl. rewrite E1. split; [exact B1|].
      unfold out_of at 1; simpl.
      pose proof (bindr_sel (fun ax => match tf ax (KAct XLocal) with Some ax' => H ax' | None => rbad end)
                    (rx rb) a1 (out_of (hs (rest_of x1))) a2 A2) as B3.
      cbv beta in B3. rewrite E1 in B3. specialize (B3 B2).
      destruct (out_of (hs (rest_of x1))); simpl in *; auto; apply in_or_app; right; exact B3.
    + congruence.
  - assert (E : match out_of x1 with ORaise => x1 | _ => x1 end = x1) by (destruct (out_of x1); reflexivity).
    rewrite E in *. apply Hb; assumption.
Qed.

Lemma good_fstage a0 r2 x2 fin F :
  good a0 r2 x2 ->
  (forall ax q, good ax (F ax) (fin q)) ->
  good a0 (fres r2 F) (fstage x2 fin).
Proof.
  intros H2 Hf Hok Hfuel. unfold fres in Hok. cbv zeta in Hok. simpl in Hok.
  apply andb_true_iff in Hok as [Hok OkX]. apply andb_true_iff in Hok as [Hok OkR].
  apply andb_true_iff in Hok as [Ok2 OkN].
  unfold fstage in *.
  set (x3 := fin (rest_of x2)) in *.
  assert (N2 : out_of x2 <> OFuel).
  { intro Q. rewrite Q in Hfuel. apply Hfuel. exact Q. }
  destruct (H2 Ok2 N2) as [a2 [A1 A2]].
  assert (N3 : out_of x3 <> OFuel).
  { intro Q. destruct (out_of x2); try congruence; unfold out_of at 1 in Hfuel; simpl in Hfuel;
      rewrite Q in Hfuel; congruence. }
  assert (Goal3 : forall o2, out_of x2 = o2 -> o2 <> OFuel -> In a2 (sel o2 r2) ->
     exists a', accept tf a0 (evs_of x2 ++ evs_of x3) = Some a' /\
                In a' (sel (match out_of x3 with ONormal => o2 | o => o end) (fres r2 F))).
  { intros o2 Eo2 No2 In2.
    assert (Ok3 : ok (F a2) = true).
    { destruct o2; simpl in In2; try congruence;
        [apply (bindr_ok _ _ _ OkN In2)|apply (bindr_ok _ _ _ OkR In2)|apply (bindr_ok _ _ _ OkX In2)]. }
    destruct (Hf a2 (rest_of x2) Ok3 N3) as [a3 [B1 B2]]. fold x3 in B1, B2.
    exists a3. rewrite accept_app, A1. split; [exact B1|].
    unfold fres; cbv zeta; unfold fin_n, fin_r, fin_x; simpl.
    destruct o2; simpl in In2; try congruence.
    - pose proof (bindr_sel F _ a2 (out_of x3) a3 In2 B2) as B3.
      destruct (out_of x3); simpl in *; try congruence; apply in_or_app; left; exact B3.
    - pose proof (bindr_sel F _ a2 (out_of x3) a3 In2 B2) as B3.
      destruct (out_of x3); simpl in *; try congruence.
      + apply in_or_app; right; apply in_or_app; left; apply in_or_app; left; exact B3.
      + apply in_or_app; right; apply in_or_app; left; apply in_or_app; right; exact B3.
      + apply in_or_app; right; apply in_or_app; left; exact B3.
    - pose proof (bindr_sel F _ a2 (out_of x3) a3 In2 B2) as B3.
      destruct (out_of x3); simpl in *; try congruence.
      + apply in_or_app; right; apply in_or_app; right; apply in_or_app; left; exact B3.
      + apply in_or_app; right; apply in_or_app; right; exact B3.
      + apply in_or_app; right; apply in_or_app; right; apply in_or_app; right; exact B3. }
  destruct (out_of x2) eqn:Eo2; try congruence;
    (destruct (Goal3 _ eq_refl N2 A2) as [a' [G1 G2]]; exists a'; unfold evs_of at 1, out_of at 1; simpl;
     split; [exact G1|exact G2]).
Qed.

Lemma good_try a a0 ln body hl hs fin rb H F p :
  tf a (KAct XLocal) = Some a0 ->
  (forall q, good a0 rb (body q)) ->
  (forall ax q, good ax (H ax) (hs q)) ->
  (forall ax q, good ax (F ax) (fin q)) ->
  good a (fres (hres tf rb hl H) F) (try_exec ln body hl hs fin p).
Proof.
  intros E0 Hb Hh Hf. unfold try_exec. apply (good_pre a a0 _ ln _ _ E0).
  assert (G : good a0 (fres (hres tf rb hl H) F) (fstage (hstage (body p) hl hs) fin)).
  { apply good_fstage; [|exact Hf]. apply good_hstage; [apply Hb|exact Hh]. }
  cbv zeta. destruct (out_of (body p)) eqn:Eo; try exact G.
  intros _ Hfuel. congruence.
Qed.

Theorem ab_sound : forall s fuel p a, good a (ab tf fm s a) (exec fm fuel s p).
Proof.
  induction s; intros fuel p a0; simpl.
  - intros _ _. exists a0. split; [reflexivity|left; reflexivity].
  - intros Hok _. destruct (tf a0 KAcq) as [a1|] eqn:E; [|discriminate].
    exists a1. unfold evs_of, out_of; simpl. rewrite E. split; [reflexivity|left; reflexivity].
  - intros Hok _. destruct (tf a0 KRel) as [a1|] eqn:E; [|discriminate].
    exists a1. unfold evs_of, out_of; simpl. rewrite E. split; [reflexivity|left; reflexivity].
  - apply good_fault. intros p' Hok _. destruct (tf a0 (KAct a)) as [a1|] eqn:E; [|discriminate].
    exists a1. unfold evs_of, out_of; simpl. rewrite E. split; [reflexivity|left; reflexivity].
  - apply (good_seq a0 (ab tf fm s1 a0) (ab tf fm s2)); [apply IHs1|]. intros a1 q _. apply IHs2.
  - apply good_fault. intros p' Hok Hf.
    apply runion_ok in Hok as [Ok1 Ok2].
    destruct (pop p') as [b p'']. destruct b.
    + destruct (tf a0 (KIf a c true)) as [a1|] eqn:E; [|discriminate].
      destruct (good_pre a0 a1 _ ln _ _ E (IHs1 fuel p'' a1) Ok1 Hf) as [a' [A1 A2]].
      exists a'. split; [exact A1|]. apply sel_runion_l. exact A2.
    + destruct (tf a0 (KIf a c false)) as [a1|] eqn:E; [|discriminate].
      destruct (good_pre a0 a1 _ ln _ _ E (IHs2 fuel p'' a1) Ok2 Hf) as [a' [A1 A2]].
      exists a'. split; [exact A1|]. apply sel_runion_r. exact A2.
  - destruct (tf a0 (KAct XLocal)) as [a1|] eqn:E; [|intros Hok; discriminate].
    intros Hok Hf.
    assert (C : N.eqb a1 a0 && ok (ab tf fm s a0) && forallb (N.eqb a0) (rn (ab tf fm s a0)) = true).
    { unfold with_fault in Hok. destruct (is_fp fm f); [apply runion_ok in Hok; tauto|exact Hok]. }
    apply andb_true_iff in C as [C C3]. apply andb_true_iff in C as [C1 C2].
    apply N.eqb_eq in C1. subst a1.
    assert (Q : with_fault tf fm f a0 (R (N.eqb a0 a0 && ok (ab tf fm s a0) && forallb (N.eqb a0) (rn (ab tf fm s a0)))
                   [a0] (rr (ab tf fm s a0)) (rx (ab tf fm s a0)))
              = with_fault tf fm f a0 (R true [a0] (rr (ab tf fm s a0)) (rx (ab tf fm s a0)))).
    { rewrite N.eqb_refl, C2, C3. reflexivity. }
    rewrite Q in *.
    apply (good_loop a0 ln f (exec fm fuel s) (ab tf fm s a0) E C2 C3 Hok (fun q => IHs fuel q a0) fuel p Hok Hf).
  - destruct (tf a0 (KAct XLocal)) as [a1|] eqn:E; [|intros Hok; discriminate].
    apply (good_try a0 a1 ln (exec fm fuel s1) hl (exec fm fuel s2) (exec fm fuel s3)
                    (ab tf fm s1 a1) (ab tf fm s2) (ab tf fm s3) p E).
    + intro q. apply IHs1.
    + intros ax q. apply IHs2.
    + intros ax q. apply IHs3.
  - apply good_fault. intros p' Hok _. destruct (tf a0 (KAct a)) as [a1|] eqn:E; [|discriminate].
    exists a1. unfold evs_of, out_of; simpl. rewrite E. split; [reflexivity|left; reflexivity].
  - intros Hok _. destruct (tf a0 (KAct XLocal)) as [a1|] eqn:E; [|discriminate].
    exists a1. unfold evs_of, out_of; simpl. rewrite E. split; [reflexivity|left; reflexivity].
  - (* with self.lock *)
    destruct (tf a0 KAcq) as [a1|] eqn:E; [|intros Hok; discriminate].
    apply (good_pre a0 a1 _ ln _ _ E).
    apply good_fstage; [apply IHs|].
    intros ax q Hok _. destruct (tf ax KRel) as [a2|] eqn:E2; [|discriminate].
    exists a2. unfold evs_of, out_of; simpl. rewrite E2. split; [reflexivity|left; reflexivity].
  - (* acquire with timeout *)
    intros Hok Hf. apply runion_ok in Hok as [Ok1 Ok2].
    destruct (pop p) as [b p']. destruct b.
    + destruct (tf a0 (KAct XAcqFail)) as [a1|] eqn:E; [|discriminate].
      destruct (good_pre a0 a1 _ ln _ _ E (IHs fuel p' a1) Ok2 Hf) as [a' [A1 A2]].
      exists a'. split; [exact A1|]. apply sel_runion_r. exact A2.
    + destruct (tf a0 KAcq) as [a1|] eqn:E; [|discriminate].
      exists a1. unfold evs_of, out_of; simpl. rewrite E. split; [reflexivity|].
      left; reflexivity.
Qed.

End Sound.

(* ------------------------------------------------------------------------------------------- *)
(* a method that passes the checker: every path's trace is accepted and comes back to a0        *)
(* ------------------------------------------------------------------------------------------- *)
Theorem meth_ok_sound tf fm a0 m :
  meth_ok tf fm a0 m = true ->
  forall p, out_of (run fm m p) <> OFuel /\ accept tf a0 (evs_of (run fm m p)) = Some a0.
Proof.
  unfold meth_ok. intros H p. apply andb_true_iff in H as [Hok Hall].
  pose proof (run_no_fuel fm m p) as Hf. split; [exact Hf|].
  unfold run in *.
  destruct (ab_sound tf fm m (S (List.length p)) p a0 Hok Hf) as [a' [A1 A2]].
  rewrite A1. f_equal.
  rewrite forallb_forall in Hall.
  assert (Hin : In a' (rn (ab tf fm m a0) ++ rr (ab tf fm m a0) ++ rx (ab tf fm m a0))).
  { destruct (out_of (exec fm (S (List.length p)) m p)); simpl in A2.
    - apply in_or_app; left; exact A2.
    - apply in_or_app; right; apply in_or_app; left; exact A2.
    - apply in_or_app; right; apply in_or_app; right; exact A2.
    - contradiction. }
  apply Hall in Hin. apply N.eqb_eq in Hin. symmetry. exact Hin.
Qed.

(* the lock automaton and the readable `balanced` *)
Definition b2n (h : bool) : N := if h then 1 else 0.

Lemma lockA_step h k a' :
  lockA (b2n h) k = Some a' ->
  is_relock k = false /\
  match k with
  | KAcq => h = false /\ a' = 1
  | KRel => h = true /\ a' = 0
  | _ => a' = b2n h
  end.
Proof.
  unfold lockA. destruct (is_relock k) eqn:Er; [discriminate|]. intro H. split; [reflexivity|].
  destruct k; destruct h; simpl in H; try discriminate; inversion H; auto.
Qed.

Lemma lockA_balanced : forall evs h, accept lockA (b2n h) evs = Some 0 -> balanced_from h evs = true.
Proof.
  induction evs as [|[ln k] evs IH]; intros h H.
  - destruct h; simpl in *; [discriminate|reflexivity].
  - simpl in H. destruct (lockA (b2n h) k) as [a'|] eqn:E; [|discriminate].
    apply lockA_step in E as [_ E]. destruct k; simpl.
    + destruct E as [-> ->]. apply (IH true). exact H.
    + destruct E as [-> ->]. apply (IH false). exact H.
    + subst a'. apply IH; exact H.
    + subst a'. apply IH; exact H.
    + subst a'. apply IH; exact H.
Qed.

(* the lock object is never replaced along an accepted trace *)
Lemma lockA_no_relock : forall evs a a', accept lockA a evs = Some a' ->
  forallb (fun e : event => negb (is_relock (snd e))) evs = true.
Proof.
  induction evs as [|[ln k] evs IH]; intros a a' H; [reflexivity|].
  simpl in *. destruct (lockA a k) as [a1|] eqn:E; [|discriminate].
  unfold lockA in E. destruct (is_relock k); [discriminate|]. simpl. apply (IH a1 a'). exact H.
Qed.

Lemma no_relock_gen : forall pre suf g,
  forallb (fun e : event => negb (is_relock (snd e))) (pre ++ suf) = true -> lock_gen pre g = g.
Proof.
  induction pre as [|[ln k] pre IH]; intros suf g H; [reflexivity|].
  simpl in *. apply andb_true_iff in H as [H1 H2]. destruct (is_relock k); [discriminate|].
  apply (IH suf). exact H2.
Qed.

Lemma balanced_counts : forall evs h, balanced_from h evs = true ->
  (count_acq evs + (if h then 1 else 0) = count_rel evs)%nat.
Proof.
  unfold count_acq, count_rel.
  induction evs as [|[ln k] evs IH]; intros h H.
  - destruct h; simpl in *; [discriminate|reflexivity].
  - simpl in H. destruct k; simpl in *.
    + destruct h; simpl in *; [discriminate|]. specialize (IH true H). simpl in IH. lia.
    + destruct h; simpl in *; [|discriminate]. specialize (IH false H). simpl in IH. lia.
    + apply IH; exact H.
    + apply IH; exact H.
    + apply IH; exact H.
Qed.

(* never a release while the lock is free, never an acquire while it is held: every prefix is accepted *)
Lemma accept_prefix tf a e1 e2 : accept tf a (e1 ++ e2) <> None -> accept tf a e1 <> None.
Proof. rewrite accept_app. destruct (accept tf a e1); congruence. Qed.

Theorem lock_checker_sound m :
  lock_ok m = true ->
  forall p, let r := run AllFaults m p in
    out_of r <> OFuel /\ balanced (evs_of r) = true /\ count_acq (evs_of r) = count_rel (evs_of r).
Proof.
  intros H p r. destruct (meth_ok_sound lockA AllFaults 0 m H p) as [H1 H2]. fold r in H1, H2.
  split; [exact H1|]. pose proof (lockA_balanced (evs_of r) false H2) as B. split; [exact B|].
  pose proof (balanced_counts _ _ B) as C. simpl in C. lia.
Qed.

(* sequences of calls, each along any path (failing ones included), leave the lock free *)
Definition run_calls (cs : list (stmt * path)) : list event :=
  flat_map (fun c => evs_of (run AllFaults (fst c) (snd c))) cs.

Theorem sequences_balanced cs :
  (forall c, In c cs -> lock_ok (fst c) = true) -> balanced (run_calls cs) = true.
Proof.
  intro H. apply (lockA_balanced _ false). simpl.
  induction cs as [|c cs IH]; [reflexivity|].
  unfold run_calls in *. simpl. rewrite accept_app.
  destruct (meth_ok_sound lockA AllFaults 0 (fst c) (H c (or_introl eq_refl)) (snd c)) as [_ A].
  rewrite A. apply IH. intros c' Hin. apply H. right; exact Hin.
Qed.

(* lock identity: along every path of a method that passes lock_ok, at every point of the trace the lock
   object is still the one the store was created with (no assignment to self.lock, no re-run of __init__) *)
Theorem lock_identity_constant m :
  lock_ok m = true ->
  forall p pre suf g, evs_of (run AllFaults m p) = pre ++ suf -> lock_gen pre g = g.
Proof.
  intros H p pre suf g E. destruct (meth_ok_sound lockA AllFaults 0 m H p) as [_ A].
  apply (no_relock_gen pre suf). rewrite <- E. apply (lockA_no_relock _ 0 0). exact A.
Qed.

Theorem sequences_lock_identity cs :
  (forall c, In c cs -> lock_ok (fst c) = true) ->
  forall pre suf g, run_calls cs = pre ++ suf -> lock_gen pre g = g.
Proof.
  intros H pre suf g E. apply (no_relock_gen pre suf). rewrite <- E. apply (lockA_no_relock _ 0 0).
  clear E. induction cs as [|c cs IH]; [reflexivity|].
  unfold run_calls in *. simpl. rewrite accept_app.
  destruct (meth_ok_sound lockA AllFaults 0 (fst c) (H c (or_introl eq_refl)) (snd c)) as [_ A].
  rewrite A. apply IH. intros c' Hin. apply H. right; exact Hin.
Qed.

(* the store object is created once: with an accepted guard shape, constructing further shells (importers,
   topologies) never replaces an existing store, whatever it holds *)
Theorem singleton_identity sh : singleton_ok sh = true -> forall n, replaces sh (Some n) = false.
Proof.
  unfold singleton_ok, replaces. destruct (sg_guard sh); intros H n; [reflexivity|].
  destruct (sg_has_len sh), (sg_has_bool sh); simpl in H; try discriminate. reflexivity.
Qed.

Theorem singleton_rejected_witness sh : singleton_ok sh = false -> exists n, singleton_witness sh = Some n /\ replaces sh (Some n) = true.
Proof.
  unfold singleton_ok, singleton_witness, replaces. destruct (sg_guard sh); [discriminate|].
  destruct (sg_has_bool sh), (sg_has_len sh); simpl; intro H; try discriminate; exists 0; split; reflexivity.
Qed.

(* C14 - refinement, connections: the invariant of merge_adm's loop over the common nodes.
   ci k / ti k = internal id of the combined-graph / temporary node with NodeID k (before the loop),
   e0 = connection data before the loop.  After the common nodes P have been merged:
   - between two combined-graph nodes: the connection they had, else (both in P) the one their images had;
   - between a combined-graph node and a not yet merged image: the connection of the two images if the first is in P;
   - between two not yet merged images: as before.  "An existing connection wins." *)
From Coq Require Import List NArith Bool Lia.
From FIM Require Import Model.Cbm14Store Model.Cbm14Spec Model.Cbm14Abs Proofs.Cbm14Assoc Proofs.Cbm14Frame
     Proofs.Cbm14RefBase Proofs.Cbm14RefFold Proofs.Cbm14RefEdge.
Import ListNotations.
Open Scope N_scope.

Section Loop.
  Variables (ci ti : N -> option N) (e0 : N -> N -> option edata).
  Definition tt (a b : N) : option edata :=
    match ti a, ti b with Some i, Some j => e0 i j | _, _ => None end.

  Hypothesis ci_inj : forall a b i, ci a = Some i -> ci b = Some i -> a = b.
  Hypothesis ti_inj : forall a b i, ti a = Some i -> ti b = Some i -> a = b.
  Hypothesis ct_disj : forall a b i, ci a = Some i -> ti b = Some i -> False.
  Hypothesis e0_sym : forall i j, e0 i j = e0 j i.

  Record EI (P : list N) (es : list edge) : Prop := mkEI {
    ei1 : forall a b i j, ci a = Some i -> ci b = Some j ->
          edat es i j = match e0 i j with
                        | Some d => Some d
                        | None => if memN a P && memN b P then tt a b else None end;
    ei2 : forall a b i j, ci a = Some i -> ti b = Some j -> memN b P = false ->
          edat es i j = if memN a P then tt a b else None;
    ei3 : forall a b i j, ti a = Some i -> ti b = Some j -> memN a P = false -> memN b P = false ->
          edat es i j = e0 i j
  }.

  Lemma tt_sym a b : tt a b = tt b a.
  Proof. unfold tt. destruct (ti a), (ti b); auto. Qed.

  Lemma ci_eqb a k i ik : ci a = Some i -> ci k = Some ik -> (i =? ik) = (a =? k).
  Proof.
    intros A K. destruct (N.eqb_spec a k) as [E|E].
    - subst. rewrite A in K. inversion K. apply N.eqb_refl.
    - apply N.eqb_neq. intro X. subst. apply E. eapply ci_inj; eauto.
  Qed.
  Lemma ti_eqb a k i ik : ti a = Some i -> ti k = Some ik -> (i =? ik) = (a =? k).
  Proof.
    intros A K. destruct (N.eqb_spec a k) as [E|E].
    - subst. rewrite A in K. inversion K. apply N.eqb_refl.
    - apply N.eqb_neq. intro X. subst. apply E. eapply ti_inj; eauto.
  Qed.
  Lemma ct_eqb a k i jk : ci a = Some i -> ti k = Some jk -> (i =? jk) = false.
  Proof. intros A K. apply N.eqb_neq. intro X. subst. eapply ct_disj; eauto. Qed.
  Lemma tc_eqb a k i ik : ti a = Some i -> ci k = Some ik -> (i =? ik) = false.
  Proof. intros A K. apply N.eqb_neq. intro X. subst. eapply ct_disj; eauto. Qed.

  (* merging the common node k *)
  Lemma EI_step k ik jk P st :
    ci k = Some ik -> ti k = Some jk -> memN k P = false -> tt k k = None ->
    EI P (s_edges st) -> EI (k :: P) (s_edges (contract ik jk st)).
  Proof.
    intros CK TK NP TKK [I1 I2 I3].
    assert (ik <> jk) as NE by (intro; subst; eapply ct_disj; eauto).
    assert (edat (s_edges st) jk jk = None) as SV.
    { rewrite (I3 k k jk jk TK TK NP NP). unfold tt in TKK. rewrite TK in TKK. exact TKK. }
    assert (edat (s_edges st) ik jk = None) as UV by (rewrite (I2 k k ik jk CK TK NP), NP; reflexivity).
    constructor.
    - intros a b i j A B. rewrite (contract_edat ik jk st i j NE SV UV).
      rewrite (ct_eqb a k i jk A TK), (ct_eqb b k j jk B TK). cbn [orb].
      rewrite (I1 a b i j A B), (ci_eqb a k i ik A CK), (ci_eqb b k j ik B CK). cbn [memN existsb].
      fold (memN a P) (memN b P).
      destruct (e0 i j) as [d|]; auto.
      destruct (N.eqb_spec a k) as [Ea|Ea]; destruct (N.eqb_spec b k) as [Eb|Eb]; subst; cbn [orb andb].
      + rewrite NP. cbn [andb]. rewrite CK in B. inversion B; subst j. rewrite (edat_sym _ jk ik), UV, TKK. reflexivity.
      + rewrite NP. cbn [andb]. rewrite (edat_sym _ jk j), (I2 b k j jk B TK NP), tt_sym. reflexivity.
      + rewrite NP, andb_false_r. rewrite (edat_sym _ jk i), (I2 a k i jk A TK NP), andb_true_r. reflexivity.
      + destruct (memN a P && memN b P); auto. destruct (tt a b); auto.
    - intros a b i j A B NB. cbn [memN existsb] in NB. fold (memN b P) in NB.
      apply orb_false_iff in NB as [NBk NB]. apply N.eqb_neq in NBk.
      rewrite (contract_edat ik jk st i j NE SV UV).
      rewrite (ct_eqb a k i jk A TK), (ti_eqb b k j jk B TK).
      assert (b =? k = false) as -> by (apply N.eqb_neq; auto). cbn [orb].
      rewrite (I2 a b i j A B NB), (ci_eqb a k i ik A CK), (tc_eqb b k j ik B CK). cbn [memN existsb]. fold (memN a P).
      destruct (N.eqb_spec a k) as [Ea|Ea]; subst; cbn [orb].
      + rewrite NP. rewrite (I3 k b jk j TK B NP NB). unfold tt. rewrite TK, B. reflexivity.
      + destruct (memN a P); auto. destruct (tt a b); auto.
    - intros a b i j A B NA NB. cbn [memN existsb] in NA, NB. fold (memN a P) in NA. fold (memN b P) in NB.
      apply orb_false_iff in NA as [NAk NA]. apply orb_false_iff in NB as [NBk NB].
      rewrite (contract_edat ik jk st i j NE SV UV).
      rewrite (ti_eqb a k i jk A TK), (ti_eqb b k j jk B TK), NAk, NBk. cbn [orb].
      rewrite (I3 a b i j A B NA NB), (tc_eqb a k i ik A CK), (tc_eqb b k j ik B CK).
      destruct (e0 i j); reflexivity.
  Qed.

  Lemma EI_init es :
    (forall a b i j, ci a = Some i -> ci b = Some j -> edat es i j = e0 i j) ->
    (forall a b i j, ci a = Some i -> ti b = Some j -> edat es i j = None) ->
    (forall a b i j, ti a = Some i -> ti b = Some j -> edat es i j = e0 i j) ->
    EI [] es.
  Proof.
    intros H1 H2 H3. constructor; intros; simpl.
    - rewrite (H1 a b i j); auto. destruct (e0 i j); auto.
    - eapply H2; eauto.
    - eapply H3; eauto.
  Qed.
End Loop.

Lemma contract_ebelow nx u v st : u < nx -> ebelow nx (s_edges st) -> ebelow nx (s_edges (contract u v st)).
Proof.
  intros Hu B.
  change (s_edges (contract u v st)) with
    (pop_contraction u (fold_left (reattach u v) (filter (fun e => (e_a e =? v) || (e_b e =? v)) (s_edges st))
                                  (filter (fun e => negb (e_a e =? v) && negb (e_b e =? v)) (s_edges st)))).
  apply pop_ebelow. apply fold_reattach_ebelow; auto.
  - intros e He. apply filter_In in He as [He _]. apply (B e He).
  - intros e He. apply filter_In in He as [He _]. apply (B e He).
Qed.

(* the loop of merge_adm, on stores *)
Lemma loop_edges cbm tmp adm nx ci ti e0 :
  (forall a b i, ci a = Some i -> ci b = Some i -> a = b) ->
  (forall a b i, ti a = Some i -> ti b = Some i -> a = b) ->
  (forall a b i, ci a = Some i -> ti b = Some i -> False) ->
  (forall i j, e0 i j = e0 j i) ->
  cbm <> tmp ->
  forall todo s st3 P,
    J nx (s_nodes s) -> ebelow nx (s_edges s) -> NoDup todo ->
    (forall k, In k todo -> memN k P = false) ->
    (forall k, In k todo -> option_map n_int (at_ cbm k (s_nodes s)) = ci k /\
                            option_map n_int (at_ tmp k (s_nodes s)) = ti k) ->
    (forall k, In k todo -> tt ti e0 k k = None) ->
    EI ci ti e0 P (s_edges s) ->
    fold_left (merge_one cbm tmp adm) todo (Some s) = Some st3 ->
    EI ci ti e0 (rev todo ++ P) (s_edges st3) /\ ebelow nx (s_edges st3).
Proof.
  intros CI TI CT ES NE. induction todo as [|x r IH]; intros s st3 P Js EB ND NP LK SL E H.
  - simpl in H. inversion H; subst. simpl. auto.
  - change (fold_left (merge_one cbm tmp adm) (x :: r) (Some s))
      with (fold_left (merge_one cbm tmp adm) r (merge_one cbm tmp adm (Some s) x)) in H.
    destruct (merge_one cbm tmp adm (Some s) x) as [s1|] eqn:M.
    2:{ exfalso. clear - H. induction r; simpl in H; [discriminate|auto]. }
    pose proof (merge_one_nodes cbm tmp adm (Some s) x) as MN. rewrite M in MN. simpl in MN, M.
    rewrite !find_node_at in M.
    destruct (at_ cbm x (s_nodes s)) as [c|] eqn:Hc; [|discriminate].
    destruct (at_ tmp x (s_nodes s)) as [t|] eqn:Ht; [|discriminate].
    destruct (n_si c) as [| |l] eqn:Si; try discriminate.
    inversion MN as [MN']. inversion M as [M']. clear MN M.
    destruct (LK x (or_introl eq_refl)) as [Lc Lt]. rewrite Hc in Lc. rewrite Ht in Lt. simpl in Lc, Lt.
    inversion ND as [|? ? NI ND']; subst.
    destruct (step_spec nx cbm tmp adm (s_nodes s) x c t l Js NE Hc Ht) as (J1 & _ & _ & S3).
    set (c' := set_si (SIds (l ++ [adm])) (set_dels (upd_d (n_ld c) (n_ld t)) (upd_d (n_cd c) (n_cd t)) c)) in *.
    assert (EI ci ti e0 (x :: P) (s_edges (contract (n_int c) (n_int t) (upd_node c' s)))) as E1.
    { apply (EI_step ci ti e0 CI TI CT ES x (n_int c) (n_int t) P (upd_node c' s)); auto.
      - apply NP; simpl; auto.
      - apply SL; simpl; auto. }
    assert (ebelow nx (s_edges (contract (n_int c) (n_int t) (upd_node c' s)))) as EB1.
    { apply contract_ebelow; auto. destruct Js as (_ & B & _). apply at_In in Hc as (Hc' & _). apply B. exact Hc'. }
    replace (rev (x :: r) ++ P) with (rev r ++ x :: P) by (simpl; rewrite <- app_assoc; reflexivity).
    apply (IH (contract (n_int c) (n_int t) (upd_node c' s)) st3 (x :: P)); auto.
    + intros k Hk. cbn [memN existsb]. fold (memN k P).
      assert (k <> x) as KX by (intro; subst; contradiction).
      assert (k =? x = false) as -> by (apply N.eqb_neq; auto). simpl. apply NP. simpl; auto.
    + intros k Hk. assert (k <> x) as KX by (intro; subst; contradiction).
      change (s_nodes (contract (n_int c) (n_int t) (upd_node c' s))) with (step_nodes adm c t l (s_nodes s)).
      rewrite !S3; try (intro Q; inversion Q; congruence). apply LK. simpl; auto.
    + intros k Hk. apply SL. simpl; auto.
Qed.

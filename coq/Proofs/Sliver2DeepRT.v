(* C02: deep dictionary and JSON round trips, for any nesting (induction on the sliver tree). *)
From Coq Require Import List String NArith Bool Lia.
From FIM Require Import Base.Str Model.Sliver2Kinds Gen.PropMap Model.Sliver2Map Model.Sliver2WF
  Model.Sliver2Deep Model.Sliver2DeepWF Proofs.Sliver2Assoc Proofs.Sliver2MapRT.
Import ListNotations.

(* the lemmas of this file must not depend on the CONTENT of the regenerated tables *)
Local Opaque enums type_enum to_base from_base to_specific from_specific setters getters init_attrs
  sliver_property_to_graph no_unset_properties child_keys node_id_prop.

Definition OForall {A} (P : A -> Prop) (o : option (list A)) : Prop :=
  match o with None => True | Some l => Forall P l end.

Section TreeInd.
  Variable P : tree -> Prop.
  Hypothesis HT : forall k nid a c n i, OForall P c -> OForall P n -> OForall P i -> P (T k nid a c n i).
  Fixpoint tree_ind' (t : tree) : P t :=
    match t with
    | T k nid a c n i =>
        let lf := fix lf (l : list tree) : Forall P l :=
                    match l with
                    | [] => Forall_nil P
                    | u :: r => Forall_cons u (tree_ind' u) (lf r)
                    end in
        let of := fun o : option (list tree) =>
                    match o return OForall P o with None => I | Some l => lf l end in
        HT k nid a c n i (of c) (of n) (of i)
    end.
End TreeInd.

Section DdInd.
  Variable P : dd -> Prop.
  Hypothesis HD : forall p kids, Forall (fun kl => Forall P (snd kl)) kids -> P (DD p kids).
  Fixpoint dd_ind' (d : dd) : P d :=
    match d with
    | DD p kids =>
        let lf := fix lf (l : list dd) : Forall P l :=
                    match l with
                    | [] => Forall_nil P
                    | u :: r => Forall_cons u (dd_ind' u) (lf r)
                    end in
        let kf := fix kf (ks : list (string * list dd)) : Forall (fun kl => Forall P (snd kl)) ks :=
                    match ks with
                    | [] => Forall_nil _
                    | kl :: r => Forall_cons kl (lf (snd kl)) (kf r)
                    end in
        HD p kids (kf kids)
    end.
End DdInd.

(* ---------- unfolding equations ---------- *)
Definition conv (kl : string * list dd) : string * res (list tree) :=
  match kl with (key, l) => (key, mapM (from_dict (child_kind key)) l) end.

Lemma from_dict_eq k p kids :
  from_dict k (DD p kids) =
  bind (from_props k p) (fun a =>
  bind (if has_comps k then build_kids KComponent (alookup k_components (map conv kids)) else Ok None) (fun c =>
  bind (if has_nss k then build_kids KService (alookup k_services (map conv kids)) else Ok None) (fun n =>
  bind (if has_ifs k then build_kids KInterface (alookup k_interfaces (map conv kids)) else Ok None) (fun i =>
    Ok (T k (node_id_of p) a c n i))))).
Proof. reflexivity. Qed.

Lemma to_dict_eq k nid a c n i :
  to_dict (T k nid a c n i) =
  bind (to_props k a) (fun p =>
  bind (if has_comps k then optM (mapM to_dict) c else Ok None) (fun c' =>
  bind (if has_nss k then optM (mapM to_dict) n else Ok None) (fun n' =>
  bind (if has_ifs k then optM (mapM to_dict) i else Ok None) (fun i' =>
    Ok (DD p (kid_entry true k_components c' ++ kid_entry true k_services n'
              ++ kid_entry true k_interfaces i')))))).
Proof. reflexivity. Qed.

Definition kidsof (c' n' i' : option (list dd)) :=
  kid_entry true k_components c' ++ kid_entry true k_services n' ++ kid_entry true k_interfaces i'.

Lemma look_comps c' n' i' :
  alookup k_components (map conv (kidsof c' n' i')) = option_map (mapM (from_dict KComponent)) c'.
Proof. destruct c', n', i'; reflexivity. Qed.
Lemma look_nss c' n' i' :
  alookup k_services (map conv (kidsof c' n' i')) = option_map (mapM (from_dict KService)) n'.
Proof. destruct c', n', i'; reflexivity. Qed.
Lemma look_ifs c' n' i' :
  alookup k_interfaces (map conv (kidsof c' n' i')) = option_map (mapM (from_dict KInterface)) i'.
Proof. destruct c', n', i'; reflexivity. Qed.

(* ---------- the info dictionaries ---------- *)
Lemma t_name_forget t : t_name (forget_ids t) = t_name t.
Proof. destruct t; reflexivity. Qed.
Lemma t_attrs_forget t : t_attrs (forget_ids t) = t_attrs t.
Proof. destruct t; reflexivity. Qed.
Lemma t_kind_forget t : t_kind (forget_ids t) = t_kind t.
Proof. destruct t; reflexivity. Qed.
Lemma name_key_forget t : name_key (forget_ids t) = name_key t.
Proof. unfold name_key. rewrite t_name_forget. reflexivity. Qed.

Lemma dict_add_fresh t nm acc :
  forallb named acc = true -> existsb (str_eqb nm) (map name_key acc) = false ->
  dict_add t nm acc = acc ++ [t].
Proof.
  induction acc as [|u r IH]; simpl; intros Hn Hf; [reflexivity|].
  apply andb_true_iff in Hn as [Hu Hr]. apply orb_false_iff in Hf as [Hf1 Hf2].
  unfold named in Hu. unfold name_key in Hf1.
  destruct (t_name u) as [n'|]; [|discriminate].
  rewrite Hf1. rewrite IH by assumption. reflexivity.
Qed.

Definition child_ok (ck : kind) (u : tree) : bool :=
  named u && (if kind_eqb ck KComponent then typed u else true).

Lemma existsb_app {A} (f : A -> bool) l1 l2 : existsb f (l1 ++ l2) = existsb f l1 || existsb f l2.
Proof. induction l1; simpl; [reflexivity|]. rewrite IHl1. rewrite orb_assoc. reflexivity. Qed.

Lemma build_info_acc ck : forall l acc,
  forallb (child_ok ck) l = true -> forallb named acc = true ->
  names_nodup (map name_key (acc ++ l)) = true ->
  fold_left (add_child ck) l (Ok acc) = Ok (acc ++ l).
Proof.
  induction l as [|u l IH]; intros acc Hl Hacc Hnd; simpl.
  - rewrite app_nil_r. reflexivity.
  - apply andb_true_iff in Hl as [Hu Hl]. unfold child_ok in Hu. apply andb_true_iff in Hu as [Hnm Hty].
    assert (Hfresh : existsb (str_eqb (name_key u)) (map name_key acc) = false).
    { clear - Hnd. induction acc as [|v acc IHa]; simpl in *; [reflexivity|].
      apply andb_true_iff in Hnd as [H1 H2]. rewrite IHa by exact H2. rewrite orb_false_r.
      rewrite map_app in H1. rewrite existsb_app in H1. simpl in H1.
      apply negb_true_iff in H1. apply orb_false_iff in H1 as [_ H1]. apply orb_false_iff in H1 as [H1 _].
      destruct (str_eqb (name_key u) (name_key v)) eqn:E; [|reflexivity].
      apply str_eqb_eq in E. rewrite E in H1. rewrite str_eqb_refl in H1. discriminate. }
    unfold named in Hnm. unfold name_key in Hfresh.
    destruct (t_name u) as [nm|] eqn:En; [|discriminate].
    rewrite (dict_add_fresh u nm acc Hacc Hfresh).
    assert (Hacc' : forallb named (acc ++ [u]) = true).
    { rewrite forallb_app. rewrite Hacc. simpl. unfold named. rewrite En. reflexivity. }
    assert (Hnd' : names_nodup (map name_key ((acc ++ [u]) ++ l)) = true).
    { rewrite <- app_assoc. exact Hnd. }
    assert (Hgoal : fold_left (add_child ck) l (Ok (acc ++ [u])) = Ok (acc ++ u :: l)).
    { rewrite (IH (acc ++ [u]) Hl Hacc' Hnd'). rewrite <- app_assoc. reflexivity. }
    destruct ck; try exact Hgoal.
    simpl in Hty. unfold typed in Hty.
    destruct (alookup "resource_type" (t_attrs u)) as [[ty|]|]; try discriminate. exact Hgoal.
Qed.

Lemma build_info_ok ck l :
  forallb (child_ok ck) l = true -> names_nodup (map name_key l) = true -> build_info ck l = Ok l.
Proof. intros H1 H2. unfold build_info. apply (build_info_acc ck l [] H1 eq_refl H2). Qed.

(* ---------- one child slot ---------- *)
Definition RT (u : tree) : Prop :=
  tree_wf u = true -> exists d, to_dict u = Ok d /\ from_dict (t_kind u) d = Ok (forget_ids u).

Lemma kind_eqb_eq a b : kind_eqb a b = true -> a = b.
Proof. destruct a, b; simpl; intro H; try discriminate; reflexivity. Qed.

Lemma kids_list_rt ck : forall l,
  Forall RT l ->
  forallb (fun u => kind_eqb (t_kind u) ck && tree_wf u && named u
                    && (if kind_eqb ck KComponent then typed u else true)) l = true ->
  exists ds, mapM to_dict l = Ok ds /\ mapM (from_dict ck) ds = Ok (map forget_ids l).
Proof.
  induction l as [|u l IH]; intros HF Hall.
  - exists []. split; reflexivity.
  - inversion HF as [|? ? Hu HFl]; subst. simpl in Hall.
    apply andb_true_iff in Hall as [Hu' Hall].
    apply andb_true_iff in Hu' as [Hu' _]. apply andb_true_iff in Hu' as [Hu' _].
    apply andb_true_iff in Hu' as [Hk Hwf]. apply kind_eqb_eq in Hk.
    destruct (Hu Hwf) as [d [Hd1 Hd2]]. destruct (IH HFl Hall) as [ds [Hds1 Hds2]].
    exists (d :: ds). split.
    + simpl. rewrite Hd1. simpl. change (mapM to_dict l) with (mapM to_dict l). rewrite Hds1. reflexivity.
    + simpl. rewrite <- Hk. rewrite Hd2. simpl. rewrite Hk. rewrite Hds2. reflexivity.
Qed.

Lemma slot_rt (b : bool) (ck : kind) (o : option (list tree)) :
  OForall RT o -> slot_ok tree_wf b ck o = true ->
  exists o', (if b then optM (mapM to_dict) o else Ok None) = Ok o' /\
    (if b then build_kids ck (option_map (mapM (from_dict ck)) o') else Ok None)
    = Ok (option_map (map forget_ids) o).
Proof.
  intros HF Hs. destruct b; simpl in Hs.
  - destruct o as [l|]; simpl in *.
    + apply andb_true_iff in Hs as [Hs Hnd]. apply andb_true_iff in Hs as [Hne Hall].
      destruct (kids_list_rt ck l HF Hall) as [ds [H1 H2]].
      exists (Some ds). rewrite H1. split; [reflexivity|]. simpl. rewrite H2. simpl.
      destruct l as [|u l]; [discriminate|]. simpl map.
      assert (Hb : build_info ck (forget_ids u :: map forget_ids l) = Ok (forget_ids u :: map forget_ids l)).
      { change (forget_ids u :: map forget_ids l) with (map forget_ids (u :: l)).
        apply build_info_ok.
        - rewrite forallb_forall. intros x Hx. apply in_map_iff in Hx as [y [E Hy]]. subst x.
          rewrite forallb_forall in Hall. specialize (Hall y Hy).
          apply andb_true_iff in Hall as [Hall Hty]. apply andb_true_iff in Hall as [_ Hnm].
          unfold child_ok, named, typed in *. rewrite t_name_forget, t_attrs_forget.
          rewrite Hnm. exact Hty.
        - rewrite map_map. rewrite (map_ext _ name_key); [exact Hnd|]. intro; apply name_key_forget. }
      rewrite Hb. reflexivity.
    + exists None. split; reflexivity.
  - destruct o; [discriminate|]. exists None. split; reflexivity.
Qed.

Lemma in_all_kinds k : In k all_kinds.
Proof. destruct k; simpl; auto 6. Qed.

Lemma tables_ok_parts k : all_tables_ok = true ->
  tables_symmetric k = true /\ dict_tables_ok k = true /\ absent_ok k = true /\ absent_none k = true.
Proof.
  intro H. unfold all_tables_ok in H. rewrite forallb_forall in H. specialize (H k (in_all_kinds k)).
  apply andb_true_iff in H as [H H4]. apply andb_true_iff in H as [H H3]. apply andb_true_iff in H as [H1 H2]. auto.
Qed.

(* from here on the table check is a black box *)
Local Opaque all_tables_ok.

Lemma node_id_not_written k a p :
  tables_symmetric k = true -> dict_tables_ok k = true -> to_props k a = Ok p -> node_id_of p = None.
Proof.
  intros Hs Hd Hp. destruct (sym_parts k Hs) as [_ [NDg _]].
  unfold to_props in Hp. destruct (to_props_entries_spec a (to_table k) [] p NDg Hp) as [_ H2].
  unfold node_id_of, pget. rewrite H2; [reflexivity|].
  unfold dict_tables_ok in Hd. apply andb_true_iff in Hd as [Hd _]. apply andb_true_iff in Hd as [Hd _].
  rewrite forallb_forall in Hd.
  intro Hin. apply in_map_iff in Hin as [te [E Hte]]. specialize (Hd te Hte).
  apply andb_true_iff in Hd as [_ Hd]. unfold gp in E. rewrite E in Hd. rewrite String.eqb_refl in Hd. discriminate.
Qed.

(* ---------- the deep dictionary round trip ---------- *)
Theorem dict_roundtrip_generic : all_tables_ok = true -> forall t, RT t.
Proof.
  intro Hok. apply tree_ind'. intros k nid a c n i Hc Hn Hi Hwf.
  destruct (tables_ok_parts k Hok) as [Hs [Hd [_ Hnone]]].
  simpl in Hwf. repeat rewrite andb_true_iff in Hwf. destruct Hwf as [[[Ha Hsc] Hsn] Hsi].
  destruct (slot_rt _ _ c Hc Hsc) as [c' [Hc1 Hc2]].
  destruct (slot_rt _ _ n Hn Hsn) as [n' [Hn1 Hn2]].
  destruct (slot_rt _ _ i Hi Hsi) as [i' [Hi1 Hi2]].
  assert (Hrt := props_roundtrip_exact_generic k a Hs Hnone Ha).
  destruct (to_props k a) as [p|] eqn:Ep; [|discriminate]. simpl in Hrt.
  exists (DD p (kidsof c' n' i')). split.
  - rewrite to_dict_eq. rewrite Ep. cbn [bind]. rewrite Hc1, Hn1, Hi1. reflexivity.
  - cbn [t_kind]. rewrite from_dict_eq. rewrite Hrt. cbn [bind].
    rewrite look_comps, look_nss, look_ifs. rewrite Hc2, Hn2, Hi2. cbn [bind].
    rewrite (node_id_not_written k a p Hs Hd Ep). reflexivity.
Qed.

(* ---------- JSON values ---------- *)
Lemma omap_map_rt (l : list dd) :
  Forall (fun d => jv_to_dd (dd_to_jv d) = Some d) l -> omap jv_to_dd (map dd_to_jv l) = Some l.
Proof.
  induction 1 as [|d l Hd HF IH]; simpl; [reflexivity|].
  rewrite Hd. change (omap jv_to_dd (map dd_to_jv l)) with (omap jv_to_dd (map dd_to_jv l)). rewrite IH. reflexivity.
Qed.

Definition jgo :=
  fix go (m : list (string * jv)) : option (props * list (string * list dd)) :=
    match m with
    | [] => Some ([], [])
    | (key, v) :: r =>
        match go r with
        | None => None
        | Some (p, kids) =>
            match v with
            | JNull => Some ((key, None) :: p, kids)
            | JStr s => Some ((key, Some s) :: p, kids)
            | JArr l => match omap jv_to_dd l with
                        | Some ds => Some (p, (key, ds) :: kids)
                        | None => None
                        end
            | JObj _ => None
            end
        end
    end.

Lemma jv_to_dd_obj m :
  jv_to_dd (JObj m) = match jgo m with Some (p, kids) => Some (DD p kids) | None => None end.
Proof. reflexivity. Qed.

Definition jprop (gv : string * pval) : string * jv :=
  (fst gv, match snd gv with Some s => JStr s | None => JNull end).
Definition jkid (kl : string * list dd) : string * jv := (fst kl, JArr (map dd_to_jv (snd kl))).

Lemma jgo_kids kids :
  Forall (fun kl => Forall (fun d => jv_to_dd (dd_to_jv d) = Some d) (snd kl)) kids ->
  jgo (map jkid kids) = Some ([], kids).
Proof.
  induction 1 as [|[key l] kids Hl HF IH]; [reflexivity|].
  simpl map. unfold jkid at 1. simpl fst. simpl snd.
  change (jgo ((key, JArr (map dd_to_jv l)) :: map jkid kids))
    with (match jgo (map jkid kids) with
          | None => None
          | Some (p, kids') => match omap jv_to_dd (map dd_to_jv l) with
                               | Some ds => Some (p, (key, ds) :: kids')
                               | None => None end
          end).
  rewrite IH. rewrite (omap_map_rt l Hl). reflexivity.
Qed.

Lemma jgo_props p m pk kids :
  jgo m = Some (pk, kids) -> jgo (map jprop p ++ m) = Some (p ++ pk, kids).
Proof.
  intro Hm. induction p as [|[g v] p IH]; [exact Hm|].
  simpl map. simpl app. unfold jprop at 1. simpl fst. simpl snd.
  destruct v as [s|].
  - change (jgo ((g, JStr s) :: map jprop p ++ m))
      with (match jgo (map jprop p ++ m) with
            | None => None | Some (p', kids') => Some ((g, Some s) :: p', kids') end).
    rewrite IH. reflexivity.
  - change (jgo ((g, JNull) :: map jprop p ++ m))
      with (match jgo (map jprop p ++ m) with
            | None => None | Some (p', kids') => Some ((g, None) :: p', kids') end).
    rewrite IH. reflexivity.
Qed.

Theorem json_value_roundtrip : forall d, jv_to_dd (dd_to_jv d) = Some d.
Proof.
  apply dd_ind'. intros p kids HF.
  change (dd_to_jv (DD p kids)) with (JObj (map jprop p ++ map jkid kids)).
  rewrite jv_to_dd_obj. rewrite (jgo_props p _ [] kids (jgo_kids kids HF)). rewrite app_nil_r. reflexivity.
Qed.

Theorem json_roundtrip_generic : all_tables_ok = true -> forall t,
  tree_wf t = true ->
  bind (sliver_to_json t) (sliver_from_json (t_kind t)) = Ok (forget_ids t).
Proof.
  intros Hok t Hwf. destruct (dict_roundtrip_generic Hok t Hwf) as [d [H1 H2]].
  unfold sliver_to_json, sliver_from_json. rewrite H1. cbn [bind].
  rewrite json_value_roundtrip. exact H2.
Qed.

Theorem dict_roundtrip_bind : all_tables_ok = true -> forall t,
  tree_wf t = true -> bind (to_dict t) (from_dict (t_kind t)) = Ok (forget_ids t).
Proof.
  intros Hok t Hwf. destruct (dict_roundtrip_generic Hok t Hwf) as [d [H1 H2]]. rewrite H1. exact H2.
Qed.

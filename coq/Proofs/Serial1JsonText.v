(* C01 proofs: node-link JSON at the text level = value-level round trip (Proofs/Serial1Store.v) composed with
   jparse (jprint v) = Some v (Base/JsonRT.v). *)
From Coq Require Import String.
From Coq Require Import List NArith ZArith Bool Lia.
From FIM Require Import Base.Str Base.Json Base.JsonRT.
From FIM Require Import Model.Serial1Text Model.Serial1Graph Model.Serial1Json.
From FIM Require Import Proofs.Serial1Text Proofs.Serial1Doc Proofs.Serial1Store.
Import ListNotations.
Local Arguments N.eqb : simpl nomatch.

(* ---------- the interning table ---------- *)
Lemma existsb_str_false x l : existsb (str_eqb x) l = false -> ~ In x l.
Proof.
  intros H Hin. assert (existsb (str_eqb x) l = true); [|congruence].
  apply existsb_exists. exists x. split; [exact Hin|apply str_eqb_refl].
Qed.

Lemma nodup_str_NoDup l : nodup_str l = true -> NoDup l.
Proof.
  induction l as [|x l IH]; simpl; intro H; [constructor|]. apply andb_true_iff in H as [H1 H2].
  apply negb_true_iff in H1. constructor; [apply existsb_str_false, H1|apply IH, H2].
Qed.

Lemma lookup_In_snd {V} k (l : list (N * V)) v : lookup k l = Some v -> In v (map snd l).
Proof.
  induction l as [|[k' w] r IH]; [discriminate|]. simpl.
  destruct (N.eqb k' k); [intro H; inversion H; left; reflexivity|]. intro H. right. apply IH, H.
Qed.

Lemma name_back tbl : NoDup (map snd tbl) -> forall k s, name_text tbl k = Some s -> name_of_text tbl s = Some k.
Proof.
  unfold name_text. induction tbl as [|[k0 s0] r IH]; intros ND k s H; [discriminate|].
  inversion ND; subst. simpl in *. destruct (N.eqb_spec k0 k) as [->|NE].
  - inversion H; subst. rewrite str_eqb_refl. reflexivity.
  - destruct (str_eqb s0 s) eqn:E.
    + apply str_eqb_eq in E. subst. exfalso. apply H2. eapply lookup_In_snd. exact H.
    + apply IH; assumption.
Qed.

Lemma name_text_inj tbl k1 k2 s : NoDup (map snd tbl) -> name_text tbl k1 = Some s -> name_text tbl k2 = Some s -> k1 = k2.
Proof.
  intros ND H1 H2. pose proof (name_back tbl ND _ _ H1). pose proof (name_back tbl ND _ _ H2). congruence.
Qed.

Lemma name_text_ok tbl k s : forallb (fun e => str_ok (snd e)) tbl = true -> name_text tbl k = Some s -> str_ok s = true.
Proof.
  intros F H. rewrite forallb_forall in F. unfold name_text in H.
  induction tbl as [|[k0 s0] r IH]; [discriminate|]. simpl in H.
  destruct (N.eqb k0 k).
  - inversion H; subst. apply (F (k0, s)). left. reflexivity.
  - apply IH; [|exact H]. intros x Hx. apply F. right. exact Hx.
Qed.

(* ---------- one object ---------- *)
Definition shape_ok (structural : pname -> bool) (kv : pname * jval) : Prop :=
  match snd kv with JK _ => structural (fst kv) = true | JP v => structural (fst kv) = false /\ jval_ok v = true end.
Definition obj_ok (tbl : names) (structural : pname -> bool) (o : jobj) : Prop :=
  NoDup (map fst o) /\ forall kv, In kv o -> (exists s, name_text tbl (fst kv) = Some s) /\ shape_ok structural kv.

Lemma jval_back structural kv : shape_ok structural kv ->
  jval_of_json (structural (fst kv)) (json_of_jval (snd kv)) = Some (snd kv)
  /\ jwfb (json_of_jval (snd kv)) = true.
Proof.
  unfold shape_ok. destruct (snd kv) as [v|k]; simpl.
  - intros [-> J]. destruct v as [s|z|b]; simpl; split; auto.
  - intros ->. split; [|reflexivity]. destruct (Z.ltb_spec (Z.of_N k) 0); [lia|]. rewrite N2Z.id. reflexivity.
Qed.

Lemma obj_text tbl structural o :
  NoDup (map snd tbl) -> forallb (fun e => str_ok (snd e)) tbl = true -> obj_ok tbl structural o ->
  exists m, json_of_obj tbl o = Some (JObj m)
            /\ jwfb (JObj m) = true
            /\ obj_of_json tbl structural (JObj m) = Some o.
Proof.
  intros ND SO [NDo H]. unfold json_of_obj, obj_of_json.
  assert (G : exists m,
             opt_list (fun kv => match name_text tbl (fst kv) with
                                 | Some s => Some (s, json_of_jval (snd kv)) | None => None end) o = Some m
             /\ forallb (fun kv => str_ok (fst kv) && jwfb (snd kv)) m = true
             /\ (forall s, In s (map fst m) -> exists k, In k (map fst o) /\ name_text tbl k = Some s)
             /\ NoDup (map fst m)
             /\ opt_list (fun kv => match name_of_text tbl (fst kv) with
                                    | Some k => match jval_of_json (structural k) (snd kv) with
                                                | Some x => Some (k, x) | None => None end
                                    | None => None end) m = Some o).
  { induction o as [|kv o IH].
    - exists []. repeat split; try constructor. intros s [].
    - inversion NDo; subst. destruct IH as (m & E1 & W & C & NDm & E2); [assumption|intros x Hx; apply H; right; exact Hx|].
      destruct (H kv (or_introl eq_refl)) as [(s & Hs) SH]. destruct (jval_back structural kv SH) as [JB JW].
      exists ((s, json_of_jval (snd kv)) :: m). split; [|split; [|split; [|split]]].
      + simpl. rewrite Hs, E1. reflexivity.
      + simpl. rewrite (name_text_ok tbl _ _ SO Hs), JW, W. reflexivity.
      + intros s' [<-|Hs']; [exists (fst kv); split; [left; reflexivity|exact Hs]|].
        destruct (C s' Hs') as (k & A & B). exists k. split; [right; exact A|exact B].
      + simpl. constructor; [|exact NDm]. intro Hin. destruct (C s Hin) as (k & A & B).
        assert (k = fst kv) by (eapply name_text_inj; eassumption). subst k. contradiction.
      + simpl. rewrite (name_back tbl ND _ _ Hs), JB, E2. destruct kv; reflexivity. }
  destruct G as (m & E1 & W & _ & NDm & E2). exists m. rewrite E1. split; [reflexivity|]. split; [|exact E2].
  simpl. change (forallb (fun kv => str_ok (fst kv) && jwfb (snd kv)) m && nodup_keys (map fst m) = true).
  rewrite W, (NoDup_nodup_keys _ NDm). reflexivity.
Qed.

Lemma objs_text tbl structural os :
  NoDup (map snd tbl) -> forallb (fun e => str_ok (snd e)) tbl = true ->
  (forall o, In o os -> obj_ok tbl structural o) ->
  exists ms, opt_list (json_of_obj tbl) os = Some ms
             /\ forallb jwfb ms = true
             /\ opt_list (obj_of_json tbl structural) ms = Some os.
Proof.
  intros ND SO H. induction os as [|o os IH].
  - exists []. repeat split.
  - destruct IH as (ms & E1 & W & E2); [intros x Hx; apply H; right; exact Hx|].
    destruct (obj_text tbl structural o ND SO (H o (or_introl eq_refl))) as (m & A & B & C).
    exists (JObj m :: ms). split; [|split].
    + simpl. rewrite A, E1. reflexivity.
    + change (jwfb (JObj m) && forallb jwfb ms = true). rewrite B, W. reflexivity.
    + change (match obj_of_json tbl structural (JObj m), opt_list (obj_of_json tbl structural) ms with
              | Some y, Some ys => Some (y :: ys) | _, _ => None end = Some (o :: os)).
      rewrite C, E2. reflexivity.
Qed.

(* ---------- what node_link_data writes for a graph without structural property names ---------- *)
Lemma jprops_ok_parts tbl ps : jprops_ok tbl ps = true ->
  NoDup (map fst ps) /\ forall kv, In kv ps -> (exists s, name_text tbl (fst kv) = Some s) /\ jval_ok (snd kv) = true.
Proof.
  unfold jprops_ok. rewrite andb_true_iff, forallb_forall. intros [ND F]. split; [apply nodupN_NoDup, ND|].
  intros kv Hkv. specialize (F _ Hkv). apply andb_true_iff in F as [A B]. split; [|exact B].
  destruct (name_text tbl (fst kv)) as [s|]; [exists s; reflexivity|discriminate].
Qed.

Lemma names_ok_parts tbl : names_ok tbl = true ->
  NoDup (map snd tbl) /\ forallb (fun e => str_ok (snd e)) tbl = true
  /\ name_text tbl P_id = Some (S"id") /\ name_text tbl P_source = Some (S"source") /\ name_text tbl P_target = Some (S"target").
Proof.
  unfold names_ok. rewrite !andb_true_iff. intros [[[[A B] C] D] E]. split; [apply nodup_str_NoDup, A|]. split; [exact B|].
  assert (G : forall o s, opt_eqb str_eqb o (Some s) = true -> o = Some s).
  { intros [x|] s H; simpl in H; [apply str_eqb_eq in H; congruence|discriminate]. }
  split; [apply G, C|]. split; [apply G, D|apply G, E].
Qed.

Lemma node_obj_ok tbl k ps : names_ok tbl = true -> jprops_ok tbl ps = true -> ~ In P_id (map fst ps) ->
  obj_ok tbl node_structural (jset P_id (JK k) (jprops ps)).
Proof.
  intros NO JP NI. destruct (names_ok_parts tbl NO) as (_ & _ & Iid & _ & _).
  destruct (jprops_ok_parts tbl ps JP) as [ND F].
  rewrite jset_notin by (rewrite map_fst_jprops; exact NI). split.
  - rewrite map_app, map_fst_jprops. simpl. apply NoDup_snoc; assumption.
  - intros kv Hkv. apply in_app_or in Hkv as [Hkv|[<-|[]]].
    + unfold jprops in Hkv. apply in_map_iff in Hkv as (kv0 & <- & H0). destruct (F _ H0) as [A B]. simpl. split; [exact A|].
      unfold shape_ok, node_structural. simpl. split; [|exact B].
      apply N.eqb_neq. intro E. apply NI. rewrite <- E. apply in_map, H0.
    + simpl. split; [eexists; exact Iid|]. reflexivity.
Qed.

Lemma edge_obj_ok tbl u v ps : names_ok tbl = true -> jprops_ok tbl ps = true ->
  ~ In P_source (map fst ps) -> ~ In P_target (map fst ps) ->
  obj_ok tbl edge_structural (jset P_target (JK v) (jset P_source (JK u) (jprops ps))).
Proof.
  intros NO JP NS NT. destruct (names_ok_parts tbl NO) as (_ & _ & _ & Is & It).
  destruct (jprops_ok_parts tbl ps JP) as [ND F].
  rewrite (jset_notin P_source) by (rewrite map_fst_jprops; exact NS).
  rewrite (jset_notin P_target).
  2:{ rewrite map_app, map_fst_jprops. intro H. apply in_app_or in H as [H|[H|[]]]; [exact (NT H)|discriminate]. }
  split.
  - rewrite !map_app, map_fst_jprops. simpl. apply NoDup_snoc; [apply NoDup_snoc; assumption|].
    intro H. apply in_app_or in H as [H|[H|[]]]; [exact (NT H)|discriminate].
  - intros kv Hkv. apply in_app_or in Hkv as [Hkv|[<-|[]]]; [apply in_app_or in Hkv as [Hkv|[<-|[]]]|].
    + unfold jprops in Hkv. apply in_map_iff in Hkv as (kv0 & <- & H0). destruct (F _ H0) as [A B]. simpl. split; [exact A|].
      unfold shape_ok, edge_structural. simpl. split; [|exact B]. apply orb_false_iff.
      split; apply N.eqb_neq; intro E; [apply NS|apply NT]; rewrite <- E; apply in_map, H0.
    + simpl. split; [eexists; exact Is|]. reflexivity.
    + simpl. split; [eexists; exact It|]. reflexivity.
Qed.

Lemma graph_json_ok_iff_local g : graph_json_ok g = true <->
  (forall n, In n (g_nodes g) -> ~ In P_id (map fst (snd n)))
  /\ (forall e, In e (g_edges g) -> ~ In P_source (map fst (snd e)) /\ ~ In P_target (map fst (snd e))).
Proof.
  unfold graph_json_ok. rewrite andb_true_iff, !forallb_forall. split; intros [A B]; split.
  - intros n Hn. apply memN_false, negb_true_iff, A, Hn.
  - intros e He. specialize (B _ He). apply andb_true_iff in B as [B1 B2]. split; apply memN_false, negb_true_iff; assumption.
  - intros n Hn. apply negb_true_iff, memN_false, A, Hn.
  - intros e He. destruct (B _ He) as [B1 B2]. apply andb_true_iff. split; apply negb_true_iff, memN_false; assumption.
Qed.

(* ---------- the text round trip ---------- *)
Theorem json_text_roundtrip tbl g :
  names_ok tbl = true -> graph_json_ok g = true -> graph_json_text_ok tbl g = true ->
  exists s, json_text tbl g = Some s /\ json_read_text tbl s = Some g.
Proof.
  intros NO JO TO. destruct (names_ok_parts tbl NO) as (ND & SO & _).
  apply graph_json_ok_iff_local in JO. destruct JO as [JN JE].
  unfold graph_json_text_ok in TO. rewrite andb_true_iff, !forallb_forall in TO. destruct TO as [TN TE].
  destruct (objs_text tbl node_structural (j_nodes (jwrite g)) ND SO) as (ns & N1 & N2 & N3).
  { intros o Ho. simpl in Ho. apply in_map_iff in Ho as (n & <- & Hn). apply node_obj_ok; [exact NO|apply TN, Hn|apply JN, Hn]. }
  destruct (objs_text tbl edge_structural (j_links (jwrite g)) ND SO) as (es & E1 & E2 & E3).
  { intros o Ho. simpl in Ho. apply in_map_iff in Ho as ([[u v] ps] & <- & He).
    destruct (JE _ He) as [A B]. apply edge_obj_ok; [exact NO|apply (TE _ He)|exact A|exact B]. }
  unfold json_text, json_of_jdoc. rewrite N1, E1. eexists. split; [reflexivity|].
  unfold json_read_text. rewrite jparse_jprint.
  - unfold jdoc_of_json.
    change (aget (S"directed") _) with (Some (JBool false)).
    change (aget (S"multigraph") _) with (Some (JBool false)).
    change (aget (S"nodes") _) with (Some (JArr ns)).
    change (aget (S"edges") _) with (Some (JArr es)).
    cbv iota. rewrite N3, E3.
    replace {| j_nodes := j_nodes (jwrite g); j_links := j_links (jwrite g) |} with (jwrite g) by (destruct (jwrite g); reflexivity).
    apply json_roundtrip. apply graph_json_ok_iff_local. split; assumption.
  - change (forallb jwfb ns && (forallb jwfb es && true) && true = true) || idtac.
    simpl. rewrite N2, E2. reflexivity.
Qed.

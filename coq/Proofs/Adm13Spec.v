(* C13: characterisation of the transcription in Model/Adm13.v.
   catalog_delegations = three independent folds; the per-delegation loop of generate_adms computes
   adm_spec A d = the subgraph of A induced by keepset A d with every node's delegations restricted to d. *)
From Coq Require Import List NArith Bool Lia.
From FIM Require Import Gen.Adm13Gen Model.Adm13 Proofs.Adm13Gen.
Import ListNotations.
Open Scope N_scope.

(* ------------------------------------------------------------------ basics *)
Lemma memb_In x l : memb x l = true <-> In x l.
Proof.
  unfold memb. rewrite existsb_exists. split.
  - intros [y [Hy He]]. apply N.eqb_eq in He. subst. exact Hy.
  - intros H. exists x. split; [exact H | apply N.eqb_refl].
Qed.

Lemma memb_false x l : memb x l = false <-> ~ In x l.
Proof.
  split; intros H.
  - intros Hi. apply memb_In in Hi. congruence.
  - destruct (memb x l) eqn:E; [|reflexivity]. apply memb_In in E. contradiction.
Qed.

Lemma memb_cons x y l : memb x (y :: l) = (x =? y) || memb x l.
Proof. reflexivity. Qed.

Lemma memb_app x l1 l2 : memb x (l1 ++ l2) = memb x l1 || memb x l2.
Proof. unfold memb. apply existsb_app. Qed.

Lemma memb_filter x p l : memb x (filter p l) = memb x l && p x.
Proof.
  induction l as [|y l IH]; simpl; [reflexivity|].
  destruct (p y) eqn:Py; simpl; rewrite IH.
  - destruct (x =? y) eqn:E; simpl; [|reflexivity]. apply N.eqb_eq in E. subst. rewrite Py.
    destruct (memb y l); reflexivity.
  - destruct (x =? y) eqn:E; simpl; [|reflexivity]. apply N.eqb_eq in E. subst. rewrite Py.
    rewrite andb_false_r. reflexivity.
Qed.

Lemma nodupb_NoDup l : nodupb l = true <-> NoDup l.
Proof.
  induction l as [|x l IH]; simpl.
  - split; [constructor | reflexivity].
  - rewrite andb_true_iff, negb_true_iff, memb_false, IH. split.
    + intros [H1 H2]. constructor; assumption.
    + intros H. inversion H; subst. split; assumption.
Qed.

Lemma fold_left_ext' {A B} (f g : A -> B -> A) l : (forall a b, f a b = g a b) -> forall a, fold_left f l a = fold_left g l a.
Proof. intros H. induction l as [|x l IH]; intros a; simpl; [reflexivity|]. rewrite H. apply IH. Qed.

Lemma filter_filter {A} (p q : A -> bool) l : filter p (filter q l) = filter (fun x => q x && p x) l.
Proof.
  induction l as [|x l IH]; simpl; [reflexivity|].
  destruct (q x); simpl; [destruct (p x)|]; rewrite IH; reflexivity.
Qed.

Lemma filter_map_comm {A B} (f : A -> B) (p : B -> bool) l : filter p (map f l) = map f (filter (fun x => p (f x)) l).
Proof.
  induction l as [|x l IH]; simpl; [reflexivity|]. destruct (p (f x)); simpl; rewrite IH; reflexivity.
Qed.

Lemma filter_ext_in' {A} (p q : A -> bool) l : (forall x, In x l -> p x = q x) -> filter p l = filter q l.
Proof.
  induction l as [|x l IH]; simpl; intros H; [reflexivity|].
  rewrite (H x (or_introl eq_refl)). rewrite IH; [reflexivity|]. intros y Hy. apply H. right. exact Hy.
Qed.

(* ------------------------------------------------------------------ sets as lists *)
Lemma set_add_In x y l : In y (set_add x l) <-> y = x \/ In y l.
Proof.
  unfold set_add. destruct (memb x l) eqn:E.
  - apply memb_In in E. split; [intros H; right; exact H | intros [->|H]; assumption].
  - rewrite in_app_iff. simpl. split; [intros [H|[H|[]]]; auto | intros [H|H]; auto].
Qed.

Lemma NoDup_snoc (x : N) l : NoDup l -> ~ In x l -> NoDup (l ++ [x]).
Proof.
  induction l as [|y l IH]; simpl; intros H Hn.
  - constructor; [intros []|constructor].
  - inversion H; subst. constructor.
    + rewrite in_app_iff. simpl. intros [Hi|[Hi|[]]]; [contradiction|]. subst. apply Hn. left. reflexivity.
    + apply IH; [assumption|]. intros Hi. apply Hn. right. exact Hi.
Qed.

Lemma set_add_NoDup x l : NoDup l -> NoDup (set_add x l).
Proof.
  intros H. unfold set_add. destruct (memb x l) eqn:E; [exact H|].
  apply memb_false in E. apply NoDup_snoc; assumption.
Qed.

Lemma set_union_In y xs : forall l, In y (set_union l xs) <-> In y l \/ In y xs.
Proof.
  unfold set_union. induction xs as [|x xs IH]; simpl; intros l.
  - tauto.
  - rewrite IH, set_add_In. intuition (subst; auto).
Qed.

Lemma set_union_NoDup xs : forall l, NoDup l -> NoDup (set_union l xs).
Proof.
  unfold set_union. induction xs as [|x xs IH]; simpl; intros l H; [exact H|].
  apply IH. apply set_add_NoDup. exact H.
Qed.

(* ------------------------------------------------------------------ assoc *)
Lemma assoc_In {V} k (v : V) l : assoc k l = Some v -> In (k, v) l.
Proof.
  induction l as [|[k' v'] l IH]; simpl; [discriminate|].
  destruct (k' =? k) eqn:E.
  - intros H. inversion H; subst. apply N.eqb_eq in E. subst. left. reflexivity.
  - intros H. right. apply IH. exact H.
Qed.

Lemma In_assoc {V} k (v : V) l : NoDup (map fst l) -> In (k, v) l -> assoc k l = Some v.
Proof.
  induction l as [|[k' v'] l IH]; simpl; intros Hn Hi; [contradiction|].
  inversion Hn; subst. destruct Hi as [Hi|Hi].
  - inversion Hi; subst. rewrite N.eqb_refl. reflexivity.
  - destruct (k' =? k) eqn:E.
    + apply N.eqb_eq in E. subst. exfalso. apply H1. apply (in_map fst) in Hi. exact Hi.
    + apply IH; assumption.
Qed.

Lemma assoc_None {V} k (l : list (N * V)) : assoc k l = None <-> ~ In k (map fst l).
Proof.
  induction l as [|[k' v'] l IH]; simpl.
  - split; [intros _ [] | reflexivity].
  - destruct (k' =? k) eqn:E.
    + apply N.eqb_eq in E. split; [discriminate | intros H; exfalso; apply H; left; exact E].
    + apply N.eqb_neq in E. rewrite IH. tauto.
Qed.

Lemma assoc_app {V} k (l1 l2 : list (N * V)) :
  assoc k (l1 ++ l2) = match assoc k l1 with Some v => Some v | None => assoc k l2 end.
Proof.
  induction l1 as [|[k' v'] l1 IH]; simpl; [reflexivity|]. destruct (k' =? k); [reflexivity | exact IH].
Qed.

(* ------------------------------------------------------------------ nodes *)
Definition restrict (d : N) (n : node) : node :=
  set_cdel (for_id_opt d (cdel n)) (set_ldel (for_id_opt d (ldel n)) n).

Lemma nid_restrict d n : nid (restrict d n) = nid n.
Proof. reflexivity. Qed.

Definition has_deleg (n : node) : bool := is_some (ldel n) || is_some (cdel n).

Lemma find_node_In g id n : find_node g id = Some n -> In n (gnodes g) /\ nid n = id.
Proof.
  unfold find_node. intros H. apply find_some in H. destruct H as [H1 H2]. apply N.eqb_eq in H2. tauto.
Qed.

Lemma nodes_unique (l : list node) n m :
  NoDup (map nid l) -> In n l -> In m l -> nid n = nid m -> n = m.
Proof.
  induction l as [|x l IH]; simpl; intros Hn Hi Hj E; [contradiction|].
  inversion Hn; subst.
  destruct Hi as [Hi|Hi]; destruct Hj as [Hj|Hj]; subst.
  - reflexivity.
  - exfalso. apply H1. rewrite E. apply in_map. exact Hj.
  - exfalso. apply H1. rewrite <- E. apply in_map. exact Hi.
  - apply IH; assumption.
Qed.

Lemma find_node_unique g n : NoDup (node_ids g) -> In n (gnodes g) -> find_node g (nid n) = Some n.
Proof.
  intros Hn Hi. unfold find_node.
  destruct (find (fun m => nid m =? nid n) (gnodes g)) as [m|] eqn:E.
  - apply find_some in E. destruct E as [E1 E2]. apply N.eqb_eq in E2.
    f_equal. apply (nodes_unique (gnodes g)); assumption.
  - exfalso. apply (find_none _ _ E) in Hi. rewrite N.eqb_refl in Hi. discriminate.
Qed.

Lemma cls_of_unique g n : NoDup (node_ids g) -> In n (gnodes g) -> cls_of g (nid n) = Some (ncls n).
Proof. intros Hn Hi. unfold cls_of. rewrite find_node_unique; auto. Qed.

Lemma cls_of_In g id c : cls_of g id = Some c -> exists n, In n (gnodes g) /\ nid n = id /\ ncls n = c.
Proof.
  unfold cls_of. destruct (find_node g id) as [n|] eqn:E; simpl; [|discriminate].
  intros H. inversion H; subst. apply find_node_In in E. exists n. tauto.
Qed.

(* ------------------------------------------------------------------ catalog_delegations *)
Definition ids_step (acc : list N) (n : node) : list N :=
  set_union (set_union acc (dkeys (entries (ldel n)))) (dkeys (entries (cdel n))).
Definition keep_list (n : node) : list (N * N) :=
  map (fun d => (d, nid n)) (dkeys (entries (ldel n))) ++ map (fun d => (d, nid n)) (dkeys (entries (cdel n))).
Definition by_list (n : node) : list (N * (option dmap * option dmap)) :=
  if has_deleg n then [(nid n, (ldel n, cdel n))] else [].

Lemma cat_type_spec id acc o :
  cat_type id acc o = (set_union (fst acc) (dkeys (entries o)), snd acc ++ map (fun d => (d, id)) (dkeys (entries o))).
Proof.
  destruct o as [m|]; simpl.
  - reflexivity.
  - rewrite app_nil_r. destruct acc; reflexivity.
Qed.

Lemma cat_step_spec c n :
  cat_step c n = mkCat (ids_step (c_ids c) n) (c_keep c ++ keep_list n) (c_by c ++ by_list n).
Proof.
  unfold cat_step, ids_step, keep_list, by_list, has_deleg. simpl.
  rewrite !cat_type_spec. simpl. rewrite app_assoc.
  destruct (is_some (ldel n) || is_some (cdel n)); [reflexivity | rewrite app_nil_r; reflexivity].
Qed.

Lemma catalog_fold l : forall c,
  fold_left cat_step l c =
  mkCat (fold_left ids_step l (c_ids c)) (c_keep c ++ flat_map keep_list l) (c_by c ++ flat_map by_list l).
Proof.
  induction l as [|n l IH]; intros c; simpl.
  - rewrite !app_nil_r. destruct c; reflexivity.
  - rewrite IH, cat_step_spec. simpl. rewrite <- !app_assoc. reflexivity.
Qed.

Lemma catalog_spec g :
  catalog_delegations g =
  mkCat (fold_left ids_step (gnodes g) []) (flat_map keep_list (gnodes g)) (flat_map by_list (gnodes g)).
Proof. unfold catalog_delegations. rewrite catalog_fold. reflexivity. Qed.

Lemma ids_fold_In d l : forall acc,
  In d (fold_left ids_step l acc) <-> In d acc \/ exists n, In n l /\ delegated d n.
Proof.
  induction l as [|n l IH]; intros acc; simpl.
  - split; [auto | intros [H|[n [[] _]]]; exact H].
  - rewrite IH. unfold ids_step at 1. rewrite !set_union_In. unfold delegated. split.
    + intros [[[H|H]|H]|[m [H1 H2]]]; eauto 7.
    + intros [H|[m [[->|H1] H2]]]; [tauto | destruct H2; tauto | right; eauto].
Qed.

Lemma ids_fold_NoDup l : forall acc, NoDup acc -> NoDup (fold_left ids_step l acc).
Proof.
  induction l as [|n l IH]; intros acc H; simpl; [exact H|].
  apply IH. unfold ids_step. apply set_union_NoDup, set_union_NoDup. exact H.
Qed.

Lemma c_ids_In g d : In d (c_ids (catalog_delegations g)) <-> exists n, In n (gnodes g) /\ delegated d n.
Proof. rewrite catalog_spec. simpl. rewrite ids_fold_In. simpl. tauto. Qed.

Lemma c_ids_NoDup g : NoDup (c_ids (catalog_delegations g)).
Proof. rewrite catalog_spec. simpl. apply ids_fold_NoDup. constructor. Qed.

Lemma keep_of_In g d x :
  In x (keep_of (catalog_delegations g) d) <-> exists n, In n (gnodes g) /\ nid n = x /\ delegated d n.
Proof.
  unfold keep_of. rewrite catalog_spec. simpl. rewrite in_map_iff. split.
  - intros [[d' x'] [E H]]. simpl in E. subst x'. apply filter_In in H. destruct H as [H Hd]. simpl in Hd.
    apply N.eqb_eq in Hd. subst d'. apply in_flat_map in H. destruct H as [n [Hn Hk]].
    exists n. unfold keep_list in Hk. rewrite in_app_iff, !in_map_iff in Hk. unfold delegated.
    destruct Hk as [[d' [E Hi]]|[d' [E Hi]]]; inversion E; subst; tauto.
  - intros [n [Hn [E Hd]]]. exists (d, x). split; [reflexivity|]. apply filter_In. split; [|simpl; apply N.eqb_refl].
    apply in_flat_map. exists n. split; [exact Hn|]. unfold keep_list. rewrite in_app_iff, !in_map_iff. subst x.
    destruct Hd as [Hd|Hd]; [left|right]; exists d; tauto.
Qed.

Lemma by_assoc l : NoDup (map nid l) -> forall n, In n l ->
  assoc (nid n) (flat_map by_list l) = if has_deleg n then Some (ldel n, cdel n) else None.
Proof.
  induction l as [|m l IH]; simpl; intros Hn n Hi; [contradiction|].
  inversion Hn; subst. rewrite assoc_app.
  assert (Hnot : forall k, ~ In k (map nid l) -> assoc k (flat_map by_list l) = None).
  { intros k Hk. apply assoc_None. intros Hc. apply Hk. apply in_map_iff in Hc. destruct Hc as [[k' v] [E Hc]].
    simpl in E. subst k'. apply in_flat_map in Hc. destruct Hc as [y [Hy Hb]]. unfold by_list in Hb.
    destruct (has_deleg y); [|contradiction]. destruct Hb as [Hb|[]]. inversion Hb; subst. apply in_map. exact Hy. }
  destruct Hi as [->|Hi].
  - unfold by_list at 1. destruct (has_deleg n); simpl.
    + rewrite N.eqb_refl. reflexivity.
    + apply Hnot. exact H1.
  - assert (nid m <> nid n) by (intros E; apply H1; rewrite E; apply in_map; exact Hi).
    unfold by_list at 1. destruct (has_deleg m); simpl.
    + apply N.eqb_neq in H. rewrite H. apply IH; assumption.
    + apply IH; assumption.
Qed.

(* ------------------------------------------------------------------ the rewriting loop = map restrict *)
Lemma graph_eta g : mkGraph (gnodes g) (gedges g) = g.
Proof. destruct g; reflexivity. Qed.

Lemma upd_nodes_fold (F : N -> node -> node) (HF : forall i n, nid (F i n) = nid n) ids : forall g,
  NoDup ids ->
  fold_left (fun g i => upd_node g i (F i)) ids g =
  mkGraph (map (fun n => if memb (nid n) ids then F (nid n) n else n) (gnodes g)) (gedges g).
Proof.
  induction ids as [|i ids IH]; intros g Hn.
  - simpl. rewrite map_id. symmetry. apply graph_eta.
  - inversion Hn; subst. cbn [fold_left]. rewrite IH by assumption. unfold upd_node. cbn [gnodes gedges]. f_equal.
    rewrite map_map. apply map_ext. intros n. rewrite memb_cons.
    destruct (nid n =? i) eqn:E.
    + apply N.eqb_eq in E. subst i. rewrite HF. cbn [orb].
      apply memb_false in H1. rewrite H1. reflexivity.
    + cbn [orb]. reflexivity.
Qed.

Definition rw_fun (by_node : list (N * (option dmap * option dmap))) (d : N) (i : N) (n : node) : node :=
  match assoc i by_node with
  | None => n
  | Some (lm, cm) => set_cdel (for_id_opt d cm) (set_ldel (for_id_opt d lm) n)
  end.

Lemma rewrite_node_upd by_node d g i : rewrite_node by_node d g i = upd_node g i (rw_fun by_node d i).
Proof.
  unfold rewrite_node, rw_fun. destruct (assoc i by_node) as [[lm cm]|].
  - simpl. unfold upd_node. simpl. f_equal. rewrite map_map. apply map_ext. intros n.
    destruct (nid n =? i) eqn:E; simpl; rewrite E; reflexivity.
  - unfold upd_node. rewrite <- (graph_eta g) at 1. f_equal. rewrite <- (map_id (gnodes g)) at 1.
    apply map_ext. intros n. destruct (nid n =? i); reflexivity.
Qed.

Lemma rewrite_loop g d : NoDup (node_ids g) ->
  fold_left (rewrite_node (c_by (catalog_delegations g)) d) (node_ids g) g =
  mkGraph (map (restrict d) (gnodes g)) (gedges g).
Proof.
  intros Hn.
  rewrite (fold_left_ext' _ (fun g0 i => upd_node g0 i (rw_fun (c_by (catalog_delegations g)) d i))).
  2:{ intros. apply rewrite_node_upd. }
  rewrite upd_nodes_fold; [|intros i n; unfold rw_fun; destruct (assoc i _) as [[? ?]|]; reflexivity | exact Hn].
  f_equal. apply map_ext_in. intros n Hi.
  assert (Hm : memb (nid n) (node_ids g) = true) by (apply memb_In; apply in_map; exact Hi).
  rewrite Hm. unfold rw_fun. rewrite catalog_spec. simpl. rewrite (by_assoc _ Hn n Hi).
  unfold has_deleg, restrict. destruct n as [i c s p [l|] [cd|]]; reflexivity.
Qed.

(* ------------------------------------------------------------------ the removal loop = filter *)
Lemma delete_loop rem : forall g,
  fold_left delete_node rem g =
  mkGraph (filter (fun n => negb (memb (nid n) rem)) (gnodes g))
          (filter (fun e => negb (memb (ea e) rem) && negb (memb (eb e) rem)) (gedges g)).
Proof.
  assert (T : forall A (l : list A), filter (fun _ => true) l = l) by (induction l; simpl; congruence).
  induction rem as [|i rem IH]; intros g.
  - simpl. rewrite !T. symmetry. apply graph_eta.
  - cbn [fold_left]. rewrite IH. unfold delete_node. cbn [gnodes gedges]. rewrite !filter_filter. f_equal.
    + apply filter_ext_in'. intros n _. rewrite memb_cons. destruct (nid n =? i); reflexivity.
    + apply filter_ext_in'. intros e _. rewrite !memb_cons.
      destruct (ea e =? i), (eb e =? i), (memb (ea e) rem), (memb (eb e) rem); reflexivity.
Qed.

(* ------------------------------------------------------------------ one delegation id *)
Definition edges_in (g : graph) : Prop :=
  forall e, In e (gedges g) -> In (ea e) (node_ids g) /\ In (eb e) (node_ids g).

Definition adm_spec (A : graph) (d : N) : graph :=
  let K := keepset A d in
  mkGraph (map (restrict d) (filter (fun n => memb (nid n) K) (gnodes A)))
          (filter (fun e => memb (ea e) K && memb (eb e) K) (gedges A)).

Lemma gen_one_spec A d : NoDup (node_ids A) -> edges_in A ->
  gen_one A (node_ids A) (catalog_delegations A) (stitch_nodes A) d = adm_spec A d.
Proof.
  intros Hn He. unfold gen_one, adm_spec. rewrite rewrite_loop by exact Hn.
  rewrite delete_loop. simpl. fold (keepset A d).
  f_equal.
  - rewrite filter_map_comm. f_equal. apply filter_ext_in'. intros n Hi. rewrite nid_restrict.
    rewrite memb_filter.
    assert (Hm : memb (nid n) (node_ids A) = true) by (apply memb_In; apply in_map; exact Hi).
    rewrite Hm. simpl. apply negb_involutive.
  - apply filter_ext_in'. intros e Hi. destruct (He e Hi) as [Ha Hb].
    apply memb_In in Ha. apply memb_In in Hb. rewrite !memb_filter, Ha, Hb. simpl.
    rewrite !negb_involutive. reflexivity.
Qed.

(* ------------------------------------------------------------------ well-formedness, as propositions *)
Lemma wfb_NoDup g : wfb g = true -> NoDup (node_ids g).
Proof. unfold wfb. rewrite !andb_true_iff. intros [[[H _] _] _]. apply nodupb_NoDup. exact H. Qed.

Lemma wfb_edges_in g : wfb g = true -> edges_in g.
Proof.
  unfold wfb. rewrite !andb_true_iff. intros [[[_ H] _] _] e Hi.
  rewrite forallb_forall in H. specialize (H e Hi). unfold edge_ok in H. rewrite !andb_true_iff in H.
  destruct H as [[Ha Hb] _]. split; apply memb_In; assumption.
Qed.

Lemma wfb_dmaps g n : wfb g = true -> In n (gnodes g) ->
  NoDup (dkeys (entries (ldel n))) /\ NoDup (dkeys (entries (cdel n))).
Proof.
  unfold wfb. rewrite !andb_true_iff. intros [_ H] Hi. rewrite forallb_forall in H. specialize (H n Hi).
  rewrite andb_true_iff in H. unfold dmap_ok in H. destruct H. split; apply nodupb_NoDup; assumption.
Qed.

Theorem generate_adms_spec A : wfb A = true -> gnodes A <> [] ->
  generate_adms A = Ok (map (fun d => (d, adm_spec A d)) (c_ids (catalog_delegations A))).
Proof.
  intros Hw Hne. unfold generate_adms. destruct (node_ids A) eqn:E.
  - unfold node_ids in E. apply map_eq_nil in E. contradiction.
  - rewrite <- E. f_equal. apply map_ext. intros d. f_equal.
    apply gen_one_spec; [apply wfb_NoDup | apply wfb_edges_in]; exact Hw.
Qed.

Lemma generate_adms_inv A L d P : wfb A = true -> generate_adms A = Ok L -> In (d, P) L ->
  P = adm_spec A d /\ In d (c_ids (catalog_delegations A)).
Proof.
  intros Hw HL Hi. destruct (gnodes A) eqn:E.
  - unfold generate_adms, node_ids in HL. rewrite E in HL. discriminate.
  - rewrite generate_adms_spec in HL; [|exact Hw | rewrite E; discriminate].
    inversion HL; subst. apply in_map_iff in Hi. destruct Hi as [d' [Hd Hi]]. inversion Hd; subst. tauto.
Qed.

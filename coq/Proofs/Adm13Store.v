(* C13: generate_adms on a store of graphs (clone under a new graph id, write to the clone by graph id,
   read the traces from the source by graph id) refines the pure function, and leaves the source and every
   other graph of the store untouched, provided the new graph ids are fresh and distinct. *)
From Coq Require Import List NArith Bool Lia.
From FIM Require Import Gen.Adm13Gen Model.Adm13 Proofs.Adm13Gen Proofs.Adm13Spec.
Import ListNotations.
Open Scope N_scope.

Lemma sget_sset_same st gid g : sget (sset st gid g) gid = Some g.
Proof.
  unfold sget. induction st as [|[k v] st IH]; simpl.
  - rewrite N.eqb_refl. reflexivity.
  - destruct (k =? gid) eqn:E; simpl; rewrite E; [reflexivity | exact IH].
Qed.

Lemma sget_sset_other st gid g k : k <> gid -> sget (sset st gid g) k = sget st k.
Proof.
  intros Hne. unfold sget. induction st as [|[k' v] st IH]; simpl.
  - apply N.eqb_neq in Hne. rewrite N.eqb_sym in Hne. rewrite Hne. reflexivity.
  - destruct (k' =? gid) eqn:E; simpl.
    + apply N.eqb_eq in E. subst k'. destruct (gid =? k) eqn:F; [|reflexivity].
      apply N.eqb_eq in F. congruence.
    + destruct (k' =? k); [reflexivity | exact IH].
Qed.

Lemma sget_supd st gid f k :
  sget (supd st gid f) k = if k =? gid then option_map f (sget st k) else sget st k.
Proof.
  unfold sget, supd. induction st as [|[k' v] st IH]; simpl.
  - destruct (k =? gid); reflexivity.
  - destruct (k' =? gid) eqn:E; simpl.
    + destruct (k' =? k) eqn:F.
      * apply N.eqb_eq in F. subst k'. rewrite E. reflexivity.
      * exact IH.
    + destruct (k' =? k) eqn:F.
      * apply N.eqb_eq in F. subst k'. rewrite E. reflexivity.
      * exact IH.
Qed.

Lemma sget_fold_supd {X} (F : graph -> X -> graph) gid (xs : list X) : forall st k,
  sget (fold_left (fun s x => supd s gid (fun g => F g x)) xs st) k =
  if k =? gid then option_map (fun g => fold_left F xs g) (sget st k) else sget st k.
Proof.
  induction xs as [|x xs IH]; intros st k; simpl.
  - destruct (k =? gid); [destruct (sget st k)|]; reflexivity.
  - rewrite IH, sget_supd. destruct (k =? gid); [|reflexivity]. destruct (sget st k); reflexivity.
Qed.

Lemma sview_sget st k g : sget st k = Some g -> sview st k = g.
Proof. unfold sview. intros ->. reflexivity. Qed.

(* one delegation id *)
Lemma st_gen_one_spec garm A ids c stitch st d gid :
  sget st garm = Some A -> gid <> garm ->
  let st' := st_gen_one garm ids c stitch st (d, gid) in
  sget st' gid = Some (gen_one A ids c stitch d) /\ (forall k, k <> gid -> sget st' k = sget st k).
Proof.
  intros HA Hne. unfold st_gen_one.
  set (st1 := sset st gid (sview st garm)).
  set (st2 := fold_left (fun s id => supd s gid (fun g => rewrite_node (c_by c) d g id)) ids st1).
  assert (H1 : sget st1 gid = Some A) by (unfold st1; rewrite (sview_sget _ _ _ HA); apply sget_sset_same).
  assert (H1o : forall k, k <> gid -> sget st1 k = sget st k) by (intros k Hk; unfold st1; apply sget_sset_other; exact Hk).
  assert (H2 : sget st2 gid = Some (fold_left (rewrite_node (c_by c) d) ids A)).
  { unfold st2. rewrite (sget_fold_supd (fun g id => rewrite_node (c_by c) d g id)). rewrite N.eqb_refl, H1. reflexivity. }
  assert (H2o : forall k, k <> gid -> sget st2 k = sget st k).
  { intros k Hk. unfold st2. rewrite (sget_fold_supd (fun g id => rewrite_node (c_by c) d g id)).
    apply N.eqb_neq in Hk. rewrite Hk. apply H1o. apply N.eqb_neq. exact Hk. }
  assert (HA2 : sview st2 garm = A).
  { apply sview_sget. rewrite H2o; [exact HA|]. intros E. apply Hne. symmetry. exact E. }
  cbv zeta. rewrite HA2. split.
  - rewrite (sget_fold_supd delete_node). rewrite N.eqb_refl, H2. reflexivity.
  - intros k Hk. rewrite (sget_fold_supd delete_node). pose proof Hk as Hk'. apply N.eqb_neq in Hk'. rewrite Hk'.
    apply H2o. exact Hk.
Qed.

(* all delegation ids *)
Lemma st_gen_all garm A ids c stitch dgs : forall st,
  sget st garm = Some A -> ~ In garm (map snd dgs) -> NoDup (map snd dgs) ->
  let st' := fold_left (st_gen_one garm ids c stitch) dgs st in
  sget st' garm = Some A /\
  (forall d gid, In (d, gid) dgs -> sget st' gid = Some (gen_one A ids c stitch d)) /\
  (forall k, ~ In k (map snd dgs) -> sget st' k = sget st k).
Proof.
  induction dgs as [|[d gid] dgs IH]; intros st HA Hnot Hnd; cbv zeta.
  - simpl. split; [exact HA|]. split; [intros ? ? []|]. reflexivity.
  - cbn [fold_left]. simpl in Hnot, Hnd. inversion Hnd; subst.
    assert (Hg : gid <> garm) by (intros E; apply Hnot; left; exact E).
    destruct (st_gen_one_spec garm A ids c stitch st d gid HA Hg) as [S1 S2]. cbv zeta in S1, S2.
    set (st1 := st_gen_one garm ids c stitch st (d, gid)) in *.
    assert (HA1 : sget st1 garm = Some A).
    { rewrite S2; [exact HA|]. intros E. apply Hg. symmetry. exact E. }
    destruct (IH st1 HA1) as [I1 [I2 I3]]; [intros Hi; apply Hnot; right; exact Hi | exact H2 |]. cbv zeta in I1, I2, I3.
    split; [exact I1|]. split.
    + intros d' gid' [E|Hi].
      * inversion E; subst. rewrite I3; [exact S1 | exact H1].
      * apply I2. exact Hi.
    + intros k Hk. simpl in Hk. rewrite I3; [|intros Hi; apply Hk; right; exact Hi].
      apply S2. intros E. apply Hk. left. symmetry. exact E.
Qed.

(* supplied + generated graph ids *)
Lemma gid_for_cases supplied fresh ds x : In x (map (gid_for supplied fresh) ds) ->
  In x (supplied_for supplied ds) \/ In x (map fresh (generated_ids supplied ds)).
Proof.
  induction ds as [|d ds IH]; simpl; [tauto|]. unfold gid_for at 1.
  unfold supplied_for, generated_ids in *. simpl.
  destruct (assoc d supplied) as [g|]; simpl.
  - intros [H|H]; [left; left; exact H|]. destruct (IH H); [left; right|right]; assumption.
  - intros [H|H]; [right; left; exact H|]. destruct (IH H); [left|right; right]; assumption.
Qed.

Lemma gid_for_fresh garm supplied fresh ds :
  guids_ok garm supplied ds = true -> uuid_fresh garm supplied fresh ds ->
  ~ In garm (map (gid_for supplied fresh) ds) /\ NoDup (map (gid_for supplied fresh) ds).
Proof.
  unfold guids_ok, uuid_fresh. rewrite andb_true_iff, negb_true_iff, memb_false, nodupb_NoDup.
  intros [Hg Hn] [Ug [Un Ud]]. split.
  - intros H. apply gid_for_cases in H. tauto.
  - clear Hg Ug. induction ds as [|d ds IH]; simpl; [constructor|].
    unfold supplied_for, generated_ids in *. simpl in *. unfold gid_for at 1.
    destruct (assoc d supplied) as [g|] eqn:E; simpl in *.
    + inversion Hn; subst. constructor.
      * intros H. apply gid_for_cases in H. destruct H as [H|H]; [contradiction|].
        apply in_map_iff in H. destruct H as [d' [E' H]]. apply (Ud d' H). left. symmetry. exact E'.
      * apply IH; [assumption | assumption |]. intros d' Hd' Hi. apply (Ud d' Hd'). right. exact Hi.
    + inversion Un; subst. constructor.
      * intros H. apply gid_for_cases in H. destruct H as [H|H]; [|contradiction].
        apply (Ud d (or_introl eq_refl)). exact H.
      * apply IH; [assumption | assumption |]. intros d' Hd' Hi. apply (Ud d' (or_intror Hd')). exact Hi.
Qed.

Theorem st_generate_adms_spec st garm A supplied fresh :
  sget st garm = Some A -> wfb A = true -> gnodes A <> [] ->
  let ds := c_ids (catalog_delegations A) in
  guids_ok garm supplied ds = true -> uuid_fresh garm supplied fresh ds ->
  exists st', st_generate_adms st garm supplied fresh = (st', Ok (map (fun d => (d, gid_for supplied fresh d)) ds)) /\
    sget st' garm = Some A /\
    (forall d, In d ds -> sget st' (gid_for supplied fresh d) = Some (adm_spec A d)) /\
    (forall k, ~ In k (map (gid_for supplied fresh) ds) -> sget st' k = sget st k).
Proof.
  intros HA Hw Hne ds Hok Hu. destruct (gid_for_fresh garm supplied fresh ds Hok Hu) as [Hfresh Hnd].
  unfold st_generate_adms. rewrite (sview_sget _ _ _ HA).
  destruct (node_ids A) eqn:E.
  { unfold node_ids in E. apply map_eq_nil in E. contradiction. }
  rewrite <- E. fold ds. rewrite Hok.
  set (dgs := map (fun d => (d, gid_for supplied fresh d)) ds).
  assert (Hs : map snd dgs = map (gid_for supplied fresh) ds) by (unfold dgs; rewrite map_map; reflexivity).
  destruct (st_gen_all garm A (node_ids A) (catalog_delegations A) (stitch_nodes A) dgs st HA) as [G1 [G2 G3]];
    [rewrite Hs; exact Hfresh | rewrite Hs; exact Hnd |]. cbv zeta in G1, G2, G3.
  eexists. split; [reflexivity|]. split; [exact G1|]. split.
  - intros d Hd. rewrite (G2 d (gid_for supplied fresh d)).
    + f_equal. apply gen_one_spec; [apply wfb_NoDup | apply wfb_edges_in]; exact Hw.
    + unfold dgs. apply in_map_iff. exists d. auto.
  - intros k Hk. apply G3. rewrite Hs. exact Hk.
Qed.

(* a call with a supplied graph id that is the ARM's own, or with a repeated one, is rejected before any effect *)
Lemma st_generate_adms_rejects st garm supplied fresh :
  guids_ok garm supplied (c_ids (catalog_delegations (sview st garm))) = false ->
  st_generate_adms st garm supplied fresh = (st, Err EQuery).
Proof.
  intros H. unfold st_generate_adms. destruct (node_ids (sview st garm)); [reflexivity|]. rewrite H. reflexivity.
Qed.

Lemma st_generate_adms_ok_inv st garm supplied fresh st' dgs :
  st_generate_adms st garm supplied fresh = (st', Ok dgs) ->
  gnodes (sview st garm) <> [] /\ guids_ok garm supplied (c_ids (catalog_delegations (sview st garm))) = true.
Proof.
  unfold st_generate_adms. destruct (node_ids (sview st garm)) eqn:E; [discriminate|].
  destruct (guids_ok _ _ _); [|discriminate]. intros _. split; [|reflexivity].
  intros H. unfold node_ids in E. rewrite H in E. discriminate.
Qed.

(* C07 - the removal calls keep the rules: remove_network_service (topology and node level). *)
From Coq Require Import String List NArith ZArith Bool Arith Lia.
From FIM Require Import Base.Str Gen.Rules Model.T7Graph Model.T7Ops Model.T7WF Model.T7Steps Model.T7Rel
     Proofs.T7Tables Proofs.T7WFRefl Proofs.T7Frame Proofs.T7Units Proofs.T7Api Proofs.T7Api2 Proofs.T7Api3
     Proofs.T7RelUnits Proofs.T7RelRun Proofs.T7RelCp Proofs.T7Api4 Proofs.T7RelAdd Proofs.T7Api5 Proofs.T7Api6
     Proofs.T7Rem Proofs.T7Rem2.
Import ListNotations.

Lemma absent_no_nb g x r k : sane g -> has_id g x = false -> first_nb g x r k = [].
Proof. intros [_ HE] H. unfold first_nb. rewrite (nbrs_fresh_nil _ _ HE H). reflexivity. Qed.

(* the common tail of Topology.remove_network_service and Node.remove_network_service *)
Lemma remove_service_core fl hint sv s s' r :
  WF (sg s) -> subs_under_dedicated (sg s) = true -> one_sp_peer (sg s) = true -> fl_skip_gone fl = true ->
  cls_is (sg s) sv KNS = true ->
  (fresh_ns_cache sv ;;; (ifs <- cps_of_ns_or_link sv ;; (disconnect_loop fl hint ifs ;;; remove_ns_with_cps_and_links sv))) s = (s', r) ->
  WF (sg s').
Proof.
  intros W X P FL Cs H.
  apply bind_reads in H; [| auto with reads].
  destruct H as [[s1 [c [_ [Hg H]]]] | [e [Hr Hg]]]; [| rewrite Hg; exact W].
  apply bind_reads in H; [| auto with reads].
  destruct H as [[s2 [ifs [Hm [Hg2 H]]]] | [e [Hr Hg2]]]; [| rewrite Hg2, Hg; exact W].
  apply cps_of_ns_or_link_val in Hm as [-> ->]. clear Hg2.
  set (g0 := sg s) in *. rewrite Hg in *. clear c.
  set (P0 := first_nb g0 sv Connects KCP) in *.
  set (E := fun y => str_eqb y sv || mem_str y P0).
  assert (EN : forall y, E y = true -> cls_is g0 y KLink = false).
  { intros y Hy. unfold E in Hy. apply orb_true_iff in Hy as [Hy|Hy].
    - apply str_eqb_eq in Hy. subst y. apply (cls_is_unique _ _ _ _ Cs). discriminate.
    - apply mem_str_In in Hy. apply In_first_nb in Hy as [_ Hy]. apply (cls_is_unique _ _ _ _ Hy). discriminate. }
  assert (HC : forall i, In i P0 -> cls_is g0 i KCP = true) by (intros i Hi; apply In_first_nb in Hi; tauto).
  assert (HEp : forall i, In i P0 -> E i = true) by (intros i Hi; unfold E; apply orb_true_iff; right; apply mem_str_In; exact Hi).
  destruct (disconnect_phase g0 W X P E EN fl hint P0 s1 Hg FL HC (fun i Hi _ => HEp i Hi)) as [d1 [R1 [I1 [K1 N1]]]].
  unfold bind at 1 in H. rewrite R1 in H.
  assert (Ds : d1 sv = false) by (apply (Kl_keeps g0 d1 KNS sv K1 Cs); discriminate).
  destruct (remove_ns_run g0 W E d1 (mkSt (remove_set g0 d1) (sdr s1)) sv I1 (cls_is_has_id _ _ _ Cs) Ds Cs HEp) as [d2 [R2 [I2 [S2 [D2s [D2p _]]]]]].
  - (* no service-port peer is left on the interfaces and their sub-interfaces *)
    intros x c z Hx Dx Hc Hz Tz. simpl in Hc, Hz. exfalso.
    assert (Hl : In c (loop_list g0 P0)).
    { unfold loop_list. apply in_flat_map. exists x. split; [exact Hx|]. destruct Hc as [->|Hc]; [left; reflexivity|]. right.
      rewrite (first_nb_remove g0 d1 x _ _ Dx) in Hc. apply filter_In in Hc as [Hc _].
      destruct (own_port_children g0 W sv x c Cs Hx Hc) as [Tx [Tc _]].
      (* X1: the edge x - c has a DedicatedPort end, and c is a sub-interface *)
      assert (Td : typ_is g0 x sDedicatedPort = true).
      { apply In_first_nb in Hc as [Hadj Cc]. apply In_nbrs in Hadj as [e [He [_ Hends]]].
        unfold subs_under_dedicated in X. rewrite forallb_forall in X. specialize (X e He).
        assert (Dc : typ_is g0 c sDedicatedPort = false) by (apply (typ_is_excl _ _ _ _ Tc); reflexivity).
        destruct Hends as [[E1 E2]|[E1 E2]]; rewrite E1, E2, (HC x Hx), Cc, Dc in X; simpl in X;
          rewrite ?orb_false_r in X; exact X. }
      rewrite Td. exact Hc. }
    assert (Dc : d1 c = false).
    { pose proof (peers_cls _ _ _ Hz) as Cz. destruct (d1 c) eqn:Dc; [|reflexivity]. exfalso.
      assert (Hc' : has_id (remove_set g0 d1) c = false).
      { destruct (has_id (remove_set g0 d1) c) eqn:Q; [|reflexivity]. apply has_id_remove_inv in Q. destruct Q; congruence. }
      pose proof (InvD_sane _ _ _ _ I1) as Sn1. simpl in Sn1. rewrite (peers_absent _ c Sn1 Hc') in Hz. destruct Hz. }
    rewrite (N1 c z Hl Dc Hz) in Tz. discriminate.
  - simpl in R2, I2. rewrite R2 in H. inversion H; subst s' r. simpl.
    apply (finish g0 E d2 _ I2). intros y Hy _. unfold E in Hy. apply orb_true_iff in Hy as [Hy|Hy].
    + apply str_eqb_eq in Hy. subst y. exact D2s.
    + apply mem_str_In in Hy. apply D2p. exact Hy.
Qed.

Lemma reads_nss_of x : reads (nss_of x).
Proof. unfold nss_of. auto 8 with reads. Qed.
#[export] Hint Resolve reads_nss_of reads_find_node_by_name : reads.

Lemma nss_of_val x s s' l : nss_of x s = (s', Ok l) -> s' = s /\ l = first_nb (sg s) x Has KNS.
Proof.
  unfold nss_of. intro H. apply bind_inv in H as [[s1 [[] [H1 H2]]]|[e [_ H]]]; [|discriminate].
  apply check_class_val in H1 as [-> _]. apply q_first_nb_val in H2 as [-> [-> _]]. auto.
Qed.

(* Topology.remove_network_service *)
Theorem api_t_remove_ns fl hint name s s' r :
  WF (sg s) -> subs_under_dedicated (sg s) = true -> one_sp_peer (sg s) = true -> fl_skip_gone fl = true ->
  t_remove_ns fl hint name s = (s', r) -> WF (sg s').
Proof.
  intros W X P FL H. unfold t_remove_ns in H.
  apply bind_reads in H; [| auto with reads].
  destruct H as [[s1 [sv [Hm [Hg H]]]] | [e [Hr Hg]]]; [| rewrite Hg; exact W].
  apply find_node_by_name_val in Hm as [-> [n [Hn [En [Kn _]]]]]. clear Hg.
  assert (Cs : cls_is (sg s) sv KNS = true) by (rewrite <- En, (cls_is_node _ n _ (wf_ids _ W) Hn), Kn; reflexivity).
  eapply remove_service_core; eauto.
Qed.

(* Node.remove_network_service *)
Theorem api_node_remove_ns fl hint nd name s s' r :
  WF (sg s) -> subs_under_dedicated (sg s) = true -> one_sp_peer (sg s) = true -> fl_skip_gone fl = true ->
  node_remove_ns fl hint nd name s = (s', r) -> WF (sg s').
Proof.
  intros W X P FL H. unfold node_remove_ns in H.
  apply bind_reads in H; [| auto with reads].
  destruct H as [[s1 [ss [Hm [Hg H]]]] | [e [Hr Hg]]]; [| rewrite Hg; exact W].
  apply nss_of_val in Hm as [-> ->]. clear Hg.
  apply bind_reads in H; [| auto with reads].
  destruct H as [[s1 [sv [Hm [Hg H]]]] | [e [Hr Hg]]]; [| rewrite Hg; exact W].
  apply find_by_name_lazy_val in Hm as [-> Hsv]. clear Hg.
  assert (Cs : cls_is (sg s) sv KNS = true) by (apply In_first_nb in Hsv; tauto).
  eapply remove_service_core; eauto.
Qed.

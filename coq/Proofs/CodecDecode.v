(* C03, decode side: which texts decode (the accepted language), everything decodable is well-formed, re-encoding a
   decoded value decodes to the same (normalised) value, and encode . decode . encode = encode for every value the
   classes accept *)
From Coq Require Import String List NArith ZArith Bool Lia Permutation.
From FIM Require Import Base.Str Base.Json Base.JsonRT Gen.CodecGen Model.CodecField Model.CodecMisc Model.CodecWf
     Proofs.CodecAssoc Proofs.CodecFieldRT Proofs.CodecMiscRT.
Import ListNotations.

Lemma fld_dropped c k : norm_stable c = true -> jc_json_drop c <> DropNothing ->
  dropped (jc_json_drop c) (fld k (jc_fields c)) = true.
Proof.
  unfold norm_stable, fld. intros H N.
  destruct (aget k (jc_fields c)) as [d|] eqn:G.
  - apply aget_in in G. destruct (jc_json_drop c); try congruence;
      (rewrite forallb_forall in H; exact (H (k, d) G)).
  - destruct (jc_json_drop c); try congruence; reflexivity.
Qed.

Lemma kept_norm c o : norm_stable c = true -> kept (jc_json_drop c) (norm_obj c o) = kept (jc_json_drop c) o.
Proof.
  intro H. unfold kept, norm_obj. induction o as [|[k v] o IH]; [reflexivity|].
  cbn [map filter fst snd]. rewrite IH.
  destruct (dropped (jc_json_drop c) v) eqn:D; cbn [negb]; [|rewrite D; reflexivity].
  assert (N : jc_json_drop c <> DropNothing) by (intro E; rewrite E in D; discriminate).
  rewrite (fld_dropped c k H N). reflexivity.
Qed.

Lemma to_json_norm c o : norm_stable c = true -> to_json c (norm_obj c o) = to_json c o.
Proof. intro H. unfold to_json. rewrite (kept_norm c o H). reflexivity. Qed.

Lemma norm_stable_all : forallb norm_stable gen_classes = true.
Proof. reflexivity. Qed.

Lemma norm_stable_ok c : In c gen_classes -> norm_stable c = true.
Proof. intro H. pose proof norm_stable_all as Q. rewrite forallb_forall in Q. exact (Q c H). Qed.

Lemma dropped_in_droppable r v : dropped r v = true -> In v droppable.
Proof.
  unfold droppable. destruct r; simpl; try discriminate.
  - destruct v; try discriminate; simpl.
    + tauto.
    + destruct b; [discriminate|]. tauto.
    + intro H. apply Z.eqb_eq in H. subst. tauto.
    + intro H. apply orb_true_iff in H as [H|H]; apply str_eqb_eq in H; subst; tauto.
  - destruct v; try discriminate. tauto.
Qed.

Section DecodeProofs.
  Variable V : str -> json -> bool.

  (* encode . decode . encode = encode, for EVERY value the class accepts (also those with dropped fields) *)
  Theorem field_canonical_all c o y : cls_ok V c = true -> norm_stable c = true -> semi_wf V c o = true ->
    from_json V c (Some (to_json c o)) = Ok (Some y) -> to_json c y = to_json c o.
  Proof.
    intros C N W H. rewrite (field_reencode V c o C W) in H.
    destruct (nothing_kept c o && jc_json_blank c); [discriminate|]. injection H as <-. apply to_json_norm. exact N.
  Qed.

  (* where the drop rule is lossless, normalising changes nothing *)
  Lemma norm_lossless_id c o : lossless_cls c = true -> semi_wf V c o = true -> cls_ok V c = true -> norm_obj c o = o.
  Proof.
    intros L W C. unfold norm_obj. rewrite <- (map_id o) at 2. apply map_ext_in. intros [k v] Hin. cbn [fst snd].
    destruct (dropped (jc_json_drop c) v) eqn:D; [|reflexivity].
    pose proof (semi_field V c o k v W Hin) as F. unfold semi_ok in F. unfold fld.
    destruct (aget k (jc_fields c)) as [d|] eqn:G; [|discriminate].
    apply orb_true_iff in F as [F|F]; [apply json_eqb_eq in F; congruence|].
    apply andb_true_iff in F as [F _]. apply andb_true_iff in F as [F _].
    unfold elem_ok in F. apply andb_true_iff in F as [F _].
    unfold lossless_cls in L. rewrite forallb_forall in L. specialize (L v (dropped_in_droppable _ _ D)).
    rewrite F, D in L. cbn in L. rewrite forallb_forall in L. specialize (L (k, d) (aget_in _ _ _ G)). cbn [snd] in L.
    apply json_eqb_eq in L. congruence.
  Qed.

  (* ---------------- the accepted language ---------------- *)
  Lemma set_fields_known_inv c fg kw : forall o y, (forall kv, In kv kw -> ahas (fst kv) o = true) ->
    set_fields V c fg kw o = Ok y ->
    y = aset_all kw o /\ (forall k v, In (k, v) kw -> elem_ok V c k v = true).
  Proof.
    induction kw as [|[k v] kw IH]; intros o y K H.
    - injection H as <-. split; [reflexivity|]. intros k v [].
    - cbn [set_fields] in H. unfold elem_ok.
      destruct (check_value c v) eqn:CV; [discriminate|].
      pose proof (K (k, v) (or_introl eq_refl)) as Kk. cbn [fst] in Kk. rewrite Kk in H.
      destruct (jc_validated c && negb (V k v)) eqn:VV; [discriminate|].
      assert (K' : forall kv, In kv kw -> ahas (fst kv) (aset k v o) = true).
      { intros kv Hin. apply ahas_aset. apply K. right. exact Hin. }
      destruct (IH _ _ K' H) as [E Q]. split; [exact E|].
      intros k' v' [E'|Hin]; [|exact (Q k' v' Hin)]. injection E' as <- <-. rewrite CV. simpl.
      destruct (jc_validated c); [|reflexivity]. simpl in *. apply negb_false_iff in VV. exact VV.
  Qed.

  (* EXACTLY the texts that decode to a value: not absent, a JSON object (any whitespace, any key order; a repeated key
     counts with its last value, as json.loads has it; unknown keys ignored), whose known members all carry a value the
     class accepts.  The decoded value is the defaults overwritten, in text order, by the known members. *)
  Theorem field_decode_iff c t y :
    from_json V c (Some t) = Ok (Some y) <->
    absent_text t = false /\ exists d, jparse t = Some (JObj d)
      /\ (forall k v, In (k, v) (filter (known_key c) d) -> elem_ok V c k v = true)
      /\ y = aset_all (filter (known_key c) d) (jc_fields c).
  Proof.
    assert (KN : forall d kv, In kv (filter (known_key c) d) -> ahas (fst kv) (jc_fields c) = true).
    { intros d kv Hin. apply filter_In in Hin as [_ Hk]. exact Hk. }
    unfold from_json. split.
    - destruct (absent_text t); [discriminate|]. destruct (jparse t) as [j|]; [|discriminate].
      unfold of_jv. destruct j; try discriminate. unfold of_dict, defaults.
      destruct (set_fields V c true (filter (known_key c) m) (jc_fields c)) as [o|] eqn:E; [|discriminate].
      intros [= <-]. split; [reflexivity|]. exists m. split; [reflexivity|].
      destruct (set_fields_known_inv c true _ _ _ (KN m) E) as [E1 E2]. split; [exact E2|exact E1].
    - intros (A & d & P & EO & ->). rewrite A, P. unfold of_jv, of_dict, defaults.
      rewrite (set_fields_fold V c true (filter (known_key c) d) (jc_fields c)); [reflexivity|].
      intros k v Hin. split; [exact (EO k v Hin)|exact (KN d (k, v) Hin)].
  Qed.

  (* everything decodable (from a text whose strings are well formed and whose member values hold no dict) is in the
     domain of the re-encode theorem *)
  Theorem field_decode_closed c t j y : cls_ok V c = true -> jparse t = Some j -> jwfb j = true -> flat_obj j = true ->
    from_json V c (Some t) = Ok (Some y) -> semi_wf V c y = true.
  Proof.
    intros C P J F H. apply field_decode_iff in H as (_ & d & P' & EO & ->). rewrite P in P'. injection P' as ->.
    cbn [jwfb] in J. apply andb_true_iff in J as [J ND]. cbn [flat_obj] in F.
    set (kd := filter (known_key c) d).
    assert (KNk : forall kv, In kv kd -> ahas (fst kv) (jc_fields c) = true).
    { intros kv Hin. apply filter_In in Hin as [_ Hk]. exact Hk. }
    assert (NDk : NoDup (map fst kd)) by (apply filter_keys_NoDup; apply nodup_keys_NoDup; exact ND).
    pose proof (aset_all_keys kd (jc_fields c) KNk) as K.
    pose proof (cls_nodup V c C) as NDf.
    unfold semi_wf. apply andb_true_iff. split.
    - rewrite K. clear. induction (map fst (jc_fields c)) as [|x l IH]; [reflexivity|]. simpl. rewrite str_eqb_refl. exact IH.
    - apply forallb_forall. intros [k v] Hin. cbn [fst snd].
      assert (G : aget k (aset_all kd (jc_fields c)) = Some v) by (apply in_aget; [rewrite K; exact NDf|exact Hin]).
      rewrite (aset_all_get kd (jc_fields c) k NDk) in G. unfold semi_ok.
      destruct (aget k kd) as [v'|] eqn:GK.
      + injection G as ->. apply aget_in in GK.
        pose proof (KNk (k, v) GK) as HK. unfold ahas in HK. cbn [fst] in HK.
        destruct (aget k (jc_fields c)); [|discriminate].
        rewrite (EO k v GK). apply filter_In in GK as [GK _].
        rewrite forallb_forall in J, F. specialize (J (k, v) GK). specialize (F (k, v) GK). cbn [fst snd] in J, F.
        apply andb_true_iff in J as [_ J]. rewrite J, F. apply orb_true_r.
      + rewrite G. rewrite json_eqb_refl. reflexivity.
  Qed.

  (* decode t = y  ==>  decode (encode y) = the normalised y (= y itself where the drop rule is lossless), and the
     re-encoded text is a fixed point of decode . encode *)
  Theorem field_decode_reencode c t j y : cls_ok V c = true -> jparse t = Some j -> jwfb j = true -> flat_obj j = true ->
    from_json V c (Some t) = Ok (Some y) ->
    from_json V c (Some (to_json c y)) = Ok (if nothing_kept c y && jc_json_blank c then None else Some (norm_obj c y)).
  Proof.
    intros C P J F H. apply field_reencode; [exact C|]. exact (field_decode_closed c t j y C P J F H).
  Qed.

  Theorem field_decode_reencode_lossless c t j y : cls_ok V c = true -> lossless_cls c = true ->
    jparse t = Some j -> jwfb j = true -> flat_obj j = true -> from_json V c (Some t) = Ok (Some y) ->
    from_json V c (Some (to_json c y)) = Ok (if nothing_kept c y && jc_json_blank c then None else Some y).
  Proof.
    intros C L P J F H. rewrite (field_decode_reencode c t j y C P J F H).
    rewrite (norm_lossless_id c y L (field_decode_closed c t j y C P J F H) C). reflexivity.
  Qed.
End DecodeProofs.

(* ------------------------------------------------------------------ Tags *)
Section TagsDecode.
  Variable VT : str -> bool.

  Lemma tags_each_inv l0 : forall t, tags_each VT l0 = Ok t -> l0 = map JStr t.
  Proof.
    induction l0 as [|v l0 IH]; intros t H; simpl in H.
    - injection H as <-. reflexivity.
    - destruct v; try discriminate. simpl in H. destruct (VT s); [|discriminate].
      destruct (tags_each VT l0) as [t'|]; [|discriminate]. injection H as <-. simpl. rewrite (IH t' eq_refl). reflexivity.
  Qed.

  (* the accepted texts: absent, or a JSON list of strings / a single JSON string, every string passing the pattern;
     whatever decodes is a valid Tags value and re-encodes to a text that decodes to the same value *)
  Theorem tags_decode_closed t j l : jparse t = Some j -> jwfb j = true -> tags_from_json VT (Some t) = Ok (Some l) ->
    tags_wf VT l = true /\ tags_from_json VT (Some (tags_to_json l)) = Ok (Some l).
  Proof.
    intros P J H. unfold tags_from_json in H.
    destruct (Nat.eqb (List.length t) 0 || str_eqb t (S"None")); [discriminate|]. rewrite P in H.
    destruct (tags_make VT [j]) as [l'|] eqn:M; [|discriminate]. injection H as ->.
    pose proof (tags_make_valid VT [j] l M) as VL.
    assert (SO : forallb str_ok l = true).
    { cbn [tags_make] in M.
      destruct (match j with JArr l0 => tags_each VT l0 | _ => tags_each VT [j] end) as [t1|] eqn:E; [|discriminate].
      injection M as <-. rewrite List.app_nil_r.
      destruct j as [| | | |s|l0|m]; try (simpl in E; discriminate).
      - simpl in E. destruct (VT s); [|discriminate]. injection E as <-. simpl in J. simpl. rewrite J. reflexivity.
      - apply tags_each_inv in E. subst l0. simpl in J. rewrite forallb_forall in *. intros x Hx.
        apply (J (JStr x)). apply in_map. exact Hx. }
    assert (W : tags_wf VT l = true).
    { unfold tags_wf. apply forallb_forall. intros x Hx. rewrite forallb_forall in VL, SO. rewrite (VL x Hx), (SO x Hx). reflexivity. }
    split; [exact W|apply tags_roundtrip; exact W].
  Qed.
End TagsDecode.

(* ------------------------------------------------------------------ JSONData: decoding = constructing from the text *)
Theorem jd_text_kept_verbatim mx exn s t : jd_make mx exn (JDText s) = Ok t -> t = s /\ jparse s <> None.
Proof.
  simpl. destruct (mx <? N.of_nat (List.length s))%N; [discriminate|].
  destruct (jparse s); [|discriminate]. intros [= <-]. split; [reflexivity|discriminate].
Qed.

(* ------------------------------------------------------------------ PathInfo / ERO *)
Lemma aget_jwfb d k v : jwfb (JObj d) = true -> aget k d = Some v -> jwfb v = true.
Proof.
  cbn [jwfb]. intros J G. apply andb_true_iff in J as [J _]. rewrite forallb_forall in J.
  specialize (J (k, v) (aget_in _ _ _ G)). cbn [snd fst] in J. apply andb_true_iff in J as [_ J]. exact J.
Qed.

(* whatever decodes re-encodes to a text that decodes to the same value -- or to absent when the decoded value has
   nothing set (a Graph-typed text with "payload": null) *)
Theorem pi_decode_reencode ero j p : jwfb j = true -> pi_of_jv ero j = Ok (Some p) ->
  exists s, pi_to_json p = Ok s /\ pi_from_json ero (Some s) = Ok (if pinfo_nothing p then None else Some p).
Proof.
  intros J H. unfold pi_of_jv in H. destruct j as [| | | | | |d]; try discriminate.
  destruct (aget k_type d) as [tv|] eqn:GT; [|discriminate].
  destruct (match tv with JNull => true | _ => false end) eqn:TN; [destruct tv; discriminate|].
  assert (H' : match (match aget k_payload d with
                      | None => Err e_key
                      | Some pv => match type_from_str tv with
                                   | Some PTGraph => Ok (PLRaw pv)
                                   | _ => match pv with
                                          | JObj pd => match aget k_a2z pd, aget k_z2a pd with
                                                       | Some a, Some z => Ok (PLPath a z)
                                                       | _, _ => Err e_assert end
                                          | _ => Err e_assert end
                                   end
                      end) with
               | Err e => Err e
               | Ok pl => Ok (Some {| pi_type := type_from_str tv; pi_payload := pl;
                                      pi_strict := if ero then Some (match aget k_strict d with
                                                                     | Some (JStr s) => existsb (str_eqb s) ero_strict_true
                                                                     | _ => false end) else None |})
               end = Ok (Some p)).
  { destruct tv; try discriminate; exact H. }
  clear H. destruct (aget k_payload d) as [pv|] eqn:GP; [|discriminate].
  pose proof (aget_jwfb d _ _ J GP) as JP.
  set (st := if ero then Some (match aget k_strict d with
                               | Some (JStr s) => existsb (str_eqb s) ero_strict_true | _ => false end) else None) in *.
  assert (RT : forall ty pl, payload_wf pl = true ->
            (match ty, pl with Some PTGraph, PLRaw _ => true | Some PTGraph, PLPath _ _ => false
                             | _, PLPath _ _ => true | _, PLRaw _ => false end) = true ->
            exists s, pi_to_json {| pi_type := ty; pi_payload := pl; pi_strict := st |} = Ok s /\
                      pi_from_json ero (Some s) = Ok (if payload_unset pl then None
                                                      else Some {| pi_type := ty; pi_payload := pl; pi_strict := st |})).
  { intros ty pl W C.
    assert (ST : st = (if ero then Some (match st with Some b => b | None => false end) else None)).
    { subst st. destruct ero; reflexivity. }
    destruct ty as [[|]|]; destruct pl as [x|a z]; try discriminate.
    - (* Path, path payload *)
      cbn [payload_wf] in W. apply andb_true_iff in W as [Wa Wz].
      rewrite ST. destruct ero; [destruct (match st with Some b => b | None => false end)|];
        eexists; (split; [reflexivity|]);
        unfold pi_from_json; cbn [pi_type pi_payload pi_strict ptype_str app payload_unset];
        (match goal with |- context [jprint ?v] =>
           assert (JJ : jwfb v = true) by (cbn; rewrite Wa, Wz; reflexivity);
           change (Nat.eqb (List.length (jprint v)) 0) with false; cbv iota; rewrite (jparse_jprint v JJ) end);
        reflexivity.
    - (* Graph, raw payload *)
      cbn [payload_wf] in W.
      destruct (payload_unset (PLRaw x)) eqn:U.
      + destruct x; try discriminate. exists []. split; reflexivity.
      + rewrite ST. destruct ero; [destruct (match st with Some b => b | None => false end)|];
          (eexists; split; [unfold pi_to_json; cbn [pi_type pi_payload pi_strict]; rewrite U; reflexivity|]);
          unfold pi_from_json; cbn [pi_type pi_payload pi_strict ptype_str app];
          (match goal with |- context [jprint ?v] =>
             assert (JJ : jwfb v = true) by (cbn; rewrite W; reflexivity);
             change (Nat.eqb (List.length (jprint v)) 0) with false; cbv iota; rewrite (jparse_jprint v JJ) end);
          cbn; reflexivity.
    - (* unknown type, path payload: the type prints as "None" and reads back as unknown *)
      cbn [payload_wf] in W. apply andb_true_iff in W as [Wa Wz].
      rewrite ST. destruct ero; [destruct (match st with Some b => b | None => false end)|];
        eexists; (split; [reflexivity|]);
        unfold pi_from_json; cbn [pi_type pi_payload pi_strict ptype_str app payload_unset];
        (match goal with |- context [jprint ?v] =>
           assert (JJ : jwfb v = true) by (cbn; rewrite Wa, Wz; reflexivity);
           change (Nat.eqb (List.length (jprint v)) 0) with false; cbv iota; rewrite (jparse_jprint v JJ) end);
        reflexivity. }
  unfold pinfo_nothing.
  destruct (type_from_str tv) as [[|]|] eqn:TY.
  - destruct pv as [| | | | | |pd]; try discriminate.
    destruct (aget k_a2z pd) as [a|] eqn:GA; [|discriminate]. destruct (aget k_z2a pd) as [z|] eqn:GZ; [|discriminate].
    injection H' as <-. cbn [pi_payload].
    apply (RT (Some PTPath) (PLPath a z)); [|reflexivity].
    cbn [payload_wf]. rewrite (aget_jwfb pd _ _ JP GA), (aget_jwfb pd _ _ JP GZ). reflexivity.
  - injection H' as <-. cbn [pi_payload]. apply (RT (Some PTGraph) (PLRaw pv)); [exact JP|reflexivity].
  - destruct pv as [| | | | | |pd]; try discriminate.
    destruct (aget k_a2z pd) as [a|] eqn:GA; [|discriminate]. destruct (aget k_z2a pd) as [z|] eqn:GZ; [|discriminate].
    injection H' as <-. cbn [pi_payload].
    apply (RT None (PLPath a z)); [|reflexivity].
    cbn [payload_wf]. rewrite (aget_jwfb pd _ _ JP GA), (aget_jwfb pd _ _ JP GZ). reflexivity.
Qed.

(* ------------------------------------------------------------------ MaintenanceInfo *)
Section MaintDecode.
  Variable VISO : str -> bool.

  Lemma iso_arg_wf o r : (forall v, o = Some v -> jwfb v = true) -> iso_arg VISO o = Ok r -> iso_ok VISO r = true.
  Proof.
    intros J H. unfold iso_arg in H. destruct o as [v|]; [|injection H as <-; reflexivity].
    destruct (truthy v) eqn:T; [|injection H as <-; reflexivity].
    destruct v; try discriminate. destruct (VISO s) eqn:E; [|discriminate]. injection H as <-.
    simpl. rewrite E. specialize (J (JStr s) eq_refl). simpl in J. rewrite J. simpl in T. rewrite T. reflexivity.
  Qed.

  Lemma mentry_decode_wf v e : jwfb v = true -> mentry_of_jv VISO v = Ok e -> mentry_wf VISO e = true.
  Proof.
    intros J H. unfold mentry_of_jv in H. destruct v as [| | | | | |d]; try discriminate.
    destruct (aget k_state d); [|discriminate].
    destruct (iso_arg VISO (aget k_deadline d)) as [dl|] eqn:E1; [|discriminate].
    destruct (iso_arg VISO (aget k_end d)) as [en|] eqn:E2; [|discriminate].
    injection H as <-. unfold mentry_wf. cbn [me_deadline me_end].
    rewrite (iso_arg_wf _ _ (fun v G => aget_jwfb d _ v J G) E1), (iso_arg_wf _ _ (fun v G => aget_jwfb d _ v J G) E2).
    reflexivity.
  Qed.

  Lemma mentries_decode_wf d : forall l, forallb (fun kv => str_ok (fst kv) && jwfb (snd kv)) d = true ->
    mentries_of VISO d = Ok l ->
    map fst l = map fst d /\ forallb (fun ne => str_ok (fst ne) && mentry_wf VISO (snd ne)) l = true.
  Proof.
    induction d as [|[n v] d IH]; intros l J H; simpl in H.
    - injection H as <-. split; reflexivity.
    - simpl in J. apply andb_true_iff in J as [J1 J2]. apply andb_true_iff in J1 as [Jn Jv].
      destruct (mentry_of_jv VISO v) as [e|] eqn:E; [|discriminate].
      destruct (mentries_of VISO d) as [l'|] eqn:E2; [|discriminate]. injection H as <-.
      destruct (IH l' J2 eq_refl) as [K W]. split; [simpl; rewrite K; reflexivity|].
      simpl. rewrite Jn, (mentry_decode_wf v e Jv E), W. reflexivity.
  Qed.

  (* the accepted texts: absent, or a JSON object whose members are objects with a "state" (other known members:
     deadline / expected_end, falsy or ISO text); whatever decodes is a well-formed FINALIZED record that re-encodes to
     a text decoding to the same record *)
  Theorem maint_decode_closed j m : jwfb j = true -> mi_of_jv VISO j = Ok (Some m) ->
    minfo_wf VISO m = true /\ mi_lock m = true /\
    exists s, mi_to_json m = Ok s /\ mi_from_json VISO (Some s) = Ok (Some m).
  Proof.
    intros J H. unfold mi_of_jv in H. destruct j as [| | | | | |d]; try discriminate.
    destruct (mentries_of VISO d) as [l|] eqn:E; [|discriminate]. injection H as <-.
    cbn [jwfb] in J. apply andb_true_iff in J as [J ND].
    destruct (mentries_decode_wf d l J E) as [K W].
    assert (WF : minfo_wf VISO {| mi_nodes := l; mi_lock := true |} = true).
    { unfold minfo_wf. cbn [mi_nodes]. rewrite K, ND, W. reflexivity. }
    split; [exact WF|]. split; [reflexivity|]. apply maint_roundtrip; [exact WF|reflexivity].
  Qed.
End MaintDecode.

(* ------------------------------------------------------------------ typed tuples *)
Lemma split1_eq sep s : forall a b, split1 sep s = Some (a, b) -> s = a ++ sep :: b.
Proof.
  induction s as [|c s IH]; intros a b H; simpl in H; [discriminate|].
  destruct (c =? sep)%N eqn:E.
  - injection H as <- <-. apply N.eqb_eq in E. subst. reflexivity.
  - destruct (split1 sep s) as [[a' b']|]; [|discriminate]. injection H as <- <-. simpl. rewrite (IH a' b' eq_refl). reflexivity.
Qed.

Lemma lstrip_head s : match lstrip s with [] => True | c :: _ => py_space c = false end.
Proof.
  induction s as [|c s IH]; simpl; [exact I|]. destruct (py_space c) eqn:E; [exact IH|exact E].
Qed.

(* whatever fromstring accepts is a tuple of the category's vocabulary whose value is a string without trailing
   whitespace, i.e. in the domain of the round-trip theorem *)
Theorem tt_decode_closed cat s t : tt_fromstring cat s = Ok t ->
  ttuple_wf cat t = true /\ tval_plain (tt_val t) = true.
Proof.
  unfold tt_fromstring. destruct (split1 sep_char (py_strip s)) as [[a b]|] eqn:E; [|discriminate].
  unfold tt_make. destruct (existsb (str_eqb a) (types_of cat)) eqn:X; [|discriminate]. intros [= <-].
  split; [exact X|]. cbn [tt_val tval_plain].
  apply split1_eq in E. unfold py_strip in E.
  pose proof (lstrip_head (rev (lstrip s))) as LH.
  assert (R : lstrip (rev (lstrip s)) = rev b ++ sep_char :: rev a).
  { rewrite <- (rev_involutive (lstrip (rev (lstrip s)))), E. rewrite rev_app_distr. simpl. rewrite <- app_assoc. reflexivity. }
  rewrite R in LH. destruct (rev b) as [|c r]; [reflexivity|]. simpl in LH. rewrite LH. reflexivity.
Qed.

Theorem tt_decode_reencode cat s t : tuple_vocab_ok = true -> tt_fromstring cat s = Ok t ->
  tt_fromstring cat (tt_string t) = Ok t.
Proof.
  intros VO H. destruct (tt_decode_closed cat s t H) as [W P]. exact (tt_roundtrip_partial cat t VO W P).
Qed.

(* C09 - example graphs, and where the full statement "every failing call leaves the graph unchanged" is still
   FALSE of the faithful model: concrete witnesses (each is replayed on the real code by
   harness/topo9_gen.refuted_witnesses). *)
From Coq Require Import List NArith Bool String.
From FIM Require Import Base.Str Gen.T9Names Model.T9Graph Model.T9Ops Model.T9Check.
Import ListNotations.
Open Scope N_scope.

(* a VM with a shared NIC: node 1, component 2, its OVS service 3, its port 4; a second VM 5 with NIC 6,
   service 7, ports 8 and 9 *)
Definition tVM : N := 100.
Definition tNIC : N := 101.
Definition tOVS : N := 102.
Definition tL2Bridge : N := 103.
Definition tVLAN : N := 104.
Definition g_two_nodes : graph :=
  mkGraph [mkNode 1 cNN (S "n1") tVM 1; mkNode 2 cComp (S "nic1") tNIC 2; mkNode 3 cNS (S "n1-nic1-l2ovs") tOVS 3;
           mkNode 4 cCP (S "nic1-p1") tSharedPort 4;
           mkNode 5 cNN (S "n2") tVM 1; mkNode 6 cComp (S "nic1") tNIC 2; mkNode 7 cNS (S "n2-nic1-l2ovs") tOVS 3;
           mkNode 8 cCP (S "nic1-p1") tDedicatedPort 5; mkNode 9 cCP (S "nic1-p2") tDedicatedPort 6]
          [mkEdge 1 2 rHas; mkEdge 2 3 rHas; mkEdge 3 4 rConnects;
           mkEdge 5 6 rHas; mkEdge 6 7 rHas; mkEdge 7 8 rConnects; mkEdge 7 9 rConnects].
Definition supply : list N := [50; 51; 52; 53; 54; 55; 56; 57].

Lemma g_two_nodes_wf : wf_graph g_two_nodes = true.
Proof. vm_compute. reflexivity. Qed.

Ltac differs := let Heq := fresh "Heq" in intro Heq; apply (f_equal (fun g => List.length (gnodes g))) in Heq; vm_compute in Heq; discriminate.

(* composite sliver adders: a caller-supplied child id that already exists (substrate topologies) is
   detected after the component node has been added *)
Definition spec_smartnic (nsid i1 i2 : N) : comp_spec :=
  mkCompSpec tNIC (Some (mkChildNs (S "n1-nic2-l2ovs") tOVS (Some nsid)
     [mkChildIf (S "nic2-p1") tDedicatedPort (Some i1); mkChildIf (S "nic2-p2") tDedicatedPort (Some i2)])).

Definition w_component_dup_child : st * res N :=
  op_add_component false Substrate 1 (S "nic2") (Some 20) true true true (Ok (spec_smartnic 21 22 22)) None
                   (mkSt g_two_nodes supply).

Lemma add_component_atomic_refuted :
  exists fl pn name nid a b c cat pure g fresh s' e,
    wf_graph g = true /\ op_add_component false fl pn name nid a b c cat pure (mkSt g fresh) = (s', Err e) /\ sg s' <> g.
Proof.
  exists Substrate, 1, (S "nic2"), (Some 20), true, true, true, (Ok (spec_smartnic 21 22 22)), None,
         g_two_nodes, supply, (fst w_component_dup_child), EQuery.
  split; [exact g_two_nodes_wf|]. split; [vm_compute; reflexivity|differs].
Qed.

(* add_switch WITHOUT the rollback of proposed_fixes/C09-5.patch (flag false): node, service, ports in three steps;
   a port's labels rejected after node and service exist *)
Definition w_switch_late : st * res N :=
  op_add_switch false Experiment (S "sw1") None 0 [] tVLAN None 2 (Some EAssert) (mkSt g_two_nodes supply).

Lemma add_switch_atomic_refuted :
  exists fl name nid dns dk ty pns np pp g fresh s' e,
    wf_graph g = true /\ op_add_switch false fl name nid dns dk ty pns np pp (mkSt g fresh) = (s', Err e) /\ sg s' <> g.
Proof.
  exists Experiment, (S "sw1"), None, 0, [], tVLAN, None, 2%nat, (Some EAssert),
         g_two_nodes, supply, (fst w_switch_late), EAssert.
  split; [exact g_two_nodes_wf|]. split; [vm_compute; reflexivity|differs].
Qed.

(* two top-level services 30 and 31; 31 already has an interface named "b-a" *)
Definition g_two_services : graph :=
  mkGraph [mkNode 30 cNS (S "a") tL2Bridge 1; mkNode 31 cNS (S "b") tL2Bridge 1; mkNode 32 cCP (S "b-a") tServicePort 2]
          [mkEdge 31 32 rConnects].


(* C09 - where the full statement "every failing call leaves the graph unchanged" is FALSE of the faithful
   model: concrete witnesses (each is replayed on the real code by harness/topo9_gen.refuted_witnesses). *)
From Coq Require Import List NArith Bool String.
From FIM Require Import Base.Str Gen.T9Names Model.T9Graph Model.T9Ops Model.T9Check.
Import ListNotations.
Open Scope N_scope.

(* a VM with a shared NIC: node 1, component 2, its OVS service 3, its port 4; a second VM 5 with NIC 6,
   service 7, ports 8 and 9 *)
Definition tVM : N := 100.
Definition tNIC : N := 101.
Definition tOVS : N := 102.
Definition tL2Bridge : N := 103.
Definition tVLAN : N := 104.
Definition g_two_nodes : graph :=
  mkGraph [mkNode 1 cNN (S "n1") tVM 1; mkNode 2 cComp (S "nic1") tNIC 2; mkNode 3 cNS (S "n1-nic1-l2ovs") tOVS 3;
           mkNode 4 cCP (S "nic1-p1") tSharedPort 4;
           mkNode 5 cNN (S "n2") tVM 1; mkNode 6 cComp (S "nic1") tNIC 2; mkNode 7 cNS (S "n2-nic1-l2ovs") tOVS 3;
           mkNode 8 cCP (S "nic1-p1") tDedicatedPort 5; mkNode 9 cCP (S "nic1-p2") tDedicatedPort 6]
          [mkEdge 1 2 rHas; mkEdge 2 3 rHas; mkEdge 3 4 rConnects;
           mkEdge 5 6 rHas; mkEdge 6 7 rHas; mkEdge 7 8 rConnects; mkEdge 7 9 rConnects].
Definition supply : list N := [50; 51; 52; 53; 54; 55; 56; 57].

Lemma g_two_nodes_wf : wf_graph g_two_nodes = true.
Proof. vm_compute. reflexivity. Qed.

Ltac differs := let Heq := fresh "Heq" in intro Heq; apply (f_equal (fun g => List.length (gnodes g))) in Heq; vm_compute in Heq; discriminate.

(* (iii) add_link with a handle of an interface that is no longer in the graph: the Link node (and the edges
   to the interfaces before the bad one) stay behind *)
Definition w_link_stale : st * res N :=
  op_add_link Experiment (S "l1") None (Some tPatch) (Some [mkIface 4 (S "nic1-p1"); mkIface 40 (S "gone")]) None
              (mkSt g_two_nodes supply).

Lemma add_link_atomic_refuted :
  exists fl name nid lt ifs pure g fresh s' e,
    wf_graph g = true /\ op_add_link fl name nid lt ifs pure (mkSt g fresh) = (s', Err e) /\ sg s' <> g.
Proof.
  exists Experiment, (S "l1"), None, (Some tPatch), (Some [mkIface 4 (S "nic1-p1"); mkIface 40 (S "gone")]), None,
         g_two_nodes, supply, (fst w_link_stale), EQuery.
  split; [exact g_two_nodes_wf|]. split; [vm_compute; reflexivity|differs].
Qed.

(* (ii) the service constructor rolls back on TopologyException only: a stale interface handle at position 1
   raises PropertyGraphQueryException and the service, the first peer port and its link stay behind *)
Definition w_service_stale : st * res N :=
  op_add_service Experiment (S "s1") None (Some tL2Bridge) [mkIface 4 (S "nic1-p1"); mkIface 40 (S "gone")] None
                 (mkSt g_two_nodes supply).

Lemma service_atomic_refuted_query :
  exists fl name nid ty ifs pure g fresh s',
    wf_graph g = true /\ op_add_service fl name nid ty ifs pure (mkSt g fresh) = (s', Err EQuery) /\ sg s' <> g.
Proof.
  exists Experiment, (S "s1"), None, (Some tL2Bridge), [mkIface 4 (S "nic1-p1"); mkIface 40 (S "gone")], None,
         g_two_nodes, supply, (fst w_service_stale).
  split; [exact g_two_nodes_wf|]. split; [vm_compute; reflexivity|differs].
Qed.

(* (ii') a derived peer-interface name longer than 255 characters raises ValueError after the service exists *)
Definition long_name (n : nat) : str := repeat 120 n.
Definition g_long : graph :=
  mkGraph [mkNode 1 cNN (long_name 200) tVM 1; mkNode 2 cComp (long_name 60) tNIC 2; mkNode 3 cNS (S "x-l2ovs") tOVS 3;
           mkNode 4 cCP (long_name 63) tSharedPort 4]
          [mkEdge 1 2 rHas; mkEdge 2 3 rHas; mkEdge 3 4 rConnects].

Definition w_service_long : st * res N :=
  op_add_service Experiment (S "s1") None (Some tL2Bridge) [mkIface 4 (long_name 63)] None (mkSt g_long supply).

Lemma service_atomic_refuted_value :
  exists fl name nid ty ifs pure g fresh s',
    wf_graph g = true /\ op_add_service fl name nid ty ifs pure (mkSt g fresh) = (s', Err EValue) /\ sg s' <> g.
Proof.
  exists Experiment, (S "s1"), None, (Some tL2Bridge), [mkIface 4 (long_name 63)], None, g_long, supply,
         (fst w_service_long).
  split; [vm_compute; reflexivity|]. split; [vm_compute; reflexivity|differs].
Qed.

(* composite sliver adders: a caller-supplied child id that already exists (substrate topologies) is
   detected after the component node has been added *)
Definition spec_smartnic (nsid i1 i2 : N) : comp_spec :=
  mkCompSpec tNIC (Some (mkChildNs (S "n1-nic2-l2ovs") tOVS (Some nsid)
     [mkChildIf (S "nic2-p1") tDedicatedPort (Some i1); mkChildIf (S "nic2-p2") tDedicatedPort (Some i2)])).

Definition w_component_dup_child : st * res N :=
  op_add_component Substrate 1 (S "nic2") (Some 20) true true true (Ok (spec_smartnic 21 22 22)) None
                   (mkSt g_two_nodes supply).

Lemma add_component_atomic_refuted :
  exists fl pn name nid a b c cat pure g fresh s' e,
    wf_graph g = true /\ op_add_component fl pn name nid a b c cat pure (mkSt g fresh) = (s', Err e) /\ sg s' <> g.
Proof.
  exists Substrate, 1, (S "nic2"), (Some 20), true, true, true, (Ok (spec_smartnic 21 22 22)), None,
         g_two_nodes, supply, (fst w_component_dup_child), EQuery.
  split; [exact g_two_nodes_wf|]. split; [vm_compute; reflexivity|differs].
Qed.

(* add_facility: node, service and ports are three separate steps without rollback; an invalid second port
   name leaves node + service + first port *)
Definition w_facility_late : st * res N :=
  op_add_facility Experiment (S "fac1") None 0 0 [] tVLAN None
                  (Some [mkFacPort (S "pa") None; mkFacPort [] None]) None (mkSt g_two_nodes supply).

Lemma add_facility_atomic_refuted :
  exists fl name nid dns dint dk ty pns ports ps g fresh s' e,
    wf_graph g = true /\ op_add_facility fl name nid dns dint dk ty pns ports ps (mkSt g fresh) = (s', Err e) /\ sg s' <> g.
Proof.
  exists Experiment, (S "fac1"), None, 0, 0, [], tVLAN, None, (Some [mkFacPort (S "pa") None; mkFacPort [] None]), None,
         g_two_nodes, supply, (fst w_facility_late), EValue.
  split; [exact g_two_nodes_wf|]. split; [vm_compute; reflexivity|differs].
Qed.

(* add_switch: the same three-step structure; a port's labels rejected after node and service exist *)
Definition w_switch_late : st * res N :=
  op_add_switch Experiment (S "sw1") None 0 [] tVLAN None 2 (Some EAssert) (mkSt g_two_nodes supply).

Lemma add_switch_atomic_refuted :
  exists fl name nid dns dk ty pns np pp g fresh s' e,
    wf_graph g = true /\ op_add_switch fl name nid dns dk ty pns np pp (mkSt g fresh) = (s', Err e) /\ sg s' <> g.
Proof.
  exists Experiment, (S "sw1"), None, 0, [], tVLAN, None, 2%nat, (Some EAssert),
         g_two_nodes, supply, (fst w_switch_late), EAssert.
  split; [exact g_two_nodes_wf|]. split; [vm_compute; reflexivity|differs].
Qed.

(* peer: two top-level services 30 and 31; 31 already has an interface named "b-a": the ServicePort "a-b"
   is added to 30 before the second step is refused *)
Definition g_two_services : graph :=
  mkGraph [mkNode 30 cNS (S "a") tL2Bridge 1; mkNode 31 cNS (S "b") tL2Bridge 1; mkNode 32 cCP (S "b-a") tServicePort 2]
          [mkEdge 31 32 rConnects].

Definition w_peer_late : st * res unit := op_peer Experiment 30 31 None (mkSt g_two_services supply).

Lemma peer_atomic_refuted :
  exists fl a b pure g fresh s',
    wf_graph g = true /\ op_peer fl a b pure (mkSt g fresh) = (s', Err ETopology) /\ sg s' <> g.
Proof.
  exists Experiment, 30, 31, None, g_two_services, supply, (fst w_peer_late).
  split; [vm_compute; reflexivity|]. split; [vm_compute; reflexivity|differs].
Qed.

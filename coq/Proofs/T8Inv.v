(* C08 proofs, part 13: lifting an invariant of the set of deleted ids through every program.
   Given a predicate I on traces (relative to a fixed initial graph g0) that is kept
     (HI_del) by deleting a node that is neither a connection point nor a link, and
     (HI_cp)  by one returning call of remove_cp_and_links on a connection point,
   I holds of the final trace of every operation that returns normally - except remove_link (which deletes a
   link on its own) and the legacy path-based unpeer (which does not check that the path ends are connection
   points). *)
From Coq Require Import List NArith Bool Lia Arith PeanoNat.
From FIM Require Import Model.T8Graph Model.T8Ops Proofs.T8Frame Proofs.T8Query Proofs.T8Hoare Proofs.T8Sound
     Proofs.T8Complete Proofs.T8Closed Proofs.T8Top.
Import ListNotations.

Section Lift.
Variable g0 : graph.
Variable I : list N -> Prop.
Hypothesis HI_del : forall D n, I D -> ~ In n D ->
  class_of g0 n = CNS \/ class_of g0 n = CComp \/ class_of g0 n = CNode -> I (n :: D).
Hypothesis HI_cp : forall s s' n dp, cons g0 s -> I (snd s) -> class_of g0 n = CCP ->
  remove_cp_and_links n dp s = (inl tt, s') -> I (snd s').

Definition JI (s : st) : Prop := cons g0 s /\ I (snd s).
Definition PresI {A} (m : M A) : Prop := forall s r s', JI s -> m s = (inl r, s') -> JI s'.

Lemma PresI_ret {A} (x : A) : PresI (ret x).
Proof. intros s r s' HJ E. apply ret_ok in E. destruct E as [_ ->]. exact HJ. Qed.
Lemma PresI_fail {A} e : PresI (@fail A e).
Proof. intros s r s' HJ E. discriminate. Qed.
Lemma PresI_get {A} (f : graph -> A) : PresI (m_get f).
Proof. intros s r s' HJ E. apply get_ok in E. destruct E as [_ ->]. exact HJ. Qed.
Lemma PresI_read {A} (f : graph -> A + exn) : PresI (m_read f).
Proof. intros s r s' HJ E. apply read_ok in E. destruct E as [_ ->]. exact HJ. Qed.
Lemma PresI_guard b e : PresI (guard b e).
Proof. intros s r s' HJ E. apply guard_ok in E. destruct E as [_ ->]. exact HJ. Qed.
Lemma PresI_uniq l e1 e2 : PresI (uniq l e1 e2).
Proof. intros s r s' HJ E. apply uniq_ok in E. destruct E as [_ ->]. exact HJ. Qed.
Lemma PresI_bind {A B} (m : M A) (f : A -> M B) :
  PresI m -> (forall x s s1, JI s -> m s = (inl x, s1) -> PresI (f x)) -> PresI (bind m f).
Proof.
  intros Hm Hf s r s' HJ E. apply bind_ok in E. destruct E as [x [s1 [E1 E2]]].
  exact (Hf x s s1 HJ E1 s1 r s' (Hm s x s1 HJ E1) E2).
Qed.
Lemma PresI_bind' {A B} (m : M A) (f : A -> M B) : PresI m -> (forall x, PresI (f x)) -> PresI (bind m f).
Proof. intros Hm Hf. apply PresI_bind; [exact Hm | intros x s s1 _ _; apply Hf]. Qed.
Lemma PresI_bind_get {A B} (q : graph -> A) (f : A -> M B) :
  (forall s, JI s -> PresI (f (q (fst s)))) -> PresI (bind (m_get q) f).
Proof.
  intros Hf. apply PresI_bind; [apply PresI_get|]. intros x s s1 HJ E.
  apply get_ok in E. destruct E as [-> ->]. apply Hf. exact HJ.
Qed.
Lemma PresI_for_each_set {A} (f : A -> M unit) l : (forall x, In x l -> PresI (f x)) -> PresI (for_each_set f l).
Proof.
  intros Hf s r s' HJ E. destruct r. apply for_each_set_ok in E.
  apply (for_each_ok_inv f JI l) with (s := s); [|exact HJ|exact E].
  intros x t1 t2 Hx HA Et. exact (Hf x Hx t1 tt t2 HA Et).
Qed.
Lemma PresI_guarded (q : graph -> bool) (m : M unit) :
  PresI m -> PresI (bind (m_get q) (fun b : bool => if b then m else ret tt)).
Proof. intros Hm. apply PresI_bind'; [apply PresI_get | intros b]. destruct b; [exact Hm | apply PresI_ret]. Qed.
Lemma PresI_need_class n c : PresI (need_class n c).
Proof. unfold need_class. apply PresI_bind'; [apply PresI_read | intros x; apply PresI_guard]. Qed.

Lemma PresI_remove_cp i dp : class_of g0 i = CCP -> PresI (remove_cp_and_links i dp).
Proof.
  intros Hi s r s' [C HI] E. destruct r. split; [apply (cons_to g0 _ _ _ _ (Inv_remove_cp i dp) C E)|].
  apply (HI_cp s s' i dp C HI Hi E).
Qed.

(* need_class n c ;;; k, where k deletes n first *)
Lemma delete_after_class n c s u s' :
  JI s -> has_node (fst s) n = true -> class_of (fst s) n = c -> (c = CNS \/ c = CComp \/ c = CNode) ->
  m_delete n s = (inl u, s') -> JI s'.
Proof.
  intros [C HI] Hh Hc Hcc E. pose proof (cons_to g0 _ _ _ _ (Inv_delete n) C E) as C'.
  apply delete_ok in E. destruct E as [_ ->]. split; [exact C'|]. simpl.
  destruct (cons_has g0 s n C Hh) as [Hd _]. rewrite (cons_class g0 s n C Hd) in Hc.
  apply HI_del; [exact HI | exact Hd | subst c; exact Hcc].
Qed.

Lemma cur_cpn_class s n i : cons g0 s -> In i (first_neighbor (fst s) n RConnects CCP) -> class_of g0 i = CCP.
Proof.
  intros C Hi. apply (cur_fn g0 s n RConnects CCP i C) in Hi; [|discriminate]. destruct Hi as [Hi _].
  apply (cpn_class g0 n). exact Hi.
Qed.

Lemma PresI_remove_ns n : PresI (remove_ns n).
Proof.
  intros s r s' HJ E. destruct r. unfold remove_ns in E.
  apply bind_ok in E. destruct E as [[] [s1 [E1 E]]]. apply need_class_ok in E1. destruct E1 as [Hh [Hc ->]].
  apply bind_ok in E. destruct E as [ifs [s1 [E1 E]]]. apply get_ok in E1. destruct E1 as [-> ->].
  apply bind_ok in E. destruct E as [[] [s2 [E1 E]]].
  pose proof (delete_after_class n CNS s tt s2 HJ Hh Hc (or_introl eq_refl) E1) as HJ2.
  pose proof HJ as [C _].
  refine (PresI_for_each_set (fun i => remove_cp_and_links i true) _ _ s2 tt s' HJ2 E).
  intros i Hi. apply PresI_remove_cp. apply (cur_cpn_class s n i C Hi).
Qed.

Lemma PresI_remove_component n : PresI (remove_component n).
Proof.
  intros s r s' HJ E. destruct r. unfold remove_component in E.
  apply bind_ok in E. destruct E as [[] [s1 [E1 E]]]. apply need_class_ok in E1. destruct E1 as [Hh [Hc ->]].
  apply bind_ok in E. destruct E as [nss [s1 [E1 E]]]. apply get_ok in E1. destruct E1 as [-> ->].
  apply bind_ok in E. destruct E as [[] [s2 [E1 E]]].
  pose proof (delete_after_class n CComp s tt s2 HJ Hh Hc (or_intror (or_introl eq_refl)) E1) as HJ2.
  refine (PresI_for_each_set remove_ns _ _ s2 tt s' HJ2 E). intros i _. apply PresI_remove_ns.
Qed.

Lemma PresI_remove_node_graph n : PresI (remove_node_graph n).
Proof.
  intros s r s' HJ E. destruct r. unfold remove_node_graph in E.
  apply bind_ok in E. destruct E as [[] [s1 [E1 E]]]. apply need_class_ok in E1. destruct E1 as [Hh [Hc ->]].
  apply bind_ok in E. destruct E as [comps [s1 [E1 E]]]. apply get_ok in E1. destruct E1 as [-> ->].
  apply bind_ok in E. destruct E as [[] [s1 [E1 E]]].
  pose proof (PresI_for_each_set remove_component _ (fun i _ => PresI_remove_component i) s tt s1 HJ E1) as HJ1.
  apply bind_ok in E. destruct E as [nss [s1' [E2 E]]]. apply get_ok in E2. destruct E2 as [-> ->].
  apply bind_ok in E. destruct E as [[] [s2 [E2 E]]].
  pose proof E2 as E2'. apply delete_ok in E2'. destruct E2' as [Hh1 _].
  pose proof HJ as [C _]. pose proof HJ1 as [C1 _].
  destruct (cons_has g0 s n C Hh) as [Hd _]. destruct (cons_has g0 s1 n C1 Hh1) as [Hd1 _].
  assert (Hc1 : class_of (fst s1) n = CNode).
  { rewrite (cons_class g0 s1 n C1 Hd1). rewrite <- (cons_class g0 s n C Hd). exact Hc. }
  pose proof (delete_after_class n CNode s1 tt s2 HJ1 Hh1 Hc1 (or_intror (or_intror eq_refl)) E2) as HJ2.
  refine (PresI_for_each_set remove_ns _ _ s2 tt s' HJ2 E). intros i _. apply PresI_remove_ns.
Qed.

Lemma PresI_disconnect_interface i : PresI (disconnect_interface i).
Proof.
  unfold disconnect_interface. apply PresI_bind'; [apply PresI_read | intros _].
  apply PresI_bind_get. intros s [C HI].
  destruct (get_peers_typed (fst s) i T_ServicePort) as [[|x [|y r]]|] eqn:E;
    try apply PresI_ret; try apply PresI_fail.
  assert (Hx : class_of g0 x = CCP).
  { destruct (get_peers_typed_In _ _ _ _ x E (or_introl eq_refl)) as [Hp _]. apply (peer_cps_class g0 s i x C Hp). }
  apply PresI_bind'; [apply PresI_remove_cp; exact Hx | intros _; apply PresI_ret].
Qed.

Lemma PresI_disconnect_peers_of i : PresI (disconnect_peers_of i).
Proof.
  unfold disconnect_peers_of. apply PresI_bind'; [apply PresI_read | intros _].
  apply PresI_bind'; [apply PresI_get | intros p].
  destruct p as [[|x [|y r]]|]; try apply PresI_ret; try apply PresI_fail.
  apply PresI_bind'; [apply PresI_get | intros par].
  destruct par as [|s [|s' r']]; try apply PresI_fail.
  apply PresI_bind'; [apply PresI_disconnect_interface | intros _; apply PresI_ret].
Qed.

Lemma PresI_disconnect_step i : PresI (disconnect_step i).
Proof. unfold disconnect_step. apply PresI_guarded. apply PresI_disconnect_peers_of. Qed.

Lemma PresI_node_tail nm n :
  PresI (bind (m_get (fun g => disc_list g (node_interface_list g n))) (fun ifs =>
         bind (for_each_set disconnect_step ifs) (fun _ =>
         bind (m_get (fun g => by_name g CNode nm)) (fun all =>
         bind (uniq all EQuery EQuery) (fun n' => remove_node_graph n'))))).
Proof.
  apply PresI_bind'; [apply PresI_get | intros ifs].
  apply PresI_bind'; [apply PresI_for_each_set; intros i _; apply PresI_disconnect_step | intros _].
  apply PresI_bind'; [apply PresI_get | intros all].
  apply PresI_bind'; [apply PresI_uniq | intros n']. apply PresI_remove_node_graph.
Qed.

Lemma PresI_api_remove_node nm : PresI (api_remove_node nm).
Proof.
  unfold api_remove_node. apply PresI_bind'; [apply PresI_get | intros cands].
  apply PresI_bind'; [apply PresI_uniq | intros n]. apply PresI_node_tail.
Qed.

Lemma PresI_api_remove_facility nm : PresI (api_remove_facility nm).
Proof.
  unfold api_remove_facility. apply PresI_bind'; [apply PresI_get | intros all].
  apply PresI_bind'; [apply PresI_uniq | intros n].
  apply PresI_bind'; [apply PresI_get | intros t].
  apply PresI_bind'; [apply PresI_guard | intros _]. apply PresI_node_tail.
Qed.

Lemma PresI_api_remove_switch nm : PresI (api_remove_switch nm).
Proof.
  unfold api_remove_switch. apply PresI_bind'; [apply PresI_get | intros all].
  apply PresI_bind'; [apply PresI_uniq | intros n].
  apply PresI_bind'; [apply PresI_get | intros t].
  apply PresI_bind'; [apply PresI_guard | intros _]. apply PresI_api_remove_node.
Qed.

Lemma PresI_remove_ns_disconnecting s : PresI (remove_ns_disconnecting s).
Proof.
  unfold remove_ns_disconnecting. apply PresI_bind'; [apply PresI_get | intros ifs].
  apply PresI_bind'; [apply PresI_for_each_set; intros i _; apply PresI_disconnect_step | intros _].
  apply PresI_remove_ns.
Qed.

Lemma PresI_api_remove_ns_topo nm : PresI (api_remove_ns_topo nm).
Proof.
  unfold api_remove_ns_topo. apply PresI_bind'; [apply PresI_get | intros all].
  apply PresI_bind'; [apply PresI_uniq | intros n]. apply PresI_remove_ns_disconnecting.
Qed.

Lemma PresI_api_remove_component n c : PresI (api_remove_component n c).
Proof.
  unfold api_remove_component. apply PresI_bind'; [apply PresI_need_class | intros _].
  apply PresI_bind'; [apply PresI_get | intros cs].
  apply PresI_bind'; [apply PresI_uniq | intros c'].
  apply PresI_bind'; [apply PresI_get | intros ifs].
  apply PresI_bind'; [apply PresI_for_each_set; intros i _; apply PresI_disconnect_step | intros _].
  apply PresI_remove_component.
Qed.

Lemma PresI_api_node_remove_ns n sname : PresI (api_node_remove_ns n sname).
Proof.
  unfold api_node_remove_ns. apply PresI_bind'; [apply PresI_read | intros x].
  apply PresI_bind'; [apply PresI_guard | intros _].
  apply PresI_bind'; [apply PresI_get | intros ss].
  apply PresI_bind'; [apply PresI_uniq | intros s]. apply PresI_remove_ns_disconnecting.
Qed.

Lemma PresI_api_disconnect i c : PresI (api_disconnect i c).
Proof.
  unfold api_disconnect. apply PresI_bind'; [apply PresI_disconnect_interface | intros r].
  destruct r; apply PresI_ret.
Qed.

Lemma PresI_get_uniq {B} (q : graph -> list N) e1 e2 (f : N -> M B) :
  (forall s n, JI s -> q (fst s) = [n] -> PresI (f n)) ->
  PresI (bind (m_get q) (fun x => bind (uniq x e1 e2) f)).
Proof.
  intros H. apply PresI_bind_get. intros s HJ.
  destruct (q (fst s)) as [|a [|b r]] eqn:E; simpl.
  - intros t r t' _ Et. unfold bind, fail in Et. discriminate.
  - intros t r t' HJt Et. unfold bind, ret in Et. simpl in Et. exact (H s a HJ E t r t' HJt Et).
  - intros t r' t' _ Et. unfold bind, fail in Et. discriminate.
Qed.

Lemma PresI_api_remove_interface ex s0 iname c : PresI (api_remove_interface ex s0 iname c).
Proof.
  unfold api_remove_interface. apply PresI_bind'; [apply PresI_guard | intros _].
  apply PresI_bind'; [apply PresI_read | intros x].
  apply PresI_bind'; [apply PresI_guard | intros _].
  apply PresI_get_uniq. intros s i [C _] E.
  assert (Hi : class_of g0 i = CCP).
  { apply (child_by_name_class g0 s s0 iname i C). rewrite E. left. reflexivity. }
  apply PresI_bind'; [apply PresI_remove_cp; exact Hi | intros _; apply PresI_ret].
Qed.

Lemma PresI_api_remove_child p iname c : PresI (api_remove_child p iname c).
Proof.
  unfold api_remove_child. apply PresI_bind'; [apply PresI_read | intros x].
  apply PresI_bind'; [apply PresI_guard | intros _].
  apply PresI_bind'; [apply PresI_guard | intros _].
  apply PresI_get_uniq. intros s i [C _] E.
  assert (Hi : class_of g0 i = CCP).
  { apply (child_by_name_class g0 s p iname i C). rewrite E. left. reflexivity. }
  apply PresI_bind'; [apply PresI_disconnect_peers_of | intros _].
  apply PresI_bind'; [apply PresI_remove_cp; exact Hi | intros _; apply PresI_ret].
Qed.

Lemma PresI_remove_if_there c : PresI (remove_if_there c).
Proof.
  unfold remove_if_there. apply PresI_bind_get. intros s [C HI].
  destruct (has_node (fst s) c && cls_eqb (class_of (fst s) c) CCP) eqn:Eb; [|apply PresI_ret].
  apply andb_true_iff in Eb. destruct Eb as [Hh Hc]. destruct (cons_has g0 s c C Hh) as [Hd _].
  apply PresI_remove_cp. rewrite <- (cons_class g0 s c C Hd).
  destruct (class_of (fst s) c); simpl in Hc; try discriminate; reflexivity.
Qed.

Lemma PresI_api_unpeer6 a b ca cb : PresI (api_unpeer6 a b ca cb).
Proof.
  unfold api_unpeer6. apply PresI_bind'; [apply PresI_read | intros x].
  apply PresI_bind'; [apply PresI_guard | intros _].
  apply PresI_bind'; [apply PresI_get | intros ps].
  destruct ps as [|p ps']; [apply PresI_fail|].
  apply PresI_bind'; [apply PresI_for_each_set; intros c _; apply PresI_remove_if_there | intros _; apply PresI_ret].
Qed.

Lemma PresI_prune_if_list (is_ : list N) :
  (forall s i, JI s -> In i is_ -> has_node (fst s) i = true -> class_of g0 i = CCP) ->
  PresI (for_each_set (fun i => remove_cp_and_links i true) is_).
Proof.
  intros H s r s' HJ E. destruct r. apply for_each_set_ok in E.
  apply (for_each_ok_inv (fun i => remove_cp_and_links i true) JI is_) with (s := s); [|exact HJ|exact E].
  intros i t1 t2 Hi HA Et. pose proof HA as [C _].
  assert (Hh : has_node (fst t1) i = true).
  { unfold remove_cp_and_links in Et. apply bind_ok in Et. destruct Et as [[] [t0 [E0 Et]]].
    apply read_ok in E0. destruct E0 as [_ ->].
    apply bind_ok in Et. destruct Et as [x0 [t0 [E0 _]]]. apply need_node_ok in E0. destruct E0 as [F _].
    apply (find_has _ _ _ F). }
  exact (PresI_remove_cp i true (H t1 i HA Hi Hh) t1 tt t2 HA Et).
Qed.

Lemma PresI_api_prune : PresI api_prune.
Proof.
  unfold api_prune.
  apply PresI_bind'; [apply PresI_get | intros ns_].
  apply PresI_bind'; [apply PresI_get | intros cs].
  apply PresI_bind'; [apply PresI_get | intros ss].
  apply PresI_bind_get. intros s0 [C0 _].
  apply PresI_bind'; [apply PresI_for_each_set; intros nm _; apply PresI_api_remove_node | intros _].
  apply PresI_bind'; [apply PresI_for_each_set; intros cn _; apply PresI_api_remove_component | intros _].
  apply PresI_bind'; [apply PresI_for_each_set; intros s _; apply PresI_remove_ns | intros _].
  apply PresI_for_each_set. intros i Hi. apply PresI_remove_cp.
  rewrite dedup_In in Hi. apply filter_In in Hi. destruct Hi as [Hi _].
  apply in_flat_map in Hi. destruct Hi as [s [_ Hi]]. unfold ns_interfaces in Hi.
  apply (cur_cpn_class s0 s i C0 Hi).
Qed.

Lemma PresI_prune_if7 i : PresI (prune_if7 i).
Proof.
  unfold prune_if7, exists_as. apply PresI_bind_get. intros s [C HI].
  destruct (has_node (fst s) i && cls_eqb (class_of (fst s) i) CCP) eqn:Eb; [|apply PresI_ret].
  apply andb_true_iff in Eb. destruct Eb as [Hh Hc]. destruct (cons_has g0 s i C Hh) as [Hd _].
  assert (Hi : class_of g0 i = CCP).
  { rewrite <- (cons_class g0 s i C Hd). destruct (class_of (fst s) i); simpl in Hc; try discriminate; reflexivity. }
  apply PresI_bind'; [apply PresI_get | intros ifs].
  apply PresI_bind'; [apply PresI_for_each_set; intros j _; apply PresI_disconnect_step | intros _].
  apply PresI_remove_cp. exact Hi.
Qed.

Lemma PresI_prune_if8 i : PresI (prune_if8 i).
Proof.
  unfold prune_if8, exists_as. apply PresI_bind_get. intros s [C HI].
  destruct (has_node (fst s) i && cls_eqb (class_of (fst s) i) CCP) eqn:Eb; [|apply PresI_ret].
  apply andb_true_iff in Eb. destruct Eb as [Hh Hc]. destruct (cons_has g0 s i C Hh) as [Hd _].
  assert (Hi : class_of g0 i = CCP).
  { rewrite <- (cons_class g0 s i C Hd). destruct (class_of (fst s) i); simpl in Hc; try discriminate; reflexivity. }
  apply PresI_bind'; [apply PresI_get | intros ifs].
  apply PresI_bind'; [apply PresI_for_each_set; intros j _; apply PresI_disconnect_step | intros _].
  apply PresI_bind'; [apply PresI_get | intros dp]. apply PresI_remove_cp. exact Hi.
Qed.

Lemma PresI_api_prune8 : PresI api_prune8.
Proof.
  unfold api_prune8.
  apply PresI_bind'; [apply PresI_get | intros ns_].
  apply PresI_bind'; [apply PresI_get | intros cs].
  apply PresI_bind'; [apply PresI_get | intros ss].
  apply PresI_bind'; [apply PresI_get | intros is_].
  apply PresI_bind'; [apply PresI_for_each_set; intros nn _; unfold prune_node7, exists_as; apply PresI_guarded; apply PresI_api_remove_node | intros _].
  apply PresI_bind'; [apply PresI_for_each_set; intros cn _; unfold prune_comp7, exists_as; apply PresI_guarded; apply PresI_api_remove_component | intros _].
  apply PresI_bind'; [apply PresI_for_each_set; intros s _; unfold prune_ns7, exists_as; apply PresI_guarded; apply PresI_remove_ns_disconnecting | intros _].
  apply PresI_for_each_set. intros i _. apply PresI_prune_if8.
Qed.

Lemma PresI_prune_node9 nn : PresI (prune_node9 nn).
Proof.
  unfold prune_node9, exists_as. apply PresI_guarded.
  apply PresI_bind'; [apply PresI_get | intros t].
  destruct (N.eqb t T_Facility); [apply PresI_api_remove_facility | apply PresI_api_remove_node].
Qed.

Lemma PresI_api_prune9 : PresI api_prune9.
Proof.
  unfold api_prune9.
  apply PresI_bind'; [apply PresI_get | intros ns_].
  apply PresI_bind'; [apply PresI_get | intros cs].
  apply PresI_bind'; [apply PresI_get | intros ss].
  apply PresI_bind'; [apply PresI_get | intros is_].
  apply PresI_bind'; [apply PresI_for_each_set; intros nn _; apply PresI_prune_node9 | intros _].
  apply PresI_bind'; [apply PresI_for_each_set; intros cn _; unfold prune_comp7, exists_as; apply PresI_guarded; apply PresI_api_remove_component | intros _].
  apply PresI_bind'; [apply PresI_for_each_set; intros s _; unfold prune_ns7, exists_as; apply PresI_guarded; apply PresI_remove_ns_disconnecting | intros _].
  apply PresI_for_each_set. intros i _. apply PresI_prune_if8.
Qed.

Lemma PresI_api_prune7 : PresI api_prune7.
Proof.
  unfold api_prune7.
  apply PresI_bind'; [apply PresI_get | intros ns_].
  apply PresI_bind'; [apply PresI_get | intros cs].
  apply PresI_bind'; [apply PresI_get | intros ss].
  apply PresI_bind'; [apply PresI_get | intros is_].
  apply PresI_bind'; [apply PresI_for_each_set; intros nn _; unfold prune_node7, exists_as; apply PresI_guarded; apply PresI_api_remove_node | intros _].
  apply PresI_bind'; [apply PresI_for_each_set; intros cn _; unfold prune_comp7, exists_as; apply PresI_guarded; apply PresI_api_remove_component | intros _].
  apply PresI_bind'; [apply PresI_for_each_set; intros s _; unfold prune_ns7, exists_as; apply PresI_guarded; apply PresI_remove_ns_disconnecting | intros _].
  apply PresI_for_each_set. intros i _. apply PresI_prune_if7.
Qed.

End Lift.

(* every operation except remove_link (deletes a link on its own) and the legacy path-based unpeer *)
Definition liftable (o : op) : bool :=
  match o with ORemoveLink _ | OUnpeer _ _ => false | _ => true end.

Theorem lift_exec (g : graph) (I : list N -> Prop) :
  (forall D n, I D -> ~ In n D -> class_of g n = CNS \/ class_of g n = CComp \/ class_of g n = CNode -> I (n :: D)) ->
  (forall s s' n dp, cons g s -> I (snd s) -> class_of g n = CCP ->
                     remove_cp_and_links n dp s = (inl tt, s') -> I (snd s')) ->
  I [] ->
  forall ex o cs r g' tr, liftable o = true -> run (exec ex o cs) g = (inl r, (g', tr)) -> I tr.
Proof.
  intros Hd Hc H0 ex o cs r g' tr Hl E. unfold run in E.
  assert (J0 : JI g I (g, [])) by (split; [apply cons_init | exact H0]).
  assert (T : forall (m : M unit), PresI g I m -> PresI g I (bind m (fun _ => ret cs))).
  { intros m Hm. apply PresI_bind'; [exact Hm | intros _; apply PresI_ret]. }
  destruct o; simpl in Hl; try discriminate; simpl in E.
  - exact (proj2 (T _ (PresI_api_remove_node g I Hd Hc name) _ _ _ J0 E)).
  - exact (proj2 (T _ (PresI_api_remove_facility g I Hd Hc name) _ _ _ J0 E)).
  - exact (proj2 (T _ (PresI_api_remove_switch g I Hd Hc name) _ _ _ J0 E)).
  - exact (proj2 (T _ (PresI_api_remove_ns_topo g I Hd Hc name) _ _ _ J0 E)).
  - exact (proj2 (T _ (PresI_api_remove_component g I Hd Hc n cname) _ _ _ J0 E)).
  - exact (proj2 (T _ (PresI_api_node_remove_ns g I Hd Hc n sname) _ _ _ J0 E)).
  - refine (proj2 (_ : JI g I (g', tr))).
    refine (PresI_bind' g I _ _ (PresI_api_disconnect g I Hc i _) (fun c => PresI_ret g I _) _ _ _ J0 E).
  - refine (proj2 (_ : JI g I (g', tr))).
    refine (PresI_bind' g I _ _ (PresI_api_unpeer6 g I Hc a b _ _) (fun c => PresI_ret g I _) _ _ _ J0 E).
  - refine (proj2 (_ : JI g I (g', tr))).
    refine (PresI_bind' g I _ _ (PresI_api_remove_interface g I Hc ex s iname _) (fun c => PresI_ret g I _) _ _ _ J0 E).
  - refine (proj2 (_ : JI g I (g', tr))).
    refine (PresI_bind' g I _ _ (PresI_api_remove_child g I Hc p iname _) (fun c => PresI_ret g I _) _ _ _ J0 E).
  - exact (proj2 (T _ (PresI_api_prune g I Hd Hc) _ _ _ J0 E)).
  - exact (proj2 (T _ (PresI_api_prune7 g I Hd Hc) _ _ _ J0 E)).
  - exact (proj2 (T _ (PresI_api_prune8 g I Hd Hc) _ _ _ J0 E)).
  - exact (proj2 (T _ (PresI_api_prune9 g I Hd Hc) _ _ _ J0 E)).
Qed.

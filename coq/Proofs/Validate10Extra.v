(* C10: further consequences -- order independence, idempotence of a successful validation, and the class
   of the exception on well-formed input. *)
From Coq Require Import List ZArith String Bool NArith Lia ZifyBool Permutation.
From FIM Require Import Base.C10Types Gen.Constraints Model.Validate10 Model.C10Pinned Model.C10Spec
  Proofs.Validate10Lemmas Proofs.Validate10Service Proofs.Validate10Tables Proofs.Validate10Main.
Import ListNotations.
Open Scope Z_scope.

Section Generic.
Variable T : tables.
Hypothesis Hok : table_ok T = true.

(* ---- order ---- *)
Lemma allowed_perm : forall cf es n n' s s', Permutation n n' -> Permutation s s' ->
  allowed T cf es (mk_slice n s) -> allowed T cf es (mk_slice n' s').
Proof.
  intros cf es n n' s s' Hn Hs [H1 H2]. simpl in *. split; simpl.
  - intros x Hx. apply H1. apply (Permutation_in x (Permutation_sym Hn) Hx).
  - intros x Hx. apply H2. apply (Permutation_in x (Permutation_sym Hs) Hx).
Qed.

Theorem validate_order_independent : forall cf es n n' s s', Permutation n n' -> Permutation s s' ->
  (snd (validate T cf es (mk_slice n s)) = Ok <-> snd (validate T cf es (mk_slice n' s')) = Ok).
Proof.
  intros cf es n n' s s' Hn Hs. rewrite !(validate_iff T Hok). split; apply allowed_perm; auto using Permutation_sym.
Qed.

(* ---- idempotence ---- *)
Lemma svc_ok_recorded : forall es s a, svc_ok T es s a -> svc_ok T es (with_site s a) a.
Proof.
  intros es s a [r [eps [H1 [H2 [H3 [H4 [H5 [H6 [H7 H8]]]]]]]]]. exists r, eps. simpl.
  split; [exact H1|]. split; [exact H2|]. split; [exact H3|]. split; [exact H4|].
  split; [|split; [exact H6|split; [exact H7|exact H8]]].
  unfold site_rule in *. simpl.
  destruct H5 as [[Hns Ha]|[Hns [Hown [sites [Hnd [Hmem [Hlen Hd]]]]]]]; [left; auto|].
  right. split; [exact Hns|]. split; [exact Hown|]. exists sites. split; [exact Hnd|]. split; [exact Hmem|].
  split; [exact Hlen|].
  destruct Hd as [[Hnil Ha]|[[a0 [Hone Hd]]|[Htwo [Hdecl Ha]]]].
  - left. auto.
  - right. left. exists a0. split; [exact Hone|].
    destruct Hd as [[Hdecl Ha]|[d [Hdecl [Ha Hag]]]].
    + subst a0. destruct a as [x|]; [right; exists x; auto | left; auto].
    + right. exists d. subst a. auto.
  - right. right. subst a. auto.
Qed.

Lemma Forall2_recorded : forall es l sts, Forall2 (svc_ok T es) l sts -> Forall2 (svc_ok T es) (record_sites l sts) sts.
Proof.
  intros es l sts H. induction H as [|s a r t Hs Hr IH]; simpl; constructor; [apply svc_ok_recorded, Hs | exact IH].
Qed.

Theorem validate_idempotent : forall cf es sl sts,
  validate T cf es sl = (sts, Ok) -> validate T cf es (recorded sl sts) = (sts, Ok).
Proof.
  intros cf es sl sts H. apply (validate_spec T Hok) in H. destruct H as [Hn Hs].
  apply (validate_spec T Hok). simpl. split; [exact Hn | apply Forall2_recorded, Hs].
Qed.

(* ---- the class of the exception ---- *)
Lemma check_all_class : forall A (f : A -> result) l,
  (forall x, In x l -> f x = Ok \/ f x = Err ETopology) -> check_all f l = Ok \/ check_all f l = Err ETopology.
Proof.
  intros A f l. induction l as [|x r IH]; intros H; simpl; [left; reflexivity|].
  destruct (H x (or_introl eq_refl)) as [E|E]; rewrite E; [|right; reflexivity].
  apply IH. intros y Hy. apply H. right. exact Hy.
Qed.

Lemma check_props_class : forall r s eps a k, assoc k (t_services T) = Some r ->
  check_props r s eps a = Ok \/ check_props r s eps a = Err ETopology.
Proof.
  intros r s eps a k Ha. destruct (table_ok_service T k r Hok Ha) as [_ [Hgr Hgf]]. unfold check_props.
  destruct (check_all_class _ (check_required s a) (sc_required r)) as [E|E].
  { intros p Hp. unfold check_required. rewrite (Hgr p Hp). destruct (svc_has s a p); auto. }
  2: { rewrite E. right. reflexivity. }
  rewrite E.
  destruct (check_all_class _ (check_forbidden s a) (sc_forbidden r)) as [F|F].
  { intros p Hp. unfold check_forbidden. rewrite (Hgf p Hp). destruct (svc_has s a p); auto. }
  2: { rewrite F. right. reflexivity. }
  rewrite F. destruct (sc_itypes r); [left; reflexivity|]. destruct (forallb _ eps); auto.
Qed.

Lemma owned_owner_sites : forall eps, forallb endpoint_owned eps = true -> exists l, owner_sites eps = Some l.
Proof.
  intros eps H. apply owner_sites_total. intros e He. rewrite forallb_forall in H. specialize (H e He).
  unfold endpoint_owned in H. destruct (ep_owner e); [discriminate|discriminate].
Qed.

Lemma validate_service_class : forall es s, svc_wf T s = true ->
  snd (validate_service T es s) = Ok \/ snd (validate_service T es s) = Err ETopology.
Proof.
  intros es s Hwf. unfold svc_wf in Hwf. unfold validate_service.
  destruct (assoc (s_type s) (t_services T)) as [r|] eqn:Ha; [|discriminate].
  pose proof (fun a eps => check_props_class r s eps a (s_type s) Ha) as CP.
  destruct (node_ifaces (s_ifaces s)) as [eps|]; [|right; reflexivity].
  destruct (negb (sc_min_interfaces r =? NL T) && _); [right; reflexivity|].
  destruct (negb (sc_num_interfaces r =? NL T) && _); [right; reflexivity|].
  unfold NL in *.
  destruct (sc_num_sites r =? t_no_limit T) eqn:Ens.
  - simpl. apply CP.
  - simpl in Hwf. destruct (owned_owner_sites eps Hwf) as [l El]. rewrite El. simpl.
    destruct (Z.of_nat (List.length (nodup osite_eq_dec l)) >? sc_num_sites r); [right; reflexivity|].
    destruct (nodup osite_eq_dec l) as [|a [|b t]].
    + simpl. apply CP.
    + destruct (s_site s) as [d|]; [|simpl; apply CP].
      destruct (es && _); [right; reflexivity | simpl; apply CP].
    + destruct (s_site s); [right; reflexivity | simpl; apply CP].
Qed.

Lemma validate_services_class : forall es l, forallb (svc_wf T) l = true ->
  snd (validate_services T es l) = Ok \/ snd (validate_services T es l) = Err ETopology.
Proof.
  intros es l. induction l as [|s r IH]; intros H; simpl; [left; reflexivity|].
  simpl in H. apply andb_true_iff in H. destruct H as [Hs Hr].
  pose proof (validate_service_class es s Hs) as C.
  destruct (validate_service T es s) as [st res]. simpl in C.
  destruct C as [C|C]; subst res; [|right; reflexivity].
  specialize (IH Hr). destruct (validate_services T es r) as [sts res']. exact IH.
Qed.

Lemma validate_node_class : forall n, is_some (assoc (n_type n) (t_nodes T)) = true ->
  validate_node T n = Ok \/ validate_node T n = Err ETopology.
Proof.
  intros n H. unfold validate_node. destruct (assoc (n_type n) (t_nodes T)); [|discriminate].
  destruct (forallb _ _); [|right; reflexivity]. destruct (existsb _ _); auto.
Qed.

(* on well-formed input a rejection is always the documented TopologyException *)
Theorem validate_class : forall cf es sl, slice_wf T sl = true ->
  snd (validate T cf es sl) = Ok \/ snd (validate T cf es sl) = Err ETopology.
Proof.
  intros cf es sl H. unfold slice_wf in H. apply andb_true_iff in H. destruct H as [Hn Hs]. unfold validate.
  destruct (check_all_class _ (validate_node T) (filter (visible cf) (sl_nodes sl))) as [E|E].
  { intros n Hin. apply filter_In in Hin. destruct Hin as [Hin _]. apply validate_node_class.
    rewrite forallb_forall in Hn. apply Hn, Hin. }
  2: { rewrite E. right. reflexivity. }
  rewrite E. pose proof (validate_services_class es (sl_services sl) Hs) as C.
  destruct (validate_services T es (sl_services sl)) as [sts res]. simpl in C.
  rewrite (instance_limited_never T Hok). destruct C as [C|C]; subst res; auto.
Qed.

End Generic.

Theorem validate_cur_order_independent : forall n n' s s', Permutation n n' -> Permutation s s' ->
  (snd (validate_cur (mk_slice n s)) = Ok <-> snd (validate_cur (mk_slice n' s')) = Ok).
Proof. intros. unfold validate_cur. rewrite table_pinned. apply validate_order_independent; [exact pinned_table_ok| |]; assumption. Qed.

Theorem validate_cur_idempotent : forall sl sts, validate_cur sl = (sts, Ok) -> validate_cur (recorded sl sts) = (sts, Ok).
Proof. intros sl sts. unfold validate_cur. rewrite table_pinned. apply validate_idempotent. exact pinned_table_ok. Qed.

Theorem validate_cur_class : forall sl, slice_wf pinned_tables sl = true ->
  snd (validate_cur sl) = Ok \/ snd (validate_cur sl) = Err ETopology.
Proof. intros sl. unfold validate_cur. rewrite table_pinned. apply validate_class. exact pinned_table_ok. Qed.

Theorem example_valid_wf : slice_wf pinned_tables example_valid = true.
Proof. vm_compute. reflexivity. Qed.

(* C07 - disconnect_interface and remove_child_interface keep WF (through the unit remove_cp_and_links and the relaxed
   invariant: the service port's peer is the disconnected interface itself, which is not a service port). *)
From Coq Require Import String List NArith ZArith Bool Arith Lia.
From FIM Require Import Base.Str Gen.Rules Model.T7Graph Model.T7Ops Model.T7WF Model.T7Steps Model.T7Rel
     Proofs.T7Tables Proofs.T7WFRefl Proofs.T7Frame Proofs.T7Units Proofs.T7Api Proofs.T7Api2 Proofs.T7Api3
     Proofs.T7RelUnits Proofs.T7RelRun Proofs.T7RelCp.
Import ListNotations.

(* ---- Interface.get_peers, value ---------------------------------------------------------------------------- *)
Definition peer_filter (g : graph) (itype : option str) (p : str) : bool :=
  match itype with None => true | Some t => typ_is g p t end.

Lemma get_peers_filter_val itype : forall l s s' l',
  filterM (fun p => n <- props p ;;
                    guard (match nname n with Some _ => true | None => false end) EAssert ;;;
                    guard (cls_eqb (ncls n) KCP) EAssert ;;;
                    ret (match itype with
                         | None => true
                         | Some t => match ntyp n with Some u => str_eqb u t | None => false end
                         end)) l s = (s', Ok l') ->
  s' = s /\ l' = filter (peer_filter (sg s) itype) l.
Proof.
  induction l as [|p l IH]; simpl; intros s s' l' H.
  - apply ret_inv in H as [-> H]. inversion H. auto.
  - apply bind_inv in H as [[s1 [b [H1 H2]]]|[e [_ H]]]; [|discriminate].
    apply bind_inv in H1 as [[s2 [n [Hn H1]]]|[e [_ H]]]; [|discriminate].
    unfold props in Hn. apply find1_val in Hn as [-> F].
    apply bind_inv in H1 as [[s3 [[] [G1 H1]]]|[e [_ H]]]; [|discriminate]. apply guard_ok_val in G1 as [-> _].
    apply bind_inv in H1 as [[s4 [[] [G2 H1]]]|[e [_ H]]]; [|discriminate]. apply guard_ok_val in G2 as [-> _].
    apply ret_inv in H1 as [-> H1]. inversion H1; subst b. clear H1.
    apply bind_inv in H2 as [[s5 [ys [H3 H4]]]|[e [_ H]]]; [|discriminate].
    apply IH in H3 as [-> ->]. apply ret_inv in H4 as [-> H4]. inversion H4. split; [reflexivity|].
    assert (E : peer_filter (sg s) itype p = match itype with None => true | Some t => match ntyp n with Some u => str_eqb u t | None => false end end).
    { unfold peer_filter, typ_is, typ_of. rewrite F. destruct itype; reflexivity. }
    rewrite E. reflexivity.
Qed.

Definition raw_peers (g : graph) (i : str) : list str := map snd (second_nb g i Connects KLink KCP).

Lemma get_peers_val i itype s s' ps :
  get_peers i itype s = (s', Ok ps) ->
  s' = s /\ ps = match raw_peers (sg s) i with [] => None | l => Some (filter (peer_filter (sg s) itype) l) end.
Proof.
  unfold get_peers, find_peers. intro H.
  apply bind_inv in H as [[s1 [o [H1 H2]]]|[e [_ H]]]; [|discriminate].
  apply bind_inv in H1 as [[s2 [c [Hc H1]]]|[e [_ H]]]; [|discriminate].
  unfold q_second_nb in Hc. apply bind_inv in Hc as [[s3 [n [Hn Hc]]]|[e [_ H]]]; [|discriminate].
  apply find1_val in Hn as [-> _]. apply bind_inv in Hc as [[s4 [g0 [Hg Hc]]]|[e [_ H]]]; [|discriminate].
  apply getg_val in Hg as [-> ->]. apply ret_inv in Hc as [-> Hc]. inversion Hc; subst c. clear Hc.
  apply ret_inv in H1 as [-> H1]. inversion H1; subst o. clear H1. unfold raw_peers.
  destruct (second_nb (sg s) i Connects KLink KCP) as [|x l] eqn:E.
  - apply ret_inv in H2 as [-> H2]. inversion H2. auto.
  - apply bind_inv in H2 as [[s5 [l' [H3 H4]]]|[e [_ H]]]; [|discriminate].
    apply get_peers_filter_val in H3 as [-> ->]. apply ret_inv in H4 as [-> H4]. inversion H4. auto.
Qed.
Lemma reads_get_peers i itype : reads (get_peers i itype).
Proof.
  unfold get_peers, find_peers, q_second_nb. apply reads_bind; [auto 10 with reads|]. intros [l|]; [|apply reads_ret].
  apply reads_bind; [|intro; apply reads_ret]. unfold filterM.
  induction l as [|p l IH]; [apply reads_ret|]. apply reads_bind; [unfold props; auto 10 with reads|]. intro.
  apply reads_bind; [exact IH | intro; apply reads_ret].
Qed.
#[export] Hint Resolve reads_get_peers : reads.

(* raw peers (over any edge class at the link, as the backend walks them) vs. peers *)
Lemma peers_in_raw g i z : In z (peers g i) -> In z (raw_peers g i).
Proof.
  intro H. apply In_peers_inv in H as [l [Hl [Hz Hne]]]. unfold raw_peers, second_nb. apply in_map_iff.
  exists (l, z). split; [reflexivity|]. apply in_flat_map. exists l. split; [exact Hl|]. apply in_map.
  apply filter_In. split.
  - unfold any_nb. apply In_first_nb in Hz as [Hz Hc]. apply in_map_iff. exists (z, Connects). split; [reflexivity|].
    apply filter_In. split; [exact Hz | exact Hc].
  - apply negb_true_iff. apply str_eqb_neq. exact Hne.
Qed.
Lemma raw_in_peers eo ep g i p :
  WFr eo ep g -> (forall l, In l (first_nb g i Connects KLink) -> eo l = false) -> cls_is g p KCP = true ->
  In p (raw_peers g i) -> In p (peers g i).
Proof.
  intros W He Cp H. unfold raw_peers, second_nb in H. apply in_map_iff in H as [[l p'] [E H]]. simpl in E. subst p'.
  apply in_flat_map in H as [l' [Hl H]]. apply in_map_iff in H as [k [E H]]. inversion E; subst l' k. clear E.
  apply filter_In in H as [H Hne]. apply negb_true_iff in Hne. apply str_eqb_neq in Hne.
  unfold any_nb in H. apply in_map_iff in H as [[p' r] [E H]]. simpl in E. subst p'. apply filter_In in H as [H _]. simpl in H.
  (* l obeys the link rule: the edge to p is `connects` *)
  assert (Cl : cls_is g l KLink = true) by (apply In_first_nb in Hl; tauto).
  pose proof (cls_is_has_id _ _ _ Cl) as Hh. apply has_id_In in Hh as [nl [Hnl Enl]].
  assert (Kl : ncls nl = KLink).
  { rewrite <- Enl in Cl. rewrite (cls_is_node g nl _ (r_ids _ _ _ W) Hnl) in Cl. apply cls_eqb_eq. exact Cl. }
  destruct (r_struct _ _ _ W nl Hnl) as [_ [_ S3]]; [rewrite Enl; apply He; exact Hl|].
  rewrite Enl in S3. destruct (S3 Kl _ _ H) as [Er _]. subst r.
  eapply In_peers; [exact Hl | apply In_first_nb; split; [exact H | exact Cp] | exact Hne].
Qed.

Lemma peers_sym g i p : In p (peers g i) -> cls_is g i KCP = true -> In i (peers g p).
Proof.
  intros H Ci. apply In_peers_inv in H as [l [Hl [Hp Hne]]].
  assert (Cl : cls_is g l KLink = true) by (apply In_first_nb in Hl; tauto).
  eapply In_peers; [eapply first_nb_sym; eauto | eapply first_nb_sym; eauto | congruence].
Qed.

Lemma raw_peers_cls g i p : In p (raw_peers g i) -> cls_is g p KCP = true.
Proof.
  unfold raw_peers, second_nb. intro H. apply in_map_iff in H as [[l p'] [E H]]. simpl in E. subst p'.
  apply in_flat_map in H as [l' [_ H]]. apply in_map_iff in H as [k [E H]]. inversion E; subst. apply filter_In in H as [H _].
  unfold any_nb in H. apply in_map_iff in H as [[p' r] [E' H]]. simpl in E'. subst p'. apply filter_In in H as [_ H]. exact H.
Qed.

(* under "sub-interfaces hang off DedicatedPorts" a service port has no interface neighbour *)
Lemma x1_serviceport_no_children eo ep g p n :
  WFr eo ep g -> subs_under_dedicated g = true -> In n (gnodes g) -> nid n = p -> eo p = false ->
  ncls n = KCP -> typ_is g p sServicePort = true -> first_nb g p Connects KCP = [].
Proof.
  intros W X Hn En Eo Hc Ht. destruct (first_nb g p Connects KCP) as [|j l] eqn:E; [reflexivity|]. exfalso.
  assert (Hj : In j (first_nb g p Connects KCP)) by (rewrite E; left; reflexivity).
  destruct (r_struct _ _ _ W n Hn) as [_ [S2 _]]; [rewrite En; exact Eo|]. rewrite En in S2.
  destruct (S2 Hc) as [_ [Sh _]]. specialize (Sh j Hj).
  rewrite (typ_is_excl _ _ _ sSubInterface Ht) in Sh by reflexivity.
  assert (Tj : typ_is g j sSubInterface = true) by (destruct (typ_is g j sSubInterface); [reflexivity | congruence]).
  apply In_first_nb in Hj as [Hadj Cj]. apply In_nbrs in Hadj as [e [He [_ Hends]]].
  unfold subs_under_dedicated in X. rewrite forallb_forall in X. specialize (X e He).
  assert (Cp : cls_is g p KCP = true) by (rewrite <- En, (cls_is_node g n _ (r_ids _ _ _ W) Hn), Hc; reflexivity).
  assert (Dp : typ_is g p sDedicatedPort = false) by (apply (typ_is_excl _ _ _ _ Ht); reflexivity).
  assert (Dj : typ_is g j sDedicatedPort = false) by (apply (typ_is_excl _ _ _ _ Tj); reflexivity).
  destruct Hends as [[E1 E2]|[E1 E2]]; rewrite E1, E2, Cp, Cj, Dp, Dj in X; discriminate X.
Qed.

Lemma In_remove_set_nodes g d n : In n (gnodes (remove_set g d)) -> In n (gnodes g) /\ d (nid n) = false.
Proof. unfold remove_set. simpl. intro H. apply filter_In in H as [A B]. apply negb_true_iff in B. auto. Qed.

(* disconnecting interface i from the service that owns its (single) service-port peer p *)
Lemma disconnect_peer_unit g i p :
  WF g -> subs_under_dedicated g = true -> cls_is g i KCP = true -> typ_is g i sServicePort = false ->
  In p (peers g i) -> typ_is g p sServicePort = true ->
  WF (remove_set g (fun y => mem_str y (D_cp g p true))).
Proof.
  intros W X Ci Ti Hp Tp. apply WF_WFr. apply WF_WFr in W.
  assert (Cp : cls_is g p KCP = true).
  { apply In_peers_inv in Hp as [l [_ [Hp _]]]. apply In_first_nb in Hp. tauto. }
  pose proof (WFr_remove_cp g no_exempt no_exempt p true W Cp (or_introl eq_refl)) as W1.
  apply (WFr_discharge_ep _ _ _ W1). intros n Hn _ Hst Hc Ht. exfalso. simpl in Hst.
  apply In_remove_set_nodes in Hn as [Hn _].
  pose proof (cls_is_has_id _ _ _ Cp) as Hh. apply has_id_In in Hh as [np [Hnp Enp]].
  assert (Kp : ncls np = KCP) by (rewrite <- Enp in Cp; rewrite (cls_is_node g np _ (r_ids _ _ _ W) Hnp) in Cp; apply cls_eqb_eq; exact Cp).
  assert (NC : first_nb g p Connects KCP = []) by (eapply x1_serviceport_no_children; eauto).
  unfold cp_stranded, cp_ifs, cp_extra in Hst. rewrite NC in Hst. simpl in Hst. rewrite orb_false_r in Hst. apply mem_str_In in Hst.
  (* p is a service port: exactly one peer, and i is one *)
  destruct (r_struct _ _ _ W np Hnp eq_refl) as [_ [S2 _]]. rewrite Enp in S2. destruct (S2 Kp) as [_ [_ S3]].
  assert (Tnp : ntyp np = Some sServicePort).
  { rewrite <- Enp in Tp. rewrite (typ_is_node g np _ (r_ids _ _ _ W) Hnp) in Tp. apply ostr_eqb_eq. exact Tp. }
  specialize (S3 Tnp eq_refl).
  assert (Hi : In i (peers g p)) by (apply peers_sym; assumption).
  assert (E : nid n = i) by (eapply len1_same; [| exact Hst | exact Hi]; lia).
  rewrite <- E in Ti. rewrite (typ_is_node g n _ (r_ids _ _ _ W) Hn), Ht in Ti. vm_compute in Ti. discriminate Ti.
Qed.

(* NetworkService.disconnect_interface *)
Lemma api_disconnect i s s' r :
  WF (sg s) -> subs_under_dedicated (sg s) = true -> cls_is (sg s) i KCP = true -> typ_is (sg s) i sServicePort = false ->
  disconnect_interface i s = (s', r) -> WF (sg s').
Proof.
  intros W X Ci Ti H. unfold disconnect_interface in H.
  apply bind_reads in H; [| auto with reads].
  destruct H as [[s1 [ps [Hm [Hg H]]]] | [e [Hr Hg]]]; [| rewrite Hg; exact W].
  apply get_peers_val in Hm as [-> Hps]. clear Hg.
  destruct ps as [[|p [|q l]]|]; try (apply ret_inv in H as [-> _]; exact W); [| apply raise_inv in H as [-> _]; exact W].
  destruct (raw_peers (sg s) i) as [|x l] eqn:E; [discriminate Hps|].
  assert (Hf : [p] = filter (peer_filter (sg s) (Some sServicePort)) (x :: l)) by congruence. clear Hps.
  assert (Hin : In p (filter (peer_filter (sg s) (Some sServicePort)) (x :: l))) by (rewrite <- Hf; left; reflexivity).
  apply filter_In in Hin as [Hraw Tp]. simpl in Tp. rewrite <- E in Hraw.
  pose proof (raw_peers_cls _ _ _ Hraw) as Cp.
  assert (Hp : In p (peers (sg s) i)).
  { apply WF_WFr in W. eapply raw_in_peers; eauto. }
  rewrite (cp_unit_run p true s) in H; [| eapply WFr_sane; apply WF_WFr; exact W | eapply cls_is_has_id; eauto].
  inversion H; subst. simpl. apply (disconnect_peer_unit (sg s) i p); assumption.
Qed.

(* ---- remove_child_interface ------------------------------------------------------------------------------- *)
Lemma reads_get_parent x r k : reads (get_parent x r k).
Proof.
  unfold get_parent. apply reads_bind; [auto with reads|]. intros [|p [|q l]]; try apply reads_ret.
  unfold props. auto 8 with reads.
Qed.
#[export] Hint Resolve reads_get_parent : reads.
Lemma reads_parent_of_iface i : reads (parent_of_iface i).
Proof.
  unfold parent_of_iface. apply reads_bind; [auto with reads|]. intros [|];
    (apply reads_bind; [auto with reads|]; intros [[nm id]|]; auto with reads).
Qed.
#[export] Hint Resolve reads_parent_of_iface : reads.

Lemma find_by_name_lazy_val name : forall l s s' c, find_by_name_lazy l name s = (s', Ok c) -> s' = s /\ In c l.
Proof.
  induction l as [|x l IH]; simpl; intros s s' c H.
  - apply raise_inv in H as [_ H]. discriminate.
  - apply bind_inv in H as [[s1 [n [H1 H2]]]|[e [_ H]]]; [|discriminate].
    unfold props in H1. apply find1_val in H1 as [-> _].
    apply bind_inv in H2 as [[s2 [nm [H3 H4]]]|[e [_ H]]]; [|discriminate].
    assert (s2 = s) by (unfold name_prop in H3; destruct (nname n); [apply ret_inv in H3; tauto | apply raise_inv in H3 as [_ H3]; discriminate]).
    subst s2. destruct (str_eqb nm name).
    + apply ret_inv in H4 as [-> H4]. inversion H4. auto.
    + apply IH in H4 as [-> H4]. auto.
Qed.
Lemma reads_find_by_name_lazy name l : reads (find_by_name_lazy l name).
Proof.
  induction l as [|x l IH]; simpl; [apply reads_raise|].
  apply reads_bind; [unfold props; auto with reads|]. intro n. apply reads_bind; [auto with reads|]. intro nm.
  destruct (str_eqb nm name); [apply reads_ret | exact IH].
Qed.
#[export] Hint Resolve reads_find_by_name_lazy : reads.

Lemma peers_remove_sub g d c z : d c = false -> In z (peers (remove_set g d) c) -> In z (peers g c) /\ d z = false.
Proof.
  intros Hc H. apply In_peers_inv in H as [l [Hl [Hz Hne]]].
  apply (rr_first_sub g d c Connects KLink l Hc) in Hl as [Hl Dl].
  apply (rr_first_sub g d l Connects KCP z Dl) in Hz as [Hz Dz].
  split; [eapply In_peers; eauto | exact Dz].
Qed.

(* what disconnect_interface does, as a function of the graph *)
Definition sp_peers (g : graph) (c : str) : list str := filter (peer_filter g (Some sServicePort)) (raw_peers g c).

Lemma disconnect_run c s s' r :
  sane (sg s) -> disconnect_interface c s = (s', r) ->
  (sg s' = sg s /\ (r = Ok tt -> sp_peers (sg s) c = [])) \/
  (exists p, sp_peers (sg s) c = [p] /\ sg s' = remove_set (sg s) (fun y => mem_str y (D_cp (sg s) p true)) /\ r = Ok tt).
Proof.
  intros Hs H. unfold disconnect_interface in H.
  apply bind_reads in H; [| auto with reads].
  destruct H as [[s1 [ps [Hm [Hg H]]]] | [e [Hr Hg]]]; [| left; split; [exact Hg | intro; congruence]].
  apply get_peers_val in Hm as [-> Hps]. clear Hg. unfold sp_peers.
  destruct (raw_peers (sg s) c) as [|x l] eqn:E.
  - subst ps. apply ret_inv in H as [-> _]. left. auto.
  - subst ps. rewrite <- E in *. destruct (filter (peer_filter (sg s) (Some sServicePort)) (raw_peers (sg s) c)) as [|p [|q l']] eqn:F.
    + apply ret_inv in H as [-> _]. left. auto.
    + right. exists p. split; [reflexivity|].
      assert (Hin : In p (filter (peer_filter (sg s) (Some sServicePort)) (raw_peers (sg s) c))) by (rewrite F; left; reflexivity).
      apply filter_In in Hin as [Hraw _].
      rewrite (cp_unit_run p true s Hs) in H; [| eapply cls_is_has_id; eapply raw_peers_cls; eauto].
      inversion H. auto.
    + apply raise_inv in H as [-> Hr]. left. split; [reflexivity | intro; congruence].
Qed.

(* the disconnection step of the removal calls, for one interface c that is not a service port *)
Lemma disconnect_one_post c s s' r :
  WF (sg s) -> subs_under_dedicated (sg s) = true -> cls_is (sg s) c KCP = true -> typ_is (sg s) c sServicePort = false ->
  disconnect_one c s = (s', r) ->
  WF (sg s') /\ (exists d, sg s' = remove_set (sg s) d /\ d c = false) /\
  (r = Ok tt -> forall z, In z (peers (sg s') c) -> typ_is (sg s') z sServicePort = false).
Proof.
  intros W X Cc Tc H. unfold disconnect_one in H.
  assert (NOOP : forall sx rx, sg sx = sg s -> (rx = Ok tt -> forall z, In z (peers (sg s) c) -> typ_is (sg s) z sServicePort = false) ->
            WF (sg sx) /\ (exists d, sg sx = remove_set (sg s) d /\ d c = false) /\
            (rx = Ok tt -> forall z, In z (peers (sg sx) c) -> typ_is (sg sx) z sServicePort = false)).
  { intros sx rx G Q. rewrite G. split; [exact W|]. split; [|exact Q].
    exists (fun _ => false). split; [symmetry; apply remove_set_none | reflexivity]. }
  assert (NOSP : sp_peers (sg s) c = [] -> forall z, In z (peers (sg s) c) -> typ_is (sg s) z sServicePort = false).
  { intros Hf z Hz. destruct (typ_is (sg s) z sServicePort) eqn:Tz; [|reflexivity]. exfalso.
    assert (In z (sp_peers (sg s) c)) by (apply filter_In; split; [apply peers_in_raw; exact Hz | exact Tz]).
    rewrite Hf in H0. destruct H0. }
  apply bind_reads in H; [| auto with reads].
  destruct H as [[s1 [ps [Hm [Hg H]]]] | [e [Hr Hg]]];
    [| apply NOOP; [exact Hg | intro; congruence]].
  apply get_peers_val in Hm as [-> Hps]. clear Hg. fold (sp_peers (sg s) c) in Hps.
  destruct ps as [[|p [|q l]]|].
  - apply ret_inv in H as [-> _]. apply NOOP; [reflexivity|]. intros _. apply NOSP.
    unfold sp_peers. destruct (raw_peers (sg s) c) eqn:E; [reflexivity | congruence].
  - apply bind_reads in H; [| auto with reads].
    destruct H as [[s2 [h [_ [Hg H]]]] | [e [Hr Hg]]];
      [| apply NOOP; [exact Hg | intro; congruence]].
    destruct h; try (apply raise_inv in H as [-> Hr]; apply NOOP; [exact Hg | intro; congruence]).
    assert (Hs2 : sane (sg s2)) by (rewrite Hg; eapply WFr_sane; apply WF_WFr; exact W).
    destruct (disconnect_run c s2 s' r Hs2 H) as [[G R]|[p' [Esp [G R]]]]; rewrite Hg in *.
    + apply NOOP; [exact G | intro Hr; apply NOSP; apply R; exact Hr].
    + assert (Hin : In p' (sp_peers (sg s) c)) by (rewrite Esp; left; reflexivity).
      apply filter_In in Hin as [Hraw Tp]. simpl in Tp. pose proof (raw_peers_cls _ _ _ Hraw) as Cp.
      assert (Hp : In p' (peers (sg s) c)) by (pose proof W as W'; apply WF_WFr in W'; eapply raw_in_peers; eauto).
      assert (Dc : mem_str c (D_cp (sg s) p' true) = false).
      { destruct (mem_str c (D_cp (sg s) p' true)) eqn:E; [|reflexivity]. exfalso.
        pose proof W as W'. apply WF_WFr in W'.
        destruct (rc_del_inv (sg s) no_exempt p' true Cp (or_introl eq_refl) c E) as [[Hi _]|[_ C]]; [|rewrite (cls_is_unique _ _ _ _ Cc) in C; [discriminate C | discriminate]].
        pose proof (cls_is_has_id _ _ _ Cp) as Hh. apply has_id_In in Hh as [np [Hnp Enp]].
        assert (Kp : ncls np = KCP) by (rewrite <- Enp in Cp; rewrite (cls_is_node (sg s) np _ (r_ids _ _ _ W') Hnp) in Cp; apply cls_eqb_eq; exact Cp).
        assert (NC : first_nb (sg s) p' Connects KCP = []) by (eapply x1_serviceport_no_children; eauto).
        unfold cp_ifs, cp_extra in Hi. rewrite NC in Hi. simpl in Hi. destruct Hi as [Hi|[]]. subst p'. congruence. }
      rewrite G. split; [apply (disconnect_peer_unit (sg s) c p'); assumption|]. split.
      * eexists. split; [reflexivity | exact Dc].
      * intros _ z Hz. apply (peers_remove_sub (sg s) _ c z Dc) in Hz as [Hz Dz].
        rewrite (rs_typ (sg s) _ z _ Dz).
        destruct (typ_is (sg s) z sServicePort) eqn:Tz; [|reflexivity]. exfalso.
        assert (Hzs : In z (sp_peers (sg s) c)) by (apply filter_In; split; [apply peers_in_raw; exact Hz | exact Tz]).
        rewrite Esp in Hzs. destruct Hzs as [Hzs|[]]. subst z.
        assert (mem_str p' (D_cp (sg s) p' true) = true).
        { apply mem_str_In. unfold D_cp. apply In_dedup. apply in_or_app. left. unfold cp_ifs. apply In_dedup. left. reflexivity. }
        congruence.
  - apply raise_inv in H as [-> Hr]. apply NOOP; [reflexivity | intro; congruence].
  - apply ret_inv in H as [-> _]. apply NOOP; [reflexivity|]. intros _. apply NOSP.
    unfold sp_peers. destruct (raw_peers (sg s) c) eqn:E; [reflexivity | discriminate Hps].
Qed.

Lemma child_cps_val i s s' ch : child_cps i s = (s', Ok ch) -> s' = s /\ ch = first_nb (sg s) i Connects KCP /\ cls_is (sg s) i KCP = true.
Proof.
  unfold child_cps. intro H. apply bind_inv in H as [[s1 [[] [Hc Hq]]]|[e [_ Hx]]]; [|discriminate].
  apply check_class_val in Hc as [-> [m [Fm Em]]]. apply q_first_nb_val in Hq as [-> [-> _]].
  split; [reflexivity|]. split; [reflexivity|]. destruct (check_class_cls _ _ _ _ Fm Em) as [k [[<-|[]] Hk]]. exact Hk.
Qed.
Lemma reads_child_cps i : reads (child_cps i).
Proof. unfold child_cps. auto 8 with reads. Qed.
#[export] Hint Resolve reads_child_cps : reads.

(* removing sub-interface c (not a service port, no service-port peer left) on its own *)
Lemma remove_sub_unit g c :
  WF g -> cls_is g c KCP = true -> typ_is g c sSubInterface = true ->
  (forall z, In z (peers g c) -> typ_is g z sServicePort = false) ->
  WF (remove_set g (fun y => mem_str y (D_cp g c false))).
Proof.
  intros W Cc Tc NP. apply WF_WFr. apply WF_WFr in W.
  pose proof (WFr_remove_cp g no_exempt no_exempt c false W Cc (or_intror Tc)) as W1.
  apply (WFr_discharge_ep _ _ _ W1). intros n Hn _ Hst Hc Ht. exfalso. simpl in Hst.
  apply In_remove_set_nodes in Hn as [Hn _].
  unfold cp_stranded, cp_ifs, cp_extra in Hst.
  assert (E : forall l, filter (fun p => len_is (first_nb g p Connects KCP) 1 && false) l = [])
    by (induction l as [|a l IH]; simpl; [reflexivity | rewrite andb_false_r; exact IH]).
  rewrite E in Hst. simpl in Hst. rewrite orb_false_r in Hst. apply mem_str_In in Hst.
  specialize (NP _ Hst). rewrite (typ_is_node g n _ (r_ids _ _ _ W) Hn), Ht in NP. vm_compute in NP. discriminate NP.
Qed.

(* Interface.remove_child_interface *)
Lemma api_remove_child i name s s' r :
  WF (sg s) -> subs_under_dedicated (sg s) = true ->
  iface_remove_child i name s = (s', r) -> WF (sg s').
Proof.
  intros W X H. unfold iface_remove_child in H.
  apply bind_reads in H; [| auto with reads].
  destruct H as [[s1 [ded [Hm [Hg H]]]] | [e [Hr Hg]]]; [| rewrite Hg; exact W].
  apply type_is_val in Hm as [-> Hded]. clear Hg.
  peel H W.
  assert (Td : typ_is (sg s) i sDedicatedPort = true) by congruence.
  apply bind_reads in H; [| auto with reads].
  destruct H as [[s2 [ch [Hc [Hg H]]]] | [e [Hr Hg]]]; [| rewrite Hg; exact W].
  apply child_cps_val in Hc as [-> [-> Ci]]. clear Hg.
  apply bind_reads in H; [| auto with reads].
  destruct H as [[s3 [c [Hf [Hg H]]]] | [e [Hr Hg]]]; [| rewrite Hg; exact W].
  apply find_by_name_lazy_val in Hf as [-> Hc]. clear Hg.
  (* c is a sub-interface of the dedicated port i *)
  pose proof W as Wr. apply WF_WFr in Wr.
  assert (Cc : cls_is (sg s) c KCP = true) by (apply In_first_nb in Hc; tauto).
  pose proof (cls_is_has_id _ _ _ Ci) as Hh. apply has_id_In in Hh as [ni [Hni Eni]].
  assert (Ki : ncls ni = KCP) by (rewrite <- Eni in Ci; rewrite (cls_is_node (sg s) ni _ (r_ids _ _ _ Wr) Hni) in Ci; apply cls_eqb_eq; exact Ci).
  assert (Tc : typ_is (sg s) c sSubInterface = true).
  { destruct (r_struct _ _ _ Wr ni Hni eq_refl) as [_ [S2 _]]. rewrite Eni in S2. destruct (S2 Ki) as [_ [Sh _]].
    specialize (Sh c Hc). rewrite (typ_is_excl _ _ _ sSubInterface Td) in Sh by reflexivity.
    destruct (typ_is (sg s) c sSubInterface); [reflexivity | congruence]. }
  assert (Tsp : typ_is (sg s) c sServicePort = false) by (apply (typ_is_excl _ _ _ _ Tc); reflexivity).
  apply bind_inv in H as [[s4 [[] [H1 H2]]]|[e [H1 _]]].
  - destruct (disconnect_one_post c s s4 (Ok tt) W X Cc Tsp H1) as [W1 [[d [G Dc]] NP]]. specialize (NP eq_refl).
    rewrite (cp_unit_run c false s4) in H2;
      [| eapply WFr_sane; apply WF_WFr; exact W1 | rewrite G; apply has_id_remove_keep; [eapply cls_is_has_id; eauto | exact Dc]].
    inversion H2; subst. simpl. apply remove_sub_unit; [exact W1 | | | exact NP].
    + rewrite G, (rs_cls (sg s) d c _ Dc). exact Cc.
    + rewrite G, (rs_typ (sg s) d c _ Dc). exact Tc.
  - exact (proj1 (disconnect_one_post c s s' (Err e) W X Cc Tsp H1)).
Qed.

(* C19: soundness of the template checker.  If `tmpl_ok t` then for EVERY environment that fills the
   identifier-class holes with identifiers the rendered statement is well-formed, and its text does not
   depend on anything but those identifiers. *)
From Coq Require Import List NArith Bool Lia PeanoNat.
Import ListNotations.
From FIM Require Import Base.Str Model.Cypher19.
Open Scope N_scope.

Lemma scan_app s a b :
  scan s (a ++ b) = match scan s a with Some s' => scan s' b | None => None end.
Proof.
  revert s; induction a as [|c a IH]; intro s; simpl; [reflexivity|].
  destruct (step s c); [apply IH|reflexivity].
Qed.

Lemma set_mode_same s : set_mode (s_mode s) s = s.
Proof. destruct s; reflexivity. Qed.

Lemma idstart_idchar c : is_idstart c = true -> is_idchar c = true.
Proof. unfold is_idchar; intro H; rewrite H; reflexivity. Qed.

Lemma idstart_not_space c : is_idstart c = true -> is_space c = false.
Proof.
  unfold is_idstart, is_space, is_upper, is_lower. intro H.
  repeat rewrite orb_true_iff in H. repeat rewrite andb_true_iff in H.
  repeat rewrite N.leb_le in H. rewrite N.eqb_eq in H.
  repeat rewrite orb_false_iff. repeat rewrite N.eqb_neq. lia.
Qed.

(* in a position where the text of an identifier is irrelevant, scanning one identifier character ... *)
Lemma step_hole_first s c :
  hole_ok s = true -> is_idstart c = true -> step s c = Some (hole_next s).
Proof.
  unfold hole_ok, hole_next, step. intros Hok Hc.
  destruct (s_mode s) eqn:Hm; try discriminate.
  - unfold step_norm. rewrite (idstart_not_space c Hc), Hc, Hok. reflexivity.
  - rewrite (idstart_idchar c Hc). rewrite <- Hm, set_mode_same. reflexivity.
Qed.

Lemma scan_skip s r :
  s_mode s = MSkip -> forallb is_idchar r = true -> scan s r = Some s.
Proof.
  intro Hm. induction r as [|c r IH]; simpl; intro H; [reflexivity|].
  apply andb_true_iff in H as [Hc Hr]. unfold step. rewrite Hm, Hc. apply IH, Hr.
Qed.

(* ... or a whole identifier leads to one fixed state, whatever the identifier is *)
Lemma scan_ident s w :
  hole_ok s = true -> ident_okb w = true -> scan s w = Some (hole_next s).
Proof.
  intros Hok Hw. destruct w as [|c r]; [discriminate|]. simpl in Hw.
  apply andb_true_iff in Hw as [Hc Hr]. simpl. rewrite (step_hole_first s c Hok Hc).
  apply scan_skip; [destruct s; reflexivity|exact Hr].
Qed.

(* ------------------------------------------------------------------------------------------- *)
(* escaped text never leaves the quoted literal it is pasted into                                *)
(* ------------------------------------------------------------------------------------------- *)
Lemma step_sq_bs s : s_mode s = MSq -> step s 92 = Some (set_mode MSqE s).
Proof. intro Hm. unfold step. rewrite Hm. reflexivity. Qed.
Lemma step_sqe s c : s_mode s = MSqE -> step s c = Some (set_mode MSq s).
Proof. intro Hm. unfold step. rewrite Hm. reflexivity. Qed.
Lemma step_sq_other s c :
  s_mode s = MSq -> (c =? 92) = false -> (c =? 39) = false -> step s c = Some s.
Proof. intros Hm H1 H2. unfold step. rewrite Hm, H1, H2. reflexivity. Qed.
Lemma step_dq_bs s : s_mode s = MDq -> step s 92 = Some (set_mode MDqE s).
Proof. intro Hm. unfold step. rewrite Hm. reflexivity. Qed.
Lemma step_dqe s c : s_mode s = MDqE -> step s c = Some (set_mode MDq s).
Proof. intro Hm. unfold step. rewrite Hm. reflexivity. Qed.
Lemma step_dq_other s c :
  s_mode s = MDq -> (c =? 92) = false -> (c =? 34) = false -> step s c = Some s.
Proof. intros Hm H1 H2. unfold step. rewrite Hm, H1, H2. reflexivity. Qed.

Lemma scan_esc_sq s v : s_mode s = MSq -> scan s (esc_q v) = Some s.
Proof.
  intro Hm. induction v as [|c r IH]; [reflexivity|].
  cbn [esc_q]. destruct ((c =? 92) || (c =? 39) || (c =? 34)) eqn:Hc.
  - cbn [scan]. rewrite (step_sq_bs s Hm).
    rewrite (step_sqe (set_mode MSqE s) c) by (destruct s; reflexivity).
    replace (set_mode MSq (set_mode MSqE s)) with s by (destruct s; simpl in Hm; subst; reflexivity).
    exact IH.
  - apply orb_false_iff in Hc as [Hc H3]. apply orb_false_iff in Hc as [H1 H2].
    cbn [scan]. rewrite (step_sq_other s c Hm H1 H2). exact IH.
Qed.

Lemma scan_esc_dq s v : s_mode s = MDq -> scan s (esc_q v) = Some s.
Proof.
  intro Hm. induction v as [|c r IH]; [reflexivity|].
  cbn [esc_q]. destruct ((c =? 92) || (c =? 39) || (c =? 34)) eqn:Hc.
  - cbn [scan]. rewrite (step_dq_bs s Hm).
    rewrite (step_dqe (set_mode MDqE s) c) by (destruct s; reflexivity).
    replace (set_mode MDq (set_mode MDqE s)) with s by (destruct s; simpl in Hm; subst; reflexivity).
    exact IH.
  - apply orb_false_iff in Hc as [Hc H3]. apply orb_false_iff in Hc as [H1 H2].
    cbn [scan]. rewrite (step_dq_other s c Hm H1 H3). exact IH.
Qed.

(* a value escaped d+1 times, pasted inside a literal of either quote kind, leaves the scanner where it was *)
Lemma scan_esc_n s d v :
  (s_mode s = MSq \/ s_mode s = MDq) -> scan s (esc_n (Datatypes.S d) v) = Some s.
Proof. intros [H|H]; cbn [esc_n]; [apply scan_esc_sq|apply scan_esc_dq]; exact H. Qed.

Lemma idents_ok_tail f fs e : idents_ok (f :: fs) e -> idents_ok fs e.
Proof.
  unfold idents_ok. intros H v Hv. apply H. destruct f as [t|v' [| |d]]; simpl; auto.
Qed.

Theorem tscan_sound : forall fs s s' e,
  tscan s fs = Some s' -> idents_ok fs e -> scan s (render fs e) = Some s'.
Proof.
  induction fs as [|f fs IH]; intros s s' e H Hid; simpl in *.
  - exact H.
  - destruct f as [t|v [| |d]].
    + rewrite scan_app. destruct (scan s t) as [s1|]; [|discriminate].
      apply IH; [exact H|exact (idents_ok_tail _ _ _ Hid)].
    + destruct (hole_ok s) eqn:Hok; [|discriminate].
      rewrite scan_app, (scan_ident s (e v) Hok).
      * apply IH; [exact H|exact (idents_ok_tail _ _ _ Hid)].
      * apply Hid. simpl. left; reflexivity.
    + discriminate.
    + destruct d as [|d]; [discriminate|].
      assert (Hm : s_mode s = MSq \/ s_mode s = MDq) by (destruct (s_mode s); try discriminate; auto).
      rewrite scan_app, (scan_esc_n s d (e v) Hm).
      apply IH; [|exact (idents_ok_tail _ _ _ Hid)].
      destruct (s_mode s); try discriminate; exact H.
Qed.

Lemma tscan_no_value : forall fs s s', tscan s fs = Some s' -> has_value_hole fs = false.
Proof.
  induction fs as [|f fs IH]; intros s s' H; simpl in *; [reflexivity|].
  destruct f as [t|v [| |d]].
  - destruct (scan s t); [eapply IH; eassumption|discriminate].
  - destruct (hole_ok s); [eapply IH; eassumption|discriminate].
  - discriminate.
  - destruct d as [|d]; [discriminate|]. destruct (s_mode s); try discriminate; eapply IH; eassumption.
Qed.

Theorem render_indep : forall fs e e',
  has_value_hole fs = false -> has_esc_hole fs = false ->
  agree_on (ident_vars fs) e e' -> render fs e = render fs e'.
Proof.
  induction fs as [|f fs IH]; intros e e' Hv He Ha; simpl in *; [reflexivity|].
  destruct f as [t|v [| |d]].
  - f_equal. apply IH; assumption.
  - rewrite (Ha v (or_introl eq_refl)). f_equal. apply IH; [assumption|assumption|].
    intros w Hw. apply Ha. right; exact Hw.
  - discriminate.
  - discriminate.
Qed.

Lemma idents_ok_agree fs e e' : idents_ok fs e -> agree_on (ident_vars fs) e e' -> idents_ok fs e'.
Proof. intros H Ha v Hv. rewrite <- (Ha v Hv). exact (H v Hv). Qed.

Lemma tmpl_ok_inv t :
  tmpl_ok t = true ->
  t_params_known t = true /\ exists s, tscan init (t_frags t) = Some s /\ accept s (t_params t) = true.
Proof.
  unfold tmpl_ok. intro H. apply andb_true_iff in H as [Hk H]. split; [exact Hk|].
  destruct (tscan init (t_frags t)) as [s|]; [|discriminate]. exists s; split; [reflexivity|exact H].
Qed.

Theorem tmpl_ok_well_formed t :
  tmpl_ok t = true -> forall e, idents_ok (t_frags t) e -> wf_b (render (t_frags t) e) (t_params t) = true.
Proof.
  intros H e Hid. destruct (tmpl_ok_inv t H) as [_ [s [Hs Ha]]].
  unfold wf_b. rewrite (tscan_sound _ _ _ e Hs Hid). exact Ha.
Qed.

Theorem tmpl_ok_data_independent t :
  tmpl_ok t = true -> has_esc_hole (t_frags t) = false ->
  forall e e', agree_on (ident_vars (t_frags t)) e e' ->
  render (t_frags t) e = render (t_frags t) e'.
Proof.
  intros H He e e' Ha. destruct (tmpl_ok_inv t H) as [_ [s [Hs _]]].
  apply render_indep; [exact (tscan_no_value _ _ _ Hs)|exact He|exact Ha].
Qed.

(* with escaped literals the text may differ - inside those literals only: the scanner ends in the same state *)
Theorem tmpl_ok_structure_independent t :
  tmpl_ok t = true -> forall e e', idents_ok (t_frags t) e -> idents_ok (t_frags t) e' ->
  scan init (render (t_frags t) e) = scan init (render (t_frags t) e').
Proof.
  intros H e e' Hid Hid'. destruct (tmpl_ok_inv t H) as [_ [s [Hs _]]].
  rewrite (tscan_sound _ _ _ e Hs Hid), (tscan_sound _ _ _ e' Hs Hid'). reflexivity.
Qed.

Theorem tmpl_ok_sound t :
  tmpl_ok t = true ->
  forall e e', idents_ok (t_frags t) e -> agree_on (ident_vars (t_frags t)) e e' ->
  (has_esc_hole (t_frags t) = false -> render (t_frags t) e = render (t_frags t) e') /\
  scan init (render (t_frags t) e) = scan init (render (t_frags t) e') /\
  wf_b (render (t_frags t) e) (t_params t) = true /\ wf_b (render (t_frags t) e') (t_params t) = true.
Proof.
  intros H e e' Hid Ha.
  pose proof (idents_ok_agree _ _ _ Hid Ha) as Hid'.
  split; [intro He; exact (tmpl_ok_data_independent t H He e e' Ha)|].
  split; [exact (tmpl_ok_structure_independent t H e e' Hid Hid')|].
  split; [exact (tmpl_ok_well_formed t H e Hid)|exact (tmpl_ok_well_formed t H e' Hid')].
Qed.

(* the boolean form of idents_ok used by the correspondence *)
Lemma idents_okb_ok fs e : idents_okb fs e = true -> idents_ok fs e.
Proof.
  unfold idents_okb, idents_ok. intros H v Hv. rewrite forallb_forall in H. exact (H v Hv).
Qed.

(* what well-formedness gives, in terms of the final scanner state *)
Theorem wf_b_inv text ps :
  wf_b text ps = true ->
  exists s, final_state text = Some s /\ s_mode s = MNorm /\ s_stack s = [] /\
            subset (s_params s) ps = true /\ subset (s_uses s) (s_binds s) = true.
Proof.
  unfold wf_b, final_state, accept. destruct (scan init text) as [s|]; [|discriminate].
  destruct (step s 32) as [s1|]; [|discriminate]. intro H.
  exists (resolve s1). split; [reflexivity|].
  destruct (s_mode (resolve s1)); try discriminate.
  destruct (s_stack (resolve s1)); try discriminate.
  apply andb_true_iff in H as [H1 H2]. repeat split; assumption.
Qed.

Lemma mem_In x l : mem x l = true <-> In x l.
Proof.
  unfold mem. rewrite existsb_exists. split.
  - intros [y [Hy He]]. apply str_eqb_eq in He. subst. exact Hy.
  - intro H. exists x. split; [exact H|apply str_eqb_refl].
Qed.

Lemma subset_In a b : subset a b = true <-> (forall x, In x a -> In x b).
Proof.
  unfold subset. rewrite forallb_forall. split; intros H x Hx.
  - apply mem_In. apply H, Hx.
  - apply mem_In. apply H, Hx.
Qed.

(* ------------------------------------------------------------------------------------------- *)
(* a correctly escaped quoted literal: the scanner state after it does not depend on the value   *)
(* ------------------------------------------------------------------------------------------- *)
Definition after_literal (s : sstate) : sstate := set_pv POther (set_mode MNorm (resolve s)).

Theorem scan_quoted_literal s v :
  s_mode s = MNorm -> is_keyctx (s_pv s) = false ->
  scan s (quoted_literal v) = Some (after_literal s).
Proof.
  intros Hm Hk. unfold quoted_literal. cbn [scan].
  assert (H1 : step s 39 = Some (set_mode MSq (resolve s))).
  { unfold step. rewrite Hm. unfold step_norm. rewrite Hk. reflexivity. }
  rewrite H1, scan_app.
  rewrite scan_esc_sq by (destruct (resolve s); reflexivity).
  cbn [scan]. unfold step.
  replace (s_mode (set_mode MSq (resolve s))) with MSq by (destruct (resolve s); reflexivity).
  cbn. unfold after_literal. destruct (resolve s); reflexivity.
Qed.

Theorem escaped_literal_wf pre post ps v v' s :
  scan init pre = Some s -> s_mode s = MNorm -> is_keyctx (s_pv s) = false ->
  wf_b (pre ++ quoted_literal v ++ post) ps = wf_b (pre ++ quoted_literal v' ++ post) ps.
Proof.
  intros Hs Hm Hk. unfold wf_b.
  rewrite !scan_app, Hs, !scan_app, !(scan_quoted_literal s _ Hm Hk). reflexivity.
Qed.

(* ------------------------------------------------------------------------------------------- *)
(* nesting: what the database reads back from an escaped literal is the text that was escaped     *)
(* ------------------------------------------------------------------------------------------- *)
Theorem unesc_esc v : unesc (esc_q v) = v.
Proof.
  induction v as [|c r IH]; [reflexivity|].
  cbn [esc_q]. destruct ((c =? 92) || (c =? 39) || (c =? 34)) eqn:Hc.
  - cbn [unesc]. rewrite N.eqb_refl. f_equal. exact IH.
  - apply orb_false_iff in Hc as [Hc _]. apply orb_false_iff in Hc as [H1 _].
    cbn [unesc]. rewrite H1. f_equal. exact IH.
Qed.

Fixpoint unesc_n (d : nat) (v : str) : str :=
  match d with O => v | Datatypes.S d' => unesc_n d' (unesc v) end.

Theorem unesc_esc_n d v : unesc_n d (esc_n d v) = v.
Proof. induction d as [|d IH]; [reflexivity|]. cbn [esc_n unesc_n]. rewrite unesc_esc. exact IH. Qed.

Lemma esc_q_app a b : esc_q (a ++ b) = esc_q a ++ esc_q b.
Proof.
  induction a as [|c r IH]; [reflexivity|].
  cbn [esc_q app]. rewrite IH. destruct ((c =? 92) || (c =? 39) || (c =? 34)); reflexivity.
Qed.

Lemma idchar_not_special c : is_idchar c = true -> ((c =? 92) || (c =? 39) || (c =? 34)) = false.
Proof.
  unfold is_idchar, is_idstart, is_upper, is_lower, is_digit. intro H.
  repeat rewrite orb_true_iff in H. repeat rewrite andb_true_iff in H.
  repeat rewrite N.leb_le in H. rewrite N.eqb_eq in H.
  repeat rewrite orb_false_iff. repeat rewrite N.eqb_neq. lia.
Qed.

Lemma esc_q_idchars w : forallb is_idchar w = true -> esc_q w = w.
Proof.
  induction w as [|c r IH]; [reflexivity|]. cbn [forallb]. intro H.
  apply andb_true_iff in H as [Hc Hr]. cbn [esc_q]. rewrite (idchar_not_special c Hc), (IH Hr). reflexivity.
Qed.

Lemma esc_q_ident w : ident_okb w = true -> esc_q w = w.
Proof.
  intro H. apply esc_q_idchars. destruct w as [|c r]; [discriminate|].
  cbn [ident_okb] in H. apply andb_true_iff in H as [Hc Hr]. cbn [forallb].
  rewrite (idstart_idchar c Hc), Hr. reflexivity.
Qed.

Theorem render_esc_frags fs e :
  idents_ok fs e -> render (esc_frags fs) e = esc_q (render fs e).
Proof.
  induction fs as [|f fs IH]; intro Hid; [reflexivity|].
  pose proof (IH (idents_ok_tail _ _ _ Hid)) as IH'.
  destruct f as [t|v [| |d]]; cbn [esc_frags map esc_frag render] in *; rewrite esc_q_app.
  - unfold esc_frags in IH'. rewrite IH'. reflexivity.
  - unfold esc_frags in IH'. rewrite IH'. rewrite (esc_q_ident (e v)); [reflexivity|].
    apply Hid. simpl. left; reflexivity.
  - unfold esc_frags in IH'. rewrite IH'. reflexivity.
  - unfold esc_frags in IH'. rewrite IH'. reflexivity.
Qed.

(* items: a fragment list as a sequence of characters and holes *)
Definition irender (e : env) (i : item) : str :=
  match i with IChar c => [c] | IHole v k => render [Hole v k] e end.

Lemma render_app a b e : render (a ++ b) e = render a e ++ render b e.
Proof.
  induction a as [|f a IH]; [reflexivity|].
  destruct f as [t|v [| |d]]; cbn [app render]; rewrite IH, app_assoc; reflexivity.
Qed.

Lemma concat_map_chars e s : concat (map (irender e) (map IChar s)) = s.
Proof. induction s as [|c r IH]; [reflexivity|]. cbn. rewrite IH. reflexivity. Qed.

Lemma render_items fs e : render fs e = concat (map (irender e) (items fs)).
Proof.
  induction fs as [|f fs IH]; [reflexivity|].
  destruct f as [t|v k]; cbn [items].
  - rewrite map_app, concat_app, concat_map_chars. cbn [render]. rewrite IH. reflexivity.
  - cbn [map concat]. rewrite <- IH. change (Hole v k :: fs) with ([Hole v k] ++ fs).
    rewrite render_app. reflexivity.
Qed.

Lemma hkind_eqb_eq a b : hkind_eqb a b = true -> a = b.
Proof.
  destruct a, b; simpl; intro H; try discriminate; try reflexivity.
  apply Nat.eqb_eq in H. subst. reflexivity.
Qed.

Lemma item_eqb_eq a b : item_eqb a b = true -> a = b.
Proof.
  destruct a, b; simpl; intro H; try discriminate.
  - apply N.eqb_eq in H. subst. reflexivity.
  - apply andb_true_iff in H as [H1 H2]. apply N.eqb_eq in H1. apply hkind_eqb_eq in H2. subst. reflexivity.
Qed.

Lemma prefixb_app a b : prefixb a b = true -> exists post, b = a ++ post.
Proof.
  revert b; induction a as [|x a IH]; intros b H.
  - exists b. reflexivity.
  - destruct b as [|y b]; [discriminate|]. cbn [prefixb] in H.
    apply andb_true_iff in H as [H1 H2]. apply item_eqb_eq in H1. subst.
    destruct (IH b H2) as [post Hp]. exists post. rewrite Hp. reflexivity.
Qed.

Lemma infixb_app a b : infixb a b = true -> exists pre post, b = pre ++ a ++ post.
Proof.
  induction b as [|y b IH]; intro H.
  - cbn [infixb] in H. rewrite orb_false_r in H. destruct (prefixb_app _ _ H) as [post Hp].
    exists [], post. exact Hp.
  - cbn [infixb] in H. apply orb_true_iff in H as [H|H].
    + destruct (prefixb_app _ _ H) as [post Hp]. exists [], post. exact Hp.
    + destruct (IH H) as [pre [post Hp]]. exists (y :: pre), post. rewrite Hp. reflexivity.
Qed.

(* the parent's text contains the escape of the nested statement's text, for every environment: the literal
   of the parent denotes (unesc_esc) exactly the nested statement *)
Theorem nested_in_denotes nf pf :
  nested_in nf pf = true ->
  forall e, idents_ok nf e -> exists a b, render pf e = a ++ esc_q (render nf e) ++ b.
Proof.
  unfold nested_in. intros H e Hid. destruct (infixb_app _ _ H) as [pre [post Hp]].
  exists (concat (map (irender e) pre)), (concat (map (irender e) post)).
  rewrite (render_items pf), Hp, !map_app, !concat_app, <- render_items, render_esc_frags by exact Hid.
  reflexivity.
Qed.

(* C19: soundness of the template checker.  If `tmpl_ok t` then for EVERY environment that fills the
   identifier-class holes with identifiers the rendered statement is well-formed, and its text does not
   depend on anything but those identifiers. *)
From Coq Require Import List NArith Bool Lia.
Import ListNotations.
From FIM Require Import Base.Str Model.Cypher19.
Open Scope N_scope.

Lemma scan_app s a b :
  scan s (a ++ b) = match scan s a with Some s' => scan s' b | None => None end.
Proof.
  revert s; induction a as [|c a IH]; intro s; simpl; [reflexivity|].
  destruct (step s c); [apply IH|reflexivity].
Qed.

Lemma set_mode_same s : set_mode (s_mode s) s = s.
Proof. destruct s; reflexivity. Qed.

Lemma idstart_idchar c : is_idstart c = true -> is_idchar c = true.
Proof. unfold is_idchar; intro H; rewrite H; reflexivity. Qed.

Lemma idstart_not_space c : is_idstart c = true -> is_space c = false.
Proof.
  unfold is_idstart, is_space, is_upper, is_lower. intro H.
  repeat rewrite orb_true_iff in H. repeat rewrite andb_true_iff in H.
  repeat rewrite N.leb_le in H. rewrite N.eqb_eq in H.
  repeat rewrite orb_false_iff. repeat rewrite N.eqb_neq. lia.
Qed.

(* in a position where the text of an identifier is irrelevant, scanning one identifier character ... *)
Lemma step_hole_first s c :
  hole_ok s = true -> is_idstart c = true -> step s c = Some (hole_next s).
Proof.
  unfold hole_ok, hole_next, step. intros Hok Hc.
  destruct (s_mode s) eqn:Hm; try discriminate.
  - unfold step_norm. rewrite (idstart_not_space c Hc), Hc, Hok. reflexivity.
  - rewrite (idstart_idchar c Hc). rewrite <- Hm, set_mode_same. reflexivity.
Qed.

Lemma scan_skip s r :
  s_mode s = MSkip -> forallb is_idchar r = true -> scan s r = Some s.
Proof.
  intro Hm. induction r as [|c r IH]; simpl; intro H; [reflexivity|].
  apply andb_true_iff in H as [Hc Hr]. unfold step. rewrite Hm, Hc. apply IH, Hr.
Qed.

(* ... or a whole identifier leads to one fixed state, whatever the identifier is *)
Lemma scan_ident s w :
  hole_ok s = true -> ident_okb w = true -> scan s w = Some (hole_next s).
Proof.
  intros Hok Hw. destruct w as [|c r]; [discriminate|]. simpl in Hw.
  apply andb_true_iff in Hw as [Hc Hr]. simpl. rewrite (step_hole_first s c Hok Hc).
  apply scan_skip; [destruct s; reflexivity|exact Hr].
Qed.

Lemma idents_ok_tail f fs e : idents_ok (f :: fs) e -> idents_ok fs e.
Proof.
  unfold idents_ok. intros H v Hv. apply H. destruct f as [t|v' [|]]; simpl; auto.
Qed.

Theorem tscan_sound : forall fs s s' e,
  tscan s fs = Some s' -> idents_ok fs e -> scan s (render fs e) = Some s'.
Proof.
  induction fs as [|f fs IH]; intros s s' e H Hid; simpl in *.
  - exact H.
  - destruct f as [t|v [|]].
    + rewrite scan_app. destruct (scan s t) as [s1|]; [|discriminate].
      apply IH; [exact H|exact (idents_ok_tail _ _ _ Hid)].
    + destruct (hole_ok s) eqn:Hok; [|discriminate].
      rewrite scan_app, (scan_ident s (e v) Hok).
      * apply IH; [exact H|exact (idents_ok_tail _ _ _ Hid)].
      * apply Hid. simpl. left; reflexivity.
    + discriminate.
Qed.

Lemma tscan_no_value : forall fs s s', tscan s fs = Some s' -> has_value_hole fs = false.
Proof.
  induction fs as [|f fs IH]; intros s s' H; simpl in *; [reflexivity|].
  destruct f as [t|v [|]].
  - destruct (scan s t); [eapply IH; eassumption|discriminate].
  - destruct (hole_ok s); [eapply IH; eassumption|discriminate].
  - discriminate.
Qed.

Theorem render_indep : forall fs e e',
  has_value_hole fs = false -> agree_on (ident_vars fs) e e' -> render fs e = render fs e'.
Proof.
  induction fs as [|f fs IH]; intros e e' Hv Ha; simpl in *; [reflexivity|].
  destruct f as [t|v [|]].
  - f_equal. apply IH; assumption.
  - rewrite (Ha v (or_introl eq_refl)). f_equal. apply IH; [assumption|].
    intros w Hw. apply Ha. right; exact Hw.
  - discriminate.
Qed.

Lemma tmpl_ok_inv t :
  tmpl_ok t = true ->
  t_params_known t = true /\ exists s, tscan init (t_frags t) = Some s /\ accept s (t_params t) = true.
Proof.
  unfold tmpl_ok. intro H. apply andb_true_iff in H as [Hk H]. split; [exact Hk|].
  destruct (tscan init (t_frags t)) as [s|]; [|discriminate]. exists s; split; [reflexivity|exact H].
Qed.

Theorem tmpl_ok_well_formed t :
  tmpl_ok t = true -> forall e, idents_ok (t_frags t) e -> wf_b (render (t_frags t) e) (t_params t) = true.
Proof.
  intros H e Hid. destruct (tmpl_ok_inv t H) as [_ [s [Hs Ha]]].
  unfold wf_b. rewrite (tscan_sound _ _ _ e Hs Hid). exact Ha.
Qed.

Theorem tmpl_ok_data_independent t :
  tmpl_ok t = true -> forall e e', agree_on (ident_vars (t_frags t)) e e' ->
  render (t_frags t) e = render (t_frags t) e'.
Proof.
  intros H e e' Ha. destruct (tmpl_ok_inv t H) as [_ [s [Hs _]]].
  apply render_indep; [exact (tscan_no_value _ _ _ Hs)|exact Ha].
Qed.

Theorem tmpl_ok_sound t :
  tmpl_ok t = true ->
  forall e e', idents_ok (t_frags t) e -> agree_on (ident_vars (t_frags t)) e e' ->
  render (t_frags t) e = render (t_frags t) e' /\
  wf_b (render (t_frags t) e) (t_params t) = true /\ wf_b (render (t_frags t) e') (t_params t) = true.
Proof.
  intros H e e' Hid Ha.
  pose proof (tmpl_ok_data_independent t H e e' Ha) as Heq.
  pose proof (tmpl_ok_well_formed t H e Hid) as Hwf.
  split; [exact Heq|]. split; [exact Hwf|]. rewrite <- Heq. exact Hwf.
Qed.

(* the boolean form of idents_ok used by the correspondence *)
Lemma idents_okb_ok fs e : idents_okb fs e = true -> idents_ok fs e.
Proof.
  unfold idents_okb, idents_ok. intros H v Hv. rewrite forallb_forall in H. exact (H v Hv).
Qed.

(* what well-formedness gives, in terms of the final scanner state *)
Theorem wf_b_inv text ps :
  wf_b text ps = true ->
  exists s, final_state text = Some s /\ s_mode s = MNorm /\ s_stack s = [] /\
            subset (s_params s) ps = true /\ subset (s_uses s) (s_binds s) = true.
Proof.
  unfold wf_b, final_state, accept. destruct (scan init text) as [s|]; [|discriminate].
  destruct (step s 32) as [s1|]; [|discriminate]. intro H.
  exists (resolve s1). split; [reflexivity|].
  destruct (s_mode (resolve s1)); try discriminate.
  destruct (s_stack (resolve s1)); try discriminate.
  apply andb_true_iff in H as [H1 H2]. repeat split; assumption.
Qed.

Lemma mem_In x l : mem x l = true <-> In x l.
Proof.
  unfold mem. rewrite existsb_exists. split.
  - intros [y [Hy He]]. apply str_eqb_eq in He. subst. exact Hy.
  - intro H. exists x. split; [exact H|apply str_eqb_refl].
Qed.

Lemma subset_In a b : subset a b = true <-> (forall x, In x a -> In x b).
Proof.
  unfold subset. rewrite forallb_forall. split; intros H x Hx.
  - apply mem_In. apply H, Hx.
  - apply mem_In. apply H, Hx.
Qed.

(* ------------------------------------------------------------------------------------------- *)
(* a correctly escaped quoted literal: the scanner state after it does not depend on the value   *)
(* ------------------------------------------------------------------------------------------- *)
Definition after_literal (s : sstate) : sstate := set_pv POther (set_mode MNorm (resolve s)).

Lemma step_sq_bs s : s_mode s = MSq -> step s 92 = Some (set_mode MSqE s).
Proof. intro Hm. unfold step. rewrite Hm. reflexivity. Qed.

Lemma step_sqe s c : s_mode s = MSqE -> step s c = Some (set_mode MSq s).
Proof. intro Hm. unfold step. rewrite Hm. reflexivity. Qed.

Lemma step_sq_other s c :
  s_mode s = MSq -> (c =? 92) = false -> (c =? 39) = false -> step s c = Some s.
Proof. intros Hm H1 H2. unfold step. rewrite Hm, H1, H2. reflexivity. Qed.

Lemma scan_esc_body s v :
  s_mode s = MSq -> scan s (esc_sq v) = Some s.
Proof.
  intro Hm. induction v as [|c r IH]; [reflexivity|].
  cbn [esc_sq]. destruct ((c =? 92) || (c =? 39)) eqn:Hc.
  - cbn [scan]. rewrite (step_sq_bs s Hm).
    rewrite (step_sqe (set_mode MSqE s) c) by (destruct s; reflexivity).
    replace (set_mode MSq (set_mode MSqE s)) with s by (destruct s; simpl in Hm; subst; reflexivity).
    exact IH.
  - apply orb_false_iff in Hc as [H1 H2]. cbn [scan]. rewrite (step_sq_other s c Hm H1 H2). exact IH.
Qed.

Theorem scan_quoted_literal s v :
  s_mode s = MNorm -> is_keyctx (s_pv s) = false ->
  scan s (quoted_literal v) = Some (after_literal s).
Proof.
  intros Hm Hk. unfold quoted_literal. cbn [scan].
  assert (H1 : step s 39 = Some (set_mode MSq (resolve s))).
  { unfold step. rewrite Hm. unfold step_norm. rewrite Hk. reflexivity. }
  rewrite H1, scan_app.
  rewrite scan_esc_body by (destruct (resolve s); reflexivity).
  cbn [scan]. unfold step.
  replace (s_mode (set_mode MSq (resolve s))) with MSq by (destruct (resolve s); reflexivity).
  cbn. unfold after_literal. destruct (resolve s); reflexivity.
Qed.

Theorem escaped_literal_wf pre post ps v v' s :
  scan init pre = Some s -> s_mode s = MNorm -> is_keyctx (s_pv s) = false ->
  wf_b (pre ++ quoted_literal v ++ post) ps = wf_b (pre ++ quoted_literal v' ++ post) ps.
Proof.
  intros Hs Hm Hk. unfold wf_b.
  rewrite !scan_app, Hs, !scan_app, !(scan_quoted_literal s _ Hm Hk). reflexivity.
Qed.

(* C03: lemmas on insertion-ordered association lists (aget / aset / filter / sort) used by the codec proofs *)
From Coq Require Import String List NArith ZArith Bool Lia Permutation.
From FIM Require Import Base.Str Base.Json Base.JsonRT.
Import ListNotations.

Lemma str_eqb_spec a b : reflect (a = b) (str_eqb a b).
Proof.
  destruct (str_eqb a b) eqn:E; constructor.
  - apply str_eqb_eq. exact E.
  - intro H. apply str_eqb_eq in H. congruence.
Qed.

Lemma aget_aset {V} k k' (v : V) m : aget k' (aset k v m) = if str_eqb k' k then Some v else aget k' m.
Proof.
  induction m as [|[k0 v0] m IH]; simpl.
  - reflexivity.
  - destruct (str_eqb_spec k k0) as [->|N]; simpl.
    + destruct (str_eqb_spec k' k0); reflexivity.
    + rewrite IH. destruct (str_eqb_spec k' k0) as [->|N2]; [|reflexivity].
      destruct (str_eqb_spec k0 k); [congruence|reflexivity].
Qed.

Lemma ahas_in {V} k (m : list (str * V)) : ahas k m = true <-> In k (map fst m).
Proof.
  unfold ahas. induction m as [|[k0 v0] m IH]; simpl.
  - split; [discriminate|tauto].
  - destruct (str_eqb_spec k k0) as [->|N].
    + split; intros; [left; reflexivity|reflexivity].
    + split.
      * intro H. right. apply IH. exact H.
      * intros [H|H]; [congruence|apply IH; exact H].
Qed.

Lemma aget_none_notin {V} k (m : list (str * V)) : aget k m = None <-> ~ In k (map fst m).
Proof.
  rewrite <- ahas_in. unfold ahas. destruct (aget k m); split; try congruence; try discriminate.
Qed.

Lemma keys_aset_known {V} k (v : V) m : ahas k m = true -> map fst (aset k v m) = map fst m.
Proof.
  unfold ahas. induction m as [|[k0 v0] m IH]; simpl; [discriminate|].
  destruct (str_eqb_spec k k0) as [->|N]; simpl; [reflexivity|].
  intro H. rewrite IH; [reflexivity|exact H].
Qed.

Lemma ahas_aset {V} k k' (v : V) m : ahas k' m = true -> ahas k' (aset k v m) = true.
Proof.
  unfold ahas. rewrite aget_aset. destruct (str_eqb k' k); [reflexivity|tauto].
Qed.

Definition aset_all {V} (kw m : list (str * V)) : list (str * V) :=
  fold_left (fun o kv => aset (fst kv) (snd kv) o) kw m.

Lemma aset_all_get {V} (kw : list (str * V)) : forall m k', NoDup (map fst kw) ->
  aget k' (aset_all kw m) = match aget k' kw with Some v => Some v | None => aget k' m end.
Proof.
  unfold aset_all. induction kw as [|[k v] kw IH]; intros m k' ND; simpl; [reflexivity|].
  inversion ND as [|? ? Hn ND']; subst.
  rewrite IH by exact ND'. rewrite aget_aset.
  destruct (str_eqb_spec k' k) as [->|N]; [|reflexivity].
  apply aget_none_notin in Hn. rewrite Hn. reflexivity.
Qed.

Lemma aset_all_keys {V} (kw : list (str * V)) : forall m, (forall kv, In kv kw -> ahas (fst kv) m = true) ->
  map fst (aset_all kw m) = map fst m.
Proof.
  unfold aset_all. induction kw as [|[k v] kw IH]; intros m H; simpl; [reflexivity|].
  rewrite IH.
  - apply keys_aset_known. apply (H (k, v)). left. reflexivity.
  - intros kv Hin. apply ahas_aset. apply H. right. exact Hin.
Qed.

Lemma assoc_ext {V} (a : list (str * V)) : forall b, map fst a = map fst b -> NoDup (map fst a) ->
  (forall k, aget k a = aget k b) -> a = b.
Proof.
  induction a as [|[k v] a IH]; intros b HK ND HG; destruct b as [|[k2 v2] b]; try discriminate; [reflexivity|].
  simpl in HK. inversion HK as [[Hk HK']]. subst k2. inversion ND as [|? ? Hn ND']; subst.
  pose proof (HG k) as G. simpl in G. rewrite str_eqb_refl in G. inversion G as [Gv]. subst v2.
  f_equal. apply IH; [exact HK'|exact ND'|].
  intro k'. pose proof (HG k') as G'. simpl in G'.
  destruct (str_eqb_spec k' k) as [E|N]; [|exact G']. rewrite E.
  assert (Ha : aget k a = None) by (apply aget_none_notin; exact Hn).
  assert (Hb : aget k b = None) by (apply aget_none_notin; rewrite <- HK'; exact Hn).
  rewrite Ha, Hb. reflexivity.
Qed.

Lemma aget_in {V} k (v : V) m : aget k m = Some v -> In (k, v) m.
Proof.
  induction m as [|[k0 v0] m IH]; simpl; [discriminate|].
  destruct (str_eqb_spec k k0) as [->|N].
  - intros [= ->]. left. reflexivity.
  - intro H. right. exact (IH H).
Qed.

Lemma in_aget {V} k (v : V) m : NoDup (map fst m) -> In (k, v) m -> aget k m = Some v.
Proof.
  induction m as [|[k0 v0] m IH]; simpl; [tauto|]. intros ND [H|H].
  - injection H as -> ->. rewrite str_eqb_refl. reflexivity.
  - inversion ND as [|? ? Hn ND']; subst.
    destruct (str_eqb_spec k k0) as [->|N].
    + exfalso. apply Hn. apply in_map_iff. exists (k0, v). split; [reflexivity|exact H].
    + exact (IH ND' H).
Qed.

Lemma aget_perm {V} (a b : list (str * V)) k : Permutation a b -> NoDup (map fst a) -> aget k a = aget k b.
Proof.
  intros HP ND.
  assert (NDb : NoDup (map fst b)) by (eapply Permutation_NoDup; [apply Permutation_map; exact HP|exact ND]).
  destruct (aget k a) as [v|] eqn:E.
  - symmetry. apply in_aget; [exact NDb|]. eapply Permutation_in; [exact HP|]. apply aget_in. exact E.
  - symmetry. apply aget_none_notin. apply aget_none_notin in E. intro H. apply E.
    eapply Permutation_in; [apply Permutation_sym; apply Permutation_map; exact HP|exact H].
Qed.

Lemma aget_filter {V} (p : V -> bool) k (m : list (str * V)) : NoDup (map fst m) ->
  aget k (filter (fun kv => p (snd kv)) m) = match aget k m with Some v => if p v then Some v else None | None => None end.
Proof.
  induction m as [|[k0 v0] m IH]; simpl; [reflexivity|]. intro ND. inversion ND as [|? ? Hn ND']; subst.
  destruct (p v0) eqn:P; simpl.
  - destruct (str_eqb_spec k k0) as [->|N]; [rewrite P; reflexivity|exact (IH ND')].
  - rewrite (IH ND'). destruct (str_eqb_spec k k0) as [->|N]; [|reflexivity].
    apply aget_none_notin in Hn. rewrite Hn. rewrite P. reflexivity.
Qed.

Lemma filter_keys_NoDup {V} (p : str * V -> bool) (m : list (str * V)) : NoDup (map fst m) -> NoDup (map fst (filter p m)).
Proof.
  induction m as [|kv m IH]; simpl; [tauto|]. intro ND. inversion ND as [|? ? Hn ND']; subst.
  destruct (p kv); simpl; [|exact (IH ND')]. constructor; [|exact (IH ND')].
  intro H. apply Hn. apply in_map_iff in H as (x & E & Hx). apply filter_In in Hx as [Hx _].
  apply in_map_iff. exists x. split; assumption.
Qed.

Lemma list_eqb_str_eq a b : list_eqb str_eqb a b = true -> a = b.
Proof.
  revert b. induction a as [|x a IH]; intros b H; destruct b as [|y b]; try discriminate; [reflexivity|].
  simpl in H. apply andb_true_iff in H as [H1 H2]. apply str_eqb_eq in H1. rewrite (IH b H2). congruence.
Qed.

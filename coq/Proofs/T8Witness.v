(* C08 proofs, part 10: concrete graphs.  Non-vacuity of the hypotheses, and the witnesses of the
   statements that are FALSE of the faithful model (each is replayed on the real code by
   harness/c08.py: refuted_witnesses). *)
From Coq Require Import List NArith Bool Lia.
From FIM Require Import Model.T8Graph Model.T8Ops Proofs.T8Frame Proofs.T8Query Proofs.T8Sound Proofs.T8Complete
     Proofs.T8Handles.
Import ListNotations.
Open Scope N_scope.

(* G1: node n1 (1) with a SmartNIC (2, service 3, dedicated ports 4 and 5, sub-interface 6 on port 5);
   node n2 (10) with a shared NIC (11, service 12, port 13); top-level service net (7) with service ports
   8 (peer of port 4 over link 9), 14 (peer of port 13 over link 15), 16 (peer of sub-interface 6 over 17) *)
Definition G1 : graph := mkGraph
  [ mkNode 1 CNode 10 1 false 1; mkNode 2 CComp 11 2 false 1; mkNode 3 CNS 12 3 false 1;
    mkNode 4 CCP 4 4 false 1; mkNode 5 CCP 4 5 false 1; mkNode 6 CCP 5 6 false 1;
    mkNode 7 CNS 13 7 false 1; mkNode 8 CCP 1 8 false 1; mkNode 9 CLink 14 9 false 1;
    mkNode 10 CNode 10 10 false 1; mkNode 11 CComp 15 11 false 1; mkNode 12 CNS 12 12 false 1;
    mkNode 13 CCP 16 13 false 1; mkNode 14 CCP 1 14 false 1; mkNode 15 CLink 17 15 false 1;
    mkNode 16 CCP 1 16 false 1; mkNode 17 CLink 14 17 false 1 ]
  [ mkEdge 1 2 RHas; mkEdge 2 3 RHas; mkEdge 3 4 RConnects; mkEdge 3 5 RConnects; mkEdge 5 6 RConnects;
    mkEdge 7 8 RConnects; mkEdge 4 9 RConnects; mkEdge 8 9 RConnects;
    mkEdge 10 11 RHas; mkEdge 11 12 RHas; mkEdge 12 13 RConnects; mkEdge 7 14 RConnects;
    mkEdge 13 15 RConnects; mkEdge 14 15 RConnects; mkEdge 7 16 RConnects; mkEdge 6 17 RConnects;
    mkEdge 16 17 RConnects ].

Definition trace_of {A} (r : (A + exn) * st) : list N := sortN (snd (snd r)).
Definition ok_of {A} (r : (A + exn) * st) : bool := match fst r with inl _ => true | inr _ => false end.

(* removing n2: the node, its component, service and port, the peering service port 14 and link 15 *)
Example ex_remove_node_n2 :
  ok_of (run (exec true (ORemoveNode 10) []) G1) = true /\
  trace_of (run (exec true (ORemoveNode 10) []) G1) = [10; 11; 12; 13; 14; 15].
Proof. vm_compute. split; reflexivity. Qed.

Lemma link2_G1_15 : link2 G1 15 13 14.
Proof.
  split; [vm_compute; reflexivity|]. split; [discriminate|]. intros y.
  assert (E : cpn G1 15 = [13; 14]) by (vm_compute; reflexivity). rewrite E. simpl.
  split; [intros [H|[H|[]]]; auto | intros [H|H]; auto].
Qed.

Lemma link2_G1_17 : link2 G1 17 6 16.
Proof.
  split; [vm_compute; reflexivity|]. split; [discriminate|]. intros y.
  assert (E : cpn G1 17 = [6; 16]) by (vm_compute; reflexivity). rewrite E. simpl.
  split; [intros [H|[H|[]]]; auto | intros [H|H]; auto].
Qed.

(* sub-interface 6 hangs on port 5 alone *)
Lemma sole_G1_5_6 : sole G1 5 6.
Proof.
  assert (E1 : cpn G1 5 = [6]) by (vm_compute; reflexivity).
  assert (E2 : cpn G1 6 = [5]) by (vm_compute; reflexivity).
  unfold sole. rewrite E1, E2. simpl. split; [auto|]. split; [auto|]. intros y [H|[]]. auto.
Qed.

(* REFUTED: "the service port peering with a deleted interface is deleted with it".
   Removing n1 deletes the sub-interface 6 and its peering link 17, and leaves service port 16. *)
Example artefact_ports_deleted_refuted :
  exists g nm r g' tr l i sp,
    run (exec true (ORemoveNode nm) []) g = (inl r, (g', tr)) /\
    link2 g l i sp /\ type_of g sp = T_ServicePort /\ In i tr /\ ~ In sp tr.
Proof.
  set (R := run (exec true (ORemoveNode 1) []) G1).
  exists G1, 1, (match fst R with inl r => r | inr _ => [] end), (fst (snd R)), (snd (snd R)), 17, 6, 16.
  split; [vm_compute; reflexivity|]. split; [exact link2_G1_17|]. split; [reflexivity|].
  split.
  - vm_compute. tauto.
  - vm_compute. intros H. repeat (destruct H as [H|H]; [discriminate|]). exact H.
Qed.

(* hypotheses of handles_disconnect hold for "net.disconnect_interface(port 13)" *)
Example ex_disconnect_hyps :
  class_of G1 7 = CNS /\ sortN (cpn G1 7) = [8; 14; 16] /\ get_peers G1 13 = Some [14] /\ cpn G1 14 = [] /\
  ok_of (run (exec true (ODisconnect 7 13) [[8; 14; 16]]) G1) = true /\
  trace_of (run (exec true (ODisconnect 7 13) [[8; 14; 16]]) G1) = [14; 15].
Proof. vm_compute. repeat split; reflexivity. Qed.

(* G2: two peered services a (1), b (2): service ports 3 and 4 facing each other over link 5 *)
Definition G2 : graph := mkGraph
  [ mkNode 1 CNS 13 1 false 1; mkNode 2 CNS 13 2 false 1; mkNode 3 CCP 1 3 false 1; mkNode 4 CCP 1 4 false 1;
    mkNode 5 CLink 14 5 false 1 ]
  [ mkEdge 1 3 RConnects; mkEdge 2 4 RConnects; mkEdge 3 5 RConnects; mkEdge 4 5 RConnects ].

Example ex_unpeer_hyps :
  unpeer_ends G2 1 2 = Some [(3, 4)] /\ cpn G2 3 = [] /\ cpn G2 4 = [] /\ class_of G2 3 = CCP /\ class_of G2 4 = CCP /\
  cpn G2 1 = [3] /\ cpn G2 2 = [4] /\
  fst (run (exec true (OUnpeer 1 2) [[3]; [4]]) G2) = inl [[]; []] /\
  trace_of (run (exec true (OUnpeer 1 2) [[3]; [4]]) G2) = [3; 4; 5].
Proof. vm_compute. repeat split; reflexivity. Qed.

(* G3: services a (1) and b (2) do NOT peer; both are connected to interfaces (5, 7) of one node-side
   service (6): a - sp 3 - link 4 - 5 - 6 - 7 - link 8 - sp 9 - b *)
Definition G3 : graph := mkGraph
  [ mkNode 1 CNS 13 1 false 1; mkNode 2 CNS 13 2 false 1; mkNode 3 CCP 1 3 false 1; mkNode 4 CLink 14 4 false 1;
    mkNode 5 CCP 4 5 false 1; mkNode 6 CNS 12 6 false 1; mkNode 7 CCP 4 7 false 1; mkNode 8 CLink 14 8 false 1;
    mkNode 9 CCP 1 9 false 1 ]
  [ mkEdge 1 3 RConnects; mkEdge 3 4 RConnects; mkEdge 4 5 RConnects; mkEdge 5 6 RConnects; mkEdge 6 7 RConnects;
    mkEdge 7 8 RConnects; mkEdge 8 9 RConnects; mkEdge 2 9 RConnects ].

(* REFUTED: "unpeer of two services that share no peering link deletes nothing (it raises)" *)
Example unpeer_only_peered_refuted :
  exists g a b,
    (forall p, In p (cpn g a) -> forall l, In l (lks g p) -> forall q, In q (cpn g l) -> ~ In q (cpn g b)) /\
    fst (run (exec true (OUnpeer a b) [[3]; [9]]) g) = inl [[]; []] /\
    trace_of (run (exec true (OUnpeer a b) [[3]; [9]]) g) = [3; 4; 8; 9].
Proof.
  exists G3, 1, 2. split; [|vm_compute; split; reflexivity].
  assert (E1 : cpn G3 1 = [3]) by (vm_compute; reflexivity).
  assert (E2 : lks G3 3 = [4]) by (vm_compute; reflexivity).
  assert (E3 : cpn G3 4 = [3; 5]) by (vm_compute; reflexivity).
  assert (E4 : cpn G3 2 = [9]) by (vm_compute; reflexivity).
  rewrite E1, E4. intros p [<-|[]] l. rewrite E2. intros [<-|[]] q. rewrite E3.
  intros [<-|[<-|[]]] [H|[]]; discriminate.
Qed.

(* G4: interface 2 is linked (3) to another node interface 4, not to a service port *)
Definition G4 : graph := mkGraph
  [ mkNode 1 CNS 13 1 false 1; mkNode 2 CCP 4 2 false 1; mkNode 3 CLink 14 3 false 1; mkNode 4 CCP 4 4 false 1 ]
  [ mkEdge 2 3 RConnects; mkEdge 3 4 RConnects ].

(* REFUTED: "disconnect_interface only ever deletes a ServicePort (and its link)" *)
Example disconnect_only_service_port_refuted :
  exists g s i x, In x (snd (snd (run (exec true (ODisconnect s i) [[]]) g))) /\
                  class_of g x = CCP /\ type_of g x <> T_ServicePort.
Proof. exists G4, 1, 2, 4. vm_compute. split; [auto|]. split; [reflexivity | discriminate]. Qed.

(* G5 / G6: stale handle caches *)
Definition G5 : graph := mkGraph
  [ mkNode 1 CNS 13 1 false 1; mkNode 2 CCP 18 7 false 1 ] [ mkEdge 1 2 RConnects ].
Definition G6 : graph := mkGraph
  [ mkNode 1 CCP 4 1 false 1; mkNode 2 CCP 5 7 false 1 ] [ mkEdge 1 2 RConnects ].

(* REFUTED: "after NetworkService.remove_interface the handle's list equals a fresh look-up" *)
Example handles_remove_interface_refuted :
  exists g s nm c, same c (cpn g s) /\
    exists c' g' tr, run (exec false (ORemoveInterface s nm) [c]) g = (inl [c'], (g', tr)) /\ ~ same c' (cpn g' s).
Proof.
  exists G5, 1, 7, [2]. split; [intros y; vm_compute; tauto|].
  exists [2], (mkGraph [mkNode 1 CNS 13 1 false 1] []), [2]. split; [vm_compute; reflexivity|].
  intros H. destruct (proj1 (H 2)); simpl; auto.
Qed.

(* REFUTED: the same for Interface.remove_child_interface *)
Example handles_remove_child_refuted :
  exists g p nm c, same c (cpn g p) /\
    exists c' g' tr, run (exec true (ORemoveChild p nm) [c]) g = (inl [c'], (g', tr)) /\ ~ same c' (cpn g' p).
Proof.
  exists G6, 1, 7, [2]. split; [intros y; vm_compute; tauto|].
  exists [2], (mkGraph [mkNode 1 CCP 4 1 false 1] []), [2]. split; [vm_compute; reflexivity|].
  intros H. destruct (proj1 (H 2)); simpl; auto.
Qed.

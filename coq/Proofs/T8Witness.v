(* C08 proofs, part 10: concrete graphs.  Non-vacuity of the hypotheses of the theorems.  (The graphs G1, G3-G6
   were the witnesses of the five statements refuted before the fixes 4c6e5fb / 13b815d / edd75a8; the same
   scenarios now illustrate the repaired behaviour, and stay in corpus/C08/w_*.json for the harness.) *)
From Coq Require Import List NArith Bool Lia.
From FIM Require Import Model.T8Graph Model.T8Ops Proofs.T8Frame Proofs.T8Query Proofs.T8Sound Proofs.T8Complete
     Proofs.T8Handles Proofs.T8Fixed Proofs.T8Inv Proofs.T8Link Proofs.T8Prune Proofs.T8Art Proofs.T8Eq.
Import ListNotations.
Open Scope N_scope.

(* G1: node n1 (1) with a SmartNIC (2, service 3, dedicated ports 4 and 5, sub-interface 6 on port 5);
   node n2 (10) with a shared NIC (11, service 12, port 13); top-level service net (7) with service ports
   8 (peer of port 4 over link 9), 14 (peer of port 13 over link 15), 16 (peer of sub-interface 6 over 17) *)
Definition G1 : graph := mkGraph
  [ mkNode 1 CNode 10 1 false 1; mkNode 2 CComp 11 2 false 1; mkNode 3 CNS 12 3 false 1;
    mkNode 4 CCP 4 4 false 1; mkNode 5 CCP 4 5 false 1; mkNode 6 CCP 5 6 false 1;
    mkNode 7 CNS 13 7 false 1; mkNode 8 CCP 1 8 false 1; mkNode 9 CLink 14 9 false 1;
    mkNode 10 CNode 10 10 false 1; mkNode 11 CComp 15 11 false 1; mkNode 12 CNS 12 12 false 1;
    mkNode 13 CCP 16 13 false 1; mkNode 14 CCP 1 14 false 1; mkNode 15 CLink 17 15 false 1;
    mkNode 16 CCP 1 16 false 1; mkNode 17 CLink 14 17 false 1 ]
  [ mkEdge 1 2 RHas; mkEdge 2 3 RHas; mkEdge 3 4 RConnects; mkEdge 3 5 RConnects; mkEdge 5 6 RConnects;
    mkEdge 7 8 RConnects; mkEdge 4 9 RConnects; mkEdge 8 9 RConnects;
    mkEdge 10 11 RHas; mkEdge 11 12 RHas; mkEdge 12 13 RConnects; mkEdge 7 14 RConnects;
    mkEdge 13 15 RConnects; mkEdge 14 15 RConnects; mkEdge 7 16 RConnects; mkEdge 6 17 RConnects;
    mkEdge 16 17 RConnects ].

Definition trace_of {A} (r : (A + exn) * st) : list N := sortN (snd (snd r)).
Definition ok_of {A} (r : (A + exn) * st) : bool := match fst r with inl _ => true | inr _ => false end.

(* removing n2: the node, its component, service and port, the peering service port 14 and link 15 *)
Example ex_remove_node_n2 :
  ok_of (run (exec true (ORemoveNode 10) []) G1) = true /\
  trace_of (run (exec true (ORemoveNode 10) []) G1) = [10; 11; 12; 13; 14; 15].
Proof. vm_compute. split; reflexivity. Qed.

Lemma link2_G1_15 : link2 G1 15 13 14.
Proof.
  split; [vm_compute; reflexivity|]. split; [discriminate|]. intros y.
  assert (E : cpn G1 15 = [13; 14]) by (vm_compute; reflexivity). rewrite E. simpl.
  split; [intros [H|[H|[]]]; auto | intros [H|H]; auto].
Qed.

Lemma link2_G1_17 : link2 G1 17 6 16.
Proof.
  split; [vm_compute; reflexivity|]. split; [discriminate|]. intros y.
  assert (E : cpn G1 17 = [6; 16]) by (vm_compute; reflexivity). rewrite E. simpl.
  split; [intros [H|[H|[]]]; auto | intros [H|H]; auto].
Qed.

(* sub-interface 6 hangs on port 5 alone *)
Lemma sole_G1_5_6 : sole G1 5 6.
Proof.
  assert (E1 : cpn G1 5 = [6]) by (vm_compute; reflexivity).
  assert (E2 : cpn G1 6 = [5]) by (vm_compute; reflexivity).
  unfold sole. rewrite E1, E2. simpl. split; [auto|]. split; [auto|]. intros y [H|[]]. auto.
Qed.

(* removing n1: the connected sub-interface 6 is disconnected too - service ports 8 and 16 and links 9, 17 go *)
Example ex_remove_node_n1 :
  ok_of (run (exec true (ORemoveNode 1) []) G1) = true /\
  trace_of (run (exec true (ORemoveNode 1) []) G1) = [1; 2; 3; 4; 5; 6; 8; 9; 16; 17] /\
  sortN (disc_list G1 (node_interface_list G1 1)) = [4; 5; 6] /\ topo_nodes G1 1 = [1] /\
  type_of G1 16 = T_ServicePort.
Proof. vm_compute. repeat split; reflexivity. Qed.

(* hypotheses of handles_disconnect hold for "net.disconnect_interface(port 13)" *)
Example ex_disconnect_hyps :
  class_of G1 7 = CNS /\ sortN (cpn G1 7) = [8; 14; 16] /\ get_peers_typed G1 13 T_ServicePort = Some [14] /\ cpn G1 14 = [] /\
  ok_of (run (exec true (ODisconnect 7 13) [[8; 14; 16]]) G1) = true /\
  trace_of (run (exec true (ODisconnect 7 13) [[8; 14; 16]]) G1) = [14; 15].
Proof. vm_compute. repeat split; reflexivity. Qed.

(* G2: two peered services a (1), b (2): service ports 3 and 4 facing each other over link 5 *)
Definition G2 : graph := mkGraph
  [ mkNode 1 CNS 13 1 false 1; mkNode 2 CNS 13 2 false 1; mkNode 3 CCP 1 3 false 1; mkNode 4 CCP 1 4 false 1;
    mkNode 5 CLink 14 5 false 1 ]
  [ mkEdge 1 3 RConnects; mkEdge 2 4 RConnects; mkEdge 3 5 RConnects; mkEdge 4 5 RConnects ].

Example ex_unpeer_hyps :
  unpeer_ends G2 1 2 = Some [(3, 4)] /\ cpn G2 3 = [] /\ cpn G2 4 = [] /\ class_of G2 3 = CCP /\ class_of G2 4 = CCP /\
  cpn G2 1 = [3] /\ cpn G2 2 = [4] /\
  fst (run (exec true (OUnpeer 1 2) [[3]; [4]]) G2) = inl [[]; []] /\
  trace_of (run (exec true (OUnpeer 1 2) [[3]; [4]]) G2) = [3; 4; 5].
Proof. vm_compute. repeat split; reflexivity. Qed.

(* G3: services a (1) and b (2) do NOT peer; both are connected to interfaces (5, 7) of one node-side
   service (6): a - sp 3 - link 4 - 5 - 6 - 7 - link 8 - sp 9 - b *)
Definition G3 : graph := mkGraph
  [ mkNode 1 CNS 13 1 false 1; mkNode 2 CNS 13 2 false 1; mkNode 3 CCP 1 3 false 1; mkNode 4 CLink 14 4 false 1;
    mkNode 5 CCP 4 5 false 1; mkNode 6 CNS 12 6 false 1; mkNode 7 CCP 4 7 false 1; mkNode 8 CLink 14 8 false 1;
    mkNode 9 CCP 1 9 false 1 ]
  [ mkEdge 1 3 RConnects; mkEdge 3 4 RConnects; mkEdge 4 5 RConnects; mkEdge 5 6 RConnects; mkEdge 6 7 RConnects;
    mkEdge 7 8 RConnects; mkEdge 8 9 RConnects; mkEdge 2 9 RConnects ].

(* not peered: no chain of four connects edges from a to b; unpeer raises and deletes nothing *)
Example ex_unpeer_not_peered :
  chains4 G3 1 2 = [] /\ unpeer_ends G3 1 2 = None /\
  fst (run (exec true (OUnpeer 1 2) [[3]; [9]]) G3) = inr ETopology /\
  trace_of (run (exec true (OUnpeer 1 2) [[3]; [9]]) G3) = [].
Proof. vm_compute. repeat split; reflexivity. Qed.

Lemma G3_not_peered : forall x m y, In x (cn G3 1) -> In m (cn G3 x) -> In y (cn G3 m) -> ~ In 2 (cn G3 y).
Proof.
  assert (E1 : cn G3 1 = [3]) by (vm_compute; reflexivity).
  assert (E3 : cn G3 3 = [1; 4]) by (vm_compute; reflexivity).
  assert (E1' : cn G3 1 = [3]) by exact E1.
  assert (E4 : cn G3 4 = [3; 5]) by (vm_compute; reflexivity).
  assert (E5 : cn G3 5 = [4; 6]) by (vm_compute; reflexivity).
  intros x m y Hx. rewrite E1 in Hx. destruct Hx as [<-|[]]. rewrite E3. intros [<-|[<-|[]]].
  - rewrite E1'. intros [<-|[]]. rewrite E3. simpl. intuition discriminate.
  - rewrite E4. intros [<-|[<-|[]]]; [rewrite E3 | rewrite E5]; simpl; intuition discriminate.
Qed.

(* G4: interface 2 is linked (3) to another node interface 4, not to a service port *)
Definition G4 : graph := mkGraph
  [ mkNode 1 CNS 13 1 false 1; mkNode 2 CCP 4 2 false 1; mkNode 3 CLink 14 3 false 1; mkNode 4 CCP 4 4 false 1 ]
  [ mkEdge 2 3 RConnects; mkEdge 3 4 RConnects ].

(* the peer of interface 2 is not a ServicePort: disconnect_interface returns and deletes nothing *)
Example ex_disconnect_non_service_port :
  fst (run (exec true (ODisconnect 1 2) [[]]) G4) = inl [[]] /\ trace_of (run (exec true (ODisconnect 1 2) [[]]) G4) = [].
Proof. vm_compute. split; reflexivity. Qed.

(* G5 / G6: stale handle caches *)
Definition G5 : graph := mkGraph
  [ mkNode 1 CNS 13 1 false 1; mkNode 2 CCP 18 7 false 1 ] [ mkEdge 1 2 RConnects ].
Definition G6 : graph := mkGraph
  [ mkNode 1 CCP 4 1 false 1; mkNode 2 CCP 5 7 false 1 ] [ mkEdge 1 2 RConnects ].

(* the handle lists follow the removal; the hypotheses of handles_remove_interface / handles_remove_child hold *)
Example ex_remove_interface_handle :
  class_of G5 1 = CNS /\ cpn G5 1 = [2] /\ cpn G5 2 = [] /\
  fst (run (exec false (ORemoveInterface 1 7) [[2]]) G5) = inl [[]].
Proof. vm_compute. repeat split; reflexivity. Qed.

Example ex_remove_child_handle :
  cpn G6 1 = [2] /\ peer_cps G6 2 = [] /\
  fst (run (exec true (ORemoveChild 1 7) [[2]]) G6) = inl [[]].
Proof. vm_compute. repeat split; reflexivity. Qed.

(* G7: a NIC's own service (1) with its physical port 2, connected over link 3 to service port 4 of service 5:
   a chain of four connects edges exists, but its end 2 is not a ServicePort: unpeer raises (fix 0d94156) *)
Definition G7 : graph := mkGraph
  [ mkNode 1 CNS 12 1 false 1; mkNode 2 CCP 4 2 false 1; mkNode 3 CLink 14 3 false 1; mkNode 4 CCP 1 4 false 1;
    mkNode 5 CNS 13 5 false 1 ]
  [ mkEdge 1 2 RConnects; mkEdge 2 3 RConnects; mkEdge 3 4 RConnects; mkEdge 4 5 RConnects ].

Example ex_unpeer_node_port :
  unpeer_ends G7 1 5 = Some [(2, 4)] /\ both_sp G7 (2, 4) = false /\
  fst (run (exec true (OUnpeer 1 5) [[2]; [4]]) G7) = inr ETopology /\
  trace_of (run (exec true (OUnpeer 1 5) [[2]; [4]]) G7) = [].
Proof. vm_compute. repeat split; reflexivity. Qed.

(* removing the peered service 1 of G2 through the API: the other service's port 4 goes too (fix 18b6247) *)
Example ex_remove_peered_service :
  by_name G2 CNS 1 = [1] /\ disc_list G2 (cpn G2 1) = [3] /\ type_of G2 4 = T_ServicePort /\
  ok_of (run (exec true (ORemoveNsTopo 1) []) G2) = true /\
  trace_of (run (exec true (ORemoveNsTopo 1) []) G2) = [1; 3; 4; 5].
Proof. vm_compute. repeat split; reflexivity. Qed.

Lemma link2_G2_5 : link2 G2 5 3 4.
Proof.
  split; [vm_compute; reflexivity|]. split; [discriminate|]. intros y.
  assert (E : cpn G2 5 = [3; 4]) by (vm_compute; reflexivity). rewrite E. simpl.
  split; [intros [H|[H|[]]]; auto | intros [H|H]; auto].
Qed.

(* removing the peering link 5 of G2 by hand is refused (fix 65db950) *)
Example ex_remove_peering_link :
  by_name G2 CLink 5 = [5] /\ link_has_service_port G2 5 = true /\
  fst (run (exec true (ORemoveLink 5) []) G2) = inr ETopology /\ trace_of (run (exec true (ORemoveLink 5) []) G2) = [].
Proof. vm_compute. repeat split; reflexivity. Qed.

(* the interfaces of n1 in G1 are not connected to each other *)
Lemma G1_self_peer_free : self_peer_free G1 (ORemoveNode 1) 6.
Proof.
  unfold self_peer_free, disc_ifs. intros jj [n [Hn Hjj]].
  assert (E1 : topo_nodes G1 1 = [1]) by (vm_compute; reflexivity). rewrite E1 in Hn. destruct Hn as [<-|[]].
  assert (E2 : disc_list G1 (node_interface_list G1 1) = [4; 5; 6]) by (vm_compute; reflexivity).
  rewrite E2 in Hjj.
  assert (P4 : peer_cps G1 4 = [8]) by (vm_compute; reflexivity).
  assert (P5 : peer_cps G1 5 = []) by (vm_compute; reflexivity).
  assert (P6 : peer_cps G1 6 = [16]) by (vm_compute; reflexivity).
  assert (C8 : cpn G1 8 = []) by (vm_compute; reflexivity).
  assert (C16 : cpn G1 16 = []) by (vm_compute; reflexivity).
  destruct Hjj as [<-|[<-|[<-|[]]]].
  - rewrite P4. split; [simpl; intuition discriminate|]. intros p [<-|[]] _. rewrite C8. intros [].
  - rewrite P5. split; [intros []|]. intros p [].
  - rewrite P6. split; [simpl; intuition discriminate|]. intros p [<-|[]] _. rewrite C16. intros [].
Qed.

(* G8: "peered AND connected": node-level service 1 has port 2, connected over link 3 to service port 4 of service 5;
   the two services also peer: service port 6 of 1 - link 7 - service port 8 of 5.  Two 5-node connects paths. *)
Definition G8 : graph := mkGraph
  [ mkNode 1 CNS 12 1 false 1; mkNode 2 CCP 19 2 false 1; mkNode 3 CLink 14 3 false 1; mkNode 4 CCP 1 4 false 1;
    mkNode 5 CNS 13 5 false 1; mkNode 6 CCP 1 6 false 1; mkNode 7 CLink 14 7 false 1; mkNode 8 CCP 1 8 false 1 ]
  [ mkEdge 1 2 RConnects; mkEdge 2 3 RConnects; mkEdge 3 4 RConnects; mkEdge 4 5 RConnects;
    mkEdge 1 6 RConnects; mkEdge 6 7 RConnects; mkEdge 7 8 RConnects; mkEdge 5 8 RConnects ].

(* the shortest-path unpeer has two candidate paths (which one networkx takes decides between success and
   "do not peer"); the rewrite of C08-6 finds the one peering pair and removes exactly it *)
Example ex_unpeer6_peered_and_connected :
  (exists l, unpeer_ends G8 1 5 = Some l /\ length l = 2%nat) /\
  fst (run (exec true (OUnpeer 1 5) [[2; 6]; [4; 8]]) G8) = inr EAmbig /\
  unpeer_pairs G8 1 5 = [(6, 8)] /\ cpn G8 6 = [] /\ cpn G8 8 = [] /\ class_of G8 1 = CNS /\
  fst (run (exec true (OUnpeer6 1 5) [[2; 6]; [4; 8]]) G8) = inl [[2]; [4]] /\
  trace_of (run (exec true (OUnpeer6 1 5) [[2; 6]; [4; 8]]) G8) = [6; 7; 8].
Proof. split; [eexists; split; vm_compute; reflexivity|]. vm_compute. repeat split; reflexivity. Qed.

(* G7 (a NIC's own service vs the service its port is connected to): no pair, C08-6 raises as well *)
Example ex_unpeer6_node_port :
  unpeer_pairs G7 1 5 = [] /\ fst (run (exec true (OUnpeer6 1 5) [[2]; [4]]) G7) = inr ETopology.
Proof. vm_compute. split; reflexivity. Qed.

(* ---- links of three ends ---- *)
(* G10: link 1 with three ends 2, 3, 4; each end is the port of its own node-level service (5, 6, 7) *)
Definition G10 : graph := mkGraph
  [ mkNode 1 CLink 14 1 false 1; mkNode 2 CCP 16 2 false 1; mkNode 3 CCP 16 3 false 1; mkNode 4 CCP 16 4 false 1;
    mkNode 5 CNS 12 5 false 1; mkNode 6 CNS 12 6 false 1; mkNode 7 CNS 12 7 false 1 ]
  [ mkEdge 1 2 RConnects; mkEdge 1 3 RConnects; mkEdge 1 4 RConnects;
    mkEdge 5 2 RConnects; mkEdge 6 3 RConnects; mkEdge 7 4 RConnects ].

Lemma WL_G10 : WL G10.
Proof. apply wlb_sound. vm_compute. reflexivity. Qed.
Lemma WL_G1 : WL G1.
Proof. apply wlb_sound. vm_compute. reflexivity. Qed.

(* removing service 5 takes end 2: two ends survive, the link stays; then removing service 6 too: one end survives,
   the link goes (computed here on the graph after the first removal) *)
Example ex_three_end_link :
  trace_of (run (exec false (ORemoveNsTopo 5) []) G10) = [2; 5] /\
  trace_of (run (exec false (ORemoveNsTopo 6) []) (fst (snd (run (exec false (ORemoveNsTopo 5) []) G10)))) = [1; 3; 6].
Proof. vm_compute. split; reflexivity. Qed.

(* G11: WL fails - port 2 of service 1 and its sub-interface 3 are BOTH ends of link 4 (third end: 5).  Removing the
   port takes 2 and 3 in one call after one test "exactly two?" (no: three): the link stays with a single end. *)
Definition G11 : graph := mkGraph
  [ mkNode 1 CNS 12 1 false 1; mkNode 2 CCP 4 2 false 1; mkNode 3 CCP 5 3 false 1; mkNode 4 CLink 14 4 false 1;
    mkNode 5 CCP 16 5 false 1 ]
  [ mkEdge 1 2 RConnects; mkEdge 2 3 RConnects; mkEdge 2 4 RConnects; mkEdge 3 4 RConnects; mkEdge 4 5 RConnects ].

Example link_iff_needs_WL :
  wlb G11 = false /\
  ok_of (run (exec false (ORemoveInterface 1 2) [[2]]) G11) = true /\
  trace_of (run (exec false (ORemoveInterface 1 2) [[2]]) G11) = [2; 3] /\
  class_of G11 4 = CLink /\ sortN (cpn G11 4) = [2; 3; 5] /\
  surv (snd (snd (run (exec false (ORemoveInterface 1 2) [[2]]) G11))) (cpn G11 4) = [5].
Proof. vm_compute. repeat split; reflexivity. Qed.

(* G12: node 1 with two node-level services 2 and 3 that PEER WITH EACH OTHER: service port 4 of 2 - link 6 - service
   port 5 of 3.  remove_node: the loop disconnects 4 (deleting its peer 5 and the link) and then SKIPS 5 (fix 5286851);
   the hypothesis self_peer_free of C08_artefact_ports_deleted fails for ii = 5, WP holds, and the port 4 across the
   link from the skipped 5 is deleted with the node *)
Definition G12 : graph := mkGraph
  [ mkNode 1 CNode 10 1 false 1; mkNode 2 CNS 12 2 false 1; mkNode 3 CNS 12 3 false 1;
    mkNode 4 CCP 1 4 false 1; mkNode 5 CCP 1 5 false 1; mkNode 6 CLink 14 6 false 1 ]
  [ mkEdge 1 2 RHas; mkEdge 1 3 RHas; mkEdge 2 4 RConnects; mkEdge 3 5 RConnects; mkEdge 4 6 RConnects; mkEdge 5 6 RConnects ].

Lemma WP_G12 : WP G12.
Proof. apply wpb_sound. vm_compute. reflexivity. Qed.
Lemma WP_G1 : WP G1.
Proof. apply wpb_sound. vm_compute. reflexivity. Qed.

Lemma link2_G12 : link2 G12 6 5 4.
Proof.
  split; [vm_compute; reflexivity|]. split; [discriminate|]. intros y.
  assert (E : cpn G12 6 = [4; 5]) by (vm_compute; reflexivity). rewrite E. simpl.
  split; [intros [H|[H|[]]]; auto | intros [H|H]; auto].
Qed.

Example ex_own_services_peer :
  ok_of (run (exec true (ORemoveNode 1) []) G12) = true /\
  trace_of (run (exec true (ORemoveNode 1) []) G12) = [1; 2; 3; 4; 5; 6] /\
  topo_nodes G12 1 = [1] /\ sortN (disc_list G12 (node_interface_list G12 1)) = [4; 5] /\
  peer_cps G12 4 = [5] /\ type_of G12 4 = T_ServicePort.
Proof. vm_compute. repeat split; reflexivity. Qed.

Lemma WQ_G1 : WQ G1.
Proof. apply wqb_sound. vm_compute. reflexivity. Qed.
Lemma WQ_G12 : WQ G12.
Proof. apply wqb_sound. vm_compute. reflexivity. Qed.
Lemma WQ_G10 : WQ G10.
Proof. apply wqb_sound. vm_compute. reflexivity. Qed.

(* G13: dedicated port 2 of service 1 with its ONLY sub-interface 3, marked (nmark); the port is connected to service
   port 5 of service 6 over link 4.  The prune of proposed_fixes/C08-8 removes the sub-interface and nothing else - the
   port above it is not owned by it; prune before C08-8 does not visit the sub-interface at all. *)
Definition G13 : graph := mkGraph
  [ mkNode 1 CNS 12 1 false 1; mkNode 2 CCP 4 2 false 1; mkNode 3 CCP 5 3 true 1; mkNode 4 CLink 14 4 false 1;
    mkNode 5 CCP 1 5 false 1; mkNode 6 CNS 13 6 false 1 ]
  [ mkEdge 1 2 RConnects; mkEdge 2 3 RConnects; mkEdge 2 4 RConnects; mkEdge 4 5 RConnects; mkEdge 5 6 RConnects ].

Example ex_prune_only_child :
  trace_of (run (exec true OPrune7 []) G13) = [] /\
  ok_of (run (exec true OPrune8 []) G13) = true /\
  trace_of (run (exec true OPrune8 []) G13) = [3] /\
  with_children G13 2 = [2; 3] /\ marked G13 3 = true.
Proof. vm_compute. repeat split; reflexivity. Qed.

(* G14: Facility node 1 (marked) with service 2 and port 3, the port connected to service port 5 of service 6 over link
   4.  Topology.nodes leaves Facility nodes out: prune before proposed_fixes/C08-9 does not visit node 1 and deletes
   nothing; afterwards it removes the facility with what it owns and the peering artefacts (link 4, service port 5),
   and service 6 stays. *)
Definition G14 : graph := mkGraph
  [ mkNode 1 CNode 2 1 true 1; mkNode 2 CNS 12 2 false 1; mkNode 3 CCP 11 3 false 1; mkNode 4 CLink 14 4 false 1;
    mkNode 5 CCP 1 5 false 1; mkNode 6 CNS 13 6 false 1 ]
  [ mkEdge 1 2 RHas; mkEdge 2 3 RConnects; mkEdge 3 4 RConnects; mkEdge 4 5 RConnects; mkEdge 5 6 RConnects ].

Example ex_prune_facility :
  trace_of (run (exec true OPrune8 []) G14) = [] /\
  ok_of (run (exec true OPrune9 []) G14) = true /\
  trace_of (run (exec true OPrune9 []) G14) = [1; 2; 3; 4; 5] /\
  prune_nodes G14 = [] /\ all_of_class G14 CNode = [1] /\ type_of G14 1 = T_Facility /\ marked G14 1 = true.
Proof. vm_compute. repeat split; reflexivity. Qed.

(* G15: node 1 has component 2 with service 3 and dedicated port 4; sub-interface 5 of that port carries a PLAIN link 6
   (Topology.add_link, no ServicePort) to port 7 of service 8.  Removing the component (or the node) deletes the
   sub-interface with its port AND the link on the sub-interface; port 7 and service 8 stay.  G15 satisfies the
   hypothesis WQ of the equation theorems, so "a link is deleted iff it had two ends and lost one" speaks about link 6. *)
Definition G15 : graph := mkGraph
  [ mkNode 1 CNode 11 1 false 1; mkNode 2 CComp 12 2 false 1; mkNode 3 CNS 13 3 false 1; mkNode 4 CCP 4 4 false 1;
    mkNode 5 CCP 5 5 false 1; mkNode 6 CLink 14 6 false 1; mkNode 7 CCP 4 7 false 1; mkNode 8 CNS 13 8 false 1 ]
  [ mkEdge 1 2 RHas; mkEdge 2 3 RHas; mkEdge 3 4 RConnects; mkEdge 4 5 RConnects; mkEdge 5 6 RConnects;
    mkEdge 6 7 RConnects; mkEdge 7 8 RConnects ].

Example ex_link_on_subinterface :
  ok_of (run (exec true (ORemoveComponent 1 2) []) G15) = true /\
  trace_of (run (exec true (ORemoveComponent 1 2) []) G15) = [2; 3; 4; 5; 6] /\
  ok_of (run (exec true (ORemoveNode 1) []) G15) = true /\
  trace_of (run (exec true (ORemoveNode 1) []) G15) = [1; 2; 3; 4; 5; 6] /\
  type_of G15 5 = T_SubInterface /\ first_neighbor G15 6 RConnects CCP = [5; 7].
Proof. vm_compute. repeat split; reflexivity. Qed.
Lemma WQ_G15 : WQ G15.
Proof. apply wqb_sound. vm_compute. reflexivity. Qed.

(* C07 - the read-only views: a name-keyed view of a well-formed model lists exactly the elements of its class. *)
From Coq Require Import String List NArith Bool Arith Lia.
From FIM Require Import Base.Str Gen.Rules Model.T7Graph Model.T7Ops Model.T7WF Model.T7Steps
     Proofs.T7Tables Proofs.T7WFRefl Proofs.T7Frame Proofs.T7Units.
Import ListNotations.

Lemma dict_set_fresh k v d : ~ In k (map fst d) -> dict_set k v d = d ++ [(k, v)].
Proof.
  induction d as [|[k' v'] d IH]; simpl; intro H; [reflexivity|].
  destruct (ostr_eqb k k') eqn:E.
  - apply ostr_eqb_eq in E. exfalso. apply H. left. congruence.
  - f_equal. apply IH. intro; apply H; right; assumption.
Qed.

Lemma dict_fold_distinct l : forall d,
  NoDup (map fst d ++ map nname l) ->
  fold_left (fun d n => dict_set (nname n) (nid n) d) l d = d ++ map (fun n => (nname n, nid n)) l.
Proof.
  induction l as [|n l IH]; intros d ND; simpl; [symmetry; apply app_nil_r|].
  rewrite dict_set_fresh.
  - rewrite IH.
    + rewrite <- app_assoc. reflexivity.
    + rewrite map_app. simpl. rewrite <- app_assoc. simpl. exact ND.
  - intro Hin. simpl in ND. apply NoDup_remove_2 in ND. apply ND. apply in_or_app. left. exact Hin.
Qed.

Lemma dict_view_distinct l : NoDup (map nname l) -> dict_view l = map nid l.
Proof.
  intro ND. unfold dict_view. rewrite (dict_fold_distinct l []); [|exact ND]. simpl. rewrite map_map. reflexivity.
Qed.

(* elements of a class whose scope is the whole topology carry distinct names in a well-formed model *)
Lemma names_distinct_top g (f : node -> bool) k :
  WF g -> (forall n, f n = true -> ncls n = k) -> (forall n, ncls n = k -> scope_of g n = []) ->
  NoDup (map nname (filter f (gnodes g))).
Proof.
  intros W Hk Hs. pose proof (wf_names _ W) as N. pose proof (wf_fields _ W) as F. unfold names_P in N.
  assert (FO : ForallOrdPairs (fun a b => name_clash g a b = false) (filter f (gnodes g))) by (apply ForallOrdPairs_filter; exact N).
  assert (Fl : forall n, In n (filter f (gnodes g)) -> f n = true /\ fields_P n).
  { intros n Hn. apply filter_In in Hn as [A B]. split; [exact B | apply F; exact A]. }
  clear N F. induction (filter f (gnodes g)) as [|a l IH]; simpl; [constructor|].
  inversion FO as [|? ? Ha FO']; subst. constructor.
  - intro Hin. apply in_map_iff in Hin as [b [E Hb]]. rewrite Forall_forall in Ha. specialize (Ha _ Hb).
    destruct (Fl a (or_introl eq_refl)) as [fa [ta [na [_ Ena]]]]. destruct (Fl b (or_intror Hb)) as [fb _].
    unfold name_clash in Ha. rewrite (Hk _ fa), (Hk _ fb), cls_eqb_refl in Ha.
    rewrite (Hs _ (Hk _ fa)), (Hs _ (Hk _ fb)) in Ha. rewrite E, Ena in Ha. simpl in Ha. rewrite str_eqb_refl in Ha. discriminate.
  - apply IH; [exact FO'|]. intros; apply Fl; right; assumption.
Qed.

Theorem view_nodes_exact g : WF g -> view_nodes g = map nid (nodes_view g).
Proof.
  intro W. unfold view_nodes. apply dict_view_distinct. unfold nodes_view.
  apply (names_distinct_top g _ KNode W).
  - intros n H. apply andb_true_iff in H as [H _]. apply cls_eqb_eq. exact H.
  - intros n H. unfold scope_of. rewrite H. reflexivity.
Qed.
Theorem view_facilities_exact g : WF g -> view_facilities g = map nid (facilities_view g).
Proof.
  intro W. unfold view_facilities. apply dict_view_distinct. unfold facilities_view.
  apply (names_distinct_top g _ KNode W).
  - intros n H. apply andb_true_iff in H as [H _]. apply cls_eqb_eq. exact H.
  - intros n H. unfold scope_of. rewrite H. reflexivity.
Qed.
Theorem view_links_exact g : WF g -> view_links g = map nid (of_class KLink g).
Proof.
  intro W. unfold view_links. apply dict_view_distinct. unfold of_class.
  apply (names_distinct_top g _ KLink W).
  - intros n H. apply cls_eqb_eq. exact H.
  - intros n H. unfold scope_of. rewrite H. reflexivity.
Qed.
(* services: the view is keyed by name over ALL services, whose names are unique per owner only *)
Theorem view_services_exact_partial g :
  NoDup (map nname (of_class KNS g)) -> view_services g = map nid (of_class KNS g).
Proof. intro ND. unfold view_services. apply dict_view_distinct. exact ND. Qed.
Theorem view_interface_list_exact g : WF g -> view_interface_list g = flat_map (node_ifs g) (map nid (nodes_view g)).
Proof. intro W. unfold view_interface_list. rewrite (view_nodes_exact g W). reflexivity. Qed.

(* FULL STATEMENT (false): forall g, WF g -> view_services g = map nid (of_class KNS g) *)
Definition w_services_hist : list hstep :=
  [(OAddNode (S "n1") (Some (S "a")) (S "VM"), [], []); (OAddNode (S "n2") (Some (S "b")) (S "VM"), [], []);
   (ONodeAddNS (S "a") (S "sv") (Some (S "s1")) (S "OVS"), [], []); (ONodeAddNS (S "b") (S "sv") (Some (S "s2")) (S "OVS"), [], [])].
Lemma view_services_refuted :
  let g := run_hist false flags_off empty_graph w_services_hist in
  WF g /\ length (view_services g) <> length (of_class KNS g).
Proof. split; [apply wf_b_reflect; vm_compute; reflexivity | vm_compute; discriminate]. Qed.

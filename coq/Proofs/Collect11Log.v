(* C11: the LogCollector summary equals a direct tally of the slice. *)
From Coq Require Import List ZArith NArith Bool String Permutation Lia.
From FIM Require Import Base.Str Gen.CollectGen Model.Collect11 Model.Collect11Spec Proofs.Collect11Tables Proofs.Collect11Attrs.
Import ListNotations.
Open Scope Z_scope.

(* ------------------------------------------------------------------ small libraries *)
Lemma smem_In x l : smem x l = true <-> In x l.
Proof.
  unfold smem. rewrite existsb_exists. split.
  - intros [y [Hy He]]. apply str_eqb_eq in He. subst. exact Hy.
  - intro H. exists x. split; [exact H | apply str_eqb_refl].
Qed.

Lemma sadd_In x y l : In x (sadd y l) <-> In x l \/ x = y.
Proof.
  unfold sadd. destruct (smem y l) eqn:E.
  - apply smem_In in E. split; [tauto | intros [H|H]; subst; assumption].
  - rewrite in_app_iff. simpl. intuition.
Qed.

Lemma sadd_NoDup y l : NoDup l -> NoDup (sadd y l).
Proof.
  unfold sadd. intro H. destruct (smem y l) eqn:E; [exact H|].
  apply NoDup_snoc; [exact H|]. intro Hi. apply smem_In in Hi. congruence.
Qed.

Definition sadds (xs l : list str) : list str := fold_left (fun l x => sadd x l) xs l.

Lemma sadds_In xs l x : In x (sadds xs l) <-> In x l \/ In x xs.
Proof.
  unfold sadds. revert l. induction xs as [|y r IH]; simpl; intro l; [tauto|].
  rewrite IH, sadd_In. intuition.
Qed.

Lemma sadds_NoDup xs l : NoDup l -> NoDup (sadds xs l).
Proof.
  unfold sadds. revert l. induction xs as [|y r IH]; simpl; intros l H; [exact H|].
  apply IH, sadd_NoDup, H.
Qed.

Lemma str_eqb_sym a b : str_eqb a b = str_eqb b a.
Proof.
  destruct (str_eqb a b) eqn:E1, (str_eqb b a) eqn:E2; try reflexivity.
  - apply str_eqb_eq in E1. subst. rewrite str_eqb_refl in E2. discriminate.
  - apply str_eqb_eq in E2. subst. rewrite str_eqb_refl in E1. discriminate.
Qed.

Lemma countb_cons {A} (f : A -> bool) x l : countb f (x :: l) = (if f x then 1 else 0) + countb f l.
Proof. unfold countb. simpl. destruct (f x); simpl List.length; lia. Qed.

Lemma countb_app {A} (f : A -> bool) a b : countb f (a ++ b) = countb f a + countb f b.
Proof. unfold countb. rewrite filter_app, app_length. lia. Qed.

Lemma countb_nil {A} (f : A -> bool) : countb f [] = 0.
Proof. reflexivity. Qed.

Lemma sumZ_app a b : sumZ (a ++ b) = sumZ a + sumZ b.
Proof. unfold sumZ. induction a as [|x r IH]; simpl; [reflexivity|]. rewrite IH. lia. Qed.

(* the dictionary of component counts *)
Lemma dget_inc c c' d : dget c (cnt_inc c' d) = dget c d + (if str_eqb c c' then 1 else 0).
Proof.
  induction d as [|[c0 n] r IH]; simpl.
  - destruct (str_eqb c c'); lia.
  - destruct (str_eqb c' c0) eqn:E; simpl.
    + apply str_eqb_eq in E. subst c0. destruct (str_eqb c c'); lia.
    + destruct (str_eqb c c0) eqn:E0.
      * apply str_eqb_eq in E0. subst c0. rewrite str_eqb_sym in E. rewrite E. lia.
      * exact IH.
Qed.

Lemma keys_inc c c' d : In c (map fst (cnt_inc c' d)) <-> c = c' \/ In c (map fst d).
Proof.
  induction d as [|[c0 n] r IH]; simpl.
  - intuition.
  - destruct (str_eqb c' c0) eqn:E; simpl.
    + apply str_eqb_eq in E. subst. intuition.
    + rewrite IH. intuition.
Qed.

Lemma NoDup_inc c' d : NoDup (map fst d) -> NoDup (map fst (cnt_inc c' d)).
Proof.
  induction d as [|[c0 n] r IH]; simpl; intro H.
  - constructor; [tauto | constructor].
  - inversion H; subst. destruct (str_eqb c' c0) eqn:E; simpl.
    + constructor; assumption.
    + constructor; [|apply IH; assumption].
      intro Hi. apply keys_inc in Hi as [Hi|Hi]; [|tauto].
      subst. rewrite str_eqb_refl in E. discriminate.
Qed.

Definition incs (cs : list str) (d : list (str * Z)) : list (str * Z) := fold_left (fun d c => cnt_inc c d) cs d.

Lemma dget_incs c cs d : dget c (incs cs d) = dget c d + countb (str_eqb c) cs.
Proof.
  unfold incs. revert d. induction cs as [|c' r IH]; simpl; intro d; [rewrite countb_nil; lia|].
  rewrite IH, dget_inc, countb_cons. lia.
Qed.

Lemma keys_incs c cs d : In c (map fst (incs cs d)) <-> In c (map fst d) \/ In c cs.
Proof.
  unfold incs. revert d. induction cs as [|c' r IH]; simpl; intro d; [tauto|].
  rewrite IH, keys_inc. intuition.
Qed.

Lemma NoDup_incs cs d : NoDup (map fst d) -> NoDup (map fst (incs cs d)).
Proof.
  unfold incs. revert d. induction cs as [|c' r IH]; simpl; intros d H; [exact H|].
  apply IH, NoDup_inc, H.
Qed.

(* ------------------------------------------------------------------ one node *)
Definition set_comps (st : logst) (d : list (str * Z)) : logst :=
  mkLog (l_nodes st) (l_core st) (l_vm st) (l_p4 st) d (l_svcs st) (l_facs st) (l_sites st).

Lemma comps_fold st cs :
  fold_left (fun st c => mkLog (l_nodes st) (l_core st) (l_vm st) (l_p4 st) (cnt_inc c (l_comps st)) (l_svcs st) (l_facs st) (l_sites st)) cs st
  = set_comps st (incs cs (l_comps st)).
Proof.
  unfold incs. revert st. induction cs as [|c r IH]; simpl; intro st; [destruct st; reflexivity|].
  rewrite IH. reflexivity.
Qed.

Lemma kinds_distinct : NT_VM <> NT_Switch /\ NT_VM <> NT_Facility /\ NT_Switch <> NT_Facility.
Proof. repeat split; intro E; vm_compute in E; discriminate. Qed.

Definition opt_list {A} (o : option A) : list A := match o with Some x => [x] | None => [] end.

Record node_effect := mkEff { e_nodes : list caps3; e_core : Z; e_vm : Z; e_p4 : Z; e_facs : list str }.

Definition node_effect_of (n : node) : node_effect :=
  mkEff (vm_caps n) (sumZ (map core_of (vm_caps n))) (if is_vm n then 1 else 0) (if is_switch n then 1 else 0)
        (if is_facility n then [n_name n] else []).

Lemma log_node_proj st n :
  let st' := log_node st n in
  l_nodes st' = l_nodes st ++ vm_caps n /\
  l_core st' = l_core st + sumZ (map core_of (vm_caps n)) /\
  l_vm st' = l_vm st + (if is_vm n then 1 else 0) /\
  l_p4 st' = l_p4 st + (if is_switch n then 1 else 0) /\
  l_comps st' = incs (n_comps n) (l_comps st) /\
  l_svcs st' = l_svcs st /\
  l_facs st' = sadds (if is_facility n then [n_name n] else []) (l_facs st) /\
  l_sites st' = sadds (opt_list (n_site n)) (l_sites st).
Proof.
  destruct kinds_distinct as (D1 & D2 & D3).
  unfold log_node, vm_caps, is_vm, is_switch, is_facility. rewrite comps_fold.
  destruct (N.eqb (n_kind n) NT_VM) eqn:Ev.
  - apply N.eqb_eq in Ev.
    assert (Es : N.eqb (n_kind n) NT_Switch = false) by (apply N.eqb_neq; congruence).
    assert (Ef : N.eqb (n_kind n) NT_Facility = false) by (apply N.eqb_neq; congruence).
    rewrite Es, Ef.
    destruct (eff_caps n) as [[[c r] d]|]; destruct (n_site n); simpl; rewrite ?app_nil_r;
      repeat split; try reflexivity; try lia.
  - destruct (N.eqb (n_kind n) NT_Switch) eqn:Es.
    + apply N.eqb_eq in Es.
      assert (Ef : N.eqb (n_kind n) NT_Facility = false) by (apply N.eqb_neq; congruence).
      rewrite Ef. destruct (n_site n); simpl; rewrite ?app_nil_r; repeat split; try reflexivity; try lia.
    + destruct (N.eqb (n_kind n) NT_Facility) eqn:Ef;
        destruct (n_site n); simpl; rewrite ?app_nil_r; repeat split; try reflexivity; try lia.
Qed.

Lemma log_nodes_proj ns st :
  let st' := fold_left log_node ns st in
  l_nodes st' = l_nodes st ++ flat_map vm_caps ns /\
  l_core st' = l_core st + sumZ (map core_of (flat_map vm_caps ns)) /\
  l_vm st' = l_vm st + countb is_vm ns /\
  l_p4 st' = l_p4 st + countb is_switch ns /\
  l_comps st' = incs (flat_map n_comps ns) (l_comps st) /\
  l_svcs st' = l_svcs st /\
  l_facs st' = sadds (flat_map (fun n => if is_facility n then [n_name n] else []) ns) (l_facs st) /\
  l_sites st' = sadds (flat_map (fun n => opt_list (n_site n)) ns) (l_sites st).
Proof.
  revert st. induction ns as [|n r IH]; intro st; simpl.
  - rewrite app_nil_r, !countb_nil. repeat split; try reflexivity; lia.
  - destruct (IH (log_node st n)) as (I1 & I2 & I3 & I4 & I5 & I6 & I7 & I8).
    destruct (log_node_proj st n) as (P1 & P2 & P3 & P4 & P5 & P6 & P7 & P8).
    cbv zeta in *. rewrite I1, I2, I3, I4, I5, I6, I7, I8, P1, P2, P3, P4, P5, P6, P7, P8.
    rewrite !countb_cons, map_app, sumZ_app, <- app_assoc.
    unfold incs, sadds. rewrite !fold_left_app.
    repeat split; try reflexivity; lia.
Qed.

(* ------------------------------------------------------------------ services, facilities *)
Definition svc_entry (v : svc) : str * Z := (stype_name (s_type v), match s_bw v with Some b => b | None => 0 end).

Lemma log_svc_proj st v :
  let st' := log_svc st v in
  l_nodes st' = l_nodes st /\ l_core st' = l_core st /\ l_vm st' = l_vm st /\ l_p4 st' = l_p4 st /\
  l_comps st' = l_comps st /\ l_svcs st' = l_svcs st ++ [svc_entry v] /\ l_facs st' = l_facs st /\
  l_sites st' = sadds (opt_list (s_site v)) (l_sites st).
Proof. unfold log_svc, with_site, svc_entry. destruct (s_site v); simpl; repeat split; reflexivity. Qed.

Lemma log_svcs_proj vs st :
  let st' := fold_left log_svc vs st in
  l_nodes st' = l_nodes st /\ l_core st' = l_core st /\ l_vm st' = l_vm st /\ l_p4 st' = l_p4 st /\
  l_comps st' = l_comps st /\ l_svcs st' = l_svcs st ++ map svc_entry vs /\ l_facs st' = l_facs st /\
  l_sites st' = sadds (flat_map (fun v => opt_list (s_site v)) vs) (l_sites st).
Proof.
  revert st. induction vs as [|v r IH]; intro st; simpl.
  - rewrite app_nil_r. repeat split; reflexivity.
  - destruct (IH (log_svc st v)) as (I1 & I2 & I3 & I4 & I5 & I6 & I7 & I8).
    destruct (log_svc_proj st v) as (P1 & P2 & P3 & P4 & P5 & P6 & P7 & P8).
    cbv zeta in *. rewrite I1, I2, I3, I4, I5, I6, I7, I8, P1, P2, P3, P4, P5, P6, P7, P8.
    rewrite <- app_assoc. unfold sadds. rewrite fold_left_app. repeat split; reflexivity.
Qed.

Lemma log_facs_proj fs st :
  let st' := fold_left (fun st f => mkLog (l_nodes st) (l_core st) (l_vm st) (l_p4 st) (l_comps st) (l_svcs st) (sadd f (l_facs st)) (l_sites st)) fs st in
  l_nodes st' = l_nodes st /\ l_core st' = l_core st /\ l_vm st' = l_vm st /\ l_p4 st' = l_p4 st /\
  l_comps st' = l_comps st /\ l_svcs st' = l_svcs st /\ l_facs st' = sadds fs (l_facs st) /\ l_sites st' = l_sites st.
Proof.
  revert st. induction fs as [|f r IH]; intro st; simpl.
  - repeat split; reflexivity.
  - match goal with |- context [fold_left ?F r ?S0] => destruct (IH S0) as (I1 & I2 & I3 & I4 & I5 & I6 & I7 & I8) end.
    cbv zeta in *. simpl in *. rewrite I1, I2, I3, I4, I5, I6, I7, I8. repeat split; reflexivity.
Qed.

(* ------------------------------------------------------------------ the summary of one topology *)
Definition logged (s : slice) : logst := log_topo log_init s.

Lemma log_run_topo s : log_run [OTopo s] = logged s.
Proof. reflexivity. Qed.

Lemma logged_proj s :
  l_nodes (logged s) = flat_map vm_caps (sl_nodes s) /\
  l_core (logged s) = tally_cores s /\
  l_vm (logged s) = tally_vms s /\
  l_p4 (logged s) = tally_switches s /\
  l_comps (logged s) = incs (flat_map n_comps (sl_nodes s)) [] /\
  l_svcs (logged s) = tally_services s /\
  l_facs (logged s) = sadds (sl_facs s) (sadds (flat_map (fun n => if is_facility n then [n_name n] else []) (sl_nodes s)) []) /\
  l_sites (logged s) = sadds (flat_map (fun v => opt_list (s_site v)) (sl_svcs s))
                             (sadds (flat_map (fun n => opt_list (n_site n)) (sl_nodes s)) []).
Proof.
  unfold logged, log_topo.
  match goal with |- context [fold_left ?F (sl_facs s) ?S0] => destruct (log_facs_proj (sl_facs s) S0) as (F1 & F2 & F3 & F4 & F5 & F6 & F7 & F8) end.
  destruct (log_svcs_proj (sl_svcs s) (fold_left log_node (sl_nodes s) log_init)) as (S1 & S2 & S3 & S4 & S5 & S6 & S7 & S8).
  destruct (log_nodes_proj (sl_nodes s) log_init) as (N1 & N2 & N3 & N4 & N5 & N6 & N7 & N8).
  cbv zeta in *. rewrite F1, F2, F3, F4, F5, F6, F7, F8, S1, S2, S3, S4, S5, S6, S7, S8, N1, N2, N3, N4, N5, N6, N7, N8.
  unfold tally_cores, tally_vms, tally_switches, tally_services, svc_entry. simpl.
  repeat split; reflexivity.
Qed.

Theorem log_vms s : l_vm (logged s) = tally_vms s.
Proof. apply (logged_proj s). Qed.
Theorem log_cores s : l_core (logged s) = tally_cores s.
Proof. apply (logged_proj s). Qed.
Theorem log_switches s : l_p4 (logged s) = tally_switches s.
Proof. apply (logged_proj s). Qed.
Theorem log_vm_caps s : l_nodes (logged s) = flat_map vm_caps (sl_nodes s).
Proof. apply (logged_proj s). Qed.
Theorem log_services s : l_svcs (logged s) = tally_services s.
Proof. apply (logged_proj s). Qed.

Theorem log_components s c : dget c (l_comps (logged s)) = tally_component c s.
Proof.
  destruct (logged_proj s) as (_ & _ & _ & _ & H & _). rewrite H, dget_incs. unfold tally_component. simpl. lia.
Qed.

Theorem log_component_keys s c : In c (map fst (l_comps (logged s))) <-> In c (flat_map n_comps (sl_nodes s)).
Proof. destruct (logged_proj s) as (_ & _ & _ & _ & H & _). rewrite H, keys_incs. simpl. tauto. Qed.

Theorem log_component_keys_once s : NoDup (map fst (l_comps (logged s))).
Proof. destruct (logged_proj s) as (_ & _ & _ & _ & H & _). rewrite H. apply NoDup_incs. constructor. Qed.

Lemma in_flat_opt {A} (g : A -> option str) l x : In x (flat_map (fun a => opt_list (g a)) l) <-> exists a, In a l /\ g a = Some x.
Proof.
  rewrite in_flat_map. split; intros [a [Ha H]]; exists a; split; try exact Ha.
  - destruct (g a); simpl in H; [destruct H as [H|[]]; congruence | destruct H].
  - rewrite H. left. reflexivity.
Qed.

Theorem log_sites s x : In x (l_sites (logged s)) <-> site_used s x.
Proof.
  destruct (logged_proj s) as (_ & _ & _ & _ & _ & _ & _ & H). rewrite H, !sadds_In, !in_flat_opt.
  unfold site_used. simpl. tauto.
Qed.

Theorem log_sites_once s : NoDup (l_sites (logged s)).
Proof. destruct (logged_proj s) as (_ & _ & _ & _ & _ & _ & _ & H). rewrite H. apply sadds_NoDup, sadds_NoDup. constructor. Qed.

Theorem log_facilities s f : In f (l_facs (logged s)) <-> facility_used s f.
Proof.
  destruct (logged_proj s) as (_ & _ & _ & _ & _ & _ & H & _). rewrite H, !sadds_In, in_flat_map.
  unfold facility_used. simpl. split.
  - intros [[[]|[n [Hn Hf]]]|Hf]; [|left; exact Hf].
    right. exists n. destruct (is_facility n) eqn:E; [|destruct Hf]. destruct Hf as [Hf|[]]. tauto.
  - intros [Hf|[n (Hn & E & Hf)]]; [right; exact Hf|].
    left. right. exists n. split; [exact Hn|]. rewrite E. left. exact Hf.
Qed.

Theorem log_facilities_once s : NoDup (l_facs (logged s)).
Proof. destruct (logged_proj s) as (_ & _ & _ & _ & _ & _ & H & _). rewrite H. apply sadds_NoDup, sadds_NoDup. constructor. Qed.

(* ------------------------------------------------------------------ the tallies do not depend on the storage order *)
Lemma countb_perm {A} (f : A -> bool) l l' : Permutation l l' -> countb f l = countb f l'.
Proof.
  intro H. unfold countb. f_equal. apply Permutation_length.
  induction H; simpl.
  - constructor.
  - destruct (f x); [constructor|]; assumption.
  - destruct (f x), (f y); try constructor; try apply Permutation_refl.
  - eapply Permutation_trans; eassumption.
Qed.

Lemma sumZ_perm l l' : Permutation l l' -> sumZ l = sumZ l'.
Proof. unfold sumZ. induction 1; simpl; lia. Qed.

Theorem tallies_order_independent s s' : slice_perm s s' ->
  tally_vms s = tally_vms s' /\ tally_cores s = tally_cores s' /\ tally_switches s = tally_switches s' /\
  (forall c, tally_component c s = tally_component c s') /\
  Permutation (tally_services s) (tally_services s') /\
  (forall x, site_used s x <-> site_used s' x) /\ (forall f, facility_used s f <-> facility_used s' f).
Proof.
  intros (Hn & Hs & Hf & _).
  unfold tally_vms, tally_cores, tally_switches, tally_component, tally_services, site_used, facility_used.
  repeat split.
  - apply countb_perm, Hn.
  - apply sumZ_perm, Permutation_map, Permutation_flat_map, Hn.
  - apply countb_perm, Hn.
  - intro c. apply countb_perm, Permutation_flat_map, Hn.
  - apply Permutation_map, Hs.
  - intros [[n [H1 H2]]|[v [H1 H2]]]; [left; exists n | right; exists v]; split; try assumption;
      eapply Permutation_in; eassumption.
  - intros [[n [H1 H2]]|[v [H1 H2]]]; [left; exists n | right; exists v]; split; try assumption;
      (eapply Permutation_in; [apply Permutation_sym|]; eassumption).
  - intros [H|[n [H1 H2]]]; [left; eapply Permutation_in; eassumption | right; exists n; split; [eapply Permutation_in; eassumption | exact H2]].
  - intros [H|[n [H1 H2]]]; [left; eapply Permutation_in; [apply Permutation_sym|]; eassumption
                            | right; exists n; split; [eapply Permutation_in; [apply Permutation_sym|]; eassumption | exact H2]].
Qed.

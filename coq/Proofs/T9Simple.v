(* C09 - validate-before-mutate: the element constructors whose checks all precede the (single) composite
   mutation are atomic for EVERY state and EVERY argument. *)
From Coq Require Import List NArith Bool Lia.
From FIM Require Import Base.Str Gen.T9Names Model.T9Graph Model.T9Ops Proofs.T9Monad.
Import ListNotations.
Open Scope N_scope.

Ltac nm := repeat first [ apply no_mut_ret | apply no_mut_raise | apply no_mut_guard | apply no_mut_ask
                        | apply no_mut_draw | apply no_mut_id_or_draw | apply no_mut_opt_raise
                        | (apply no_mut_bind; [|intro]) ].

(* ---------------------------------------------------------------- graph facts *)
Lemma find_nodes_app g1 g2 e x :
  find_nodes (mkGraph (g1 ++ g2) e) x = filter (fun n => nid n =? x) g1 ++ filter (fun n => nid n =? x) g2.
Proof. unfold find_nodes; simpl; apply filter_app. Qed.

Lemma has_node_false_filter g x : has_node g x = false -> filter (fun n => nid n =? x) (gnodes g) = [].
Proof.
  unfold has_node. induction (gnodes g) as [|n l IH]; simpl; auto.
  intro H. apply orb_false_iff in H as [H1 H2]. rewrite H1. auto.
Qed.

Lemma find_node_added g n : has_node g (nid n) = false ->
  find_node (mkGraph (gnodes g ++ [n]) (gedges g)) (nid n) = Ok n.
Proof.
  intro H. unfold find_node. rewrite find_nodes_app. rewrite has_node_false_filter by auto.
  simpl. rewrite N.eqb_refl. reflexivity.
Qed.

Lemma find_node_has g x n : find_node g x = Ok n -> has_node g x = true.
Proof.
  unfold find_node, find_nodes, has_node. intro H.
  destruct (filter _ _) as [|m [|? ?]] eqn:E; inversion H; subst.
  assert (In n (filter (fun n0 => nid n0 =? x) (gnodes g))) by (rewrite E; left; reflexivity).
  apply filter_In in H0 as [Hin Hx]. apply existsb_exists. eauto.
Qed.

Lemma find_node_kept g n x m : find_node g x = Ok m -> has_node g (nid n) = false ->
  find_node (mkGraph (gnodes g ++ [n]) (gedges g)) x = Ok m.
Proof.
  intros Hf Hn. assert (Hx : has_node g x = true) by (eapply find_node_has; eauto).
  unfold find_node in *. rewrite find_nodes_app. simpl.
  destruct (nid n =? x) eqn:E.
  - apply N.eqb_eq in E. subst. congruence.
  - rewrite app_nil_r. exact Hf.
Qed.

Lemma add_edge_nodes a r b g g' : g_add_edge a r b g = Ok g' -> gnodes g' = gnodes g.
Proof.
  unfold g_add_edge. destruct (find_node g a); [|discriminate]. destruct (find_node g b); [|discriminate].
  destruct (existsb _ _); intro H; inversion H; reflexivity.
Qed.

Lemma find_node_same_nodes g g' x : gnodes g' = gnodes g -> find_node g' x = find_node g x.
Proof. intro H. unfold find_node, find_nodes. rewrite H. reflexivity. Qed.

Lemma add_edge_ok a r b g x y : find_node g a = Ok x -> find_node g b = Ok y -> exists g', g_add_edge a r b g = Ok g'.
Proof. intros Ha Hb. unfold g_add_edge. rewrite Ha, Hb. destruct (existsb _ _); eauto. Qed.

(* node, then the edge from an existing parent: the pair cannot fail half-way *)
Lemma add_node_edge_all_or_nothing n p r g px :
  find_node g p = Ok px ->
  (exists e, g_add_node n g = Err e) \/
  (exists g1 g2, g_add_node n g = Ok g1 /\ g_add_edge p r (nid n) g1 = Ok g2).
Proof.
  intro Hp. unfold g_add_node. destruct (has_node g (nid n)) eqn:Hn; [left; eauto|].
  right. eexists. edestruct (add_edge_ok p r (nid n)) as [g2 H2];
    [eapply find_node_kept; eauto | apply find_node_added; auto | eauto].
Qed.

(* ---------------------------------------------------------------- Topology.add_node *)
Lemma op_add_node_atomic fl name node_id ntype pure : atomic (op_add_node fl name node_id ntype pure).
Proof.
  unfold atomic, op_add_node.
  apply atomic_bind_nm; [nm|intro]. apply atomic_bind_nm; [nm|intro]. apply atomic_bind_nm; [nm|intro].
  apply atomic_bind_nm; [nm|intro].
  destruct ntype; [|apply atomic_of_no_mut; nm].
  apply atomic_bind_nm; [nm|intro]. apply atomic_bind_nm; [nm|intro]. apply atomic_bind_nm; [nm|intro].
  apply atomic_bind_nm; [nm|intro].
  apply atomic_mutate_ret.
Qed.

(* ---------------------------------------------------------------- new_interface with an existing parent *)
Definition parent_found (p : N) (s : st) : Prop := exists x, find_node (sg s) p = Ok x.

Lemma mutate_pair_atomic {A} n p r (k : M A) :
  no_mut k -> (forall s, exists s' a, k s = (s', Ok a)) ->
  atomic_if (parent_found p) (m_add_node n ;;; m_add_edge p r (nid n) ;;; k).
Proof.
  intros Hk Hok s s' e [px Hp] H.
  unfold bind, m_add_node, m_add_edge, mutate in H.
  destruct (add_node_edge_all_or_nothing n p r (sg s) px Hp) as [[e1 E1]|[g1 [g2 [E1 E2]]]].
  - rewrite E1 in H. inversion H; reflexivity.
  - rewrite E1 in H. simpl in H. rewrite E2 in H.
    destruct (Hok (mkSt g2 (sfresh s))) as [s2 [a Ha]]. rewrite Ha in H. discriminate.
Qed.

Lemma nm_keeps_parent {A} (m : M A) p : no_mut m ->
  forall s0 s1 a, parent_found p s0 -> m s0 = (s1, Ok a) -> parent_found p s1.
Proof. intros Hm s0 s1 a [x Hx] E. exists x. erewrite Hm; eauto. Qed.

Lemma new_interface_atomic fl name node_id p itype pure :
  atomic_if (parent_found p) (new_interface fl name node_id (Some p) itype pure).
Proof.
  unfold new_interface.
  apply atomic_bind_nm; [nm|intro]. apply atomic_bind_nm; [nm|intro id].
  destruct itype as [ty|]; [|apply atomic_of_no_mut; nm].
  apply atomic_bind_nm; [nm|intro]. apply atomic_bind_nm; [nm|intro].
  eapply atomic_if_weaken; [|apply (mutate_pair_atomic (mkNode id cCP name ty 0) p rConnects (ret id))].
  - intros s (s3 & (s2 & (s1 & (s0 & H0 & E0) & E1) & E2) & E3).
    eapply nm_keeps_parent; [| |exact E3]; [nm|].
    eapply nm_keeps_parent; [| |exact E2]; [nm|].
    eapply nm_keeps_parent; [| |exact E1]; [nm|].
    eapply nm_keeps_parent; [| |exact E0]; [nm|]. exact H0.
  - nm.
  - intro s; do 2 eexists; reflexivity.
Qed.

Lemma node_cls_found g x c : node_cls g x = Ok c -> exists n, find_node g x = Ok n.
Proof. unfold node_cls. destruct (find_node g x); [eauto|discriminate]. Qed.

Lemma service_iface_names_found g ns l : service_iface_names g ns = Ok l -> exists n, find_node g ns = Ok n.
Proof.
  unfold service_iface_names. destruct (node_cls g ns) eqn:E; [|discriminate]. intros _. eapply node_cls_found; eauto.
Qed.
Lemma node_service_names_found g pn l : node_service_names g pn = Ok l -> exists n, find_node g pn = Ok n.
Proof.
  unfold node_service_names. destruct (node_cls g pn) eqn:E; [|discriminate]. intros _. eapply node_cls_found; eauto.
Qed.

Lemma ask_ok {A} (q : graph -> res A) s0 s1 a : ask q s0 = (s1, Ok a) -> s1 = s0 /\ q (sg s0) = Ok a.
Proof. unfold ask. destruct (q (sg s0)); intro H; inversion H; auto. Qed.

(* ---------------------------------------------------------------- NetworkService.add_interface *)
Lemma op_add_interface_atomic fl ns name node_id itype pure :
  atomic (op_add_interface fl ns name node_id itype pure).
Proof.
  unfold atomic, op_add_interface.
  apply atomic_bind_nm; [nm|intro cached]. unfold add_interface_cached.
  apply atomic_bind_nm; [nm|intro].
  eapply atomic_if_weaken; [|apply new_interface_atomic].
  intros s (s1 & (s0 & _ & E0) & E1).
  eapply nm_keeps_parent; [| |exact E1]; [nm|].
  apply ask_ok in E0 as [-> E0]. eapply service_iface_names_found; eauto.
Qed.

(* ---------------------------------------------------------------- Node.add_network_service *)
Lemma new_service_child_atomic fl name node_id pn nstype pure :
  atomic_if (parent_found pn) (new_service fl name node_id (Some pn) nstype [] pure).
Proof.
  unfold new_service.
  apply atomic_bind_nm; [nm|intro id].
  destruct nstype as [ty|]; [|apply atomic_of_no_mut; nm].
  apply atomic_bind_nm; [nm|intro]. apply atomic_bind_nm; [nm|intro]. apply atomic_bind_nm; [nm|intro].
  eapply atomic_if_weaken;
    [|apply (mutate_pair_atomic (mkNode id cNS name ty 0) pn rHas (connect_all fl id ty [] [] ;;; ret id))].
  - intros s (s3 & (s2 & (s1 & (s0 & H0 & E0) & E1) & E2) & E3).
    eapply nm_keeps_parent; [| |exact E3]; [nm|].
    eapply nm_keeps_parent; [| |exact E2]; [nm|].
    eapply nm_keeps_parent; [| |exact E1]; [nm|].
    eapply nm_keeps_parent; [| |exact E0]; [nm|]. exact H0.
  - simpl. nm.
  - intro s; do 2 eexists; reflexivity.
Qed.

Lemma op_add_node_service_atomic fl pn name node_id nstype pure :
  atomic (op_add_node_service fl pn name node_id nstype pure).
Proof.
  unfold atomic, op_add_node_service.
  apply atomic_bind_nm; [nm|intro names]. apply atomic_bind_nm; [nm|intro].
  eapply atomic_if_weaken; [|apply new_service_child_atomic].
  intros s (s1 & (s0 & _ & E0) & E1).
  eapply nm_keeps_parent; [| |exact E1]; [nm|].
  apply ask_ok in E0 as [-> E0]. eapply node_service_names_found; eauto.
Qed.

(* ---------------------------------------------------------------- Topology.add_link *)
Definition ifaces_exist (g : graph) (l : list iface_h) : Prop :=
  forall i, In i l -> exists n, find_node g (ih_id i) = Ok n.

Lemma for_each_edges_ok id r (l : list iface_h) : forall s,
  (exists n, find_node (sg s) id = Ok n) -> ifaces_exist (sg s) l ->
  exists s', for_each l (fun i => m_add_edge id r (ih_id i)) s = (s', Ok tt).
Proof.
  induction l as [|i l IH]; intros s Hid Hl; simpl.
  - eexists; reflexivity.
  - unfold bind, m_add_edge, mutate.
    destruct Hid as [n Hn]. destruct (Hl i (or_introl eq_refl)) as [m Hm].
    destruct (add_edge_ok id r (ih_id i) (sg s) n m Hn Hm) as [g' Hg']. rewrite Hg'.
    apply IH; simpl.
    + exists n. erewrite find_node_same_nodes; eauto. eapply add_edge_nodes; eauto.
    + intros j Hj. destruct (Hl j (or_intror Hj)) as [y Hy]. exists y.
      erewrite find_node_same_nodes; eauto. eapply add_edge_nodes; eauto.
Qed.

Definition precheck (l : list iface_h) : M unit :=
  for_each l (fun i => _ <- ask (fun g => find_node g (ih_id i)) ;; ret tt).

Lemma no_mut_precheck l : no_mut (precheck l).
Proof. unfold precheck. induction l; simpl; nm. apply IHl. Qed.

Lemma precheck_ok l : forall s s1 u, precheck l s = (s1, Ok u) -> s1 = s /\ ifaces_exist (sg s) l.
Proof.
  unfold precheck. induction l as [|i l IH]; intros s s1 u H; simpl in H.
  - unfold ret in H. inversion H; subst. split; auto. intros j [].
  - unfold bind at 1 in H. unfold bind at 1 in H. unfold ask at 1 in H.
    destruct (find_node (sg s) (ih_id i)) eqn:E; [|discriminate].
    unfold ret at 1 in H. apply IH in H as [-> Hl]. split; auto.
    intros j [<-|Hj]; [eexists; eauto|auto].
Qed.

Lemma new_link_atomic fl name node_id ltype ifs pure : atomic (new_link fl name node_id ltype ifs pure).
Proof.
  unfold atomic, new_link.
  apply atomic_bind_nm; [nm|intro]. apply atomic_bind_nm; [nm|intro id].
  destruct ltype as [ty|]; [|apply atomic_of_no_mut; nm].
  destruct ifs as [[|i l]|]; try solve [apply atomic_of_no_mut; nm].
  apply atomic_bind_nm; [nm|intro]. apply atomic_bind_nm; [nm|intro].
  apply atomic_bind_nm; [apply (no_mut_precheck (i :: l))|intro].
  intros s s' e (s0 & _ & E0) H.
  apply (precheck_ok (i :: l)) in E0 as [<- Hex].
  unfold bind at 1 in H. unfold m_add_node, mutate in H.
  unfold g_add_node in H. simpl nid in H.
  destruct (has_node (sg s) id) eqn:Hn; [inversion H; reflexivity|].
  exfalso.
  set (g1 := mkGraph (gnodes (sg s) ++ [mkNode id cLink name ty 0]) (gedges (sg s))) in *.
  destruct (for_each_edges_ok id rConnects (i :: l) (mkSt g1 (sfresh s))) as [s4 H4].
  - eexists. apply (find_node_added (sg s) (mkNode id cLink name ty 0)). exact Hn.
  - intros j Hj. destruct (Hex j Hj) as [y Hy]. exists y.
    apply (find_node_kept (sg s) (mkNode id cLink name ty 0)); auto.
  - unfold bind in H. rewrite H4 in H. discriminate.
Qed.

Lemma op_add_link_atomic fl name node_id ltype ifs pure : atomic (op_add_link fl name node_id ltype ifs pure).
Proof.
  unfold atomic, op_add_link.
  apply atomic_bind_nm; [nm|intro names]. apply atomic_bind_nm; [nm|intro].
  eapply atomic_if_weaken; [|apply new_link_atomic]. intros; exact I.
Qed.

(* C08 proofs, part 15: prune as repaired by proposed_fixes/C08-7 (operation OPrune7): on normal return every marked
   element the collection phase reaches, and everything it owns, is deleted.  Hypothesis: node ids are distinct
   (add_node guarantees it), so that the class / name the look-ups report are those of the collected element. *)
From Coq Require Import List NArith Bool Lia Arith PeanoNat.
From FIM Require Import Model.T8Graph Model.T8Ops Proofs.T8Frame Proofs.T8Query Proofs.T8Hoare Proofs.T8Sound
     Proofs.T8Complete Proofs.T8Closed Proofs.T8Top.
Import ListNotations.

Definition ids_distinct (g : graph) : Prop := NoDup (map nid (gnodes g)).

Lemma find_unique g x : ids_distinct g -> In x (gnodes g) -> find_node g (nid x) = Some x.
Proof.
  unfold ids_distinct, find_node. induction (gnodes g) as [|y l IH]; simpl; intros Hn Hx; [destruct Hx|].
  inversion Hn as [|? ? Hy Hn']; subst. destruct Hx as [->|Hx].
  - rewrite N.eqb_refl. reflexivity.
  - destruct (N.eqb (nid y) (nid x)) eqn:E; [|apply IH; assumption].
    apply N.eqb_eq in E. exfalso. apply Hy. rewrite E. apply in_map. exact Hx.
Qed.

Lemma all_of_class_facts g c n :
  ids_distinct g -> In n (all_of_class g c) -> class_of g n = c /\ In n (by_name g c (name_of g n)).
Proof.
  intros Hd Hn. unfold all_of_class in Hn. apply in_map_iff in Hn. destruct Hn as [x [<- Hx]].
  apply filter_In in Hx. destruct Hx as [Hx Hc].
  unfold class_of, name_of, by_name. rewrite (find_unique g x Hd Hx). split.
  - destruct (ncls x), c; simpl in Hc; try discriminate; reflexivity.
  - apply in_map_iff. exists x. split; [reflexivity|]. apply filter_In. split; [exact Hx|].
    rewrite Hc, N.eqb_refl. reflexivity.
Qed.

Section Prune.
Variable g0 : graph.

Lemma gone_in_D s x c :
  cons g0 s -> class_of g0 x = c -> c <> COther ->
  has_node (fst s) x && cls_eqb (class_of (fst s) x) c = false -> In x (snd s).
Proof.
  intros C Hc Hne Eb. destruct (in_dec N.eq_dec x (snd s)) as [Hd|Hd]; [exact Hd|]. exfalso.
  assert (Hm : memN x (snd s) = false) by (apply memN_false; exact Hd).
  rewrite C, has_node_restrict, Hm, (class_of_restrict _ _ _ Hm), Hc in Eb. simpl in Eb.
  assert (Hh : has_node g0 x = true).
  { unfold has_node, class_of in *. destruct (find_node g0 x); [reflexivity | exfalso; apply Hne; symmetry; exact Hc]. }
  rewrite Hh in Eb. destruct c; simpl in Eb; discriminate.
Qed.

Lemma del_api_remove_node nm s s' x :
  cons g0 s -> api_remove_node nm s = (inl tt, s') -> In x (by_name g0 CNode nm) -> In x (snd s').
Proof.
  intros C E Hx. unfold api_remove_node in E.
  apply bind_ok in E. destruct E as [cands [s1 [E1 E]]]. apply get_ok in E1. destruct E1 as [-> ->].
  apply bind_ok in E. destruct E as [n [s1 [E1 E]]]. apply uniq_ok in E1. destruct E1 as [_ ->].
  apply (del_node_tail g0 nm n s s' x C E Hx).
Qed.

Lemma del_api_remove_facility nm s s' x :
  cons g0 s -> api_remove_facility nm s = (inl tt, s') -> In x (by_name g0 CNode nm) -> In x (snd s').
Proof.
  intros C E Hx. unfold api_remove_facility in E.
  apply bind_ok in E. destruct E as [all [s1 [E1 E]]]. apply get_ok in E1. destruct E1 as [-> ->].
  apply bind_ok in E. destruct E as [n [s1 [E1 E]]]. apply uniq_ok in E1. destruct E1 as [_ ->].
  apply bind_ok in E. destruct E as [t [s1 [E1 E]]]. apply get_ok in E1. destruct E1 as [-> ->].
  apply bind_ok in E. destruct E as [[] [s1 [E1 E]]]. apply guard_ok in E1. destruct E1 as [_ ->].
  apply (del_node_tail g0 nm n s s' x C E Hx).
Qed.

Lemma del_api_remove_component n cname s s' c :
  cons g0 s -> api_remove_component n cname s = (inl tt, s') ->
  In c (first_neighbor g0 n RHas CComp) -> name_of g0 c = cname -> In c (snd s').
Proof.
  intros C E Hc Hnm. unfold api_remove_component in E.
  apply bind_ok in E. destruct E as [[] [s1 [E1 E]]]. apply need_class_ok in E1. destruct E1 as [Hh [_ ->]].
  apply bind_ok in E. destruct E as [cs0 [s1 [E1 E]]]. apply get_ok in E1. destruct E1 as [-> ->].
  apply bind_ok in E. destruct E as [c' [s1 [E1 E]]]. apply uniq_ok in E1. destruct E1 as [Hu ->].
  apply bind_ok in E. destruct E as [ifs [s1 [E1 E]]]. apply get_ok in E1. destruct E1 as [-> ->].
  apply bind_ok in E. destruct E as [[] [s1 [E1 E]]].
  pose proof (cons_to g0 _ _ _ _ (Inv_for_each_set _ _ Inv_disconnect_step) C E1) as C1.
  destruct (in_dec N.eq_dec c (snd s)) as [Hd|Hd].
  - apply (ext_to g0 _ _ _ _ c (Inv_remove_component c') C1 E).
    apply (ext_to g0 _ _ _ _ c (Inv_for_each_set _ _ Inv_disconnect_step) C E1 Hd).
  - destruct (cons_has g0 s n C Hh) as [Hnd _].
    assert (Hin : In c (child_by_name (fst s) (first_neighbor (fst s) n RHas CComp) cname)).
    { unfold child_by_name. apply filter_In. split.
      - apply (cur_fn g0 s n RHas CComp c C); [discriminate | auto].
      - apply N.eqb_eq. rewrite C, name_of_restrict; [exact Hnm | apply memN_false; exact Hd]. }
    rewrite Hu in Hin. destruct Hin as [<-|[]]. apply (del_remove_component g0 c' s1 s' C1 E).
Qed.

Lemma del_prune_if7_body i s s' :
  cons g0 s ->
  bind (m_get (fun g => disc_list g [i])) (fun ifs =>
  bind (for_each_set disconnect_step ifs) (fun _ => remove_cp_and_links i true)) s = (inl tt, s') -> In i (snd s').
Proof.
  intros C E.
  apply bind_ok in E. destruct E as [ifs [s1 [E1 E]]]. apply get_ok in E1. destruct E1 as [-> ->].
  apply bind_ok in E. destruct E as [[] [s1 [E1 E]]].
  pose proof (cons_to g0 _ _ _ _ (Inv_for_each_set _ _ Inv_disconnect_step) C E1) as C1.
  apply (del_remove_cp g0 i true s1 s' C1 E).
Qed.

(* a loop of guarded removals: every element that was in g0 with class c ends up deleted *)
Lemma guarded_loop {A} (c : cls) (key : A -> N) (body : A -> M unit) (l : list A) s s' :
  c <> COther ->
  (forall a, Inv (body a)) ->
  (forall a t t', In a l -> cons g0 t -> body a t = (inl tt, t') -> In (key a) (snd t')) ->
  (forall a, In a l -> class_of g0 (key a) = c) ->
  cons g0 s ->
  for_each_set (fun a => bind (exists_as c (key a)) (fun b : bool => if b then body a else ret tt)) l s = (inl tt, s') ->
  cons g0 s' /\ forall a, In a l -> In (key a) (snd s').
Proof.
  intros Hne Hinv Hdel Hcls C E. apply for_each_set_ok in E.
  assert (Istep : forall a, Inv (bind (exists_as c (key a)) (fun b : bool => if b then body a else ret tt))).
  { intros a. apply Inv_bind; [apply Inv_exists_as | intros b]. destruct b; [apply Hinv | apply Inv_ret]. }
  apply (for_each_ok_all (fun a => bind (exists_as c (key a)) (fun b : bool => if b then body a else ret tt))
           (cons g0) (fun a t => In (key a) (snd t)) l) with (s := s); [| |exact C|exact E].
  - intros a t1 t2 Ha C1 Et. split; [apply (cons_to g0 _ _ _ _ (Istep a) C1 Et)|].
    apply bind_ok in Et. destruct Et as [b [t0 [E0 Et]]]. unfold exists_as in E0. apply get_ok in E0. destruct E0 as [-> ->].
    destruct (has_node (fst t1) (key a) && cls_eqb (class_of (fst t1) (key a)) c) eqn:Eb.
    + apply (Hdel a t1 t2 Ha C1 Et).
    + apply ret_ok in Et. destruct Et as [_ ->]. apply (gone_in_D t1 (key a) c C1 (Hcls a Ha) Hne Eb).
  - intros a y t1 t2 _ C1 Hin Et. apply (ext_to g0 _ _ _ _ (key a) (Istep y) C1 Et Hin).
Qed.

End Prune.

(* what the collection phase of prune reaches: marked non-facility nodes, marked components of such nodes, marked
   services, marked interfaces of services *)
Definition prune_target (g : graph) (x : N) : Prop :=
  (In x (prune_nodes g) /\ marked g x = true) \/
  (exists n, In (x, n) (prune_comps g) /\ marked g x = true) \/
  (In x (prune_all_nss g) /\ marked g x = true) \/
  (exists s, In s (prune_all_nss g) /\ In x (cpn g s) /\ marked g x = true).

Lemma prune_all_nss_class g s : ids_distinct g -> In s (prune_all_nss g) -> class_of g s = CNS.
Proof.
  intros Hd Hs. unfold prune_all_nss in Hs. apply in_app_iff in Hs. destruct Hs as [Hs|Hs].
  - unfold prune_seen_nss in Hs. apply in_flat_map in Hs. destruct Hs as [cn [_ Hs]].
    apply first_neighbor_In in Hs. tauto.
  - unfold prune_other_nss in Hs. apply filter_In in Hs. destruct Hs as [Hs _].
    apply (all_of_class_facts g CNS s Hd Hs).
Qed.

Theorem prune7_targets ex cs g r g' tr :
  ids_distinct g -> run (exec ex OPrune7 cs) g = (inl r, (g', tr)) ->
  forall x, prune_target g x -> In x tr.
Proof.
  intros Hd E. unfold run in E. simpl in E. apply then_ret_ok in E. destruct E as [[] E].
  unfold api_prune7 in E. pose proof (cons_init g) as C0.
  apply bind_ok in E. destruct E as [ns_ [s1 [E1 E]]]. apply get_ok in E1. destruct E1 as [-> ->].
  apply bind_ok in E. destruct E as [cs0 [s1 [E1 E]]]. apply get_ok in E1. destruct E1 as [-> ->].
  apply bind_ok in E. destruct E as [ss [s1 [E1 E]]]. apply get_ok in E1. destruct E1 as [-> ->].
  apply bind_ok in E. destruct E as [is_ [s1 [E1 E]]]. apply get_ok in E1. destruct E1 as [-> ->].
  simpl in E.
  apply bind_ok in E. destruct E as [[] [s1 [L1 E]]].
  apply bind_ok in E. destruct E as [[] [s2 [L2 E]]].
  apply bind_ok in E. destruct E as [[] [s3 [L3 L4]]].
  (* loop 1: nodes *)
  destruct (guarded_loop g CNode snd (fun nn => api_remove_node (fst nn))
              (map (fun n : N => (name_of g n, n)) (filter (marked g) (prune_nodes g))) (g, []) s1 ltac:(discriminate)
              (fun nn => Inv_api_remove_node (fst nn))) as [C1 H1]; [| |exact C0|exact L1|].
  { intros [nm n] t t' Ha Ct Et. simpl in *. apply in_map_iff in Ha. destruct Ha as [n' [En Hn]].
    injection En as En1 En2. subst n'. apply filter_In in Hn. destruct Hn as [Hn _].
    unfold prune_nodes in Hn. apply filter_In in Hn. destruct Hn as [Hn _].
    destruct (all_of_class_facts g CNode n Hd Hn) as [_ Hb]. rewrite En1 in Hb.
    apply (del_api_remove_node g nm t t' n Ct Et Hb). }
  { intros [nm n] Ha. simpl. apply in_map_iff in Ha. destruct Ha as [n' [En Hn]]. injection En as _ En2. subst n'.
    apply filter_In in Hn. destruct Hn as [Hn _]. unfold prune_nodes in Hn. apply filter_In in Hn. destruct Hn as [Hn _].
    apply (all_of_class_facts g CNode n Hd Hn). }
  (* loop 2: components *)
  destruct (guarded_loop g CComp (fun cn : N * (N * N) => fst (snd cn))
              (fun cn => api_remove_component (snd (snd cn)) (fst cn))
              (map (fun cn : N * N => (name_of g (fst cn), cn)) (filter (fun cn : N * N => marked g (fst cn)) (prune_comps g)))
              s1 s2 ltac:(discriminate)
              (fun cn => Inv_api_remove_component (snd (snd cn)) (fst cn))) as [C2 H2]; [| |exact C1|exact L2|].
  { intros [cname [c n]] t t' Ha Ct Et. simpl in *. apply in_map_iff in Ha. destruct Ha as [[c' n'] [En Hn]].
    simpl in En. injection En as En1 En2 En3. subst c' n'. apply filter_In in Hn. destruct Hn as [Hn _].
    unfold prune_comps in Hn. apply in_flat_map in Hn. destruct Hn as [m [_ Hn]].
    apply in_map_iff in Hn. destruct Hn as [c'' [Ec Hn]]. injection Ec as Ec1 Ec2. subst c'' m.
    apply (del_api_remove_component g n cname t t' c Ct Et Hn En1). }
  { intros [cname [c n]] Ha. simpl. apply in_map_iff in Ha. destruct Ha as [[c' n'] [En Hn]].
    simpl in En. injection En as _ En2 En3. subst c' n'. apply filter_In in Hn. destruct Hn as [Hn _].
    unfold prune_comps in Hn. apply in_flat_map in Hn. destruct Hn as [m [_ Hn]].
    apply in_map_iff in Hn. destruct Hn as [c'' [Ec Hn]]. injection Ec as Ec1 Ec2. subst c'' m.
    apply first_neighbor_In in Hn. tauto. }
  (* loop 3: services *)
  destruct (guarded_loop g CNS (fun s : N => s) remove_ns_disconnecting
              (dedup (filter (marked g) (prune_all_nss g))) s2 s3 ltac:(discriminate)
              Inv_remove_ns_disconnecting) as [C3 H3]; [| |exact C2|exact L3|].
  { intros s t t' _ Ct Et. apply (del_remove_ns_disconnecting g s t t' Ct Et). }
  { intros s Ha. rewrite dedup_In in Ha. apply filter_In in Ha. destruct Ha as [Ha _].
    apply (prune_all_nss_class g s Hd Ha). }
  (* loop 4: interfaces *)
  destruct (guarded_loop g CCP (fun i : N => i)
              (fun i => bind (m_get (fun g => disc_list g [i])) (fun ifs =>
                        bind (for_each_set disconnect_step ifs) (fun _ => remove_cp_and_links i true)))
              (dedup (filter (marked g) (flat_map (ns_interfaces g) (prune_all_nss g)))) s3 (g', tr) ltac:(discriminate)) as [_ H4]; [| | |exact C3|exact L4|].
  { intros i. repeat first [apply Inv_disconnect_step | apply Inv_remove_cp | inv_step]. }
  { intros i t t' _ Ct Et. apply (del_prune_if7_body g i t t' Ct Et). }
  { intros i Ha. rewrite dedup_In in Ha. apply filter_In in Ha. destruct Ha as [Ha _].
    apply in_flat_map in Ha. destruct Ha as [s [_ Ha]]. apply (cpn_class g s). exact Ha. }
  (* collect *)
  assert (X1 : forall y, In y (snd s1) -> In y tr).
  { intros y Hy.
    apply (ext_to g _ _ _ _ y (Inv_for_each_set _ _ Inv_prune_if7) C3 L4).
    apply (ext_to g _ _ _ _ y (Inv_for_each_set _ _ Inv_prune_ns7) C2 L3).
    apply (ext_to g _ _ _ _ y (Inv_for_each_set _ _ Inv_prune_comp7) C1 L2). exact Hy. }
  assert (X2 : forall y, In y (snd s2) -> In y tr).
  { intros y Hy.
    apply (ext_to g _ _ _ _ y (Inv_for_each_set _ _ Inv_prune_if7) C3 L4).
    apply (ext_to g _ _ _ _ y (Inv_for_each_set _ _ Inv_prune_ns7) C2 L3). exact Hy. }
  assert (X3 : forall y, In y (snd s3) -> In y tr).
  { intros y Hy. apply (ext_to g _ _ _ _ y (Inv_for_each_set _ _ Inv_prune_if7) C3 L4). exact Hy. }
  intros x [[Hx Hm]|[[n [Hx Hm]]|[[Hx Hm]|[s [Hs [Hx Hm]]]]]].
  - apply X1. apply (H1 (name_of g x, x)). apply in_map_iff. exists x. split; [reflexivity|]. apply filter_In. auto.
  - apply X2. apply (H2 (name_of g x, (x, n))). apply in_map_iff. exists (x, n). split; [reflexivity|].
    apply filter_In. auto.
  - apply X3. apply (H3 x). rewrite dedup_In. apply filter_In. auto.
  - apply (H4 x). rewrite dedup_In. apply filter_In. split; [|exact Hm]. apply in_flat_map. exists s. auto.
Qed.

(* after C08-8 the collection phase also reaches the sub-interfaces of the service ports *)
Definition prune_target8 (g : graph) (x : N) : Prop :=
  prune_target g x \/
  (exists s j, In s (prune_all_nss g) /\ In j (cpn g s) /\ In x (with_children g j) /\ marked g x = true).

Theorem prune8_targets ex cs g r g' tr :
  ids_distinct g -> run (exec ex OPrune8 cs) g = (inl r, (g', tr)) ->
  forall x, prune_target8 g x -> In x tr.
Proof.
  intros Hd E. unfold run in E. simpl in E. apply then_ret_ok in E. destruct E as [[] E].
  unfold api_prune8 in E. pose proof (cons_init g) as C0.
  apply bind_ok in E. destruct E as [ns_ [s1 [E1 E]]]. apply get_ok in E1. destruct E1 as [-> ->].
  apply bind_ok in E. destruct E as [cs0 [s1 [E1 E]]]. apply get_ok in E1. destruct E1 as [-> ->].
  apply bind_ok in E. destruct E as [ss [s1 [E1 E]]]. apply get_ok in E1. destruct E1 as [-> ->].
  apply bind_ok in E. destruct E as [is_ [s1 [E1 E]]]. apply get_ok in E1. destruct E1 as [-> ->].
  simpl in E.
  apply bind_ok in E. destruct E as [[] [s1 [L1 E]]].
  apply bind_ok in E. destruct E as [[] [s2 [L2 E]]].
  apply bind_ok in E. destruct E as [[] [s3 [L3 L4]]].
  (* loop 1: nodes *)
  destruct (guarded_loop g CNode snd (fun nn => api_remove_node (fst nn))
              (map (fun n : N => (name_of g n, n)) (filter (marked g) (prune_nodes g))) (g, []) s1 ltac:(discriminate)
              (fun nn => Inv_api_remove_node (fst nn))) as [C1 H1]; [| |exact C0|exact L1|].
  { intros [nm n] t t' Ha Ct Et. simpl in *. apply in_map_iff in Ha. destruct Ha as [n' [En Hn]].
    injection En as En1 En2. subst n'. apply filter_In in Hn. destruct Hn as [Hn _].
    unfold prune_nodes in Hn. apply filter_In in Hn. destruct Hn as [Hn _].
    destruct (all_of_class_facts g CNode n Hd Hn) as [_ Hb]. rewrite En1 in Hb.
    apply (del_api_remove_node g nm t t' n Ct Et Hb). }
  { intros [nm n] Ha. simpl. apply in_map_iff in Ha. destruct Ha as [n' [En Hn]]. injection En as _ En2. subst n'.
    apply filter_In in Hn. destruct Hn as [Hn _]. unfold prune_nodes in Hn. apply filter_In in Hn. destruct Hn as [Hn _].
    apply (all_of_class_facts g CNode n Hd Hn). }
  (* loop 2: components *)
  destruct (guarded_loop g CComp (fun cn : N * (N * N) => fst (snd cn))
              (fun cn => api_remove_component (snd (snd cn)) (fst cn))
              (map (fun cn : N * N => (name_of g (fst cn), cn)) (filter (fun cn : N * N => marked g (fst cn)) (prune_comps g)))
              s1 s2 ltac:(discriminate)
              (fun cn => Inv_api_remove_component (snd (snd cn)) (fst cn))) as [C2 H2]; [| |exact C1|exact L2|].
  { intros [cname [c n]] t t' Ha Ct Et. simpl in *. apply in_map_iff in Ha. destruct Ha as [[c' n'] [En Hn]].
    simpl in En. injection En as En1 En2 En3. subst c' n'. apply filter_In in Hn. destruct Hn as [Hn _].
    unfold prune_comps in Hn. apply in_flat_map in Hn. destruct Hn as [m [_ Hn]].
    apply in_map_iff in Hn. destruct Hn as [c'' [Ec Hn]]. injection Ec as Ec1 Ec2. subst c'' m.
    apply (del_api_remove_component g n cname t t' c Ct Et Hn En1). }
  { intros [cname [c n]] Ha. simpl. apply in_map_iff in Ha. destruct Ha as [[c' n'] [En Hn]].
    simpl in En. injection En as _ En2 En3. subst c' n'. apply filter_In in Hn. destruct Hn as [Hn _].
    unfold prune_comps in Hn. apply in_flat_map in Hn. destruct Hn as [m [_ Hn]].
    apply in_map_iff in Hn. destruct Hn as [c'' [Ec Hn]]. injection Ec as Ec1 Ec2. subst c'' m.
    apply first_neighbor_In in Hn. tauto. }
  (* loop 3: services *)
  destruct (guarded_loop g CNS (fun s : N => s) remove_ns_disconnecting
              (dedup (filter (marked g) (prune_all_nss g))) s2 s3 ltac:(discriminate)
              Inv_remove_ns_disconnecting) as [C3 H3]; [| |exact C2|exact L3|].
  { intros s t t' _ Ct Et. apply (del_remove_ns_disconnecting g s t t' Ct Et). }
  { intros s Ha. rewrite dedup_In in Ha. apply filter_In in Ha. destruct Ha as [Ha _].
    apply (prune_all_nss_class g s Hd Ha). }
  (* loop 4: interfaces and sub-interfaces *)
  destruct (guarded_loop g CCP (fun i : N => i)
              (fun i => bind (m_get (fun g => disc_list g [i])) (fun ifs =>
                        bind (for_each_set disconnect_step ifs) (fun _ =>
                        bind (m_get (fun g => negb (N.eqb (type_of g i) T_SubInterface))) (fun dp =>
                        remove_cp_and_links i dp))))
              (dedup (filter (marked g) (flat_map (with_children g) (flat_map (ns_interfaces g) (prune_all_nss g)))))
              s3 (g', tr) ltac:(discriminate)) as [_ H4]; [| | |exact C3|exact L4|].
  { intros i. apply Inv_bind; [apply Inv_get | intros ifs].
    apply Inv_bind; [apply Inv_for_each_set; intros k; apply Inv_disconnect_step | intros _].
    apply Inv_bind; [apply Inv_get | intros dp]. apply Inv_remove_cp. }
  { intros i t t' _ Ct Et.
    apply bind_ok in Et. destruct Et as [ifs [t1 [E1 Et]]]. apply get_ok in E1. destruct E1 as [-> ->].
    apply bind_ok in Et. destruct Et as [[] [t1 [E1 Et]]].
    pose proof (cons_to g _ _ _ _ (Inv_for_each_set _ _ Inv_disconnect_step) Ct E1) as C1'.
    apply bind_ok in Et. destruct Et as [dp [t2 [E2 Et]]]. apply get_ok in E2. destruct E2 as [-> ->].
    apply (del_remove_cp g i _ t1 t' C1' Et). }
  { intros i Ha. rewrite dedup_In in Ha. apply filter_In in Ha. destruct Ha as [Ha _].
    apply in_flat_map in Ha. destruct Ha as [j [Hj Ha]].
    apply in_flat_map in Hj. destruct Hj as [s [_ Hj]].
    unfold with_children in Ha. destruct Ha as [<-|Ha]; [apply (cpn_class g s); exact Hj|].
    destruct (N.eqb (type_of g j) T_DedicatedPort); [|destruct Ha]. apply (cpn_class g j). exact Ha. }
  (* collect *)
  assert (X1 : forall y, In y (snd s1) -> In y tr).
  { intros y Hy.
    apply (ext_to g _ _ _ _ y (Inv_for_each_set _ _ Inv_prune_if8) C3 L4).
    apply (ext_to g _ _ _ _ y (Inv_for_each_set _ _ Inv_prune_ns7) C2 L3).
    apply (ext_to g _ _ _ _ y (Inv_for_each_set _ _ Inv_prune_comp7) C1 L2). exact Hy. }
  assert (X2 : forall y, In y (snd s2) -> In y tr).
  { intros y Hy.
    apply (ext_to g _ _ _ _ y (Inv_for_each_set _ _ Inv_prune_if8) C3 L4).
    apply (ext_to g _ _ _ _ y (Inv_for_each_set _ _ Inv_prune_ns7) C2 L3). exact Hy. }
  assert (X3 : forall y, In y (snd s3) -> In y tr).
  { intros y Hy. apply (ext_to g _ _ _ _ y (Inv_for_each_set _ _ Inv_prune_if8) C3 L4). exact Hy. }
  intros x [[[Hx Hm]|[[n [Hx Hm]]|[[Hx Hm]|[s [Hs [Hx Hm]]]]]]|[s [j [Hs [Hj [Hx Hm]]]]]].
  - apply X1. apply (H1 (name_of g x, x)). apply in_map_iff. exists x. split; [reflexivity|]. apply filter_In. auto.
  - apply X2. apply (H2 (name_of g x, (x, n))). apply in_map_iff. exists (x, n). split; [reflexivity|].
    apply filter_In. auto.
  - apply X3. apply (H3 x). rewrite dedup_In. apply filter_In. auto.
  - apply (H4 x). rewrite dedup_In. apply filter_In. split; [|exact Hm]. apply in_flat_map. exists x.
    split; [apply in_flat_map; exists s; auto | left; reflexivity].
  - apply (H4 x). rewrite dedup_In. apply filter_In. split; [|exact Hm]. apply in_flat_map. exists j.
    split; [apply in_flat_map; exists s; auto | exact Hx].
Qed.

(* ... and everything a marked element owns *)
Definition prune_owned (g : graph) (x : N) : Prop :=
  (exists n, In n (prune_nodes g) /\ marked g n = true /\ O_node g n x) \/
  (exists c n, In (c, n) (prune_comps g) /\ marked g c = true /\ O_comp g c x) \/
  (exists s, In s (prune_all_nss g) /\ marked g s = true /\ O_ns g s x) \/
  (exists s i, In s (prune_all_nss g) /\ In i (cpn g s) /\ marked g i = true /\ O_cp g i true x).

Theorem prune7_owned ex cs g r g' tr :
  ids_distinct g -> run (exec ex OPrune7 cs) g = (inl r, (g', tr)) ->
  forall x, prune_owned g x -> In x tr.
Proof.
  intros Hd E x Hx. pose proof (prune7_targets ex cs g r g' tr Hd E) as T.
  pose proof (closed_exec ex OPrune7 cs g r g' tr eq_refl E) as HC.
  destruct Hx as [[n [Hn [Hm Ho]]]|[[c [n [Hc [Hm Ho]]]]|[[s [Hs [Hm Ho]]]|[s [i [Hs [Hi [Hm Ho]]]]]]]].
  - apply (closed_O_node g tr n x HC); [apply T; left; auto | | exact Ho].
    unfold prune_nodes in Hn. apply filter_In in Hn. destruct Hn as [Hn _]. apply (all_of_class_facts g CNode n Hd Hn).
  - apply (closed_O_comp g tr c x HC); [apply T; right; left; exists n; auto | | exact Ho].
    unfold prune_comps in Hc. apply in_flat_map in Hc. destruct Hc as [m [_ Hc]].
    apply in_map_iff in Hc. destruct Hc as [c' [Ec Hc]]. injection Ec as Ec1 Ec2. subst c' m.
    apply first_neighbor_In in Hc. tauto.
  - apply (closed_O_ns g tr s x HC); [apply T; right; right; left; auto | apply (prune_all_nss_class g s Hd Hs) | exact Ho].
  - apply (closed_O_cp g tr i x HC); [apply T; right; right; right; exists s; auto | exact Ho].
Qed.

(* after C08-9 the collection phase also reaches the Facility nodes *)
Definition prune_target9 (g : graph) (x : N) : Prop :=
  prune_target8 g x \/ (In x (all_of_class g CNode) /\ marked g x = true).

Theorem prune9_targets ex cs g r g' tr :
  ids_distinct g -> run (exec ex OPrune9 cs) g = (inl r, (g', tr)) ->
  forall x, prune_target9 g x -> In x tr.
Proof.
  intros Hd E. unfold run in E. simpl in E. apply then_ret_ok in E. destruct E as [[] E].
  unfold api_prune9 in E. pose proof (cons_init g) as C0.
  apply bind_ok in E. destruct E as [ns_ [s1 [E1 E]]]. apply get_ok in E1. destruct E1 as [-> ->].
  apply bind_ok in E. destruct E as [cs0 [s1 [E1 E]]]. apply get_ok in E1. destruct E1 as [-> ->].
  apply bind_ok in E. destruct E as [ss [s1 [E1 E]]]. apply get_ok in E1. destruct E1 as [-> ->].
  apply bind_ok in E. destruct E as [is_ [s1 [E1 E]]]. apply get_ok in E1. destruct E1 as [-> ->].
  simpl in E.
  apply bind_ok in E. destruct E as [[] [s1 [L1 E]]].
  apply bind_ok in E. destruct E as [[] [s2 [L2 E]]].
  apply bind_ok in E. destruct E as [[] [s3 [L3 L4]]].
  (* loop 1: nodes, facilities included *)
  destruct (guarded_loop g CNode snd
              (fun nn => bind (m_get (fun g => type_of g (snd nn))) (fun t =>
                         if N.eqb t T_Facility then api_remove_facility (fst nn) else api_remove_node (fst nn)))
              (map (fun n : N => (name_of g n, n)) (filter (marked g) (all_of_class g CNode))) (g, []) s1 ltac:(discriminate))
    as [C1 H1]; [| | |exact C0|exact L1|].
  { intros nn. apply Inv_bind; [apply Inv_get | intros t].
    destruct (N.eqb t T_Facility); [apply Inv_api_remove_facility | apply Inv_api_remove_node]. }
  { intros [nm n] t t' Ha Ct Et. simpl in *. apply in_map_iff in Ha. destruct Ha as [n' [En Hn]].
    injection En as En1 En2. subst n'. apply filter_In in Hn. destruct Hn as [Hn _].
    destruct (all_of_class_facts g CNode n Hd Hn) as [_ Hb]. rewrite En1 in Hb.
    apply bind_ok in Et. destruct Et as [ty [t1 [E1 Et]]]. apply get_ok in E1. destruct E1 as [-> ->].
    destruct (N.eqb (type_of (fst t) n) T_Facility).
    - apply (del_api_remove_facility g nm t t' n Ct Et Hb).
    - apply (del_api_remove_node g nm t t' n Ct Et Hb). }
  { intros [nm n] Ha. simpl. apply in_map_iff in Ha. destruct Ha as [n' [En Hn]]. injection En as _ En2. subst n'.
    apply filter_In in Hn. destruct Hn as [Hn _].
    apply (all_of_class_facts g CNode n Hd Hn). }
  (* loop 2: components *)
  destruct (guarded_loop g CComp (fun cn : N * (N * N) => fst (snd cn))
              (fun cn => api_remove_component (snd (snd cn)) (fst cn))
              (map (fun cn : N * N => (name_of g (fst cn), cn)) (filter (fun cn : N * N => marked g (fst cn)) (prune_comps g)))
              s1 s2 ltac:(discriminate)
              (fun cn => Inv_api_remove_component (snd (snd cn)) (fst cn))) as [C2 H2]; [| |exact C1|exact L2|].
  { intros [cname [c n]] t t' Ha Ct Et. simpl in *. apply in_map_iff in Ha. destruct Ha as [[c' n'] [En Hn]].
    simpl in En. injection En as En1 En2 En3. subst c' n'. apply filter_In in Hn. destruct Hn as [Hn _].
    unfold prune_comps in Hn. apply in_flat_map in Hn. destruct Hn as [m [_ Hn]].
    apply in_map_iff in Hn. destruct Hn as [c'' [Ec Hn]]. injection Ec as Ec1 Ec2. subst c'' m.
    apply (del_api_remove_component g n cname t t' c Ct Et Hn En1). }
  { intros [cname [c n]] Ha. simpl. apply in_map_iff in Ha. destruct Ha as [[c' n'] [En Hn]].
    simpl in En. injection En as _ En2 En3. subst c' n'. apply filter_In in Hn. destruct Hn as [Hn _].
    unfold prune_comps in Hn. apply in_flat_map in Hn. destruct Hn as [m [_ Hn]].
    apply in_map_iff in Hn. destruct Hn as [c'' [Ec Hn]]. injection Ec as Ec1 Ec2. subst c'' m.
    apply first_neighbor_In in Hn. tauto. }
  (* loop 3: services *)
  destruct (guarded_loop g CNS (fun s : N => s) remove_ns_disconnecting
              (dedup (filter (marked g) (prune_all_nss g))) s2 s3 ltac:(discriminate)
              Inv_remove_ns_disconnecting) as [C3 H3]; [| |exact C2|exact L3|].
  { intros s t t' _ Ct Et. apply (del_remove_ns_disconnecting g s t t' Ct Et). }
  { intros s Ha. rewrite dedup_In in Ha. apply filter_In in Ha. destruct Ha as [Ha _].
    apply (prune_all_nss_class g s Hd Ha). }
  (* loop 4: interfaces and sub-interfaces *)
  destruct (guarded_loop g CCP (fun i : N => i)
              (fun i => bind (m_get (fun g => disc_list g [i])) (fun ifs =>
                        bind (for_each_set disconnect_step ifs) (fun _ =>
                        bind (m_get (fun g => negb (N.eqb (type_of g i) T_SubInterface))) (fun dp =>
                        remove_cp_and_links i dp))))
              (dedup (filter (marked g) (flat_map (with_children g) (flat_map (ns_interfaces g) (prune_all_nss g)))))
              s3 (g', tr) ltac:(discriminate)) as [_ H4]; [| | |exact C3|exact L4|].
  { intros i. apply Inv_bind; [apply Inv_get | intros ifs].
    apply Inv_bind; [apply Inv_for_each_set; intros k; apply Inv_disconnect_step | intros _].
    apply Inv_bind; [apply Inv_get | intros dp]. apply Inv_remove_cp. }
  { intros i t t' _ Ct Et.
    apply bind_ok in Et. destruct Et as [ifs [t1 [E1 Et]]]. apply get_ok in E1. destruct E1 as [-> ->].
    apply bind_ok in Et. destruct Et as [[] [t1 [E1 Et]]].
    pose proof (cons_to g _ _ _ _ (Inv_for_each_set _ _ Inv_disconnect_step) Ct E1) as C1'.
    apply bind_ok in Et. destruct Et as [dp [t2 [E2 Et]]]. apply get_ok in E2. destruct E2 as [-> ->].
    apply (del_remove_cp g i _ t1 t' C1' Et). }
  { intros i Ha. rewrite dedup_In in Ha. apply filter_In in Ha. destruct Ha as [Ha _].
    apply in_flat_map in Ha. destruct Ha as [j [Hj Ha]].
    apply in_flat_map in Hj. destruct Hj as [s [_ Hj]].
    unfold with_children in Ha. destruct Ha as [<-|Ha]; [apply (cpn_class g s); exact Hj|].
    destruct (N.eqb (type_of g j) T_DedicatedPort); [|destruct Ha]. apply (cpn_class g j). exact Ha. }
  (* collect *)
  assert (X1 : forall y, In y (snd s1) -> In y tr).
  { intros y Hy.
    apply (ext_to g _ _ _ _ y (Inv_for_each_set _ _ Inv_prune_if8) C3 L4).
    apply (ext_to g _ _ _ _ y (Inv_for_each_set _ _ Inv_prune_ns7) C2 L3).
    apply (ext_to g _ _ _ _ y (Inv_for_each_set _ _ Inv_prune_comp7) C1 L2). exact Hy. }
  assert (X2 : forall y, In y (snd s2) -> In y tr).
  { intros y Hy.
    apply (ext_to g _ _ _ _ y (Inv_for_each_set _ _ Inv_prune_if8) C3 L4).
    apply (ext_to g _ _ _ _ y (Inv_for_each_set _ _ Inv_prune_ns7) C2 L3). exact Hy. }
  assert (X3 : forall y, In y (snd s3) -> In y tr).
  { intros y Hy. apply (ext_to g _ _ _ _ y (Inv_for_each_set _ _ Inv_prune_if8) C3 L4). exact Hy. }
  intros x [[[[Hx Hm]|[[n [Hx Hm]]|[[Hx Hm]|[s [Hs [Hx Hm]]]]]]|[s [j [Hs [Hj [Hx Hm]]]]]]|[Hx Hm]].
  - apply X1. apply (H1 (name_of g x, x)). apply in_map_iff. exists x. split; [reflexivity|]. apply filter_In.
    split; [|exact Hm]. unfold prune_nodes in Hx. apply filter_In in Hx. tauto.
  - apply X2. apply (H2 (name_of g x, (x, n))). apply in_map_iff. exists (x, n). split; [reflexivity|].
    apply filter_In. auto.
  - apply X3. apply (H3 x). rewrite dedup_In. apply filter_In. auto.
  - apply (H4 x). rewrite dedup_In. apply filter_In. split; [|exact Hm]. apply in_flat_map. exists x.
    split; [apply in_flat_map; exists s; auto | left; reflexivity].
  - apply (H4 x). rewrite dedup_In. apply filter_In. split; [|exact Hm]. apply in_flat_map. exists j.
    split; [apply in_flat_map; exists s; auto | exact Hx].
  - apply X1. apply (H1 (name_of g x, x)). apply in_map_iff. exists x. split; [reflexivity|]. apply filter_In. auto.
Qed.

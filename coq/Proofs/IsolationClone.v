(* C04: a clone has the content of its source under the new id (shared store), over every history of
   well-formed operations; independence is the frame theorem.  Needs two structural invariants of
   nx.Graph that the list model does not give for free: every link joins two stored nodes, and no two
   links join the same pair. *)
From Coq Require Import List NArith Bool Lia.
From FIM Require Import Base.Assoc Model.Store.
From FIM Require Import Proofs.IsolationBase Proofs.IsolationShared Proofs.IsolationFrame.
From FIM Require Import Proofs.RefineUnique Proofs.RefineSim Proofs.RefineStores.
Import ListNotations.
Open Scope N_scope.

(* ---------- no two links join the same unordered pair ---------- *)
Fixpoint pdist (l : list (N * N)) : Prop :=
  match l with
  | [] => True
  | p :: r => (forall q, In q r -> same_pair p q = false) /\ pdist r
  end.

Definition EDist (G : nxg) : Prop := pdist (map fst (ge G)).

Lemma pdistb_pdist l : pdistb l = true -> pdist l.
Proof.
  induction l as [|p r IH]; cbn [pdistb pdist]; [auto|]. intro H. apply andb_true_iff in H as [H1 H2].
  split; [|now apply IH]. intros q Hq. rewrite forallb_forall in H1. specialize (H1 q Hq). now apply negb_true_iff in H1.
Qed.

Lemma same_pair_sym p q : same_pair p q = same_pair q p.
Proof.
  unfold same_pair. rewrite (N.eqb_sym (fst p) (fst q)), (N.eqb_sym (snd p) (snd q)),
    (N.eqb_sym (fst p) (snd q)), (N.eqb_sym (snd p) (fst q)).
  destruct (N.eqb (fst q) (fst p)), (N.eqb (snd q) (snd p)), (N.eqb (snd q) (fst p)), (N.eqb (fst q) (snd p)); reflexivity.
Qed.

Lemma edge_is_same_pair a b e : edge_is a b e = same_pair (fst e) (a, b).
Proof. destruct e as [[x y] ps]. reflexivity. Qed.

Lemma pdist_app_single l p : pdist l -> (forall q, In q l -> same_pair q p = false) -> pdist (l ++ [p]).
Proof.
  induction l as [|x r IH]; cbn [app pdist]; intros H Hp.
  - split; [intros q []|exact I].
  - destruct H as [H1 H2]. split.
    + intros q Hq. apply in_app_or in Hq as [Hq|[Hq|[]]]; [now apply H1 | subst q; apply Hp; now left].
    + apply IH; [exact H2 | intros; apply Hp; now right].
Qed.

Lemma pdist_filter (f : N * N -> bool) l : pdist l -> pdist (filter f l).
Proof.
  induction l as [|x r IH]; cbn [filter pdist]; [auto|]. intros [H1 H2].
  destruct (f x); cbn [pdist]; [split|]; auto.
  intros q Hq. apply filter_In in Hq as [Hq _]. now apply H1.
Qed.

Lemma map_fst_filter_edges (f : N * N -> bool) (l : list edge) :
  map fst (filter (fun e => f (fst e)) l) = filter f (map fst l).
Proof. induction l as [|[p d] r IH]; simpl; [reflexivity|]. destruct (f p); simpl; now rewrite IH. Qed.

Lemma map_fst_set_edge a b ps l : map fst (set_edge a b ps l) = map fst l.
Proof.
  induction l as [|[[x y] d] r IH]; [reflexivity|]. cbn [set_edge].
  destruct (edge_is a b (x, y, d)); cbn [map fst snd]; [reflexivity | now rewrite IH].
Qed.

Lemma find_none_forall {A} (f : A -> bool) l : find f l = None <-> forall x, In x l -> f x = false.
Proof.
  induction l as [|x r IH]; simpl; [split; [intros _ y [] | reflexivity]|].
  destruct (f x) eqn:E.
  - split; [discriminate | intro H; specialize (H x (or_introl eq_refl)); congruence].
  - rewrite IH. split; intros H y; [intros [Hy|Hy]; [now subst | now apply H] | intro Hy; apply H; now right].
Qed.

Lemma EDist_add_edge G a b ps : EDist G -> EDist (nx_add_edge G a b ps).
Proof.
  unfold EDist, nx_add_edge. intro H. destruct (nx_edge G a b) eqn:E.
  - unfold nx_set_edge. cbn [ge]. now rewrite map_fst_set_edge.
  - cbn [ge]. rewrite map_app. cbn [map fst]. apply pdist_app_single; [exact H|].
    intros q Hq. apply in_map_iff in Hq as [e [Ee He]]. subst q.
    unfold nx_edge in E. destruct (find (edge_is a b) (ge G)) as [[[x y] d]|] eqn:Ef; [discriminate|].
    pose proof (proj1 (find_none_forall _ _) Ef e He) as K. now rewrite edge_is_same_pair in K.
Qed.

Lemma EDist_remap u v G e : EDist G -> EDist (remap_edge u v G e).
Proof.
  destruct e as [[p q] d]. unfold remap_edge.
  set (x := if N.eqb (if N.eqb p v then q else p) v then u else (if N.eqb p v then q else p)).
  intro H. destruct (nx_edge G u x) eqn:E.
  - unfold EDist, nx_set_edge. cbn [ge]. now rewrite map_fst_set_edge.
  - unfold EDist. cbn [ge]. rewrite map_app. cbn [map fst]. apply pdist_app_single; [exact H|].
    intros q0 Hq. apply in_map_iff in Hq as [e [Ee He]]. subst q0.
    unfold nx_edge in E. destruct (find (edge_is u x) (ge G)) as [[[a b] d']|] eqn:Ef; [discriminate|].
    pose proof (proj1 (find_none_forall _ _) Ef e He) as K. now rewrite edge_is_same_pair in K.
Qed.

Lemma EDist_same_ge G' G : ge G' = ge G -> EDist G -> EDist G'.
Proof. unfold EDist. intros E H. now rewrite E. Qed.

Lemma EDist_filter_edges (f : edge -> bool) G ns : EDist G -> EDist (mkG ns (filter f (ge G))).
Proof.
  unfold EDist. cbn [ge]. generalize (ge G). induction l as [|[p d] r IH]; cbn [map filter pdist fst]; [auto|].
  intros [H1 H2]. destruct (f (p, d)); cbn [map pdist fst]; [split|]; auto.
  intros q Hq. apply in_map_iff in Hq as [e [Ee He]]. apply filter_In in He as [He _]. apply H1.
  rewrite <- Ee. now apply in_map.
Qed.

Lemma EDist_fold_add es : forall G, EDist G -> EDist (fold_left (fun acc e => let '(a, b, ps) := e in nx_add_edge acc a b ps) es G).
Proof. induction es as [|[[a b] ps] r IH]; intros G H; cbn [fold_left]; [exact H|]. apply IH. now apply EDist_add_edge. Qed.

Lemma EDist_fold_nodes ns : forall G, EDist G -> EDist (fold_left (fun acc n => nx_add_node acc (fst n) (snd n)) ns G).
Proof.
  induction ns as [|n r IH]; intros G H; cbn [fold_left]; [exact H|]. apply IH.
  apply (EDist_same_ge _ G); [|exact H]. unfold nx_add_node. now destruct (nx_node G (fst n)).
Qed.

Lemma EDist_add_all G ns es : EDist G -> EDist (nx_add_all G ns es).
Proof. intro H. unfold nx_add_all. apply EDist_fold_add. now apply EDist_fold_nodes. Qed.

Lemma EDist_contract G u v : EDist G -> EDist (contract G u v).
Proof.
  intro H. unfold contract.
  assert (K : forall es G0, EDist G0 -> EDist (fold_left (remap_edge u v) es G0)).
  { induction es as [|e r IH]; intros G0 H0; cbn [fold_left]; [exact H0|]. apply IH. now apply EDist_remap. }
  apply K. unfold nx_remove_node. now apply EDist_filter_edges.
Qed.

Lemma EDist_strip u G : EDist G -> EDist (strip_contraction u G).
Proof.
  unfold EDist, strip_contraction. cbn [ge]. rewrite map_map.
  assert (E : map (fun x => fst (strip_edge u x)) (ge G) = map fst (ge G)).
  { apply map_ext. intros [[p q] d]. unfold strip_edge. now destruct (edge_touches u (p, q, d)). }
  now rewrite E.
Qed.

Theorem EDist_step s o : EDist (sg s) -> EDist (sg (fst (sstep s o))).
Proof.
  intro H.
  assert (Kset : forall G id ps, EDist G -> EDist (nx_set_node G id ps)) by (intros; now apply (EDist_same_ge _ G)).
  assert (Kdel : forall g, EDist (sg (s_del_graph s g))).
  { intro g. unfold s_del_graph, nx_remove_nodes. cbn [sg]. now apply EDist_filter_edges. }
  assert (Kimp : forall g ig, EDist (sg (fst (s_add_graph s g ig)))).
  { intros g ig. unfold s_add_graph. destruct (existsb _ _); cbn [fst sg]; [apply Kdel | apply EDist_add_all, Kdel]. }
  destruct o; cbn [sstep lift fst sg]; try exact H.
  - apply Kimp.
  - unfold s_add_graph_direct. cbn [fst sg]. apply EDist_add_all, Kdel.
  - apply Kdel.
  - unfold s_clone. destruct (s_extract (sg s) g); [apply Kimp | exact H].
  - destruct (pg_add_node (sg s) g (snext s) n c ps) as [G'|] eqn:E; cbn [fst sg]; [|exact H].
    unfold pg_add_node in E. destruct (search _ _); [|discriminate].
    assert (H1 : EDist (nx_add_node (sg s) (snext s) (blank_attrs g n c))).
    { apply (EDist_same_ge _ (sg s)); [|exact H]. unfold nx_add_node. now destruct (nx_node (sg s) (snext s)). }
    destruct ps as [u|]; [|inversion E; subst; exact H1].
    destruct (nx_node _ (snext s)); inversion E; subst; [now apply Kset | exact H1].
  - unfold pg_delete_node. destruct (find_node (sg s) g n); cbn [fst]; [|exact H].
    unfold nx_remove_node. now apply EDist_filter_edges.
  - unfold pg_add_link. destruct (find_node (sg s) g a); [|exact H]. destruct (find_node (sg s) g b); [|exact H].
    destruct ps as [u|]; cbn [fst]; [destruct (ahas k_class u); cbn [fst]; [exact H|]|]; now apply EDist_add_edge.
  - unfold pg_update_node. destruct (N.eqb p k_class); [exact H|]. destruct (find_node (sg s) g n); [|exact H].
    destruct (nx_node (sg s) n0); cbn [fst]; [now apply Kset | exact H].
  - unfold pg_unset_node. destruct (N.eqb p k_class); [exact H|]. destruct (memN p no_unset); [exact H|].
    destruct (find_node (sg s) g n); [|exact H]. destruct (nx_node (sg s) n0); cbn [fst]; [now apply Kset | exact H].
  - unfold pg_update_nodes. destruct (find_all (sg s) g); [|exact H]. destruct (N.eqb p k_class); cbn [fst]; [exact H|].
    now apply (EDist_same_ge _ (sg s)).
  - unfold pg_update_node_props. destruct (ahas k_class ps); [exact H|]. destruct (find_node (sg s) g n); [|exact H].
    destruct (nx_node (sg s) n0); cbn [fst]; [now apply Kset | exact H].
  - unfold pg_update_link, with_link. destruct (N.eqb p k_class); [exact H|].
    destruct (find_link (sg s) g a b) as [[[ia ib] q]|]; [|exact H]. destruct (has_val q k_class k); cbn [fst]; [|exact H].
    unfold EDist, nx_set_edge. cbn [ge]. now rewrite map_fst_set_edge.
  - unfold pg_unset_link, with_link. destruct (N.eqb p k_class); [exact H|].
    destruct (find_link (sg s) g a b) as [[[ia ib] q]|]; [|exact H]. destruct (has_val q k_class k); cbn [fst]; [|exact H].
    unfold EDist, nx_set_edge. cbn [ge]. now rewrite map_fst_set_edge.
  - unfold pg_update_link_props, with_link. destruct (ahas k_class ps); [exact H|].
    destruct (find_link (sg s) g a b) as [[[ia ib] q]|]; [|exact H]. destruct (has_val q k_class k); cbn [fst]; [|exact H].
    unfold EDist, nx_set_edge. cbn [ge]. now rewrite map_fst_set_edge.
  - unfold s_merge. destruct (N.eqb g g2); [exact H|]. destruct (negb (pg_graph_exists (sg s) g2)); [exact H|].
    destruct (find_node (sg s) g n) as [u|]; [|exact H]. destruct (find_node (sg s) g2 n) as [v|]; [|exact H].
    destruct (nx_node (sg s) u); [|exact H]. destruct (nx_node (sg s) v); [|exact H].
    destruct pol as [pp|]; cbn [fst]; [destruct (merge_props _ _ _ _); cbn [fst]; [|exact H]|]; apply Kset; apply EDist_strip; now apply EDist_contract.
Qed.

Theorem EDist_run ops : forall s, EDist (sg s) -> EDist (sg (srun ops s)).
Proof. induction ops as [|o r IH]; intros s H; cbn [srun fold_left]; [exact H|]. apply IH. now apply EDist_step. Qed.

(* ---------- every link joins two stored nodes: all histories of well-formed operations ---------- *)
Definition wf_op (o : op) : bool :=
  match o with OImport _ ig | OImportDirect _ ig => edges_ok ig | _ => true end.

Lemma closed_fold_add_edges es : forall G,
  (forall a b ps, In (a, b, ps) es -> In a (ids G) /\ In b (ids G)) -> EClosed G ->
  EClosed (fold_left (fun acc e => let '(a, b, ps) := e in nx_add_edge acc a b ps) es G).
Proof.
  induction es as [|[[a b] ps] r IH]; intros G He H; cbn [fold_left]; [exact H|].
  destruct (He a b ps (or_introl eq_refl)) as [Ha Hb].
  apply IH; [|now apply closed_add_edge].
  intros a' b' ps' Hin. assert (ids (nx_add_edge G a b ps) = ids G) by (unfold ids, nx_add_edge; now destruct (nx_edge G a b)).
  rewrite H0. apply (He a' b' ps'). now right.
Qed.

Lemma closed_add_all G ns es first :
  NoDup (ids G) -> (forall i, In i (ids G) -> i < first) -> map fst ns = seqN first (length ns) ->
  (forall a b ps, In (a, b, ps) es -> In a (map fst ns) /\ In b (map fst ns)) ->
  EClosed G -> EClosed (nx_add_all G ns es).
Proof.
  intros Hnd Hlt Hfst He H. unfold nx_add_all.
  assert (Hfresh : forall i, In i (map fst ns) -> ~ In i (ids G)).
  { intros i Hi Hin. rewrite Hfst in Hi. apply seqN_In in Hi. apply Hlt in Hin. lia. }
  rewrite add_nodes_fresh; [| rewrite Hfst; apply seqN_NoDup | exact Hfresh].
  apply closed_fold_add_edges.
  - intros a b ps Hin. destruct (He a b ps Hin) as [Ha Hb]. unfold ids. cbn [gn]. rewrite map_app.
    split; apply in_or_app; now right.
  - intros a b q Hin. cbn [ge] in Hin. destruct (H a b q Hin) as [Ha Hb]. unfold ids. cbn [gn]. rewrite map_app.
    split; apply in_or_app; now left.
Qed.

Lemma relabel_edges_in ig first a b ps :
  edges_ok ig = true -> In (a, b, ps) (iedges (relabel ig first)) ->
  In a (map fst (inodes (relabel ig first))) /\ In b (map fst (inodes (relabel ig first))).
Proof.
  intros Hok Hin. rewrite relabel_inodes_fst. unfold relabel in *. cbn [iedges inodes] in *.
  rewrite relabel_nodes_length. apply in_map_iff in Hin as [[[a0 b0] q] [E Hin]].
  unfold edges_ok in Hok. rewrite forallb_forall in Hok. specialize (Hok _ Hin). cbn in Hok.
  apply andb_true_iff in Hok as [Ha Hb]. unfold relabel_edge in E.
  destruct (index_of_some a0 (inodes ig) first Ha) as [i Hi]. destruct (index_of_some b0 (inodes ig) first Hb) as [j Hj].
  rewrite Hi, Hj in E. inversion E; subst. apply index_of_bounds in Hi, Hj. split; apply seqN_In; lia.
Qed.

Lemma closed_import s g ig stamped :
  SInv s -> edges_ok ig = true -> EClosed (sg s) ->
  map fst stamped = map fst (inodes (relabel ig (snext s))) ->
  EClosed (nx_add_all (sg (s_del_graph s g)) stamped (iedges (relabel ig (snext s)))).
Proof.
  intros HI Hok H Hst. pose proof (SInv_del_graph s g HI) as [H1 H2].
  apply (closed_add_all _ _ _ (snext s)); auto.
  - rewrite Hst, relabel_inodes_fst. f_equal. rewrite <- (map_length fst stamped), Hst, map_length. reflexivity.
  - intros a b ps Hin. rewrite Hst. now apply (relabel_edges_in ig (snext s) a b ps).
  - unfold s_del_graph. cbn [sg]. now apply closed_remove_nodes.
Qed.

Lemma closed_contract G u v : In u (ids G) -> u <> v -> EClosed G -> EClosed (contract G u v).
Proof.
  intros Hu Huv H. unfold contract.
  assert (Hids : ids (nx_remove_node G v) = filter (fun i => negb (N.eqb i v)) (ids G)).
  { unfold ids, nx_remove_node. cbn [gn]. apply (map_fst_filter_fst (fun i => negb (N.eqb i v))). }
  assert (Hu' : In u (ids (nx_remove_node G v))).
  { rewrite Hids. apply filter_In. split; [exact Hu|]. apply negb_true_iff. now apply N.eqb_neq. }
  assert (K : forall es G0, ids G0 = ids (nx_remove_node G v) -> EClosed G0 ->
              (forall e, In e es -> In e (ge G) /\ edge_touches v e = true) ->
              EClosed (fold_left (remap_edge u v) es G0)).
  { induction es as [|[[p q] d] r IH]; intros G0 Hi H0 He; cbn [fold_left]; [exact H0|].
    destruct (He (p, q, d) (or_introl eq_refl)) as [Hin Ht]. destruct (H p q d Hin) as [Hp Hq].
    set (x0 := if N.eqb p v then q else p). set (x := if N.eqb x0 v then u else x0).
    assert (Hx : In x (ids G0)).
    { rewrite Hi. unfold x. destruct (N.eqb x0 v) eqn:Ex; [exact Hu'|]. rewrite Hids. apply filter_In.
      split; [unfold x0; destruct (N.eqb p v); assumption | now rewrite Ex]. }
    assert (Hu0 : In u (ids G0)) by (rewrite Hi; exact Hu').
    apply IH.
    - unfold remap_edge. fold x0 x. destruct (nx_edge G0 u x); [|exact Hi]. exact Hi.
    - unfold remap_edge. fold x0 x. destruct (nx_edge G0 u x).
      + now apply closed_set_edge.
      + intros a b q0 Hin0. cbn [ge] in Hin0. apply in_app_or in Hin0 as [Hin0|[Hin0|[]]].
        * exact (H0 a b q0 Hin0).
        * inversion Hin0; subst. now split.
    - intros e He'. apply He. now right. }
  apply K; [reflexivity | now apply closed_remove_node |].
  intros e He. apply filter_In in He. exact He.
Qed.

Lemma closed_strip u G : EClosed G -> EClosed (strip_contraction u G).
Proof.
  intros H a b q Hin. unfold strip_contraction in Hin. cbn [ge] in Hin. apply in_map_iff in Hin as [[[x y] d] [E Hin]].
  unfold strip_edge in E. destruct (edge_touches u (x, y, d)); inversion E; subst; exact (H _ _ _ Hin).
Qed.

Theorem closed_step_all s o : SInv s -> wf_op o = true -> EClosed (sg s) -> EClosed (sg (fst (sstep s o))).
Proof.
  intros HI Hwf H. pose proof HI as [Hnd Hlt].
  destruct (closed_pg_ops (sg s) (target o) Hnd H) as [C1 [C2 [C3 [C4 [C5 [C6 C7]]]]]].
  assert (Kimp : forall g ig, edges_ok ig = true -> EClosed (sg (fst (s_add_graph s g ig)))).
  { intros g ig Hok. unfold s_add_graph.
    destruct (existsb node_id_missing (inodes (relabel ig (snext (s_del_graph s g))))); cbn [fst sg].
    - unfold s_del_graph. cbn [sg]. now apply closed_remove_nodes.
    - apply (closed_import s g ig); auto. apply map_fst_stamp. }
  destruct o; cbn in Hwf; cbn [sstep target lift fst sg] in *; try exact H; auto.
  - unfold s_add_graph_direct. cbn [fst sg]. now apply (closed_import s g ig).
  - unfold s_del_graph. cbn [sg]. now apply closed_remove_nodes.
  - unfold s_clone. destruct (s_extract (sg s) g) as [ig|] eqn:E; [|exact H]. apply Kimp. eapply extract_edges_ok; eauto.
  - destruct (pg_add_node (sg s) g (snext s) n c ps) as [G'|] eqn:E; cbn [fst sg]; [|exact H].
    eapply closed_add_node; [| exact H | exact E].
    unfold nx_node. apply aget_None_notin. intro Hin. apply Hlt in Hin. lia.
  - apply C5.
  - apply C5.
  - apply C5.
  - unfold s_merge. destruct (N.eqb g g2) eqn:Eg; [exact H|]. apply N.eqb_neq in Eg.
    destruct (negb (pg_graph_exists (sg s) g2)); [exact H|].
    destruct (find_node (sg s) g n) as [u|] eqn:Eu; [|exact H]. destruct (find_node (sg s) g2 n) as [v|] eqn:Ev; [|exact H].
    destruct (nx_node (sg s) u) eqn:Enu; [|exact H]. destruct (nx_node (sg s) v); [|exact H].
    assert (Huv : u <> v).
    { intro E; subst v.
      destruct (find_node_sound (sg s) g n u Hnd Eu) as [p1 [A1 [A2 _]]].
      destruct (find_node_sound (sg s) g2 n u Hnd Ev) as [p2 [B1 [B2 _]]].
      rewrite A1 in B1. inversion B1; subst p2. apply Eg. eapply has_val_inj; eauto. }
    assert (Hc : EClosed (strip_contraction u (contract (sg s) u v))).
    { apply closed_strip. apply closed_contract; auto. eapply found_in_ids_G; eauto. }
    destruct pol as [pp|]; cbn [fst]; [destruct (merge_props _ _ _ _); cbn [fst]; [|exact H]|]; now apply closed_set_node.
Qed.

Theorem clone_invariants_run ops : forall s,
  SInv s -> EClosed (sg s) -> EDist (sg s) -> (forall o, In o ops -> wf_op o = true) ->
  SInv (srun ops s) /\ EClosed (sg (srun ops s)) /\ EDist (sg (srun ops s)).
Proof.
  induction ops as [|o r IH]; intros s H1 H2 H3 Hwf; cbn [srun fold_left]; [auto|].
  apply IH; [now apply SInv_step | apply closed_step_all; auto; apply Hwf; now left | now apply EDist_step |
             intros; apply Hwf; now right].
Qed.

(* ---------- adding links none of which is stored yet appends them ---------- *)
Lemma pdist_app_l l r : pdist (l ++ r) -> pdist l.
Proof.
  induction l as [|x l IH]; cbn [app pdist]; [auto|]. intros [H1 H2]. split; [|now apply IH].
  intros q Hq. apply H1. apply in_or_app. now left.
Qed.

Lemma pdist_app_cross l r p q : pdist (l ++ r) -> In p l -> In q r -> same_pair p q = false.
Proof.
  induction l as [|x l IH]; cbn [app pdist]; [intros _ []|]. intros [H1 H2] [Hp|Hp] Hq.
  - subst x. apply H1. apply in_or_app. now right.
  - now apply IH.
Qed.

Lemma add_edges_fresh es : forall G,
  pdist (map fst (ge G) ++ map fst es) ->
  fold_left (fun acc e => let '(a, b, ps) := e in nx_add_edge acc a b ps) es G = mkG (gn G) (ge G ++ es).
Proof.
  induction es as [|[[a b] ps] r IH]; intros G H; cbn [fold_left].
  - rewrite app_nil_r. now destruct G.
  - assert (Hn : nx_edge G a b = None).
    { unfold nx_edge. destruct (find (edge_is a b) (ge G)) as [[[x y] d]|] eqn:Ef; [|reflexivity]. exfalso.
      apply find_some in Ef as [Hin He]. rewrite edge_is_same_pair in He. cbn [fst] in He.
      rewrite (pdist_app_cross _ _ (x, y) (a, b) H) in He; [discriminate | |now left].
      change (x, y) with (fst (x, y, d)). now apply in_map. }
    unfold nx_add_edge at 2. rewrite Hn. rewrite IH; cbn [gn ge].
    + now rewrite <- app_assoc.
    + rewrite map_app. cbn [map fst]. rewrite <- app_assoc. exact H.
Qed.

(* ---------- relabelling is injective on the keys of the relabelled nodes ---------- *)
Lemma index_of_inj l : forall f k1 k2 i,
  index_of k1 l f = Some i -> index_of k2 l f = Some i -> k1 = k2.
Proof.
  induction l as [|[k ps] r IH]; intros f k1 k2 i; cbn [index_of]; [discriminate|].
  destruct (N.eqb k1 k) eqn:E1; destruct (N.eqb k2 k) eqn:E2.
  - apply N.eqb_eq in E1, E2. congruence.
  - intros H1 H2. inversion H1; subst. apply index_of_bounds in H2. lia.
  - intros H1 H2. inversion H2; subst. apply index_of_bounds in H1. lia.
  - apply IH.
Qed.

Definition relab (ns : list node) (first k : N) : N :=
  match index_of k ns first with Some i => i | None => k end.

Lemma relab_eqb ns first a c :
  ahas a ns = true -> ahas c ns = true -> N.eqb (relab ns first a) (relab ns first c) = N.eqb a c.
Proof.
  intros Ha Hc. unfold relab.
  destruct (index_of_some a ns first Ha) as [i Hi]. destruct (index_of_some c ns first Hc) as [j Hj]. rewrite Hi, Hj.
  destruct (N.eqb a c) eqn:E.
  - apply N.eqb_eq in E; subst c. rewrite Hi in Hj. inversion Hj. apply N.eqb_refl.
  - apply N.eqb_neq. intro Eij. subst j. apply N.eqb_neq in E. apply E. eapply index_of_inj; eauto.
Qed.

Lemma relabel_edge_fst ns first e : fst (relabel_edge ns first e) = (relab ns first (fst (fst e)), relab ns first (snd (fst e))).
Proof. destruct e as [[a b] ps]. reflexivity. Qed.

Lemma pdist_relabel ns first (es : list edge) :
  (forall a b ps, In (a, b, ps) es -> ahas a ns = true /\ ahas b ns = true) ->
  pdist (map fst es) -> pdist (map fst (map (relabel_edge ns first) es)).
Proof.
  induction es as [|[[a b] ps] r IH]; cbn [map pdist fst]; [auto|]. intros Hk [H1 H2].
  destruct (Hk a b ps (or_introl eq_refl)) as [Ha Hb]. split.
  - intros q Hq. apply in_map_iff in Hq as [e' [Ee He']]. apply in_map_iff in He' as [[[c d] ps'] [Ee' Hin]]. subst e' q.
    destruct (Hk c d ps' (or_intror Hin)) as [Hc Hd].
    specialize (H1 (c, d)). unfold same_pair in *. cbn [fst snd relabel_edge] in *. fold (relab ns first a) (relab ns first b)
      (relab ns first c) (relab ns first d).
    rewrite !relab_eqb by assumption. apply H1. change (c, d) with (fst (c, d, ps')). now apply in_map.
  - apply IH; [intros; apply (Hk a0 b0 ps0); now right | exact H2].
Qed.

(* ---------- the clone theorem ---------- *)
Lemma filter_nil_all {A} (f : A -> bool) l : (forall x, In x l -> f x = false) -> filter f l = [].
Proof.
  induction l as [|x r IH]; intro H; [reflexivity|]. cbn [filter]. rewrite (H x (or_introl eq_refl)).
  apply IH. intros; apply H; now right.
Qed.

Lemma filter_id_all {A} (f : A -> bool) l : (forall x, In x l -> f x = true) -> filter f l = l.
Proof.
  induction l as [|x r IH]; intro H; [reflexivity|]. cbn [filter]. rewrite (H x (or_introl eq_refl)).
  f_equal. apply IH. intros; apply H; now right.
Qed.

Lemma missing_relabel ns first : existsb node_id_missing (relabel_nodes ns first) = existsb node_id_missing ns.
Proof. revert first; induction ns as [|[k ps] r IH]; intro f; [reflexivity|]. cbn [relabel_nodes existsb]. now rewrite IH. Qed.

Theorem clone_same s g g2 ns es :
  SInv s -> EClosed (sg s) -> EDist (sg s) -> g <> g2 ->
  view (sg s) g = (ns, es) -> ns <> [] -> existsb node_id_missing ns = false ->
  snd (s_clone s g g2) = Ok RUnit /\
  view (sg (fst (s_clone s g g2))) g2 =
    (stamp g2 (relabel_nodes ns (snext s)), map (relabel_edge ns (snext s)) es).
Proof.
  intros HI Hcl Hdist Hne Hview Hns Hmiss. pose proof HI as [Hnd Hlt].
  assert (Hext : s_extract (sg s) g = Some (mkI ns es)).
  { rewrite (extract_is_view (sg s) g Hnd), Hview. cbn [fst snd]. destruct ns; [congruence | reflexivity]. }
  assert (Hok : edges_ok (mkI ns es) = true) by (eapply extract_edges_ok; eauto).
  unfold s_clone. rewrite Hext. unfold s_add_graph.
  set (s1 := s_del_graph s g2). set (first := snext s1).
  assert (Hfirst : first = snext s) by reflexivity.
  unfold relabel at 1. cbn [inodes]. rewrite missing_relabel, Hmiss. cbn [fst snd sg]. split; [reflexivity|].
  unfold relabel. cbn [inodes iedges].
  set (NS := stamp g2 (relabel_nodes ns first)). set (ES := map (relabel_edge ns first) es).
  pose proof (SInv_del_graph s g2 HI) as [H1 H2]. fold s1 in H1, H2.
  assert (Hcl1 : EClosed (sg s1)) by (unfold s1, s_del_graph; cbn [sg]; now apply closed_remove_nodes).
  assert (Hd1 : EDist (sg s1)) by (unfold s1, s_del_graph, nx_remove_nodes; cbn [sg]; now apply EDist_filter_edges).
  assert (HNSfst : map fst NS = seqN first (length ns)).
  { unfold NS. rewrite map_fst_stamp, relabel_nodes_fst. reflexivity. }
  assert (Hfresh : forall i, In i (map fst NS) -> ~ In i (ids (sg s1))).
  { intros i Hi Hin. rewrite HNSfst in Hi. apply seqN_In in Hi. apply H2 in Hin. unfold first in Hi. lia. }
  (* end points of the relabelled links are new ids *)
  assert (HESin : forall a b ps, In (a, b, ps) ES -> In a (map fst NS) /\ In b (map fst NS)).
  { intros a b ps Hin. rewrite HNSfst.
    pose proof (relabel_edges_in (mkI ns es) first a b ps Hok) as K. rewrite relabel_inodes_fst in K.
    unfold relabel in K. cbn [inodes iedges] in K. rewrite relabel_nodes_length in K. now apply K. }
  assert (Hkeys : forall a b ps, In (a, b, ps) es -> ahas a ns = true /\ ahas b ns = true).
  { intros a b ps Hin. unfold edges_ok in Hok. cbn [inodes iedges] in Hok. rewrite forallb_forall in Hok.
    specialize (Hok _ Hin). cbn in Hok. now apply andb_true_iff in Hok. }
  assert (Hpd : pdist (map fst (ge (sg s1)) ++ map fst ES)).
  { assert (Hes : pdist (map fst es)).
    { assert (E : es = filter (in_ids (ids_in (sg s) g)) (ge (sg s))) by (unfold view in Hview; now inversion Hview).
      rewrite E. unfold EDist in Hdist. clear -Hdist. induction (ge (sg s)) as [|[p d] r IH]; cbn [filter map pdist fst] in *; [exact I|].
      destruct Hdist as [A B]. destruct (in_ids _ (p, d)); cbn [map pdist fst]; [split|]; auto.
      intros q Hq. apply in_map_iff in Hq as [e [Ee He]]. apply filter_In in He as [He _]. apply A. rewrite <- Ee. now apply in_map. }
    pose proof (pdist_relabel ns first es Hkeys Hes) as HES. fold ES in HES.
    clear -Hd1 HES Hcl1 H2 HESin HNSfst. unfold EDist in Hd1.
    assert (Hcross : forall p q, In p (map fst (ge (sg s1))) -> In q (map fst ES) -> same_pair p q = false).
    { intros [x y] [a b] Hp Hq. apply in_map_iff in Hp as [[[x' y'] d] [Ep Hp]]. cbn in Ep. inversion Ep; subst x' y'.
      apply in_map_iff in Hq as [[[a' b'] d'] [Eq Hq]]. cbn in Eq. inversion Eq; subst a' b'.
      destruct (Hcl1 x y d Hp) as [Hx Hy]. apply H2 in Hx. apply H2 in Hy.
      destruct (HESin a b d' Hq) as [Ha Hb]. rewrite HNSfst in Ha, Hb. apply seqN_In in Ha, Hb.
      unfold same_pair. cbn [fst snd]. unfold first in *.
      assert (N.eqb x a = false) by (apply N.eqb_neq; lia). assert (N.eqb x b = false) by (apply N.eqb_neq; lia).
      now rewrite H, H0. }
    induction (map fst (ge (sg s1))) as [|p l IH]; cbn [app pdist] in *; [exact HES|].
    destruct Hd1 as [A B]. split.
    - intros q Hq. apply in_app_or in Hq as [Hq|Hq]; [now apply A | apply Hcross; [now left | exact Hq]].
    - apply IH; [exact B | intros; apply Hcross; [now right | assumption]]. }
  unfold nx_add_all. rewrite add_nodes_fresh; [| rewrite HNSfst; apply seqN_NoDup | exact Hfresh].
  rewrite add_edges_fresh by exact Hpd. cbn [gn ge].
  (* what g2 sees *)
  assert (Eold : filter (in_g g2) (gn (sg s1)) = []).
  { unfold s1, s_del_graph, nx_remove_nodes. cbn [sg gn]. rewrite search_graphid_ids_in.
    apply filter_filter_nil. intros [i ps] Hin Hg. apply negb_false_iff. apply memN_In. unfold ids_in.
    apply in_map_iff. exists (i, ps). split; [reflexivity|]. apply filter_In. now split. }
  assert (Enew : filter (in_g g2) NS = NS).
  { apply filter_id_all. intros nd Hin. now apply (stamp_in_g g2 (relabel_nodes ns first)). }
  rewrite missing_relabel, Hmiss. cbn [fst sg].
  unfold view, ids_in. cbn [gn ge]. rewrite filter_app, Eold, Enew. cbn [app]. f_equal.
  rewrite filter_app.
  assert (E1 : filter (in_ids (map fst NS)) (ge (sg s1)) = []).
  { apply filter_nil_all. intros [[x y] d] Hin. destruct (Hcl1 x y d Hin) as [Hx _]. apply H2 in Hx.
    apply in_ids_false_l. apply memN_false. rewrite HNSfst. rewrite seqN_In. unfold first. lia. }
  assert (E2 : filter (in_ids (map fst NS)) ES = ES).
  { apply filter_id_all. intros [[a b] ps] Hin. destruct (HESin a b ps Hin) as [Ha Hb]. unfold in_ids.
    apply memN_In in Ha, Hb. now rewrite Ha, Hb. }
  now rewrite E1, E2.
Qed.

Lemma EDist_init : EDist (sg init_store).
Proof. exact I. Qed.
Lemma EClosed_init : EClosed (sg init_store).
Proof. intros a b ps []. Qed.

(* after ANY history of well-formed operations *)
Theorem clone_same_all ops g g2 ns es :
  (forall o, In o ops -> wf_op o = true) -> g <> g2 ->
  let s := srun ops init_store in
  view (sg s) g = (ns, es) -> ns <> [] -> existsb node_id_missing ns = false ->
  snd (s_clone s g g2) = Ok RUnit /\
  view (sg (fst (s_clone s g g2))) g2 = (stamp g2 (relabel_nodes ns (snext s)), map (relabel_edge ns (snext s)) es).
Proof.
  intros Hwf Hne s Hv Hns Hm.
  destruct (clone_invariants_run ops init_store SInv_init EClosed_init EDist_init Hwf) as [A [B C]].
  now apply clone_same.
Qed.

(* independence: once cloned, operations addressed to either id never show in the other one *)
Theorem clone_independent pre g g2 ops :
  g <> g2 -> (forall o, In o ops -> frame_scope o = true /\ (target o = g \/ target o = g2)) ->
  let s := srun (pre ++ [OClone g g2]) init_store in
  view (sg (srun (filter (fun o => N.eqb (target o) g) ops) s)) g2 = view (sg s) g2 /\
  view (sg (srun (filter (fun o => N.eqb (target o) g2) ops) s)) g = view (sg s) g.
Proof.
  intros Hne H s. split; apply frame_histories; try (apply SInv_run; apply SInv_init).
  - intros o Ho. apply filter_In in Ho as [Ho Ht]. apply N.eqb_eq in Ht. destruct (H o Ho) as [A _]. split; [exact A | congruence].
  - intros o Ho. apply filter_In in Ho as [Ho Ht]. apply N.eqb_eq in Ht. destruct (H o Ho) as [A _]. split; [exact A | congruence].
Qed.

(* ---------- one nx.Graph per id: the clone is the relabelled, re-stamped copy of the whole source graph ---------- *)
From FIM Require Import Model.StoreDisjoint Proofs.IsolationDisjoint.

Theorem clone_same_disjoint d g g2 :
  EClosed (dget d g) -> EDist (dget d g) -> gn (dget d g) <> [] ->
  gn (dget d g2) = [] -> existsb node_id_missing (gn (dget d g)) = false ->
  snd (d_clone d g g2) = Ok RUnit /\
  dget (fst (d_clone d g g2)) g2 =
    mkG (stamp g2 (relabel_nodes (gn (dget d g)) 1)) (map (relabel_edge (gn (dget d g)) 1) (ge (dget d g))).
Proof.
  intros Hcl Hdist Hsrc Hempty Hmiss. destruct (d_clone_cases d g g2) as [[E0 _]|[_ E0]]; [contradiction|]. rewrite E0.
  unfold d_add_graph. rewrite Hempty.
  unfold d_extract, relabel. cbn [inodes iedges]. rewrite missing_relabel, Hmiss. cbn [fst snd]. split; [reflexivity|].
  rewrite dget_dput_ctr, dget_dput, N.eqb_refl.
  set (ns := gn (dget d g)). set (NS := stamp g2 (relabel_nodes ns 1)).
  assert (HNS : map fst NS = seqN 1 (length ns)) by (unfold NS; now rewrite map_fst_stamp, relabel_nodes_fst).
  unfold nx_add_all. rewrite add_nodes_fresh; [| rewrite HNS; apply seqN_NoDup | intros i _ []].
  rewrite add_edges_fresh; [reflexivity|]. cbn [ge app].
  apply pdist_relabel; [|exact Hdist].
  intros a b ps Hin. destruct (Hcl a b ps Hin) as [Ha Hb]. split; apply ahas_In; assumption.
Qed.

(* ---------- extract_graph in ANY reachable store (cross-graph links left by merge_nodes included) returns
   exactly the graph's own nodes and the links with BOTH ends in the graph ---------- *)
Theorem extract_exact_all ops g :
  let G := sg (srun ops init_store) in
  s_extract G g = match fst (view G g) with
                  | [] => None
                  | _ => Some (mkI (fst (view G g)) (snd (view G g)))
                  end.
Proof. cbv zeta. apply extract_is_view. apply (SInv_run ops init_store SInv_init). Qed.

(* non-vacuity: a store holding a link from g0's node 1 to g1's node 3 *)
Definition ex_cross : list op :=
  [OAddNode 10 20 30 None; OAddNode 11 20 30 None; OAddNode 11 21 31 None; OAddLink 11 20 40 21 None;
   OMerge 10 20 11 None].

Lemma cross_link_nonvacuous :
  let s := srun ex_cross init_store in
  forallb wf_op ex_cross = true /\
  ge (sg s) = [(1, 3, [(k_class, PV 40)])] /\                         (* the cross-graph link *)
  view (sg s) 10 = ([(1, [(k_graphid, PV 10); (k_nodeid, PV 20); (k_class, PV 30)])], []) /\
  s_extract (sg s) 10 = Some (mkI [(1, [(k_graphid, PV 10); (k_nodeid, PV 20); (k_class, PV 30)])] []) /\
  snd (s_clone s 10 12) = Ok RUnit /\
  view (sg (fst (s_clone s 10 12))) 12 = ([(4, [(k_graphid, PV 12); (k_nodeid, PV 20); (k_class, PV 30)])], []) /\
  view (sg (fst (s_clone s 10 12))) 11 = view (sg s) 11.
Proof. vm_compute. repeat split. Qed.

(* ---------- the two structural facts as invariants of the one-graph-per-id store ---------- *)
Lemma EDist_pg_ops G g :
  EDist G ->
  (forall n p v, EDist (fst (pg_update_node G g n p v))) /\
  (forall n p, EDist (fst (pg_unset_node G g n p))) /\
  (forall p v, EDist (fst (pg_update_nodes G g p v))) /\
  (forall n u, EDist (fst (pg_update_node_props G g n u))) /\
  (forall a b k gd f, EDist (fst (with_link G g a b k gd f))) /\
  (forall a r b ps, EDist (fst (pg_add_link G g a r b ps))) /\
  (forall n, EDist (fst (pg_delete_node G g n))).
Proof.
  intro H.
  assert (Kset : forall id ps, EDist (nx_set_node G id ps)) by (intros; now apply (EDist_same_ge _ G)).
  split; [|split; [|split; [|split; [|split; [|split]]]]].
  - intros n p v. unfold pg_update_node. destruct (N.eqb p k_class); [exact H|]. destruct (find_node G g n); [|exact H].
    destruct (nx_node G n0); cbn [fst]; [apply Kset | exact H].
  - intros n p. unfold pg_unset_node. destruct (N.eqb p k_class); [exact H|]. destruct (memN p no_unset); [exact H|].
    destruct (find_node G g n); [|exact H]. destruct (nx_node G n0); cbn [fst]; [apply Kset | exact H].
  - intros p v. unfold pg_update_nodes. destruct (find_all G g); [|exact H]. destruct (N.eqb p k_class); cbn [fst]; [exact H|].
    now apply (EDist_same_ge _ G).
  - intros n u. unfold pg_update_node_props. destruct (ahas k_class u); [exact H|]. destruct (find_node G g n); [|exact H].
    destruct (nx_node G n0); cbn [fst]; [apply Kset | exact H].
  - intros a b k gd f. unfold with_link. destruct gd; [exact H|].
    destruct (find_link G g a b) as [[[ia ib] q]|]; [|exact H]. destruct (has_val q k_class k); cbn [fst]; [|exact H].
    unfold EDist, nx_set_edge. cbn [ge]. now rewrite map_fst_set_edge.
  - intros a r b ps. unfold pg_add_link. destruct (find_node G g a); [|exact H]. destruct (find_node G g b); [|exact H].
    destruct ps as [u|]; cbn [fst]; [destruct (ahas k_class u); cbn [fst]; [exact H|]|]; now apply EDist_add_edge.
  - intro n. unfold pg_delete_node. destruct (find_node G g n); cbn [fst]; [|exact H].
    unfold nx_remove_node. now apply EDist_filter_edges.
Qed.

Lemma EDist_pg_add_node G g newid n c ps G' : EDist G -> pg_add_node G g newid n c ps = Some G' -> EDist G'.
Proof.
  intros H E. unfold pg_add_node in E. destruct (search _ _); [|discriminate].
  assert (H1 : EDist (nx_add_node G newid (blank_attrs g n c))).
  { apply (EDist_same_ge _ G); [|exact H]. unfold nx_add_node. now destruct (nx_node G newid). }
  destruct ps as [u|]; [|inversion E; subst; exact H1].
  destruct (nx_node _ newid); inversion E; subst; [now apply (EDist_same_ge _ (nx_add_node G newid (blank_attrs g n c))) | exact H1].
Qed.

Definition DWf (d : dstore) : Prop := forall g, EClosed (dget d g) /\ EDist (dget d g).

Lemma DWf_put d g G : DWf d -> EClosed G -> EDist G -> DWf (dput d g G).
Proof. intros H H1 H2 g'. rewrite dget_dput. destruct (N.eqb g' g); [now split | apply H]. Qed.

Lemma closed_fresh_graph ig stamped :
  edges_ok ig = true -> map fst stamped = map fst (inodes (relabel ig 1)) ->
  EClosed (nx_add_all empty_nxg stamped (iedges (relabel ig 1))).
Proof.
  intros Hok Hst. apply (closed_add_all _ _ _ 1).
  - constructor.
  - intros i [].
  - rewrite Hst, relabel_inodes_fst. f_equal. rewrite <- (map_length fst stamped), Hst, map_length. reflexivity.
  - intros a b ps Hin. rewrite Hst. now apply (relabel_edges_in ig 1 a b ps).
  - intros a b ps [].
Qed.

Lemma extract_edges_ok_disjoint d g : EClosed (dget d g) -> edges_ok (d_extract d g) = true.
Proof.
  intro H. unfold edges_ok, d_extract. cbn [inodes iedges]. apply forallb_forall. intros [[a b] ps] Hin.
  destruct (H a b ps Hin) as [Ha Hb]. apply andb_true_iff. split; apply ahas_In; assumption.
Qed.

Theorem DWf_step d o : DInv d -> wf_op o = true -> DWf d -> DWf (fst (dstep d o)).
Proof.
  intros HI Hwf H.
  assert (Hnd : forall g, NoDup (ids (dget d g))) by (intro g; apply (HI g)).
  assert (Kadd : forall g ig, edges_ok ig = true -> DWf (fst (d_add_graph d g ig))).
  { intros g ig Hok. unfold d_add_graph. destruct (gn (dget d g)); [|exact H].
    destruct (existsb node_id_missing (inodes (relabel ig 1))); cbn [fst]; [exact H|].
    intro g'. rewrite dget_dput_ctr. apply DWf_put; [exact H | | apply EDist_add_all; exact I].
    apply closed_fresh_graph; [exact Hok | apply map_fst_stamp]. }
  destruct o; cbn in Hwf; cbn [dstep dlift fst]; try exact H;
    try (apply DWf_put; [exact H | apply (closed_pg_ops (dget d g) g (Hnd g) (proj1 (H g))) | apply (EDist_pg_ops (dget d g) g (proj2 (H g)))]).
  - now apply Kadd.
  - unfold d_add_graph_direct. cbn [fst]. intro g'. rewrite dget_dput_ctr.
    apply DWf_put; [exact H | now apply closed_fresh_graph | apply EDist_add_all; exact I].
  - unfold d_del_graph. destruct (gn (dget d g)); [exact H|]. apply DWf_put; [exact H | intros a b q [] | exact I].
  - destruct (d_clone_cases d g g2) as [[_ E]|[_ E]]; rewrite E; [exact H|]. apply Kadd. apply extract_edges_ok_disjoint. apply H.
  - destruct (pg_add_node (dget d g) g (dcounter d g) n c ps) as [G'|] eqn:E; cbn [fst]; [|exact H].
    intro g'. rewrite dget_dput_ctr. apply DWf_put; [exact H | | eapply EDist_pg_add_node; [apply H | exact E]].
    eapply closed_add_node; [| apply H | exact E].
    destruct (HI g) as [_ Hlt]. cbn [sg snext] in Hlt. unfold nx_node. apply aget_None_notin. intro Hin. apply Hlt in Hin. lia.
Qed.

Theorem DWf_run ops : forall d, DInv d -> DWf d -> (forall o, In o ops -> wf_op o = true) -> DWf (drun ops d).
Proof.
  induction ops as [|o r IH]; intros d HI H Hwf; cbn [drun fold_left]; [exact H|].
  apply IH; [now apply DInv_step | apply DWf_step; auto; apply Hwf; now left | intros; apply Hwf; now right].
Qed.

Lemma DWf_init : DWf init_dstore.
Proof. intro g. split; [intros a b q [] | exact I]. Qed.

(* after ANY history of well-formed operations *)
Theorem clone_same_disjoint_all ops g g2 :
  (forall o, In o ops -> wf_op o = true) ->
  let d := drun ops init_dstore in
  gn (dget d g) <> [] -> gn (dget d g2) = [] -> existsb node_id_missing (gn (dget d g)) = false ->
  snd (d_clone d g g2) = Ok RUnit /\
  dget (fst (d_clone d g g2)) g2 =
    mkG (stamp g2 (relabel_nodes (gn (dget d g)) 1)) (map (relabel_edge (gn (dget d g)) 1) (ge (dget d g))).
Proof.
  intros Hwf d H0 H1 H2. destruct (DWf_run ops init_dstore DInv_init DWf_init Hwf g) as [A B].
  now apply clone_same_disjoint.
Qed.
